(* Tie by translation, C07 (group `targets`): Compiler._compile_targets (Gen/SrcTargets.v, regenerated from the live
   source on every run).  Tied here: the WILDCARD EXPANSION, the statement in front of the loop over the targets
   (selected by structure: the first statement of the translated body, an `if isinstance(targets, ast.Asterisk):`):
     wildcard_expand_src   `*` becomes [Target(Column(name), None) for name in self.table.wildcard_columns] - one target
                           per wildcard column of the CURRENT table, in that order, without an AS name - in the LOCAL
                           variable `targets`; the receiver and the parsed statement are not written;
     wildcard_keep_src     a list of targets is left as it is;
     wildcard_names        the model's Compile.wildcard_targets gives those targets exactly the column names, in order.
   The loop that follows (compile each expression, name it with get_target_name - tied in Proofs/SrcNaming.v -, the
   aggregate checks of check_aggregates - tied in Proofs/SrcCompilerWalk.v) and Compiler._inop are translated and
   regenerated on every run but not yet proved (see the note at the end). *)
From Coq Require Import String Ascii ZArith List Bool Lia.
Import ListNotations.
From Verif Require Import Base.PyValue Model.Eval Model.PyMini Model.PrimsApi Model.PrimsCompiler Model.PrimsSelect
  Proofs.PyMiniLemmas Proofs.PyMiniLemmas2 Proofs.SrcApi.
From Verif Require Model.Compile.
From Verif Require Import Gen.SrcTargets.
Open Scope string_scope.
Open Scope list_scope.
Open Scope Z_scope.

Definition wild_stmt : stmt := Eval cbv in nth 0 (f_body compile_targets) SPass.
Definition wild_cond : expr := Eval cbv in match wild_stmt with SIf c _ _ => c | _ => XConst PNone end.
Definition wild_comp : expr :=
  Eval cbv in match wild_stmt with SIf _ [SAssign _ e] _ => e | _ => XConst PNone end.

(* the shape the theorems rely on: if <test>: targets = <comprehension>  (no else branch) *)
Lemma wild_stmt_shape : wild_stmt = SIf wild_cond [SAssign (TName "targets") wild_comp] [].
Proof. reflexivity. Qed.

(* ast.Target(ast.Column(name), None) *)
Definition enc_wtarget (n : string) : pv :=
  record (zs TARGET) [("expression", record (zs COLUMN) [("name", PStr n)]); ("name", PNone)].
Definition asterisk : pv := record (zs ASTERISK) [].

Section Tie.
Variable call_ref : nat -> list pv -> pv.
Variable tbl : nat -> Compile.cnode.
Variable kids : nat -> list nat.
Variable mro : string -> list string.
Variable msg : string -> list pv -> pv.
Variable updatable : pv -> bool.
Variable upd : pv -> pv -> pv -> pv -> pv.
Notation prim := (prim_select tbl kids mro msg updatable upd).
Notation eval := (PyMini.eval call_ref prim).
Notation exec := (PyMini.exec call_ref prim).

Lemma comp_wild s1 : forall wild,
  comp_go call_ref prim s1
    (XPrim "beanquery.parser.ast.Target" [XPrim "beanquery.parser.ast.Column" [XName "name"]; XConst PNone]) "name" None
    (map PStr wild) = Ok (map enc_wtarget wild).
Proof.
  induction wild as [|n r IH]; [reflexivity|]. cbn [map SrcApi.comp_go bind].
  cbn [PyMini.eval read write locals bind]. rewrite lookup_update_eq. cbn [bind].
  change (prim "beanquery.parser.ast.Column" [PStr n]) with (@Ok pv (record (zs COLUMN) [("name", PStr n)])).
  cbn [bind].
  change (prim "beanquery.parser.ast.Target" [record (zs COLUMN) [("name", PStr n)]; PNone]) with (@Ok pv (enc_wtarget n)).
  cbn [bind snd]. rewrite IH. reflexivity.
Qed.

Theorem wildcard_expand_src : forall (s : st) (tbv : pv) (wild : list string),
  lookup "self" (locals s) = Some PSelf ->
  lookup "targets" (locals s) = Some asterisk ->
  lookup "table" (fields s) = Some tbv -> tbv <> PSelf ->
  prim "attr:wildcard_columns" [tbv] = Ok (PList (map PStr wild)) ->
  exec s wild_stmt = Ok (Next (write s (TName "targets") (PList (map enc_wtarget wild)))).
Proof.
  intros s tbv wild Hs Ht Hf Hn Hw. rewrite wild_stmt_shape.
  erewrite exec_if; [| unfold wild_cond; erewrite eval_prim1; [|apply eval_name; exact Ht]; reflexivity | reflexivity].
  cbv iota. cbn [PyMini.exec_block bind].
  erewrite exec_assign; [reflexivity|].
  unfold wild_comp. erewrite eval_listcomp_gen.
  2:{ erewrite eval_attr; [| cbn [PyMini.eval read bind]; rewrite Hs; cbn [bind]; rewrite Hf; reflexivity | exact Hn].
      change ("attr:" ++ "wildcard_columns")%string with "attr:wildcard_columns". rewrite Hw. reflexivity. }
  rewrite comp_wild. reflexivity.
Qed.

Theorem wildcard_keep_src : forall (s : st) (l : list pv),
  lookup "targets" (locals s) = Some (PList l) ->
  exec s wild_stmt = Ok (Next s).
Proof.
  intros s l Ht. rewrite wild_stmt_shape.
  erewrite exec_if; [| unfold wild_cond; erewrite eval_prim1; [|apply eval_name; exact Ht]; reflexivity | reflexivity].
  reflexivity.
Qed.

End Tie.

(* the model expands `*` to the same columns, in the same order, named by the column *)
Lemma wildcard_names : forall tb names ts,
  Compile.wildcard_targets_of tb names = Compile.Ok ts ->
  map Compile.ct_name ts = map (@Some string) names /\ map Compile.ct_agg ts = map (fun _ => false) names.
Proof.
  intros tb. induction names as [|n r IH]; intros ts H; cbn in H.
  - injection H as <-. split; reflexivity.
  - destruct (Compile.compile_column tb n) as [c|e]; cbn in H; [|discriminate].
    destruct (Compile.wildcard_targets_of tb r) as [rest|e]; cbn in H; [|discriminate].
    injection H as <-. destruct (IH rest eq_refl) as [I1 I2]. cbn. rewrite I1, I2. split; reflexivity.
Qed.
