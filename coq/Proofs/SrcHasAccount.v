(* C14 -- the tie by translation of has_account(context, pattern) (beanquery/query_env.py), the function behind
   PRINT / SELECT .. FROM has_account('..'); bld-env2.  Gen/SrcHasAccount.v is regenerated on every run
   (harness/vf/src_hasaccount.py); Model/PrimsHasAccount.v holds the model and the primitives.

   [has_account_src]: for ANY regular-expression engine (re_valid, re_search), any ledger (accounts_of), every entry and every
   pattern, interpreting the translated body on (context of the entry, pattern) returns the model's value: the pattern is
   compiled with re.IGNORECASE, SEARCHED (not matched) in every account get_entry_accounts gives for context.entry, the result
   is any(..) of the matches as a bool; an invalid pattern raises re.error. *)
From Coq Require Import String ZArith List Bool Lia.
Import ListNotations.
From Verif Require Import Base.PyValue Model.PyMini Model.PrimsEnv Model.PrimsHasAccount Gen.SrcHasAccount
  Proofs.PyMiniLemmas.
Open Scope string_scope.
Open Scope list_scope.
Open Scope Z_scope.

Section Tie.
Variable call_ref : nat -> list pv -> pv.
Variable re_valid : list Z -> bool.
Variable re_search : list Z -> list Z -> bool.
Variable accounts_of : pv -> list (list Z).
Notation prim := (prim_has_account re_valid re_search accounts_of).
Notation eval := (PyMini.eval call_ref prim).

Definition ELT : expr := XPrim "apply" [XName "search"; XName "account"].

Lemma items p : forall (l : list (list Z)) s, lookup "search" (locals s) = Some (p_search p 2) ->
  map_res (fun v => bind (eval (write s (TName "account") v) ELT) (fun q => Ok (snd q))) (pstrs l)
  = Ok (map (fun a => if re_search p a then p_amatch else PNone) l).
Proof.
  induction l as [|a l IH]; intros s Hs; [reflexivity|].
  cbn [pstrs map map_res]. fold (pstrs l). rewrite (IH s Hs).
  unfold ELT. cbn [PyMini.eval read write locals fields bind].
  rewrite lookup_update_neq by reflexivity. rewrite Hs. cbn [bind locals]. rewrite lookup_update_eq. cbn.
  reflexivity.
Qed.

Lemma any_items p l :
  existsb truthy_item (map (fun a => if re_search p a then p_amatch else PNone) l) = existsb (re_search p) l.
Proof.
  induction l as [|a l IH]; [reflexivity|]. cbn [map existsb]. rewrite IH.
  destruct (re_search p a); reflexivity.
Qed.

Theorem has_account_src_sec : forall e pattern,
  call_function call_ref prim envh_has_account [p_context e; pstr pattern]
  = ha_result (has_account re_valid re_search accounts_of e pattern).
Proof.
  intros e p. unfold has_account, call_function, envh_has_account.
  cbn [f_params f_body f_gen bind_params].
  remember (XListComp _ _ _ _) as LC eqn:ELC.
  cbn. destruct (re_valid p); [|reflexivity]. cbn.
  subst LC.
  match goal with |- context [PyMini.eval _ _ ?s (XListComp ?elt ?x ?it None)] =>
    rewrite (eval_listcomp call_ref prim elt x it s s (pstrs (accounts_of e))) by reflexivity end.
  fold ELT. rewrite (items p) by reflexivity. cbn. rewrite any_items. reflexivity.
Qed.
End Tie.

Theorem has_account_src : forall call_ref re_valid re_search accounts_of e pattern,
  call_function call_ref (prim_has_account re_valid re_search accounts_of) envh_has_account [p_context e; pstr pattern]
  = ha_result (has_account re_valid re_search accounts_of e pattern).
Proof. exact has_account_src_sec. Qed.
