(* Tie by translation, C05 / C08 (group `select`): the PyMini term generated on every run from the CURRENT source of
   Compiler._select (Gen/SrcSelect.v) computes what Model/Compile.v says - the ORDER of the steps and the handling of the
   compiler's state:

     select_run       for every table the sub-compilations leave behind (t1 .. t5) and every result they return,
                      interpreting the body gives [p_select]: FROM, targets, WHERE, the aggregate-in-WHERE check, the
                      conjunction EvalAnd([c_from, c_where]), GROUP BY, ORDER BY, the two consistency checks, EvalQuery
                      over the table the LAST sub-compilation left, self.table := the table saved on entry, PIVOT BY;
                      the first failing step decides the error;
     table_restored   hence: whenever _select returns, self.table is what it was on entry (whatever t1 .. t5 were);
     p_select_model   [p_select] is Compile.compile_from's result fed to Compile.finish_select, when the opaque
                      callables return what the model's functions return.

   Encodings and the state-threading reading of `self.m(..)` are in Model/PrimsSelect.v.  The receiver's attributes are
   the concrete prefix [flds] (its methods as opaque callables) followed by an arbitrary rest. *)
From Coq Require Import String Ascii ZArith List Bool Lia.
Import ListNotations.
From Verif Require Import Base.PyValue Model.Eval Model.PyMini Model.PrimsApi Model.PrimsCompiler Model.PrimsSelect
  Proofs.PyMiniLemmas Proofs.PyMiniLemmas2 Proofs.SrcApi.
From Verif Require Model.Compile.
From Verif Require Import Gen.SrcSelect.
Open Scope string_scope.
Open Scope list_scope.
Open Scope Z_scope.

Notation cerr := Compile.cerr.
Notation ctarget := Compile.ctarget.

(* K12: the only attribute threaded through the calls on self is the table *)
Lemma threaded_state_is_table : threaded_state = ["table"].
Proof. reflexivity. Qed.

Definition enc_res {A} (f : A -> pv) (r : Compile.result A cerr) : pv :=
  match r with Compile.Ok a => f a | Compile.Err e => PV (VErr (CompErr e)) end.

Definition tagg (t : ptarget) : bool := snd t.
Definition tname (t : ptarget) : option string := snd (fst t).

(* indexes of the non-aggregate targets *)
Fixpoint nonagg_from (i : nat) (pts : list ptarget) : list nat :=
  match pts with
  | [] => []
  | t :: r => if tagg t then nonagg_from (S i) r else i :: nonagg_from (S i) r
  end.

Definition covered (pts : list ptarget) (gi : list nat) : bool :=
  forallb (fun i => Compile.mem_nat i gi) (nonagg_from 0 pts)
  && forallb (fun i => Compile.mem_nat i (nonagg_from 0 pts)) gi.

(* ---------------------------------------------------------------- small facts *)
Lemma as_nref_nref i : as_nref (nref i) = Some i.
Proof.
  unfold as_nref, nref. cbn [PInt PStr]. rewrite zeqb_refl. cbn [andb].
  destruct (Z.leb_spec 0 (Z.of_nat i)); [|lia]. now rewrite Nat2Z.id.
Qed.

Lemma key_eqb_nat a b : key_eqb (enc_nat a) (enc_nat b) = Nat.eqb a b.
Proof.
  unfold enc_nat, PInt. cbn [key_eqb].
  destruct (Nat.eqb_spec a b) as [->|N]; [apply Z.eqb_refl|]. apply Z.eqb_neq. lia.
Qed.

Lemma existsb_key_nat a l : existsb (key_eqb (enc_nat a)) (map enc_nat l) = Compile.mem_nat a l.
Proof.
  unfold Compile.mem_nat. induction l as [|b t IH]; [reflexivity|]. cbn [map existsb]. now rewrite key_eqb_nat, IH.
Qed.

Lemma set_incl_nat a b : set_incl (map enc_nat a) (map enc_nat b) = forallb (fun i => Compile.mem_nat i b) a.
Proof.
  unfold set_incl. induction a as [|x t IH]; [reflexivity|]. cbn [map forallb]. now rewrite existsb_key_nat, IH.
Qed.

Lemma existsb_dedupe0 f l : existsb f (dedupe [] l) = existsb f l.
Proof. apply existsb_dedupe. intros y []. Qed.
Lemma forallb_dedupe0 f l : forallb f (dedupe [] l) = forallb f l.
Proof. apply forallb_dedupe. intros y []. Qed.

Lemma set_incl_dedupe a b : set_incl (dedupe [] a) (dedupe [] b) = set_incl a b.
Proof.
  unfold set_incl. rewrite forallb_dedupe0. induction a as [|x t IH]; [reflexivity|].
  cbn [forallb]. now rewrite existsb_dedupe0, IH.
Qed.

Lemma set_eq_nat a b :
  set_incl (dedupe [] (map enc_nat a)) (dedupe [] (map enc_nat b))
  && set_incl (dedupe [] (map enc_nat b)) (dedupe [] (map enc_nat a))
  = forallb (fun i => Compile.mem_nat i b) a && forallb (fun i => Compile.mem_nat i a) b.
Proof. now rewrite !set_incl_dedupe, !set_incl_nat. Qed.

Lemma nonagg_from_bound pts : forall i j, In j (nonagg_from i pts) -> (i <= j < i + length pts)%nat.
Proof.
  induction pts as [|t r IH]; intros i j H; [destruct H|]. cbn [nonagg_from length] in *.
  destruct (tagg t); [apply IH in H; lia|]. destruct H as [<-|H]; [lia|]. apply IH in H. lia.
Qed.

Arguments CompErr : simpl never.

Section Tie.
Variable call_ref : nat -> list pv -> pv.
Variable tbl : nat -> Compile.cnode.
Variable kids : nat -> list nat.
Variable mro : string -> list string.
Variable msg : string -> list pv -> pv.
Variable updatable : pv -> bool.
Variable upd : pv -> pv -> pv -> pv -> pv.
Notation prim := (prim_select tbl kids mro msg updatable upd).
Notation eval := (PyMini.eval call_ref prim).
Notation exec := (PyMini.exec call_ref prim).
Notation exec_block := (PyMini.exec_block call_ref prim).
Notation comp_go := (comp_go call_ref prim).

Definition T (t : ptarget) : ctarget := match t with (i, n, a) => Compile.mk_target (tbl i) n a end.

Lemma xb_cons s c t :
  exec_block s (c :: t) = bind (exec s c) (fun o => match o with Next s1 => exec_block s1 t | Ret _ _ => Ok o end).
Proof. reflexivity. Qed.

Lemma target_agg t : prim "attr:is_aggregate" [enc_target t] = Ok (PBool (tagg t)).
Proof. destruct t as [[i n] a]. reflexivity. Qed.
Lemma target_name t : prim "attr:name" [enc_target t] = Ok (popt PStr (tname t)).
Proof. destruct t as [[i n] a]. reflexivity. Qed.
Lemma enc_target_not_self t : enc_target t <> PSelf.
Proof. destruct t as [[i n] a]. discriminate. Qed.

Lemma eval_not a s s1 v b : eval s a = Ok (s1, v) -> pv_truthy v = Ok b -> eval s (XNot a) = Ok (s1, PBool (negb b)).
Proof. intros H1 H2. cbn [PyMini.eval]. rewrite H1. cbn [bind]. rewrite H2. reflexivity. Qed.

(* ---------------------------------------------------------------- the comprehensions of the body *)
Definition any_agg_expr : expr :=
  XPrim "builtins.any" [XListComp (XAttr (XName "c_target") "is_aggregate") "c_target" (XName "new_targets") None].

Lemma comp_aggs s1 : forall pts,
  comp_go s1 (XAttr (XName "c_target") "is_aggregate") "c_target" None (map enc_target pts) = Ok (map (fun t => PBool (tagg t)) pts).
Proof.
  induction pts as [|t r IH]; [reflexivity|]. cbn [map SrcApi.comp_go bind].
  erewrite eval_attr; [|apply eval_name; cbn [write locals]; apply lookup_update_eq|apply enc_target_not_self].
  change ("attr:" ++ "is_aggregate")%string with "attr:is_aggregate". rewrite target_agg. cbn [bind snd]. rewrite IH. reflexivity.
Qed.

Lemma eval_any_agg s new :
  lookup "new_targets" (locals s) = Some (enc_targets new) ->
  eval s any_agg_expr = Ok (s, PBool (existsb tagg new)).
Proof.
  intros H. unfold any_agg_expr.
  erewrite eval_prim1; [|erewrite eval_listcomp_gen; [|apply eval_name; exact H]; rewrite comp_aggs; reflexivity].
  change (prim "builtins.any" [PList (map (fun t => PBool (tagg t)) new)])
    with (bind (any_truthy (map (fun t => PBool (tagg t)) new)) (fun b => Ok (PBool b))).
  rewrite (any_truthy_existsb (fun v => match v with PV (VBool b) => b | _ => false end)).
  - cbn [bind]. f_equal. f_equal. f_equal. clear H. induction new as [|t r IH]; [reflexivity|].
    cbn [map existsb]. now rewrite IH.
  - intros x Hx. apply in_map_iff in Hx as (t & <- & _). destruct (tagg t); reflexivity.
Qed.

Definition nonagg_expr : expr :=
  XPrim "builtins.set"
    [XListComp (XIndex (XName "$t") (XConst (PInt 0))) "$t" (XPrim "builtins.enumerate" [XName "c_targets"])
       (Some (XNot (XAttr (XIndex (XName "$t") (XConst (PInt 1))) "is_aggregate")))].

Lemma comp_nonagg s1 : forall pts i,
  comp_go s1 (XIndex (XName "$t") (XConst (PInt 0))) "$t"
    (Some (XNot (XAttr (XIndex (XName "$t") (XConst (PInt 1))) "is_aggregate")))
    (enum_from (Z.of_nat i) (map enc_target pts)) = Ok (map enc_nat (nonagg_from i pts)).
Proof.
  induction pts as [|t r IH]; intros i; [reflexivity|]. cbn [map enum_from SrcApi.comp_go].
  set (sx := write s1 (TName "$t") (PTuple [PInt (Z.of_nat i); enc_target t])).
  assert (E1 : forall k v, index_at [PInt (Z.of_nat i); enc_target t] k = Ok v ->
                           eval sx (XIndex (XName "$t") (XConst (PInt k))) = Ok (sx, v)).
  { intros k v Hk. cbn [PyMini.eval read bind]. unfold sx at 1. cbn [write locals]. rewrite lookup_update_eq.
    cbn [bind PInt]. rewrite Hk. reflexivity. }
  assert (Ec : eval sx (XNot (XAttr (XIndex (XName "$t") (XConst (PInt 1))) "is_aggregate")) = Ok (sx, PBool (negb (tagg t)))).
  { eapply eval_not;
      [erewrite eval_attr; [|apply (E1 1 (enc_target t) eq_refl)|apply enc_target_not_self];
       change ("attr:" ++ "is_aggregate")%string with "attr:is_aggregate"; rewrite target_agg; reflexivity
      |reflexivity]. }
  rewrite Ec. cbn [bind snd pv_truthy PBool truthy].
  replace (Z.of_nat i + 1) with (Z.of_nat (S i)) by lia.
  cbn [nonagg_from]. destruct (tagg t); cbn [negb].
  - apply IH.
  - rewrite (E1 0 (PInt (Z.of_nat i)) eq_refl). cbn [bind snd]. rewrite IH. reflexivity.
Qed.

Lemma eval_nonagg s pts :
  lookup "c_targets" (locals s) = Some (enc_targets pts) ->
  eval s nonagg_expr = Ok (s, PList (dedupe [] (map enc_nat (nonagg_from 0 pts)))).
Proof.
  intros H. unfold nonagg_expr.
  pose proof (comp_nonagg s pts 0) as Hc. cbn [Z.of_nat] in Hc.
  erewrite eval_prim1;
    [|erewrite eval_listcomp_gen; [|erewrite eval_prim1; [|apply eval_name; exact H]; reflexivity];
      rewrite Hc; reflexivity].
  reflexivity.
Qed.

(* the names of the targets the GROUP BY clause does not cover: only the message depends on them *)
Notation fmt_q := (PV (VStr [34; 123; 125; 34])).
Definition missing_elt : expr :=
  XCallMethod (XConst fmt_q) "format" [XAttr (XPrim "getitem" [XName "c_targets"; XName "index"]) "name"].
Definition missing_val (pts : list ptarget) (x : pv) : pv :=
  match x with
  | PV (VInt z) => msg "call:format" [fmt_q; popt PStr (tname (nth (Z.to_nat z) pts (0%nat, None, false)))]
  | _ => PNone
  end.

Lemma comp_missing s1 pts :
  lookup "c_targets" (locals s1) = Some (enc_targets pts) ->
  forall l, (forall x, In x l -> exists j, x = enc_nat j /\ (j < length pts)%nat) ->
  comp_go s1 missing_elt "index" None l = Ok (map (missing_val pts) l).
Proof.
  intros Hc. induction l as [|x r IH]; intros Hl; [reflexivity|]. cbn [map SrcApi.comp_go bind].
  destruct (Hl x (or_introl eq_refl)) as (j & -> & Hj).
  assert (E : eval (write s1 (TName "index") (enc_nat j)) missing_elt =
              Ok (write s1 (TName "index") (enc_nat j), missing_val pts (enc_nat j))).
  { unfold missing_elt. cbn [PyMini.eval read write locals bind].
    rewrite lookup_update_neq by reflexivity. rewrite Hc. cbn [bind locals]. rewrite lookup_update_eq. cbn [bind].
    change (prim "getitem" [enc_targets pts; enc_nat j]) with (index_at (map enc_target pts) (Z.of_nat j)).
    rewrite (index_at_nat _ _ PNone) by (rewrite map_length; exact Hj). cbn [bind].
    rewrite (nth_indep _ PNone (enc_target (0%nat, None, false))) by (rewrite map_length; exact Hj).
    rewrite map_nth.
    pose proof (enc_target_not_self (nth j pts (0%nat, None, false))) as NS.
    destruct (enc_target (nth j pts (0%nat, None, false))) eqn:Et; try congruence;
      rewrite <- Et; change ("attr:" ++ "name")%string with "attr:name"; rewrite target_name; cbn [bind];
      unfold missing_val, enc_nat, PInt; rewrite Nat2Z.id; reflexivity. }
  rewrite E. cbn [bind snd]. rewrite IH by (intros y Hy; apply Hl; right; exact Hy). reflexivity.
Qed.

(* ---------------------------------------------------------------- Compiler._select *)
Variables t0 t1 t2 t3 t4 t5 : pv.
Variables tg fc wc gb ob pb lim dist : pv.
Variables kF kT kC kG kO kP : nat.
Variable rest : env.

(* the receiver: its table and its methods (opaque callables), then anything *)
Definition flds (t : pv) : env :=
  ("table", t) :: ("_compile_from", PRef kF) :: ("_compile_targets", PRef kT) :: ("_compile", PRef kC)
  :: ("_compile_group_by", PRef kG) :: ("_compile_order_by", PRef kO) :: ("_compile_pivot_by", PRef kP) :: rest.

(* the parsed statement: an ast.Select *)
Definition SEL : pv :=
  record (zs SELECT) [("targets", tg); ("from_clause", fc); ("where_clause", wc); ("group_by", gb); ("order_by", ob);
                      ("pivot_by", pb); ("limit", lim); ("distinct", dist)].

Definition gres := (list ptarget * option (list nat) * option nat)%type.
Definition ores := (list ptarget * option (list (nat * bool)))%type.

Variable rfrom : Compile.result (option nat) cerr.
Variable rtargets : Compile.result (list ptarget) cerr.
Variable rwhere : Compile.result (option nat) cerr.
Variable fgroup : list ptarget -> Compile.result gres cerr.
Variable forder : list ptarget -> Compile.result ores cerr.
Variable fpivot : list ptarget -> option (list nat) -> Compile.result (option (nat * nat)) cerr.
Variable and_id : nat -> nat -> nat.

Definition ka : nat := 0.     (* refs: beanquery.compiler.is_aggregate *)
Definition kand : nat := 1.   (* refs: beanquery.query_compile.EvalAnd *)
Lemma refs_checked : ref_of refs "beanquery.compiler.is_aggregate" = Some ka
                     /\ ref_of refs "beanquery.query_compile.EvalAnd" = Some kand.
Proof. split; reflexivity. Qed.

(* what the opaque callables return: the table they leave behind (t1 .. t5: ANY value) and their result *)
Hypothesis Hfrom : call_ref kF [t0; fc] = enc_res (fun cf => PTuple [t1; popt nref cf]) rfrom.
Hypothesis Htargets : call_ref kT [t1; tg] = enc_res (fun pts => PTuple [t2; enc_targets pts]) rtargets.
Hypothesis Hwhere : call_ref kC [t2; wc] = enc_res (fun ow => PTuple [t3; popt nref ow]) rwhere.
Hypothesis Hagg : forall i, call_ref ka [nref i] = PBool (Compile.has_agg (tbl i)).
Hypothesis Hand : forall f w, call_ref kand [PList [nref f; nref w]] = nref (and_id f w).
Hypothesis Hgroup : forall pts, call_ref kG [t3; gb; enc_targets pts] =
  enc_res (fun r : gres => match r with (new, gi, hi) =>
             PTuple [t4; PTuple [enc_targets new; popt enc_nats gi; popt enc_nat hi]] end) (fgroup pts).
Hypothesis Horder : forall pts, call_ref kO [t4; ob; enc_targets pts] =
  enc_res (fun r : ores => match r with (new, os) => PTuple [t5; PTuple [enc_targets new; popt enc_ospec os]] end) (forder pts).
Hypothesis Hpivot : forall pts gi, call_ref kP [pb; enc_targets pts; popt enc_nats gi] =
  enc_res (popt (fun p : nat * nat => enc_nats [fst p; snd p])) (fpivot pts gi).

(* a compiled SELECT on heap references *)
Record pquery := { pq_targets : list ptarget; pq_where : option nat; pq_group : option (list nat); pq_having : option nat;
                   pq_order : option (list (nat * bool)); pq_pivots : option (nat * nat) }.

Definition conj_where (cf ow : option nat) : option nat :=
  match cf, ow with
  | Some f, Some w => Some (and_id f w)
  | Some f, None => Some f
  | None, w => w
  end.

(* from GROUP BY on, given the compiled targets and the WHERE condition *)
Definition p_tail (pts : list ptarget) (cw : option nat) : Compile.result pquery cerr :=
  Compile.bind (fgroup pts) (fun g => match g with (new1, gi, hi) =>
  let pts1 := pts ++ new1 in
  Compile.bind (forder pts1) (fun o => match o with (new2, os) =>
  if match gi with None => existsb tagg new2 | Some _ => false end then Compile.Err Compile.EOrderAggNonAgg else
  let pts2 := pts1 ++ new2 in
  if match gi with Some g => negb (covered pts2 g) | None => false end then Compile.Err Compile.ENotCovered else
  Compile.bind (fpivot pts2 gi) (fun piv =>
  Compile.Ok {| pq_targets := pts2; pq_where := cw; pq_group := gi; pq_having := hi; pq_order := os;
                pq_pivots := piv |}) end) end).

Definition p_select : Compile.result pquery cerr :=
  Compile.bind rfrom (fun cf =>
  Compile.bind rtargets (fun pts =>
  Compile.bind rwhere (fun ow =>
  if match ow with Some w => Compile.has_agg (tbl w) | None => false end then Compile.Err Compile.EAggInWhere
  else p_tail pts (conj_where cf ow)))).

Definition enc_pquery (tb : pv) (q : pquery) : pv :=
  let e := enc_query tb (pq_targets q) (pq_where q) (pq_group q) (pq_having q) (pq_order q) lim dist in
  match pq_pivots q with Some (a, b) => enc_pivot e a b | None => e end.

(* one statement at a time: the rest of the block stays hidden behind TL while the statement is evaluated *)
Ltac step :=
  try match goal with TL := _ |- _ => idtac end;
  repeat match goal with ETL : ?TL = _ :> list stmt |- _ => subst TL end;
  lazymatch goal with
  | |- context [PyMini.exec_block _ _ ?ss ?ll] =>
      lazymatch ll with
      | cons ?cc ?tt =>
          let TL := fresh "TL" in let ETL := fresh "ETL" in
          remember tt as TL eqn:ETL; rewrite (xb_cons ss cc TL); cbn
      end
  end.

Ltac hide e :=
  match goal with
  | |- context [e] => let X := fresh "X" in let E := fresh "EX" in remember e as X eqn:E
  end.

Definition finish (r : res outcome) : res (env * pv) :=
  bind r (fun o => match o with Next s => Ok (fields s, PNone) | Ret s v => Ok (fields s, v) end).

Definition missing_comp : expr :=
  XListComp missing_elt "index"
    (XPrim "set.difference" [XName "non_aggregate_indexes"; XPrim "builtins.set" [XName "group_indexes"]]) None.

Lemma eval_missing s pts g :
  lookup "c_targets" (locals s) = Some (enc_targets pts) ->
  lookup "non_aggregate_indexes" (locals s) = Some (PList (dedupe [] (map enc_nat (nonagg_from 0 pts)))) ->
  lookup "group_indexes" (locals s) = Some (enc_nats g) ->
  exists vs, eval s missing_comp = Ok (s, PList vs).
Proof.
  intros Hc Hn Hg. unfold missing_comp.
  set (l := filter (fun x => negb (existsb (key_eqb x) (dedupe [] (map enc_nat g)))) (dedupe [] (map enc_nat (nonagg_from 0 pts)))).
  exists (map (missing_val pts) l).
  erewrite eval_listcomp_gen.
  2:{ cbn [PyMini.eval read bind]. rewrite Hn. cbn [bind]. rewrite Hg. cbn [bind]. reflexivity. }
  fold l. rewrite (comp_missing s pts Hc l); [reflexivity|].
  intros x Hx. unfold l in Hx. apply filter_In in Hx as [Hx _]. apply dedupe_incl in Hx.
  apply in_map_iff in Hx as (j & <- & Hj). exists j. split; [reflexivity|].
  apply nonagg_from_bound in Hj. lia.
Qed.

Definition tail_stmts : list stmt := skipn 6 (f_body compile_select).

Lemma select_tail cf pts cw :
  finish (exec_block
            {| locals := [("self", PSelf); ("node", SEL); ("outer", t0); ("c_from_expr", popt nref cf);
                          ("c_targets", enc_targets pts); ("c_where", popt nref cw)];
               fields := flds t3 |} tail_stmts) =
  match p_tail pts cw with
  | Compile.Ok q => Ok (flds t0, enc_pquery t5 q)
  | Compile.Err e => Exc (CompErr e)
  end.
Proof.
  unfold tail_stmts, p_tail, finish. cbv [skipn f_body compile_select].
  fold any_agg_expr. fold nonagg_expr. fold missing_elt. fold missing_comp.
  hide any_agg_expr. hide nonagg_expr. hide missing_comp.
  step. rewrite Hgroup. destruct (fgroup pts) as [[[new1 gi] hi]|e]; cbn [enc_res Compile.bind]; [|reflexivity]. cbn.
  step. step. rewrite <- map_app. change (PList (map enc_target (pts ++ new1))) with (enc_targets (pts ++ new1)).
  step. rewrite Horder. destruct (forder (pts ++ new1)) as [[new2 os]|e]; cbn [enc_res Compile.bind]; [|reflexivity]. cbn.
  step.
  (* aggregates in ORDER BY of a non-aggregate query *)
  destruct gi as [g|].
  - step. step. rewrite <- map_app.
    change (PList (map enc_target ((pts ++ new1) ++ new2))) with (enc_targets ((pts ++ new1) ++ new2)).
    (* the non-aggregate targets are exactly the group indexes *)
    step. subst X0. erewrite eval_nonagg by reflexivity. cbn.
    rewrite set_eq_nat. fold (covered ((pts ++ new1) ++ new2) g).
    destruct (covered ((pts ++ new1) ++ new2) g) eqn:Ecov; cbn.
    + step. step. step.
      pose proof (Hpivot ((pts ++ new1) ++ new2) (Some g)) as Hp. cbn [popt] in Hp. rewrite Hp.
      destruct (fpivot ((pts ++ new1) ++ new2) (Some g)) as [[[a b]|]|e]; cbn; try reflexivity.
      * step. reflexivity.
      * step. step. reflexivity.
    + subst X1.
      destruct (eval_missing
                  {| locals := [("self", PSelf); ("node", SEL); ("outer", t0); ("c_from_expr", popt nref cf);
                                ("c_targets", enc_targets ((pts ++ new1) ++ new2)); ("c_where", popt nref cw);
                                ("$r", PTuple [enc_targets new2; popt enc_ospec os]);
                                ("new_targets", enc_targets new2); ("group_indexes", enc_nats g);
                                ("having_index", popt enc_nat hi); ("order_spec", popt enc_ospec os);
                                ("non_aggregate_indexes",
                                 PList (dedupe [] (map enc_nat (nonagg_from 0 ((pts ++ new1) ++ new2)))))];
                     fields := flds t5 |} ((pts ++ new1) ++ new2) g eq_refl eq_refl eq_refl) as [vs Hvs].
      unfold flds in Hvs. rewrite Hvs. cbn. reflexivity.
  - step. subst X. erewrite eval_any_agg by reflexivity. cbn.
    destruct (existsb tagg new2) eqn:Eagg; cbn; [reflexivity|].
    step. rewrite <- map_app.
    change (PList (map enc_target ((pts ++ new1) ++ new2))) with (enc_targets ((pts ++ new1) ++ new2)).
    step. step. step. step.
    pose proof (Hpivot ((pts ++ new1) ++ new2) None) as Hp. cbn [popt] in Hp. rewrite Hp.
    destruct (fpivot ((pts ++ new1) ++ new2) None) as [[[a b]|]|e]; cbn; try reflexivity.
    + step. reflexivity.
    + step. step. reflexivity.
Qed.

Theorem select_run :
  call_method call_ref prim compile_select (flds t0) [SEL] =
  match p_select with
  | Compile.Ok q => Ok (flds t0, enc_pquery t5 q)
  | Compile.Err e => Exc (CompErr e)
  end.
Proof.
  unfold call_method, compile_select, p_select. cbn [f_params f_body bind_params bind f_gen].
  step. step. rewrite Hfrom. destruct rfrom as [cf|e]; cbn [enc_res Compile.bind]; [|reflexivity]. cbn.
  step. rewrite Htargets. destruct rtargets as [pts|e]; cbn [enc_res Compile.bind]; [|reflexivity]. cbn.
  step. rewrite Hwhere. destruct rwhere as [ow|e]; cbn [enc_res Compile.bind]; [|reflexivity]. cbn.
  (* aggregates are not allowed in WHERE; c_where := c_from AND c_where *)
  assert (Hagg' : forall i, call_ref 0%nat [nref i] = PBool (Compile.has_agg (tbl i))) by exact Hagg.
  assert (Hand' : forall f w, call_ref 1%nat [PList [nref f; nref w]] = nref (and_id f w)) by exact Hand.
  destruct ow as [w|].
  - step. rewrite Hagg'. destruct (Compile.has_agg (tbl w)) eqn:Ew; cbn; [reflexivity|].
    destruct cf as [f|]; step; [rewrite Hand'; cbn|]; subst TL.
    + exact (select_tail (Some f) pts (Some (and_id f w))).
    + exact (select_tail None pts (Some w)).
  - step. destruct cf as [f|]; step; subst TL.
    + exact (select_tail (Some f) pts (Some f)).
    + exact (select_tail None pts None).
Qed.

(* whenever _select returns, the compiler's table is the one it had on entry - whatever tables the sub-compilations
   left behind (t1 .. t5 are arbitrary) *)
Theorem table_restored : forall flds' v,
  call_method call_ref prim compile_select (flds t0) [SEL] = Ok (flds', v) ->
  flds' = flds t0 /\ lookup "table" flds' = Some t0.
Proof.
  intros flds' v H. rewrite select_run in H. destruct p_select; [|discriminate].
  injection H as <- _. split; reflexivity.
Qed.

(* ---------------------------------------------------------------- [p_select] is the model's SELECT *)
Variable tb : Compile.table.
Variable grp : option (list Compile.kref * option Compile.rnode).
Variable ord : list (Compile.kref * bool).
Variable piv : option (Compile.pcol * Compile.pcol).
Variable mlim : option Z.
Variable mdist : bool.

Definition wh_of (r : Compile.result (option nat) cerr) : option Compile.rnode :=
  match r with
  | Compile.Ok None => None
  | Compile.Ok (Some i) => Some (Compile.Ok (tbl i))
  | Compile.Err e => Some (Compile.Err e)
  end.

Definition T_query (q : pquery) : Compile.cquery :=
  Compile.mk_query tb (map T (pq_targets q)) (option_map tbl (pq_where q)) (pq_group q) (pq_having q) (pq_order q)
                   mlim mdist (pq_pivots q).

Hypothesis Mgroup : forall pts, Compile.compile_group_by (map T pts) grp =
  match fgroup pts with
  | Compile.Ok (new, gi, hi) => Compile.Ok (map T (pts ++ new), gi, hi)
  | Compile.Err e => Compile.Err e
  end.
Hypothesis Morder : forall pts, Compile.compile_order_by (map T pts) ord =
  match forder pts with
  | Compile.Ok (new, os) => Compile.Ok (map T (pts ++ new), os)
  | Compile.Err e => Compile.Err e
  end.
Hypothesis Mpivot : forall pts gi, Compile.compile_pivot_by (map T pts) gi piv = fpivot pts gi.
Hypothesis Mand : forall f w, rfrom = Compile.Ok (Some f) -> rwhere = Compile.Ok (Some w) ->
  tbl (and_id f w) = Compile.NAnd [tbl f; tbl w].

Lemma nonagg_indexes_T pts : Compile.nonagg_indexes (map T pts) = nonagg_from 0 pts.
Proof.
  unfold Compile.nonagg_indexes. generalize 0%nat. induction pts as [|[[x n] a] r IH]; intros i; [reflexivity|].
  cbn [map length seq combine flat_map nonagg_from tagg snd T Compile.ct_agg]. rewrite IH. destruct a; reflexivity.
Qed.

Lemma existsb_agg_T pts : existsb Compile.ct_agg (map T pts) = existsb tagg pts.
Proof. induction pts as [|[[x n] a] r IH]; [reflexivity|]. cbn [map existsb T Compile.ct_agg tagg snd]. now rewrite IH. Qed.

Lemma skipn_T pts new : skipn (length (map T pts)) (map T (pts ++ new)) = map T new.
Proof. rewrite map_app. rewrite skipn_app, skipn_all, Nat.sub_diag. reflexivity. Qed.

Theorem p_select_model : forall cf pts, rfrom = Compile.Ok cf -> rtargets = Compile.Ok pts ->
  Compile.finish_select tb (option_map tbl cf) (map T pts) (wh_of rwhere) grp ord piv mlim mdist =
  match p_select with Compile.Ok q => Compile.Ok (T_query q) | Compile.Err e => Compile.Err e end.
Proof.
  clear Hfrom Htargets Hwhere Hagg Hand Hgroup Horder Hpivot.
  intros cf pts E1 E2. unfold p_select, Compile.finish_select. rewrite E1, E2. cbn [Compile.bind].
  assert (Tail : forall cw,
    Compile.bind (Compile.compile_group_by (map T pts) grp) (fun g =>
      let '(ts1, group_indexes, having_index) := g in
      Compile.bind (Compile.compile_order_by ts1 ord) (fun o =>
      let '(ts2, order_spec) := o in
      if match group_indexes with
         | None => existsb Compile.ct_agg (skipn (length ts1) ts2)
         | Some _ => false
         end then Compile.Err Compile.EOrderAggNonAgg else
      if match group_indexes with
         | Some gi => negb (forallb (fun i => Compile.mem_nat i gi) (Compile.nonagg_indexes ts2)
                            && forallb (fun i => Compile.mem_nat i (Compile.nonagg_indexes ts2)) gi)
         | None => false
         end then Compile.Err Compile.ENotCovered else
      Compile.bind (Compile.compile_pivot_by ts2 group_indexes piv) (fun pivots =>
      Compile.Ok (Compile.mk_query tb ts2 (option_map tbl cw) group_indexes having_index order_spec mlim mdist pivots))))
    = match p_tail pts cw with Compile.Ok q => Compile.Ok (T_query q) | Compile.Err e => Compile.Err e end).
  { intros cw. unfold p_tail. rewrite Mgroup. destruct (fgroup pts) as [[[new1 gi] hi]|e]; cbn [Compile.bind]; [|reflexivity].
    rewrite Morder. destruct (forder (pts ++ new1)) as [[new2 os]|e]; cbn [Compile.bind]; [|reflexivity].
    rewrite skipn_T, existsb_agg_T, nonagg_indexes_T.
    destruct gi as [g|].
    - fold (covered ((pts ++ new1) ++ new2) g). destruct (covered ((pts ++ new1) ++ new2) g); cbn [negb]; [|reflexivity].
      rewrite Mpivot. destruct (fpivot ((pts ++ new1) ++ new2) (Some g)); reflexivity.
    - destruct (existsb tagg new2); [reflexivity|].
      rewrite Mpivot. destruct (fpivot ((pts ++ new1) ++ new2) None); reflexivity. }
  destruct rwhere as [[w|]|e] eqn:Erw; cbn [wh_of Compile.bind]; [| |reflexivity].
  - destruct (Compile.has_agg (tbl w)); [reflexivity|].
    destruct cf as [f|]; cbn [option_map conj_where].
    + rewrite <- (Tail (Some (and_id f w))). cbn [option_map]. rewrite (Mand f w E1 eq_refl). reflexivity.
    + exact (Tail (Some w)).
  - destruct cf as [f|]; cbn [option_map conj_where]; [exact (Tail (Some f))|exact (Tail None)].
Qed.

End Tie.

(* ---------------------------------------------------------------- the statements Properties/C05.v, C08.v restate *)
(* interpreting Compiler._select against the model: when the opaque callables return what the model's functions return
   (and leave the table of the FROM clause in place), the method returns the encoding of the query
   Compile.finish_select builds, resp. raises the CompilationError the model reports; the table is restored *)
Theorem select_flow_source :
  forall (call_ref : nat -> list pv -> pv) (tbl : nat -> Compile.cnode) (kids : nat -> list nat)
         (mro : string -> list string) (msg : string -> list pv -> pv) (updatable : pv -> bool)
         (upd : pv -> pv -> pv -> pv -> pv) (t0 t1 tg fc wc gb ob pb lim dist : pv) (kF kT kC kG kO kP : nat)
         (rest : env) (cf : option nat) (pts : list ptarget) (rwhere : Compile.result (option nat) cerr)
         (fgroup : list ptarget -> Compile.result gres cerr) (forder : list ptarget -> Compile.result ores cerr)
         (fpivot : list ptarget -> option (list nat) -> Compile.result (option (nat * nat)) cerr) (and_id : nat -> nat -> nat)
         (tb : Compile.table) (grp : option (list Compile.kref * option Compile.rnode)) (ord : list (Compile.kref * bool))
         (piv : option (Compile.pcol * Compile.pcol)) (mlim : option Z) (mdist : bool),
  call_ref kF [t0; fc] = PTuple [t1; popt nref cf] ->
  call_ref kT [t1; tg] = PTuple [t1; enc_targets pts] ->
  call_ref kC [t1; wc] = enc_res (fun ow => PTuple [t1; popt nref ow]) rwhere ->
  (forall i, call_ref ka [nref i] = PBool (Compile.has_agg (tbl i))) ->
  (forall f w, call_ref kand [PList [nref f; nref w]] = nref (and_id f w)) ->
  (forall f w, cf = Some f -> rwhere = Compile.Ok (Some w) -> tbl (and_id f w) = Compile.NAnd [tbl f; tbl w]) ->
  (forall pts, call_ref kG [t1; gb; enc_targets pts] =
     enc_res (fun r : gres => match r with (new, gi, hi) =>
                PTuple [t1; PTuple [enc_targets new; popt enc_nats gi; popt enc_nat hi]] end) (fgroup pts)) ->
  (forall pts, Compile.compile_group_by (map (T tbl) pts) grp =
     match fgroup pts with
     | Compile.Ok (new, gi, hi) => Compile.Ok (map (T tbl) (pts ++ new), gi, hi)
     | Compile.Err e => Compile.Err e
     end) ->
  (forall pts, call_ref kO [t1; ob; enc_targets pts] =
     enc_res (fun r : ores => match r with (new, os) => PTuple [t1; PTuple [enc_targets new; popt enc_ospec os]] end)
             (forder pts)) ->
  (forall pts, Compile.compile_order_by (map (T tbl) pts) ord =
     match forder pts with
     | Compile.Ok (new, os) => Compile.Ok (map (T tbl) (pts ++ new), os)
     | Compile.Err e => Compile.Err e
     end) ->
  (forall pts gi, call_ref kP [pb; enc_targets pts; popt enc_nats gi] =
     enc_res (popt (fun p : nat * nat => enc_nats [fst p; snd p])) (fpivot pts gi)) ->
  (forall pts gi, Compile.compile_pivot_by (map (T tbl) pts) gi piv = fpivot pts gi) ->
  match Compile.finish_select tb (option_map tbl cf) (map (T tbl) pts) (wh_of tbl rwhere) grp ord piv mlim mdist with
  | Compile.Ok q =>
      exists pq, call_method call_ref (prim_select tbl kids mro msg updatable upd) compile_select
                   (flds kF kT kC kG kO kP rest t0) [SEL tg fc wc gb ob pb lim dist] =
                 Ok (flds kF kT kC kG kO kP rest t0, enc_pquery lim dist t1 pq)
                 /\ T_query tbl tb mlim mdist pq = q
  | Compile.Err e =>
      call_method call_ref (prim_select tbl kids mro msg updatable upd) compile_select
        (flds kF kT kC kG kO kP rest t0) [SEL tg fc wc gb ob pb lim dist] = Exc (CompErr e)
  end.
Proof.
  intros call_ref tbl kids mro msg updatable upd t0 t1 tg fc wc gb ob pb lim dist kF kT kC kG kO kP rest cf pts rwhere
         fgroup forder fpivot and_id tb grp ord piv mlim mdist Hf Ht Hw Ha Hn Mn Hg Mg Ho Mo Hp Mp.
  rewrite (p_select_model tbl (Compile.Ok cf) (Compile.Ok pts) rwhere fgroup forder fpivot and_id tb grp ord piv mlim mdist
             Mg Mo Mp) with (cf := cf) (pts := pts); [|intros f w E; injection E as ->; apply Mn; reflexivity|reflexivity|reflexivity].
  rewrite (select_run call_ref tbl kids mro msg updatable upd t0 t1 t1 t1 t1 t1 tg fc wc gb ob pb lim dist kF kT kC kG kO kP
             rest (Compile.Ok cf) (Compile.Ok pts) rwhere fgroup forder fpivot and_id Hf Ht Hw Ha Hn Hg Ho Hp).
  destruct (p_select tbl (Compile.Ok cf) (Compile.Ok pts) rwhere fgroup forder fpivot and_id) as [pq|e]; [|reflexivity].
  exists pq. split; reflexivity.
Qed.

(* the hypotheses of select_flow_source are satisfiable: SELECT a FROM <a> WHERE <b> without GROUP BY / ORDER BY /
   PIVOT BY, over every list of targets *)
Definition ex_tbl (n : nat) : Compile.cnode :=
  if Nat.eqb n 3 then Compile.NAnd [Compile.NCol "a" "bool"; Compile.NCol "b" "bool"]
  else if Nat.eqb n 2 then Compile.NCol "b" "bool" else Compile.NCol "a" "bool".
Fixpoint nonagg_bools (i : nat) (l : list bool) : list nat :=
  match l with [] => [] | a :: r => if a then nonagg_bools (S i) r else i :: nonagg_bools (S i) r end.
Definition ex_group (a : list bool) : Compile.result gres cerr :=
  if existsb (fun b => b) a
  then if forallb (fun b => b) a then Compile.Ok ([], Some [], None) else Compile.Ok ([], Some (nonagg_bools 0 a), None)
  else Compile.Ok ([], None, None).
Definition agg_of (x : pv) : bool := match get_attr "is_aggregate" x with Ok (PV (VBool b)) => b | _ => false end.
Definition ex_call (k : nat) (args : list pv) : pv :=
  match k with
  | 0 => PBool false
  | 1 => nref 3
  | 10 => PTuple [PNone; nref 1]
  | 11 => PTuple [PNone; enc_targets [(1, Some "a", false)]]
  | 12 => PTuple [PNone; nref 2]
  | 13 => match args with
          | [_; _; PList l] =>
              enc_res (fun r : gres => match r with (new, gi, hi) =>
                         PTuple [PNone; PTuple [enc_targets new; popt enc_nats gi; popt enc_nat hi]] end)
                      (ex_group (map agg_of l))
          | _ => PNone
          end
  | 14 => PTuple [PNone; PTuple [enc_targets []; PNone]]
  | _ => PNone
  end%nat.

Lemma ex_has_agg i : Compile.has_agg (ex_tbl i) = false.
Proof. unfold ex_tbl. destruct (Nat.eqb i 3); [reflexivity|]. destruct (Nat.eqb i 2); reflexivity. Qed.

Lemma agg_of_targets pts : map agg_of (map enc_target pts) = map tagg pts.
Proof. induction pts as [|[[x n] a] r IH]; [reflexivity|]. cbn [map]. rewrite IH. reflexivity. Qed.

Lemma nonagg_bools_from pts : forall i, nonagg_bools i (map tagg pts) = nonagg_from i pts.
Proof. induction pts as [|t r IH]; intros i; [reflexivity|]. cbn [map nonagg_bools nonagg_from]. now rewrite !IH. Qed.

Lemma select_flow_hyps_sat :
  let call_ref := ex_call in let tbl := ex_tbl in
  let cf := Some 1%nat in let pts := [(1%nat, Some "a", false)] in let rwhere := Compile.Ok (Some 2%nat) in
  let fgroup := fun p => ex_group (map tagg p) in
  let forder := fun _ : list ptarget => Compile.Ok (([], None) : ores) in
  let fpivot := fun (_ : list ptarget) (_ : option (list nat)) => Compile.Ok (None : option (nat * nat)) in
  let and_id := fun _ _ : nat => 3%nat in
  call_ref 10%nat [PNone; PNone] = PTuple [PNone; popt nref cf]
  /\ call_ref 11%nat [PNone; PNone] = PTuple [PNone; enc_targets pts]
  /\ call_ref 12%nat [PNone; PNone] = enc_res (fun ow => PTuple [PNone; popt nref ow]) rwhere
  /\ (forall i, call_ref ka [nref i] = PBool (Compile.has_agg (tbl i)))
  /\ (forall f w, call_ref kand [PList [nref f; nref w]] = nref (and_id f w))
  /\ (forall f w, cf = Some f -> rwhere = Compile.Ok (Some w) -> tbl (and_id f w) = Compile.NAnd [tbl f; tbl w])
  /\ (forall pts, call_ref 13%nat [PNone; PNone; enc_targets pts] =
        enc_res (fun r : gres => match r with (new, gi, hi) =>
                   PTuple [PNone; PTuple [enc_targets new; popt enc_nats gi; popt enc_nat hi]] end) (fgroup pts))
  /\ (forall pts, Compile.compile_group_by (map (T tbl) pts) None =
        match fgroup pts with
        | Compile.Ok (new, gi, hi) => Compile.Ok (map (T tbl) (pts ++ new), gi, hi)
        | Compile.Err e => Compile.Err e
        end)
  /\ (forall pts, call_ref 14%nat [PNone; PNone; enc_targets pts] =
        enc_res (fun r : ores => match r with (new, os) => PTuple [PNone; PTuple [enc_targets new; popt enc_ospec os]] end)
                (forder pts))
  /\ (forall pts, Compile.compile_order_by (map (T tbl) pts) [] =
        match forder pts with
        | Compile.Ok (new, os) => Compile.Ok (map (T tbl) (pts ++ new), os)
        | Compile.Err e => Compile.Err e
        end)
  /\ (forall pts gi, call_ref 15%nat [PNone; enc_targets pts; popt enc_nats gi] =
        enc_res (popt (fun p : nat * nat => enc_nats [fst p; snd p])) (fpivot pts gi))
  /\ (forall pts gi, Compile.compile_pivot_by (map (T tbl) pts) gi None = fpivot pts gi).
Proof.
  cbv zeta. repeat split; try reflexivity.
  - intros i. cbn. now rewrite ex_has_agg.
  - intros f w E1 E2. injection E1 as <-. injection E2 as <-. reflexivity.
  - intros pts. unfold ex_call, enc_targets. now rewrite agg_of_targets.
  - intros pts. unfold Compile.compile_group_by, ex_group.
    rewrite (existsb_agg_T ex_tbl pts).
    assert (E1 : existsb (fun b : bool => b) (map tagg pts) = existsb tagg pts).
    { clear. induction pts as [|t r IH]; [reflexivity|]. cbn. now rewrite IH. }
    assert (E2 : forallb (fun b : bool => b) (map tagg pts) = forallb Compile.ct_agg (map (T ex_tbl) pts)).
    { clear. induction pts as [|[[x n] a] r IH]; [reflexivity|]. cbn. now rewrite IH. }
    rewrite E1, E2, nonagg_bools_from, (nonagg_indexes_T ex_tbl).
    destruct (existsb tagg pts); [destruct (forallb Compile.ct_agg (map (T ex_tbl) pts))|]; rewrite app_nil_r; reflexivity.
  - intros pts. now rewrite app_nil_r.
Qed.
