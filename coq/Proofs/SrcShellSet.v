(* Tie by translation, C19 (continued): DispatchingShell.do_set and BQLShell.parse (Gen/SrcShell.v) against
   Model/Shell.v's do_set (through Proofs/SrcShell.do_set_abs) and its default-CLOSE rule. *)
From Coq Require Import String Ascii ZArith List Bool Lia.
Import ListNotations.
From Verif Require Import Base.PyValue Model.Eval Model.PyMini Model.PrimsApi Model.PrimsShell Proofs.PyMiniLemmas
  Proofs.SrcApi Proofs.SrcShell.
From Verif Require Model.Shell.
From Verif Require Import Gen.SrcShell.
Open Scope string_scope.
Open Scope list_scope.
Open Scope Z_scope.

Definition sflds (st : Shell.state) (evs : list pv) : env := [("settings", enc_state st); ("$events", PList evs)].

Section Tie.
Variable call_ref : nat -> list pv -> pv.
Variable msg : string -> list pv -> pv.
Variable ga : list Z -> option nat.
Notation prim := (prim_api (shell_lib ga) msg).
Notation exec_block := (PyMini.exec_block call_ref prim).
Notation eval := (PyMini.eval call_ref prim).

Definition enc_aev (a : aev) : pv :=
  match a with
  | AOut s => PTuple [PS (zs "outfile"); PS s]
  | AErr s => PTuple [PS (zs "error"); PS s]
  | AErrExc _ => PTuple [PS (zs "error"); msg "exc_text" []]     (* the text of the exception is uninterpreted *)
  | _ => PNone
  end.
Definition raise_of (l : list aev) : option Z :=
  match l with [ARaiseValue _] => Some ValueError | [ARaiseIndex] => Some IndexError | _ => None end.

Definition echo_body : list stmt :=
  [SAssign (TName "value") (XCallMethod (XAttr (XName "self") "settings") "getstr" [XName "name"]);
   SExpr (XMethod (TSelf "$events") "append"
     [XTuple [XConst (PV (VStr [111; 117; 116; 102; 105; 108; 101]));
              XPrim "fstring" [XName "name"; XConst (PV (VStr [58; 32])); XName "value"]]])].

Lemma lookup_self_kept x v loc : String.eqb "self" x = false -> lookup "self" loc = Some PSelf ->
  lookup "self" (update x v loc) = Some PSelf.
Proof. intros N H. rewrite lookup_update_neq by exact N. exact H. Qed.

Lemma echo_loop st : forall (l : list (Shell.str * Shell.value)) (loc : PyMini.env) (evs : list pv),
  (forall nv, In nv l -> Shell.lookup st (fst nv) = Some (snd nv)) ->
  lookup "self" loc = Some PSelf ->
  exists loc',
    for_loop call_ref prim echo_body "name" {| locals := loc; fields := sflds st evs |} (map (fun nv => PS (fst nv)) l) =
    Ok (Next {| locals := loc'; fields := sflds st (evs ++ map (fun nv => enc_aev (AOut (echo_text (fst nv) (snd nv)))) l) |}).
Proof.
  induction l as [|[n v] t IH]; intros loc evs Hl Hs.
  - exists loc. cbn. rewrite app_nil_r. reflexivity.
  - cbn [map for_loop fst snd]. unfold echo_body at 1.
    pose proof (Hl (n, v) (or_introl eq_refl)) as Hn. cbn [fst snd] in Hn.
    repeat (progress (cbn -[for_loop dec_state enc_state Shell.getstr]; unfold do_getstr; rewrite ?lookup_update_eq;
                      repeat (rewrite lookup_update_neq by reflexivity);
                      rewrite ?Hs, ?dec_enc_state, ?Hn, ?app_nil_r)).
    edestruct (IH (update "value" (PS (Shell.getstr v)) (update "name" (PS n) loc))
                  (evs ++ [enc_aev (AOut (echo_text n v))])) as [loc' E].
    + intros nv Hin. apply Hl. now right.
    + apply lookup_self_kept; [reflexivity|]. apply lookup_self_kept; [reflexivity|exact Hs].
    + exists loc'. unfold sflds, enc_aev, echo_text, PS in *. cbn [fst snd] in *.
      rewrite <- app_assoc in E. cbn [app] in E. exact E.
Qed.


Lemma compare1_eq_int a b : compare1 CEq (PInt a) (PInt b) = Ok (a =? b).
Proof. unfold compare1, PInt. cbn [is_null orb rank Z.eqb negb]. cbn. now rewrite val_eq_int. Qed.

Lemma index_at_0 (a : pv) l : index_at (a :: l) 0 = Ok a.
Proof.
  unfold index_at. cbn [Z.ltb Z.compare]. cbn [orb].
  destruct (Z.leb_spec (Z.of_nat (length (a :: l))) 0) as [E|E]; [cbn [length] in E; lia|reflexivity].
Qed.
Lemma len3_ne (a b c : pv) l k : k = 1 \/ k = 2 -> (Z.of_nat (length (a :: b :: c :: l)) =? k) = false.
Proof. intros H. apply Z.eqb_neq. cbn [length]. lia. Qed.

Lemma setstr_call st n v :
  method_call prim "setstr" (enc_state st) [PS n; PS v] = bind (do_setstr (enc_state st) n v) (fun o' => Ok (o', PNone)).
Proof.
  unfold method_call, enc_state. cbn -[do_setstr].
  destruct (do_setstr _ n v); reflexivity.
Qed.

Lemma lookup_self_in st : NoDup (map fst st) ->
  forall nv, In nv st -> Shell.lookup st (fst nv) = Some (snd nv).
Proof.
  induction st as [|[k v] t IH]; intros Hn nv Hin; [destruct Hin|].
  cbn [map fst] in Hn. inversion Hn as [|? ? Hk Hn']; subst. cbn [Shell.lookup].
  change (Shell.str_eqb k (fst nv)) with (zeqb k (fst nv)).
  destruct Hin as [<-|Hin]; [cbn [fst snd]; now rewrite zeqb_refl|].
  destruct (zeqb k (fst nv)) eqn:E; [|apply IH; assumption].
  apply zeqb_eq in E. subst k. exfalso. apply Hk. now apply in_map.
Qed.

(* `.set`: for EVERY settings store (distinct names), everything written so far and every argument string, the
   translated do_set leaves the store and appends the events that Model/Shell.v's do_set gives (through do_set_abs /
   do_set_abs_ok): sets exactly the named field on a valid value, changes nothing and reports on an invalid value or
   an unknown name, echoes one / all settings, raises what shlex.split / components[0] raise *)
Theorem do_set_src : forall (st : Shell.state) (evs : list pv) (arg : list Z),
  NoDup (map fst st) ->
  call_method call_ref prim shell_do_set (sflds st evs) [PS arg] =
  let r := do_set_abs st arg in
  match raise_of (snd r) with
  | Some k => Exc k
  | None => Ok (sflds (fst r) (evs ++ map enc_aev (snd r)), PNone)
  end.
Proof.
  intros st evs arg Hnd. unfold shell_do_set, call_method. cbn [bind_params f_params f_body].
  fold echo_body.
  destruct arg as [|c r].
  - (* .set without argument: every setting is echoed *)
    cbn [PyMini.exec_block]. erewrite exec_if; [| reflexivity | reflexivity]. cbn [PyMini.exec_block].
    erewrite exec_for.
    2:{ cbn -[dec_state enc_state]. rewrite dec_enc_state. reflexivity. }
    destruct (echo_loop st st [("self", PSelf); ("arg", PS [])] evs (lookup_self_in st Hnd) eq_refl) as [loc' E].
    rewrite E. cbn. rewrite map_map.
    replace (raise_of _) with (@None Z) by (destruct st as [|a [|b t]]; reflexivity). reflexivity.
  - unfold echo_body, do_set_abs.
    destruct (Shell.shlex_split (c :: r)) as [[|name [|v [|x l]]]| |] eqn:Esp.
    4:{ (* three or more components *)
      repeat (progress (cbn -[compare1 Shell.shlex_split do_getstr do_setstr dec_state enc_state Shell.getstr length
                              Z.of_nat Shell.parse_value index_at];
                        rewrite ?Esp, ?compare1_eq_int, ?index_at_0,
                          ?(len3_ne _ _ _ _ 1 (or_introl eq_refl)), ?(len3_ne _ _ _ _ 2 (or_intror eq_refl)))).
      reflexivity. }
    all: repeat (progress (cbn -[compare1 Shell.shlex_split do_getstr do_setstr dec_state enc_state Shell.getstr
                                 Shell.parse_value];
                           rewrite ?Esp, ?compare1_eq_int)).
    all: try reflexivity.
    + unfold do_getstr. rewrite dec_enc_state.
      destruct (Shell.lookup st name) as [v0|];
        repeat (progress (cbn -[Shell.getstr enc_state]; rewrite ?app_nil_r)); reflexivity.
    + change (Pos.to_nat 1) with 1%nat.
      repeat (progress (cbn -[compare1 Shell.shlex_split do_getstr do_setstr dec_state enc_state Shell.getstr
                              Shell.parse_value]; rewrite ?compare1_eq_int)).
      rewrite setstr_call. unfold do_setstr. rewrite dec_enc_state.
      destruct (Shell.lookup st name) as [cur|];
        [destruct (Shell.parse_value name (Shell.type_of cur) v)|];
        repeat (progress (cbn -[Shell.getstr enc_state Shell.update]; rewrite ?app_nil_r)); reflexivity.
Qed.




(* ---- BQLShell.parse: the default CLOSE date of `.run`.  A parsed statement as the object the method reads: its
   class (Model/Shell.kind), its from_clause (None / a From node with its .close / a node of another class). *)
Definition kind_tag (k : Shell.kind) : list Z :=
  match k with
  | Shell.KSelect => zs "beanquery.parser.ast.Select" | Shell.KBalances => zs "beanquery.parser.ast.Balances"
  | Shell.KJournal => zs "beanquery.parser.ast.Journal" | Shell.KPrint => zs "beanquery.parser.ast.Print"
  end.
Definition enc_close (c : Shell.closekind) (date : Z) : pv :=
  match c with Shell.CNone => PNone | Shell.CTrue => PBool true | Shell.CDate => PInt date end.
Definition enc_from (f : Shell.fromkind) (close : pv) : pv :=
  match f with
  | Shell.FNone => PNone
  | Shell.FFrom => record (zs "beanquery.parser.ast.From") [("close", close)]
  | Shell.FTable => record (zs "beanquery.parser.ast.Table") [("name", PNone)]
  | Shell.FSubselect => record (zs "beanquery.parser.ast.Select") [("from_clause", PNone)]
  end.
Definition enc_stmt (k : Shell.kind) (f : Shell.fromkind) (close : pv) : pv :=
  record (kind_tag k) [("from_clause", enc_from f close)].
Definition enc_date (d : option Z) : pv := match d with Some z => PInt z | None => PNone end.

(* the same decision as Model/Shell.with_default_close: the date is written exactly when the statement is a SELECT
   whose FROM clause is a From node without CLOSE *)
Theorem parse_default_close_src : forall (flds : env) (ctx line : pv) (k : Shell.kind) (f : Shell.fromkind)
    (c : Shell.closekind) (date : Z) (d : option Z),
  date <> 0 ->                                            (* an ordinal date is truthy *)
  lookup "context" flds = Some ctx ->
  opaque_method msg "call:parse" [ctx; line] = Ok (enc_stmt k f (enc_close c date)) ->
  call_method call_ref prim shell_parse flds [line; enc_date d] =
  Ok (flds, match k, f, c with
            | Shell.KSelect, Shell.FFrom, Shell.CNone => enc_stmt k f (enc_date d)
            | _, _, _ => enc_stmt k f (enc_close c date)
            end).
Proof.
  intros flds ctx line k f c date d Hd Hctx Hparse. unfold shell_parse, call_method.
  cbn -[opaque_method enc_stmt]. rewrite Hctx. cbn -[opaque_method enc_stmt]. rewrite Hparse.
  destruct k, f, c; cbn; try reflexivity;
    destruct (Z.eqb_spec date 0); try contradiction; reflexivity.
Qed.

End Tie.
