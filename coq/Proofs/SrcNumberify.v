(* Tie by translation (C17): the PyMini terms generated from the SOURCE of beanquery/numberify.py (Gen/SrcNumberify.v:
   the converter classes' __init__/__call__, the census functions convert_col_Amount/_Position/_Inventory, the driver
   numberify_results) compute, for every well-typed table, what Model/Numberify.v computes - the functions the C17
   theorems are stated over (conv_cell / apply_conv, convert_col, numberify_core).

   Values are encoded as in Model/PrimsNumberify.v, which also says what every primitive is assumed to do.  The class
   constructors (IdentityConverter, AmountConverter, ..., Column) are opaque callables: [ctor_ok] assumes that calling
   one builds the object whose fields the translated __init__ assigns ([*_init_src]). *)
From Coq Require Import String ZArith List Bool Lia.
Import ListNotations.
From Verif Require Import Base.StableSort Base.PyValue Model.Eval Model.PyMini Model.Numberify Model.PrimsNumberify
  Gen.SrcNumberify Proofs.PyMiniLemmas Proofs.PyMiniLemmas2 Proofs.NumberifyProofs.
Open Scope string_scope.
Open Scope Z_scope.
Open Scope list_scope.

Local Arguments index_at : simpl never.

Lemma list_le_antisym_eqb : forall a b, list_le a b && list_le b a = str_eqb a b.
Proof.
  induction a as [|x a IH]; destruct b as [|y b]; cbn; try reflexivity.
  destruct (x <? y) eqn:E1; destruct (y <? x) eqn:E2; cbn.
  - apply Z.ltb_lt in E1, E2. lia.
  - assert (x =? y = false) by (apply Z.eqb_neq; apply Z.ltb_lt in E1; lia). now rewrite H.
  - assert (x =? y = false) by (apply Z.eqb_neq; apply Z.ltb_lt in E2; lia). now rewrite H.
  - assert (x =? y = true) by (apply Z.eqb_eq; apply Z.ltb_ge in E1, E2; lia). rewrite H. apply IH.
Qed.

Lemma val_eq_str a b : val_eq (VStr a) (VStr b) = str_eqb a b.
Proof. rewrite <- list_le_antisym_eqb. reflexivity. Qed.

Local Arguments val_eq : simpl never.

Section Tie.
Variable call_ref : nat -> list pv -> pv.
Variable f : option (dec -> currency -> dec).
Notation P0 := (prims_base f converting_types).

Lemma row_index r idx : (idx < length r)%nat ->
  index_at (map enc_cell r) (Z.of_nat idx) = Ok (enc_cell (cellat idx r)).
Proof.
  intros H. rewrite (index_at_nat _ _ (enc_cell cnull)) by (rewrite map_length; exact H).
  unfold cellat. now rewrite (map_nth enc_cell).
Qed.

Definition id_fields n dt i : env := [("name", enc_str n); ("dtype", enc_dtype dt); ("index", enc_idx i)].
Definition cv_fields n i c : env := [("name", enc_str n); ("index", enc_idx i); ("currency", enc_str c)].

Theorem identity_call_src : forall name dt idx r df, (idx < length r)%nat ->
  call_method call_ref P0 conv_identity_call (id_fields name dt idx) [enc_row r; df] =
  Ok (id_fields name dt idx, enc_cell (cellat idx r)).
Proof.
  intros name dt idx r df H. unfold call_method, conv_identity_call. cbn.
  rewrite (row_index r idx H). reflexivity.
Qed.

Theorem amount_call_src : forall name idx cur r, (idx < length r)%nat ->
  cell_ok DAmount (cellat idx r) = true ->
  call_method call_ref P0 conv_amount_call (cv_fields name idx cur) [enc_row r; enc_dformat f] =
  Ok (cv_fields name idx cur, enc_cell (conv_cell f DAmount cur (cellat idx r))).
Proof.
  intros name idx cur r H Hok. unfold call_method, conv_amount_call. cbn.
  rewrite (row_index r idx H). cbn.
  destruct (cellat idx r) as [v|a|p|i]; try discriminate.
  - destruct v; try discriminate. reflexivity.
  - cbn. rewrite val_eq_str. destruct (dec_is_zero (anum a)); cbn; [reflexivity|].
    destruct (str_eqb (acur a) cur); cbn; [|reflexivity].
    destruct f; cbn; reflexivity.
Qed.

Theorem position_call_src : forall name idx cur r, (idx < length r)%nat ->
  cell_ok DPosition (cellat idx r) = true ->
  call_method call_ref P0 conv_position_call (cv_fields name idx cur) [enc_row r; enc_dformat f] =
  Ok (cv_fields name idx cur, enc_cell (conv_cell f DPosition cur (cellat idx r))).
Proof.
  intros name idx cur r H Hok. unfold call_method, conv_position_call. cbn.
  rewrite (row_index r idx H). cbn.
  destruct (cellat idx r) as [v|a|p|i]; try discriminate.
  - destruct v; try discriminate. reflexivity.
  - cbn. rewrite val_eq_str. unfold pcur, pnum.
    destruct (str_eqb (acur (punits p)) cur); cbn; [|reflexivity].
    destruct f; cbn; reflexivity.
Qed.

Lemma dec_enc_position p : dec_position (enc_position p) = Some p.
Proof. destruct p as [[d c] [[cd cc ct]|]]; reflexivity. Qed.

Lemma dec_enc_inventory i : dec_inventory (enc_inventory i) = Some i.
Proof.
  unfold dec_inventory, enc_inventory. cbn. induction i as [|p t IH]; [reflexivity|].
  cbn [map n_map_opt]. rewrite dec_enc_position, IH. reflexivity.
Qed.

Local Arguments dec_inventory : simpl never.

Theorem inventory_call_src : forall name idx cur r, (idx < length r)%nat ->
  cell_ok DInventory (cellat idx r) = true ->
  call_method call_ref P0 conv_inventory_call (cv_fields name idx cur) [enc_row r; enc_dformat f] =
  Ok (cv_fields name idx cur, enc_cell (conv_cell f DInventory cur (cellat idx r))).
Proof.
  intros name idx cur r H Hok. unfold call_method, conv_inventory_call. cbn.
  rewrite (row_index r idx H). cbn.
  destruct (cellat idx r) as [v|a|p|i]; try discriminate.
  - destruct v; try discriminate. reflexivity.
  - cbn. rewrite dec_enc_inventory. cbn.
    unfold dec_is_zero. destruct (dcoef (inv_units cur i) =? 0) eqn:E; cbn; rewrite ?E; cbn; [reflexivity|].
    destruct f; cbn; rewrite ?E; reflexivity.
Qed.

(* ---------------------------------------------------------------- __init__: which parameter goes to which field *)
Theorem identity_init_src : forall n d i,
  call_method call_ref P0 conv_identity_init [] [n; d; i] = Ok ([("name", n); ("dtype", d); ("index", i)], PNone).
Proof. reflexivity. Qed.
Theorem amount_init_src : forall n i c,
  call_method call_ref P0 conv_amount_init [] [n; i; c] = Ok ([("name", n); ("index", i); ("currency", c)], PNone).
Proof. reflexivity. Qed.
Theorem position_init_src : forall n i c,
  call_method call_ref P0 conv_position_init [] [n; i; c] = Ok ([("name", n); ("index", i); ("currency", c)], PNone).
Proof. reflexivity. Qed.
Theorem inventory_init_src : forall n i c,
  call_method call_ref P0 conv_inventory_init [] [n; i; c] = Ok ([("name", n); ("index", i); ("currency", c)], PNone).
Proof. reflexivity. Qed.

(* ---------------------------------------------------------------- the census functions *)
Notation P1 := (prims1 f converting_types call_ref lambdas conv_identity_call conv_amount_call conv_position_call
                  conv_inventory_call).

Lemma pv_eqb_str a b : pv_eqb (enc_str a) (enc_str b) = str_eqb a b.
Proof. cbn. apply val_eq_str. Qed.

Definition getcount (c : currency) (m : list (currency * Z)) : Z :=
  match find (fun e => str_eqb (fst e) c) m with Some e => snd e | None => 0 end.

Lemma dd_get c m :
  match assoc_get (enc_str c) (map enc_entry m) with Some v => v | None => PInt 0 end = PInt (getcount c m).
Proof.
  unfold getcount. induction m as [|[c' n] t IH]; [reflexivity|].
  cbn [map enc_entry fst snd assoc_get find]. rewrite pv_eqb_str. destruct (str_eqb c' c); [reflexivity|exact IH].
Qed.

Lemma dd_set c m : assoc_set (enc_str c) (PInt (getcount c m + 1)) (map enc_entry m) = map enc_entry (incr c m).
Proof.
  unfold getcount. induction m as [|[c' n] t IH]; [reflexivity|].
  cbn [map enc_entry fst snd assoc_set find incr]. rewrite pv_eqb_str. destruct (str_eqb c' c); [reflexivity|].
  cbn [map enc_entry fst snd]. rewrite IH. reflexivity.
Qed.

Local Arguments assoc_get : simpl never.
Local Arguments assoc_set : simpl never.

Definition loop_body (fd : fdef) : list stmt := match nth 1 (f_body fd) SPass with SFor _ _ b => b | _ => [] end.

Definition census_step (dt : dtype) (idx : nat) (m : list (currency * Z)) (r : crow) : list (currency * Z) :=
  fold_left (fun m c => incr c m) (cell_census dt (cellat idx r)) m.

Lemma census_fold dt rows idx : census dt rows idx = fold_left (census_step dt idx) rows [].
Proof. reflexivity. Qed.

Definition col_ok (dt : dtype) (idx : nat) (rows : list crow) : Prop :=
  forall r, In r rows -> (idx < length r)%nat /\ cell_ok dt (cellat idx r) = true.

Fixpoint zipk (extra : list pv) (keys : list string) : env :=
  match extra with
  | [] => []
  | x :: e => match keys with k :: ks => (k, x) :: zipk e ks | [] => [] end
  end.

Definition am_env (cellvar : list string) (vn vd : pv) (idx : nat) (m : list (currency * Z)) (extra : list pv) : env :=
  app [("name", vn); ("drows", vd); ("index", enc_idx idx); ("currency_map", enc_map m)] (zipk extra cellvar).

Ltac use_IH IH m x Hok' :=
  let e' := fresh "e" in let He' := fresh "He" in let E' := fresh "E" in
  destruct (IH m x (or_intror eq_refl) Hok') as [e' [He' E']]; exists e'; split; [exact He'|exact E'].

Lemma census_amount_loop vn vd idx : forall rows m extra, (length extra = 0 \/ length extra = 2)%nat ->
  col_ok DAmount idx rows ->
  exists extra', (length extra' = 0 \/ length extra' = 2)%nat /\
  for_loop call_ref P1 (loop_body census_amount) "drow" {| locals := am_env ["drow"; "vamount"] vn vd idx m extra; fields := [] |}
    (map enc_row rows)
  = Ok (Next {| locals := am_env ["drow"; "vamount"] vn vd idx (fold_left (census_step DAmount idx) rows m) extra'; fields := [] |}).
Proof.
  induction rows as [|r rows IH]; intros m extra Hex Hok.
  - exists extra. split; [exact Hex|reflexivity].
  - destruct (Hok r (or_introl eq_refl)) as [Hlt Hc].
    assert (Hok' : col_ok DAmount idx rows) by (intros r' Hr'; apply Hok; right; exact Hr').
    cbn [map for_loop fold_left]. unfold census_step at 2.
    destruct extra as [|x [|y [|z extra]]]; cbn in Hex; try lia;
      unfold loop_body, census_amount, am_env; cbn -[for_loop];
      rewrite (row_index r idx Hlt); cbn -[for_loop];
      (destruct (cellat idx r) as [v|a|p|i]; try discriminate;
       [destruct v; try discriminate; cbn -[for_loop]; use_IH IH m [enc_row r; PV VNull] Hok'|]);
      cbn -[for_loop]; (destruct (dec_is_zero (anum a)); cbn -[for_loop]; [use_IH IH m [enc_row r; enc_amount a] Hok'|]);
      (destruct (acur a) as [|ch cs] eqn:Ec; cbn -[for_loop]; [use_IH IH m [enc_row r; enc_amount a] Hok'|]);
      rewrite dd_get; cbn -[for_loop]; rewrite dd_set; cbn -[for_loop];
      use_IH IH (incr (ch :: cs) m) [enc_row r; enc_amount a] Hok'.
Qed.

(* ---- sorted(currency_map.items(), key=lambda item: (item[1], item[0]), reverse=True) *)
Lemma insert_map {A B} (g : A -> B) leA leB x l :
  (forall a b, leB (g a) (g b) = leA a b) -> map g (insert leA x l) = insert leB (g x) (map g l).
Proof.
  intros H. induction l as [|y t IH]; [reflexivity|]. cbn [insert map]. rewrite H.
  destruct (leA x y); [reflexivity|]. cbn [map]. now rewrite IH.
Qed.

Lemma isort_map {A B} (g : A -> B) leA leB l :
  (forall a b, leB (g a) (g b) = leA a b) -> map g (isort leA l) = isort leB (map g l).
Proof.
  intros H. induction l as [|x t IH]; [reflexivity|]. cbn [isort map].
  rewrite (insert_map g leA leB) by exact H. now rewrite IH.
Qed.

Lemma py_sort_map {A B} (g : A -> B) leA leB d l :
  (forall a b, leB (g a) (g b) = leA a b) -> map g (py_sort leA d l) = py_sort leB d (map g l).
Proof.
  intros H. unfold py_sort. destruct d.
  - rewrite map_rev, (isort_map g leA leB) by exact H. now rewrite map_rev.
  - apply isort_map. exact H.
Qed.

Lemma combine_map {A B C} (g : A -> B) (h : A -> C) l : combine (map g l) (map h l) = map (fun a => (g a, h a)) l.
Proof. induction l as [|a t IH]; [reflexivity|]. cbn [map combine]. now rewrite IH. Qed.

Definition key_pv (e : currency * Z) : pv := PTuple [PInt (snd e); enc_str (fst e)].

Lemma lambda_key fd : fd = census_amount_lambda0 \/ fd = census_position_lambda0 \/ fd = census_inventory_lambda0 ->
  forall e, call_function call_ref P0 fd [enc_entry e] = Ok (key_pv e).
Proof. intros [->|[->| ->]] e; reflexivity. Qed.

Definition lambda_ok (kl : nat) : Prop :=
  exists fd, find_fn lambdas kl = Some fd /\
    (fd = census_amount_lambda0 \/ fd = census_position_lambda0 \/ fd = census_inventory_lambda0).

Lemma sorted_items kl m : lambda_ok kl ->
  sorted_prim f converting_types call_ref lambdas (map enc_entry m) (PRef kl) true =
  Ok (PList (map enc_entry (py_sort census_le true m))).
Proof.
  intros [fd [Hf Hfd]]. unfold sorted_prim.
  assert (E1 : n_mapM (apply_lambda f converting_types call_ref lambdas (PRef kl)) (map enc_entry m) = Ok (map key_pv m)).
  { induction m as [|e t IH]; [reflexivity|]. cbn [map n_mapM]. unfold apply_lambda at 1. rewrite Hf.
    rewrite (lambda_key fd Hfd). cbn [bind]. rewrite IH. reflexivity. }
  rewrite E1. cbn [bind].
  assert (E2 : n_map_opt sort_key (map key_pv m) = Some (map (fun e => (snd e, fst e)) m)).
  { clear E1. induction m as [|e t IH]; [reflexivity|]. cbn [map n_map_opt]. rewrite IH. reflexivity. }
  rewrite E2. cbv beta iota.
  rewrite combine_map.
  rewrite <- (py_sort_map (fun e : currency * Z => ((snd e, fst e), enc_entry e)) census_le (on fst key_le)) by reflexivity.
  rewrite map_map. reflexivity.
Qed.

Definition tail_stmt (kc kl : nat) : stmt :=
  SReturn (Some (XListComp
    (XCall (XConst (PRef kc))
       [XCallMethod (XConst (PV (VStr fmt_template))) "format" [XName "name"; XIndex (XName "$item") (XConst (PInt 0))];
        XName "index"; XIndex (XName "$item") (XConst (PInt 0))] None)
    "$item"
    (XPrim "builtins.sorted:key,reverse" [XCallMethod (XName "currency_map") "items" []; XConst (PRef kl); XConst (PBool true)])
    None)).

Ltac step_env :=
  repeat (rewrite ?lookup_update_eq; rewrite ?lookup_update_neq by reflexivity).

Lemma census_tail kc kl dt name idx m loc :
  lambda_ok kl ->
  (forall n i c, call_ref kc [enc_str n; enc_idx i; enc_str c] = enc_conv (KConv n dt i c)) ->
  lookup "name" loc = Some (enc_str name) -> lookup "index" loc = Some (enc_idx idx) ->
  lookup "currency_map" loc = Some (enc_map m) ->
  PyMini.exec call_ref P1 {| locals := loc; fields := [] |} (tail_stmt kc kl) =
  Ok (Ret {| locals := loc; fields := [] |}
        (PList (map enc_conv (map (fun cur => KConv (fmt_name name cur) dt idx cur) (map fst (py_sort census_le true m)))))).
Proof.
  intros Hl Hc Hn Hi Hm. unfold tail_stmt. cbn [PyMini.exec].
  rewrite (eval_listcomp call_ref P1 _ _ _ {| locals := loc; fields := [] |} {| locals := loc; fields := [] |}
             (map enc_entry (py_sort census_le true m))).
  2:{ cbn. rewrite Hm. cbn. rewrite (sorted_items kl m Hl). reflexivity. }
  rewrite (map_res_ok _ (fun v => match v with PTuple [PV (VStr c); _] => enc_conv (KConv (fmt_name name c) dt idx c) | _ => PNone end)).
  2:{ intros v Hv. apply in_map_iff in Hv. destruct Hv as [[c n] [<- _]].
      repeat (progress (cbn; step_env; rewrite ?Hn, ?Hi; unfold index_at)).
      rewrite Hc. destruct dt; reflexivity. }
  cbn [bind]. do 3 f_equal. rewrite !map_map. reflexivity.
Qed.

Definition ctor_conv (k : nat) (dt : dtype) : Prop :=
  forall n i c, call_ref k [enc_str n; enc_idx i; enc_str c] = enc_conv (KConv n dt i c).

Lemma lambda_ok_3 : lambda_ok 3. Proof. eexists; split; [reflexivity|]. auto. Qed.
Lemma lambda_ok_5 : lambda_ok 5. Proof. eexists; split; [reflexivity|]. auto. Qed.
Lemma lambda_ok_7 : lambda_ok 7. Proof. eexists; split; [reflexivity|]. auto. Qed.

Definition census_shape (fd : fdef) (kc kl : nat) : Prop :=
  f_params fd = ["name"; "drows"; "index"] /\ f_gen fd = false /\
  f_body fd = [SAssign (TName "currency_map") (XPrim "collections.defaultdict(int)" []);
               SFor "drow" (XName "drows") (loop_body fd); tail_stmt kc kl].

(* from the loop lemma of one census function to its theorem *)
Lemma census_from_loop fd kc kl dt cellvar name rows idx :
  census_shape fd kc kl -> lambda_ok kl -> ctor_conv kc dt -> dt <> DPlain 0 ->
  (exists extra',
     for_loop call_ref P1 (loop_body fd) "drow"
       {| locals := am_env cellvar (enc_str name) (enc_rows rows) idx [] []; fields := [] |} (map enc_row rows)
     = Ok (Next {| locals := am_env cellvar (enc_str name) (enc_rows rows) idx (census dt rows idx) extra'; fields := [] |})) ->
  call_function call_ref P1 fd [enc_str name; enc_rows rows; enc_idx idx] =
  Ok (PList (map enc_conv (map (fun cur => KConv (fmt_name name cur) dt idx cur) (col_currencies dt rows idx)))).
Proof.
  intros [Hp [Hg Hb]] Hl Hc _ [extra' E]. unfold call_function. rewrite Hp, Hg, Hb. cbn [bind_params].
  rewrite exec_block_cons.
  change (PyMini.exec call_ref P1 _ (SAssign (TName "currency_map") (XPrim "collections.defaultdict(int)" [])))
    with (Ok (Next {| locals := am_env cellvar (enc_str name) (enc_rows rows) idx [] []; fields := [] |})).
  cbn [bind]. rewrite exec_block_cons.
  rewrite (exec_for call_ref P1 "drow" (XName "drows") (loop_body fd) _
             {| locals := am_env cellvar (enc_str name) (enc_rows rows) idx [] []; fields := [] |} (map enc_row rows))
    by reflexivity.
  rewrite E. cbn [bind]. rewrite exec_block_cons.
  rewrite (census_tail kc kl dt name idx (census dt rows idx)) by (try assumption; reflexivity).
  reflexivity.
Qed.

Theorem census_amount_src : forall name rows idx, ctor_conv 2 DAmount -> col_ok DAmount idx rows ->
  call_function call_ref P1 census_amount [enc_str name; enc_rows rows; enc_idx idx] =
  Ok (PList (map enc_conv (convert_col name DAmount rows idx))).
Proof.
  intros name rows idx Hc Hok.
  apply (census_from_loop census_amount 2 3 DAmount ["drow"; "vamount"]); try assumption.
  - repeat split.
  - exact lambda_ok_3.
  - discriminate.
  - destruct (census_amount_loop (enc_str name) (enc_rows rows) idx rows [] [] (or_introl eq_refl) Hok) as [e' [_ E]].
    exists e'. exact E.
Qed.

(* ---- convert_col_Position *)
Lemma census_position_loop vn vd idx : forall rows m extra, (length extra = 0 \/ length extra = 2)%nat ->
  col_ok DPosition idx rows ->
  exists extra', (length extra' = 0 \/ length extra' = 2)%nat /\
  for_loop call_ref P1 (loop_body census_position) "drow" {| locals := am_env ["drow"; "pos"] vn vd idx m extra; fields := [] |}
    (map enc_row rows)
  = Ok (Next {| locals := am_env ["drow"; "pos"] vn vd idx (fold_left (census_step DPosition idx) rows m) extra'; fields := [] |}).
Proof.
  induction rows as [|r rows IH]; intros m extra Hex Hok.
  - exists extra. split; [exact Hex|reflexivity].
  - destruct (Hok r (or_introl eq_refl)) as [Hlt Hc].
    assert (Hok' : col_ok DPosition idx rows) by (intros r' Hr'; apply Hok; right; exact Hr').
    cbn [map for_loop fold_left]. unfold census_step at 2.
    destruct extra as [|x [|y [|z extra]]]; cbn in Hex; try lia;
      unfold loop_body, census_position, am_env; cbn -[for_loop];
      rewrite (row_index r idx Hlt); cbn -[for_loop];
      (destruct (cellat idx r) as [v|a|p|i]; try discriminate;
       [destruct v; try discriminate; cbn -[for_loop]; use_IH IH m [enc_row r; PV VNull] Hok'|]);
      cbn -[for_loop]; unfold pcur;
      (destruct (acur (punits p)) as [|ch cs] eqn:Ec; cbn -[for_loop]; [use_IH IH m [enc_row r; enc_position p] Hok'|]);
      rewrite dd_get; cbn -[for_loop]; rewrite dd_set; cbn -[for_loop];
      use_IH IH (incr (ch :: cs) m) [enc_row r; enc_position p] Hok'.
Qed.

Theorem census_position_src : forall name rows idx, ctor_conv 4 DPosition -> col_ok DPosition idx rows ->
  call_function call_ref P1 census_position [enc_str name; enc_rows rows; enc_idx idx] =
  Ok (PList (map enc_conv (convert_col name DPosition rows idx))).
Proof.
  intros name rows idx Hc Hok.
  apply (census_from_loop census_position 4 5 DPosition ["drow"; "pos"]); try assumption.
  - repeat split.
  - exact lambda_ok_5.
  - discriminate.
  - destruct (census_position_loop (enc_str name) (enc_rows rows) idx rows [] [] (or_introl eq_refl) Hok) as [e' [_ E]].
    exists e'. exact E.
Qed.

(* ---- convert_col_Inventory: the inner loop over inv.currencies() *)
Definition inv_inner_body : list stmt :=
  match loop_body census_inventory with [_; SIf _ _ [SFor _ _ b]] => b | _ => [] end.

Lemma inv_body_shape : loop_body census_inventory =
  [SAssign (TName "inv") (XIndex (XName "drow") (XName "index"));
   SIf (XCompare (XName "inv") [(CIs, XConst PNone)]) []
     [SFor "currency" (XCallMethod (XName "inv") "currencies" []) inv_inner_body]].
Proof. reflexivity. Qed.

Notation inv_keys := ["drow"; "inv"; "currency"].

Lemma inv_inner vn vd idx : forall cs m extra, (length extra = 2 \/ length extra = 3)%nat ->
  exists extra', (length extra' = 2 \/ length extra' = 3)%nat /\
  for_loop call_ref P1 inv_inner_body "currency" {| locals := am_env inv_keys vn vd idx m extra; fields := [] |}
    (map enc_str cs)
  = Ok (Next {| locals := am_env inv_keys vn vd idx (fold_left (fun m c => incr c m) cs m) extra'; fields := [] |}).
Proof.
  induction cs as [|c cs IH]; intros m extra Hex.
  - exists extra. split; [exact Hex|reflexivity].
  - cbn [map for_loop fold_left].
    destruct extra as [|x [|y [|z [|w extra]]]]; cbn in Hex; try lia;
      unfold inv_inner_body, loop_body, census_inventory, am_env; cbn -[for_loop];
      rewrite dd_get; cbn -[for_loop]; rewrite dd_set; cbn -[for_loop];
      (destruct (IH (incr c m) [x; y; enc_str c] (or_intror eq_refl)) as [e' [He' E']]; exists e'; split; [exact He'|exact E']).
Qed.

Lemma for_loop_cons cr pr body x s v t :
  for_loop cr pr body x s (v :: t) =
  bind (PyMini.exec_block cr pr (write s (TName x) v) body)
    (fun o => match o with Next s1 => for_loop cr pr body x s1 t | Ret _ _ => Ok o end).
Proof. reflexivity. Qed.

Local Arguments for_loop : simpl never.

Definition shape023 (extra : list pv) : Prop := (length extra = 0 \/ length extra = 2 \/ length extra = 3)%nat.

Lemma inv_iter vn vd idx r m extra : shape023 extra ->
  (idx < length r)%nat -> cell_ok DInventory (cellat idx r) = true ->
  exists extra', shape023 extra' /\
  PyMini.exec_block call_ref P1
    (write {| locals := am_env inv_keys vn vd idx m extra; fields := [] |} (TName "drow") (enc_row r))
    (loop_body census_inventory)
  = Ok (Next {| locals := am_env inv_keys vn vd idx (census_step DInventory idx m r) extra'; fields := [] |}).
Proof.
  intros Hex Hlt Hc. unfold census_step. rewrite inv_body_shape, exec_block_cons.
  destruct extra as [|x [|y [|z [|w extra]]]]; unfold shape023 in Hex; cbn in Hex; try lia.
  all: (erewrite exec_assign; [|cbn; rewrite (row_index r idx Hlt); reflexivity]).
  all: cbn [bind]; rewrite exec_block_cons.
  all: destruct (cellat idx r) as [v|a|p|i]; try discriminate.
  all: try (destruct v; try discriminate; (erewrite exec_if; [|reflexivity|reflexivity])).
  1: exists [enc_row r; PNone]; split; [unfold shape023; cbn; lia|reflexivity].
  2: exists [enc_row r; PNone]; split; [unfold shape023; cbn; lia|reflexivity].
  3: exists [enc_row r; PNone; z]; split; [unfold shape023; cbn; lia|reflexivity].
  all: (erewrite exec_if; [|reflexivity|reflexivity]).
  all: rewrite exec_block_cons.
  all: (erewrite (exec_for call_ref P1 "currency" _ inv_inner_body _ _ (map enc_str (dedup (map pcur i))));
        [|cbn; rewrite dec_enc_inventory; reflexivity]).
  all: cbn [write locals fields].
  - destruct (inv_inner vn vd idx (dedup (map pcur i)) m [enc_row r; enc_inventory i]) as [e' [He' E']]; [cbn; lia|].
    unfold am_env in E' |- *. cbn in E' |- *. rewrite E'. cbn [bind]. exists e'. split; [unfold shape023; lia|reflexivity].
  - destruct (inv_inner vn vd idx (dedup (map pcur i)) m [enc_row r; enc_inventory i]) as [e' [He' E']]; [cbn; lia|].
    unfold am_env in E' |- *. cbn in E' |- *. rewrite E'. cbn [bind]. exists e'. split; [unfold shape023; lia|reflexivity].
  - destruct (inv_inner vn vd idx (dedup (map pcur i)) m [enc_row r; enc_inventory i; z]) as [e' [He' E']]; [cbn; lia|].
    unfold am_env in E' |- *. cbn in E' |- *. rewrite E'. cbn [bind]. exists e'. split; [unfold shape023; lia|reflexivity].
Qed.

Lemma census_inventory_loop vn vd idx : forall rows m extra, shape023 extra ->
  col_ok DInventory idx rows ->
  exists extra', shape023 extra' /\
  for_loop call_ref P1 (loop_body census_inventory) "drow" {| locals := am_env inv_keys vn vd idx m extra; fields := [] |}
    (map enc_row rows)
  = Ok (Next {| locals := am_env inv_keys vn vd idx (fold_left (census_step DInventory idx) rows m) extra'; fields := [] |}).
Proof.
  induction rows as [|r rows IH]; intros m extra Hex Hok.
  - exists extra. split; [exact Hex|reflexivity].
  - destruct (Hok r (or_introl eq_refl)) as [Hlt Hc].
    assert (Hok' : col_ok DInventory idx rows) by (intros r' Hr'; apply Hok; right; exact Hr').
    cbn [map fold_left]. rewrite for_loop_cons.
    destruct (inv_iter vn vd idx r m extra Hex Hlt Hc) as [e1 [He1 E1]]. rewrite E1. cbn [bind].
    apply IH; assumption.
Qed.

Theorem census_inventory_src : forall name rows idx, ctor_conv 6 DInventory -> col_ok DInventory idx rows ->
  call_function call_ref P1 census_inventory [enc_str name; enc_rows rows; enc_idx idx] =
  Ok (PList (map enc_conv (convert_col name DInventory rows idx))).
Proof.
  intros name rows idx Hc Hok.
  apply (census_from_loop census_inventory 6 7 DInventory inv_keys); try assumption.
  - repeat split.
  - exact lambda_ok_7.
  - discriminate.
  - destruct (census_inventory_loop (enc_str name) (enc_rows rows) idx rows [] [] (or_introl eq_refl) Hok) as [e' [_ E]].
    exists e'. exact E.
Qed.

(* ---------------------------------------------------------------- the driver numberify_results *)
Notation P2 := (prims2 f converting_types call_ref lambdas conv_identity_call conv_amount_call conv_position_call
                  conv_inventory_call functions).

Local Arguments call_method : simpl never.
Local Arguments call_function : simpl never.

Definition conv_ok (k : conv) (r : crow) : Prop :=
  match k with
  | KId _ _ idx => (idx < length r)%nat
  | KConv _ dt idx _ => dt_amountlike dt = true /\ (idx < length r)%nat /\ cell_ok dt (cellat idx r) = true
  end.

(* calling a converter object *)
Lemma apply_conv_src k r : conv_ok k r ->
  P2 "apply" [enc_conv k; enc_row r; enc_dformat f] = Ok (enc_cell (apply_conv f k r)).
Proof.
  destruct k as [n dt idx|n dt idx cur]; cbn [conv_ok].
  - intros H. cbn. fold (id_fields n dt idx). rewrite (identity_call_src n dt idx r _ H). reflexivity.
  - intros [Hd [H Hc]]. destruct dt; try discriminate; cbn; fold (cv_fields n idx cur).
    + rewrite (amount_call_src n idx cur r H Hc). reflexivity.
    + rewrite (position_call_src n idx cur r H Hc). reflexivity.
    + rewrite (inventory_call_src n idx cur r H Hc). reflexivity.
Qed.

Definition drv_stmt (i : nat) : stmt := nth i (f_body numberify_driver) SPass.
Definition inner_body : list stmt :=
  match drv_stmt 4 with SFor _ _ [_; SFor _ _ b; _] => b | _ => [] end.
Definition outer_body : list stmt := match drv_stmt 4 with SFor _ _ b => b | _ => [] end.

Ltac env_step H :=
  repeat (progress (cbn -[for_loop]; step_env; rewrite ?H)).

Lemma inner_loop r df : df = enc_dformat f -> forall ks acc loc,
  lookup "orow" loc = Some (PList acc) -> lookup "drow" loc = Some (enc_row r) -> lookup "dformat" loc = Some df ->
  (forall k, In k ks -> conv_ok k r) ->
  exists loc',
  for_loop call_ref P2 inner_body "converter" {| locals := loc; fields := [] |} (map enc_conv ks) =
  Ok (Next {| locals := loc'; fields := [] |}) /\
  lookup "orow" loc' = Some (PList (acc ++ map (fun k => enc_cell (apply_conv f k r)) ks)) /\
  (forall x, String.eqb x "orow" = false -> String.eqb x "converter" = false -> lookup x loc' = lookup x loc).
Proof.
  intros ->. induction ks as [|k ks IH]; intros acc loc Ho Hr Hd Hok.
  - exists loc. rewrite app_nil_r. repeat split; auto.
  - cbn [map]. rewrite for_loop_cons. unfold inner_body at 1, drv_stmt, numberify_driver.
    cbn [f_body nth]. rewrite exec_block_cons.
    repeat (progress (cbn [PyMini.exec PyMini.eval bind read write locals fields]; step_env; rewrite ?Hr, ?Hd, ?Ho)).
    rewrite (apply_conv_src k r (Hok k (or_introl eq_refl))).
    repeat (progress (cbn [PyMini.exec PyMini.eval bind read write locals fields]; step_env; rewrite ?Hr, ?Hd, ?Ho)).
    cbn [bind method_call String.eqb Ascii.eqb Bool.eqb write locals fields]. rewrite exec_block_nil. cbn [bind].
    destruct (IH (acc ++ [enc_cell (apply_conv f k r)]) (update "orow" (PList (acc ++ [enc_cell (apply_conv f k r)])) (update "converter" (enc_conv k) loc)))
      as [loc' [E [Ho' Hfr]]].
    + apply lookup_update_eq.
    + step_env. exact Hr.
    + step_env. exact Hd.
    + intros k' Hk'. apply Hok. right. exact Hk'.
    + exists loc'. split; [exact E|]. split.
      * rewrite Ho'. rewrite <- app_assoc. reflexivity.
      * intros x H1 H2. rewrite (Hfr x H1 H2). rewrite lookup_update_neq by exact H1. apply lookup_update_neq. exact H2.
Qed.

Ltac py_go := repeat (progress (cbn [PyMini.exec PyMini.eval bind read write locals fields]; step_env)).

Lemma outer_body_shape : outer_body =
  [SAssign (TName "orow") (XList []); SFor "converter" (XName "converters") inner_body;
   SExpr (XMethod (TName "orows") "append" [XName "orow"])].
Proof. reflexivity. Qed.

Lemma outer_loop convs : forall rows acc loc,
  lookup "orows" loc = Some (PList acc) -> lookup "converters" loc = Some (PList (map enc_conv convs)) ->
  lookup "dformat" loc = Some (enc_dformat f) ->
  (forall r k, In r rows -> In k convs -> conv_ok k r) ->
  exists loc',
  for_loop call_ref P2 outer_body "drow" {| locals := loc; fields := [] |} (map enc_row rows) =
  Ok (Next {| locals := loc'; fields := [] |}) /\
  lookup "orows" loc' = Some (PList (acc ++ map (fun r => enc_row (convert_row f convs r)) rows)) /\
  lookup "otypes" loc' = lookup "otypes" loc.
Proof.
  induction rows as [|r rows IH]; intros acc loc Ho Hc Hd Hok.
  - exists loc. rewrite app_nil_r. repeat split; auto.
  - cbn [map]. rewrite for_loop_cons, outer_body_shape. rewrite exec_block_cons.
    py_go. rewrite exec_block_cons.
    erewrite (exec_for call_ref P2 "converter" (XName "converters") inner_body _ _ (map enc_conv convs));
      [|py_go; rewrite Hc; reflexivity].
    destruct (inner_loop r (enc_dformat f) eq_refl convs []
                (update "orow" (PList []) (update "drow" (enc_row r) loc))) as [loc1 [E1 [Ho1 Hfr1]]].
    { apply lookup_update_eq. }
    { step_env. reflexivity. }
    { step_env. exact Hd. }
    { intros k Hk; apply (Hok r k (or_introl eq_refl) Hk). }
    rewrite E1.
    cbn [bind]. rewrite exec_block_cons. py_go. rewrite Ho1. py_go.
      rewrite (Hfr1 "orows") by reflexivity. step_env. rewrite Ho.
      cbn [bind method_call String.eqb Ascii.eqb Bool.eqb write locals fields app]. rewrite exec_block_nil. cbn [bind].
      rewrite <- outer_body_shape.
      match goal with |- context [for_loop _ _ _ _ {| locals := ?L; fields := _ |} _] =>
        destruct (IH (acc ++ [PList (map (fun k => enc_cell (apply_conv f k r)) convs)]) L) as [loc' [E [Ho' Ht']]];
        [| | |intros r' k Hr' Hk; apply (Hok r' k (or_intror Hr') Hk)|] end.
      * apply lookup_update_eq.
      * step_env. rewrite (Hfr1 "converters") by reflexivity. step_env. exact Hc.
      * step_env. rewrite (Hfr1 "dformat") by reflexivity. step_env. exact Hd.
      * exists loc'. split; [exact E|]. split.
        -- rewrite Ho'. rewrite <- app_assoc. cbn [app]. unfold enc_row at 2, convert_row. rewrite map_map. reflexivity.
        -- rewrite Ht'. step_env. rewrite (Hfr1 "otypes") by reflexivity. step_env. reflexivity.
Qed.

Definition ctor_column (k : nat) : Prop := forall n d, call_ref k [enc_str n; enc_dtype d] = enc_column (n, d).
Definition ctor_identity (k : nat) : Prop :=
  forall n d i, call_ref k [enc_str n; enc_dtype d; enc_idx i] = enc_conv (KId n d i).

Definition out_column (k : conv) : column := (conv_name k, conv_dtype k).

Lemma drv_shape : f_params numberify_driver = ["columns"; "drows"; "dformat"] /\ f_gen numberify_driver = false /\
  f_body numberify_driver =
  [SAssign (TName "converters") (XList []); drv_stmt 1; drv_stmt 2; SAssign (TName "orows") (XList []);
   SFor "drow" (XName "drows") outer_body; SReturn (Some (XTuple [XName "otypes"; XName "orows"]))].
Proof. repeat split. Qed.

Lemma drv_tail convs rows loc :
  ctor_column 1 ->
  lookup "converters" loc = Some (PList (map enc_conv convs)) -> lookup "drows" loc = Some (enc_rows rows) ->
  lookup "dformat" loc = Some (enc_dformat f) ->
  (forall r k, In r rows -> In k convs -> conv_ok k r) ->
  exists s',
  exec_block call_ref P2 {| locals := loc; fields := [] |}
    [drv_stmt 2; SAssign (TName "orows") (XList []); SFor "drow" (XName "drows") outer_body;
     SReturn (Some (XTuple [XName "otypes"; XName "orows"]))] =
  Ok (Ret s' (PTuple [PTuple (map enc_column (map out_column convs));
                      PList (map enc_row (map (convert_row f convs) rows))])).
Proof.
  intros Hcol Hc Hr Hd Hok. rewrite exec_block_cons.
  assert (E2 : PyMini.exec call_ref P2 {| locals := loc; fields := [] |} (drv_stmt 2) =
               Ok (Next {| locals := update "otypes" (PTuple (map enc_column (map out_column convs))) loc; fields := [] |})).
  { unfold drv_stmt, numberify_driver. cbn [f_body nth].
    rewrite (exec_assign call_ref P2 (TName "otypes") _ {| locals := loc; fields := [] |} {| locals := loc; fields := [] |}
               (PTuple (map enc_column (map out_column convs)))); [reflexivity|].
    erewrite eval_prim1; [|
      erewrite eval_listcomp; [|py_go; rewrite Hc; reflexivity];
      rewrite (map_res_ok _ (fun v => match v with PTuple [_; _; n; d; _; _] => PTuple [PInt 10; n; d] | _ => PNone end));
      [reflexivity|]].
    - cbn. rewrite !map_map. do 3 f_equal. apply map_ext. intros [n d i|n d i c]; reflexivity.
    - intros v Hv. apply in_map_iff in Hv. destruct Hv as [k [<- _]].
      destruct k as [n d i|n d i c]; repeat (progress (cbn; step_env)); [rewrite (Hcol n d)|change (PTuple [PInt 30; PInt 1]) with (enc_dtype DDecimal); rewrite (Hcol n DDecimal)]; reflexivity. }
  rewrite E2. cbn [bind]. rewrite exec_block_cons. py_go. rewrite exec_block_cons.
  erewrite (exec_for call_ref P2 "drow" (XName "drows") outer_body _ _ (map enc_row rows)); [|py_go; rewrite Hr; reflexivity].
  match goal with |- context [for_loop _ _ _ _ {| locals := ?L; fields := _ |} _] =>
    destruct (outer_loop convs rows [] L) as [loc' [E [Ho' Ht']]] end.
  { apply lookup_update_eq. }
  { step_env. exact Hc. }
  { step_env. exact Hd. }
  { exact Hok. }
  rewrite E. cbn [bind]. rewrite exec_block_cons. py_go. rewrite Ht'. step_env. py_go. rewrite Ho'. py_go.
  eexists. cbn [app]. rewrite (map_map (convert_row f convs) enc_row). reflexivity.
Qed.

(* ---- the converter-building loop over enumerate(columns) *)
Notation drv_keys := ["index"; "column"; "convert_col_fun"; "col_converters"].
Definition drv_env (vc vr vd : pv) (cv extra : list pv) : env :=
  [("columns", vc); ("drows", vr); ("dformat", vd); ("converters", PList cv)] ++ zipk extra drv_keys.
Definition shape034 (extra : list pv) : Prop := (length extra = 0 \/ length extra = 3 \/ length extra = 4)%nat.
Definition tcol_ok (dt : dtype) (idx : nat) (rows : list crow) : Prop :=
  match dt with DPlain _ => True | _ => col_ok dt idx rows end.
Definition loop1_body : list stmt := match drv_stmt 1 with SForUnpack _ _ b => b | _ => [] end.

Lemma ct_get dt : find (fun p => pv_eqb (fst p) (enc_dtype dt)) converting_types =
  match dt with
  | DPlain _ => None
  | DAmount => Some (PTuple [PInt 31], 8%nat)
  | DPosition => Some (PTuple [PInt 32], 9%nat)
  | DInventory => Some (PTuple [PInt 33], 10%nat)
  end.
Proof. destruct dt; vm_compute; reflexivity. Qed.

Lemma find_fn_functions :
  find_fn functions 8 = Some census_amount /\ find_fn functions 9 = Some census_position /\
  find_fn functions 10 = Some census_inventory.
Proof. repeat split. Qed.

Definition ctors_ok : Prop :=
  ctor_identity 0 /\ ctor_column 1 /\ ctor_conv 2 DAmount /\ ctor_conv 4 DPosition /\ ctor_conv 6 DInventory.

Local Arguments find : simpl never.

Lemma drv_iter vc rows vd cv extra i name dt : shape034 extra -> ctors_ok -> tcol_ok dt i rows ->
  exists extra', shape034 extra' /\
  bind (unpack_names {| locals := drv_env vc (enc_rows rows) vd cv extra; fields := [] |} ["index"; "column"]
          (PTuple [PInt (Z.of_nat i); enc_column (name, dt)]))
       (fun sv => exec_block call_ref P2 sv loop1_body)
  = Ok (Next {| locals := drv_env vc (enc_rows rows) vd (cv ++ map enc_conv (convert_col name dt rows i)) extra'; fields := [] |}).
Proof.
  intros Hex [Hid [_ [HA [HP HI]]]] Hok.
  destruct find_fn_functions as [F8 [F9 F10]].
  unfold loop1_body, drv_stmt, numberify_driver. cbn [f_body nth].
  destruct extra as [|x [|y [|z [|w [|v extra]]]]]; unfold shape034 in Hex; cbn in Hex; try lia.
  all: destruct dt; cbn [tcol_ok] in Hok.
  all: pose proof (fun k => ct_get (DPlain k)) as C0; pose proof (ct_get DAmount) as C1;
       pose proof (ct_get DPosition) as C2; pose proof (ct_get DInventory) as C3; cbn [enc_dtype] in C0, C1, C2, C3.
  all: repeat (progress (cbn -[find call_function]; rewrite ?C0, ?C1, ?C2, ?C3)).
  all: change (PInt (Z.of_nat i)) with (enc_idx i).
  all: try (change (PTuple [PInt 30; PInt k]) with (enc_dtype (DPlain k)); rewrite Hid).
  all: rewrite ?F8, ?F9, ?F10.
  all: try rewrite (census_amount_src name rows i HA Hok).
  all: try rewrite (census_position_src name rows i HP Hok).
  all: try rewrite (census_inventory_src name rows i HI Hok).
  all: cbn -[find call_function convert_col].
  all: first [ eexists [_; _; _]; (split; [|reflexivity]); unfold shape034; cbn; lia
             | eexists [_; _; _; _]; (split; [|reflexivity]); unfold shape034; cbn; lia ].
Qed.

Lemma bind_assoc {A B C} (r : res A) (g : A -> res B) (h : B -> res C) :
  bind r (fun a => bind (g a) h) = bind (bind r g) h.
Proof. destruct r; reflexivity. Qed.

Lemma loop1 vc rows vd : ctors_ok -> forall cols i0 cv extra, shape034 extra ->
  (forall j name dt, nth_error cols j = Some (name, dt) -> tcol_ok dt (i0 + j) rows) ->
  exists extra', shape034 extra' /\
  for_unpack_loop call_ref P2 loop1_body ["index"; "column"]
    {| locals := drv_env vc (enc_rows rows) vd cv extra; fields := [] |} (enum_from i0 (map enc_column cols))
  = Ok (Next {| locals := drv_env vc (enc_rows rows) vd (cv ++ map enc_conv (build_convs i0 cols rows)) extra'; fields := [] |}).
Proof.
  intros Hct. induction cols as [|[name dt] cols IH]; intros i0 cv extra Hex Hok.
  - exists extra. cbn [build_convs map]. rewrite app_nil_r. split; [exact Hex|reflexivity].
  - cbn [map enum_from for_unpack_loop build_convs]. rewrite bind_assoc.
    destruct (drv_iter vc rows vd cv extra i0 name dt Hex Hct) as [e1 [He1 E1]].
    { specialize (Hok 0%nat name dt eq_refl). rewrite Nat.add_0_r in Hok. exact Hok. }
    rewrite E1. cbn [bind].
    destruct (IH (S i0) (cv ++ map enc_conv (convert_col name dt rows i0)) e1 He1) as [e2 [He2 E2]].
    { intros j n d Hj. specialize (Hok (S j) n d Hj). rewrite Nat.add_succ_r in Hok. exact Hok. }
    exists e2. split; [exact He2|]. rewrite E2. rewrite map_app, app_assoc. reflexivity.
Qed.

(* ---- what well-typedness gives *)
Lemma row_ok_nth : forall cols r j name dt, row_ok cols r = true -> nth_error cols j = Some (name, dt) ->
  (j < length r)%nat /\ cell_ok dt (cellat j r) = true.
Proof.
  induction cols as [|[n d] cols IH]; intros r j name dt Hr Hj; [destruct j; discriminate|].
  destruct r as [|c r]; [discriminate|]. cbn [row_ok] in Hr. apply andb_prop in Hr. destruct Hr as [Hc Hr].
  destruct j as [|j]; cbn in Hj.
  - injection Hj as <- <-. split; [cbn; lia|exact Hc].
  - destruct (IH r j name dt Hr Hj) as [H1 H2]. split; [cbn; lia|exact H2].
Qed.

Lemma wt_tcol cols rows j name dt : well_typed cols rows = true -> nth_error cols j = Some (name, dt) ->
  tcol_ok dt j rows.
Proof.
  intros Hw Hj. assert (H : col_ok dt j rows).
  { intros r Hr. unfold well_typed in Hw. rewrite forallb_forall in Hw. exact (row_ok_nth cols r j name dt (Hw r Hr) Hj). }
  destruct dt; [exact I|exact H..].
Qed.

Lemma in_build_convs k rows : forall cols i0, In k (build_convs i0 cols rows) ->
  exists j name dt, nth_error cols j = Some (name, dt) /\ In k (convert_col name dt rows (i0 + j)).
Proof.
  induction cols as [|[n d] cols IH]; intros i0 H; [destruct H|].
  cbn [build_convs] in H. apply in_app_or in H. destruct H as [H|H].
  - exists 0%nat, n, d. rewrite Nat.add_0_r. split; [reflexivity|exact H].
  - destruct (IH (S i0) H) as [j [name [dt [Hj Hk]]]]. exists (S j), name, dt. rewrite Nat.add_succ_r. split; assumption.
Qed.

Lemma convs_ok cols rows : well_typed cols rows = true ->
  forall r k, In r rows -> In k (build_convs 0 cols rows) -> conv_ok k r.
Proof.
  intros Hw r k Hr Hk. destruct (in_build_convs k rows cols 0%nat Hk) as [j [name [dt [Hj Hc]]]]. cbn [Nat.add] in Hc.
  unfold well_typed in Hw. rewrite forallb_forall in Hw.
  destruct (row_ok_nth cols r j name dt (Hw r Hr) Hj) as [H1 H2].
  destruct dt; cbn [convert_col] in Hc.
  - destruct Hc as [<-|[]]. exact H1.
  - apply in_map_iff in Hc. destruct Hc as [cur [<- _]]. repeat split; assumption.
  - apply in_map_iff in Hc. destruct Hc as [cur [<- _]]. repeat split; assumption.
  - apply in_map_iff in Hc. destruct Hc as [cur [<- _]]. repeat split; assumption.
Qed.

(* ---- the whole of numberify_results *)
Lemma drv_stmt1_shape : drv_stmt 1 =
  SForUnpack ["index"; "column"] (XPrim "builtins.enumerate" [XName "columns"]) loop1_body.
Proof. reflexivity. Qed.

Theorem driver_src : forall cols rows, ctors_ok -> well_typed cols rows = true ->
  call_function call_ref P2 numberify_driver [enc_columns cols; enc_rows rows; enc_dformat f] =
  Ok (PTuple [PTuple (map enc_column (fst (numberify_core f cols rows)));
              PList (map enc_row (snd (numberify_core f cols rows)))]).
Proof.
  intros cols rows Hct Hw. destruct drv_shape as [Hp [Hg Hb]].
  unfold call_function. rewrite Hp, Hg, Hb. cbn [bind_params]. rewrite exec_block_cons.
  change (PyMini.exec call_ref P2 _ (SAssign (TName "converters") (XList [])))
    with (Ok (Next {| locals := drv_env (enc_columns cols) (enc_rows rows) (enc_dformat f) [] []; fields := [] |})).
  cbn [bind]. rewrite exec_block_cons, drv_stmt1_shape.
  erewrite (exec_for_unpack call_ref P2 _ _ loop1_body _ _ (enum_from 0 (map enc_column cols))); [|reflexivity].
  destruct (loop1 (enc_columns cols) rows (enc_dformat f) Hct cols 0%nat [] [] (or_introl eq_refl)) as [e1 [He1 E1]].
  { intros j name dt Hj. cbn [Nat.add]. exact (wt_tcol cols rows j name dt Hw Hj). }
  rewrite E1. cbn [bind app].
  destruct Hct as [_ [Hcol _]].
  destruct (drv_tail (build_convs 0 cols rows) rows
              (drv_env (enc_columns cols) (enc_rows rows) (enc_dformat f) (map enc_conv (build_convs 0 cols rows)) e1) Hcol)
    as [s' E]; try reflexivity.
  { intros r k Hr Hk. exact (convs_ok cols rows Hw r k Hr Hk). }
  rewrite E. reflexivity.
Qed.
End Tie.

(* ---------------------------------------------------------------- the primitive layers, closed over the generated tables *)
Definition num_prims0 (f : option (dec -> currency -> dec)) : string -> list pv -> res pv :=
  prims_base f converting_types.
Definition num_prims1 (call_ref : nat -> list pv -> pv) (f : option (dec -> currency -> dec)) : string -> list pv -> res pv :=
  prims1 f converting_types call_ref lambdas conv_identity_call conv_amount_call conv_position_call conv_inventory_call.
Definition num_prims2 (call_ref : nat -> list pv -> pv) (f : option (dec -> currency -> dec)) : string -> list pv -> res pv :=
  prims2 f converting_types call_ref lambdas conv_identity_call conv_amount_call conv_position_call conv_inventory_call
    functions.

(* the generated data: which opaque-callable number is which object, CONVERTING_TYPES, the class attribute dtype *)
Lemma tables_src :
  map snd refs = ["beanquery.numberify.IdentityConverter"; "beanquery.Column"; "beanquery.numberify.AmountConverter";
                  "lambda:census_amount_lambda0"; "beanquery.numberify.PositionConverter"; "lambda:census_position_lambda0";
                  "beanquery.numberify.InventoryConverter"; "lambda:census_inventory_lambda0";
                  "beanquery.numberify.convert_col_Amount"; "beanquery.numberify.convert_col_Position";
                  "beanquery.numberify.convert_col_Inventory"] /\
  map fst refs = seq 0 11 /\
  converting_types = [(enc_dtype DAmount, 8%nat); (enc_dtype DPosition, 9%nat); (enc_dtype DInventory, 10%nat)] /\
  functions = [(8%nat, census_amount); (9%nat, census_position); (10%nat, census_inventory)] /\
  lambdas = [(3%nat, census_amount_lambda0); (5%nat, census_position_lambda0); (7%nat, census_inventory_lambda0)] /\
  converter_dtypes = [("IdentityConverter", None); ("AmountConverter", Some (enc_dtype DDecimal));
                      ("PositionConverter", Some (enc_dtype DDecimal)); ("InventoryConverter", Some (enc_dtype DDecimal))].
Proof. repeat split. Qed.

Lemma inits_src : forall (call_ref : nat -> list pv -> pv) (prim : string -> list pv -> res pv) (a b c : pv),
  call_method call_ref prim conv_identity_init [] [a; b; c] = Ok ([("name", a); ("dtype", b); ("index", c)], PNone) /\
  call_method call_ref prim conv_amount_init [] [a; b; c] = Ok ([("name", a); ("index", b); ("currency", c)], PNone) /\
  call_method call_ref prim conv_position_init [] [a; b; c] = Ok ([("name", a); ("index", b); ("currency", c)], PNone) /\
  call_method call_ref prim conv_inventory_init [] [a; b; c] = Ok ([("name", a); ("index", b); ("currency", c)], PNone).
Proof. intros. repeat split. Qed.

(* a constructor oracle that satisfies ctors_ok (non-vacuity) *)
Definition example_call_ref : nat -> list pv -> pv := fun k args =>
  match k, args with
  | 0%nat, [n; d; i] => PTuple [PInt 11; PInt 0; n; d; i; PNone]
  | 1%nat, [n; d] => PTuple [PInt 10; n; d]
  | 2%nat, [n; i; c] => PTuple [PInt 11; PInt 1; n; PTuple [PInt 30; PInt 1]; i; c]
  | 4%nat, [n; i; c] => PTuple [PInt 11; PInt 2; n; PTuple [PInt 30; PInt 1]; i; c]
  | 6%nat, [n; i; c] => PTuple [PInt 11; PInt 3; n; PTuple [PInt 30; PInt 1]; i; c]
  | _, _ => PNone
  end.

Lemma example_ctors_ok : ctors_ok example_call_ref.
Proof. repeat split. Qed.
