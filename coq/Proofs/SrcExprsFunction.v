(* Tie by translation, C04 (group `exprs`), second part: Compiler._function (Gen/SrcExprs.v compile_function) computes
   Compile.build_function - the operands are compiled left to right with the table threaded through, coalesce() is checked
   (at least one argument, no "*", uniform type) and built, a failed lookup in FUNCTIONS is the error, meta / entry_meta /
   any_meta are rewritten to getitem(..) over the columns and compiled again, otherwise the selected class is applied to
   (context, operands) and a pure function over constants only is folded.  Encodings: Model/PrimsExprs.v; common lemmas
   and the other four methods: Proofs/SrcExprs.v. *)
From Coq Require Import String Ascii ZArith List Bool Lia.
Import ListNotations.
From Verif Require Import Base.PyValue Model.Eval Model.PyMini Model.PrimsApi Model.PrimsCompiler Model.PrimsSelect
  Model.PrimsExprs Proofs.PyMiniLemmas Proofs.PyMiniLemmas2 Proofs.SrcApi Proofs.SrcExprs.
From Verif Require Model.Compile.
From Verif Require Import Gen.SrcExprs.
Open Scope string_scope.
Open Scope list_scope.
Open Scope Z_scope.

Arguments CompErr : simpl never.
Arguments Compile.build_function : simpl never.
Arguments Compile.build_call : simpl never.
Arguments Compile.function_lookup : simpl never.
Arguments Compile.overloads : simpl never.
Arguments Compile.assoc : simpl never.
Arguments enc_operators : simpl never.
Arguments enc_functions : simpl never.
Arguments ast_cls : simpl never.
Arguments cls_tag : simpl never.
Arguments cls_fields : simpl never.
Arguments as_class : simpl never.
Arguments class_overload : simpl never.
Arguments apply_class : simpl never.
Arguments fold_of : simpl never.
Arguments func_node : simpl never.
Arguments node_pure : simpl never.
Arguments as_nrefs : simpl never.

Ltac norm := cbn; repeat (rewrite nat_guard'; cbn).
(* `x == 'lit'` on strings: Base.PyValue.val_eq on code points is String.eqb *)
Ltac streq f lit :=
  let L := eval cbv in (zs lit) in change L with (zs lit); rewrite ?val_eq_str, (zeqb_zs f lit).

Section Tie.
Variable call_ref : nat -> list pv -> pv.
Variable tbl : nat -> Compile.cnode.
Variable kids : nat -> list nat.
Variable mro : string -> list string.
Variable msg : string -> list pv -> pv.
Variable updatable : pv -> bool.
Variable upd : pv -> pv -> pv -> pv -> pv.
Variable mk : Compile.cnode -> nat.
Notation prim := (prim_exprs tbl kids mro msg updatable upd mk).
Notation eval := (PyMini.eval call_ref prim).
Notation exec := (PyMini.exec call_ref prim).
Notation exec_block := (PyMini.exec_block call_ref prim).
Notation comp_go := (comp_go call_ref prim).

Ltac step :=
  try match goal with TL := _ |- _ => idtac end;
  repeat match goal with ETL : ?TL = _ :> list stmt |- _ => subst TL end;
  lazymatch goal with
  | |- context [PyMini.exec_block _ _ ?ss ?ll] =>
      lazymatch ll with
      | cons ?cc ?tt =>
          let TL := fresh "TL" in let ETL := fresh "ETL" in
          remember tt as TL eqn:ETL; rewrite (xb_cons call_ref tbl kids mro msg updatable upd mk ss cc TL); cbn
      end
  end.

Ltac step_for H :=
  repeat match goal with ETL : ?TL = _ :> list stmt |- _ => subst TL end;
  lazymatch goal with
  | |- context [PyMini.exec_block _ _ ?ss (cons ?cc ?tt)] =>
      let TL := fresh "TL" in let ETL := fresh "ETL" in
      remember tt as TL eqn:ETL; rewrite (xb_cons call_ref tbl kids mro msg updatable upd mk ss cc TL);
      rewrite (exec_for call_ref prim _ _ _ _ _ _ H)
  end.

Ltac step_if_core b tac :=
  lazymatch goal with
  | |- context [PyMini.exec_block _ _ ?ss (cons (SIf ?c ?A ?B) ?tt)] =>
      let Ec := fresh "Ec" in
      assert (Ec : eval ss c = Ok (ss, PBool b)) by tac;
      lazymatch tt with
      | nil => rewrite (exec_block_if_last call_ref tbl kids mro msg updatable upd mk c A B ss ss (PBool b) b Ec eq_refl)
      | _ => let TL := fresh "TL" in let ETL := fresh "ETL" in
             remember tt as TL eqn:ETL;
             rewrite (exec_block_if call_ref tbl kids mro msg updatable upd mk c A B TL ss ss (PBool b) b Ec eq_refl)
      end; clear Ec; cbv iota;
      try (rewrite (exec_block_nil call_ref prim ss); cbn [bind])
  end.
Ltac step_if b tac :=
  repeat match goal with ETL : ?TL = _ :> list stmt |- _ => subst TL end; step_if_core b tac.

Variable kC : nat.
Variable ctx : pv.
Variable rest : env.
Notation flds := (flds kC ctx rest).

(* ---------------------------------------------------------------- Compiler._function *)
Definition FUNC (fname : string) (xs : list pv) (pinfo : pv) : pv :=
  record (zs FUNCTION) [("fname", PStr fname); ("operands", PList xs); ("parseinfo", pinfo)].

(* self._compile as a function: the table it leaves behind and the address of the node, or the error *)
Variable rc : pv -> pv -> Compile.result (pv * nat) cerr.
Hypothesis Hrc : forall t x, call_ref kC [t; x] = enc_res (fun p => PTuple [fst p; nref (snd p)]) (rc t x).

Fixpoint seq_compile (t : pv) (xs : list pv) : Compile.result (pv * list nat) cerr :=
  match xs with
  | [] => Compile.Ok (t, [])
  | x :: r => Compile.bind (rc t x) (fun p =>
              Compile.bind (seq_compile (fst p) r) (fun q => Compile.Ok (fst q, snd p :: snd q)))
  end.

Definition ops_body : list stmt :=
  [SUnpack [TSelf "table"; TName "$e"]
     (XCall (XAttr (XName "self") "_compile") [XAttr (XName "self") "table"; XName "$c"] None);
   SExpr (XMethod (TName "operands") "append" [XName "$e"])].

Definition env5 (N : pv) (ops : list nat) (c e : pv) : env :=
  [("self", PSelf); ("node", N); ("operands", PList (map nref ops)); ("$c", c); ("$e", e)].

Lemma ops_loop N : forall xs t acc c e,
  match seq_compile t xs with
  | Compile.Err er =>
      for_loop call_ref prim ops_body "$c" {| locals := env5 N acc c e; fields := flds t |} xs = Exc (CompErr er)
  | Compile.Ok (t', ops) =>
      exists c' e', for_loop call_ref prim ops_body "$c" {| locals := env5 N acc c e; fields := flds t |} xs =
                    Ok (Next {| locals := env5 N (acc ++ ops) c' e'; fields := flds t' |})
  end.
Proof.
  induction xs as [|x r IH]; intros t acc c e.
  - cbn [seq_compile]. exists c, e. rewrite app_nil_r. reflexivity.
  - cbn [seq_compile PyMiniLemmas.for_loop]. unfold ops_body at 1 2. unfold env5 at 1 2.
    cbn [write locals fields update String.eqb Ascii.eqb Bool.eqb].
    rewrite xb_cons. cbn. rewrite Hrc.
    destruct (rc t x) as [[t' n]|er]; cbn [enc_res Compile.bind fst snd]; [|reflexivity].
    cbn. fold ops_body.
    change (map nref acc ++ [nref n]) with (map nref acc ++ map nref [n]). rewrite <- map_app.
    specialize (IH t' (acc ++ [n]) x (nref n)). unfold env5 in IH.
    destruct (seq_compile t' r) as [[t'' ops]|er]; cbn [Compile.bind fst snd].
    + destruct IH as (c' & e' & IH). exists c', e'. rewrite <- app_assoc in IH. exact IH.
    + exact IH.
Qed.

Lemma node_dtype i : prim "attr:dtype" [nref i] = Ok (PStr (Compile.dtype (tbl i))).
Proof. unfold prim_exprs, prim_select, prim_compiler. cbn. now rewrite nat_guard'. Qed.

Lemma node_isconst i :
  prim "isinstance:beanquery.query_compile.EvalConstant" [nref i] = Ok (PBool (Compile.is_const (tbl i))).
Proof. unfold prim_exprs, prim_select, prim_compiler. cbn. now rewrite nat_guard'. Qed.

(* ---- the comprehensions of the body: over the compiled operands (references into the heap) *)
Lemma comp_isconst s1 : forall l,
  comp_go s1 (XPrim "isinstance:beanquery.query_compile.EvalConstant" [XName "operand"]) "operand" None (map nref l) =
  Ok (map (fun i => PBool (Compile.is_const (tbl i))) l).
Proof.
  induction l as [|i r IH]; [reflexivity|]. cbn [map SrcApi.comp_go bind].
  cbn [PyMini.eval read write locals bind]. rewrite lookup_update_eq. cbn [bind].
  rewrite node_isconst. cbn [bind snd]. rewrite IH. reflexivity.
Qed.

Lemma comp_names s1 : forall l,
  comp_go s1 (XAttr (XAttr (XName "operand") "dtype") "__name__") "operand" None (map nref l) =
  Ok (map (fun i => msg "attr:__name__" [PStr (Compile.dtype (tbl i))]) l).
Proof.
  induction l as [|i r IH]; [reflexivity|]. cbn [map SrcApi.comp_go bind].
  cbn [PyMini.eval read write locals bind]. rewrite lookup_update_eq. cbn [bind].
  change ("attr:" ++ "dtype")%string with "attr:dtype". rewrite node_dtype. cbn. rewrite IH. reflexivity.
Qed.

Lemma comp_lnames s1 : forall l,
  comp_go s1 (XPrim "fstring" [XCallMethod (XAttr (XAttr (XName "operand") "dtype") "__name__") "lower" []])
    "operand" None (map nref l) =
  Ok (map (fun i => msg "fstring" [msg "call:lower" [msg "attr:__name__" [PStr (Compile.dtype (tbl i))]]]) l).
Proof.
  induction l as [|i r IH]; [reflexivity|]. cbn [map SrcApi.comp_go bind].
  cbn [PyMini.eval read write locals bind]. rewrite lookup_update_eq. cbn [bind].
  change ("attr:" ++ "dtype")%string with "attr:dtype". rewrite node_dtype. cbn. rewrite IH. reflexivity.
Qed.

Lemma zeqb_lit t (lit : string) : zeqb (zs t) (zs lit) = String.eqb t lit.
Proof. apply zeqb_zs. Qed.

Lemma all_consts l :
  all_truthy (map (fun i => PBool (Compile.is_const (tbl i))) l) = Ok (forallb Compile.is_const (map tbl l)).
Proof.
  induction l as [|i r IH]; [reflexivity|]. cbn [map all_truthy forallb]. cbn [pv_truthy PBool truthy bind].
  destruct (Compile.is_const (tbl i)); cbn [andb]; [exact IH|reflexivity].
Qed.

(* ---- the coalesce() loop: every argument typed, none "*", all of the type of the first *)
Definition co_body : list stmt :=
  Eval cbv in match nth 2 (f_body compile_function) SPass with
              | SIf _ (_ :: SFor _ _ b :: _) _ => b
              | _ => []
              end.

Definition env6 (N : pv) (ops : list nat) (c e v : pv) : env :=
  [("self", PSelf); ("node", N); ("operands", PList (map nref ops)); ("$c", c); ("$e", e); ("operand", v)].

Lemma zeqb_star t : zeqb (zs t) [42] = String.eqb t "*".
Proof. exact (zeqb_zs t "*"). Qed.

Lemma co_loop N first opsr t c e : forall l v,
  match Compile.coalesce_check (Compile.dtype (tbl first)) (map tbl l) with
  | Some er =>
      for_loop call_ref prim co_body "operand"
        {| locals := env6 N (first :: opsr) c e v; fields := flds t |} (map nref l) = Exc (CompErr er)
  | None =>
      exists v', for_loop call_ref prim co_body "operand"
                   {| locals := env6 N (first :: opsr) c e v; fields := flds t |} (map nref l) =
                 Ok (Next {| locals := env6 N (first :: opsr) c e v'; fields := flds t |})
  end.
Proof.
  induction l as [|i r IH]; intros v.
  - cbn. exists v. reflexivity.
  - cbn [map Compile.coalesce_check].
    assert (Estep : for_loop call_ref prim co_body "operand"
                      {| locals := env6 N (first :: opsr) c e v; fields := flds t |} (nref i :: map nref r) =
                    bind (exec_block {| locals := env6 N (first :: opsr) c e (nref i); fields := flds t |} co_body)
                      (fun o => match o with
                                | Next s1 => for_loop call_ref prim co_body "operand" s1 (map nref r)
                                | Ret _ _ => Ok o
                                end)) by reflexivity.
    rewrite Estep. clear Estep. unfold co_body at 1. unfold env6 at 1.
    destruct (String.eqb (Compile.dtype (tbl i)) "*") eqn:Es;
      [|destruct (String.eqb (Compile.dtype (tbl i)) (Compile.dtype (tbl first))) eqn:Et; cbn [negb]].
    + rewrite xb_cons. norm. rewrite zeqb_star, Es. cbn. reflexivity.
    + specialize (IH (nref i)). unfold env6 in IH.
      destruct (Compile.coalesce_check (Compile.dtype (tbl first)) (map tbl r)) as [er|].
      * rewrite xb_cons. norm. rewrite zeqb_star, Es. norm. rewrite val_eq_str, zeqb_zs, Et. cbn.
        exact IH.
      * destruct IH as (v' & IH). exists v'. unfold co_body at 1. unfold env6 at 1.
        rewrite xb_cons. norm. rewrite zeqb_star, Es. norm. rewrite val_eq_str, zeqb_zs, Et. cbn.
        exact IH.
    + remember (XListComp (XAttr (XAttr (XName "operand") "dtype") "__name__") "operand" (XName "operands") None)
        as LC eqn:ELC.
      rewrite xb_cons. norm. rewrite zeqb_star, Es. norm. rewrite val_eq_str, zeqb_zs, Et. cbn.
      subst LC. erewrite eval_listcomp_gen by reflexivity.
      change (nref first :: map nref opsr) with (map nref (first :: opsr)). rewrite comp_names. cbn. reflexivity.
Qed.

(* the node a meta function is rewritten to *)
Definition COL (n : string) (pinfo : pv) : pv := record (zs COLUMN) [("name", PStr n); ("parseinfo", pinfo)].
Definition GETITEM (args : list pv) : pv := record (zs FUNCTION) [("fname", PStr "getitem"); ("operands", PList args)].
Definition ATTR (o : pv) (n : string) : pv := record (zs ATTRIBUTE) [("operand", o); ("name", PStr n)].
Definition meta_node (fname : string) (key pinfo : pv) : pv :=
  if String.eqb fname "meta" then GETITEM [COL "meta" pinfo; key]
  else if String.eqb fname "entry_meta" then GETITEM [ATTR (COL "entry" pinfo) "meta"; key]
  else GETITEM [COL "meta" pinfo; key; GETITEM [ATTR (COL "entry" pinfo) "meta"; key]].
Definition is_meta (fname : string) : bool := (String.eqb fname "meta") || (String.eqb fname "entry_meta") || (String.eqb fname "any_meta").

Definition p_function (t1 : pv) (fname : string) (xs : list pv) (pinfo : pv) (ops : list nat) : res (env * pv) :=
  if String.eqb fname "coalesce" then
    match ops with
    | [] => Exc (CompErr Compile.ECoalesceEmpty)
    | f :: _ => match Compile.coalesce_check (Compile.dtype (tbl f)) (map tbl ops) with
                | Some er => Exc (CompErr er)
                | None => Ok (flds t1, nref (mk (Compile.NCoalesce (map tbl ops) (Compile.dtype (tbl f)))))
                end
    end
  else match Compile.function_lookup R.functions fname (map (fun i => Compile.dtype (tbl i)) ops) with
       | None => Exc (CompErr Compile.ENoFunction)
       | Some (i, o) =>
           if is_meta fname then
             match xs with
             | [] => Exc IndexError
             | key :: _ => match rc t1 (meta_node fname key pinfo) with
                           | Compile.Ok (t2, j) => Ok (flds t2, nref j)
                           | Compile.Err e => Exc (CompErr e)
                           end
             end
           else Ok (flds t1, nref (mk (Compile.build_call fname i o (map tbl ops))))
       end.

Theorem function_src : forall (t0 pinfo : pv) (fname : string) (xs : list pv),
  (forall ops, call_ref kFL [enc_functions; PStr fname; PList (map nref ops)] =
               enc_cfound false fname (Compile.function_lookup R.functions fname (map (fun i => Compile.dtype (tbl i)) ops))) ->
  (forall t1 ops i o, seq_compile t0 xs = Compile.Ok (t1, ops) ->
     Compile.function_lookup R.functions fname (map (fun i => Compile.dtype (tbl i)) ops) = Some (i, o) ->
     tbl (mk (func_node fname i o (map tbl ops))) = func_node fname i o (map tbl ops)) ->
  call_method call_ref prim compile_function (flds t0) [FUNC fname xs pinfo] =
  match seq_compile t0 xs with
  | Compile.Err e => Exc (CompErr e)
  | Compile.Ok (t1, ops) => p_function t1 fname xs pinfo ops
  end.
Proof.
  intros t0 pinfo fname xs Hfl Hheap.
  unfold call_method, compile_function. cbn [f_params f_body bind_params bind f_gen].
  step. subst TL.
  match goal with |- context [PyMini.exec_block _ _ ?ss (SFor _ ?it _ :: _)] =>
    assert (Eit : eval ss it = Ok (ss, PList xs)) by reflexivity end.
  step_for Eit. fold ops_body.
  destruct xs as [|x0 xr].
  - (* no operands *)
    cbn [seq_compile PyMiniLemmas.for_loop bind]. unfold p_function.
    specialize (Hheap t0 []). cbn [map] in Hheap.
    pose proof (Hfl []) as Hfl0. cbn [map] in Hfl0.
    destruct (String.eqb fname "coalesce") eqn:Eco.
    + step_if true ltac:(norm; streq fname "coalesce"; rewrite Eco; reflexivity).
      step_if_core true ltac:(reflexivity). cbn. reflexivity.
    + step_if false ltac:(norm; streq fname "coalesce"; rewrite Eco; reflexivity).
      remember (XListComp (XPrim "fstring" [XCallMethod (XAttr (XAttr (XName "operand") "dtype") "__name__") "lower" []])
                  "operand" (XName "operands") None) as LC2 eqn:ELC2.
      remember (XListComp (XPrim "isinstance:beanquery.query_compile.EvalConstant" [XName "operand"]) "operand"
                  (XName "operands") None) as LC3 eqn:ELC3.
      step. change (call_ref 0%nat) with (call_ref kFL). rewrite Hfl0.
      destruct (Compile.function_lookup R.functions fname []) as [[i o]|] eqn:El;
        cbn [enc_cfound]; rewrite ?enc_class_CLS; cbn.
      2:{ step_if true ltac:(reflexivity). cbn.
          subst LC2. erewrite eval_listcomp_gen by reflexivity. cbn. reflexivity. }
      step_if false ltac:(reflexivity).
      unfold is_meta.
      destruct (String.eqb fname "meta") eqn:Em1.
      { step_if true ltac:(norm; streq fname "meta"; rewrite Em1; reflexivity). cbn. reflexivity. }
      step_if false ltac:(norm; streq fname "meta"; rewrite Em1; reflexivity).
      destruct (String.eqb fname "entry_meta") eqn:Em2.
      { step_if true ltac:(norm; streq fname "entry_meta"; rewrite Em2; reflexivity). cbn. reflexivity. }
      step_if false ltac:(norm; streq fname "entry_meta"; rewrite Em2; reflexivity).
      destruct (String.eqb fname "any_meta") eqn:Em3.
      { step_if true ltac:(norm; streq fname "any_meta"; rewrite Em3; reflexivity). cbn. reflexivity. }
      step_if false ltac:(norm; streq fname "any_meta"; rewrite Em3; reflexivity).
      cbn [orb].
      assert (Hnf : nth_error (Compile.overloads R.functions fname) i = Some o) by (apply function_lookup_nth in El; exact El).
      specialize (Hheap i o eq_refl eq_refl).
      step. rewrite (apply_fn tbl mk fname i o ctx [] Hnf : apply_class tbl mk (CLS false fname i o) [ctx; PList []] = _).
      cbn [map] in *. cbn.
      set (FN := func_node fname i o []) in *.
      assert (Hpure : node_pure FN = Compile.ov_pure o).
      { unfold FN, func_node, node_pure, class_overload. now rewrite Hnf. }
      unfold Compile.build_call. cbn [forallb andb map].
      subst TL.
      destruct (Compile.ov_pure o) eqn:Ep.
      * step_if true ltac:(cbn; subst LC3; erewrite eval_listcomp_gen by reflexivity; norm; rewrite Hheap, Hpure; reflexivity).
        norm. rewrite Hheap, unzs_zs. reflexivity.
      * step_if false ltac:(cbn; subst LC3; erewrite eval_listcomp_gen by reflexivity; norm; rewrite Hheap, Hpure; reflexivity).
        subst TL. cbn. reflexivity.
  - (* the first operand by hand, the others by ops_loop *)
    cbn [seq_compile PyMiniLemmas.for_loop]. unfold ops_body at 1.
    cbn [write locals fields update String.eqb Ascii.eqb Bool.eqb].
    rewrite xb_cons. cbn. rewrite Hrc.
    cbn [seq_compile] in Hheap.
    destruct (rc t0 x0) as [[t' n0]|er] eqn:Erc0; cbn [enc_res Compile.bind fst snd] in *; [|reflexivity].
    cbn. fold ops_body.
    pose proof (ops_loop (FUNC fname (x0 :: xr) pinfo) xr t' [n0] x0 (nref n0)) as HL. unfold env5 in HL. cbn [map app] in HL. unfold SrcExprs.flds in HL.
    destruct (seq_compile t' xr) as [[t1 ops']|er] eqn:Esq; cbn [enc_res Compile.bind fst snd app] in *.
    2:{ rewrite HL. reflexivity. }
    destruct HL as (c' & e' & ->). cbn [bind].
    specialize (Hheap t1 (n0 :: ops')).
    change (nref n0 :: map nref ops') with (map nref (n0 :: ops')).
    remember (n0 :: ops') as ops eqn:Eops.
    unfold p_function.
    destruct (String.eqb fname "coalesce") eqn:Eco.
    + subst ops. cbn [map].
      step_if true ltac:(norm; streq fname "coalesce"; rewrite Eco; reflexivity).
      step_if_core false ltac:(reflexivity). subst TL0.
      match goal with |- context [PyMini.exec_block _ _ ?ss (SFor _ ?it _ :: _)] =>
        assert (Eit2 : eval ss it = Ok (ss, PList (nref n0 :: map nref ops'))) by reflexivity end.
      rewrite xb_cons, (exec_for call_ref prim _ _ _ _ _ _ Eit2). fold co_body.
      cbn [map Compile.coalesce_check].
      (* the first argument by hand *)
      assert (Estep : forall s, for_loop call_ref prim co_body "operand" s (nref n0 :: map nref ops') =
                    bind (exec_block (write s (TName "operand") (nref n0)) co_body)
                      (fun o => match o with
                                | Next s1 => for_loop call_ref prim co_body "operand" s1 (map nref ops')
                                | Ret _ _ => Ok o
                                end)) by reflexivity.
      rewrite Estep. clear Estep. unfold co_body at 1.
      cbn [write locals fields update String.eqb Ascii.eqb Bool.eqb].
      rewrite String.eqb_refl. cbn [negb].
      pose proof (co_loop (FUNC fname (x0 :: xr) pinfo) n0 ops' t1 c' e' ops' (nref n0)) as HC. unfold env6 in HC.
      unfold SrcExprs.flds in HC.
      destruct (String.eqb (Compile.dtype (tbl n0)) "*") eqn:Es.
      { rewrite xb_cons. norm. rewrite zeqb_star, Es. cbn. reflexivity. }
      rewrite xb_cons. norm. rewrite zeqb_star, Es. norm. rewrite val_eq_str, zeqb_refl. cbn.
      cbn [map] in HC.
      destruct (Compile.coalesce_check (Compile.dtype (tbl n0)) (map tbl ops')) as [er|].
      { rewrite HC. reflexivity. }
      destruct HC as (v' & ->). cbn.
      change (nref n0 :: map nref ops') with (map nref (n0 :: ops')). rewrite as_nrefs_map. cbn. reflexivity.
    + step_if false ltac:(norm; streq fname "coalesce"; rewrite Eco; reflexivity).
      remember (XListComp (XPrim "fstring" [XCallMethod (XAttr (XAttr (XName "operand") "dtype") "__name__") "lower" []])
                  "operand" (XName "operands") None) as LC2 eqn:ELC2.
      remember (XListComp (XPrim "isinstance:beanquery.query_compile.EvalConstant" [XName "operand"]) "operand"
                  (XName "operands") None) as LC3 eqn:ELC3.
      step. change (call_ref 0%nat) with (call_ref kFL). rewrite Hfl.
      destruct (Compile.function_lookup R.functions fname (map (fun i => Compile.dtype (tbl i)) ops)) as [[i o]|] eqn:El;
        cbn [enc_cfound]; rewrite ?enc_class_CLS; cbn.
      2:{ step_if true ltac:(reflexivity). cbn.
          subst LC2. erewrite eval_listcomp_gen by reflexivity. rewrite comp_lnames. cbn. reflexivity. }
      step_if false ltac:(reflexivity).
      unfold is_meta, meta_node.
      destruct (String.eqb fname "meta") eqn:Em1.
      { step_if true ltac:(norm; streq fname "meta"; rewrite Em1; reflexivity).
        cbn. rewrite Hrc.
        match goal with |- context [rc t1 ?n] => change n with (GETITEM [COL "meta" pinfo; x0]) end.
        destruct (rc t1 (GETITEM [COL "meta" pinfo; x0])) as [[t2 j]|er]; cbn; reflexivity. }
      step_if false ltac:(norm; streq fname "meta"; rewrite Em1; reflexivity).
      destruct (String.eqb fname "entry_meta") eqn:Em2.
      { step_if true ltac:(norm; streq fname "entry_meta"; rewrite Em2; reflexivity).
        cbn. rewrite Hrc.
        match goal with |- context [rc t1 ?n] => change n with (GETITEM [ATTR (COL "entry" pinfo) "meta"; x0]) end.
        destruct (rc t1 (GETITEM [ATTR (COL "entry" pinfo) "meta"; x0])) as [[t2 j]|er]; cbn; reflexivity. }
      step_if false ltac:(norm; streq fname "entry_meta"; rewrite Em2; reflexivity).
      destruct (String.eqb fname "any_meta") eqn:Em3.
      { step_if true ltac:(norm; streq fname "any_meta"; rewrite Em3; reflexivity).
        cbn. rewrite Hrc.
        match goal with |- context [rc t1 ?n] =>
          change n with (GETITEM [COL "meta" pinfo; x0; GETITEM [ATTR (COL "entry" pinfo) "meta"; x0]]) end.
        destruct (rc t1 (GETITEM [COL "meta" pinfo; x0; GETITEM [ATTR (COL "entry" pinfo) "meta"; x0]])) as [[t2 j]|er];
          cbn; reflexivity. }
      step_if false ltac:(norm; streq fname "any_meta"; rewrite Em3; reflexivity).
      cbn [orb].
      assert (Hnf : nth_error (Compile.overloads R.functions fname) i = Some o) by (apply function_lookup_nth in El; exact El).
      specialize (Hheap i o eq_refl eq_refl).
      step. rewrite (apply_fn tbl mk fname i o ctx ops Hnf). cbn.
      set (FN := func_node fname i o (map tbl ops)) in *.
      assert (Hpure : node_pure FN = Compile.ov_pure o).
      { unfold FN, func_node, node_pure, class_overload. now rewrite Hnf. }
      assert (Hfold : fold_of FN = Compile.CFold fname i (map Compile.const_val (map tbl ops))) by reflexivity.
      assert (Hdt : Compile.dtype FN =
                    if Compile.agg_dtype_of_operand fname o
                    then match map tbl ops with x :: _ => Compile.dtype x | [] => Compile.ov_out o end
                    else Compile.ov_out o) by reflexivity.
      unfold Compile.build_call. fold (Compile.dtype FN) in *. rewrite <- Hdt.
      subst TL.
      destruct (forallb Compile.is_const (map tbl ops)) eqn:Eall; cbn [andb].
      * destruct (Compile.ov_pure o) eqn:Ep.
        -- step_if true ltac:(cbn; subst LC3; erewrite eval_listcomp_gen by reflexivity; rewrite comp_isconst; cbn;
                              rewrite all_consts, Eall; norm; rewrite Hheap, Hpure; reflexivity).
           norm. rewrite Hheap, Hfold, unzs_zs. reflexivity.
        -- step_if false ltac:(cbn; subst LC3; erewrite eval_listcomp_gen by reflexivity; rewrite comp_isconst; cbn;
                               rewrite all_consts, Eall; norm; rewrite Hheap, Hpure; reflexivity).
           subst TL. cbn. reflexivity.
      * step_if false ltac:(cbn; subst LC3; erewrite eval_listcomp_gen by reflexivity; rewrite comp_isconst; cbn;
                            rewrite all_consts, Eall; reflexivity).
        subst TL. cbn. reflexivity.
Qed.

(* [p_function] is the model's Compile.build_function for every function that is not one of the three rewritten meta
   functions (for those the method returns what compiling the rewritten node returns) *)
Lemma p_function_model (tb : Compile.table) t1 fname xs pinfo ops :
  is_meta fname = false ->
  p_function t1 fname xs pinfo ops =
  match Compile.build_function tb fname (map tbl ops) with
  | Compile.Ok n => Ok (flds t1, nref (mk n))
  | Compile.Err e => Exc (CompErr e)
  end.
Proof.
  unfold is_meta, p_function, Compile.build_function. intros Hm.
  apply orb_false_iff in Hm as [Hm Hm3]. apply orb_false_iff in Hm as [Hm1 Hm2].
  destruct (String.eqb fname "coalesce").
  - destruct ops as [|f r]; [reflexivity|]. cbn [map].
    destruct (Compile.coalesce_check (Compile.dtype (tbl f)) (tbl f :: map tbl r)); reflexivity.
  - rewrite map_map.
    destruct (Compile.function_lookup R.functions fname (map (fun i => Compile.dtype (tbl i)) ops)) as [[i o]|];
      [|reflexivity].
    unfold is_meta. rewrite Hm1, Hm2, Hm3. reflexivity.
Qed.

Theorem function_model_src : forall (tb : Compile.table) (t0 pinfo : pv) (fname : string) (xs : list pv),
  is_meta fname = false ->
  (forall ops, call_ref kFL [enc_functions; PStr fname; PList (map nref ops)] =
               enc_cfound false fname (Compile.function_lookup R.functions fname (map (fun i => Compile.dtype (tbl i)) ops))) ->
  (forall t1 ops i o, seq_compile t0 xs = Compile.Ok (t1, ops) ->
     Compile.function_lookup R.functions fname (map (fun i => Compile.dtype (tbl i)) ops) = Some (i, o) ->
     tbl (mk (func_node fname i o (map tbl ops))) = func_node fname i o (map tbl ops)) ->
  call_method call_ref prim compile_function (flds t0) [FUNC fname xs pinfo] =
  match seq_compile t0 xs with
  | Compile.Err e => Exc (CompErr e)
  | Compile.Ok (t1, ops) =>
      match Compile.build_function tb fname (map tbl ops) with
      | Compile.Ok n => Ok (flds t1, nref (mk n))
      | Compile.Err e => Exc (CompErr e)
      end
  end.
Proof.
  intros tb t0 pinfo fname xs Hm Hfl Hheap. rewrite (function_src t0 pinfo fname xs Hfl Hheap).
  destruct (seq_compile t0 xs) as [[t1 ops]|e]; [|reflexivity]. now apply p_function_model.
Qed.

End Tie.
