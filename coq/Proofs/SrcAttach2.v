(* Tie by translation, C09 (bld-inv2): the PyMini term generated on every run from the CURRENT source of
   beanquery.sources.beancount.attach (Gen/SrcAttach2.v: `source_attach`, the table `attach2_tables` of the live
   module-level TABLES, `attach2_written`) against the model of the connection's containers
   (Model/PrimsAttach2.register_tables / raw_update, on the encoding of Model/PrimsAttach.new_connection). *)
From Coq Require Import String Ascii ZArith List Bool Lia.
Import ListNotations.
From Verif Require Import Base.PyValue Model.Eval Model.PyMini Model.PrimsApi Model.PrimsAttach Model.PrimsAttach2
  Proofs.PyMiniLemmas Proofs.PyMiniLemmas2.
From Verif Require Import Gen.SrcAttach2.
Open Scope string_scope.
Open Scope list_scope.
Open Scope Z_scope.

(* ------------------------------------------------------------------ what was generated *)
Definition kUrlparse : nat := 0.
Definition kLoadFile : nat := 1.

Lemma refs_ok :
  ref_of refs "urllib.parse.urlparse" = Some kUrlparse /\ ref_of refs "beancount.loader.load_file" = Some kLoadFile.
Proof. split; reflexivity. Qed.

(* every element of TABLES is the opaque callable `refs` lists under the class's qualified name *)
Lemma tables_refs : forallb (fun t => match ref_of refs (snd (fst t)) with Some k => Nat.eqb k (fst (fst t)) | None => false end)
                            attach2_tables = true.
Proof. vm_compute. reflexivity. Qed.

Definition table_names : list string := map snd attach2_tables.

Lemma table_names_eq :
  table_names = ["entries"; "postings"; "transactions"; "prices"; "balances"; "notes"; "events"; "documents";
                 "accounts"; "commodities"].
Proof. reflexivity. Qed.

Lemma table_classes_head :
  map (fun t => snd (fst t)) (firstn 2 attach2_tables) =
  ["beanquery.query_env.EntriesTable"; "beanquery.query_env.PostingsTable"].
Proof. reflexivity. Qed.

Lemma table_names_nodup : NoDup table_names.
Proof.
  rewrite table_names_eq.
  repeat (constructor; [cbn [In]; intros H; repeat (destruct H as [H|H]; [discriminate H|]); exact H|]).
  constructor.
Qed.

Lemma table_callables_nodup : NoDup (map (fun t => fst (fst t)) attach2_tables).
Proof.
  cbn. repeat (constructor; [cbn [In]; intros H; repeat (destruct H as [H|H]; [discriminate H|]); exact H|]).
  constructor.
Qed.

Lemma written_eq : attach2_written = ["tables"; "options"; "errors"].
Proof. reflexivity. Qed.

Local Arguments do_call : simpl never.
Local Arguments raw_set : simpl never.
Local Arguments raw_update : simpl never.
Local Arguments opaque_method : simpl never.

Section Tie.
Variable call_ref : nat -> list pv -> pv.
Variable msg : string -> list pv -> pv.
Notation prim := (prim_attach2 msg (tname_of attach2_tables)).

Definition not_err (v : pv) : Prop := forall e, v <> PV (VErr e).

Lemma do_call_ok k a : not_err (call_ref k a) -> do_call call_ref (PRef k) a = Ok (call_ref k a).
Proof.
  intros H. unfold do_call. destruct (call_ref k a) as [[]| | | |] eqn:E; try reflexivity.
  exfalso. exact (H k0 eq_refl).
Qed.

Lemma opaque_ok name a : not_err (msg name a) -> opaque_method msg name a = Ok (msg name a).
Proof.
  intros H. unfold opaque_method. destruct (msg name a) as [[]| | | |] eqn:E; try reflexivity.
  exfalso. exact (H k eq_refl).
Qed.

Lemma exec_block_app_next : forall l1 l2 s s',
  exec_block call_ref prim s l1 = Ok (Next s') ->
  exec_block call_ref prim s (l1 ++ l2) = exec_block call_ref prim s' l2.
Proof.
  induction l1 as [|c t IH]; intros l2 s s' H.
  - rewrite exec_block_nil in H. injection H as <-. reflexivity.
  - cbn [app]. rewrite exec_block_cons in *. destruct (exec call_ref prim s c) as [[s1|s1 v]| |]; cbn [bind] in *; try discriminate.
    apply IH. exact H.
Qed.

(* a connection as Connection.__init__ leaves it (Proofs/SrcAttach.connection_init_src: exactly these attributes), with
   arbitrary contents of the three containers *)
Definition conn (a tagT : pv) (T : list pv) (tagO : pv) (O E : list pv) : env :=
  [("attach", a); ("tables", PTuple [tagT; PList T]); ("options", PTuple [tagO; PList O]); ("errors", PList E)].

(* the table objects: each class of TABLES called on (entries, options) *)
Definition mk_table (en op : pv) (k : nat) : pv := call_ref k [en; op].

Definition constructors_ok (en op : pv) : Prop :=
  forall k, In k (map (fun t => fst (fst t)) attach2_tables) -> not_err (call_ref k [en; op]).

(* the locals once entries / errors / options are known (bind_params order, `filename` appended by its assignment) *)
Definition locs (dsn en er op fn : pv) : env :=
  [("context", PSelf); ("dsn", dsn); ("entries", en); ("errors", er); ("options", op); ("filename", fn)].

(* the loop over TABLES and the two container updates, from the point where entries / errors / options are known *)
Lemma tail_src : forall (a tagT : pv) (T : list pv) (tagO : pv) (O E : list pv) (dsn fn en tagP : pv) (P R : list pv),
  constructors_ok en (PTuple [tagP; PList P]) ->
  exists loc',
  exec_block call_ref prim {| locals := locs dsn en (PList R) (PTuple [tagP; PList P]) fn;
                              fields := conn a tagT T tagO O E |} (skipn 2 (f_body source_attach)) =
  Ok (Next {| locals := loc';
              fields := conn a tagT (register_tables attach2_tables (mk_table en (PTuple [tagP; PList P])) T)
                             tagO (raw_update O P) (E ++ R) |}).
Proof.
  intros a tagT T tagO O E dsn fn en tagP P R Hok.
  assert (Hc : forall k, In k (map (fun t => fst (fst t)) attach2_tables) ->
                 do_call call_ref (PRef k) [en; PTuple [tagP; PList P]] = Ok (call_ref k [en; PTuple [tagP; PList P]])).
  { intros k Hk. apply do_call_ok. apply Hok. exact Hk. }
  cbn [map fst snd attach2_tables In] in Hc.
  unfold source_attach, conn, locs. cbn [f_body skipn].
  (* unroll the loop over the constant list: each pass reads the locals, calls the class, stores the item *)
  cbn.
  repeat match goal with
         | |- context [do_call call_ref (PRef ?k) ?args] => rewrite (Hc k) by (cbn; tauto); cbn
         end.
  eexists. unfold register_tables, mk_table. cbn [fold_left attach2_tables fst snd]. reflexivity.
Qed.

(* THE WHOLE FUNCTION.  urlparse(dsn) returns an object whose `path` is the value fn; when fn is true
   loader.load_file(fn) supplies (entries, errors, options), otherwise the keyword arguments do; options is a dict,
   errors a list, no table constructor raises.  Then: every class of TABLES is called once on (entries, options) and
   stored under its own name (an existing key is replaced in place, a new one appended: Model/PrimsAttach2.raw_set),
   options is updated item by item, errors extended; the attribute `attach` (the only other one a connection has) and
   nothing else is touched; the function returns None. *)
Theorem source_attach_src : forall (a tagT : pv) (T : list pv) (tagO : pv) (O E : list pv)
    (dsn entries errors options : pv) (ku : nat) (b : bool) (en tagP : pv) (P R : list pv),
  call_ref kUrlparse [dsn] = PRef ku ->
  not_err (msg "attr:path" [PRef ku]) -> pv_truthy (msg "attr:path" [PRef ku]) = Ok b ->
  (if b then call_ref kLoadFile [msg "attr:path" [PRef ku]] = PTuple [en; PList R; PTuple [tagP; PList P]]
   else entries = en /\ errors = PList R /\ options = PTuple [tagP; PList P]) ->
  constructors_ok en (PTuple [tagP; PList P]) ->
  call_method call_ref prim source_attach (conn a tagT T tagO O E) [dsn; entries; errors; options] =
  Ok (conn a tagT (register_tables attach2_tables (mk_table en (PTuple [tagP; PList P])) T) tagO (raw_update O P) (E ++ R),
      PNone).
Proof.
  intros a tagT T tagO O E dsn entries errors options ku b en tagP P R Hu Hne Hb Hin Hok.
  unfold call_method. cbn [bind_params f_params source_attach].
  change (f_body source_attach) with (firstn 2 (f_body source_attach) ++ skipn 2 (f_body source_attach)).
  remember (skipn 2 (f_body source_attach)) as TL eqn:ETL.
  remember (msg "attr:path" [PRef ku]) as fn eqn:Efn.
  assert (Hd : do_call call_ref (PRef kUrlparse) [dsn] = Ok (PRef ku)).
  { rewrite do_call_ok; rewrite Hu; [reflexivity|intros e; discriminate]. }
  unfold kUrlparse in Hd.
  assert (Hp : opaque_method msg "attr:path" [PRef ku] = Ok fn).
  { rewrite opaque_ok; rewrite <- Efn; [reflexivity|exact Hne]. }
  destruct (tail_src a tagT T tagO O E dsn fn en tagP P R Hok) as [loc' Ht]. rewrite <- ETL in Ht.
  assert (Hhead : exists s2,
    exec_block call_ref prim {| locals := [("context", PSelf); ("dsn", dsn); ("entries", entries); ("errors", errors);
                                            ("options", options)];
                                fields := conn a tagT T tagO O E |} (firstn 2 (f_body source_attach)) = Ok (Next s2) /\
    s2 = {| locals := locs dsn en (PList R) (PTuple [tagP; PList P]) fn; fields := conn a tagT T tagO O E |}).
  { eexists. split; [|reflexivity].
    cbn [firstn f_body source_attach].
    cbn. rewrite Hd. cbn. rewrite Hp. cbn. rewrite Hb. cbn.
    destruct b.
    - assert (Hl : do_call call_ref (PRef kLoadFile) [fn] = Ok (PTuple [en; PList R; PTuple [tagP; PList P]])).
      { rewrite do_call_ok; rewrite Hin; [reflexivity|intros e; discriminate]. }
      unfold kLoadFile in Hl. cbn. rewrite Hl. cbn. reflexivity.
    - destruct Hin as [-> [-> ->]]. cbn. reflexivity. }
  destruct Hhead as [s2 [Hh ->]].
  rewrite (exec_block_app_next _ _ _ _ Hh). rewrite Ht. reflexivity.
Qed.
End Tie.

(* ------------------------------------------------------------------ registered exactly once *)
(* on a connection fresh from __init__ (tables = {'': NullTable()}) the tables afterwards are EXACTLY: the null table,
   then one item per element of TABLES, in list order, each under its own name *)
Theorem registers_fresh : forall (mk : nat -> pv) (nt : pv),
  register_tables attach2_tables mk [PTuple [PStr ""; nt]] =
  PTuple [PStr ""; nt] :: map (fun t => PTuple [PStr (snd t); mk (fst (fst t))]) attach2_tables.
Proof. intros mk nt. reflexivity. Qed.

(* attaching a second time (any earlier contents produced by a first attach) replaces the ten values in place: same
   keys, same order, no second item for any name *)
Theorem registers_again : forall (mk mk' : nat -> pv) (nt : pv),
  register_tables attach2_tables mk' (register_tables attach2_tables mk [PTuple [PStr ""; nt]]) =
  register_tables attach2_tables mk' [PTuple [PStr ""; nt]].
Proof. intros mk mk' nt. reflexivity. Qed.

(* in general: the keys afterwards are the keys before plus the names of TABLES *)
Lemma raw_set_keys_incl : forall l k v x, In x (raw_keys (raw_set l k v)) -> In x (raw_keys l) \/ x = k.
Proof.
  induction l as [|y t IH]; intros k v x H.
  - cbn in H. destruct H as [H|[]]. right. symmetry. exact H.
  - unfold raw_set in H. fold raw_set in H.
    destruct y as [w|l0|l0|n|]; try (cbn [raw_keys flat_map app] in *; apply IH in H; tauto).
    destruct l0 as [|k' [|v' [|z r]]]; try (cbn [raw_keys flat_map app] in *; apply IH in H; tauto).
    destruct (key_eqb k k').
    + cbn [raw_keys flat_map app In] in *. tauto.
    + cbn [raw_keys flat_map app In] in *. destruct H as [H|H]; [tauto|]. apply IH in H. tauto.
Qed.

Theorem registers_nothing_else : forall tabs (mk : nat -> pv) (l : list pv) (x : pv),
  In x (raw_keys (register_tables tabs mk l)) -> In x (raw_keys l) \/ In x (map (fun t => PStr (snd t)) tabs).
Proof.
  unfold register_tables. induction tabs as [|t tabs IH]; intros mk l x H; [left; exact H|].
  cbn [fold_left] in H. apply IH in H. destruct H as [H|H].
  - apply raw_set_keys_incl in H. destruct H as [H| ->]; [left; exact H|right; left; reflexivity].
  - right. right. exact H.
Qed.
