(* C18 -- the date laws on 1900-01-01 .. 2100-12-31, derived from the exhaustive checks of
   Proofs/DatesRange{A,B,C,D}.v and the general lemmas of Proofs/DatesProofs.v. *)
From Coq Require Import String ZArith List Bool Lia.
Import ListNotations.
From Verif Require Import Base.Out Base.PyValue Model.Dates Model.StrFuncs Proofs.DatesProofs Proofs.DatesChecks
  Proofs.DatesRangeA Proofs.DatesRangeB Proofs.DatesRangeC Proofs.DatesRangeD.
Open Scope Z_scope.

Lemma in_range_bounds o : in_range o -> LO <= o < LO + Z.pos NDATES.
Proof. unfold in_range, LO, HI, NDATES. lia. Qed.

Lemma facts u o : u <> UWeek -> in_range o -> unit_facts u o.
Proof.
  intros Hu Ho. apply in_range_bounds in Ho.
  destruct u; try congruence.
  1-3: eapply check_units_spec; [apply (all_in_range_spec _ _ _ range_units_A o Ho)|simpl; auto].
  all: eapply check_units_spec; [apply (all_in_range_spec _ _ _ range_units_B o Ho)|simpl; auto].
Qed.

Lemma week_total o : in_range o -> trunc_u UWeek o = VDate (o - weekday o).
Proof.
  intros Ho. unfold trunc_u, trunc_ymd. destruct (ord2ymd o) as [[y m] d]. unfold add_days.
  pose proof (weekday_range o). unfold in_range, LO, HI in Ho.
  assert (E : valid_ord (o + - weekday o) = true).
  { unfold valid_ord, MAXORD. apply andb_true_intro. split; apply Z.leb_le; lia. }
  rewrite E. reflexivity.
Qed.

(* ---- ordinal <-> (year, month, day) ---- *)
Lemma ord_ymd_ord o : in_range o ->
  let '(y, m, d) := ord2ymd o in valid_ymd y m d = true /\ ymd2ord y m d = o /\ 1900 <= y <= 2100.
Proof. intros Ho. apply check_ord_spec. apply (all_in_range_spec _ _ _ range_ord o (in_range_bounds o Ho)). Qed.

Lemma ymd_ord_ymd y m d : 1900 <= y <= 2100 -> valid_ymd y m d = true -> ord2ymd (ymd2ord y m d) = (y, m, d).
Proof.
  intros Hy Hv. apply check_ymd_back_spec; [|exact Hv].
  pose proof range_ymd_back as H. rewrite forallb_forall in H. apply H.
  apply zrange_in. simpl. lia.
Qed.

(* ---- date_trunc ---- *)
Lemma trunc_le u o : in_range o -> exists r, trunc_u u o = VDate r /\ r <= o.
Proof.
  intros Ho. destruct (tunit_eq_dec_week u) as [->|Hu].
  - exists (o - weekday o). split; [apply week_total; exact Ho|]. pose proof (weekday_range o). lia.
  - destruct (facts u o Hu Ho) as (r & H1 & H2 & _). eauto.
Qed.

Lemma trunc_idem u o r : in_range o -> trunc_u u o = VDate r -> trunc_u u r = VDate r.
Proof.
  intros Ho H. destruct (tunit_eq_dec_week u) as [->|Hu].
  - eapply trunc_week_idem; eauto.
  - destruct (facts u o Hu Ho) as (r' & H1 & _ & H3 & _). rewrite H1 in H. inversion H; subst. exact H3.
Qed.

Lemma trunc_ord_eq u o r : trunc_u u o = VDate r -> trunc_ord u o = r.
Proof. unfold trunc_ord. intros ->. reflexivity. Qed.

Lemma trunc_mono u a b : in_range a -> in_range b -> a <= b -> trunc_ord u a <= trunc_ord u b.
Proof.
  intros Ha Hb Hab. destruct (tunit_eq_dec_week u) as [->|Hu].
  - eapply trunc_week_mono; eauto; unfold trunc_ord; rewrite week_total by assumption; reflexivity.
  - apply (mono_from_consecutive (trunc_ord u) LO HI); unfold in_range in *; try lia.
    intros i Hi. destruct (facts u i Hu ltac:(unfold in_range; lia)) as (r & H1 & _ & _ & _ & _ & r1 & H6 & H7).
    rewrite (trunc_ord_eq _ _ _ H1), (trunc_ord_eq _ _ _ H6). exact H7.
Qed.

(* the truncated date lies in the same unit (same date_part values) *)
Lemma part_isoyear o : part_u PIsoyear o = fst (isocal_y (year_of o) o).
Proof. unfold part_u, part_ymd, year_of. destruct (ord2ymd o) as [[y m] d]. reflexivity. Qed.
Lemma part_week o : part_u PWeek o = snd (isocal_y (year_of o) o).
Proof. unfold part_u, part_ymd, year_of. destruct (ord2ymd o) as [[y m] d]. reflexivity. Qed.

Lemma trunc_same_unit u o r : in_range o -> trunc_u u o = VDate r -> unit_id u r = unit_id u o.
Proof.
  intros Ho H. destruct (tunit_eq_dec_week u) as [->|Hu].
  - rewrite week_total in H by exact Ho. inversion H; subst. unfold unit_id.
    rewrite !part_isoyear, !part_week.
    pose proof (all_in_range_spec _ _ _ range_iso o (in_range_bounds o Ho)) as C.
    unfold check_iso in C. apply andb_prop in C. destruct C as [C1 C2].
    apply Z.eqb_eq in C1, C2. rewrite C1, C2. reflexivity.
  - destruct (facts u o Hu Ho) as (r' & H1 & _ & _ & H4 & _). rewrite H1 in H. inversion H; subst.
    rewrite <- !ids_unit_id by exact Hu. exact H4.
Qed.

(* ... and no earlier date of the range does: it is the first day of the unit *)
Lemma trunc_first u o x : u <> UWeek -> in_range o -> in_range x ->
  unit_id u x = unit_id u o -> trunc_ord u o <= x.
Proof.
  intros Hu Ho Hx Hid. rewrite <- !ids_unit_id in Hid by exact Hu.
  destruct (facts u x Hu Hx) as (r & H1 & H2 & _).
  unfold trunc_ord, trunc_u. rewrite (trunc_of_ids u (ord2ymd o) (ord2ymd x) o x Hu (eq_sym Hid)).
  fold (trunc_u u x). rewrite H1. exact H2.
Qed.

Lemma trunc_day_one u o r : u <> UWeek -> in_range o -> trunc_u u o = VDate r -> day_of r = 1.
Proof.
  intros Hu Ho H. destruct (facts u o Hu Ho) as (r' & H1 & _ & _ & _ & H5 & _).
  rewrite H1 in H. inversion H; subst. exact H5.
Qed.

(* ---- str(date) / date(str) ---- *)
Lemma date_str_roundtrip o : in_range o -> cast_date (cast_str (XV (VDate o))) = XV (VDate o).
Proof.
  intros Ho. pose proof (all_in_range_spec _ _ _ range_date_str o (in_range_bounds o Ho)) as C.
  unfold check_date_str in C. destruct (cast_date (cast_str (XV (VDate o)))) as [v|]; try discriminate.
  destruct v; try discriminate. apply Z.eqb_eq in C. subst. reflexivity.
Qed.

(* ---- date_bin with month / year strides on the range ---- *)
Lemma stride_nonzero r : In r bin_strides -> rd_months r <> 0 \/ rd_years r <> 0.
Proof.
  unfold bin_strides. simpl. intros H.
  repeat (destruct H as [H|H]; [subst r; vm_compute; (left; discriminate) || (right; discriminate)|]).
  contradiction.
Qed.

Lemma progress r o : In r bin_strides -> in_range o ->
  (exists n, rd_add o r = VDate n /\ o < n) /\ (exists n, rd_add o (rd_neg r) = VDate n /\ n < o).
Proof.
  intros Hr Ho. apply check_progress_spec; [|exact Hr].
  apply (all_in_range_spec _ _ _ range_progress o (in_range_bounds o Ho)).
Qed.

Lemma date_bin_fwd_range r source origin :
  In r bin_strides -> in_range origin -> in_range source -> origin <= source ->
  exists k b nxt, date_bin_rd r source origin = VDate b /\
                  iter_step (fun n => rd_add n r) k origin = VDate b /\
                  b <= source /\ rd_add b r = VDate nxt /\ source < nxt.
Proof.
  intros Hr Ho Hs Hle. apply date_bin_months_fwd; [apply stride_nonzero; exact Hr| |exact Hle].
  intros n Hn. apply (progress r n Hr). unfold in_range in *. lia.
Qed.

Lemma date_bin_bwd_range r source origin :
  In r bin_strides -> in_range origin -> in_range source -> source < origin ->
  exists k b prev, date_bin_rd r source origin = VDate b /\
                   iter_step (fun n => rd_add n (rd_neg r)) (S k) origin = VDate b /\
                   b <= source /\ iter_step (fun n => rd_add n (rd_neg r)) k origin = VDate prev /\
                   source < prev.
Proof.
  intros Hr Ho Hs Hlt. apply date_bin_months_bwd; [apply stride_nonzero; exact Hr| | |exact Hlt].
  - apply (progress r origin Hr Ho).
  - intros x Hx. apply (progress r x Hr). unfold in_range in *. lia.
Qed.
