(* Lemmas about Model/Shell.v, for every world, state and input line. *)
From Coq Require Import ZArith List Bool String Lia.
Import ListNotations.
From Verif Require Import Base.Out Model.Shell.
Open Scope list_scope.
Open Scope Z_scope.

(* ---- strings ---- *)
Lemma str_eqb_eq : forall a b, str_eqb a b = true <-> a = b.
Proof.
  induction a as [|x a IH]; destruct b as [|y b]; simpl; split; intro H; try congruence; try discriminate.
  - apply andb_true_iff in H. destruct H as [H1 H2]. apply Z.eqb_eq in H1. apply IH in H2. congruence.
  - inversion H; subst. rewrite Z.eqb_refl. simpl. apply IH. reflexivity.
Qed.

Lemma str_eqb_refl : forall a, str_eqb a a = true.
Proof. intro a. apply str_eqb_eq. reflexivity. Qed.

Lemma str_eqb_neq : forall a b, a <> b -> str_eqb a b = false.
Proof. intros a b H. destruct (str_eqb a b) eqn:E; auto. apply str_eqb_eq in E. contradiction. Qed.

Lemma str_eqb_sym : forall a b, str_eqb a b = str_eqb b a.
Proof.
  intros a b. destruct (str_eqb a b) eqn:E.
  - apply str_eqb_eq in E. subst. symmetry. apply str_eqb_refl.
  - destruct (str_eqb b a) eqn:E2; auto. apply str_eqb_eq in E2. subst. rewrite str_eqb_refl in E. discriminate.
Qed.

Lemma mem_false : forall x l, mem x l = false -> forall w, In w l -> x <> w.
Proof.
  intros x l H w Hin Heq. subst. unfold mem in H.
  assert (existsb (str_eqb w) l = true) by (apply existsb_exists; exists w; split; auto; apply str_eqb_refl).
  congruence.
Qed.

(* ---- the store ---- *)
Lemma lookup_update_same : forall st n v cur, lookup st n = Some cur -> lookup (update st n v) n = Some v.
Proof.
  induction st as [|[k w] t IH]; simpl; intros n v cur H; [discriminate|].
  destruct (str_eqb k n) eqn:E; simpl; rewrite E; auto. eapply IH; eauto.
Qed.

Lemma lookup_update_other : forall st n v n', n' <> n -> lookup (update st n v) n' = lookup st n'.
Proof.
  induction st as [|[k w] t IH]; simpl; intros n v n' H; auto.
  destruct (str_eqb k n) eqn:E; simpl.
  - apply str_eqb_eq in E. subst. rewrite (str_eqb_neq n n') by congruence. reflexivity.
  - rewrite IH by assumption. reflexivity.
Qed.

Lemma update_keys : forall st n v, map fst (update st n v) = map fst st.
Proof.
  induction st as [|[k w] t IH]; simpl; intros; auto. destruct (str_eqb k n); simpl; congruence.
Qed.

Lemma update_length : forall st n v, List.length (update st n v) = List.length st.
Proof. intros. rewrite <- (map_length fst), update_keys, map_length. reflexivity. Qed.

Lemma lookup_none_update : forall st n v, lookup st n = None -> update st n v = st.
Proof.
  induction st as [|[k w] t IH]; simpl; intros n v H; auto.
  destruct (str_eqb k n); [discriminate|]. rewrite IH; auto.
Qed.

(* typing of the store against the declared fields *)
Definition sig_of (st : state) : list (str * ty) := map (fun nv => (fst nv, type_of (snd nv))) st.
Definition declared : list (str * ty) := map (fun x => (fst (fst x), snd (fst x))) settings.
Definition wf (st : state) : Prop := sig_of st = declared.

Lemma wf_init : wf init_state.
Proof. reflexivity. Qed.

Lemma lookup_sig : forall st n v, lookup st n = Some v -> In (n, type_of v) (sig_of st).
Proof.
  induction st as [|[k w] t IH]; simpl; intros n v H; [discriminate|].
  destruct (str_eqb k n) eqn:E.
  - inversion H; subst. apply str_eqb_eq in E. subst. left. reflexivity.
  - right. apply IH. assumption.
Qed.

Lemma sig_update : forall st n v cur, lookup st n = Some cur -> type_of v = type_of cur -> sig_of (update st n v) = sig_of st.
Proof.
  induction st as [|[k w] t IH]; simpl; intros n v cur H Ht; auto.
  destruct (str_eqb k n) eqn:E; simpl.
  - inversion H; subst. rewrite Ht. reflexivity.
  - f_equal. eapply IH; eauto.
Qed.

(* every declared field's parser returns a value of the field's type *)
Lemma parse_value_typed_declared :
  forall n t, In (n, t) declared -> forall s v, parse_value n t s = inr v -> type_of v = t.
Proof.
  intros n t Hin s v.
  unfold declared in Hin. simpl in Hin.
  repeat (destruct Hin as [Hin|Hin]; [inversion Hin; subst; clear Hin;
    unfold parse_value; simpl;
    try (destruct (parse_bool s); intro H; inversion H; reflexivity);
    try (destruct (parse_format s); intro H; inversion H; reflexivity);
    try (intro H; inversion H; reflexivity) |]).
  contradiction.
Qed.

Lemma parse_value_typed : forall st n cur s v,
  wf st -> lookup st n = Some cur -> parse_value n (type_of cur) s = inr v -> type_of v = type_of cur.
Proof.
  intros st n cur s v Hwf Hl Hp. apply (parse_value_typed_declared n (type_of cur)) with (s := s); auto.
  rewrite <- Hwf. apply lookup_sig. assumption.
Qed.

(* ---- .set ---- *)
Section WithWorld.
Variable W : World.
Variable quiet : bool.

Theorem set_assign : forall st arg name s cur v,
  arg <> [] -> shlex_split arg = ShOk [name; s] ->
  lookup st name = Some cur -> parse_value name (type_of cur) s = inr v ->
  do_set W st arg = (update st name v, []).
Proof.
  intros st arg name s cur v Hne Hsh Hl Hp. unfold do_set.
  destruct arg; [congruence|]. rewrite Hsh, Hl, Hp. reflexivity.
Qed.

Theorem set_echo : forall st arg name v,
  arg <> [] -> shlex_split arg = ShOk [name] -> lookup st name = Some v ->
  do_set W st arg = (st, [echo W name v]).
Proof.
  intros st arg name v Hne Hsh Hl. unfold do_set. destruct arg; [congruence|]. rewrite Hsh, Hl. reflexivity.
Qed.

Theorem set_list_all : forall st, do_set W st [] = (st, map (fun nv => echo W (fst nv) (snd nv)) st).
Proof. reflexivity. Qed.

Theorem set_unknown_variable : forall st arg name rest,
  arg <> [] -> shlex_split arg = ShOk (name :: rest) -> (List.length rest <= 1)%nat -> lookup st name = None ->
  do_set W st arg = (st, [no_such_variable W name]).
Proof.
  intros st arg name rest Hne Hsh Hlen Hl. unfold do_set. destruct arg; [congruence|]. rewrite Hsh.
  destruct rest as [|s [|x r]]; simpl in Hlen; try lia; rewrite Hl; reflexivity.
Qed.

Theorem set_invalid_value : forall st arg name s cur msg,
  arg <> [] -> shlex_split arg = ShOk [name; s] ->
  lookup st name = Some cur -> parse_value name (type_of cur) s = inl msg ->
  do_set W st arg = (st, [error W msg]).
Proof.
  intros st arg name s cur msg Hne Hsh Hl Hp. unfold do_set. destruct arg; [congruence|]. rewrite Hsh, Hl, Hp. reflexivity.
Qed.

Theorem set_too_many : forall st arg a b c rest,
  arg <> [] -> shlex_split arg = ShOk (a :: b :: c :: rest) ->
  do_set W st arg = (st, [error W (s2z "invalid number of arguments")]).
Proof.
  intros st arg a b c rest Hne Hsh. unfold do_set. destruct arg; [congruence|]. rewrite Hsh. reflexivity.
Qed.

(* do_set changes the state only by a successful two-argument assignment, which writes no output *)
Theorem do_set_cases : forall st arg st' evs,
  do_set W st arg = (st', evs) ->
  (st' = st) \/
  (exists name s cur v, shlex_split arg = ShOk [name; s] /\ lookup st name = Some cur
     /\ parse_value name (type_of cur) s = inr v /\ st' = update st name v /\ evs = []).
Proof.
  intros st arg st' evs H. unfold do_set in H.
  destruct arg as [|c arg]; [inversion H; auto|].
  destruct (shlex_split (c :: arg)) as [l| |] eqn:Hsh; try (inversion H; auto; fail).
  destruct l as [|name [|s [|x r]]]; try (inversion H; auto; fail).
  - destruct (lookup st name); inversion H; auto.
  - destruct (lookup st name) as [cur|] eqn:Hl; [|inversion H; auto].
    destruct (parse_value name (type_of cur) s) as [msg|v] eqn:Hp; inversion H; auto.
    right. exists name, s, cur, v. auto.
Qed.

Theorem do_set_wf : forall st arg, wf st -> wf (fst (do_set W st arg)).
Proof.
  intros st arg Hwf. destruct (do_set W st arg) as [st' evs] eqn:E. simpl.
  destruct (do_set_cases _ _ _ _ E) as [->|(name & s & cur & v & _ & Hl & Hp & -> & _)]; auto.
  unfold wf. rewrite (sig_update st name v cur); auto. eapply parse_value_typed; eauto.
Qed.

(* ---- one step ---- *)
Definition is_set_assignment (st : state) (line : str) (st' : state) : Prop :=
  exists w arg name s cur v,
    classify line = Command w (s2z "set") arg /\ shlex_split arg = ShOk [name; s] /\
    lookup st name = Some cur /\ parse_value name (type_of cur) s = inr v /\ st' = update st name v.

Theorem step_state : forall st line,
  let '(st', evs, stop) := step W quiet st line in
  st' = st \/ (is_set_assignment st line st' /\ stop = false /\
               forall e, In e evs -> exists m, e = EWarn m).
Proof.
  intros st line. unfold step.
  destruct (classify line) as [|q|w name arg] eqn:Hc; auto.
  destruct (negb (mem name commands)); auto.
  destruct (str_eqb name (s2z "set")) eqn:Hset.
  - apply str_eqb_eq in Hset. subst name.
    destruct (do_set W st arg) as [st' evs] eqn:E.
    destruct (do_set_cases _ _ _ _ E) as [->|(name & s & cur & v & Hsh & Hl & Hp & -> & ->)]; auto.
    right. split; [|split; auto].
    + exists w, arg, name, s, cur, v. auto.
    + intros e Hin. rewrite app_nil_r in Hin. destruct w; simpl in Hin; [|contradiction].
      destruct Hin as [<-|[]]. eexists. reflexivity.
  - destruct (str_eqb name (s2z "run")); auto.
    destruct (str_eqb name (s2z "exit") || str_eqb name (s2z "quit")); auto.
    destruct (str_eqb name (s2z "EOF")); auto.
    destruct (str_eqb name (s2z "reload")); auto.
    destruct (str_eqb name (s2z "errors")); auto.
Qed.

Theorem step_wf : forall st line, wf st -> wf (fst (fst (step W quiet st line))).
Proof.
  intros st line Hwf.
  pose proof (step_state st line) as H.
  destruct (step W quiet st line) as [[st' evs] stop]. simpl.
  destruct H as [->|[(w & arg & name & s & cur & v & _ & _ & Hl & Hp & ->) _]]; auto.
  unfold wf. rewrite (sig_update st name v cur); auto. eapply parse_value_typed; eauto.
Qed.

Theorem run_lines_wf : forall lines st, wf st -> wf (fst (run_lines W quiet st lines)).
Proof.
  induction lines as [|l t IH]; intros st Hwf; simpl; auto.
  pose proof (step_wf st l Hwf) as H1.
  destruct (step W quiet st l) as [[st' evs] stop]. simpl in H1.
  destruct stop; simpl; auto.
  specialize (IH st' H1). destruct (run_lines W quiet st' t). simpl in *. assumption.
Qed.

Theorem step_set : forall st line w arg,
  classify line = Command w (s2z "set") arg ->
  step W quiet st line =
  (fst (do_set W st arg), (if w then [deprecation W (s2z "set")] else []) ++ snd (do_set W st arg), false).
Proof.
  intros st line w arg Hc. unfold step. rewrite Hc.
  change (negb (mem (s2z "set") commands)) with false. cbv iota.
  rewrite str_eqb_refl. destruct (do_set W st arg). reflexivity.
Qed.

Theorem step_unknown_command : forall st line w name arg,
  classify line = Command w name arg -> mem name commands = false ->
  step W quiet st line =
  (st, (if w then [deprecation W name] else []) ++ [error W (s2z "unknown command """ ++ name ++ [34])], false).
Proof. intros st line w name arg Hc Hm. unfold step. rewrite Hc, Hm. reflexivity. Qed.

Theorem step_empty : forall st line, classify line = Empty -> step W quiet st line = (st, [], false).
Proof. intros st line Hc. unfold step. rewrite Hc. reflexivity. Qed.

Theorem step_query : forall st line q,
  classify line = Query q -> step W quiet st line = (st, execute W st q None, false).
Proof. intros st line q Hc. unfold step. rewrite Hc. reflexivity. Qed.

Theorem step_run : forall st line w arg,
  classify line = Command w (s2z "run") arg ->
  step W quiet st line = (st, (if w then [deprecation W (s2z "run")] else []) ++ do_run W st arg, false).
Proof.
  intros st line w arg Hc. unfold step. rewrite Hc.
  change (negb (mem (s2z "run") commands)) with false. cbv iota.
  change (str_eqb (s2z "run") (s2z "set")) with false. cbv iota.
  rewrite str_eqb_refl. reflexivity.
Qed.

(* ---- query output ---- *)
Theorem execute_select : forall st q s r,
  parse W q = inr s -> skind W s <> KPrint -> run_query W s = inr r ->
  execute W st q None =
  let r' := if get_bool st "numberify" then numberify W r else r in
  match render_format W st r' with Some t => [EText Outfile t] | None => [ERaise XNotImplemented] end.
Proof.
  intros st q s r Hp Hk Hr. unfold execute. rewrite Hp.
  assert (with_default_close W s None = s) as -> by reflexivity.
  unfold on_statement. destruct (skind W s); try congruence; rewrite Hr; reflexivity.
Qed.

Theorem render_text_format : forall st r,
  get_str st "format" = s2z "text" ->
  render_format W st r =
  Some (if is_empty W r then lit W (s2z "(empty)" ++ [10])
        else render_text W (get_bool st "expand") (get_bool st "boxed") (get_bool st "spaced")
               (get_str st "nullvalue") (get_bool st "narrow") (get_bool st "unicode") r).
Proof. intros st r H. unfold render_format. rewrite H. reflexivity. Qed.

Theorem render_csv_format : forall st r,
  get_str st "format" = s2z "csv" ->
  render_format W st r = Some (render_csv W (get_bool st "expand") (get_str st "nullvalue") r).
Proof. intros st r H. unfold render_format. rewrite H. reflexivity. Qed.

(* in a well-typed store whose format was only ever changed through .set, rendering never
   hits NotImplementedError *)
Definition format_ok (st : state) : Prop := mem (get_str st "format") formats = true.

Lemma format_ok_renders : forall st r, format_ok st -> render_format W st r <> None.
Proof.
  intros st r H. unfold render_format. cbv zeta.
  destruct (str_eqb (get_str st "format") (s2z "text")) eqn:E2; [discriminate|].
  destruct (str_eqb (get_str st "format") (s2z "csv")) eqn:E1; [discriminate|].
  exfalso. unfold format_ok, mem, formats in H. cbn [existsb] in H. rewrite E1, E2 in H. discriminate.
Qed.

(* the output of a statement is a function of the eight settings the property names *)
Definition same_output_settings (a b : state) : Prop :=
  get_str a "format" = get_str b "format" /\ get_bool a "numberify" = get_bool b "numberify" /\
  get_bool a "expand" = get_bool b "expand" /\ get_bool a "boxed" = get_bool b "boxed" /\
  get_bool a "spaced" = get_bool b "spaced" /\ get_str a "nullvalue" = get_str b "nullvalue" /\
  get_bool a "narrow" = get_bool b "narrow" /\ get_bool a "unicode" = get_bool b "unicode".

Theorem output_depends_on_eight_settings : forall a b q close,
  same_output_settings a b -> execute W a q close = execute W b q close.
Proof.
  intros a b q close (H1 & H2 & H3 & H4 & H5 & H6 & H7 & H8).
  unfold execute, on_statement, render_format.
  rewrite H1, H2, H3, H4, H5, H6, H7, H8. reflexivity.
Qed.

(* ---- named queries ---- *)
Theorem run_named : forall st arg name q,
  rstrip_by run_strip arg = arg -> arg <> [] -> arg <> [42] ->
  shlex_split arg = ShOk [name] -> find_query W name = Some q ->
  do_run W st arg = execute W st (q_text q) (Some (q_date q)).
Proof.
  intros st arg name q Hs Hne Hstar Hsh Hf. unfold do_run. rewrite Hs.
  destruct arg as [|c arg]; [congruence|].
  rewrite (str_eqb_neq (c :: arg) [42]) by assumption. rewrite Hsh, Hf. reflexivity.
Qed.

Theorem run_not_found : forall st arg name,
  rstrip_by run_strip arg = arg -> arg <> [] -> arg <> [42] ->
  shlex_split arg = ShOk [name] -> find_query W name = None ->
  do_run W st arg = [error W (s2z "query """ ++ name ++ s2z """ not found")].
Proof.
  intros st arg name Hs Hne Hstar Hsh Hf. unfold do_run. rewrite Hs.
  destruct arg as [|c arg]; [congruence|].
  rewrite (str_eqb_neq (c :: arg) [42]) by assumption. rewrite Hsh, Hf. reflexivity.
Qed.

(* the default CLOSE date: applied exactly to SELECT ... FROM <from clause without CLOSE> *)
Definition close_applies (s : stmt W) : bool :=
  match skind W s, sfrom W s, sclose W s with KSelect, FFrom, CNone => true | _, _, _ => false end.

Theorem default_close_rule : forall s d,
  with_default_close W s (Some d) = if close_applies s then set_close W s d else s.
Proof.
  intros s d. unfold with_default_close, close_applies.
  destruct (skind W s), (sfrom W s), (sclose W s); reflexivity.
Qed.

Theorem run_like_typing : forall st t s d,
  parse W t = inr s -> close_applies s = false ->
  execute W st t (Some d) = execute W st t None.
Proof.
  intros st t s d Hp Hc. unfold execute. rewrite Hp. rewrite default_close_rule, Hc. reflexivity.
Qed.

Theorem run_with_close : forall st t s d,
  parse W t = inr s -> close_applies s = true ->
  execute W st t (Some d) = on_statement W st (set_close W s d).
Proof.
  intros st t s d Hp Hc. unfold execute. rewrite Hp. rewrite default_close_rule, Hc. reflexivity.
Qed.

End WithWorld.

(* ---- dispatch ---- *)
Lemma starts_with_cons : forall c l, starts_with [c] l = true -> exists r, l = c :: r.
Proof.
  intros c l H. unfold starts_with in H. simpl in H. destruct l as [|x r]; simpl in H; [discriminate|].
  apply andb_true_iff in H. destruct H as [H _]. apply Z.eqb_eq in H. subst. eauto.
Qed.

Theorem dot_line_never_query : forall line,
  starts_with [46] (strip line) = true -> forall q, classify line <> Query q.
Proof.
  intros line H q. apply starts_with_cons in H. destruct H as [r Hr].
  unfold classify, cmd_parseline. rewrite Hr.
  change (46 =? 63) with false. change (46 =? 33) with false. cbv iota.
  change (takewhile identchar (46 :: r)) with (46 :: takewhile identchar r).
  cbv iota beta. change (46 =? 46) with true. cbv iota.
  destruct (takewhile identchar r) as [|c t] eqn:Ht; [discriminate|].
  destruct (str_eqb (c :: t) (s2z "EOF")); simpl; discriminate.
Qed.

Theorem dot_line_is_command : forall line,
  starts_with [46] (strip line) = true ->
  classify line = Empty \/ exists name arg, classify line = Command false name arg.
Proof.
  intros line H. apply starts_with_cons in H. destruct H as [r Hr].
  unfold classify, cmd_parseline. rewrite Hr.
  change (46 =? 63) with false. change (46 =? 33) with false. cbv iota.
  change (takewhile identchar (46 :: r)) with (46 :: takewhile identchar r).
  cbv iota beta. change (46 =? 46) with true. cbv iota.
  destruct (takewhile identchar r) as [|c t] eqn:Ht; [left; reflexivity|].
  right. destruct (str_eqb (c :: t) (s2z "EOF")); simpl; eauto.
Qed.

(* lines that are not commands: general form *)
Lemma classify_query : forall line c r,
  strip line = c :: r -> c <> 63 -> c <> 33 -> c <> 46 ->
  identchar c = true ->
  mem (lower (takewhile identchar (c :: r))) legacy = false ->
  str_eqb (takewhile identchar (c :: r)) (s2z "EOF") = false ->
  classify line = Query (c :: r).
Proof.
  intros line c r Hs H63 H33 H46 Hid Hm He.
  unfold classify, cmd_parseline. rewrite Hs.
  rewrite (proj2 (Z.eqb_neq c 63) H63), (proj2 (Z.eqb_neq c 33) H33). cbv iota.
  remember (takewhile identchar (c :: r)) as cmd eqn:Hcmd.
  simpl in Hcmd. rewrite Hid in Hcmd.
  destruct cmd as [|x t]; [discriminate|]. inversion Hcmd; subst x.
  rewrite (proj2 (Z.eqb_neq c 46)) by assumption.
  rewrite <- H1. rewrite He.
  assert (starts_with [46] (c :: r) = false) as ->.
  { unfold starts_with. cbn [List.length firstn str_eqb]. destruct (Z.eqb_spec 46 c); [congruence|reflexivity]. }
  rewrite Hm. reflexivity.
Qed.

Lemma lower_letter_ident : forall c, (97 <=? lower_c c) && (lower_c c <=? 122) = true -> identchar c = true.
Proof.
  intros c H. unfold lower_c in H. unfold identchar.
  destruct ((65 <=? c) && (c <=? 90)) eqn:E.
  - rewrite orb_true_r. reflexivity.
  - rewrite H. reflexivity.
Qed.

Definition lc_letter (c : Z) : bool := (97 <=? c) && (c <=? 122).

Lemma takewhile_prefix : forall kw l,
  forallb lc_letter kw = true -> starts_with kw (lower l) = true ->
  starts_with kw (lower (takewhile identchar l)) = true.
Proof.
  induction kw as [|k kw IH]; intros l Hk H; [reflexivity|].
  simpl in Hk. apply andb_true_iff in Hk. destruct Hk as [Hk1 Hk2].
  destruct l as [|c l]; [unfold starts_with in H; simpl in H; discriminate|].
  unfold starts_with in H. simpl in H. apply andb_true_iff in H. destruct H as [H1 H2].
  apply Z.eqb_eq in H1.
  assert (identchar c = true) as Hid.
  { apply lower_letter_ident. rewrite <- H1. exact Hk1. }
  simpl. rewrite Hid. unfold starts_with. simpl. rewrite H1, Z.eqb_refl. simpl.
  apply (IH l Hk2). exact H2.
Qed.

Lemma prefix_not_mem : forall kw x l,
  starts_with kw x = true -> forallb (fun w => negb (starts_with kw w)) l = true -> mem x l = false.
Proof.
  intros kw x l Hx Hl. unfold mem. destruct (existsb (str_eqb x) l) eqn:E; auto.
  apply existsb_exists in E. destruct E as [w [Hin Heq]]. apply str_eqb_eq in Heq. subst w.
  rewrite forallb_forall in Hl. specialize (Hl x Hin). rewrite Hx in Hl. discriminate.
Qed.

Theorem keyword_line_is_query : forall line kw,
  In kw statement_keywords -> starts_with kw (lower (strip line)) = true ->
  classify line = Query (strip line).
Proof.
  intros line kw Hin H.
  assert (forallb lc_letter kw = true /\ forallb (fun w => negb (starts_with kw w)) legacy = true
          /\ starts_with kw (s2z "eof") = false /\ exists k t, kw = k :: t) as (Hl & Hleg & Heof & k & t & Hkw).
  { unfold statement_keywords in Hin. simpl in Hin.
    repeat (destruct Hin as [<-|Hin]; [repeat split; try reflexivity; eexists; eexists; reflexivity|]). contradiction. }
  pose proof (takewhile_prefix kw (strip line) Hl H) as Hp.
  destruct (strip line) as [|c r] eqn:Hs.
  { subst kw. unfold starts_with in H. simpl in H. discriminate. }
  assert (lower_c c = k /\ lc_letter k = true) as [Hc Hk].
  { subst kw. unfold starts_with in H. simpl in H. apply andb_true_iff in H. destruct H as [H1 _].
    apply Z.eqb_eq in H1. simpl in Hl. apply andb_true_iff in Hl. destruct Hl. split; auto. }
  assert (identchar c = true) as Hid by (apply lower_letter_ident; rewrite Hc; exact Hk).
  unfold lc_letter in Hk. unfold lower_c in Hc.
  apply classify_query; auto.
  - intro; subst c. simpl in Hc. subst k. discriminate.
  - intro; subst c. simpl in Hc. subst k. discriminate.
  - intro; subst c. simpl in Hc. subst k. discriminate.
  - eapply prefix_not_mem; eauto.
  - destruct (str_eqb (takewhile identchar (c :: r)) (s2z "EOF")) eqn:E; auto.
    apply str_eqb_eq in E. rewrite E in Hp. change (lower (s2z "EOF")) with (s2z "eof") in Hp. congruence.
Qed.

(* ---- typed values ---- *)
Theorem bool_echo_roundtrip : forall b, parse_bool (getstr (SBool b)) = inr b.
Proof. destruct b; reflexivity. Qed.

Theorem format_echo_roundtrip : forall f, mem f formats = true -> parse_format f = inr f.
Proof. intros f H. unfold parse_format. rewrite H. reflexivity. Qed.

Theorem parse_bool_spec : forall s,
  parse_bool s =
  let n := lower (strip s) in
  if mem n (map s2z ["1"; "true"; "t"; "yes"; "y"; "on"]%string) then inr true
  else if mem n (map s2z ["0"; "false"; "f"; "no"; "n"; "off"]%string) then inr false
  else inl ([34] ++ s ++ s2z """ is not a valid boolean").
Proof. reflexivity. Qed.

(* ---- command line ---- *)
Theorem cli_state_spec : forall c,
  lookup (cli_state c) (s2z "format") = Some (SStr (c_format c)) /\
  lookup (cli_state c) (s2z "numberify") = Some (SBool (c_numberify c)) /\
  (forall n, n <> s2z "format" -> n <> s2z "numberify" -> lookup (cli_state c) n = lookup init_state n) /\
  wf (cli_state c).
Proof.
  intro c. unfold cli_state.
  assert (s2z "format" <> s2z "numberify") as Hne by (intro H; vm_compute in H; discriminate H).
  split; [|split; [|split]].
  - rewrite lookup_update_other by exact Hne.
    eapply lookup_update_same. reflexivity.
  - eapply lookup_update_same. reflexivity.
  - intros n H1 H2. rewrite lookup_update_other by assumption. rewrite lookup_update_other by assumption. reflexivity.
  - unfold wf.
    rewrite (sig_update _ (s2z "numberify") _ (SBool false)); [|rewrite lookup_update_other by (intro H; apply Hne; auto); reflexivity|reflexivity].
    rewrite (sig_update _ (s2z "format") _ (SStr (s2z "text"))); reflexivity.
Qed.

Theorem cli_error_report : forall W c r,
  ledger_errors W = Some r ->
  (In (EText Stderr r) (fst (fst (cli_run W c))) <-> c_quiet c = false) /\
  (c_quiet c = true -> forall e, In e (fst (fst (cli_run W c))) -> exists m, e = EWarn m).
Proof.
  intros W c r Hr. unfold cli_run, do_reload. simpl. rewrite Hr.
  assert (forall seen l e, In e (dup_warnings W seen l) -> exists m, e = EWarn m) as Hw.
  { intros seen l. revert seen. induction l as [|q t IH]; simpl; intros seen e H; [contradiction|].
    destruct (mem (q_name q) seen); [destruct H as [<-|H]; eauto|]; eauto. }
  split; [split|].
  - intro H. apply in_app_or in H. destruct H as [H|H].
    + apply Hw in H. destruct H. discriminate.
    + destruct (c_quiet c); auto. contradiction.
  - intros ->. apply in_or_app. right. left. reflexivity.
  - intros -> e H. apply in_app_or in H. destruct H as [H|[]]. eapply Hw; eauto.
Qed.

Theorem cli_target_and_command : forall W c,
  snd (fst (cli_run W c)) = c_output c /\
  snd (cli_run W c) = snd (fst (step W (c_quiet c) (cli_state c) (cli_line c))).
Proof. intros. split; reflexivity. Qed.

(* ---- whole lines: `.set NAME VALUE` and `.set NAME` for plain tokens ---- *)
Definition plain (c : Z) : bool :=
  negb (sh_ws c) && negb (sh_quote c) && negb (c =? 92) && negb (py_isspace c).

Lemma plain_inv : forall c, plain c = true ->
  sh_ws c = false /\ sh_quote c = false /\ (c =? 92) = false /\ py_isspace c = false.
Proof.
  intros c H. unfold plain in H. repeat (apply andb_true_iff in H; destruct H as [H ?]).
  repeat split; apply negb_true_iff; assumption.
Qed.

Lemma shlex_word : forall w rest tok q acc, forallb plain w = true ->
  shlex_go (w ++ rest) SA tok q acc = shlex_go rest SA (rev w ++ tok) q acc.
Proof.
  induction w as [|a w IH]; intros rest tok q acc H; [reflexivity|].
  simpl in H. apply andb_true_iff in H. destruct H as [Ha Hw].
  destruct (plain_inv a Ha) as (H1 & H2 & H3 & _).
  cbn [app shlex_go]. rewrite H1, H2, H3. rewrite IH by assumption.
  cbn [rev]. rewrite <- app_assoc. reflexivity.
Qed.

Lemma shlex_one : forall n, n <> [] -> forallb plain n = true -> shlex_split n = ShOk [n].
Proof.
  intros [|c n] Hne H; [congruence|]. simpl in H. apply andb_true_iff in H. destruct H as [Hc Hn].
  destruct (plain_inv c Hc) as (H1 & H2 & H3 & _).
  unfold shlex_split. cbn [shlex_go]. rewrite H1, H3, H2.
  rewrite <- (app_nil_r n) at 1. rewrite shlex_word by assumption. cbn [shlex_go].
  destruct (rev n ++ [c]) eqn:E; [destruct (rev n); discriminate|].
  rewrite <- E. rewrite rev_app_distr, rev_involutive. reflexivity.
Qed.

Lemma shlex_two : forall n v, n <> [] -> v <> [] -> forallb plain n = true -> forallb plain v = true ->
  shlex_split (n ++ [32] ++ v) = ShOk [n; v].
Proof.
  intros [|c n] [|d v] Hn Hv Pn Pv; try congruence.
  simpl in Pn, Pv. apply andb_true_iff in Pn. destruct Pn as [Hc Pn]. apply andb_true_iff in Pv. destruct Pv as [Hd Pv].
  destruct (plain_inv c Hc) as (C1 & C2 & C3 & _). destruct (plain_inv d Hd) as (D1 & D2 & D3 & _).
  unfold shlex_split. cbn [app shlex_go]. rewrite C1, C3, C2.
  rewrite shlex_word by assumption. cbn [app shlex_go]. change (sh_ws 32) with true. cbv iota.
  destruct (rev n ++ [c]) eqn:E; [destruct (rev n); discriminate|]. rewrite <- E.
  rewrite D1, D3, D2.
  rewrite <- (app_nil_r v) at 1. rewrite shlex_word by assumption. cbn [shlex_go].
  destruct (rev v ++ [d]) eqn:E2; [destruct (rev v); discriminate|]. rewrite <- E2.
  cbn [rev app]. rewrite !rev_app_distr, !rev_involutive. reflexivity.
Qed.

Lemma rstrip_noop : forall f l x, f x = false -> rstrip_by f (l ++ [x]) = l ++ [x].
Proof.
  intros f l x H. unfold rstrip_by. rewrite rev_app_distr. cbn [rev app dropwhile]. rewrite H.
  cbn [rev]. rewrite rev_involutive. reflexivity.
Qed.

Lemma strip_noop : forall c l x, py_isspace c = false -> py_isspace x = false -> strip (c :: l ++ [x]) = c :: l ++ [x].
Proof.
  intros c l x Hc Hx. unfold strip, lstrip_by. cbn [dropwhile]. rewrite Hc.
  change (c :: l ++ [x]) with ((c :: l) ++ [x]). apply rstrip_noop. assumption.
Qed.

Lemma plain_last : forall v, v <> [] -> forallb plain v = true ->
  exists v0 x, v = v0 ++ [x] /\ py_isspace x = false.
Proof.
  intros v Hne H. destruct (exists_last Hne) as (v0 & x & ->). exists v0, x. split; auto.
  rewrite forallb_app in H. apply andb_true_iff in H. destruct H as [_ H]. simpl in H.
  rewrite andb_true_r in H. apply plain_inv in H. tauto.
Qed.

Lemma classify_set_line : forall l x,
  py_isspace x = false -> py_isspace (hd x l) = false ->
  classify (s2z ".set " ++ l ++ [x]) = Command false (s2z "set") (l ++ [x]).
Proof.
  intros l x Hx Hc.
  unfold classify, cmd_parseline.
  assert (strip (s2z ".set " ++ l ++ [x]) = s2z ".set " ++ l ++ [x]) as ->.
  { change (s2z ".set " ++ l ++ [x]) with (46 :: ([115; 101; 116; 32] ++ l) ++ [x]).
    apply strip_noop; auto. }
  change (s2z ".set " ++ l ++ [x]) with (46 :: 115 :: 101 :: 116 :: 32 :: l ++ [x]).
  change (46 =? 63) with false. change (46 =? 33) with false. cbv iota.
  change (takewhile identchar (46 :: 115 :: 101 :: 116 :: 32 :: l ++ [x])) with [46; 115; 101; 116].
  change (dropwhile identchar (46 :: 115 :: 101 :: 116 :: 32 :: l ++ [x])) with (32 :: l ++ [x]).
  cbv iota beta. change (46 =? 46) with true. cbv iota.
  change (str_eqb [115; 101; 116] (s2z "EOF")) with false. cbv iota.
  change (starts_with [46] (46 :: 115 :: 101 :: 116 :: 32 :: l ++ [x])) with true. cbv iota.
  assert (strip (32 :: l ++ [x]) = l ++ [x]) as ->.
  { unfold strip, lstrip_by. cbn [dropwhile]. change (py_isspace 32) with true. cbv iota.
    assert (dropwhile py_isspace (l ++ [x]) = l ++ [x]) as ->.
    { destruct l as [|c l]; cbn [app dropwhile hd] in *; [rewrite Hx|rewrite Hc]; reflexivity. }
    apply rstrip_noop. assumption. }
  reflexivity.
Qed.

Lemma plain_first : forall n x, forallb plain n = true -> py_isspace x = false -> py_isspace (hd x n) = false.
Proof.
  intros [|c n] x H Hx; simpl; auto. simpl in H. apply andb_true_iff in H. destruct H as [H _].
  apply plain_inv in H. tauto.
Qed.

Theorem set_line : forall (W : World) quiet st n v cur val,
  n <> [] -> v <> [] -> forallb plain n = true -> forallb plain v = true ->
  lookup st n = Some cur -> parse_value n (type_of cur) v = inr val ->
  step W quiet st (s2z ".set " ++ n ++ [32] ++ v) = (update st n val, [], false) /\
  step W quiet (update st n val) (s2z ".set " ++ n) = (update st n val, [echo W n val], false).
Proof.
  intros W quiet st n v cur val Hn Hv Pn Pv Hl Hp.
  destruct (plain_last v Hv Pv) as (v0 & x & Ev & Hx).
  destruct (plain_last n Hn Pn) as (n0 & y & En & Hy).
  split.
  - assert (classify (s2z ".set " ++ n ++ [32] ++ v) = Command false (s2z "set") (n ++ [32] ++ v)) as Hcl.
    { rewrite Ev. replace (n ++ [32] ++ v0 ++ [x]) with ((n ++ [32] ++ v0) ++ [x]) by (rewrite <- !app_assoc; reflexivity).
      apply classify_set_line; auto.
      destruct n as [|c n']; [congruence|]. cbn [app hd]. apply (plain_first (c :: n') x Pn Hx). }
    rewrite (step_set W quiet st _ false _ Hcl).
    rewrite (set_assign W st (n ++ [32] ++ v) n v cur val); auto.
    + destruct n; [congruence|discriminate].
    + apply shlex_two; auto.
  - assert (classify (s2z ".set " ++ n) = Command false (s2z "set") n) as Hcl.
    { rewrite En. apply classify_set_line; auto. rewrite En in Pn.
      rewrite forallb_app in Pn. apply andb_true_iff in Pn. destruct Pn as [Pn0 _]. apply plain_first; auto. }
    rewrite (step_set W quiet _ _ false _ Hcl).
    rewrite (set_echo W _ n n val); auto.
    + apply shlex_one; auto.
    + eapply lookup_update_same; eauto.
Qed.

(* ---- named queries: the first directive of a name wins; `.run *` runs them all in order ---- *)
Lemma find_dedup : forall (W : World) name l seen,
  mem name seen = false ->
  find (fun q => str_eqb (q_name q) name) (dedup_q seen l) = find (fun q => str_eqb (q_name q) name) l.
Proof.
  intros W name. induction l as [|q t IH]; intros seen Hs; [reflexivity|].
  cbn [dedup_q find]. destruct (mem (q_name q) seen) eqn:Hm.
  - assert (str_eqb (q_name q) name = false) as ->.
    { destruct (str_eqb (q_name q) name) eqn:E; auto. apply str_eqb_eq in E. rewrite E in Hm. congruence. }
    apply IH. assumption.
  - cbn [find]. destruct (str_eqb (q_name q) name) eqn:E; [reflexivity|].
    apply IH. unfold mem. cbn [existsb]. rewrite str_eqb_sym, E. exact Hs.
Qed.

Theorem find_query_first : forall (W : World) name,
  find_query W name = find (fun q => str_eqb (q_name q) name) (directives W).
Proof. intros W name. unfold find_query, named_queries. apply (find_dedup W). reflexivity. Qed.

Theorem run_all_spec : forall (W : World) st l,
  (forall q, In q l -> raised W (execute W st (q_text q) (Some (q_date q))) = false) ->
  run_all W st l =
  flat_map (fun q => println W Stdout (q_name q ++ [58]) :: execute W st (q_text q) (Some (q_date q))
                     ++ [println W Stdout []; println W Stdout []]) l.
Proof.
  intros W st. induction l as [|q t IH]; intro H; [reflexivity|].
  cbn [run_all flat_map]. rewrite (H q (or_introl eq_refl)).
  rewrite IH by (intros q' Hq; apply H; right; assumption).
  cbn [app]. f_equal. rewrite <- app_assoc. reflexivity.
Qed.

(* ---- `.run "NAME"` / `.run 'NAME'`: blanks inside quotes belong to the name (fix-G) ---- *)
Definition quotable (q : Z) (name : str) : Prop :=
  forall c, In c name -> c <> q /\ (q = 34 -> c <> 92).

Lemma shlex_in_quotes : forall name q tok b acc, quotable q name ->
  shlex_go (name ++ [q]) (SQ q) tok b acc = ShOk (rev (rev (rev name ++ tok) :: acc)).
Proof.
  induction name as [|c name IH]; intros q tok b acc H.
  - cbn [app shlex_go rev]. rewrite Z.eqb_refl. destruct tok; reflexivity.
  - destruct (H c (or_introl eq_refl)) as [Hq Hb].
    cbn [app shlex_go]. rewrite (proj2 (Z.eqb_neq c q) Hq).
    assert ((c =? 92) && (q =? 34) = false) as ->.
    { destruct (q =? 34) eqn:E; [|apply andb_false_r]. apply Z.eqb_eq in E.
      rewrite (proj2 (Z.eqb_neq c 92) (Hb E)). reflexivity. }
    rewrite IH by (intros d Hd; apply H; right; assumption).
    cbn [rev]. rewrite <- app_assoc. reflexivity.
Qed.

Lemma shlex_quoted : forall q name, sh_quote q = true -> quotable q name ->
  shlex_split (q :: name ++ [q]) = ShOk [name].
Proof.
  intros q name Hq H. unfold shlex_split. cbn [shlex_go].
  assert (sh_ws q = false) as ->.
  { unfold sh_quote in Hq. apply orb_true_iff in Hq. destruct Hq as [E|E]; apply Z.eqb_eq in E; subst; reflexivity. }
  assert ((q =? 92) = false) as ->.
  { unfold sh_quote in Hq. apply orb_true_iff in Hq. destruct Hq as [E|E]; apply Z.eqb_eq in E; subst; reflexivity. }
  rewrite Hq. rewrite shlex_in_quotes by assumption.
  cbn [rev app]. rewrite app_nil_r, rev_involutive. reflexivity.
Qed.

Theorem run_quoted_name : forall (W : World) st q name, sh_quote q = true -> quotable q name ->
  do_run W st (q :: name ++ [q]) =
  match find_query W name with
  | Some d => execute W st (q_text d) (Some (q_date d))
  | None => [error W (s2z "query """ ++ name ++ s2z """ not found")]
  end.
Proof.
  intros W st q name Hq H.
  assert (run_strip q = false) as Hs.
  { unfold sh_quote in Hq. apply orb_true_iff in Hq. destruct Hq as [E|E]; apply Z.eqb_eq in E; subst; reflexivity. }
  assert (q <> 42) as H42.
  { unfold sh_quote in Hq. apply orb_true_iff in Hq. destruct Hq as [E|E]; apply Z.eqb_eq in E; subst; discriminate. }
  assert (rstrip_by run_strip (q :: name ++ [q]) = q :: name ++ [q]) as Hr.
  { change (q :: name ++ [q]) with ((q :: name) ++ [q]). apply rstrip_noop. exact Hs. }
  assert (q :: name ++ [q] <> [42]) as Hstar by (intro E; inversion E; congruence).
  destruct (find_query W name) as [d|] eqn:Hf.
  - apply (run_named W st _ name d); auto. discriminate. apply shlex_quoted; assumption.
  - apply (run_not_found W st _ name); auto. discriminate. apply shlex_quoted; assumption.
Qed.

(* the format in effect on the command line is the -f option, whatever the -o file is called *)
Theorem cli_output_name_irrelevant : forall (W : World) c o,
  let c' := {| c_format := c_format c; c_numberify := c_numberify c; c_output := o; c_quiet := c_quiet c;
               c_query := c_query c; c_stdin := c_stdin c |} in
  cli_state c' = cli_state c /\ snd (cli_run W c') = snd (cli_run W c) /\ fst (fst (cli_run W c')) = fst (fst (cli_run W c)).
Proof. intros. repeat split; reflexivity. Qed.
