(* Tie by translation (C16): query_render.render_text (Gen/SrcRender.v render_text_fn), first part: from the
   RenderContext to the column widths.  The translated statements build one renderer per column, feed every non-NULL
   cell to its column's renderer in row order and compute widths = Render.table_widths:
   max(1, narrow or len(header), len(nullvalue), prepare()) per column. *)
From Coq Require Import String ZArith List Bool Lia Arith.
Import ListNotations.
From Verif Require Import Base.PyValue Model.Eval Model.PyMini Model.Render Model.PrimsRender Gen.SrcRender
  Proofs.PyMiniLemmas Proofs.PyMiniLemmas2 Proofs.SrcRenderTop Proofs.SrcRenderCsv.
Open Scope string_scope.
Open Scope Z_scope.
Open Scope list_scope.

Ltac step_env := repeat (rewrite ?lookup_update_eq; rewrite ?lookup_update_neq by reflexivity).

Lemma map2_map_r {A B C D} (g : A -> C -> D) (h : B -> C) la lb :
  map2 g la (map h lb) = map2 (fun a b => g a (h b)) la lb.
Proof. revert lb. induction la as [|a la IH]; intros [|b lb]; cbn; try reflexivity. now rewrite IH. Qed.
Lemma map2_map_l {A B C D} (g : B -> C -> D) (h : A -> B) la lc :
  map2 g (map h la) lc = map2 (fun a c => g (h a) c) la lc.
Proof. revert lc. induction la as [|a la IH]; intros [|c lc]; cbn; try reflexivity. now rewrite IH. Qed.

Section Text.
Variable call_ref : nat -> list pv -> pv.
Variable quant : dec -> str -> dec.
Variable numfmt : list (dec * str) -> dec -> str -> str.
Notation PT := (prims_top quant numfmt).
Variables (dc : pv) (o : opts).
Notation ctx := (enc_ctx dc o).
Notation rnd := (rend dc o).
Hypothesis Hget : forall t c, call_ref 0 [enc_rdtype t; c] = robj t c [].

Definition text_prefix : list stmt := Eval cbv in firstn 6 (f_body render_text_fn).
Definition widths_expr : expr := Eval cbv in match nth 5 text_prefix SPass with SAssign _ e => e | _ => XConst PNone end.
Definition text_stmt (i : nat) : stmt := nth i text_prefix SPass.

Lemma text_prefix_shape : text_prefix =
  [text_stmt 0; text_stmt 1; text_stmt 2; text_stmt 3; SFor "row" (XName "rows") csv_loop;
   SAssign (TName "widths") widths_expr].
Proof. reflexivity. Qed.

Lemma attr_datatype a b : PT "attr:datatype" [PTuple [PV (VInt 63); a; b]] = Ok b. Proof. reflexivity. Qed.
Lemma attr_name a b : PT "attr:name" [PTuple [PV (VInt 63); a; b]] = Ok a. Proof. reflexivity. Qed.
Lemma idx0 (a b : pv) : index_at [a; b] 0 = Ok a. Proof. reflexivity. Qed.
Lemma idx1 (a b : pv) : index_at [a; b] 1 = Ok b. Proof. reflexivity. Qed.
Lemma max4_int a b c : PT "builtins.max" [PInt 1; PInt a; PInt b; PInt c] = Ok (PInt (Z.max (Z.max (Z.max 1 a) b) c)).
Proof. reflexivity. Qed.
Lemma max4_true b c : PT "builtins.max" [PInt 1; PBool true; PInt b; PInt c] = Ok (PInt (Z.max (Z.max (Z.max 1 1) b) c)).
Proof. reflexivity. Qed.

Local Arguments enc_rcell : simpl never.
Local Arguments rend : simpl never.
Local Arguments index_at : simpl never.
Local Arguments prims_top : simpl never.
Local Arguments Z.max : simpl never.
Local Arguments Z.of_nat : simpl never.
Local Arguments st_width : simpl never.
Local Arguments col_prepare : simpl never.

Definition width_of (n : str) (tv : dtype * list cellv) : nat := col_width numfmt o n (snd (rstate_of quant o tv)).

Local Arguments width_of : simpl never.

Lemma col_width_Z n st : Z.of_nat (col_width numfmt o n st) =
  Z.max (Z.max (Z.max 1 (if o_narrow o then 1 else Z.of_nat (length n))) (Z.of_nat (length (o_null o))))
        (Z.of_nat (st_width numfmt st)).
Proof. unfold col_width. destruct (o_narrow o); lia. Qed.

Lemma widths_eval : forall names tvs loc,
  lookup "headers" loc = Some (PList (map enc_s names)) -> lookup "renderers" loc = Some (PList (map rnd tvs)) ->
  lookup "narrow" loc = Some (PBool (o_narrow o)) -> lookup "nullvalue" loc = Some (enc_s (o_null o)) ->
  PyMini.eval call_ref PT {| locals := loc; fields := [] |} widths_expr =
  Ok ({| locals := loc; fields := [] |}, PList (map (fun w => PInt (Z.of_nat w)) (map2 width_of names tvs))).
Proof.
  intros names tvs loc Hh Hr Hn Hv. unfold widths_expr.
  erewrite eval_listcomp; [|cbn; rewrite Hh; cbn; rewrite Hr; reflexivity].
  match goal with |- bind ?m _ = _ =>
    assert (E : m = Ok (map (fun w => PInt (Z.of_nat w)) (map2 width_of names tvs))) end.
  { clear Hh Hr. revert tvs. induction names as [|n names IH]; intros tvs; [reflexivity|].
    destruct tvs as [|tv tvs]; [reflexivity|]. cbn [map zip2 map2 map_res].
    repeat (progress (cbn -[map_res]; step_env; rewrite ?Hn, ?Hv, ?idx0, ?idx1)).
    destruct (o_narrow o) eqn:En;
      repeat (progress (cbn -[map_res]; step_env;
                        rewrite ?Hn, ?Hv, ?idx0, ?idx1, ?(prepare_prim quant numfmt dc o), ?max4_int, ?max4_true));
      rewrite IH; cbn [bind]; unfold width_of; rewrite (col_width_Z n (snd (rstate_of quant o tv))); rewrite ?En; reflexivity. }
  rewrite E. reflexivity.
Qed.

Lemma align_prim tv : PT "attr:align" [rnd tv] = Ok (PInt (match align_of (fst tv) with ARight => 1 | ALeft => 0 end)).
Proof.
  unfold rend, robj, prims_top. cbn -[dec_rdtype enc_rdtype]. rewrite dec_enc_rdtype. destruct (fst tv); reflexivity.
Qed.

Definition text_locals (desc : list (str * dtype)) (rows : list (list cellv)) (f0 : str) : env :=
  [("columns", PList (map enc_rcolumn desc)); ("rows", PList (map enc_rrow rows)); ("dcontext", dc); ("file", enc_s f0);
   ("expand", PBool (o_expand o)); ("boxed", PBool (o_boxed o)); ("spaced", PBool (o_spaced o));
   ("listsep", enc_s (o_listsep o)); ("nullvalue", enc_s (o_null o)); ("narrow", PBool (o_narrow o));
   ("unicode", PBool (o_unicode o))].

Theorem text_widths_full : forall (desc : list (str * dtype)) (rows : list (list cellv)) (f0 : str),
  exists loc',
  PyMini.exec_block call_ref PT {| locals := text_locals desc rows f0; fields := [] |} text_prefix =
    Ok (Next {| locals := loc'; fields := [] |}) /\
  lookup "widths" loc' =
    Some (PList (map (fun w => PInt (Z.of_nat w)) (table_widths quant numfmt o desc rows))) /\
  lookup "renderers" loc' =
    Some (PList (map rnd (fold_left upd rows (map (fun d => (snd d, [])) desc)))) /\
  lookup "alignment" loc' =
    Some (PList (map (fun d => PInt (match align_of (snd d) with ARight => 1 | ALeft => 0 end)) desc)) /\
  lookup "headers" loc' = Some (PList (map enc_s (map fst desc))) /\
  lookup "ctx" loc' = Some ctx /\ lookup "file" loc' = Some (enc_s f0) /\
  lookup "rows" loc' = Some (PList (map enc_rrow rows)) /\ lookup "boxed" loc' = Some (PBool (o_boxed o)) /\
  lookup "unicode" loc' = Some (PBool (o_unicode o)).
Proof.
  intros desc rows f0. rewrite text_prefix_shape. unfold text_stmt, text_prefix, text_locals. cbn [nth].
  set (tvs0 := map (fun d : str * dtype => (snd d, @nil cellv)) desc).
  rewrite exec_block_cons. erewrite exec_assign; [|reflexivity].
  cbn [bind write locals fields update String.eqb Ascii.eqb Bool.eqb].
  rewrite exec_block_cons.
  erewrite exec_assign.
  2:{ erewrite eval_listcomp; [|reflexivity].
      rewrite (map_res_ok _ (fun v => match v with PTuple [_; _; t] => PTuple [PInt 60; t; ctx; PList []] | _ => PNone end));
        [reflexivity|].
      intros v Hv. apply in_map_iff in Hv. destruct Hv as [[n t] [<- _]].
      repeat (progress (cbn -[enc_rdtype]; unfold enc_rcolumn; rewrite ?attr_datatype, ?Hget)). reflexivity. }
  match goal with |- context [map ?g (map enc_rcolumn desc)] =>
    replace (map g (map enc_rcolumn desc)) with (map rnd tvs0)
      by (unfold tvs0; rewrite !map_map; apply map_ext; intros [n t]; reflexivity) end.
  cbn [bind write locals fields update String.eqb Ascii.eqb Bool.eqb].
  rewrite exec_block_cons.
  erewrite exec_assign.
  2:{ erewrite eval_listcomp; [|reflexivity].
      rewrite (map_res_ok _ (fun v => match v with PTuple [_; n; _] => n | _ => PNone end)); [reflexivity|].
      intros v Hv. apply in_map_iff in Hv. destruct Hv as [[n t] [<- _]].
      repeat (progress (cbn; unfold enc_rcolumn; rewrite ?attr_name)). reflexivity. }
  match goal with |- context [map ?g (map enc_rcolumn desc)] =>
    replace (map g (map enc_rcolumn desc)) with (map enc_s (map fst desc))
      by (rewrite !map_map; apply map_ext; intros [n t]; reflexivity) end.
  cbn [bind write locals fields update String.eqb Ascii.eqb Bool.eqb].
  (* alignment = [renderer.align for renderer in renderers] *)
  rewrite exec_block_cons.
  erewrite exec_assign.
  2:{ erewrite eval_listcomp; [|reflexivity].
      rewrite (map_res_ok _ (fun v => res_val (PT "attr:align" [v]))); [reflexivity|].
      intros v Hv. apply in_map_iff in Hv. destruct Hv as [tv [<- _]].
      erewrite eval_attr; [|cbn [PyMini.eval read write locals]; step_env; reflexivity|unfold rend, robj; discriminate].
      cbn [append]. rewrite align_prim. reflexivity. }
  cbn [bind write locals fields update String.eqb Ascii.eqb Bool.eqb].
  (* priming loop *)
  rewrite exec_block_cons.
  erewrite (exec_for call_ref PT "row" (XName "rows") csv_loop _ _ (map enc_rrow rows)); [|reflexivity].
  match goal with |- context [for_loop _ _ _ _ {| locals := ?L; fields := _ |} _] =>
    destruct (prime_rows call_ref quant numfmt dc o rows tvs0 L eq_refl) as [loc1 [E1 [Hr1 F1]]] end.
  rewrite E1. cbn [bind].
  pose proof (F1 "file" eq_refl eq_refl eq_refl eq_refl eq_refl) as Hfile.
  pose proof (F1 "headers" eq_refl eq_refl eq_refl eq_refl eq_refl) as Hhead.
  pose proof (F1 "ctx" eq_refl eq_refl eq_refl eq_refl eq_refl) as Hctx.
  pose proof (F1 "alignment" eq_refl eq_refl eq_refl eq_refl eq_refl) as Hal.
  pose proof (F1 "narrow" eq_refl eq_refl eq_refl eq_refl eq_refl) as Hnar.
  pose proof (F1 "nullvalue" eq_refl eq_refl eq_refl eq_refl eq_refl) as Hnul.
  pose proof (F1 "rows" eq_refl eq_refl eq_refl eq_refl eq_refl) as Hrows.
  pose proof (F1 "boxed" eq_refl eq_refl eq_refl eq_refl eq_refl) as Hbox.
  pose proof (F1 "unicode" eq_refl eq_refl eq_refl eq_refl eq_refl) as Huni.
  cbn in Hfile, Hhead, Hctx, Hal, Hnar, Hnul, Hrows, Hbox, Huni. clear F1 E1.
  (* widths *)
  rewrite exec_block_cons.
  erewrite exec_assign; [|apply (widths_eval (map fst desc) _ loc1 Hhead Hr1 Hnar Hnul)].
  cbn [bind write locals fields]. rewrite exec_block_nil.
  eexists. split; [reflexivity|].
  split.
  { rewrite lookup_update_eq. unfold table_widths. rewrite <- col_states_fold. fold tvs0.
    rewrite map2_map_r, map2_map_l. reflexivity. }
  step_env. rewrite Hr1, Hal, Hhead, Hctx, Hfile, Hrows, Hbox, Huni.
  repeat split. f_equal. f_equal. unfold tvs0. rewrite !map_map. apply map_ext. intros [n t]. rewrite align_prim. reflexivity.
Qed.

Theorem text_widths_src : forall (desc : list (str * dtype)) (rows : list (list cellv)) (f0 : str),
  exists s',
  PyMini.exec_block call_ref PT {| locals := text_locals desc rows f0; fields := [] |} text_prefix = Ok (Next s') /\
  lookup "widths" (locals s') =
    Some (PList (map (fun w => PInt (Z.of_nat w)) (table_widths quant numfmt o desc rows))) /\
  lookup "renderers" (locals s') =
    Some (PList (map rnd (fold_left upd rows (map (fun d => (snd d, [])) desc)))) /\
  lookup "alignment" (locals s') =
    Some (PList (map (fun d => PInt (match align_of (snd d) with ARight => 1 | ALeft => 0 end)) desc)) /\
  lookup "headers" (locals s') = Some (PList (map enc_s (map fst desc))) /\
  lookup "ctx" (locals s') = Some ctx /\ lookup "file" (locals s') = Some (enc_s f0).
Proof.
  intros desc rows f0. destruct (text_widths_full desc rows f0) as [loc' [E [H1 [H2 [H3 [H4 [H5 [H6 _]]]]]]]].
  exists {| locals := loc'; fields := [] |}. cbn [locals]. repeat split; assumption.
Qed.
End Text.
