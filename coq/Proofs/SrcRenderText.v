(* Tie by translation (C16): query_render.render_text (Gen/SrcRender.v render_text_fn), first part: from the
   RenderContext to the column widths.  The translated statements build one renderer per column, feed every non-NULL
   cell to its column's renderer in row order and compute widths = Render.table_widths:
   max(1, narrow or len(header), len(nullvalue), prepare()) per column. *)
From Coq Require Import String ZArith List Bool Lia Arith.
Import ListNotations.
From Verif Require Import Base.PyValue Model.Eval Model.PyMini Model.Render Model.PrimsRender Gen.SrcRender
  Proofs.PyMiniLemmas Proofs.PyMiniLemmas2 Proofs.SrcRenderTop Proofs.SrcRenderCsv.
Open Scope string_scope.
Open Scope Z_scope.
Open Scope list_scope.

Ltac step_env := repeat (rewrite ?lookup_update_eq; rewrite ?lookup_update_neq by reflexivity).

Lemma map2_map_r {A B C D} (g : A -> C -> D) (h : B -> C) la lb :
  map2 g la (map h lb) = map2 (fun a b => g a (h b)) la lb.
Proof. revert lb. induction la as [|a la IH]; intros [|b lb]; cbn; try reflexivity. now rewrite IH. Qed.
Lemma map2_map_l {A B C D} (g : B -> C -> D) (h : A -> B) la lc :
  map2 g (map h la) lc = map2 (fun a c => g (h a) c) la lc.
Proof. revert lc. induction la as [|a la IH]; intros [|c lc]; cbn; try reflexivity. now rewrite IH. Qed.

Section Text.
Variable call_ref : nat -> list pv -> pv.
Variable quant : dec -> str -> dec.
Variable numfmt : list (dec * str) -> dec -> str -> str.
Notation PT := (prims_top quant numfmt).
Variables (dc : pv) (o : opts).
Notation ctx := (enc_ctx dc o).
Notation rnd := (rend dc o).
Hypothesis Hget : forall t c, call_ref 0 [enc_rdtype t; c] = robj t c [].

Definition text_prefix : list stmt := Eval cbv in firstn 6 (f_body render_text_fn).
Definition widths_expr : expr := Eval cbv in match nth 5 text_prefix SPass with SAssign _ e => e | _ => XConst PNone end.
Definition text_stmt (i : nat) : stmt := nth i text_prefix SPass.

Lemma text_prefix_shape : text_prefix =
  [text_stmt 0; text_stmt 1; text_stmt 2; text_stmt 3; SFor "row" (XName "rows") csv_loop;
   SAssign (TName "widths") widths_expr].
Proof. reflexivity. Qed.

Lemma idx0 (a b : pv) : index_at [a; b] 0 = Ok a. Proof. reflexivity. Qed.
Lemma idx1 (a b : pv) : index_at [a; b] 1 = Ok b. Proof. reflexivity. Qed.
Lemma max4_int a b c : PT "builtins.max" [PInt 1; PInt a; PInt b; PInt c] = Ok (PInt (Z.max (Z.max (Z.max 1 a) b) c)).
Proof. reflexivity. Qed.
Lemma max4_true b c : PT "builtins.max" [PInt 1; PBool true; PInt b; PInt c] = Ok (PInt (Z.max (Z.max (Z.max 1 1) b) c)).
Proof. reflexivity. Qed.

Local Arguments enc_rcell : simpl never.
Local Arguments rend : simpl never.
Local Arguments index_at : simpl never.
Local Arguments prims_top : simpl never.
Local Arguments Z.max : simpl never.
Local Arguments Z.of_nat : simpl never.
Local Arguments st_width : simpl never.
Local Arguments col_prepare : simpl never.

Definition width_of (n : str) (tv : dtype * list cellv) : nat := col_width numfmt o n (snd (rstate_of quant o tv)).

Local Arguments width_of : simpl never.

Lemma col_width_Z n st : Z.of_nat (col_width numfmt o n st) =
  Z.max (Z.max (Z.max 1 (if o_narrow o then 1 else Z.of_nat (length n))) (Z.of_nat (length (o_null o))))
        (Z.of_nat (st_width numfmt st)).
Proof. unfold col_width. destruct (o_narrow o); lia. Qed.

Lemma widths_eval : forall names tvs loc,
  lookup "headers" loc = Some (PList (map enc_s names)) -> lookup "renderers" loc = Some (PList (map rnd tvs)) ->
  lookup "narrow" loc = Some (PBool (o_narrow o)) -> lookup "nullvalue" loc = Some (enc_s (o_null o)) ->
  PyMini.eval call_ref PT {| locals := loc; fields := [] |} widths_expr =
  Ok ({| locals := loc; fields := [] |}, PList (map (fun w => PInt (Z.of_nat w)) (map2 width_of names tvs))).
Proof.
  intros names tvs loc Hh Hr Hn Hv. unfold widths_expr.
  erewrite eval_listcomp; [|cbn; rewrite Hh; cbn; rewrite Hr; reflexivity].
  match goal with |- bind ?m _ = _ =>
    assert (E : m = Ok (map (fun w => PInt (Z.of_nat w)) (map2 width_of names tvs))) end.
  { clear Hh Hr. revert tvs. induction names as [|n names IH]; intros tvs; [reflexivity|].
    destruct tvs as [|tv tvs]; [reflexivity|]. cbn [map zip2 map2 map_res].
    repeat (progress (cbn -[map_res]; step_env; rewrite ?Hn, ?Hv, ?idx0, ?idx1)).
    destruct (o_narrow o) eqn:En;
      repeat (progress (cbn -[map_res]; step_env;
                        rewrite ?Hn, ?Hv, ?idx0, ?idx1, ?(prepare_prim quant numfmt dc o), ?max4_int, ?max4_true));
      rewrite IH; cbn [bind]; unfold width_of at 1; rewrite col_width_Z, En; reflexivity. }
  rewrite E. reflexivity.
Qed.
End Text.
