(* Tie by translation, C10 (bld-misc): the PyMini term generated on every run from the CURRENT source of
   Column.__getitem__ with the subscript primitive (Gen/SrcColumn.v) computes, for a SLICE key, the model's
   [py_slice col_items] and, for an integer key, the model's [py_index col_items] - for all slices / integers.
   The getters in the class attribute Column._vars are opaque callables; [getters_give]: calling the j-th one on the
   object gives the j-th item of the 7-item sequence (its name, its type code, None x 5) - that is what
   operator.attrgetter and the properties tied in Proofs/SrcCursor.v (column_vars) say. *)
From Coq Require Import String Ascii ZArith List Bool Lia.
Import ListNotations.
From Verif Require Import Base.PyValue Model.Eval Model.PyMini Model.PrimsApi Model.PrimsColumn Proofs.PyMiniLemmas
  Proofs.PyMiniLemmas2.
From Verif Require Model.Cursor.
From Verif Require Import Gen.SrcColumn.
Open Scope string_scope.
Open Scope list_scope.
Open Scope Z_scope.

Notation py_slice := Cursor.py_slice.
Notation py_index := Cursor.py_index.
Notation col_items := Cursor.col_items.

(* ---------------------------------------------------------------- slicing commutes with map, and selects members *)
Lemma flat_map_nth_map {A B} (f : A -> B) (l : list A) (idx : list Z) :
  flat_map (fun i => match nth_error (map f l) (Z.to_nat i) with Some x => [x] | None => [] end) idx =
  map f (flat_map (fun i => match nth_error l (Z.to_nat i) with Some x => [x] | None => [] end) idx).
Proof.
  induction idx as [|i t IH]; [reflexivity|]. cbn [flat_map]. rewrite map_app, IH. f_equal.
  rewrite nth_error_map. destruct (nth_error l (Z.to_nat i)); reflexivity.
Qed.

Lemma py_slice_map {A B} (f : A -> B) (l : list A) a b c :
  py_slice (map f l) a b c = option_map (map f) (py_slice l a b c).
Proof.
  unfold Cursor.py_slice. rewrite map_length.
  destruct (match c with Some s => s | None => 1 end =? 0); [reflexivity|].
  destruct (Cursor.slice_bounds _ a b _) as [x y]. cbn [option_map]. f_equal. apply flat_map_nth_map.
Qed.

Lemma py_slice_in {A} (l r : list A) a b c x : py_slice l a b c = Some r -> In x r -> In x l.
Proof.
  unfold Cursor.py_slice. destruct (match c with Some s => s | None => 1 end =? 0); [discriminate|].
  destruct (Cursor.slice_bounds _ a b _) as [u v]. intros H. injection H as <-. intros H.
  apply in_flat_map in H. destruct H as [i [_ H]].
  destruct (nth_error l (Z.to_nat i)) eqn:E; [|destruct H].
  destruct H as [<-|[]]. eapply nth_error_In; eassumption.
Qed.

Definition idx7 : list nat := [0; 1; 2; 3; 4; 5; 6]%nat.

Lemma seven {A} (l : list A) d : length l = 7%nat -> l = map (fun i => nth i l d) idx7.
Proof.
  intros H. do 7 (destruct l as [|? l]; [discriminate|]). destruct l; [reflexivity|discriminate].
Qed.

Section Tie.
Variable call_ref : nat -> list pv -> pv.
Variable msg : string -> list pv -> pv.
Notation prim := (prim_column msg).
Notation eval := (PyMini.eval call_ref prim).

Definition getters_give (n h : pv) (ks : list nat) : Prop :=
  Forall2 (fun k it => do_call call_ref (PRef k) [PSelf] = Ok (item_val n h it)) ks col_items.

Lemma getters_nth n h ks : getters_give n h ks ->
  length ks = 7%nat /\
  forall i, In i idx7 -> do_call call_ref (PRef (nth i ks 0%nat)) [PSelf] = Ok (item_val n h (nth i col_items Cursor.INull)).
Proof.
  intros H. unfold getters_give, Cursor.col_items in H.
  repeat match goal with H : Forall2 _ _ (_ :: _) |- _ => inversion H; clear H; subst end.
  match goal with H : Forall2 _ _ [] |- _ => inversion H; clear H; subst end.
  split; [reflexivity|]. intros i Hi. cbn in Hi.
  repeat (destruct Hi as [<-|Hi]; [assumption|]). destruct Hi.
Qed.

Lemma isinstance_slice a b c : isinstance (enc_slice a b c) "builtins.slice" = true.
Proof. reflexivity. Qed.

Lemma dec_enc_slice a b c : dec_slice (enc_slice a b c) = Some (a, b, c).
Proof. destruct a, b, c; reflexivity. Qed.

(* column[a:b:c] for EVERY slice: ValueError for step 0, else the tuple of the items the model's py_slice selects
   from the 7-item sequence, in that order; the object is not changed *)
Theorem column_slice_src : forall (n h : pv) (ks : list nat) (flds : env) (a b c : option Z),
  lookup "_vars" flds = Some (PTuple (map PRef ks)) ->
  getters_give n h ks ->
  call_method call_ref prim column_getitem flds [enc_slice a b c] =
  match py_slice col_items a b c with
  | None => Exc ValueError
  | Some l => Ok (flds, PTuple (map (item_val n h) l))
  end.
Proof.
  intros n h ks flds a b c Hv Hg. destruct (getters_nth n h ks Hg) as [Hlen Hnth].
  unfold column_getitem, call_method. cbn [bind_params f_params f_body f_gen exec_block].
  set (s0 := {| locals := [("self", PSelf); ("key", enc_slice a b c)]; fields := flds |}).
  (* the test *)
  assert (Ht : eval s0 (XPrim "isinstance:builtins.slice" [XName "key"]) = Ok (s0, PBool true)).
  { cbn -[enc_slice prim_column]. unfold prim_column. cbn -[enc_slice isinstance].
    rewrite isinstance_slice. reflexivity. }
  rewrite (exec_if call_ref prim _ _ _ s0 s0 (PBool true) true Ht eq_refl). cbn [bind].
  (* the subscript *)
  assert (Hs : eval s0 (XPrim "getitem" [XAttr (XName "self") "_vars"; XName "key"]) =
               match py_slice (map PRef ks) a b c with
               | Some r => Ok (s0, PTuple r) | None => Exc ValueError end).
  { cbn -[enc_slice prim_column py_slice]. rewrite Hv. cbn -[enc_slice prim_column py_slice].
    unfold prim_column. cbn -[enc_slice dec_slice py_slice]. rewrite dec_enc_slice.
    destruct (py_slice (map PRef ks) a b c); reflexivity. }
  rewrite (seven ks 0%nat Hlen), map_map, py_slice_map in Hs.
  rewrite (seven col_items Cursor.INull eq_refl), py_slice_map.
  destruct (py_slice idx7 a b c) as [sel|] eqn:Esel; cbn [option_map] in Hs |- *.
  2:{ cbn [exec_block PyMini.exec]. cbn -[enc_slice prim_column py_slice] in Hs |- *.
      cbn [PyMini.eval] in Hs. cbn -[enc_slice prim_column py_slice] in Hs. rewrite Hv in *.
      cbn -[enc_slice prim_column py_slice] in Hs |- *.
      destruct (prim_column msg "getitem" _) as [x| |]; cbn in Hs |- *; try discriminate; try reflexivity.
      all: congruence. }
  cbn [exec_block PyMini.exec].
  rewrite (eval_prim1 call_ref prim "builtins.tuple" _ s0 s0
             (PList (map (fun i => item_val n h (nth i col_items Cursor.INull)) sel))).
  - cbn. rewrite map_map. reflexivity.
  - rewrite (eval_listcomp_tuple call_ref prim _ "getter" _ s0 s0 _ Hs).
    rewrite (map_res_map_ok' (fun x : nat => PRef (nth x ks 0%nat)) _
               (fun i => item_val n h (nth i col_items Cursor.INull))).
    + reflexivity.
    + intros i Hi. assert (Hin : In i idx7) by (eapply py_slice_in; eassumption).
      cbn -[do_call nth]. rewrite (Hnth i Hin). reflexivity.
Qed.

(* column[i] for EVERY integer i, on the same term: IndexError outside -7..6, else the item py_index selects *)
Theorem column_index_src : forall (n h : pv) (ks : list nat) (flds : env) (i : Z),
  lookup "_vars" flds = Some (PTuple (map PRef ks)) ->
  getters_give n h ks ->
  call_method call_ref prim column_getitem flds [PInt i] =
  match py_index col_items i with
  | None => Exc IndexError
  | Some it => Ok (flds, item_val n h it)
  end.
Proof.
  intros n h ks flds i Hv Hg. destruct (getters_nth n h ks Hg) as [Hlen Hnth].
  do 7 (destruct ks as [|? ks]; [discriminate|]). destruct ks; [|discriminate].
  pose proof (Hnth 0%nat (or_introl eq_refl)) as H0.
  pose proof (Hnth 1%nat (or_intror (or_introl eq_refl))) as H1.
  pose proof (Hnth 2%nat (or_intror (or_intror (or_introl eq_refl)))) as H2.
  pose proof (Hnth 3%nat (or_intror (or_intror (or_intror (or_introl eq_refl))))) as H3.
  pose proof (Hnth 4%nat (or_intror (or_intror (or_intror (or_intror (or_introl eq_refl)))))) as H4.
  pose proof (Hnth 5%nat (or_intror (or_intror (or_intror (or_intror (or_intror (or_introl eq_refl))))))) as H5.
  pose proof (Hnth 6%nat (or_intror (or_intror (or_intror (or_intror (or_intror (or_intror (or_introl eq_refl)))))))) as H6.
  cbn [nth Cursor.col_items] in H0, H1, H2, H3, H4, H5, H6. clear Hnth Hg Hlen.
  unfold column_getitem, call_method. cbn -[do_call index_at]. rewrite Hv. cbn -[do_call index_at].
  assert (Hc : i < -7 \/ 7 <= i \/ i = -7 \/ i = -6 \/ i = -5 \/ i = -4 \/ i = -3 \/ i = -2 \/ i = -1 \/
               i = 0 \/ i = 1 \/ i = 2 \/ i = 3 \/ i = 4 \/ i = 5 \/ i = 6) by lia.
  destruct Hc as [Hc|[Hc|Hc]].
  - unfold index_at, Cursor.py_index. cbn [length map Cursor.col_items].
    destruct (Z.ltb_spec i 0); [|lia].
    destruct (Z.ltb_spec (i + Z.of_nat 7) 0); [|lia].
    destruct (Z.ltb_spec i (- Z.of_nat 7)); [|lia]. reflexivity.
  - unfold index_at, Cursor.py_index. cbn [length map Cursor.col_items].
    destruct (Z.ltb_spec i 0); [lia|].
    destruct (Z.ltb_spec i 0); [lia|].
    destruct (Z.leb_spec (Z.of_nat 7) i); [|lia].
    destruct (Z.ltb_spec i (- Z.of_nat 7)); [lia|]. reflexivity.
  - repeat (destruct Hc as [->|Hc]); try subst i; cbn -[do_call Pos.to_nat];
      repeat match goal with |- context [Pos.to_nat ?p] =>
        let v := eval compute in (Pos.to_nat p) in change (Pos.to_nat p) with v end;
      cbn -[do_call];
      rewrite ?H0, ?H1, ?H2, ?H3, ?H4, ?H5, ?H6; reflexivity.
Qed.

End Tie.

(* ---------------------------------------------------------------- where [getters_give] comes from
   Proofs/SrcCursor.v's [getters_ok] (calling the j-th getter of Column._vars is calling the j-th translated property
   of group `cursor`: what operator.attrgetter means) and the translated properties themselves (name returns _name,
   type_code returns hash(_type), the other five return None) give [getters_give] with h = hash(_type). *)
From Verif Require Gen.SrcCursor Proofs.SrcCursor.

Lemma getters_ok_give (call_ref : nat -> list pv -> pv) (prim0 : string -> list pv -> res pv)
    (n t h : pv) (ks : list nat) (kH : nat) :
  ref_of Gen.SrcCursor.refs "builtins.hash" = Some kH ->
  do_call call_ref (PRef kH) [t] = Ok h ->
  Proofs.SrcCursor.getters_ok call_ref prim0 (Proofs.SrcCursor.cflds n t ks) ks ->
  getters_give call_ref n h ks.
Proof.
  intros HH Hh Hg. cbn in HH. injection HH as <-.
  unfold Proofs.SrcCursor.getters_ok, Gen.SrcCursor.column_vars in Hg.
  repeat match goal with H : Forall2 _ _ (_ :: _) |- _ => inversion H; clear H; subst end.
  match goal with H : Forall2 _ _ [] |- _ => inversion H; clear H; subst end.
  unfold Proofs.SrcCursor.getter_is in *. cbn -[do_call] in *|-.
  rewrite Hh in *. cbn -[do_call] in *|-.
  unfold getters_give, Cursor.col_items.
  repeat (apply Forall2_cons; [
    match goal with H : Ok _ = bind (do_call call_ref (PRef ?k) [PSelf]) _ |- do_call call_ref (PRef ?k) [PSelf] = _ =>
      destruct (do_call call_ref (PRef k) [PSelf]); cbn in H; try discriminate H; injection H as <-; reflexivity end|]).
  apply Forall2_nil.
Qed.

(* ---------------------------------------------------------------- the sequence protocol of the live class
   len and getitem are Column's own (tied: Proofs/SrcCursor.v column_len_src, and above); iteration, containment,
   reversed, index and count are the collections.abc.Sequence mix-ins, which are defined in terms of __getitem__ and
   __len__ - so tuple(col), iter(col), x in col go through the tied __getitem__. *)
Theorem column_protocol_ok :
  column_protocol =
  [("__len__", "beanquery.cursor.Column.__len__"); ("__getitem__", "beanquery.cursor.Column.__getitem__");
   ("__iter__", "collections.abc.Sequence.__iter__"); ("__contains__", "collections.abc.Sequence.__contains__");
   ("__reversed__", "collections.abc.Sequence.__reversed__"); ("index", "collections.abc.Sequence.index");
   ("count", "collections.abc.Sequence.count")].
Proof. reflexivity. Qed.
