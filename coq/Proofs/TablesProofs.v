(* C11 -- proofs about the model of the Beancount tables (Model/Tables.v). *)
From Coq Require Import String ZArith List Bool Lia Sorted Permutation.
Import ListNotations.
From Verif Require Import Base.Out Base.PyValue Base.StableSort Base.Decimal Model.Dates Model.Ledger Model.Tables.
From Verif Require Model.RegistrySnapshot Gen.Registry.
Open Scope list_scope.
Open Scope Z_scope.

(* ---------- strings ---------- *)
Lemma str_eqb_eq : forall a b, str_eqb a b = true <-> a = b.
Proof.
  induction a as [|x a IH]; destruct b as [|y b]; simpl; split; intros H; try discriminate; try reflexivity.
  - apply andb_true_iff in H. destruct H as [H1 H2]. apply Z.eqb_eq in H1. apply IH in H2. congruence.
  - inversion H; subst. rewrite Z.eqb_refl. simpl. apply IH. reflexivity.
Qed.
Lemma str_eqb_refl a : str_eqb a a = true.
Proof. apply str_eqb_eq. reflexivity. Qed.
Lemma str_eqb_neq a b : str_eqb a b = false <-> a <> b.
Proof.
  split.
  - intros H E. subst. rewrite str_eqb_refl in H. discriminate.
  - intros H. destruct (str_eqb a b) eqn:E; [|reflexivity]. apply str_eqb_eq in E. contradiction.
Qed.

(* ---------- entries table ---------- *)
Lemma entries_loop_entries : forall es k, map er_entry (entries_loop es k) = es.
Proof. induction es as [|e es IH]; intros k; simpl; [reflexivity|]. rewrite IH. reflexivity. Qed.

Lemma entries_loop_rowids : forall es k,
  map er_rowid (entries_loop es k) = map (fun i => k + Z.of_nat i) (seq 1 (length es)).
Proof.
  induction es as [|e es IH]; intros k; simpl; [reflexivity|].
  rewrite IH. f_equal; try lia.
  rewrite <- (seq_shift (length es) 1). rewrite map_map. apply map_ext. intros i. lia.
Qed.

Lemma entries_rows l : map er_entry (entries_iter l) = l.
Proof. apply entries_loop_entries. Qed.

Lemma entries_count l : length (entries_iter l) = length l.
Proof. rewrite <- (map_length er_entry). rewrite entries_rows. reflexivity. Qed.

Lemma entries_rowids l : map er_rowid (entries_iter l) = map Z.of_nat (seq 1 (length l)).
Proof. unfold entries_iter. rewrite entries_loop_rowids. apply map_ext. intros; lia. Qed.

Lemma nth_error_seq : forall n s i, (i < n)%nat -> nth_error (seq s n) i = Some (s + i)%nat.
Proof.
  induction n as [|n IH]; intros s i H; [lia|]. destruct i as [|i]; simpl.
  - f_equal. lia.
  - rewrite IH by lia. f_equal. lia.
Qed.

Lemma entries_nth l i e : nth_error l i = Some e ->
  nth_error (entries_iter l) i = Some (mkerow (Z.of_nat (S i)) e).
Proof.
  intros H.
  assert (Hl : (i < length l)%nat) by (apply nth_error_Some; congruence).
  destruct (nth_error (entries_iter l) i) as [r|] eqn:E.
  - assert (H1 : nth_error (map er_entry (entries_iter l)) i = Some (er_entry r)) by (apply map_nth_error; exact E).
    rewrite entries_rows in H1.
    assert (H2 : nth_error (map er_rowid (entries_iter l)) i = Some (er_rowid r)) by (apply map_nth_error; exact E).
    rewrite entries_rowids in H2.
    rewrite (map_nth_error Z.of_nat i (seq 1 (length l)) (d := S i)) in H2.
    + destruct r as [rid re]; simpl in *. congruence.
    + apply nth_error_seq. exact Hl.
  - apply nth_error_None in E. rewrite entries_count in E. lia.
Qed.

(* ---------- postings table ---------- *)
(* the (transaction, posting) pairs of a ledger in ledger order: the specification *)
Definition txn_postings (e : directive) : list (directive * posting) :=
  if is_transaction e then map (pair e) (d_postings e) else [].
Definition ledger_postings (l : ledger) : list (directive * posting) := flat_map txn_postings l.
Definition all_postings (l : ledger) : list posting := map snd (ledger_postings l).

Lemma d_postings_nontxn e : is_transaction e = false -> d_postings e = [].
Proof. destruct e; simpl; intros H; try reflexivity; discriminate. Qed.

Lemma all_postings_flat l : all_postings l = flat_map d_postings l.
Proof.
  unfold all_postings, ledger_postings. induction l as [|e l IH]; simpl; [reflexivity|].
  rewrite map_app, IH. f_equal. unfold txn_postings.
  destruct (is_transaction e) eqn:E.
  - rewrite map_map. simpl. apply map_id.
  - rewrite d_postings_nontxn by exact E. reflexivity.
Qed.

Lemma post_loop_pairs e : forall ps j k seen,
  map (fun r => (pr_entry r, pr_posting r)) (post_loop e ps j k seen) = map (pair e) ps.
Proof. induction ps as [|p ps IH]; intros; simpl; [reflexivity|]. rewrite IH. reflexivity. Qed.

Lemma post_loop_length e : forall ps j k seen, length (post_loop e ps j k seen) = length ps.
Proof. induction ps as [|p ps IH]; intros; simpl; [reflexivity|]. rewrite IH. reflexivity. Qed.

Lemma post_loop_rowids e : forall ps j k seen,
  map pr_rowid (post_loop e ps j k seen) = map (fun i => k + Z.of_nat i) (seq 1 (length ps)).
Proof.
  induction ps as [|p ps IH]; intros; simpl; [reflexivity|].
  rewrite IH. f_equal; try lia.
  rewrite <- (seq_shift (length ps) 1). rewrite map_map. apply map_ext. intros i. lia.
Qed.

Lemma postings_loop_pairs : forall es k seen,
  map (fun r => (pr_entry r, pr_posting r)) (postings_loop es k seen) = ledger_postings es.
Proof.
  induction es as [|e es IH]; intros; simpl; [reflexivity|].
  unfold txn_postings. destruct (is_transaction e).
  - rewrite map_app, post_loop_pairs, IH. reflexivity.
  - apply IH.
Qed.

Lemma postings_loop_length : forall es k seen, length (postings_loop es k seen) = length (ledger_postings es).
Proof. intros. rewrite <- (postings_loop_pairs es k seen). rewrite map_length. reflexivity. Qed.

Lemma seq_add : forall n s d, seq (d + s) n = map (fun i => (d + i)%nat) (seq s n).
Proof.
  induction n as [|n IH]; intros s d; simpl; [reflexivity|]. f_equal.
  replace (S (d + s)) with (d + S s)%nat by lia. apply IH.
Qed.

Lemma postings_loop_rowids : forall es k seen,
  map pr_rowid (postings_loop es k seen) = map (fun i => k + Z.of_nat i) (seq 1 (length (postings_loop es k seen))).
Proof.
  induction es as [|e es IH]; intros; simpl; [reflexivity|].
  destruct (is_transaction e); [|apply IH].
  rewrite map_app, app_length, seq_app, map_app. rewrite post_loop_rowids, post_loop_length. f_equal.
  rewrite IH. set (n1 := length (d_postings e)).
  replace (1 + n1)%nat with (n1 + 1)%nat by lia.
  rewrite (seq_add _ 1 n1), map_map. apply map_ext. intros i. lia.
Qed.

(* The rows of the postings table are exactly the postings of the transactions, in ledger order,
   each with its own transaction. *)
Lemma postings_rows l : map (fun r => (pr_entry r, pr_posting r)) (postings_iter l) = ledger_postings l.
Proof. apply postings_loop_pairs. Qed.

Lemma postings_rows_postings l : map pr_posting (postings_iter l) = flat_map d_postings l.
Proof.
  rewrite <- all_postings_flat. unfold all_postings. rewrite <- postings_rows. rewrite map_map. reflexivity.
Qed.

Fixpoint total_postings (l : ledger) : nat :=
  match l with [] => O | e :: t => (length (d_postings e) + total_postings t)%nat end.

Lemma postings_count l : length (postings_iter l) = total_postings l.
Proof.
  rewrite <- (map_length pr_posting). rewrite postings_rows_postings.
  induction l as [|e l IH]; simpl; [reflexivity|]. rewrite app_length, IH. reflexivity.
Qed.

Lemma postings_rowids l : map pr_rowid (postings_iter l) = map Z.of_nat (seq 1 (length (postings_iter l))).
Proof. unfold postings_iter. rewrite postings_loop_rowids. apply map_ext. intros; lia. Qed.

Lemma seq_sorted : forall n s, StronglySorted Z.lt (map Z.of_nat (seq s n)).
Proof.
  induction n as [|n IH]; intros s; simpl; constructor; [apply IH|].
  apply Forall_forall. intros x Hx. apply in_map_iff in Hx. destruct Hx as [i [<- Hi]].
  apply in_seq in Hi. lia.
Qed.

(* rowid is strictly increasing along the table: distinct rows never share the cache key *)
Lemma postings_rowid_increasing l : StronglySorted Z.lt (map pr_rowid (postings_iter l)).
Proof. rewrite postings_rowids. apply seq_sorted. Qed.

Lemma entries_rowid_increasing l : StronglySorted Z.lt (map er_rowid (entries_iter l)).
Proof. rewrite entries_rowids. apply seq_sorted. Qed.

Lemma sorted_lt_nodup : forall l, StronglySorted Z.lt l -> NoDup l.
Proof.
  induction l as [|x l IH]; intros H; [constructor|].
  inversion H as [|? ? Hs Hall]; subst. constructor; [|apply IH; exact Hs].
  intros Hin. rewrite Forall_forall in Hall. specialize (Hall x Hin). lia.
Qed.

Lemma postings_rowid_nodup l : NoDup (map pr_rowid (postings_iter l)).
Proof. apply sorted_lt_nodup, postings_rowid_increasing. Qed.

Lemma postings_rowid_nth l i r : nth_error (postings_iter l) i = Some r -> pr_rowid r = Z.of_nat (S i).
Proof.
  intros H.
  assert (Hl : (i < length (postings_iter l))%nat) by (apply nth_error_Some; congruence).
  assert (H2 : nth_error (map pr_rowid (postings_iter l)) i = Some (pr_rowid r)) by (apply map_nth_error; exact H).
  rewrite postings_rowids in H2.
  rewrite (map_nth_error Z.of_nat i (seq 1 (length (postings_iter l))) (d := S i)) in H2; [congruence|].
  apply nth_error_seq. exact Hl.
Qed.

(* every row: its entry is a transaction of the ledger, its posting is the pr_index-th posting of it *)
Lemma post_loop_index e : forall ps j k seen r,
  In r (post_loop e ps j k seen) ->
  pr_entry r = e /\ (j <= pr_index r)%nat /\ nth_error ps (pr_index r - j) = Some (pr_posting r).
Proof.
  induction ps as [|p ps IH]; intros j k seen r H; simpl in H; [contradiction|].
  destruct H as [<-|H]; simpl.
  - rewrite Nat.sub_diag. repeat split; auto.
  - apply IH in H. destruct H as [H1 [H2 H3]]. repeat split; [exact H1|lia|].
    replace (pr_index r - j)%nat with (S (pr_index r - S j)) by lia. exact H3.
Qed.

Lemma postings_loop_index : forall es k seen r,
  In r (postings_loop es k seen) ->
  In (pr_entry r) es /\ is_transaction (pr_entry r) = true
  /\ nth_error (d_postings (pr_entry r)) (pr_index r) = Some (pr_posting r).
Proof.
  induction es as [|e es IH]; intros k seen r H; simpl in H; [contradiction|].
  destruct (is_transaction e) eqn:E.
  - apply in_app_or in H. destruct H as [H|H].
    + apply post_loop_index in H. destruct H as [H1 [_ H3]]. rewrite Nat.sub_0_r in H3. subst e.
      repeat split; [left; reflexivity|exact E|exact H3].
    + apply IH in H. destruct H as [H1 H2]. split; [right; exact H1|exact H2].
  - apply IH in H. destruct H as [H1 H2]. split; [right; exact H1|exact H2].
Qed.

Lemma postings_row_wf l r : In r (postings_iter l) ->
  In (pr_entry r) l /\ is_transaction (pr_entry r) = true
  /\ nth_error (d_postings (pr_entry r)) (pr_index r) = Some (pr_posting r).
Proof. apply postings_loop_index. Qed.

(* what the running balance has accumulated at a row: the postings of the rows up to and including it *)
Lemma post_loop_seen e : forall ps j k seen r,
  In r (post_loop e ps j k seen) ->
  pr_seen r = seen ++ firstn (Z.to_nat (pr_rowid r - k)) ps /\ k < pr_rowid r <= k + Z.of_nat (length ps).
Proof.
  induction ps as [|p ps IH]; intros j k seen r H; simpl in H; [contradiction|].
  destruct H as [<-|H]; simpl pr_seen; simpl pr_rowid.
  - replace (k + 1 - k) with 1 by lia. simpl. split; [reflexivity|]. simpl length. lia.
  - apply IH in H. destruct H as [H1 H2]. split.
    + rewrite H1. rewrite <- app_assoc. simpl. f_equal.
      replace (Z.to_nat (pr_rowid r - k)) with (S (Z.to_nat (pr_rowid r - (k + 1)))) by lia. reflexivity.
    + simpl length. lia.
Qed.

Lemma postings_loop_seen : forall es k seen r,
  In r (postings_loop es k seen) ->
  pr_seen r = seen ++ firstn (Z.to_nat (pr_rowid r - k)) (flat_map d_postings es) /\ k < pr_rowid r.
Proof.
  induction es as [|e es IH]; intros k seen r H; simpl in H; [contradiction|].
  destruct (is_transaction e) eqn:E.
  - apply in_app_or in H. destruct H as [H|H].
    + apply post_loop_seen in H. destruct H as [H1 H2]. split; [|lia].
      rewrite H1. f_equal. simpl. rewrite firstn_app.
      replace (Z.to_nat (pr_rowid r - k) - length (d_postings e))%nat with 0%nat by lia.
      simpl. rewrite app_nil_r. reflexivity.
    + apply IH in H. destruct H as [H1 H2]. split; [|lia].
      rewrite H1. rewrite <- app_assoc. f_equal. simpl. rewrite firstn_app.
      rewrite (firstn_all2 (n := Z.to_nat (pr_rowid r - k)) (d_postings e)) by lia. f_equal. f_equal. lia.
  - apply IH in H. destruct H as [H1 H2]. split; [|exact H2].
    rewrite H1. simpl. rewrite d_postings_nontxn by exact E. reflexivity.
Qed.

Lemma postings_seen l r : In r (postings_iter l) ->
  pr_seen r = firstn (Z.to_nat (pr_rowid r)) (flat_map d_postings l).
Proof.
  intros H. apply postings_loop_seen in H. destruct H as [H _]. rewrite H. simpl.
  rewrite Z.sub_0_r. reflexivity.
Qed.

(* ---------- typed tables ---------- *)
Lemma typed_iter_filter k l : typed_iter k l = filter (fun d => dkind_eqb (d_kind d) k) l.
Proof. induction l as [|e l IH]; simpl; [reflexivity|]. rewrite IH. reflexivity. Qed.

Lemma dkind_eqb_eq a b : dkind_eqb a b = true <-> a = b.
Proof. destruct a, b; simpl; split; intros H; try reflexivity; try discriminate. Qed.

Lemma typed_iter_in k l d : In d (typed_iter k l) <-> In d l /\ d_kind d = k.
Proof. rewrite typed_iter_filter, filter_In, dkind_eqb_eq. reflexivity. Qed.

(* order preservation: the rows are a subsequence of the ledger *)
Inductive subseq {A} : list A -> list A -> Prop :=
| sub_nil : subseq [] []
| sub_take x a b : subseq a b -> subseq (x :: a) (x :: b)
| sub_skip x a b : subseq a b -> subseq a (x :: b).

Lemma typed_iter_subseq k l : subseq (typed_iter k l) l.
Proof.
  induction l as [|e l IH]; simpl; [constructor|].
  destruct (dkind_eqb (d_kind e) k); constructor; exact IH.
Qed.

Lemma typed_iter_all k l : Forall (fun d => d_kind d = k) l -> typed_iter k l = l.
Proof.
  induction l as [|e l IH]; intros H; simpl; [reflexivity|].
  inversion H; subst. rewrite (proj2 (dkind_eqb_eq _ _) eq_refl). rewrite IH by assumption. reflexivity.
Qed.

(* a typed accessor never raises AttributeError on a row of its own table *)
Definition no_attr_error (c : cell) : Prop := c <> NOATTR.

Lemma typed_columns_defined :
  (forall d, d_kind d = KTransaction -> Forall (fun c => no_attr_error (snd c d)) transactions_columns) /\
  (forall d, d_kind d = KPrice -> Forall (fun c => no_attr_error (snd c d)) prices_columns) /\
  (forall d, d_kind d = KBalance -> Forall (fun c => no_attr_error (snd c d)) balances_columns) /\
  (forall d, d_kind d = KNote -> Forall (fun c => no_attr_error (snd c d)) notes_columns) /\
  (forall d, d_kind d = KEvent -> Forall (fun c => no_attr_error (snd c d)) events_columns) /\
  (forall d, d_kind d = KDocument -> Forall (fun c => no_attr_error (snd c d)) documents_columns) /\
  (forall d, d_kind d = KCommodity -> Forall (fun c => no_attr_error (snd c d)) commodities_columns).
Proof.
  unfold no_attr_error, NOATTR.
  repeat split; intros d H; destruct d; simpl in H; try discriminate;
    repeat constructor; simpl;
    repeat match goal with
           | |- context [opt_cell _ ?o] => destruct o; simpl
           | |- context [oset ?o] => destruct o; simpl
           end; discriminate.
Qed.

(* ---------- column projections ---------- *)
(* number / currency are the units of the position, the cost_* columns its cost *)
Lemma position_columns r u c : pcol_position r = CPosition u c ->
  pcol_number r = CDec (a_num u) /\ pcol_currency r = CStr (a_cur u) /\
  pcol_cost_number r = opt_cell (fun x => CDec (c_num x)) c /\
  pcol_cost_currency r = opt_cell (fun x => CStr (c_cur x)) c /\
  pcol_cost_date r = opt_cell (fun x => opt_cell CDate (c_date x)) c /\
  pcol_cost_label r = match c with None => CStr [] | Some x => opt_cell CStr (c_label x) end.
Proof.
  unfold pcol_position. intros H. inversion H; subst. repeat split.
Qed.

Lemma weight_cases p :
  weight_of p = match p_cost p, p_price p with
                | Some c, _ => mkamount (dec_mul (c_num c) (a_num (p_units p))) (c_cur c)
                | None, Some pr => mkamount (dec_mul (a_num pr) (a_num (p_units p))) (a_cur pr)
                | None, None => p_units p
                end.
Proof. unfold weight_of. destruct (p_cost p), (p_price p); reflexivity. Qed.

(* date parts of a row are those of the row's date *)
Lemma date_parts_entries r o : ecol_date r = CDate o ->
  ecol_year r = CInt (year_of o) /\ ecol_month r = CInt (month_of o) /\ ecol_day r = CInt (day_of o).
Proof. unfold ecol_date. intros H. inversion H; subst. repeat split. Qed.

(* columns the postings table inherits from the entries table read the posting's transaction;
   the redefined ones agree with the entries-table columns on that transaction *)
Lemma postings_entry_columns l r : In r (postings_iter l) ->
  pcol_flag r = ecol_flag (as_erow r) /\ pcol_payee r = ecol_payee (as_erow r) /\
  pcol_narration r = ecol_narration (as_erow r) /\ pcol_description r = ecol_description (as_erow r) /\
  pcol_tags r = ecol_tags (as_erow r) /\ pcol_links r = ecol_links (as_erow r) /\
  pcol_entry r = CDirective (pr_entry r) /\ is_transaction (pr_entry r) = true.
Proof.
  intros H. apply postings_row_wf in H. destruct H as [_ [H _]].
  unfold ecol_flag, ecol_payee, ecol_narration, ecol_description, ecol_tags, ecol_links, txn_only, as_erow.
  simpl. rewrite H. repeat split.
Qed.

(* entries table: transaction-only columns are NULL on every other directive *)
Lemma entries_non_transaction r : is_transaction (er_entry r) = false ->
  ecol_flag r = CNull /\ ecol_payee r = CNull /\ ecol_narration r = CNull /\ ecol_description r = CNull /\
  ecol_tags r = CNull /\ ecol_links r = CNull.
Proof.
  intros H. unfold ecol_flag, ecol_payee, ecol_narration, ecol_description, ecol_tags, ecol_links, txn_only.
  rewrite H. repeat split.
Qed.

Lemma kind_name_injective a b : kind_name a = kind_name b -> a = b.
Proof. destruct a, b; intros H; try reflexivity; vm_compute in H; discriminate. Qed.

(* description: payee and narration joined with " | ", leaving out a missing or empty one *)
Lemma description_cases p n :
  description_of p n =
  match truthy p, truthy n with
  | [a], [b] => a ++ s2z " | " ++ b
  | [a], _ => a
  | _, [b] => b
  | _, _ => []
  end.
Proof.
  unfold description_of.
  destruct p as [[|c s]|], n as [[|c' s']|]; simpl; try reflexivity.
Qed.

(* ---------- other_accounts ---------- *)
Lemma others_in {A} : forall (l : list A) j x,
  In x (others l j) <-> exists i, i <> j /\ nth_error l i = Some x.
Proof.
  induction l as [|y l IH]; intros j x; simpl.
  - split; [contradiction|]. intros [i [_ H]]. destruct i; discriminate.
  - destruct j as [|j].
    + split.
      * intros H. apply In_nth_error in H. destruct H as [i H]. exists (S i). split; [lia|exact H].
      * intros [i [Hi H]]. destruct i as [|i]; [contradiction|]. simpl in H. eapply nth_error_In; exact H.
    + simpl. rewrite IH. split.
      * intros [<-|[i [Hi H]]]; [exists 0%nat; split; [lia|reflexivity]|exists (S i); split; [lia|exact H]].
      * intros [i [Hi H]]. destruct i as [|i]; [left; simpl in H; congruence|right; exists i; split; [lia|exact H]].
Qed.

Lemma mem_str_in x l : mem_str x l = true <-> In x l.
Proof.
  induction l as [|y l IH]; simpl; [split; [discriminate|contradiction]|].
  rewrite orb_true_iff, IH, str_eqb_eq. reflexivity.
Qed.

Lemma dedup_in x l : In x (dedup l) <-> In x l.
Proof.
  induction l as [|y l IH]; simpl; [reflexivity|].
  destruct (mem_str y l) eqn:E.
  - rewrite IH. split; [auto|]. intros [<-|H]; [apply mem_str_in; exact E|exact H].
  - simpl. rewrite IH. reflexivity.
Qed.

Lemma dedup_nodup l : NoDup (dedup l).
Proof.
  induction l as [|y l IH]; simpl; [constructor|].
  destruct (mem_str y l) eqn:E; [exact IH|].
  constructor; [|exact IH]. rewrite dedup_in. intros H. apply mem_str_in in H. congruence.
Qed.

Lemma list_le_total : total list_le.
Proof.
  intros a. induction a as [|x a IH]; intros b; destruct b as [|y b]; simpl; auto.
  destruct (x <? y) eqn:E1; [auto|]. destruct (y <? x) eqn:E2; [auto|]. apply IH.
Qed.

Lemma list_le_trans : trans list_le.
Proof.
  intros a. induction a as [|x a IH]; intros b c; destruct b as [|y b]; destruct c as [|z c]; simpl; auto;
    try discriminate.
  destruct (x <? y) eqn:E1.
  - intros _. destruct (y <? z) eqn:E2.
    + intros _. assert (x <? z = true) as -> by lia. reflexivity.
    + destruct (z <? y) eqn:E3; [discriminate|]. intros _.
      assert (x <? z = true) as -> by lia. reflexivity.
  - destruct (y <? x) eqn:E2; [discriminate|]. intros H1.
    assert (x = y) by lia. subst y.
    destruct (x <? z) eqn:E3; [reflexivity|]. destruct (z <? x) eqn:E4; [discriminate|].
    apply IH. exact H1.
Qed.

Lemma sorted_set_in x l : In x (sorted_set l) <-> In x (l).
Proof.
  unfold sorted_set. split; intros H.
  - apply dedup_in. eapply Permutation_in; [apply Permutation_sym, isort_perm|exact H].
  - eapply Permutation_in; [apply isort_perm|]. apply dedup_in. exact H.
Qed.

Lemma sorted_set_nodup l : NoDup (sorted_set l).
Proof. unfold sorted_set. eapply Permutation_NoDup; [apply isort_perm|apply dedup_nodup]. Qed.

Lemma sorted_set_sorted l : sorted list_le (sorted_set l).
Proof. unfold sorted_set. apply isort_sorted; [apply list_le_total|apply list_le_trans]. Qed.

(* other_accounts: sorted, duplicate-free, and exactly the accounts of the postings of the same
   transaction at the other positions *)
Lemma other_accounts_spec r :
  exists accts, pcol_other_accounts r = CStrList accts /\ sorted list_le accts /\ NoDup accts /\
    forall a, In a accts <->
      exists i p, i <> pr_index r /\ nth_error (d_postings (pr_entry r)) i = Some p /\ p_account p = a.
Proof.
  exists (sorted_set (sibling_accounts r)). split; [reflexivity|]. split; [apply sorted_set_sorted|].
  split; [apply sorted_set_nodup|]. intros a. rewrite sorted_set_in. unfold sibling_accounts.
  rewrite in_map_iff. split.
  - intros [p [Hp Hin]]. apply others_in in Hin. destruct Hin as [i [Hi Hn]]. exists i, p. auto.
  - intros [i [p [Hi [Hn Hp]]]]. exists p. split; [exact Hp|]. apply others_in. exists i. auto.
Qed.

(* ---------- metadata lookups ---------- *)
Lemma meta_get_missing m k : dict_get m k = None -> meta_get m k = CNull.
Proof. unfold meta_get. intros ->. reflexivity. Qed.
Lemma meta_get_present m k v : dict_get m k = Some v -> meta_get m k = cell_of_mvalue v.
Proof. unfold meta_get. intros ->. reflexivity. Qed.

Lemma dict_get_in {V} (m : list (str * V)) k v : dict_get m k = Some v -> In (k, v) m.
Proof.
  induction m as [|[k' v'] m IH]; simpl; [discriminate|].
  destruct (str_eqb k' k) eqn:E.
  - intros H. inversion H; subst. apply str_eqb_eq in E. subst. left. reflexivity.
  - intros H. right. apply IH. exact H.
Qed.
Lemma dict_get_none {V} (m : list (str * V)) k : dict_get m k = None <-> ~ In k (map fst m).
Proof.
  induction m as [|[k' v'] m IH]; simpl; [split; auto|].
  destruct (str_eqb k' k) eqn:E.
  - apply str_eqb_eq in E. subst. split; [discriminate|]. intros H. exfalso. apply H. left. reflexivity.
  - apply str_eqb_neq in E. rewrite IH. split; intros H; [intros [H1|H1]; [contradiction|auto]|auto].
Qed.

Lemma meta_laws r k :
  (* posting without metadata: meta and any_meta are NULL, whatever the transaction holds *)
  (p_meta (pr_posting r) = None -> f_meta r k = CNull /\ f_any_meta r k = CNull) /\
  (forall m, p_meta (pr_posting r) = Some m ->
     f_meta r k = meta_get m k /\
     (* any_meta: the posting's value when the posting has the key, else the transaction's *)
     (forall v, dict_get m k = Some v -> f_any_meta r k = cell_of_mvalue v) /\
     (dict_get m k = None -> f_any_meta r k = f_entry_meta r k)) /\
  f_entry_meta r k = meta_get (d_meta (pr_entry r)) k.
Proof.
  unfold f_meta, f_any_meta, f_entry_meta. repeat split.
  - rewrite H. reflexivity.
  - rewrite H. reflexivity.
  - rewrite H. reflexivity.
  - intros v Hv. rewrite H, Hv. reflexivity.
  - intros Hn. rewrite H, Hn. reflexivity.
Qed.

(* ---------- accounts table ---------- *)
Definition is_oc (e : directive) : bool := dkind_eqb (d_kind e) KOpen || dkind_eqb (d_kind e) KClose.

(* invariant of the fold: names distinct; the open (close) slot holds an Open (Close) directive of that
   account taken from the processed prefix, of minimal date among them *)
Definition slot_ok (k : dkind) (seen : list directive) (a : str) (s : option directive) : Prop :=
  match s with
  | None => forall e, In e seen -> d_kind e = k -> d_account e <> a
  | Some d => In d seen /\ d_kind d = k /\ d_account d = a /\
              forall e, In e seen -> d_kind e = k -> d_account e = a -> d_date d <= d_date e
  end.
Definition acc_inv (seen : list directive) (m : list arow) : Prop :=
  NoDup (map ar_account m) /\
  (forall r, In r m -> slot_ok KOpen seen (ar_account r) (ar_open r) /\ slot_ok KClose seen (ar_account r) (ar_close r)) /\
  (forall a, In a (map ar_account m) <-> exists e, In e seen /\ is_oc e = true /\ d_account e = a).

Lemma slot_ok_weaken k seen a s e :
  slot_ok k seen a s -> (d_kind e <> k \/ d_account e <> a) -> slot_ok k (seen ++ [e]) a s.
Proof.
  intros H Hne. destruct s as [d|]; simpl in *.
  - destruct H as [H1 [H2 [H3 H4]]]. repeat split; auto.
    + apply in_or_app. left. exact H1.
    + intros e' Hin Hk Ha. apply in_app_or in Hin. destruct Hin as [Hin|[<-|[]]]; [auto|].
      destruct Hne; contradiction.
  - intros e' Hin Hk. apply in_app_or in Hin. destruct Hin as [Hin|[<-|[]]]; [auto|].
    destruct Hne as [Hne|Hne]; [contradiction|exact Hne].
Qed.

Lemma slot_ok_pick k seen a s e :
  slot_ok k seen a s -> d_kind e = k -> d_account e = a -> slot_ok k (seen ++ [e]) a (Some (pick s e)).
Proof.
  intros H Hk Ha. destruct s as [d|]; simpl in *.
  - destruct H as [H1 [H2 [H3 H4]]]. destruct (d_date d <=? d_date e) eqn:E.
    + repeat split; auto; [apply in_or_app; left; exact H1|].
      intros e' Hin Hk' Ha'. apply in_app_or in Hin. destruct Hin as [Hin|[<-|[]]]; [auto|lia].
    + repeat split; auto; [apply in_or_app; right; left; reflexivity|].
      intros e' Hin Hk' Ha'. apply in_app_or in Hin. destruct Hin as [Hin|[<-|[]]]; [|lia].
      specialize (H4 e' Hin Hk' Ha'). lia.
  - repeat split; auto; [apply in_or_app; right; left; reflexivity|].
    intros e' Hin Hk' Ha'. apply in_app_or in Hin. destruct Hin as [Hin|[<-|[]]]; [|lia].
    exfalso. apply (H e' Hin Hk'). exact Ha'.
Qed.

Lemma oc_update_names m a b e :
  map ar_account (oc_update m a b e) = if mem_str a (map ar_account m) then map ar_account m
                                       else map ar_account m ++ [a].
Proof.
  induction m as [|r m IH]; simpl; [destruct b; reflexivity|].
  destruct (str_eqb (ar_account r) a) eqn:E; simpl.
  - destruct b; reflexivity.
  - rewrite IH. destruct (mem_str a (map ar_account m)); reflexivity.
Qed.

Lemma nodup_snoc {A} (l : list A) a : NoDup l -> ~ In a l -> NoDup (l ++ [a]).
Proof.
  induction l as [|x l IH]; intros H Hn; simpl; [constructor; [auto|constructor]|].
  inversion H; subst. constructor.
  - rewrite in_app_iff. simpl. intros [H1|[H1|[]]]; [contradiction|]. subst. apply Hn. left. reflexivity.
  - apply IH; [assumption|]. intros H1. apply Hn. right. exact H1.
Qed.

Definition upd_row (b : bool) (e : directive) (r : arow) : arow :=
  if b then mkarow (ar_account r) (Some (pick (ar_open r) e)) (ar_close r)
  else mkarow (ar_account r) (ar_open r) (Some (pick (ar_close r) e)).
Definition new_row (b : bool) (a : str) (e : directive) : arow :=
  if b then mkarow a (Some e) None else mkarow a None (Some e).

Lemma oc_update_forall (P : arow -> Prop) : forall m a b e,
  NoDup (map ar_account m) ->
  (forall r, In r m -> ar_account r <> a -> P r) ->
  (forall r, In r m -> ar_account r = a -> P (upd_row b e r)) ->
  (~ In a (map ar_account m) -> P (new_row b a e)) ->
  forall r, In r (oc_update m a b e) -> P r.
Proof.
  induction m as [|r0 m IH]; intros a b e Hnd H1 H2 H3 r Hin; simpl in Hin.
  - destruct Hin as [<-|[]]. apply (H3 (fun x => x)).
  - inversion Hnd as [|? ? Hnotin Hnd']; subst.
    destruct (str_eqb (ar_account r0) a) eqn:E.
    + apply str_eqb_eq in E. destruct Hin as [<-|Hin].
      * apply (H2 r0); [left; reflexivity|exact E].
      * apply H1; [right; exact Hin|]. intros Ha. apply Hnotin. rewrite E, <- Ha. apply in_map. exact Hin.
    + apply str_eqb_neq in E. destruct Hin as [<-|Hin].
      * apply H1; [left; reflexivity|exact E].
      * apply (IH a b e Hnd'); auto.
        -- intros r1 Hr1. apply H1. right. exact Hr1.
        -- intros r1 Hr1. apply H2. right. exact Hr1.
        -- intros Hn. apply H3. simpl. intros [Hc|Hc]; [contradiction|auto].
Qed.

Lemma is_oc_kind e : is_oc e = true <-> d_kind e = KOpen \/ d_kind e = KClose.
Proof. unfold is_oc. rewrite orb_true_iff, !dkind_eqb_eq. reflexivity. Qed.

Lemma acc_inv_skip seen m e : is_oc e = false -> acc_inv seen m -> acc_inv (seen ++ [e]) m.
Proof.
  intros He [H1 [H2 H3]].
  assert (Hk : d_kind e <> KOpen /\ d_kind e <> KClose).
  { split; intros Hc; assert (is_oc e = true) by (apply is_oc_kind; auto); congruence. }
  split; [exact H1|]. split.
  - intros r Hr. destruct (H2 r Hr) as [Ho Hc]. split; apply slot_ok_weaken; auto; left; tauto.
  - intros a. rewrite H3. split; intros [e' [Hin [Hoc Ha]]].
    + exists e'. split; [apply in_or_app; left; exact Hin|auto].
    + apply in_app_or in Hin. destruct Hin as [Hin|[<-|[]]]; [exists e'; auto|congruence].
Qed.

Lemma acc_inv_update seen m e (b : bool) :
  d_kind e = (if b then KOpen else KClose) ->
  acc_inv seen m -> acc_inv (seen ++ [e]) (oc_update m (d_account e) b e).
Proof.
  intros Hk [H1 [H2 H3]].
  assert (Hoc : is_oc e = true) by (apply is_oc_kind; destruct b; auto).
  split; [|split].
  - rewrite oc_update_names. destruct (mem_str (d_account e) (map ar_account m)) eqn:E; [exact H1|].
    apply nodup_snoc; [exact H1|].
    intros Hin. apply mem_str_in in Hin. congruence.
  - apply (oc_update_forall (fun r => slot_ok KOpen (seen ++ [e]) (ar_account r) (ar_open r) /\
                                      slot_ok KClose (seen ++ [e]) (ar_account r) (ar_close r))); [exact H1| | |].
    + intros r Hr Hne. destruct (H2 r Hr) as [Ho Hc]. split; apply slot_ok_weaken; auto.
    + intros r Hr Ha. destruct (H2 r Hr) as [Ho Hc]. unfold upd_row. destruct b; simpl; split.
      * apply slot_ok_pick; [exact Ho|exact Hk|symmetry; exact Ha].
      * apply slot_ok_weaken; [exact Hc|]. left. rewrite Hk. discriminate.
      * apply slot_ok_weaken; [exact Ho|]. left. rewrite Hk. discriminate.
      * apply slot_ok_pick; [exact Hc|exact Hk|symmetry; exact Ha].
    + intros Hn.
      assert (Hno : forall e', In e' seen -> is_oc e' = true -> d_account e' <> d_account e).
      { intros e' Hin Hoc' Ha. apply Hn. apply H3. exists e'. auto. }
      assert (Hsome : forall k, d_kind e = k -> slot_ok k (seen ++ [e]) (d_account e) (Some e)).
      { intros k Hke. simpl. repeat split; auto; [apply in_or_app; right; left; reflexivity|].
        intros e' Hin Hk' Ha'. apply in_app_or in Hin. destruct Hin as [Hin|[<-|[]]]; [|lia].
        exfalso. apply (Hno e' Hin); [|exact Ha']. apply is_oc_kind. rewrite Hk', <- Hke, Hk. destruct b; auto. }
      assert (Hnone : forall k, d_kind e <> k -> (k = KOpen \/ k = KClose) ->
                                slot_ok k (seen ++ [e]) (d_account e) None).
      { intros k Hke Hkk. simpl. intros e' Hin Hk'. apply in_app_or in Hin. destruct Hin as [Hin|[<-|[]]]; [|congruence].
        apply Hno; [exact Hin|]. apply is_oc_kind. rewrite Hk'. exact Hkk. }
      unfold new_row. destruct b; simpl; split.
      * apply Hsome. exact Hk.
      * apply Hnone; [rewrite Hk; discriminate|auto].
      * apply Hnone; [rewrite Hk; discriminate|auto].
      * apply Hsome. exact Hk.
  - intros a. rewrite oc_update_names.
    assert (Hiff : In a (map ar_account m) \/ a = d_account e <->
                   exists e', In e' (seen ++ [e]) /\ is_oc e' = true /\ d_account e' = a).
    { rewrite H3. split.
      - intros [[e' [Hin [Ho Ha]]]| -> ].
        + exists e'. split; [apply in_or_app; left; exact Hin|auto].
        + exists e. split; [apply in_or_app; right; left; reflexivity|auto].
      - intros [e' [Hin [Ho Ha]]]. apply in_app_or in Hin. destruct Hin as [Hin|[<-|[]]].
        + left. exists e'. auto.
        + right. auto. }
    rewrite <- Hiff. destruct (mem_str (d_account e) (map ar_account m)) eqn:E.
    + apply mem_str_in in E. split; [auto|]. intros [H| -> ]; auto.
    + rewrite in_app_iff. simpl. split; [intros [H|[<-|[]]]; auto|intros [H| -> ]; auto].
Qed.

Lemma acc_inv_step seen m e : acc_inv seen m -> acc_inv (seen ++ [e]) (oc_step m e).
Proof.
  intros H. unfold oc_step. destruct (d_kind e) eqn:K;
    try (apply acc_inv_skip; [unfold is_oc; rewrite K; reflexivity|exact H]).
  - apply (acc_inv_update seen m e true); [exact K|exact H].
  - apply (acc_inv_update seen m e false); [exact K|exact H].
Qed.

Lemma acc_inv_fold : forall l seen m, acc_inv seen m -> acc_inv (seen ++ l) (fold_left oc_step l m).
Proof.
  induction l as [|e l IH]; intros seen m H; simpl; [rewrite app_nil_r; exact H|].
  replace (seen ++ e :: l) with ((seen ++ [e]) ++ l) by (rewrite <- app_assoc; reflexivity).
  apply IH. apply acc_inv_step. exact H.
Qed.

Lemma accounts_inv l : acc_inv l (accounts_iter l).
Proof.
  apply (acc_inv_fold l [] []). split; [constructor|]. split; [intros r []|].
  intros a. simpl. split; [contradiction|]. intros [e [[] _]].
Qed.

(* one row per account named by an Open or Close directive *)
Lemma accounts_names_nodup l : NoDup (map ar_account (accounts_iter l)).
Proof. apply accounts_inv. Qed.
Lemma accounts_names l a :
  In a (map ar_account (accounts_iter l)) <-> exists e, In e l /\ is_oc e = true /\ d_account e = a.
Proof. apply accounts_inv. Qed.

(* the open column: an Open directive of the ledger for that account with the earliest date, NULL exactly
   when the account was never opened; same for close *)
Lemma accounts_slots l r : In r (accounts_iter l) ->
  slot_ok KOpen l (ar_account r) (ar_open r) /\ slot_ok KClose l (ar_account r) (ar_close r).
Proof. intros H. destruct (accounts_inv l) as [_ [H2 _]]. apply H2. exact H. Qed.

(* rows come in order of first appearance of the account name *)
Definition add_new (names : list str) (a : str) : list str := if mem_str a names then names else names ++ [a].
Lemma accounts_order_fold : forall l m,
  map ar_account (fold_left oc_step l m) =
  fold_left add_new (map d_account (filter is_oc l)) (map ar_account m).
Proof.
  induction l as [|e l IH]; intros m; simpl; [reflexivity|].
  rewrite IH. unfold oc_step, is_oc. destruct (d_kind e) eqn:K; simpl; try reflexivity;
    rewrite oc_update_names; reflexivity.
Qed.
Lemma accounts_order l :
  map ar_account (accounts_iter l) = fold_left add_new (map d_account (filter is_oc l)) [].
Proof. apply (accounts_order_fold l []). Qed.

(* open_meta / open_date / close_date *)
Lemma find_account_spec l a r : find_account l a = Some r -> In r (accounts_iter l) /\ ar_account r = a.
Proof.
  unfold find_account. intros H. apply find_some in H. destruct H as [H1 H2]. apply str_eqb_eq in H2. auto.
Qed.
Lemma find_account_none l a : find_account l a = None -> ~ In a (map ar_account (accounts_iter l)).
Proof.
  unfold find_account. intros H Hin. apply in_map_iff in Hin. destruct Hin as [r [Ha Hr]].
  apply (find_none _ _ H) in Hr. rewrite Ha, str_eqb_refl in Hr. discriminate.
Qed.

Lemma open_of_spec l a : slot_ok KOpen l a (open_of l a).
Proof.
  unfold open_of. destruct (find_account l a) as [r|] eqn:E.
  - apply find_account_spec in E. destruct E as [H1 <-]. apply accounts_slots. exact H1.
  - simpl. intros e Hin Hk Ha. apply find_account_none in E. apply E. apply accounts_names.
    exists e. split; [exact Hin|]. split; [apply is_oc_kind; auto|exact Ha].
Qed.
Lemma close_of_spec l a : slot_ok KClose l a (close_of l a).
Proof.
  unfold close_of. destruct (find_account l a) as [r|] eqn:E.
  - apply find_account_spec in E. destruct E as [H1 <-]. apply accounts_slots. exact H1.
  - simpl. intros e Hin Hk Ha. apply find_account_none in E. apply E. apply accounts_names.
    exists e. split; [exact Hin|]. split; [apply is_oc_kind; auto|exact Ha].
Qed.

Lemma open_meta_laws l a k :
  match open_of l a with
  | None => f_open_meta l a k = CNull /\ f_open_date l a = CNull /\ f_open_meta1 l a = CNull
  | Some d => In d l /\ d_kind d = KOpen /\ d_account d = a /\
              f_open_meta l a k = meta_get (d_meta d) k /\ f_open_date l a = CDate (d_date d) /\
              f_open_meta1 l a = CMeta (d_meta d)
  end.
Proof.
  pose proof (open_of_spec l a) as H. unfold f_open_meta, f_open_date, f_open_meta1.
  destruct (open_of l a) as [d|]; simpl in *; [|auto]. destruct H as [H1 [H2 [H3 _]]]. auto 10.
Qed.

(* ---------- commodities table ---------- *)
Lemma dict_set_get m k v k' :
  dict_get (dict_set m k v) k' = if str_eqb k k' then Some v else dict_get m k'.
Proof.
  induction m as [|[k0 v0] m IH]; simpl.
  - destruct (str_eqb k k'); reflexivity.
  - destruct (str_eqb k0 k) eqn:E; simpl.
    + apply str_eqb_eq in E. subst k0. destruct (str_eqb k k'); reflexivity.
    + rewrite IH. destruct (str_eqb k0 k') eqn:E2; [|reflexivity].
      apply str_eqb_eq in E2. subst k0. destruct (str_eqb k k') eqn:E3; [|reflexivity].
      apply str_eqb_eq in E3. subst k'. rewrite str_eqb_refl in E. discriminate.
Qed.
Lemma dict_set_keys m k v : map fst (dict_set m k v) = add_new (map fst m) k.
Proof.
  unfold add_new. induction m as [|[k0 v0] m IH]; simpl; [reflexivity|].
  destruct (str_eqb k0 k) eqn:E; simpl; [reflexivity|].
  rewrite IH. destruct (mem_str k (map fst m)); reflexivity.
Qed.

Definition is_commodity_of (c : str) (e : directive) : bool :=
  dkind_eqb (d_kind e) KCommodity && str_eqb (d_currency e) c.

Lemma fold_left_snoc {A B} (f : A -> B -> A) l x a : fold_left f (l ++ [x]) a = f (fold_left f l a) x.
Proof. rewrite fold_left_app. reflexivity. Qed.

(* commodity_meta / the commodities table: the LAST Commodity directive of a currency *)
Lemma commodities_get l c : dict_get (commodities_dict l) c = find (is_commodity_of c) (rev l).
Proof.
  unfold commodities_dict. induction l as [|e l IH] using rev_ind; [reflexivity|].
  rewrite fold_left_snoc, rev_app_distr. simpl. unfold com_step at 1, is_commodity_of at 1.
  destruct (dkind_eqb (d_kind e) KCommodity) eqn:K.
  - apply dkind_eqb_eq in K. rewrite K. rewrite dict_set_get. simpl.
    destruct (str_eqb (d_currency e) c); [reflexivity|exact IH].
  - simpl. destruct (d_kind e); try exact IH. discriminate.
Qed.

Lemma commodities_order_fold : forall l m,
  map fst (fold_left com_step l m) =
  fold_left add_new (map d_currency (filter (fun e => dkind_eqb (d_kind e) KCommodity) l)) (map fst m).
Proof.
  induction l as [|e l IH]; intros m; simpl; [reflexivity|].
  rewrite IH. unfold com_step. destruct (d_kind e) eqn:K; simpl; try reflexivity.
  rewrite dict_set_keys. reflexivity.
Qed.

Lemma add_new_nodup names a : NoDup names -> NoDup (add_new names a).
Proof.
  unfold add_new. intros H. destruct (mem_str a names) eqn:E; [exact H|].
  apply nodup_snoc; [exact H|]. intros Hin. apply mem_str_in in Hin. congruence.
Qed.
Lemma fold_add_new_nodup : forall l names, NoDup names -> NoDup (fold_left add_new l names).
Proof. induction l as [|a l IH]; intros names H; simpl; [exact H|]. apply IH, add_new_nodup, H. Qed.

Lemma commodities_keys_nodup l : NoDup (map fst (commodities_dict l)).
Proof. unfold commodities_dict. rewrite commodities_order_fold. apply fold_add_new_nodup. constructor. Qed.

Lemma commodities_rows l d :
  In d (commodities_iter l) <-> exists c, find (is_commodity_of c) (rev l) = Some d.
Proof.
  unfold commodities_iter. split.
  - intros H. apply in_map_iff in H. destruct H as [[c d'] [<- Hin]]. exists c.
    rewrite <- commodities_get. simpl.
    pose proof (commodities_keys_nodup l) as Hnd. revert Hin Hnd. generalize (commodities_dict l).
    induction l0 as [|[k v] m IH]; simpl; [contradiction|].
    intros [Heq|Hin] Hnd; inversion Hnd as [|? ? Hn Hnd']; subst.
    + inversion Heq; subst. rewrite str_eqb_refl. reflexivity.
    + destruct (str_eqb k c) eqn:E; [|apply IH; assumption].
      apply str_eqb_eq in E. subst k. exfalso. apply Hn. apply (in_map fst) in Hin. exact Hin.
  - intros [c H]. rewrite <- commodities_get in H. apply dict_get_in in H.
    apply in_map_iff. exists (c, d). auto.
Qed.

Lemma commodity_meta_laws l c k :
  match find (is_commodity_of c) (rev l) with
  | None => f_commodity_meta l c k = CNull /\ f_commodity_meta1 l c = CNull
  | Some d => In d l /\ d_kind d = KCommodity /\ d_currency d = c /\
              f_commodity_meta l c k = meta_get (d_meta d) k /\ f_commodity_meta1 l c = CMeta (d_meta d)
  end.
Proof.
  unfold f_commodity_meta, f_commodity_meta1. rewrite commodities_get.
  destruct (find (is_commodity_of c) (rev l)) as [d|] eqn:E; simpl; [|auto].
  apply find_some in E. destruct E as [H1 H2]. unfold is_commodity_of in H2.
  apply andb_true_iff in H2. destruct H2 as [H2 H3]. apply dkind_eqb_eq in H2. apply str_eqb_eq in H3.
  apply in_rev in H1. auto 10.
Qed.

(* ---------- schema obligation ---------- *)
(* every (table, column, datatype) introspected from the code has its model accessor, in the same order *)
Lemma schema_covered :
  model_schema = map (fun t => (fst (fst t), snd (fst t))) (tl Model.RegistrySnapshot.tables).
Proof. vm_compute. reflexivity. Qed.

(* the same against the registry as introspected on THIS run (Gen/Registry.v is regenerated from the
   imported code before every build): a new, renamed, retyped or reordered column stops this file *)
Lemma live_schema_covered :
  model_schema = map (fun t => (fst (fst t), snd (fst t))) (tl Gen.Registry.tables).
Proof. vm_compute. reflexivity. Qed.

Definition has_accessor (t c ty : string) : bool :=
  existsb (fun tc => String.eqb (fst tc) t && existsb (fun ct => String.eqb (fst ct) c && String.eqb (snd ct) ty) (snd tc))
          model_schema.
Lemma schema_every_column :
  forallb (fun t => match t with
                    | (name, cols, _) => String.eqb name "" || forallb (fun ct => has_accessor name (fst ct) (snd ct)) cols
                    end) Model.RegistrySnapshot.tables = true.
Proof. vm_compute. reflexivity. Qed.
Lemma live_schema_every_column :
  forallb (fun t => match t with
                    | (name, cols, _) => String.eqb name "" || forallb (fun ct => has_accessor name (fst ct) (snd ct)) cols
                    end) Gen.Registry.tables = true.
Proof. vm_compute. reflexivity. Qed.
(* ---------- announced datatypes ---------- *)
(* columns whose cell kind depends on the (untyped) metadata values filename / lineno, and
   other_accounts, announced as a set but returned as a sorted list *)
Definition loose (name : string) : bool :=
  existsb (String.eqb name) ["filename"; "lineno"; "location"; "other_accounts"]%string.
Definition col_typed {R} (r : R) (c : column R) : Prop :=
  loose (fst (fst c)) = true \/ cell_has_type (snd (fst c)) (snd c r) = true.

Ltac crush_cell :=
  repeat match goal with
         | |- context [match ?x with _ => _ end] => destruct x eqn:?; simpl; try reflexivity; try discriminate
         end.

Lemma entries_cells_typed r : Forall (col_typed r) entries_columns.
Proof.
  destruct r as [k e]. unfold entries_columns, col_typed.
  repeat (constructor; [first [left; reflexivity | right; simpl;
    unfold ecol_id, ecol_type, ecol_date, ecol_year, ecol_month, ecol_day, ecol_flag, ecol_payee, ecol_narration,
      ecol_description, ecol_tags, ecol_links, ecol_meta, txn_only, opt_cell; simpl; crush_cell; reflexivity]|]).
  constructor.
Qed.

Lemma is_transaction_kind e : is_transaction e = true -> d_kind e = KTransaction.
Proof. unfold is_transaction. apply dkind_eqb_eq. Qed.

Lemma postings_cells_typed l r : In r (postings_iter l) -> Forall (col_typed r) postings_columns.
Proof.
  intros H. apply postings_row_wf in H. destruct H as [_ [Ht _]]. apply is_transaction_kind in Ht.
  destruct r as [k e j p seen]. simpl in Ht. unfold postings_columns, col_typed.
  repeat (constructor; [first [left; reflexivity | right; simpl;
    unfold via_entry, as_erow, ecol_id, ecol_type, ecol_date, ecol_year, ecol_month, ecol_day, pcol_flag, pcol_payee,
      pcol_narration, pcol_description, pcol_tags, pcol_links, pcol_meta, pcol_posting_flag, pcol_account,
      pcol_number, pcol_currency, pcol_cost_number, pcol_cost_currency, pcol_cost_date, pcol_cost_label,
      pcol_position, pcol_price, pcol_weight, pcol_balance, pcol_entry, opt_cell, is_kind; simpl;
    try rewrite Ht; crush_cell; reflexivity]|]).
  constructor.
Qed.

Lemma typed_cells_typed :
  (forall d, d_kind d = KTransaction -> Forall (col_typed d) transactions_columns) /\
  (forall d, d_kind d = KPrice -> Forall (col_typed d) prices_columns) /\
  (forall d, d_kind d = KBalance -> Forall (col_typed d) balances_columns) /\
  (forall d, d_kind d = KNote -> Forall (col_typed d) notes_columns) /\
  (forall d, d_kind d = KEvent -> Forall (col_typed d) events_columns) /\
  (forall d, d_kind d = KDocument -> Forall (col_typed d) documents_columns) /\
  (forall d, d_kind d = KCommodity -> Forall (col_typed d) commodities_columns).
Proof.
  unfold col_typed.
  repeat split; intros d H; destruct d; simpl in H; try discriminate;
    repeat (constructor; [right; simpl; unfold opt_cell, oset, opt_cell; crush_cell; reflexivity|]); constructor.
Qed.

Lemma accounts_cells_typed l r : In r (accounts_iter l) -> Forall (col_typed r) accounts_columns.
Proof.
  intros H. apply accounts_slots in H. destruct H as [Ho Hc]. destruct r as [a o c]. simpl in *.
  unfold accounts_columns, col_typed, acol_account, acol_open, acol_close. simpl.
  constructor; [right; reflexivity|]. constructor.
  - right. destruct o as [d|]; simpl; [|reflexivity]. destruct Ho as [_ [Hk _]]. unfold is_kind. rewrite Hk. reflexivity.
  - constructor; [|constructor]. right. destruct c as [d|]; simpl; [|reflexivity].
    destruct Hc as [_ [Hk _]]. unfold is_kind. rewrite Hk. reflexivity.
Qed.

Lemma commodities_cells_typed l d : In d (commodities_iter l) -> Forall (col_typed d) commodities_columns.
Proof.
  intros H. apply commodities_rows in H. destruct H as [c H]. apply find_some in H. destruct H as [_ H].
  unfold is_commodity_of in H. apply andb_true_iff in H. destruct H as [H _]. apply dkind_eqb_eq in H.
  apply typed_cells_typed. exact H.
Qed.

Lemma cells_have_announced_type l :
  (forall r, In r (entries_iter l) -> Forall (col_typed r) entries_columns) /\
  (forall r, In r (postings_iter l) -> Forall (col_typed r) postings_columns) /\
  (forall d, In d (typed_iter KTransaction l) -> Forall (col_typed d) transactions_columns) /\
  (forall d, In d (typed_iter KPrice l) -> Forall (col_typed d) prices_columns) /\
  (forall d, In d (typed_iter KBalance l) -> Forall (col_typed d) balances_columns) /\
  (forall d, In d (typed_iter KNote l) -> Forall (col_typed d) notes_columns) /\
  (forall d, In d (typed_iter KEvent l) -> Forall (col_typed d) events_columns) /\
  (forall d, In d (typed_iter KDocument l) -> Forall (col_typed d) documents_columns) /\
  (forall r, In r (accounts_iter l) -> Forall (col_typed r) accounts_columns) /\
  (forall d, In d (commodities_iter l) -> Forall (col_typed d) commodities_columns).
Proof.
  pose proof typed_cells_typed as [T1 [T2 [T3 [T4 [T5 [T6 T7]]]]]].
  split; [intros r _; apply entries_cells_typed|].
  split; [apply postings_cells_typed|].
  repeat split; try (intros d H; apply typed_iter_in in H; destruct H as [_ H]; auto).
  - apply accounts_cells_typed.
  - apply commodities_cells_typed.
Qed.
