(* C18 -- laws of the string, account, numeric and cast models (all by induction / arithmetic). *)
From Coq Require Import String ZArith List Bool Lia.
Import ListNotations.
From Verif Require Import Base.Out Base.PyValue Model.Dates Model.StrFuncs Proofs.DatesProofs.
Open Scope Z_scope.
Open Scope list_scope.

(* ================= slicing ================= *)
Lemma clamp_range n i : 0 <= n -> 0 <= clamp_idx n i <= n.
Proof. intros Hn. unfold clamp_idx. destruct (i <? 0) eqn:E; [apply Z.ltb_lt in E|apply Z.ltb_ge in E]; lia. Qed.

Lemma clamp_neg n i : - n <= i < 0 -> clamp_idx n i = clamp_idx n (i + n).
Proof.
  intros H. unfold clamp_idx.
  destruct (i <? 0) eqn:E; [|apply Z.ltb_ge in E; lia].
  destruct (i + n <? 0) eqn:E2; [apply Z.ltb_lt in E2; lia|]. lia.
Qed.

Lemma clamp_nonneg n i : 0 <= i <= n -> clamp_idx n i = i.
Proof. intros H. unfold clamp_idx. destruct (i <? 0) eqn:E; [apply Z.ltb_lt in E; lia|lia]. Qed.

(* negative indexes count from the end *)
Lemma py_slice_neg_start {A} (s : list A) i j :
  - Z.of_nat (length s) <= i < 0 -> py_slice s i j = py_slice s (i + Z.of_nat (length s)) j.
Proof. intros H. unfold py_slice. rewrite (clamp_neg _ i H). reflexivity. Qed.
Lemma py_slice_neg_stop {A} (s : list A) i j :
  - Z.of_nat (length s) <= j < 0 -> py_slice s i j = py_slice s i (j + Z.of_nat (length s)).
Proof. intros H. unfold py_slice. rewrite (clamp_neg _ j H). reflexivity. Qed.

(* in-range non-negative indexes: plain firstn / skipn *)
Lemma py_slice_nonneg {A} (s : list A) a b :
  0 <= a <= Z.of_nat (length s) -> 0 <= b <= Z.of_nat (length s) ->
  py_slice s a b = firstn (Z.to_nat (b - a)) (skipn (Z.to_nat a) s).
Proof. intros Ha Hb. unfold py_slice. rewrite !clamp_nonneg by lia. reflexivity. Qed.

Lemma py_slice_length {A} (s : list A) a b :
  let n := Z.of_nat (length s) in
  Z.of_nat (length (py_slice s a b)) = Z.max 0 (clamp_idx n b - clamp_idx n a).
Proof.
  intros n. unfold py_slice. fold n. rewrite firstn_length, skipn_length.
  pose proof (clamp_range n a ltac:(lia)). pose proof (clamp_range n b ltac:(lia)). lia.
Qed.

(* s[:k] + s[k:] == s for every integer k *)
Lemma py_slice_split {A} (s : list A) k :
  py_slice s 0 k ++ py_slice s k (Z.of_nat (length s)) = s.
Proof.
  unfold py_slice. set (n := Z.of_nat (length s)).
  pose proof (clamp_range n k ltac:(lia)) as Hk.
  rewrite (clamp_nonneg n 0) by lia. rewrite (clamp_nonneg n n) by lia.
  replace (Z.to_nat 0) with O by reflexivity. rewrite skipn_O, Z.sub_0_r.
  rewrite (firstn_all2 (skipn _ _)); [apply firstn_skipn|].
  rewrite skipn_length. lia.
Qed.

Lemma py_slice_prefix {A} (s : list A) n : 0 <= n -> py_slice s 0 n = firstn (Z.to_nat n) s.
Proof.
  intros Hn. unfold py_slice. set (l := Z.of_nat (length s)).
  rewrite (clamp_nonneg l 0) by lia. replace (Z.to_nat 0) with O by reflexivity.
  rewrite skipn_O, Z.sub_0_r. unfold clamp_idx.
  destruct (n <? 0) eqn:E; [apply Z.ltb_lt in E; lia|].
  destruct (Z.le_ge_cases n l).
  - rewrite Z.min_l by lia. reflexivity.
  - rewrite Z.min_r by lia. rewrite !firstn_all2; auto; lia.
Qed.

Lemma substr_is_slice s a b : f_substr s a b = VStr (py_slice s a b).
Proof. reflexivity. Qed.

(* ================= upper / lower ================= *)
Ltac case_c := unfold up_c, low_c;
  repeat match goal with |- context [if ?c then _ else _] => destruct c eqn:?E end;
  repeat match goal with
         | H : (_ && _) = true |- _ => apply andb_prop in H; destruct H
         | H : (_ && _) = false |- _ => apply andb_false_iff in H
         | H : (_ <=? _) = true |- _ => apply Z.leb_le in H
         | H : (_ <=? _) = false |- _ => apply Z.leb_gt in H
         end; try lia.

Lemma up_up c : up_c (up_c c) = up_c c. Proof. case_c; intuition lia. Qed.
Lemma low_low c : low_c (low_c c) = low_c c. Proof. case_c; intuition lia. Qed.
Lemma low_up c : low_c (up_c c) = low_c c. Proof. case_c; intuition lia. Qed.
Lemma up_low c : up_c (low_c c) = up_c c. Proof. case_c; intuition lia. Qed.

Lemma upper_idem s : map up_c (map up_c s) = map up_c s.
Proof. rewrite map_map. apply map_ext. apply up_up. Qed.
Lemma lower_idem s : map low_c (map low_c s) = map low_c s.
Proof. rewrite map_map. apply map_ext. apply low_low. Qed.
Lemma lower_upper s : map low_c (map up_c s) = map low_c s.
Proof. rewrite map_map. apply map_ext. apply low_up. Qed.
Lemma upper_lower s : map up_c (map low_c s) = map up_c s.
Proof. rewrite map_map. apply map_ext. apply up_low. Qed.

(* ================= split / join ================= *)
Lemma split_go_nonempty sep : forall s k cur, split_go sep s k cur <> [].
Proof.
  induction s; intros k cur; simpl; [discriminate|].
  destruct k; [|apply IHs]. destruct (prefix_of sep (a :: s)); [discriminate|apply IHs].
Qed.

Lemma join_cons sep x l : l <> [] -> join sep (x :: l) = x ++ sep ++ join sep l.
Proof. destruct l; [congruence|reflexivity]. Qed.

Lemma prefix_of_app : forall p s, prefix_of p s = true -> s = p ++ skipn (length p) s.
Proof.
  induction p; intros s H; simpl in *; [reflexivity|].
  destruct s; [discriminate|]. apply andb_prop in H. destruct H as [H1 H2].
  apply Z.eqb_eq in H1. subst. f_equal. apply IHp. exact H2.
Qed.

Lemma join_split_go sep : sep <> [] -> forall s k cur,
  join sep (split_go sep s k cur) = rev cur ++ skipn k s.
Proof.
  intros Hsep. induction s; intros k cur.
  - simpl. destruct k; simpl; rewrite app_nil_r; reflexivity.
  - destruct k.
    + cbn [split_go]. destruct (prefix_of sep (a :: s)) eqn:E.
      * rewrite join_cons by apply split_go_nonempty. rewrite IHs.
        apply prefix_of_app in E. cbn [rev app skipn]. f_equal.
        destruct sep as [|c sep']; [congruence|]. cbn [length] in *. rewrite Nat.sub_succ, Nat.sub_0_r.
        rewrite E at 1. cbn [skipn]. reflexivity.
      * rewrite IHs. simpl. rewrite <- app_assoc. reflexivity.
    + cbn [split_go]. rewrite IHs. reflexivity.
Qed.

(* sep.join(s.split(sep)) == s *)
Lemma join_split sep s : sep <> [] -> join sep (split sep s) = s.
Proof. intros H. unfold split. rewrite join_split_go by exact H. reflexivity. Qed.

Lemma join_snoc sep : forall l x, l <> [] -> join sep (l ++ [x]) = join sep l ++ sep ++ x.
Proof.
  induction l; intros x H; [congruence|].
  destruct l as [|b l'].
  - reflexivity.
  - change ((a :: b :: l') ++ [x]) with (a :: ((b :: l') ++ [x])).
    rewrite join_cons by (destruct l'; discriminate).
    rewrite IHl by discriminate. rewrite (join_cons sep a (b :: l')) by discriminate.
    rewrite <- !app_assoc. reflexivity.
Qed.

(* ================= accounts ================= *)
Lemma acc_split_nonempty a : acc_split a <> [].
Proof. apply split_go_nonempty. Qed.

Lemma acc_join_split a : acc_join (acc_split a) = a.
Proof. apply join_split. discriminate. Qed.

(* parent(a) + ':' + leaf(a) == a for an account with at least two components;
   an account of one component has parent '' and leaf a *)
Lemma parent_leaf a : a <> [] ->
  exists p l, f_parent a = VStr p /\ f_leaf a = VStr l /\
    (removelast (acc_split a) <> [] -> p ++ [58] ++ l = a) /\
    (removelast (acc_split a) = [] -> p = [] /\ l = a).
Proof.
  intros Ha. destruct a as [|c a']; [congruence|].
  exists (acc_join (removelast (acc_split (c :: a')))), (last (acc_split (c :: a')) []).
  split; [reflexivity|]. split; [reflexivity|]. split.
  - intros H. rewrite <- (acc_join_split (c :: a')) at 3.
    rewrite (app_removelast_last [] (acc_split_nonempty (c :: a'))) at 3.
    unfold acc_join. rewrite join_snoc by exact H. reflexivity.
  - intros H. rewrite H. split; [reflexivity|].
    pose proof (app_removelast_last [] (acc_split_nonempty (c :: a'))) as E.
    rewrite H in E. simpl in E. rewrite <- (acc_join_split (c :: a')) at 2. rewrite E. reflexivity.
Qed.

(* root(a, n) joins the first n components; with n >= the number of components it is a *)
Lemma root_prefix a n : 0 <= n -> f_root a n = VStr (acc_join (firstn (Z.to_nat n) (acc_split a))).
Proof. intros H. unfold f_root. rewrite py_slice_prefix by exact H. reflexivity. Qed.

Lemma root_all a n : Z.of_nat (length (acc_split a)) <= n -> f_root a n = VStr a.
Proof.
  intros H. rewrite root_prefix by lia. rewrite firstn_all2 by lia. rewrite acc_join_split. reflexivity.
Qed.

Lemma root_components a n : 0 <= n ->
  exists r, f_root a n = VStr r /\
            (n <= Z.of_nat (length (acc_split a)) ->
             exists comps, length comps = Z.to_nat n /\ r = acc_join comps /\
                           exists rest, acc_split a = comps ++ rest).
Proof.
  intros H. eexists. split; [apply root_prefix; exact H|].
  intros Hn. exists (firstn (Z.to_nat n) (acc_split a)). split; [rewrite firstn_length; lia|].
  split; [reflexivity|]. exists (skipn (Z.to_nat n) (acc_split a)). symmetry. apply firstn_skipn.
Qed.

(* account_sortkey: '<index>-<name>' compares like (index, name) *)
Lemma str_lt_key i j a b :
  str_lt (i :: 45 :: a) (j :: 45 :: b) = (i <? j) || ((i =? j) && str_lt a b).
Proof.
  unfold str_lt. simpl.
  destruct (Z.ltb_spec j i), (Z.ltb_spec i j), (Z.eqb_spec i j); try lia; simpl; auto.
Qed.

Lemma index_of_bound x : forall l k i, index_of x l k = Some i -> k <= i < k + Z.of_nat (length l).
Proof.
  induction l; intros k i H; simpl in H; [discriminate|].
  destruct (zeqb x a); [inversion H; subst; simpl length; lia|].
  apply IHl in H. simpl length. lia.
Qed.

Lemma str_of_digit i : 0 <= i <= 9 -> str_of_int i = [48 + i].
Proof.
  intros H. assert (E : i = 0 \/ i = 1 \/ i = 2 \/ i = 3 \/ i = 4 \/ i = 5 \/ i = 6 \/ i = 7 \/ i = 8 \/ i = 9) by lia.
  repeat (destruct E as [E|E]; [subst; reflexivity|]). subst. reflexivity.
Qed.

Lemma sortkey_form types a : length types = 5%nat ->
  (exists i, 0 <= i <= 4 /\ index_of (acc_type a) types 0 = Some i /\
             f_account_sortkey types a = VStr ((48 + i) :: 45 :: a))
  \/ (index_of (acc_type a) types 0 = None /\ f_account_sortkey types a = VErr 1).
Proof.
  intros Hl. unfold f_account_sortkey. destruct (index_of (acc_type a) types 0) as [i|] eqn:E.
  - left. exists i. apply index_of_bound in E. rewrite Hl in E.
    split; [lia|]. split; [reflexivity|]. rewrite str_of_digit by lia. reflexivity.
  - right. auto.
Qed.

Lemma sortkey_order types a b ia ib : length types = 5%nat ->
  index_of (acc_type a) types 0 = Some ia -> index_of (acc_type b) types 0 = Some ib ->
  exists ka kb, f_account_sortkey types a = VStr ka /\ f_account_sortkey types b = VStr kb /\
                str_lt ka kb = (ia <? ib) || ((ia =? ib) && str_lt a b).
Proof.
  intros Hl Ha Hb. exists ((48 + ia) :: 45 :: a), ((48 + ib) :: 45 :: b).
  pose proof (index_of_bound _ _ _ _ Ha) as Ba. pose proof (index_of_bound _ _ _ _ Hb) as Bb.
  rewrite Hl in *.
  split; [unfold f_account_sortkey; rewrite Ha, str_of_digit by lia; reflexivity|].
  split; [unfold f_account_sortkey; rewrite Hb, str_of_digit by lia; reflexivity|].
  rewrite str_lt_key.
  assert (E1 : (48 + ia <? 48 + ib) = (ia <? ib)) by (apply eq_true_iff_eq; rewrite !Z.ltb_lt; lia).
  assert (E2 : (48 + ia =? 48 + ib) = (ia =? ib)) by (apply eq_true_iff_eq; rewrite !Z.eqb_eq; lia).
  rewrite E1, E2. reflexivity.
Qed.

(* ================= decimals ================= *)
Lemma dec_fix_small d : ndigits (dcoef d) <= PREC -> dec_fix d = d.
Proof. intros H. unfold dec_fix. apply Z.leb_le in H. rewrite H. reflexivity. Qed.

Lemma dec_neg_spec d : ndigits (dcoef d) <= PREC ->
  dexp (dec_neg d) = dexp d /\ dec_signed (dec_neg d) = - dec_signed d /\ dcoef (dec_neg d) = dcoef d.
Proof.
  intros H. unfold dec_neg, dec_is_zero. destruct (dcoef d =? 0) eqn:E.
  - apply Z.eqb_eq in E. rewrite dec_fix_small by (simpl; vm_compute; discriminate).
    unfold dec_signed. simpl. rewrite E. destruct (dneg d); auto.
  - rewrite dec_fix_small by exact H. unfold dec_signed. simpl. destruct (dneg d); simpl; repeat split; lia.
Qed.

Lemma dec_abs_spec d : ndigits (dcoef d) <= PREC -> 0 <= dcoef d ->
  dexp (dec_abs d) = dexp d /\ dec_signed (dec_abs d) = Z.abs (dec_signed d) /\ dneg (dec_abs d) = false.
Proof.
  intros H H0. unfold dec_abs. rewrite dec_fix_small by exact H. unfold dec_signed. simpl.
  destruct (dneg d); repeat split; lia.
Qed.

Lemma dec_abs_idem d : ndigits (dcoef d) <= PREC -> dec_abs (dec_abs d) = dec_abs d.
Proof. intros H. unfold dec_abs. rewrite (dec_fix_small (mkdec false (dcoef d) (dexp d))) by exact H. simpl. rewrite dec_fix_small by exact H. reflexivity. Qed.

Lemma dec_neg_involutive d : ndigits (dcoef d) <= PREC -> dcoef d <> 0 -> dec_neg (dec_neg d) = d.
Proof.
  intros H Hz. unfold dec_neg, dec_is_zero. apply Z.eqb_neq in Hz. rewrite Hz.
  rewrite (dec_fix_small (mkdec _ _ _)) by exact H. simpl. rewrite Hz.
  rewrite dec_fix_small by exact H. rewrite negb_involutive. destruct d; reflexivity.
Qed.

(* possign *)
Lemma possign_cases types x a :
  f_possign types x a =
  VDec (if zeqb (acc_type a) (nth 0 types []) || zeqb (acc_type a) (nth 4 types []) then x else dec_neg x).
Proof.
  unfold f_possign, account_sign.
  destruct (zeqb (acc_type a) (nth 0 types []) || zeqb (acc_type a) (nth 4 types [])); reflexivity.
Qed.

Lemma possign_debit types x a : acc_type a = nth 0 types [] \/ acc_type a = nth 4 types [] ->
  f_possign types x a = VDec x.
Proof.
  intros H. rewrite possign_cases. destruct H as [H|H]; rewrite H, zeqb_refl; [reflexivity|].
  rewrite orb_true_r. reflexivity.
Qed.

Lemma possign_credit types x a :
  zeqb (acc_type a) (nth 0 types []) = false -> zeqb (acc_type a) (nth 4 types []) = false ->
  f_possign types x a = VDec (dec_neg x).
Proof. intros H0 H4. rewrite possign_cases, H0, H4. reflexivity. Qed.

(* rounding *)
Lemma div_half_even_spec c p : 0 < p ->
  2 * Z.abs (c - div_half_even c p * p) <= p /\
  (2 * (c mod p) = p -> Z.even (div_half_even c p) = true).
Proof.
  intros Hp. unfold div_half_even.
  pose proof (Z.div_mod c p ltac:(lia)) as E. pose proof (Z.mod_pos_bound c p Hp) as B.
  set (q := c / p) in *. set (r := c mod p) in *.
  destruct ((p <? 2 * r) || ((2 * r =? p) && Z.odd q)) eqn:C.
  - assert (p <= 2 * r).
    { apply orb_prop in C. destruct C as [C|C]; [apply Z.ltb_lt in C; lia|].
      apply andb_prop in C. destruct C as [C _]. apply Z.eqb_eq in C. lia. }
    split; [lia|]. intros T. apply orb_prop in C. destruct C as [C|C]; [apply Z.ltb_lt in C; lia|].
    apply andb_prop in C. destruct C as [_ C]. replace (q + 1) with (Z.succ q) by lia.
    rewrite Z.even_succ. exact C.
  - apply orb_false_iff in C. destruct C as [C1 C2]. apply Z.ltb_ge in C1.
    split; [lia|]. intros T. apply andb_false_iff in C2. destruct C2 as [C2|C2].
    + apply Z.eqb_neq in C2. lia.
    + rewrite <- Z.negb_odd. rewrite C2. reflexivity.
Qed.

Lemma round_int_nonneg z n : 0 <= n -> f_round_int z n = VInt z.
Proof. intros H. unfold f_round_int. apply Z.leb_le in H. rewrite H. reflexivity. Qed.

Lemma round_int_neg z n : n < 0 ->
  exists r, f_round_int z n = VInt r /\ (10 ^ (- n) | r) /\ 2 * Z.abs (z - r) <= 10 ^ (- n).
Proof.
  intros H. unfold f_round_int. destruct (0 <=? n) eqn:E; [apply Z.leb_le in E; lia|].
  eexists. split; [reflexivity|]. split; [apply Z.divide_factor_r|].
  apply div_half_even_spec. apply Z.pow_pos_nonneg; lia.
Qed.

Lemma round_dec_spec d n r : f_round_dec d n = VDec r ->
  dexp r = - n /\ dneg r = dneg d /\
  (- n <= dexp d -> dcoef r = dcoef d * 10 ^ (dexp d + n)) /\
  (dexp d < - n -> 2 * Z.abs (dcoef d - dcoef r * 10 ^ (- n - dexp d)) <= 10 ^ (- n - dexp d)).
Proof.
  unfold f_round_dec, dec_quantize. destruct (- n <=? dexp d) eqn:E.
  - destruct (PREC <? _); intros H; inversion H; subst; simpl. apply Z.leb_le in E.
    repeat split; auto; try lia. intros _. f_equal. f_equal. lia.
  - destruct (PREC <? _); intros H; inversion H; subst; simpl. apply Z.leb_gt in E.
    repeat split; auto; try lia. intros _. apply div_half_even_spec. apply Z.pow_pos_nonneg; lia.
Qed.

Lemma safediv_zero x y : dcoef y = 0 -> f_safediv x y = VDec (mkdec false 0 0).
Proof. intros H. unfold f_safediv, dec_is_zero. rewrite H. reflexivity. Qed.
Lemma safediv_int_zero x : f_safediv_int x 0 = VDec (mkdec false 0 0).
Proof. reflexivity. Qed.
Lemma safediv_nonzero x y : dcoef y <> 0 -> f_safediv x y = VDec (dec_div x y).
Proof. intros H. unfold f_safediv, dec_is_zero. apply Z.eqb_neq in H. rewrite H. reflexivity. Qed.

(* ================= casts are total ================= *)
Ltac break_match :=
  repeat match goal with
         | |- context [match ?x with _ => _ end] => destruct x eqn:?
         end.

Lemma parse_decimal_dec s v : parse_decimal s = Some v -> is_dec_x v = true.
Proof.
  unfold parse_decimal. break_match; intros H; inversion H; reflexivity.
Qed.

Lemma parse_date_date_or_null s : (exists o, parse_date s = VDate o) \/ parse_date s = VNull.
Proof. unfold parse_date. break_match; eauto. Qed.

Definition ok (p : xval -> bool) (x : xval) : bool := p x || is_null x.

Lemma casts_total x : no_err x = true ->
  ok is_bool_x (cast_bool x) = true /\ ok is_int_x (cast_int x) = true /\
  ok is_dec_x (cast_decimal x) = true /\ ok is_str_x (cast_str x) = true /\
  ok is_date_x (cast_date x) = true.
Proof.
  intros H. destruct x as [v|n k].
  - destruct v; try discriminate; repeat split; try reflexivity.
    + unfold cast_int, cast_int_gen. destruct (parse_int s); reflexivity.
    + unfold cast_decimal. destruct (parse_decimal s) eqn:E; [|reflexivity].
      apply parse_decimal_dec in E. unfold ok. rewrite E. reflexivity.
    + unfold cast_date. destruct (parse_date_date_or_null s) as [[o E]|E]; rewrite E; reflexivity.
  - repeat split; try reflexivity.
    unfold cast_int, cast_int_gen. destruct k as [|p|p]; try reflexivity. destruct p; reflexivity.
Qed.

Lemma cast_date3_total y m d :
  (exists o, cast_date3 y m d = VDate o) \/ cast_date3 y m d = VNull.
Proof. unfold cast_date3, cast_date3_gen. break_match; eauto. Qed.

(* the code before the repairs raised instead *)
Lemma cast_int_old_refuted : exists x, no_err x = true /\ cast_int_gen false x = XV (VErr 2).
Proof. exists (XSpec false 1). split; reflexivity. Qed.
Lemma cast_date3_old_refuted : exists y m d, cast_date3_gen false y m d = VErr 2.
Proof. exists 2147483648, 1, 1. reflexivity. Qed.
