(* C06 proofs, lexer: every text of a token list lexes back to the token list.

   text = g0 ++ s1 ++ g1 ++ ... ++ sn ++ gn  with si a spelling of token i and gi separators
   (Model/Spelling.v); gi may be empty only where [needs_space ti ti+1 = false]. *)
From Coq Require Import ZArith NArith List Bool Arith Lia ZifyBool.
Import ListNotations.
From Verif Require Import Model.Ast Model.Lexer Model.Spelling.
Local Open Scope Z_scope.

(* ---------------------------------------------------------------------- *)
(* character classes *)

Lemma alpha_word c : is_alpha c = true -> is_word c = true.
Proof. unfold is_word. intros ->. reflexivity. Qed.
Lemma digit_word c : is_digit c = true -> is_word c = true.
Proof. unfold is_word. intros ->. apply orb_true_r. Qed.
Lemma alpha_not_digit c : is_alpha c = true -> is_digit c = false.
Proof. unfold is_alpha, is_digit, is_upper, is_lower. lia. Qed.
Lemma not_word_not_digit c : is_word c = false -> is_digit c = false.
Proof. unfold is_word. intros H. apply orb_false_elim in H. tauto. Qed.
Lemma not_word_not_alpha c : is_word c = false -> is_alpha c = false.
Proof. unfold is_word. intros H. apply orb_false_elim in H. tauto. Qed.
Lemma upper_lower c : upper (lower c) = upper c.
Proof. unfold upper, lower, is_upper, is_lower. destruct ((65 <=? c) && (c <=? 90)) eqn:E.
  - assert (H : (97 <=? c + 32) && (c + 32 <=? 122) = true) by lia. rewrite H.
    destruct ((97 <=? c) && (c <=? 122)) eqn:E2; lia.
  - reflexivity.
Qed.
Lemma lower_upper c : lower (upper c) = lower c.
Proof.
  unfold upper, lower, is_upper, is_lower. destruct ((97 <=? c) && (c <=? 122)) eqn:E.
  - assert (H : (65 <=? c - 32) && (c - 32 <=? 90) = true) by lia. rewrite H.
    destruct ((65 <=? c) && (c <=? 90)) eqn:E2; lia.
  - reflexivity.
Qed.
Lemma upper_upper_alpha c : is_upper (upper c) = true -> is_alpha c = true.
Proof.
  unfold upper, is_alpha, is_upper, is_lower. destruct ((97 <=? c) && (c <=? 122)) eqn:E.
  - intros _. rewrite orb_true_r. reflexivity.
  - intros ->. reflexivity.
Qed.

Lemma span_app p s rest : forallb p s = true ->
  match rest with c :: _ => p c = false | [] => True end -> span p (s ++ rest) = (s, rest).
Proof.
  induction s as [|a s IH]; cbn [app forallb span].
  - intros _ H. destruct rest as [|c r]; [reflexivity|]. cbn [span]. rewrite H. reflexivity.
  - intros H Hr. apply andb_prop in H. destruct H as [Ha Hs]. rewrite Ha, IH by assumption. reflexivity.
Qed.

(* ---------------------------------------------------------------------- *)
(* separators are skipped *)

Lemma comment_end_ok body tail : no_close body = true -> comment_end (body ++ 42 :: 47 :: tail) = Some tail.
Proof.
  induction body as [|c b IH]; [reflexivity|]. intros H.
  destruct b as [|c2 b'].
  - cbn [app comment_end]. replace ((c =? 42) && (42 =? 47)) with false by (rewrite andb_false_r; reflexivity).
    reflexivity.
  - cbn [no_close] in H. cbn [app comment_end]. destruct ((c =? 42) && (c2 =? 47)); [discriminate|].
    apply IH, H.
Qed.

Lemma drop_line_ok line tail : forallb (fun c => negb (c =? 10)) line = true ->
  drop_line (line ++ 10 :: tail) = 10 :: tail.
Proof.
  induction line as [|c l IH]; [reflexivity|]. cbn [forallb app drop_line]. intros H.
  apply andb_prop in H. destruct H as [Hc Hl]. apply negb_true_iff in Hc. rewrite Hc. apply IH, Hl.
Qed.
Lemma drop_line_end line : forallb (fun c => negb (c =? 10)) line = true -> drop_line line = [].
Proof.
  induction line as [|c l IH]; [reflexivity|]. cbn [forallb drop_line]. intros H.
  apply andb_prop in H. destruct H as [Hc Hl]. apply negb_true_iff in Hc. rewrite Hc. apply IH, Hl.
Qed.

Lemma skip_space f c r : is_space c = true -> skip (S f) (c :: r) = skip f r.
Proof. intros H. cbn [skip]. rewrite H. reflexivity. Qed.
Lemma skip_comment f r2 : skip (S f) (47 :: 42 :: r2) =
  match comment_end r2 with Some r3 => skip f r3 | None => 47 :: 42 :: r2 end.
Proof. reflexivity. Qed.
Lemma skip_eol f r : skip (S f) (59 :: r) = skip f (drop_line r).
Proof. reflexivity. Qed.

(* where skipping stops *)
Definition solid (cs : list Z) : Prop :=
  match cs with
  | [] => True
  | c :: r => is_space c = false /\ c <> 59 /\ (c = 47 -> match r with c2 :: _ => c2 <> 42 | [] => True end)
  end.
Lemma skip_solid f cs : solid cs -> skip f cs = cs.
Proof.
  destruct f; [reflexivity|]. destruct cs as [|c r]; [reflexivity|]. cbn [skip solid].
  intros (H1 & H2 & H3). rewrite H1. destruct (c =? 59) eqn:E; [lia|]. destruct (c =? 47) eqn:E2; [|reflexivity].
  destruct r as [|c2 r2]; [reflexivity|]. assert (c2 <> 42) by (apply H3; lia).
  destruct (c2 =? 42) eqn:E3; [lia|reflexivity].
Qed.

Lemma length_cons {A} (x : A) l : length (x :: l) = S (length l).
Proof. reflexivity. Qed.
Ltac len := repeat (rewrite app_length in * || rewrite length_cons in * ); simpl length in *; try lia.

Lemma skip_sep_gen g : sep g -> forall rest rest' f,
  (forall f', (length rest <= f')%nat -> skip f' rest = rest') ->
  (length (g ++ rest) <= f)%nat -> skip f (g ++ rest) = rest'.
Proof.
  induction 1 as [|c g Hc Hg IH|body g Hb Hg IH|line g Hl Hg IH]; intros rest rest' f Hr Hf.
  - apply Hr. exact Hf.
  - destruct f; [len|]. cbn [app]. rewrite skip_space by exact Hc. apply IH; [exact Hr|len].
  - destruct f; [len|]. cbn [app]. rewrite <- app_assoc. cbn [app]. rewrite skip_comment.
    replace (body ++ 42 :: 47 :: g ++ rest) with (body ++ 42 :: 47 :: (g ++ rest)) by reflexivity.
    rewrite comment_end_ok by exact Hb. apply IH; [exact Hr|len].
  - destruct f; [len|]. cbn [app]. rewrite <- app_assoc. cbn [app]. rewrite skip_eol.
    replace (line ++ 10 :: g ++ rest) with (line ++ 10 :: (g ++ rest)) by reflexivity.
    rewrite drop_line_ok by exact Hl. destruct f; [len|]. rewrite skip_space by reflexivity.
    apply IH; [exact Hr|len].
Qed.

Lemma skip_sep g rest f : sep g -> solid rest -> (length (g ++ rest) <= f)%nat -> skip f (g ++ rest) = rest.
Proof. intros Hg Hs Hf. apply (skip_sep_gen g Hg rest rest f); [intros; apply skip_solid, Hs|exact Hf]. Qed.

Lemma skip_sep_end g f : sep_end g -> (length g <= f)%nat -> skip f g = [].
Proof.
  intros [g' Hg|g' line Hg Hl] Hf.
  - rewrite <- (app_nil_r g'). apply skip_sep; [exact Hg|exact I|rewrite app_nil_r; exact Hf].
  - apply (skip_sep_gen g' Hg (59 :: line) [] f); [|exact Hf].
    intros f' Hf'. destruct f'; [len|]. rewrite skip_eol, drop_line_end by exact Hl. destruct f'; reflexivity.
Qed.

(* ---------------------------------------------------------------------- *)
(* one token *)

Definition sk (x : list Z) : list Z := skip (length x) x.
Definition lx (cs : list Z) : option (token * list Z) :=
  match cs with c :: r => lex_one sk c r | [] => None end.
Definition after_ok (t : token) (rest : list Z) : Prop :=
  match rest with c :: _ => clash_char t c = false | [] => True end.
Definition fc_ok (f : fclass) (c : Z) : Prop :=
  match f with FAlpha lc => is_alpha c = true /\ lower c = lc | FDigit => is_digit c = true | FQuote => c = 34 \/ c = 39 | FChar k => c = k end.

Lemma kw_of_spelling k : kw_of_word (kw_spelling k) = Some k.
Proof. destruct k; vm_compute; reflexivity. Qed.
Lemma kw_spelling_upper k : forallb is_upper (kw_spelling k) = true.
Proof. destruct k; vm_compute; reflexivity. Qed.
Lemma kw_spelling_nonempty k : kw_spelling k <> [].
Proof. destruct k; vm_compute; discriminate. Qed.

Lemma upper_word s : forallb is_upper (map upper s) = true -> forallb is_alpha s = true.
Proof.
  induction s as [|c s IH]; [reflexivity|]. cbn [map forallb]. intros H. apply andb_prop in H.
  destruct H as [Hc Hs]. rewrite (upper_upper_alpha c Hc), IH by exact Hs. reflexivity.
Qed.
Lemma forallb_alpha_word s : forallb is_alpha s = true -> forallb is_word s = true.
Proof.
  induction s as [|c s IH]; [reflexivity|]. cbn [forallb]. intros H. apply andb_prop in H.
  destruct H as [Hc Hs]. rewrite (alpha_word c Hc), IH by exact Hs. reflexivity.
Qed.
Lemma map_upper_lower s : map upper (map lower s) = map upper s.
Proof. rewrite map_map. apply map_ext. intros; apply upper_lower. Qed.

Lemma word_follow t rest : (forall c, clash_char t c = is_word c) -> after_ok t rest ->
  match rest with c :: _ => is_word c = false | [] => True end.
Proof. intros H Ha. destruct rest as [|c r]; [exact I|]. simpl in Ha. rewrite <- H. exact Ha. Qed.

Lemma lex_word s rest : word_ok s -> match rest with c :: _ => is_word c = false | [] => True end ->
  lx (s ++ rest) = match kw_of_word (map upper s) with
                   | Some k => Some (TKw k, rest)
                   | None => Some (TId (map lower s), rest)
                   end.
Proof.
  intros (Hw & Hf) Hr. destruct s as [|c s']; [contradiction|]. cbn [app lx]. unfold lex_one.
  rewrite (alpha_not_digit c Hf), Hf.
  change (c :: s' ++ rest) with ((c :: s') ++ rest). rewrite (span_app is_word (c :: s') rest Hw Hr). reflexivity.
Qed.

Lemma lex_kw k s rest : spell (TKw k) s -> after_ok (TKw k) rest -> lx (s ++ rest) = Some (TKw k, rest).
Proof.
  cbn [spell]. intros Hs Ha.
  assert (Hal : forallb is_alpha s = true) by (apply upper_word; rewrite Hs; apply kw_spelling_upper).
  rewrite lex_word.
  - rewrite Hs, kw_of_spelling. reflexivity.
  - split; [apply forallb_alpha_word, Hal|]. destruct s as [|c s']; [exfalso; apply (kw_spelling_nonempty k); rewrite <- Hs; reflexivity|].
    cbn [forallb] in Hal. apply andb_prop in Hal. tauto.
  - apply (word_follow (TKw k)); [reflexivity|exact Ha].
Qed.

Lemma ident_not_kw n s : ident_ok n = true -> map lower s = n -> kw_of_word (map upper s) = None.
Proof.
  intros Hn Hs. unfold ident_ok in Hn. destruct n as [|c n']; [discriminate|].
  apply andb_prop in Hn. destruct Hn as [_ Hk].
  rewrite <- Hs, map_upper_lower in Hk. destruct (kw_of_word (map upper s)); [discriminate|reflexivity].
Qed.

Lemma lex_id n s rest : ident_ok n = true -> spell (TId n) s -> after_ok (TId n) rest ->
  lx (s ++ rest) = Some (TId n, rest).
Proof.
  cbn [spell]. intros Hn (Hw & Hs) Ha. rewrite lex_word; [|exact Hw|apply (word_follow (TId n)); [reflexivity|exact Ha]].
  rewrite (ident_not_kw n s Hn Hs), Hs. reflexivity.
Qed.

Lemma until_quote_ok q b rest : forallb (fun c => negb (c =? q)) b = true ->
  until_quote q (b ++ q :: rest) = Some (b, rest).
Proof.
  induction b as [|c b IH]; cbn [app until_quote forallb].
  - rewrite Z.eqb_refl. reflexivity.
  - intros H. apply andb_prop in H. destruct H as [Hc Hb]. apply negb_true_iff in Hc. rewrite Hc, IH by exact Hb.
    reflexivity.
Qed.

Lemma lex_str q b rest : q = 34 \/ q = 39 -> forallb (fun c => negb (c =? q)) b = true ->
  lx (q :: b ++ [q] ++ rest) = Some (TStr b, rest).
Proof.
  intros [-> | ->] Hb; cbn [lx app]; unfold lex_one; (rewrite until_quote_ok by exact Hb); reflexivity.
Qed.

Lemma lex_table n rest : tok_ok (TTable n) = true -> after_ok (TTable n) rest -> lx (35 :: n ++ rest) = Some (TTable n, rest).
Proof.
  cbn [tok_ok]. unfold table_ok. intros Hn Ha.
  pose proof (word_follow (TTable n) rest (fun _ => eq_refl) Ha) as Hr.
  cbn [lx]. unfold lex_one. change (is_digit 35) with false. change (is_alpha 35) with false. cbv iota.
  change (35 =? 46) with false. change ((35 =? 34) || (35 =? 39)) with false. change (35 =? 35) with true. cbv iota.
  destruct n as [|c n'].
  - cbn [app]. destruct rest as [|d r]; [reflexivity|]. rewrite (not_word_not_alpha d Hr). reflexivity.
  - apply andb_prop in Hn. destruct Hn as [Hc Hw]. cbn [app]. rewrite Hc.
    change (c :: n' ++ rest) with ((c :: n') ++ rest). rewrite (span_app is_word (c :: n') rest Hw Hr). reflexivity.
Qed.

Lemma lex_placeS c rest : lower c = 115 -> after_ok TPlaceS rest -> lx (37 :: c :: rest) = Some (TPlaceS, rest).
Proof.
  intros Hc Ha. cbn [lx]. unfold lex_one. change (is_digit 37) with false. change (is_alpha 37) with false. cbv iota.
  change (37 =? 46) with false. change ((37 =? 34) || (37 =? 39)) with false. change (37 =? 35) with false.
  change (37 =? 37) with true. cbv iota. rewrite Hc. change (115 =? 115) with true. cbv iota.
  destruct rest as [|e r]; [reflexivity|]. simpl in Ha. rewrite Ha. reflexivity.
Qed.

Lemma sep_first_not_word g c r : sep g -> g = c :: r -> is_word c = false.
Proof.
  intros H. destruct H as [|c' g' Hc _|body g' _ _|line g' _ _]; intros E; try discriminate; injection E as <- _.
  - unfold is_space in Hc. unfold is_word, is_alpha, is_digit, is_upper, is_lower. lia.
  - reflexivity.
  - reflexivity.
Qed.

Lemma solid_alpha c r : is_alpha c = true -> solid (c :: r).
Proof.
  intros H. unfold solid, is_space. unfold is_alpha, is_upper, is_lower in H. repeat split; try lia.
Qed.

Lemma lex_placeN n g1 w g2 c rest : ident_ok n = true -> sep g1 -> sep g2 -> word_ok w -> map lower w = n ->
  lower c = 115 -> lx (37 :: 40 :: g1 ++ w ++ g2 ++ [41; c] ++ rest) = Some (TPlaceN n, rest).
Proof.
  intros Hn H1 H2 (Hw & Hf) Hl Hc. cbn [lx]. unfold lex_one.
  change (is_digit 37) with false. change (is_alpha 37) with false. cbv iota.
  change (37 =? 46) with false. change ((37 =? 34) || (37 =? 39)) with false. change (37 =? 35) with false.
  change (37 =? 37) with true. cbv iota. change (lower 40 =? 115) with false. change (40 =? 40) with true. cbv iota.
  destruct w as [|e w']; [contradiction|].
  assert (S1 : sk (g1 ++ (e :: w') ++ g2 ++ [41; c] ++ rest) = (e :: w') ++ g2 ++ [41; c] ++ rest).
  { unfold sk. apply skip_sep; [exact H1|apply solid_alpha, Hf|lia]. }
  rewrite S1. cbn [app]. rewrite Hf.
  change (e :: w' ++ g2 ++ 41 :: c :: rest) with ((e :: w') ++ (g2 ++ 41 :: c :: rest)).
  rewrite (span_app is_word (e :: w') (g2 ++ 41 :: c :: rest) Hw).
  - assert (S2 : sk (g2 ++ 41 :: c :: rest) = 41 :: c :: rest).
    { unfold sk. apply skip_sep; [exact H2| |lia]. unfold solid, is_space. repeat split; lia. }
    rewrite S2. change (41 =? 41) with true. rewrite Hc. change ((true && (115 =? 115))) with true. cbv iota.
    rewrite (ident_not_kw n (e :: w') Hn Hl), Hl. reflexivity.
  - destruct g2 as [|d g2'] eqn:E; [reflexivity|]. cbn [app]. apply (sep_first_not_word (d :: g2') d g2' H2 eq_refl).
Qed.

(* numbers *)
Lemma lex_date_inv cs x : lex_date cs = Some x ->
  exists a b c d r, cs = a :: b :: c :: d :: 45 :: r /\ is_digit a = true /\ is_digit b = true
                    /\ is_digit c = true /\ is_digit d = true.
Proof.
  destruct cs as [|a [|b [|c [|d [|h1 [|e [|f [|h2 [|g [|h r]]]]]]]]]]; try discriminate. cbn [lex_date].
  destruct (is_digit a && is_digit b && is_digit c && is_digit d && (h1 =? 45) && is_digit e && is_digit f
            && (h2 =? 45) && is_digit g && is_digit h) eqn:E; [|discriminate].
  intros _. exists a, b, c, d, (e :: f :: h2 :: g :: h :: r).
  repeat (apply andb_prop in E; destruct E as [E ?]).
  assert (h1 = 45) by lia. subst h1. repeat split; auto. unfold is_digit. lia.
Qed.

(* a run of digits followed by something that is neither a digit nor '-' is not a date *)
Lemma no_date s rest : digits_ok s -> s <> [] ->
  match rest with c :: _ => is_digit c = false /\ c <> 45 | [] => True end -> lex_date (s ++ rest) = None.
Proof.
  intros Hs Hne Hr. destruct (lex_date (s ++ rest)) as [x|] eqn:E; [exfalso|reflexivity].
  destruct (lex_date_inv _ _ E) as (a & b & c & d & r & Ecs & Ha & Hb & Hc & Hd). clear E.
  unfold digits_ok in Hs.
  destruct s as [|s1 [|s2 [|s3 [|s4 [|s5 s']]]]]; [congruence| | | | |]; cbn [app] in Ecs;
    try (destruct rest as [|r1 rest']; [discriminate|]; injection Ecs; intros; subst;
         destruct Hr as [Hr1 Hr2]; congruence).
  injection Ecs; intros; subst. cbn [forallb] in Hs. repeat (apply andb_prop in Hs; destruct Hs as [? Hs]).
  assert (is_digit 45 = true) by assumption. discriminate.
Qed.

Lemma lex_int n s rest : spell (TInt n) s -> after_ok (TInt n) rest -> lx (s ++ rest) = Some (TInt n, rest).
Proof.
  cbn [spell]. intros (Hne & Hd & Hv) Ha.
  assert (Hr : match rest with c :: _ => is_word c = false /\ c <> 45 /\ c <> 46 | [] => True end).
  { destruct rest as [|c r]; [exact I|]. simpl in Ha. lia. }
  destruct s as [|c s']; [congruence|]. cbn [app lx]. unfold lex_one.
  assert (Hc : is_digit c = true) by (unfold digits_ok in Hd; cbn [forallb] in Hd; apply andb_prop in Hd; tauto).
  rewrite Hc. change (c :: s' ++ rest) with ((c :: s') ++ rest). unfold lex_number.
  rewrite no_date; [|exact Hd|discriminate|].
  - unfold lex_decint. rewrite (span_app is_digit (c :: s') rest Hd).
    + destruct rest as [|d r]; [rewrite Hv; reflexivity|]. destruct Hr as (_ & _ & H46).
      destruct (d =? 46) eqn:E; [lia|]. rewrite Hv. reflexivity.
    + destruct rest as [|d r]; [exact I|]. apply not_word_not_digit. tauto.
  - destruct rest as [|d r]; [exact I|]. split; [apply not_word_not_digit; tauto|tauto].
Qed.

Lemma no_date_dec ip fp rest : digits_ok ip -> lex_date ((ip ++ 46 :: fp) ++ rest) = None.
Proof.
  intros Hs. destruct (lex_date ((ip ++ 46 :: fp) ++ rest)) as [x|] eqn:E; [exfalso|reflexivity].
  destruct (lex_date_inv _ _ E) as (a & b & c & d & r & Ecs & Ha & Hb & Hc & Hd). clear E.
  unfold digits_ok in Hs. rewrite <- app_assoc in Ecs. cbn [app] in Ecs.
  destruct ip as [|s1 [|s2 [|s3 [|s4 [|s5 s']]]]]; cbn [app] in Ecs; injection Ecs; intros; subst; try discriminate.
  cbn [forallb] in Hs. repeat (apply andb_prop in Hs; destruct Hs as [? Hs]).
  assert (is_digit 45 = true) by assumption. discriminate.
Qed.

Lemma lex_dec lead m sc s rest : spell (TDec lead m sc) s -> after_ok (TDec lead m sc) rest ->
  lx (s ++ rest) = Some (TDec lead m sc, rest).
Proof.
  cbn [spell]. intros (ip & fp & -> & Hip & Hfp & Hl & Hv & Hlead) Ha.
  assert (Hr : match rest with c :: _ => is_digit c = false | [] => True end).
  { destruct rest as [|c r]; [exact I|]. simpl in Ha. exact Ha. }
  destruct lead.
  - destruct ip as [|c ip']; [congruence|].
    assert (Hc : is_digit c = true) by (unfold digits_ok in Hip; cbn [forallb] in Hip; apply andb_prop in Hip; tauto).
    change (((c :: ip') ++ 46 :: fp) ++ rest) with (c :: (ip' ++ 46 :: fp) ++ rest). cbn [lx]. unfold lex_one. rewrite Hc.
    change (c :: (ip' ++ 46 :: fp) ++ rest) with (((c :: ip') ++ 46 :: fp) ++ rest).
    unfold lex_number. rewrite no_date_dec by exact Hip. unfold lex_decint.
    rewrite <- app_assoc. cbn [app].
    change (c :: ip' ++ 46 :: fp ++ rest) with ((c :: ip') ++ 46 :: fp ++ rest).
    rewrite (span_app is_digit (c :: ip') (46 :: fp ++ rest) Hip) by reflexivity.
    change (46 =? 46) with true. cbv iota. rewrite (span_app is_digit fp rest Hfp Hr), Hv, Hl. reflexivity.
  - destruct Hlead as (-> & Hne). destruct fp as [|d fp']; [congruence|]. cbn [app lx]. unfold lex_one.
    change (is_digit 46) with false. change (is_alpha 46) with false. cbv iota. change (46 =? 46) with true. cbv iota.
    assert (Hd : is_digit d = true) by (unfold digits_ok in Hfp; cbn [forallb] in Hfp; apply andb_prop in Hfp; tauto).
    rewrite Hd. change (d :: fp' ++ rest) with ((d :: fp') ++ rest).
    rewrite (span_app is_digit (d :: fp') rest Hfp Hr). cbn [app] in Hv. rewrite Hv, Hl. reflexivity.
Qed.

Lemma lex_datetok y m d s rest : tok_ok (TDate y m d) = true -> spell (TDate y m d) s ->
  lx (s ++ rest) = Some (TDate y m d, rest).
Proof.
  cbn [tok_ok spell]. intros Hv (a & b & c & e & f & g & h & i & -> & Hd & Hy & Hm & Hdd).
  unfold digits_ok in Hd. cbn [forallb] in Hd. repeat (apply andb_prop in Hd; destruct Hd as [? Hd]).
  cbn [app lx]. unfold lex_one. rewrite H. unfold lex_number, lex_date.
  rewrite H, H0, H1, H2, H3, H4, H5, H6. change (45 =? 45) with true. cbn [andb].
  rewrite Hy, Hm, Hdd, Hv. reflexivity.
Qed.

(* all spellings *)
Lemma lex_spell t s rest : tok_ok t = true -> spell t s -> after_ok t rest -> lx (s ++ rest) = Some (t, rest).
Proof.
  intros Hok Hs Ha. destruct t.
  - apply lex_kw; assumption.
  - apply lex_id; assumption.
  - apply lex_int; assumption.
  - apply lex_dec; assumption.
  - apply lex_datetok; assumption.
  - destruct Hs as (q & Hq & -> & Hb). cbn [app]. rewrite <- app_assoc. apply lex_str; assumption.
  - cbn [spell] in Hs. subst s. cbn [app]. apply lex_table; assumption.
  - destruct Hs as (c & -> & Hc). apply lex_placeS; assumption.
  - destruct Hs as (g1 & w & g2 & c & -> & H1 & H2 & Hw & Hl & Hc). cbn [app]. rewrite <- !app_assoc.
    apply lex_placeN; assumption.
  - cbn [spell] in Hs. subst s. reflexivity.
  - cbn [spell] in Hs. subst s. reflexivity.
  - cbn [spell] in Hs. subst s. reflexivity.
  - cbn [spell] in Hs. subst s. reflexivity.
  - cbn [spell] in Hs. subst s. reflexivity.
  - (* TDot *) cbn [spell] in Hs. subst s. cbn [render_tok app lx]. unfold lex_one.
    destruct rest as [|d r]; [reflexivity|]. simpl in Ha. change (is_digit 46) with false. change (is_alpha 46) with false.
    cbv iota. change (46 =? 46) with true. cbv iota. rewrite Ha. reflexivity.
  - cbn [spell] in Hs. subst s. reflexivity.
  - cbn [spell] in Hs. subst s. reflexivity.
  - (* TPercent *) cbn [spell] in Hs. subst s. cbn [render_tok app lx]. unfold lex_one.
    destruct rest as [|d r]; [reflexivity|]. simpl in Ha. apply orb_false_elim in Ha. destruct Ha as [A1 A2].
    change (is_digit 37) with false. change (is_alpha 37) with false. cbv iota.
    change (37 =? 46) with false. change ((37 =? 34) || (37 =? 39)) with false. change (37 =? 35) with false.
    change (37 =? 37) with true. cbv iota. rewrite A1, A2. reflexivity.
  - cbn [spell] in Hs. subst s. reflexivity.
  - cbn [spell] in Hs. subst s. reflexivity.
  - (* TLt *) cbn [spell] in Hs. subst s. cbn [render_tok app lx]. unfold lex_one.
    destruct rest as [|d r]; [reflexivity|]. simpl in Ha. cbn. rewrite Ha. reflexivity.
  - cbn [spell] in Hs. subst s. reflexivity.
  - (* TGt *) cbn [spell] in Hs. subst s. cbn [render_tok app lx]. unfold lex_one.
    destruct rest as [|d r]; [reflexivity|]. simpl in Ha. cbn. rewrite Ha. reflexivity.
  - cbn [spell] in Hs. subst s. reflexivity.
  - cbn [spell] in Hs. subst s. reflexivity.
  - cbn [spell] in Hs. subst s. reflexivity.
  - cbn [spell] in Hs. subst s. reflexivity.
  - cbn [spell] in Hs. subst s. reflexivity.
Qed.

(* ---------------------------------------------------------------------- *)
(* gluing *)

Lemma spell_first t sp : tok_ok t = true -> spell t sp -> exists c s', sp = c :: s' /\ fc_ok (first_class t) c.
Proof.
  intros Hok Hs. destruct t; cbn [spell first_class] in *; try (subst sp; eexists; eexists; split; reflexivity).
  - assert (Hal : forallb is_alpha sp = true) by (apply upper_word; rewrite Hs; apply kw_spelling_upper).
    destruct sp as [|c s']; [exfalso; apply (kw_spelling_nonempty k); rewrite <- Hs; reflexivity|].
    exists c, s'. split; [reflexivity|]. cbn [forallb] in Hal. apply andb_prop in Hal. split; [apply Hal|].
    cbn [map] in Hs. rewrite <- Hs. cbn [hd]. symmetry. apply lower_upper.
  - destruct Hs as ((_ & Hf) & Hl). destruct sp as [|c s']; [contradiction|]. exists c, s'. split; [reflexivity|].
    split; [exact Hf|]. rewrite <- Hl. reflexivity.
  - destruct Hs as (Hne & Hd & _). destruct sp as [|c s']; [congruence|]. exists c, s'. split; [reflexivity|].
    unfold digits_ok in Hd. cbn [forallb] in Hd. apply andb_prop in Hd. apply Hd.
  - destruct Hs as (ip & fp & -> & Hip & _ & _ & _ & Hl). destruct lead.
    + destruct ip as [|c ip']; [congruence|]. exists c, (ip' ++ 46 :: fp). split; [reflexivity|].
      unfold digits_ok in Hip. cbn [forallb] in Hip. apply andb_prop in Hip. apply Hip.
    + destruct Hl as (-> & _). exists 46, fp. split; reflexivity.
  - destruct Hs as (a & b & c & e & f & g & h & i & -> & Hd & _). exists a. eexists. split; [reflexivity|].
    unfold digits_ok in Hd. cbn [forallb] in Hd. apply andb_prop in Hd. apply Hd.
  - destruct Hs as (q & Hq & -> & _). exists q. eexists. split; [reflexivity|exact Hq].
  - destruct Hs as (c & -> & _). exists 37. eexists. split; reflexivity.
  - destruct Hs as (g1 & w & g2 & c & -> & _). exists 37. eexists. split; reflexivity.
Qed.

Lemma spell_nonempty t s : tok_ok t = true -> spell t s -> s <> [].
Proof. intros Hok Hs. destruct (spell_first t s Hok Hs) as (c & s' & -> & _). discriminate. Qed.

Lemma clash_sound t f c : clash t f = false -> fc_ok f c -> clash_char t c = false.
Proof.
  destruct f as [lc| | |k]; cbn [fc_ok].
  - intros Hc (Ha & Hlc). pose proof (alpha_word c Ha) as Hw. pose proof (alpha_not_digit c Ha) as Hd.
    destruct t; cbn [clash clash_char] in *; try discriminate; try reflexivity; try exact Hd;
      try (unfold is_alpha, is_upper, is_lower in Ha; lia).
  - intros Hc Hd. pose proof (digit_word c Hd) as Hw.
    destruct t; cbn [clash clash_char] in *; try discriminate; try reflexivity; unfold is_digit in Hd; try lia.
    unfold lower, is_upper. destruct ((65 <=? c) && (c <=? 90)) eqn:E; lia.
  - intros _ [-> | ->]; destruct t; reflexivity.
  - intros Hc ->. exact Hc.
Qed.

Lemma sep_first_ok t g c r : sep g -> g = c :: r -> clash_char t c = false.
Proof.
  intros H E.
  assert (F : is_word c = false /\ c <> 45 /\ c <> 46 /\ c <> 61 /\ c <> 42 /\ c <> 40 /\ lower c <> 115).
  { destruct H as [|c' g' Hc _|body g' _ _|line g' _ _]; try discriminate; injection E as E1 _;
      (first [subst c' | subst c]).
    - unfold is_space in Hc. unfold is_word, is_alpha, is_digit, is_upper, is_lower, lower, is_upper.
      destruct ((65 <=? c) && (c <=? 90)) eqn:E; repeat split; lia.
    - vm_compute. repeat split; discriminate.
    - vm_compute. repeat split; discriminate. }
  destruct F as (F1 & F2 & F3 & F4 & F5 & F6 & F7). pose proof (not_word_not_digit c F1) as Fd.
  destruct t; cbn [clash_char]; try reflexivity; try exact F1; try exact Fd; lia.
Qed.

Lemma sep_end_first_ok t g c r : sep_end g -> g = c :: r -> clash_char t c = false.
Proof.
  intros [g' Hg|g' line Hg _] E; [apply (sep_first_ok t g' c r Hg E)|].
  destruct g' as [|c' g'']; cbn [app] in E.
  - injection E as <- _. destruct t; reflexivity.
  - injection E as <- _. apply (sep_first_ok t (c' :: g'') c' g'' Hg eq_refl).
Qed.

Lemma spell_solid t s rest : tok_ok t = true -> spell t s -> after_ok t rest -> solid (s ++ rest).
Proof.
  intros Hok Hs Ha. destruct (spell_first t s Hok Hs) as (c & s' & E & Hc). subst s. cbn [app solid].
  assert (F : is_space c = false /\ c <> 59 /\ (c = 47 -> t = TSlash)).
  { destruct (first_class t) as [lc| | |k] eqn:Ef; cbn [fc_ok] in Hc.
    - destruct Hc as [Hc _]. unfold is_alpha, is_upper, is_lower in Hc. unfold is_space. repeat split; try lia.
    - unfold is_digit in Hc. unfold is_space. repeat split; try lia.
    - destruct Hc as [-> | ->]; repeat split; try reflexivity; discriminate.
    - subst c. destruct t; cbn [first_class] in Ef; try (destruct lead); try discriminate;
        injection Ef as <-; repeat split; try reflexivity; try discriminate; try (intros; discriminate). }
  destruct F as (F1 & F2 & F3). repeat split; [exact F1|exact F2|].
  intros E47. specialize (F3 E47). subst t. cbn [spell render_tok] in Hs. injection Hs as _ ->. cbn [app].
  destruct rest as [|c2 r]; [exact I|]. simpl in Ha. lia.
Qed.

(* ---------------------------------------------------------------------- *)
(* the whole text *)

Definition g_ok (ts : list token) (g : str) : Prop := match ts with [] => sep_end g | _ => sep g end.

Lemma lex_loop_ok : forall ts ss gs g0 acc fuel,
  Forall2 spell ts ss -> forallb tok_ok ts = true -> g_ok ts g0 -> seps_ok ts gs ->
  (length (g0 ++ weave ss gs) < fuel)%nat ->
  lex_loop fuel (g0 ++ weave ss gs) acc = Some (rev acc ++ ts).
Proof.
  induction ts as [|t ts IH]; intros ss gs g0 acc fuel HS Hok Hg Hgs Hf.
  - inversion HS; subst. cbn [weave] in *. rewrite app_nil_r in *. destruct fuel; [lia|]. cbn [lex_loop].
    rewrite skip_sep_end; [rewrite app_nil_r; reflexivity|exact Hg|lia].
  - inversion HS as [|t' s ts' ss' Hs HS']; subst. cbn [forallb] in Hok. apply andb_prop in Hok. destruct Hok as [Hokt Hok].
    destruct gs as [|g gs']; [destruct ts; contradiction|]. cbn [weave] in *.
    set (rest := g ++ weave ss' gs') in *.
    assert (Hgk : g_ok ts g /\ seps_ok ts gs' /\ after_ok t rest).
    { destruct ts as [|t2 ts2].
      - destruct gs' as [|? ?]; [|contradiction]. cbn [seps_ok] in Hgs. inversion HS'; subst. cbn [weave] in *.
        split; [exact Hgs|]. split; [exact I|]. unfold rest. rewrite app_nil_r.
        destruct g as [|c r] eqn:E; [exact I|]. apply (sep_end_first_ok t (c :: r) c r Hgs eq_refl).
      - cbn [seps_ok] in Hgs. destruct Hgs as (Hsg & Hns & Hgs'). split; [exact Hsg|]. split; [exact Hgs'|].
        unfold rest. destruct g as [|c r] eqn:E.
        + cbn [app]. inversion HS' as [|? s2 ? ss2 Hs2 HS2]; subst.
          destruct gs' as [|g2 gs2]; [destruct ts2; contradiction|]. cbn [weave].
          cbn [forallb] in Hok. apply andb_prop in Hok. destruct Hok as [Hok2 _].
          destruct (spell_first t2 s2 Hok2 Hs2) as (c2 & s2' & -> & Hc2). cbn [app after_ok].
          apply (clash_sound t (first_class t2) c2); [apply Hns; reflexivity|exact Hc2].
        + cbn [app after_ok]. apply (sep_first_ok t (c :: r) c r Hsg eq_refl). }
    destruct Hgk as (Hg' & Hgs' & Ha).
    destruct fuel; [lia|]. cbn [lex_loop].
    rewrite skip_sep; [|exact Hg|apply (spell_solid t s rest Hokt Hs Ha)|lia].
    pose proof (lex_spell t s rest Hokt Hs Ha) as HL.
    pose proof (spell_nonempty t s Hokt Hs) as Hne.
    destruct (s ++ rest) as [|c r] eqn:E; [destruct s; [congruence|discriminate]|].
    unfold lx in HL. unfold sk in HL. rewrite HL.
    unfold rest. rewrite IH; [|exact HS'|exact Hok|exact Hg'|exact Hgs'|].
    + cbn [rev]. rewrite <- app_assoc. reflexivity.
    + fold rest. assert (length (s ++ rest) = S (length r)) by (rewrite E; reflexivity).
      rewrite !app_length in *. destruct s; [congruence|]. simpl length in *. lia.
Qed.

Theorem lex_roundtrip : forall ts ss gs g0,
  forallb tok_ok ts = true -> Forall2 spell ts ss -> g_ok ts g0 -> seps_ok ts gs ->
  lex (render_text g0 ss gs) = Some ts.
Proof.
  intros ts ss gs g0 Hok HS Hg Hgs. unfold lex, render_text.
  rewrite (lex_loop_ok ts ss gs g0 []); [reflexivity|assumption..|lia].
Qed.

(* ---------------------------------------------------------------------- *)
(* text level: printing, spelling and spacing, then lexing and parsing *)

From Verif Require Import Model.Parser Model.Printer Proofs.ParserProofs.

Lemma print_stmt_nonempty s : wf_stmt s = true -> print_stmt s <> [].
Proof.
  destruct s; cbn [wf_stmt print_stmt]; try discriminate.
  intros H. apply andb_prop in H. destruct H as [Hs _]. destruct s; try discriminate Hs.
  rewrite body_select. discriminate.
Qed.

Theorem text_roundtrip : forall s ss gs g0,
  wf_stmt s = true -> lex_ok (print_stmt s) = true ->
  Forall2 spell (print_stmt s) ss -> sep g0 -> seps_ok (print_stmt s) gs ->
  parse_text (render_text g0 ss gs) = Some (stmt_erase s).
Proof.
  intros s ss gs g0 Hwf Hlex HS Hg Hgs. unfold parse_text.
  rewrite (lex_roundtrip (print_stmt s) ss gs g0 Hlex HS); [apply stmt_roundtrip, Hwf| |exact Hgs].
  pose proof (print_stmt_nonempty s Hwf). destruct (print_stmt s); [congruence|exact Hg].
Qed.

(* ---------------------------------------------------------------------- *)
(* the canonical spelling [render_tok] is a spelling (the hypotheses of the theorems are satisfiable
   for every token list the lexer can produce) *)

Lemma digits_val_snoc ds d : digits_val (ds ++ [d]) = (digits_val ds * 10 + digit_val d)%N.
Proof. unfold digits_val. rewrite fold_left_app. reflexivity. Qed.

Lemma size_nat_le a b : (a <= b)%N -> (N.size_nat a <= N.size_nat b)%nat.
Proof.
  destruct a as [|p], b as [|q]; cbn [N.size_nat]; try lia.
  intros H. destruct (Pos.eq_dec p q) as [->|Hne]; [lia|]. apply Pos.size_nat_monotone. lia.
Qed.
Lemma size_nat_div2 n : N.size_nat (N.div2 n) = pred (N.size_nat n).
Proof. destruct n as [|[p|p|]]; reflexivity. Qed.
Lemma size_div10 n : (10 <= n)%N -> (S (N.size_nat (n / 10)) <= N.size_nat n)%nat.
Proof.
  intros H. assert (Hq : (n / 10 <= N.div2 n)%N) by (rewrite N.div2_div; apply N.div_le_compat_l; lia).
  apply size_nat_le in Hq. rewrite size_nat_div2 in Hq.
  assert (1 <= N.size_nat n)%nat by (destruct n; [lia|cbn; destruct p; cbn; lia]). lia.
Qed.

Lemma digits_fuel_S f n acc : digits_fuel (S f) n acc =
  if (n <? 10)%N then (48 + Z.of_N n) :: acc else digits_fuel f (n / 10)%N ((48 + Z.of_N (n mod 10)%N) :: acc).
Proof. reflexivity. Qed.

Lemma digits_fuel_spec : forall f n acc, (N.size_nat n <= f)%nat ->
  exists ds, digits_fuel (S f) n acc = ds ++ acc /\ ds <> [] /\ forallb is_digit ds = true /\ digits_val ds = n.
Proof.
  induction f as [|f IH]; intros n acc Hf; rewrite digits_fuel_S; destruct (n <? 10)%N eqn:E.
  - exists [48 + Z.of_N n]. repeat split; [discriminate| |].
    + cbn [forallb]. unfold is_digit. lia.
    + unfold digits_val, digit_val. cbn [fold_left]. replace (48 + Z.of_N n - 48) with (Z.of_N n) by lia.
      rewrite N2Z.id. lia.
  - exfalso. pose proof (size_div10 n ltac:(lia)). lia.
  - exists [48 + Z.of_N n]. repeat split; [discriminate| |].
    + cbn [forallb]. unfold is_digit. lia.
    + unfold digits_val, digit_val. cbn [fold_left]. replace (48 + Z.of_N n - 48) with (Z.of_N n) by lia.
      rewrite N2Z.id. lia.
  - pose proof (size_div10 n ltac:(lia)) as Hs.
    destruct (IH (n / 10)%N ((48 + Z.of_N (n mod 10)) :: acc) ltac:(lia)) as (ds & E1 & Hne & Hd & Hv).
    exists (ds ++ [48 + Z.of_N (n mod 10)]). repeat split.
    + rewrite E1, <- app_assoc. reflexivity.
    + destruct ds; discriminate.
    + rewrite forallb_app, Hd. cbn [forallb andb]. rewrite andb_true_r. pose proof (N.mod_lt n 10 ltac:(lia)).
      unfold is_digit. apply andb_true_intro. split; apply Z.leb_le; clear - H;
        set (x := (n mod 10)%N) in *; clearbody x; lia.
    + rewrite digits_val_snoc, Hv. unfold digit_val. replace (48 + Z.of_N (n mod 10) - 48) with (Z.of_N (n mod 10)) by lia.
      rewrite N2Z.id. rewrite (N.div_mod' n 10) at 3. lia.
Qed.

Lemma digits_spec n : digits n <> [] /\ forallb is_digit (digits n) = true /\ digits_val (digits n) = n.
Proof.
  unfold digits. destruct (digits_fuel_spec (N.size_nat n) n [] (le_n _)) as (ds & E & H1 & H2 & H3).
  rewrite E, app_nil_r. auto.
Qed.

Fixpoint pow10 (k : nat) : N := match k with O => 1%N | S k' => (10 * pow10 k')%N end.

(* no leading zero: a number with k+1 digits is at least 10^k *)
Lemma digits_fuel_len : forall f n acc, (N.size_nat n <= f)%nat ->
  exists ds, digits_fuel (S f) n acc = ds ++ acc /\ (length ds = 1%nat \/ (pow10 (length ds - 1) <= n)%N).
Proof.
  induction f as [|f IH]; intros n acc Hf; rewrite digits_fuel_S; destruct (n <? 10)%N eqn:E.
  - exists [48 + Z.of_N n]. split; [reflexivity|left; reflexivity].
  - exfalso. pose proof (size_div10 n ltac:(lia)). lia.
  - exists [48 + Z.of_N n]. split; [reflexivity|left; reflexivity].
  - pose proof (size_div10 n ltac:(lia)) as Hs.
    destruct (IH (n / 10)%N ((48 + Z.of_N (n mod 10)) :: acc) ltac:(lia)) as (ds & E1 & Hl).
    exists (ds ++ [48 + Z.of_N (n mod 10)]). split; [rewrite E1, <- app_assoc; reflexivity|]. right.
    rewrite app_length. cbn [length]. replace (length ds + 1 - 1)%nat with (length ds) by lia.
    pose proof (N.div_mod' n 10) as Hdm. pose proof (N.mod_lt n 10 ltac:(lia)) as Hr.
    assert (H10 : (10 <= n)%N) by lia.
    set (q := (n / 10)%N) in *. set (r := (n mod 10)%N) in *. clearbody q r.
    destruct Hl as [Hl|Hl].
    + rewrite Hl. cbn [pow10]. lia.
    + destruct (length ds) as [|k]; [cbn [pow10]; lia|]. cbn [pow10]. cbn [Nat.sub] in Hl. rewrite Nat.sub_0_r in Hl. lia.
Qed.

Lemma pow10_mono a b : (a <= b)%nat -> (pow10 a <= pow10 b)%N.
Proof. induction 1; [lia|]. cbn [pow10]. lia. Qed.

Lemma digits_len_le n k : (n < pow10 k)%N -> (1 <= k)%nat -> (length (digits n) <= k)%nat.
Proof.
  intros Hn Hk. unfold digits. destruct (digits_fuel_len (N.size_nat n) n [] (le_n _)) as (ds & E & Hl).
  rewrite E, app_nil_r. destruct Hl as [Hl|Hl]; [lia|].
  destruct (le_lt_dec (length ds) k) as [|Hgt]; [assumption|]. exfalso.
  pose proof (pow10_mono k (length ds - 1) ltac:(lia)). lia.
Qed.

Lemma digits_val_zeros j d : digits_val (repeat 48 j ++ d) = digits_val d.
Proof.
  unfold digits_val. rewrite fold_left_app. f_equal. induction j as [|j IH]; [reflexivity|]. cbn [repeat fold_left].
  exact IH.
Qed.
Lemma forallb_repeat48 j : forallb is_digit (repeat 48 j) = true.
Proof. induction j; [reflexivity|]. cbn [repeat forallb]. rewrite IHj. reflexivity. Qed.

Lemma pad_digits w n : forallb is_digit (pad w (digits n)) = true /\ digits_val (pad w (digits n)) = n
  /\ (w <= length (pad w (digits n)))%nat /\ ((length (digits n) <= w)%nat -> length (pad w (digits n)) = w).
Proof.
  destruct (digits_spec n) as (_ & Hd & Hv). unfold pad. repeat split.
  - rewrite forallb_app, forallb_repeat48, Hd. reflexivity.
  - rewrite digits_val_zeros. exact Hv.
  - rewrite app_length, repeat_length. lia.
  - intros H. rewrite app_length, repeat_length. lia.
Qed.

Lemma forallb_firstn_skipn {A} (p : A -> bool) k l : forallb p l = true ->
  forallb p (firstn k l) = true /\ forallb p (skipn k l) = true.
Proof.
  intros H. rewrite <- (firstn_skipn k l), forallb_app in H. apply andb_prop in H. exact H.
Qed.

Lemma ident_chars n : forallb (fun x => is_lower x || is_digit x || (x =? 95)) n = true ->
  forallb is_word n = true /\ map lower n = n.
Proof.
  induction n as [|c n IH]; [split; reflexivity|]. cbn [forallb map]. intros H. apply andb_prop in H.
  destruct H as [Hc Hn]. destruct (IH Hn) as [H1 H2]. rewrite H1, H2. split.
  - rewrite andb_true_r. unfold is_word, is_alpha, is_upper, is_lower, is_digit in *. lia.
  - f_equal. unfold lower, is_upper, is_lower, is_digit in *. destruct ((65 <=? c) && (c <=? 90)) eqn:E; lia.
Qed.

Lemma ident_word n : ident_ok n = true -> word_ok n /\ map lower n = n.
Proof.
  unfold ident_ok. destruct n as [|c n']; [discriminate|]. intros H.
  apply andb_prop in H. destruct H as [H _]. apply andb_prop in H. destruct H as [Hc Hn].
  destruct (ident_chars (c :: n') Hn) as [Hw Hl]. split; [|exact Hl]. split; [exact Hw|].
  unfold is_alpha, is_upper, is_lower in *. lia.
Qed.

Lemma kw_upper k : map upper (kw_spelling k) = kw_spelling k.
Proof. destruct k; vm_compute; reflexivity. Qed.

Lemma spell_canonical t : tok_ok t = true -> spell t (render_tok t).
Proof.
  intros Hok. destruct t; cbn [spell render_tok tok_ok] in *; try reflexivity.
  - apply kw_upper.
  - apply ident_word, Hok.
  - apply digits_spec.
  - (* decimal *)
    set (w := if lead then S scale else scale). destruct (pad_digits w m) as (Hd & Hv & Hlen & Hex).
    set (ds := pad w (digits m)) in *. set (k := (length ds - scale)%nat).
    destruct (forallb_firstn_skipn is_digit k ds Hd) as (H1 & H2).
    exists (firstn k ds), (skipn k ds). split; [reflexivity|]. split; [exact H1|]. split; [exact H2|].
    assert (Hsc : (scale <= length ds)%nat) by (unfold w in Hlen; destruct lead; lia).
    split; [rewrite skipn_length; unfold k; lia|]. split; [rewrite firstn_skipn; exact Hv|].
    destruct lead.
    + intros E. apply (f_equal (@length _)) in E. rewrite firstn_length in E. unfold k, w in *. cbn [length] in E. lia.
    + apply andb_prop in Hok. destruct Hok as [Hs1 Hs2]. apply Nat.leb_le in Hs1, Hs2.
      assert (length ds = scale) by (apply Hex; exact Hs2). unfold k. rewrite H, Nat.sub_diag. cbn [firstn skipn].
      split; [reflexivity|]. intros E. rewrite E in H. cbn [length] in H. lia.
  - (* date *)
    unfold valid_date in Hok. repeat (apply andb_prop in Hok; destruct Hok as [Hok ?]).
    assert (Hy : (y <= 9999)%N) by lia. assert (Hm : (m <= 12)%N) by lia.
    assert (Hdd : (d <= 31)%N) by (unfold dim in *; destruct (m =? 2)%N, (leap y), ((m =? 4) || (m =? 6) || (m =? 9) || (m =? 11))%N; lia).
    destruct (pad_digits 4 y) as (Y1 & Y2 & _ & Y4). destruct (pad_digits 2 m) as (M1 & M2 & _ & M4).
    destruct (pad_digits 2 d) as (D1 & D2 & _ & D4).
    specialize (Y4 (digits_len_le y 4 ltac:(cbn; lia) ltac:(lia))).
    specialize (M4 (digits_len_le m 2 ltac:(cbn; lia) ltac:(lia))).
    specialize (D4 (digits_len_le d 2 ltac:(cbn; lia) ltac:(lia))).
    destruct (pad 4 (digits y)) as [|a [|b [|c [|e [|? ?]]]]]; try discriminate Y4.
    destruct (pad 2 (digits m)) as [|f [|g [|? ?]]]; try discriminate M4.
    destruct (pad 2 (digits d)) as [|h [|i [|? ?]]]; try discriminate D4.
    exists a, b, c, e, f, g, h, i. split; [reflexivity|]. split; [|auto].
    unfold digits_ok. cbn [forallb] in *. rewrite andb_true_r in *.
    repeat (apply andb_prop in Y1; destruct Y1 as [? Y1]). repeat (apply andb_prop in M1; destruct M1 as [? M1]).
    repeat (apply andb_prop in D1; destruct D1 as [? D1]).
    clear - H4 H5 H6 H7 Y1 H8 H9 M1 H10 H11 D1. unfold is_digit in *. lia.
  - (* string *)
    destruct (existsb (fun c => c =? 39) s) eqn:E39.
    + exists 34. split; [left; reflexivity|]. split; [reflexivity|]. rewrite andb_true_r in Hok. apply negb_true_iff in Hok.
      apply forallb_forall. intros x Hx. apply negb_true_iff. destruct (x =? 34) eqn:Ex; [|reflexivity].
      rewrite <- Hok. symmetry. apply existsb_exists. exists x. split; assumption.
    + exists 39. split; [right; reflexivity|]. split; [reflexivity|].
      apply forallb_forall. intros x Hx. apply negb_true_iff. destruct (x =? 39) eqn:Ex; [|reflexivity].
      rewrite <- E39. symmetry. apply existsb_exists. exists x. split; assumption.
  - exists 115. split; reflexivity.
  - destruct (ident_word s Hok) as (Hw & Hl). exists [], s, [], 115. cbn [app].
    split; [reflexivity|]. repeat split; try apply sep_nil; try apply Hw; assumption.
Qed.

(* the canonical text: every token in its canonical spelling followed by one blank *)
Lemma render_weave ts : render ts = render_text [] (map render_tok ts) (map (fun _ => [32]) ts).
Proof.
  unfold render, render_text. cbn [app]. induction ts as [|t ts IH]; [reflexivity|].
  cbn [map concat weave]. rewrite IH, <- app_assoc. reflexivity.
Qed.

Theorem lex_render_canonical : forall ts, forallb tok_ok ts = true -> lex (render ts) = Some ts.
Proof.
  intros ts Hok. rewrite render_weave. apply lex_roundtrip; [exact Hok| | |].
  - induction ts as [|t ts IH]; [constructor|]. cbn [forallb map] in *. apply andb_prop in Hok.
    constructor; [apply spell_canonical; tauto|apply IH; tauto].
  - destruct ts; [apply sep_end_sep|]; apply sep_nil.
  - clear Hok. assert (S32 : sep [32]) by (apply sep_space; [reflexivity|apply sep_nil]).
    induction ts as [|t ts IH]; [exact I|]. destruct ts as [|t2 ts2].
    + cbn [map seps_ok]. apply sep_end_sep, S32.
    + change (seps_ok (t :: t2 :: ts2) ([32] :: map (fun _ => [32]) (t2 :: ts2))).
      cbn [seps_ok]. split; [exact S32|]. split; [discriminate|exact IH].
Qed.

Theorem text_roundtrip_canonical : forall s, wf_stmt s = true -> lex_ok (print_stmt s) = true ->
  parse_text (render (print_stmt s)) = Some (stmt_erase s).
Proof.
  intros s Hwf Hlex. unfold parse_text. rewrite lex_render_canonical by exact Hlex. apply stmt_roundtrip, Hwf.
Qed.
