(* Tie by translation, C07 (bld-misc): the PyMini term generated on every run from the CURRENT source of the statements
   of execute_select in front of the row loops (Gen/SrcPrelude.v) computes, for ALL compiled target lists:
     result_types   = the tuple of Column(name, datatype) of exactly the targets with a name, in order
                      (Model/Naming.description),
     result_indexes = the positions of the same targets (Model/Naming.result_indexes),
     group_indexes  = None or the set of query.group_indexes, order_spec / c_where as on the query, rows = [],
     c_target_exprs = the evaluators of ALL targets in order.
   The two comprehensions use two different tests (`target.name is not None` and the truth value of `c_target.name`):
   they select the same targets iff no name is the empty string ([name_nonempty]); [prelude_empty_name] is the witness
   that for an empty name the description has an entry the projection does not. *)
From Coq Require Import String Ascii ZArith List Bool Lia.
Import ListNotations.
From Verif Require Import Base.PyValue Model.Eval Model.PyMini Model.PrimsApi Model.PrimsPrelude Proofs.PyMiniLemmas
  Proofs.PyMiniLemmas2 Proofs.SrcApi.
From Verif Require Model.Naming.
From Verif Require Import Gen.SrcPrelude.
Open Scope string_scope.
Open Scope list_scope.
Open Scope Z_scope.

Notation ctarget := Naming.ctarget.
Notation c_name := Naming.c_name.
Notation c_type := Naming.c_type.

(* ---------------------------------------------------------------- compositional evaluation (abstract subterms) *)
Section Gen.
Variable call_ref : nat -> list pv -> pv.
Variable prim : string -> list pv -> res pv.
Notation eval := (PyMini.eval call_ref prim).

Lemma eval_compare_one e op b s s1 s2 av bv :
  eval s e = Ok (s1, av) -> eval s1 b = Ok (s2, bv) ->
  eval s (XCompare e [(op, b)]) = bind (compare1 op av bv) (fun r => Ok (s2, PBool r)).
Proof.
  intros H1 H2. cbn [PyMini.eval]. rewrite H1. cbn [bind]. rewrite H2. cbn [bind].
  destruct (compare1 op av bv) as [[|]| |]; reflexivity.
Qed.

Lemma eval_call2 f a b s s1 s2 s3 fv av bv :
  eval s f = Ok (s1, fv) -> eval s1 a = Ok (s2, av) -> eval s2 b = Ok (s3, bv) ->
  eval s (XCall f [a; b] None) = bind (do_call call_ref fv [av; bv]) (fun r => Ok (s3, r)).
Proof.
  intros H1 H2 H3. cbn [PyMini.eval]. rewrite H1. cbn [bind]. rewrite H2. cbn [bind]. rewrite H3. reflexivity.
Qed.

Lemma eval_ifexp c a b s s1 cv t :
  eval s c = Ok (s1, cv) -> pv_truthy cv = Ok t ->
  eval s (XIfExp c a b) = if t then eval s1 a else eval s1 b.
Proof. intros H Ht. cbn [PyMini.eval]. rewrite H. cbn [bind]. rewrite Ht. reflexivity. Qed.
End Gen.

Section Tie.
Variable call_ref : nat -> list pv -> pv.
Variable dtype_of : nat -> pv.
Variable dt : Z -> pv.                       (* how a datatype tag of the model is encoded *)
Variable col : list Z -> Z -> pv.            (* the Column object made from a name and a datatype *)
Notation prim := (prim_prelude dtype_of).
Notation eval := (PyMini.eval call_ref prim).
Notation comp_go := (comp_go call_ref prim).

Definition kCol : nat := 0.
Hypothesis Hcol : forall n ty, do_call call_ref (PRef kCol) [PV (VStr n); dt ty] = Ok (col n ty).

Definition dtypes_ok (kts : list (nat * ctarget)) : Prop :=
  forall k t, In (k, t) kts -> dtype_of k = dt (c_type t).

(* ---------------------------------------------------------------- attribute reads *)
Lemma attr_name k t : prim "attr:name" [enc_target k t] = Ok (enc_name (c_name t)).
Proof. reflexivity. Qed.
Lemma attr_cexpr k t : prim "attr:c_expr" [enc_target k t] = Ok (PRef k).
Proof. reflexivity. Qed.
Lemma attr_dtype k : prim "attr:dtype" [PRef k] = Ok (dtype_of k).
Proof. reflexivity. Qed.

Lemma eval_attr_name s x a v :
  lookup x (locals s) = Some v -> v <> PSelf ->
  eval s (XAttr (XName x) a) = bind (prim ("attr:" ++ a)%string [v]) (fun r => Ok (s, r)).
Proof. intros H N. apply (eval_attr call_ref prim _ a s s v); [apply eval_name; exact H|exact N]. Qed.

Lemma enc_target_not_self k t : enc_target k t <> PSelf.
Proof. discriminate. Qed.

(* ---------------------------------------------------------------- the three comprehensions *)
Definition elt1 : expr :=
  XCall (XConst (PRef 0)) [XAttr (XName "target") "name"; XAttr (XAttr (XName "target") "c_expr") "dtype"] None.
Definition cond1 : expr := XCompare (XAttr (XName "target") "name") [(CIsNot, XConst PNone)].

Lemma comp_types s1 kts : dtypes_ok kts ->
  comp_go s1 elt1 "target" (Some cond1) (enc_targets kts) =
  Ok (map (fun nt => col (fst nt) (snd nt)) (Naming.description (map snd kts))).
Proof.
  induction kts as [|[k t] r IH]; intros Hd; [reflexivity|].
  assert (Hd' : dtypes_ok r) by (intros k' t' H; apply Hd; right; exact H).
  specialize (IH Hd').
  cbn [enc_targets map fst snd comp_go]. fold (enc_targets r).
  set (sx := write s1 (TName "target") (enc_target k t)).
  assert (Hl : lookup "target" (locals sx) = Some (enc_target k t)) by apply lookup_update_eq.
  assert (En : eval sx (XAttr (XName "target") "name") = Ok (sx, enc_name (c_name t))).
  { rewrite (eval_attr_name sx "target" "name" _ Hl (enc_target_not_self k t)).
    change ("attr:" ++ "name")%string with "attr:name". rewrite attr_name. reflexivity. }
  unfold cond1 at 1.
  rewrite (eval_compare_one call_ref prim _ CIsNot (XConst PNone) sx sx sx _ PNone En eq_refl).
  cbn [Naming.description flat_map map snd]. fold (Naming.description (map snd r)).
  destruct (c_name t) as [n|] eqn:E; cbn [enc_name compare1 pv_is_none PNone bind negb pv_truthy truthy snd PBool] in En |- *.
  - (* a named target: one Column *)
    assert (Ec : eval sx (XAttr (XAttr (XName "target") "c_expr") "dtype") = Ok (sx, dtype_of k)).
    { rewrite (eval_attr call_ref prim (XAttr (XName "target") "c_expr") "dtype" sx sx (PRef k)).
      - change ("attr:" ++ "dtype")%string with "attr:dtype". rewrite attr_dtype. reflexivity.
      - rewrite (eval_attr_name sx "target" "c_expr" _ Hl (enc_target_not_self k t)).
        change ("attr:" ++ "c_expr")%string with "attr:c_expr". rewrite attr_cexpr. reflexivity.
      - discriminate. }
    unfold elt1 at 1.
    rewrite (eval_call2 call_ref prim (XConst (PRef 0)) _ _ sx sx sx sx (PRef kCol) _ _ eq_refl En Ec).
    rewrite (Hd k t (or_introl eq_refl)), Hcol. cbn [bind snd app]. rewrite IH. reflexivity.
  - cbn [app]. exact IH.
Qed.

Definition elt3 : expr := XIndex (XName "$t") (XConst (PInt 0)).
Definition cond3 : expr := XAttr (XIndex (XName "$t") (XConst (PInt 1))) "name".

Definition idx_from (i0 : nat) (ts : list ctarget) : list nat :=
  flat_map (fun it : nat * ctarget => match c_name (snd it) with Some _ => [fst it] | None => [] end)
           (combine (seq i0 (length ts)) ts).

Lemma comp_indexes s1 kts : forall i0, forallb name_nonempty (map snd kts) = true ->
  comp_go s1 elt3 "$t" (Some cond3) (enum_from (Z.of_nat i0) (enc_targets kts)) =
  Ok (map (fun i => PInt (Z.of_nat i)) (idx_from i0 (map snd kts))).
Proof.
  induction kts as [|[k t] r IH]; intros i0 Hn; [reflexivity|].
  cbn [map snd forallb] in Hn. apply andb_prop in Hn. destruct Hn as [Hn1 Hn].
  specialize (IH (S i0) Hn). rewrite Nat2Z.inj_succ in IH. unfold Z.succ in IH.
  cbn [enc_targets map fst snd enum_from comp_go]. fold (enc_targets r).
  set (item := PTuple [PInt (Z.of_nat i0); enc_target k t]).
  set (sx := write s1 (TName "$t") item).
  assert (Hl : lookup "$t" (locals sx) = Some item) by apply lookup_update_eq.
  assert (E1 : eval sx (XIndex (XName "$t") (XConst (PInt 1))) = Ok (sx, enc_target k t)).
  { rewrite (eval_index_tuple call_ref prim (XName "$t") (XConst (PInt 1)) sx sx sx
               [PInt (Z.of_nat i0); enc_target k t] 1 (eval_name call_ref prim sx "$t" item Hl) eq_refl).
    reflexivity. }
  assert (E0 : eval sx (XIndex (XName "$t") (XConst (PInt 0))) = Ok (sx, PInt (Z.of_nat i0))).
  { rewrite (eval_index_tuple call_ref prim (XName "$t") (XConst (PInt 0)) sx sx sx
               [PInt (Z.of_nat i0); enc_target k t] 0 (eval_name call_ref prim sx "$t" item Hl) eq_refl).
    reflexivity. }
  unfold cond3 at 1.
  rewrite (eval_attr call_ref prim (XIndex (XName "$t") (XConst (PInt 1))) "name" sx sx (enc_target k t) E1
             (enc_target_not_self k t)).
  change ("attr:" ++ "name")%string with "attr:name". rewrite attr_name. cbn [bind snd].
  unfold idx_from. cbn [length seq combine flat_map fst snd]. fold (idx_from (S i0) (map snd r)).
  unfold name_nonempty in Hn1.
  destruct (c_name t) as [[|c n]|] eqn:E; try discriminate Hn1;
    cbn [enc_name pv_truthy truthy bind].
  - unfold elt3 at 1. rewrite E0. cbn [bind snd]. rewrite IH. reflexivity.
  - exact IH.
Qed.

Definition elt7 : expr := XAttr (XName "c_target") "c_expr".

Lemma comp_exprs s1 kts :
  comp_go s1 elt7 "c_target" None (enc_targets kts) = Ok (map (fun kt => PRef (fst kt)) kts).
Proof.
  induction kts as [|[k t] r IH]; [reflexivity|].
  cbn [enc_targets map fst snd comp_go bind]. fold (enc_targets r).
  set (sx := write s1 (TName "c_target") (enc_target k t)).
  assert (Hl : lookup "c_target" (locals sx) = Some (enc_target k t)) by apply lookup_update_eq.
  unfold elt7 at 1. rewrite (eval_attr_name sx "c_target" "c_expr" _ Hl (enc_target_not_self k t)).
  change ("attr:" ++ "c_expr")%string with "attr:c_expr". rewrite attr_cexpr. cbn [bind snd]. rewrite IH. reflexivity.
Qed.

(* ---------------------------------------------------------------- the whole prelude *)
Definition group_set (g : option (list Z)) : pv :=
  match g with Some l => PList (dedupe [] (map PInt l)) | None => PNone end.

Definition prelude_state (q : pv) (kts : list (nat * ctarget)) (g : option (list Z)) (o w : pv) : st :=
  {| locals := [("query", q);
                ("result_types", PTuple (map (fun nt => col (fst nt) (snd nt)) (Naming.description (map snd kts))));
                ("group_indexes", group_set g);
                ("result_indexes", enc_indexes (Naming.result_indexes (map snd kts)));
                ("order_spec", o); ("c_where", w); ("rows", PList []);
                ("c_target_exprs", PList (map (fun kt => PRef (fst kt)) kts))];
     fields := [] |}.

Lemma query_attr q kts g o w a :
  q = enc_evalquery kts g o w -> String.eqb ("attr:" ++ a)%string "attr:dtype" = false ->
  forall s, lookup "query" (locals s) = Some q ->
  eval s (XAttr (XName "query") a) = bind (get_attr a q) (fun r => Ok (s, r)).
Proof.
  intros -> E s Hl. rewrite (eval_attr_name s "query" a _ Hl) by discriminate.
  unfold prim_prelude. rewrite E.
  - change ("attr:" ++ a)%string with (String "a" (String "t" (String "t" (String "r" (String ":" a))))).
    cbn [strip_prefix Ascii.eqb Bool.eqb]. reflexivity.
Qed.

Theorem prelude_src : forall (kts : list (nat * ctarget)) (g : option (list Z)) (o w : pv),
  dtypes_ok kts ->
  forallb name_nonempty (map snd kts) = true ->
  exec_block call_ref prim {| locals := [("query", enc_evalquery kts g o w)]; fields := [] |} (f_body exec_prelude) =
  Ok (Next (prelude_state (enc_evalquery kts g o w) kts g o w)).
Proof.
  intros kts g o w Hd Hn. set (q := enc_evalquery kts g o w).
  assert (Aq : forall a s, String.eqb ("attr:" ++ a)%string "attr:dtype" = false ->
               lookup "query" (locals s) = Some q ->
               eval s (XAttr (XName "query") a) = bind (get_attr a q) (fun r => Ok (s, r))).
  { intros a s E. apply (query_attr q kts g o w a eq_refl E). }
  unfold exec_prelude. cbn [f_body].
  (* 1: result_types *)
  rewrite exec_block_cons.
  set (s0 := {| locals := [("query", q)]; fields := [] |}).
  assert (Hq0 : lookup "query" (locals s0) = Some q) by reflexivity.
  rewrite (exec_assign call_ref prim _ _ s0 s0
             (PTuple (map (fun nt => col (fst nt) (snd nt)) (Naming.description (map snd kts))))).
  2:{ rewrite (eval_prim1 call_ref prim "builtins.tuple" _ s0 s0
                 (PList (map (fun nt => col (fst nt) (snd nt)) (Naming.description (map snd kts))))); [reflexivity|].
      rewrite (eval_listcomp_gen call_ref prim _ "target" _ (Some cond1) s0 s0 (enc_targets kts)).
      - fold elt1. rewrite (comp_types s0 kts Hd). reflexivity.
      - rewrite (Aq "c_targets" s0 eq_refl Hq0). reflexivity. }
  cbn [bind write locals fields update String.eqb Ascii.eqb Bool.eqb].
  (* 2: group_indexes *)
  rewrite exec_block_cons.
  match goal with |- context [PyMini.exec call_ref prim ?s _] => set (s1 := s) end.
  assert (Hq1 : lookup "query" (locals s1) = Some q) by reflexivity.
  rewrite (exec_assign call_ref prim _ _ s1 s1 (group_set g)).
  2:{ assert (Eg : eval s1 (XAttr (XName "query") "group_indexes") = Ok (s1, enc_group g))
        by (rewrite (Aq "group_indexes" s1 eq_refl Hq1); reflexivity).
      rewrite (eval_ifexp call_ref prim _ _ _ s1 s1 (PBool (negb (pv_is_none (enc_group g))))
                 (negb (pv_is_none (enc_group g)))).
      - destruct g as [l|]; cbn [enc_group pv_is_none negb PNone].
        + rewrite (eval_prim1 call_ref prim "builtins.set" _ s1 s1 (PList (map PInt l)) Eg). reflexivity.
        + exact Eg.
      - rewrite (eval_compare_one call_ref prim _ CIsNot (XConst PNone) s1 s1 s1 _ PNone Eg eq_refl). reflexivity.
      - reflexivity. }
  cbn [bind write locals fields update String.eqb Ascii.eqb Bool.eqb].
  (* 3: result_indexes *)
  rewrite exec_block_cons.
  match goal with |- context [PyMini.exec call_ref prim ?s _] => set (s2 := s) end.
  assert (Hq2 : lookup "query" (locals s2) = Some q) by reflexivity.
  rewrite (exec_assign call_ref prim _ _ s2 s2 (enc_indexes (Naming.result_indexes (map snd kts)))).
  2:{ rewrite (eval_listcomp_gen call_ref prim _ "$t" _ (Some cond3) s2 s2 (enum_from 0 (enc_targets kts))).
      - fold elt3. change 0 with (Z.of_nat 0). rewrite (comp_indexes s2 kts 0%nat Hn). reflexivity.
      - rewrite (eval_prim1 call_ref prim "builtins.enumerate" _ s2 s2 (PList (enc_targets kts))); [reflexivity|].
        rewrite (Aq "c_targets" s2 eq_refl Hq2). reflexivity. }
  cbn [bind write locals fields update String.eqb Ascii.eqb Bool.eqb].
  (* 4, 5: order_spec, c_where *)
  rewrite exec_block_cons.
  match goal with |- context [PyMini.exec call_ref prim ?s _] => set (s3 := s) end.
  rewrite (exec_assign call_ref prim _ _ s3 s3 o) by (rewrite (Aq "order_spec" s3 eq_refl eq_refl); reflexivity).
  cbn [bind write locals fields update String.eqb Ascii.eqb Bool.eqb].
  rewrite exec_block_cons.
  match goal with |- context [PyMini.exec call_ref prim ?s _] => set (s4 := s) end.
  rewrite (exec_assign call_ref prim _ _ s4 s4 w) by (rewrite (Aq "c_where" s4 eq_refl eq_refl); reflexivity).
  cbn [bind write locals fields update String.eqb Ascii.eqb Bool.eqb].
  (* 6: rows *)
  rewrite exec_block_cons.
  match goal with |- context [PyMini.exec call_ref prim ?s _] => set (s5 := s) end.
  rewrite (exec_assign call_ref prim _ _ s5 s5 (PList [])) by reflexivity.
  cbn [bind write locals fields update String.eqb Ascii.eqb Bool.eqb].
  (* 7: c_target_exprs *)
  rewrite exec_block_cons.
  match goal with |- context [PyMini.exec call_ref prim ?s _] => set (s6 := s) end.
  rewrite (exec_assign call_ref prim _ _ s6 s6 (PList (map (fun kt => PRef (fst kt)) kts))).
  2:{ rewrite (eval_listcomp_gen call_ref prim _ "c_target" _ None s6 s6 (enc_targets kts)).
      - fold elt7. rewrite (comp_exprs s6 kts). reflexivity.
      - rewrite (Aq "c_targets" s6 eq_refl eq_refl). reflexivity. }
  cbn [bind write locals fields update String.eqb Ascii.eqb Bool.eqb]. rewrite exec_block_nil.
  reflexivity.
Qed.

End Tie.

(* the same with the Column class found in the generated refs table by its qualified name *)
Theorem prelude_source : forall (call_ref : nat -> list pv -> pv) (dtype_of : nat -> pv) (dt : Z -> pv)
    (col : list Z -> Z -> pv) (kC : nat) (kts : list (nat * ctarget)) (g : option (list Z)) (o w : pv),
  ref_of refs "beanquery.Column" = Some kC ->
  (forall n ty, do_call call_ref (PRef kC) [PV (VStr n); dt ty] = Ok (col n ty)) ->
  (forall k t, In (k, t) kts -> dtype_of k = dt (c_type t)) ->
  forallb name_nonempty (map snd kts) = true ->
  exec_block call_ref (prim_prelude dtype_of) {| locals := [("query", enc_evalquery kts g o w)]; fields := [] |}
    (f_body exec_prelude) =
  Ok (Next {| locals := [("query", enc_evalquery kts g o w);
                         ("result_types", PTuple (map (fun nt => col (fst nt) (snd nt)) (Naming.description (map snd kts))));
                         ("group_indexes", group_set g);
                         ("result_indexes", enc_indexes (Naming.result_indexes (map snd kts)));
                         ("order_spec", o); ("c_where", w); ("rows", PList []);
                         ("c_target_exprs", PList (map (fun kt => PRef (fst kt)) kts))];
              fields := [] |}).
Proof.
  intros call_ref dtype_of dt col kC kts g o w Hk Hcol Hd Hn. cbn in Hk. injection Hk as <-.
  exact (prelude_src call_ref dtype_of dt col Hcol kts g o w Hd Hn).
Qed.

(* ---------------------------------------------------------------- an empty name: the two tests disagree
   one target named by the empty string (reachable once an alias may be a quoted string): the translated prelude
   describes one column and projects none *)
Definition empty_named : list (nat * ctarget) := [(7%nat, {| Naming.c_name := Some []; Naming.c_type := 1 |})].

Lemma prelude_empty_name :
  let cr := fun (k : nat) (args : list pv) => PTuple args in
  exists s', exec_block cr (prim_prelude (fun _ => PInt 1))
               {| locals := [("query", enc_evalquery empty_named None PNone PNone)]; fields := [] |}
               (f_body exec_prelude) = Ok (Next s') /\
    lookup "result_types" (locals s') = Some (PTuple [PTuple [PV (VStr []); PInt 1]]) /\
    lookup "result_indexes" (locals s') = Some (PList []) /\
    length (Naming.description (map snd empty_named)) = 1%nat /\
    Naming.result_indexes (map snd empty_named) = [0%nat].
Proof. cbv zeta. eexists. split; [vm_compute; reflexivity|]. repeat split. Qed.
