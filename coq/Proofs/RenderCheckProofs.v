(* C16 phase 2: the relational checker accepts the model's own output (check_table, check_csv),
   read-back of date and decimal cells. *)
From Coq Require Import ZArith List Bool Arith Lia Permutation.
Import ListNotations.
From Verif Require Import Base.Out Base.StableSort Base.PyValue Model.Render Model.RenderCheck Proofs.RenderProofs.

(* ------------------------------------------------------------------ character classes *)
Definition allc (P : Z -> bool) (s : str) : bool := forallb P s.

Lemma allc_app P (a b : str) : allc P (a ++ b) = allc P a && allc P b.
Proof. apply forallb_app. Qed.
Lemma allc_repeat P c n : P c = true -> allc P (repeat c n) = true.
Proof. intros H. induction n; simpl; auto. rewrite H. exact IHn. Qed.
Lemma allc_firstn P n (s : str) : allc P s = true -> allc P (firstn n s) = true.
Proof. revert n; induction s as [|x s IH]; intros [|n] H; simpl in *; auto. apply andb_prop in H as [H1 H2]. rewrite H1. apply IH; exact H2. Qed.
Lemma allc_skipn P n (s : str) : allc P s = true -> allc P (skipn n s) = true.
Proof. revert n; induction s as [|x s IH]; intros [|n] H; simpl in *; auto. apply andb_prop in H as [H1 H2]. apply IH; exact H2. Qed.
Lemma allc_join P (sep : str) (l : list str) : allc P sep = true -> Forall (fun s => allc P s = true) l -> allc P (join sep l) = true.
Proof.
  intros Hs HF. induction HF as [|x t Hx HF IH]; [reflexivity|].
  destruct t as [|y t']; [exact Hx|].
  change (join sep (x :: y :: t')) with (x ++ sep ++ join sep (y :: t')).
  rewrite !allc_app, Hx, Hs, IH. reflexivity.
Qed.
Lemma allc_impl (P Q : Z -> bool) (s : str) : (forall c, P c = true -> Q c = true) -> allc P s = true -> allc Q s = true.
Proof. intros H. induction s; simpl; auto. intros HH. apply andb_prop in HH as [H1 H2]. rewrite (H _ H1). auto. Qed.
Lemma allc_in P (s : str) c : allc P s = true -> In c s -> P c = true.
Proof. unfold allc. rewrite forallb_forall. auto. Qed.

Definition nonl (c : Z) : bool := negb (c =? 10).
Lemma no_nl_allc s : no_nl s = allc nonl s.
Proof. reflexivity. Qed.

(* characters of numerals: digits - . E + *)
Definition numc (c : Z) : bool := is_digit c || (c =? 45) || (c =? 46) || (c =? 69) || (c =? 43).
Lemma numc_nonl c : numc c = true -> nonl c = true.
Proof.
  unfold numc, nonl, is_digit. intros H. destruct (c =? 10) eqn:E; [|reflexivity].
  apply Z.eqb_eq in E. subst. discriminate.
Qed.
Lemma numc_nosp c : numc c = true -> c <> 32.
Proof. intros H ->. discriminate. Qed.
Lemma digit_numc c : is_digit c = true -> numc c = true.
Proof. unfold numc. intros ->. reflexivity. Qed.

Lemma show_nat_numc n : 0 <= n -> allc numc (show_nat n) = true.
Proof. intros. eapply allc_impl; [apply digit_numc|]. apply show_nat_digits; assumption. Qed.
Lemma show_int_numc z : allc numc (show_int z) = true.
Proof. unfold show_int. destruct (z <? 0) eqn:E; [apply Z.ltb_lt in E|apply Z.ltb_ge in E]; simpl; rewrite ?show_nat_numc by lia; reflexivity. Qed.
Lemma show_signed_numc z : allc numc (show_signed z) = true.
Proof. unfold show_signed. destruct (z <? 0) eqn:E; [apply Z.ltb_lt in E|apply Z.ltb_ge in E]; simpl; rewrite ?show_nat_numc by lia; reflexivity. Qed.
Lemma zeros_numc n : allc numc (zeros n) = true.
Proof. apply allc_repeat. reflexivity. Qed.
Lemma zpad_numc w n : 0 <= n -> allc numc (zpad w n) = true.
Proof. intros. unfold zpad. rewrite allc_app, allc_repeat, show_nat_numc by (auto; lia). reflexivity. Qed.

Lemma dec_str_numc d : 0 <= dcoef d -> allc numc (dec_str d) = true.
Proof.
  intros Hc. unfold dec_str. cbv zeta.
  assert (Hd : allc numc (dec_digits d) = true) by (apply show_nat_numc; exact Hc).
  rewrite !allc_app.
  apply andb_true_intro; split; [destruct (dneg d); reflexivity|].
  apply andb_true_intro; split.
  - destruct (_ <=? 0).
    + rewrite !allc_app, zeros_numc, Hd. reflexivity.
    + destruct (dec_nd d <=? _).
      * rewrite allc_app, zeros_numc, Hd. reflexivity.
      * rewrite !allc_app, allc_firstn, allc_skipn by exact Hd. reflexivity.
  - destruct (_ =? _); [reflexivity|]. cbn [allc forallb]. fold (allc numc (show_signed (dec_leftdigits d - (if dec_positional d then dec_leftdigits d else 1)))).
    rewrite show_signed_numc. reflexivity.
Qed.

Lemma date_str_numc y m d : cell_valid (CDate y m d) = true -> allc numc (date_str y m d) = true.
Proof.
  unfold cell_valid. intros H. repeat (apply andb_prop in H as [H ?]).
  repeat match goal with H : (_ <=? _) = true |- _ => apply Z.leb_le in H end.
  unfold date_str. rewrite !allc_app, show_nat_numc, !zpad_numc by lia. reflexivity.
Qed.

(* ------------------------------------------------------------------ no line feed anywhere in the model's lines *)
Definition cell_nonl (v : cellv) : bool :=
  match v with CStr s | COther s => no_nl s | CSet l => forallb no_nl l | _ => true end.

Record nl_free (o : opts) (desc : list (str * dtype)) (rows : list (list cellv)) : Prop := {
  nf_null : no_nl (o_null o) = true;
  nf_sep : no_nl (o_listsep o) = true;
  nf_hdr : Forall (fun d : str * dtype => no_nl (fst d) = true) desc;
  nf_cells : forall row, In row rows -> Forall (fun v => cell_nonl v = true) row }.

Lemma numc_no_nl s : allc numc s = true -> no_nl s = true.
Proof. apply allc_impl. exact numc_nonl. Qed.
Lemma spaces_nonl n : no_nl (spaces n) = true.
Proof. apply allc_repeat. reflexivity. Qed.
Lemma no_nl_app (a b : str) : no_nl (a ++ b) = no_nl a && no_nl b.
Proof. apply forallb_app. Qed.
Lemma pad_nonl a w s : no_nl s = true -> no_nl (pad a w s) = true.
Proof. intros H. destruct a; simpl; unfold ljust, rjust; rewrite no_nl_app, spaces_nonl, H; reflexivity. Qed.
Lemma center_nonl w s : no_nl s = true -> no_nl (center w s) = true.
Proof. intros H. unfold center. rewrite !no_nl_app, !spaces_nonl, H. reflexivity. Qed.
Lemma colsep_nonl o : no_nl (colsep o) = true.
Proof. unfold colsep. destruct (o_boxed o), (o_unicode o); reflexivity. Qed.
Lemma frmt_nonl o s : no_nl s = true -> no_nl (frmt o s) = true.
Proof. intros H. unfold frmt. destruct (o_boxed o), (o_unicode o); rewrite ?no_nl_app, ?H; auto. Qed.

Lemma py_str_nonl v : scalar v = true -> cell_valid v = true -> cell_nonl v = true -> no_nl (py_str v) = true.
Proof.
  intros Hs Hv Hn. destruct v; try discriminate; cbn [py_str].
  - destruct b; reflexivity.
  - apply numc_no_nl, show_int_numc.
  - apply numc_no_nl, dec_str_numc. apply Z.leb_le. exact Hv.
  - exact Hn.
  - apply numc_no_nl. simpl in Hv. repeat (apply andb_prop in Hv as [Hv ?]).
    repeat match goal with H : (_ <=? _) = true |- _ => apply Z.leb_le in H end.
    rewrite !allc_app, !zpad_numc by lia. reflexivity.
  - exact Hn.
Qed.

Lemma dec_format_nonl st d : 0 <= dcoef d -> no_nl (dec_format st d) = true.
Proof.
  intros Hc. pose proof (numc_no_nl _ (dec_str_numc d Hc)) as H. destruct st as [ni nf]. unfold dec_format.
  destruct (0 <? dexp d); unfold ljust, rjust; rewrite !no_nl_app, ?spaces_nonl, H; reflexivity.
Qed.

Lemma set_format_nonl sep l : no_nl sep = true -> forallb no_nl l = true -> no_nl (set_format sep l) = true.
Proof.
  intros Hs Hl. unfold set_format. apply allc_join; [exact Hs|].
  apply Forall_forall. intros x Hx. unfold sort_strs in Hx.
  apply (Permutation_in _ (Permutation_sym (isort_perm _ list_le l))) in Hx.
  rewrite forallb_forall in Hl. apply Hl. exact Hx.
Qed.

Section NoNl.
Variable quant : dec -> str -> dec.
Variable numfmt : list (dec * str) -> dec -> str -> str.

Lemma format_nonl o t st v : exact_type t = true -> cell_ok t v = true -> cell_valid v = true -> cell_nonl v = true ->
  no_nl (o_null o) = true -> no_nl (o_listsep o) = true ->
  no_nl (cell_str (render_cell numfmt o (t, st) v)) = true.
Proof.
  intros Ht Hok Hv Hn Hnull Hsep. unfold render_cell. cbn [fst snd].
  destruct v; [exact Hnull|..]; destruct t; try discriminate; simpl in Hok; try discriminate;
    try (destruct st; cbn [st_format cell_str]; apply py_str_nonl; auto; fail).
  - cbn [st_format cell_str]. destruct b; reflexivity.
  - destruct st; cbn [st_format cell_str]; try (apply py_str_nonl; auto; fail).
    apply dec_format_nonl. apply Z.leb_le. exact Hv.
  - cbn [st_format cell_str]. apply numc_no_nl, date_str_numc. exact Hv.
  - cbn [st_format cell_str]. apply set_format_nonl; assumption.
Qed.
End NoNl.

(* ------------------------------------------------------------------ tables of exact datatypes: one line per row *)
Lemma exact_desc_Forall desc : exact_desc desc -> Forall (fun d : str * dtype => exact_type (snd d) = true) desc.
Proof.
  intros H. apply Forall_forall. intros d Hin. destruct (In_nth _ _ d0 Hin) as [j [Hj <-]]. apply H. exact Hj.
Qed.

Lemma Forall_map2 {A B C} (P : C -> Prop) (f : A -> B -> C) la lb :
  (forall a b, In a la -> In b lb -> P (f a b)) -> Forall P (map2 f la lb).
Proof.
  revert lb; induction la as [|a ta IH]; intros [|b tb] H; simpl; constructor.
  - apply H; simpl; auto.
  - apply IH. intros; apply H; simpl; auto.
Qed.

Section ExactRows.
Variable quant : dec -> str -> dec.
Variable numfmt : list (dec * str) -> dec -> str -> str.

Lemma col_states_exact o desc rows : exact_desc desc ->
  Forall (fun ts : dtype * rstate => exact_type (fst ts) = true) (col_states quant o desc rows).
Proof.
  intros He. unfold col_states. apply Forall_map2. intros i d _ Hd. cbn [fst].
  pose proof (exact_desc_Forall desc He) as HF. rewrite Forall_forall in HF. apply HF. exact Hd.
Qed.

Lemma not_many_exact o t st v : exact_type t = true -> is_many (render_cell numfmt o (t, st) v) = false.
Proof. intros Ht. unfold render_cell. cbn [fst snd]. destruct v; try reflexivity; destruct t; try discriminate; destruct st; reflexivity. Qed.

Lemma existsb_many_exact o sts row : Forall (fun ts : dtype * rstate => exact_type (fst ts) = true) sts ->
  existsb is_many (map2 (render_cell numfmt o) sts row) = false.
Proof.
  intros HF; revert row; induction HF as [|[t st] sts Ht HF IH]; intros [|v row]; simpl; auto.
  rewrite (not_many_exact o t st v Ht). apply IH.
Qed.

Definition row_cells (o : opts) (sts : list (dtype * rstate)) (row : list cellv) : list str :=
  map cell_str (map2 (render_cell numfmt o) sts row).
Definition spacer (o : opts) (sts : list (dtype * rstate)) : list (list str) :=
  if o_spaced o then [map (fun _ => []) sts] else [].

Lemma render_row_exact o sts row : Forall (fun ts : dtype * rstate => exact_type (fst ts) = true) sts ->
  render_row numfmt o sts row = row_cells o sts row :: spacer o sts.
Proof. intros HF. unfold render_row. rewrite existsb_many_exact by exact HF. reflexivity. Qed.

Lemma row_lines_exact o desc r : Forall (fun d : str * dtype => exact_type (snd d) = true) desc -> row_lines o desc r = 1%nat.
Proof.
  intros HF. unfold row_lines. destruct (o_expand o); [|reflexivity].
  assert (nmax (map2 (fun (d : str * dtype) v => inv_lines (snd d) v) desc r) = 0)%nat as ->; [|reflexivity].
  revert r; induction HF as [|d t Hd HF IH]; intros [|v r]; simpl; auto.
  rewrite IH. destruct (snd d); try discriminate; reflexivity.
Qed.

Lemma render_rows_length_exact o desc rows : exact_desc desc ->
  length (render_rows numfmt o (col_states quant o desc rows) rows)
  = fold_right (fun r a => (row_lines o desc r + (if o_spaced o then 1 else 0) + a)%nat) 0%nat rows.
Proof.
  intros He. pose proof (col_states_exact o desc rows He) as HS. pose proof (exact_desc_Forall desc He) as HD.
  unfold render_rows. generalize (col_states quant o desc rows) HS. clear HS. intros sts Hsts.
  induction rows as [|r rows IH]; [reflexivity|].
  cbn [flat_map fold_right]. rewrite app_length, IH. rewrite (render_row_exact o sts r Hsts). rewrite (row_lines_exact o desc r HD).
  unfold spacer. destruct (o_spaced o); simpl; lia.
Qed.

Lemma text_lines_length o desc rows : exact_desc desc ->
  length (text_lines quant numfmt o desc rows) = expected_lines o desc rows.
Proof.
  intros He. unfold text_lines, expected_lines. rewrite !app_length, map_length, render_rows_length_exact by exact He.
  destruct (o_boxed o); simpl; lia.
Qed.
End ExactRows.

(* ------------------------------------------------------------------ splitting the text back into its lines *)
Lemma chunks_unlines W (L : list str) : Forall (fun l => length l = W) L ->
  chunks (length L) (W + 1) (unlines L) = map (fun l => l ++ [10]) L.
Proof.
  induction 1 as [|l L Hl HF IH]; [reflexivity|].
  cbn [length chunks unlines flat_map map].
  assert (E : length (l ++ [10]) = (W + 1)%nat) by (rewrite app_length; simpl; lia).
  rewrite firstn_app, <- E, Nat.sub_diag, firstn_all, firstn_O, app_nil_r. f_equal.
  rewrite skipn_app, Nat.sub_diag, skipn_all. cbn [skipn app]. rewrite E. exact IH.
Qed.

Lemma unlines_length W (L : list str) : Forall (fun l => length l = W) L -> length (unlines L) = (length L * (W + 1))%nat.
Proof.
  induction 1 as [|l L Hl HF IH]; [reflexivity|]. cbn [unlines flat_map length]. fold (unlines L).
  rewrite !app_length, IH. simpl. lia.
Qed.

Lemma split_rect_unlines W (L : list str) : (1 <= length L)%nat ->
  Forall (fun l => length l = W) L -> Forall (fun l => no_nl l = true) L ->
  split_rect (length L) (unlines L) = Some L.
Proof.
  intros Hn HW HN. unfold split_rect. rewrite (unlines_length W L HW).
  assert (Ek : (length L * (W + 1) / length L = W + 1)%nat).
  { rewrite Nat.mul_comm. apply Nat.div_mul. lia. }
  rewrite Ek, Nat.eqb_refl. replace (1 <=? W + 1)%nat with true by (symmetry; apply Nat.leb_le; lia).
  cbn [andb]. rewrite (chunks_unlines W L HW). replace (W + 1 - 1)%nat with W by lia.
  assert (H1 : forallb (fun c : list Z => (nth W c 0 =? 10) && no_nl (firstn W c)) (map (fun l => l ++ [10]) L) = true).
  { apply forallb_forall. intros c Hc. apply in_map_iff in Hc as [l [<- Hl]].
    rewrite Forall_forall in HW, HN. pose proof (HW l Hl) as E.
    rewrite app_nth2, E, Nat.sub_diag by lia. cbn [nth].
    rewrite firstn_app, E, Nat.sub_diag, firstn_O, app_nil_r, <- E, firstn_all, (HN l Hl). reflexivity. }
  rewrite H1. f_equal. rewrite map_map. rewrite <- (map_id L) at 2. apply map_ext_in. intros l Hl.
  rewrite Forall_forall in HW. rewrite firstn_app, (HW l Hl), Nat.sub_diag, firstn_O, app_nil_r, <- (HW l Hl), firstn_all. reflexivity.
Qed.

Lemma Forall_map2_nth {A B C} (P : C -> Prop) (f : A -> B -> C) la lb da db :
  (forall j, (j < length la)%nat -> (j < length lb)%nat -> P (f (nth j la da) (nth j lb db))) -> Forall P (map2 f la lb).
Proof.
  revert lb; induction la as [|a ta IH]; intros [|b tb] H; simpl; constructor.
  - apply (H 0%nat); simpl; lia.
  - apply IH. intros j H1 H2. apply (H (S j)); simpl; lia.
Qed.

Lemma no_nl_join (sep : str) (l : list str) : no_nl sep = true -> Forall (fun s => no_nl s = true) l -> no_nl (join sep l) = true.
Proof. apply allc_join. Qed.
Lemma no_nl_repeat c n : nonl c = true -> no_nl (repeat c n) = true.
Proof. apply allc_repeat. Qed.
Lemma no_nl_firstn n (s : str) : no_nl s = true -> no_nl (firstn n s) = true.
Proof. apply allc_firstn. Qed.

Lemma rule_line_nonl o l j r ws : nonl l = true -> nonl j = true -> nonl r = true -> no_nl (rule_line o l j r ws) = true.
Proof.
  intros Hl Hj Hr. unfold rule_line.
  assert (Hc : nonl (rule_char o) = true) by (unfold rule_char; destruct (o_unicode o); reflexivity).
  assert (HS : Forall (fun s : str => no_nl s = true) (map (fun w => repeat (rule_char o) w) ws)).
  { apply Forall_forall. intros s Hs. apply in_map_iff in Hs as [w [<- _]]. apply no_nl_repeat. exact Hc. }
  cbv zeta. destruct (o_boxed o).
  - rewrite !no_nl_app. rewrite no_nl_join; [|cbn; fold (nonl (rule_char o)) (nonl j); rewrite Hc, Hj; reflexivity|exact HS].
    cbn. fold (nonl l) (nonl (rule_char o)) (nonl r). rewrite Hl, Hc, Hr. reflexivity.
  - apply no_nl_join; [apply colsep_nonl|exact HS].
Qed.

Section LinesNoNl.
Variable quant : dec -> str -> dec.
Variable numfmt : list (dec * str) -> dec -> str -> str.

Lemma row_cells_nonl o desc rows row : wf_table desc rows -> exact_desc desc -> nl_free o desc rows -> In row rows ->
  Forall (fun c : str => no_nl c = true) (row_cells numfmt o (col_states quant o desc rows) row).
Proof.
  intros Hwf He Hnf Hr. unfold row_cells. apply Forall_forall. intros c Hc. apply in_map_iff in Hc as [x [<- Hx]].
  revert x Hx. apply Forall_forall. destruct (Hwf row Hr) as [Hlen Hcells].
  apply (Forall_map2_nth _ _ _ _ (TObject, SPlain 0) CNull). intros j H1 H2.
  rewrite col_states_length in H1. rewrite col_states_nth by exact H1.
  destruct (Hcells j H1) as [Hok Hval].
  apply format_nonl; auto; try apply Hnf.
  pose proof (nf_cells _ _ _ Hnf row Hr) as HF. rewrite Forall_forall in HF. apply HF. apply nth_In. lia.
Qed.

Lemma rendered_cells_nonl o desc rows cells : wf_table desc rows -> exact_desc desc -> nl_free o desc rows ->
  In cells (render_rows numfmt o (col_states quant o desc rows) rows) -> Forall (fun c : str => no_nl c = true) cells.
Proof.
  intros Hwf He Hnf Hin. unfold render_rows in Hin. apply in_flat_map in Hin as [row [Hr Hin]].
  rewrite render_row_exact in Hin by (apply col_states_exact; exact He).
  destruct Hin as [<-|Hin]; [apply row_cells_nonl; assumption|].
  unfold spacer in Hin. destruct (o_spaced o); [|destruct Hin]. destruct Hin as [<-|[]].
  apply Forall_forall. intros c Hc. apply in_map_iff in Hc as [? [<- _]]. reflexivity.
Qed.

Lemma text_lines_nonl o desc rows : wf_table desc rows -> exact_desc desc -> nl_free o desc rows ->
  Forall (fun l => no_nl l = true) (text_lines quant numfmt o desc rows).
Proof.
  intros Hwf He Hnf. unfold text_lines.
  assert (Hr : forall l j r ws, nonl l = true -> nonl j = true -> nonl r = true -> no_nl (rule_line o l j r ws) = true)
    by (intros; apply rule_line_nonl; assumption).
  repeat (apply Forall_app; split).
  - destruct (o_boxed o); constructor; auto. unfold top_line. destruct (o_unicode o); apply Hr; reflexivity.
  - constructor; [|constructor; [unfold h_line; destruct (o_unicode o); apply Hr; reflexivity|constructor]].
    unfold header_line. apply frmt_nonl. apply no_nl_join; [apply colsep_nonl|].
    apply Forall_map2. intros h w Hh _. apply center_nonl. apply no_nl_firstn.
    apply in_map_iff in Hh as [d [<- Hd]]. pose proof (nf_hdr _ _ _ Hnf) as HF. rewrite Forall_forall in HF. apply HF. exact Hd.
  - apply Forall_forall. intros l Hl. apply in_map_iff in Hl as [cells [<- Hc]].
    pose proof (rendered_cells_nonl o desc rows cells Hwf He Hnf Hc) as HF.
    unfold row_line. apply frmt_nonl. apply no_nl_join; [apply colsep_nonl|].
    apply Forall_map2. intros c wa Hcin _. apply pad_nonl. rewrite Forall_forall in HF. apply HF. exact Hcin.
  - destruct (o_boxed o); constructor; auto. unfold bottom_line. destruct (o_unicode o); apply Hr; reflexivity.
Qed.
End LinesNoNl.

(* ------------------------------------------------------------------ the cell check accepts the model's padded cell *)
Lemma lead_spaces_spaces n (s : str) : lead_spaces (spaces n ++ s) = (n + lead_spaces s)%nat.
Proof. induction n; simpl; auto. Qed.
Lemma spaces_app a b : spaces a ++ spaces b = spaces (a + b).
Proof. unfold spaces. symmetry. apply repeat_app. Qed.

Lemma dec_str_head d : 0 <= dcoef d -> exists c t, dec_str d = c :: t /\ c <> 32.
Proof.
  intros Hc. pose proof (dec_str_numc d Hc) as Hn.
  assert (Hl : (1 <= length (dec_str d))%nat).
  { unfold dec_str. pose proof (dec_nd_pos d) as Hnd. cbv zeta. rewrite app_length, app_length.
    match goal with |- (1 <= _ + (length ?b + _))%nat => assert (1 <= length b)%nat; [|lia] end.
    destruct (_ <=? 0); [simpl; lia|]. destruct (dec_nd d <=? _).
    - rewrite app_length. unfold dec_nd in Hnd. lia.
    - rewrite !app_length. simpl. lia. }
  destruct (dec_str d) as [|c t]; [simpl in Hl; lia|]. exists c, t. split; [reflexivity|].
  simpl in Hn. apply andb_prop in Hn as [Hn _]. apply numc_nosp. exact Hn.
Qed.

Lemma dec_slot st d w : 0 <= dcoef d -> dec_positional d = true -> dec_dom st d -> (dec_width st <= w)%nat ->
  let L := Z.to_nat (fst st - dec_intw d) in
  ljust w (dec_format st d) = ljust w (spaces L ++ dec_str d) /\ lead_spaces (ljust w (dec_format st d)) = L.
Proof.
  intros Hc Hp Hd Hw L.
  pose proof (dec_format_length st d Hc Hd) as HLen.
  destruct (dec_format_aligned st d Hp Hd) as [rest [E Hle]]. fold L in E.
  assert (E0 : (0 <? dexp d) = false).
  { unfold dec_positional in Hp. apply andb_prop in Hp as [H _]. apply Z.leb_le in H. apply Z.ltb_ge. lia. }
  destruct st as [ni nf]. unfold dec_format in *. rewrite E0 in *. cbn [fst] in *.
  fold L in HLen |- *. set (dw := dec_width (ni, nf)) in *.
  rewrite app_length, spaces_length, ljust_length in HLen.
  split.
  - unfold ljust. rewrite !app_length, !spaces_length. rewrite <- !app_assoc. f_equal. f_equal.
    rewrite spaces_app. f_equal. lia.
  - unfold ljust. rewrite <- !app_assoc, lead_spaces_spaces.
    destruct (dec_str_head d Hc) as [c [t [Es Hc32]]]. rewrite Es. cbn [app lead_spaces].
    destruct c as [|p|p]; try lia. do 6 (destruct p as [p|p|]; try lia).
Qed.

Definition anchor_of (st : rstate) : nat := match st with SDec s => Z.to_nat (fst s) | _ => 0%nat end.
Definition anc_ok (A : nat) (a : list (list nat)) : Prop := Forall (fun x => x = [A]) a.

Section CellCheck.
Variable quant : dec -> str -> dec.
Variable numfmt : list (dec * str) -> dec -> str -> str.

Lemma cell_check_nondec o prec t st w v :
  exact_type t = true -> t <> TDecimal -> cell_ok t v = true ->
  cell_check o prec t w v 0 (pad (align_of t) w (cell_str (render_cell numfmt o (t, st) v))) = (0, []).
Proof.
  intros Ht Hnd Hok. unfold render_cell. cbn [fst snd].
  destruct t; try discriminate; try congruence; destruct v; simpl in Hok; try discriminate;
    destruct st; cbn -[str_eqb pad ljust rjust set_format show_int date_str py_str spaces];
    rewrite ?str_eqb_refl; reflexivity.
Qed.

Lemma cell_check_dec o prec vals w v :
  cell_ok TDecimal v = true -> cell_valid v = true -> (forall d, v = CDec d -> dec_positional d = true) ->
  (v = CNull \/ In v vals) ->
  let st := col_prepare quant o TDecimal vals in
  (st_width numfmt st <= w)%nat ->
  exists anc, cell_check o prec TDecimal w v 0 (pad (align_of TDecimal) w (cell_str (render_cell numfmt o (TDecimal, st) v))) = (0, anc)
              /\ anc_ok (anchor_of st) anc.
Proof.
  intros Hok Hval Hpos Hin st Hw. unfold render_cell. cbn [fst snd].
  destruct v; simpl in Hok; try discriminate.
  - exists []. split; [|constructor]. cbn -[str_eqb pad]. rewrite str_eqb_refl. reflexivity.
  - destruct Hin as [Hin|Hin]; [discriminate|].
    unfold st, col_prepare in *. cbn [st_format cell_str align_of pad st_width anchor_of] in *.
    set (s := dec_state (the_decs vals)) in *.
    assert (Hd : dec_dom s d) by (apply dec_state_dom, the_decs_in; exact Hin).
    assert (Hc : 0 <= dcoef d) by (apply Z.leb_le; exact Hval).
    destruct (dec_slot s d w Hc (Hpos d eq_refl) Hd Hw) as [E1 E2].
    cbn [cell_check]. cbv zeta. rewrite E2, E1, str_eqb_refl, (Hpos d eq_refl). cbn [negb].
    eexists. split; [reflexivity|]. constructor; [|constructor]. f_equal. f_equal.
    destruct s as [ni nf]. unfold dec_dom in Hd. cbn [fst]. unfold dec_positional in Hpos.
    pose proof (Hpos d eq_refl) as Hp. apply andb_prop in Hp as [Hp _]. apply Z.leb_le in Hp.
    assert ((0 <? dexp d) = false) as E0 by (apply Z.ltb_ge; lia). rewrite E0 in Hd.
    unfold dec_intw in *. destruct (dneg d); lia.
Qed.
End CellCheck.

(* ------------------------------------------------------------------ rows *)
Lemma first_code_zero l : (forall x, In x l -> x = 0) -> first_code l = 0.
Proof. induction l as [|c t IH]; intros H; simpl; auto. rewrite (H c) by (simpl; auto). simpl. apply IH. intros; apply H; simpl; auto. Qed.

Lemma map2_app_blank {A B} (a : list (list A)) (desc : list B) : length a = length desc ->
  map2 (fun x y => x ++ y) a (map (fun _ => @nil A) desc) = a.
Proof. revert desc; induction a as [|x a IH]; intros [|d desc] H; simpl in *; try discriminate; auto. rewrite app_nil_r, IH by lia. reflexivity. Qed.

Lemma anc_ok_map2_app As a b : Forall2 anc_ok As a -> Forall2 anc_ok As b -> Forall2 anc_ok As (map2 (fun x y => x ++ y) a b).
Proof.
  intros Ha; revert b; induction Ha as [|A x As a Hx Ha IH]; intros b Hb; inversion Hb; subst; simpl; constructor.
  - unfold anc_ok in *. apply Forall_app; split; assumption.
  - apply IH. assumption.
Qed.

Lemma anc_ok_blank {B} As (desc : list B) : length As = length desc -> Forall2 anc_ok As (map (fun _ => []) desc).
Proof. revert desc; induction As; intros [|d desc] H; simpl in *; try discriminate; constructor; [constructor|apply IHAs; lia]. Qed.

Lemma blank_spaces n : blank (spaces n) = true.
Proof. apply allc_repeat. reflexivity. Qed.
Lemma pad_nil a w : pad a w [] = spaces w.
Proof. destruct a; simpl; unfold ljust, rjust; simpl; rewrite ?app_nil_r, Nat.sub_0_r; reflexivity. Qed.


Lemma list_nat_eqb_refl a : list_nat_eqb a a = true.
Proof. induction a; simpl; auto. rewrite Nat.eqb_refl. exact IHa. Qed.

Lemma filter_len_same A a : anc_ok A a -> filter (fun x : list nat => (length x =? 1)%nat) a = a.
Proof. induction 1 as [|x t Hx H IH]; [reflexivity|]. subst x. cbn [filter length Nat.eqb]. rewrite IH. reflexivity. Qed.
Lemma filter_len_other A a k : k <> 1%nat -> anc_ok A a -> filter (fun x : list nat => (length x =? k)%nat) a = [].
Proof.
  intros Hk. induction 1 as [|x t Hx H IH]; [reflexivity|]. subst x. cbn [filter length].
  destruct (1 =? k)%nat eqn:E; [apply Nat.eqb_eq in E; congruence|]. exact IH.
Qed.

Lemma anchors_agree_ok A a : anc_ok A a -> anchors_agree a = true.
Proof.
  intros H. unfold anchors_agree. cbn [forallb].
  rewrite (filter_len_same A a H), (filter_len_other A a 2%nat), (filter_len_other A a 3%nat) by (auto; lia).
  rewrite !andb_true_r.
  destruct H as [|x t Hx H]; [reflexivity|]. subst x.
  apply forallb_forall. intros y Hy. rewrite Forall_forall in H. rewrite (H y Hy). apply list_nat_eqb_refl.
Qed.

Lemma forallb2_map2_r {A B} (P : A -> nat -> bool) (f : A -> B -> nat) (la : list A) : forall lb,
  length lb = length la -> (forall a b, P a (f a b) = true) -> forallb2 P la (map2 f la lb) = true.
Proof.
  induction la as [|a la IH]; intros [|b lb] Hl HP; simpl in *; try discriminate; auto.
  rewrite HP. apply IH; [lia|exact HP].
Qed.

Lemma header_slots_check (desc : list (str * dtype)) : forall ws, length ws = length desc ->
  forallb2 (fun (dw : (str * dtype) * nat) s => header_ok (snd dw) (fst (fst dw)) s) (combine desc ws)
           (header_slots (map fst desc) ws) = true.
Proof.
  induction desc as [|d desc IH]; intros [|w ws] Hl; simpl in *; try discriminate; auto.
  rewrite header_ok_center. apply IH. lia.
Qed.

Lemma last_app_single {A} (l : list A) x d : last (l ++ [x]) d = x.
Proof. apply last_last. Qed.

Lemma Forall2_in_r {A B} (R : A -> B -> Prop) la lb b : Forall2 R la lb -> In b lb -> exists a, R a b.
Proof. induction 1; intros []; subst; eauto. Qed.

Definition all_positional (rows : list (list cellv)) : Prop :=
  forall row, In row rows -> forall d, In (CDec d) row -> dec_positional d = true.

Section Sound.
Variable quant : dec -> str -> dec.
Variable numfmt : list (dec * str) -> dec -> str -> str.
Variable o : opts.
Variable prec : list (str * Z).
Variable desc : list (str * dtype).
Variable rows : list (list cellv).
Hypothesis Hn : (1 <= length desc)%nat.
Hypothesis Hwf : wf_table desc rows.
Hypothesis He : exact_desc desc.
Hypothesis Hpos : all_positional rows.

Let sts := col_states quant o desc rows.
Let ws := table_widths quant numfmt o desc rows.
Let aligns := map (fun d : str * dtype => align_of (snd d)) desc.
Let As := map (fun ts : dtype * rstate => anchor_of (snd ts)) sts.

Lemma hyp_exact : hyp_table quant numfmt o desc rows.
Proof. intros j Hj. specialize (He j Hj). destruct (snd (nth j desc d0)); try discriminate; exact I. Qed.

Lemma Hfits : table_fits quant numfmt o desc rows.
Proof. apply model_table_fits; [exact Hwf|exact hyp_exact]. Qed.

Lemma len_sts : length sts = length desc. Proof. apply col_states_length. Qed.
Lemma len_ws : length ws = length desc. Proof. apply table_widths_length. Qed.
Lemma len_aligns : length aligns = length desc. Proof. apply map_length. Qed.
Lemma len_As : length As = length desc. Proof. unfold As. rewrite map_length. apply len_sts. Qed.

Lemma row_cells_fit r : In r rows -> Forall2 (fun (c : str) w => (length c <= w)%nat) (row_cells numfmt o sts r) ws.
Proof. intros Hr. apply Forall2_cell_str. apply Hfits. exact Hr. Qed.

Lemma row_line_slots r : In r rows ->
  line_slots o ws (row_line o aligns ws (row_cells numfmt o sts r)) = Some (slots_of aligns ws (row_cells numfmt o sts r)).
Proof.
  intros Hr. rewrite row_line_eq. apply line_slots_framed. apply slots_lengths; [apply row_cells_fit; exact Hr|].
  rewrite len_aligns, len_ws. reflexivity.
Qed.

Lemma slot_nth r j : In r rows -> (j < length desc)%nat ->
  nth j (slots_of aligns ws (row_cells numfmt o sts r)) []
  = pad (align_of (snd (nth j desc d0))) (nth j ws 0%nat)
        (cell_str (render_cell numfmt o (nth j sts (TObject, SPlain 0)) (nth j r CNull))).
Proof.
  intros Hr Hj. destruct (Hwf r Hr) as [Hlen _].
  unfold slots_of. rewrite (map2_nth _ _ _ j (@nil Z) (0%nat, ALeft) (@nil Z)).
  - rewrite combine_nth by (rewrite len_ws, len_aligns; reflexivity). cbn [fst snd].
    unfold aligns. change ALeft with (align_of (snd d0)). rewrite (map_nth (fun d : str * dtype => align_of (snd d))).
    unfold row_cells. change (@nil Z) with (cell_str (One [])). rewrite map_nth.
    rewrite (map2_nth _ _ _ _ (TObject, SPlain 0) CNull) by (rewrite ?len_sts; lia). reflexivity.
  - unfold row_cells. rewrite map_length, map2_length, len_sts. lia.
  - rewrite combine_length, len_ws, len_aligns. lia.
Qed.

Lemma cell_j r j : In r rows -> (j < length desc)%nat ->
  exists anc,
    cell_check o prec (snd (nth j desc d0)) (nth j ws 0%nat) (nth j r CNull) 0
      (nth j (slots_of aligns ws (row_cells numfmt o sts r)) []) = (0, anc)
    /\ anc_ok (nth j As 0%nat) anc.
Proof.
  intros Hr Hj. destruct (Hwf r Hr) as [Hlen Hcells]. destruct (Hcells j Hj) as [Hok Hval].
  assert (HA : nth j As 0%nat = anchor_of (col_prepare quant o (snd (nth j desc d0)) (column j rows))).
  { unfold As. change 0%nat with (anchor_of (snd (TObject, SPlain 0))).
    rewrite (map_nth (fun ts : dtype * rstate => anchor_of (snd ts))). unfold sts. rewrite col_states_nth by exact Hj. reflexivity. }
  rewrite HA. clear HA.
  rewrite slot_nth by assumption. unfold sts. rewrite col_states_nth by exact Hj.
  unfold ws. rewrite table_widths_nth by exact Hj.
  pose proof (He j Hj) as Hex.
  remember (snd (nth j desc d0)) as t eqn:Et. remember (nth j r CNull) as v eqn:Ev.
  destruct t; try discriminate Hex;
    try (eexists; split; [apply cell_check_nondec; [reflexivity|discriminate|exact Hok]|constructor]).
  apply cell_check_dec; auto.
  - intros d Hd. apply (Hpos r Hr). rewrite <- Hd, Ev. apply nth_In. lia.
  - destruct v; auto; right; eapply column_in; try exact Hr; try (symmetry; exact Ev); try discriminate; lia.
  - unfold col_width. lia.
Qed.

Lemma row_check_model r : In r rows ->
  exists anc, row_check o prec desc ws r [row_line o aligns ws (row_cells numfmt o sts r)] = (0, anc)
              /\ Forall2 anc_ok As anc.
Proof.
  intros Hr. destruct (Hwf r Hr) as [Hlen _].
  unfold row_check. cbn [length seq map2 map fold_right]. rewrite (row_line_slots r Hr).
  set (slots := slots_of aligns ws (row_cells numfmt o sts r)).
  assert (Hsl : length slots = length desc).
  { unfold slots, slots_of. rewrite map2_length, combine_length, len_ws, len_aligns.
    unfold row_cells. rewrite map_length, map2_length, len_sts. lia. }
  set (cs := map2 (fun (dw : (str * dtype) * nat) (vs : cellv * str) =>
                     cell_check o prec (snd (fst dw)) (snd dw) (fst vs) 0 (snd vs)) (combine desc ws) (combine r slots)).
  assert (Hcl : length cs = length desc).
  { unfold cs. rewrite map2_length, !combine_length, len_ws, Hsl. lia. }
  assert (Hcj : forall j, (j < length desc)%nat -> exists anc, nth j cs (0, []) = (0, anc) /\ anc_ok (nth j As 0%nat) anc).
  { intros j Hj. unfold cs. rewrite (map2_nth _ _ _ j (d0, 0%nat) (CNull, @nil Z) (0, [])) by (rewrite !combine_length, ?len_ws, ?Hsl; lia).
    rewrite (combine_nth desc ws) by (rewrite len_ws; reflexivity).
    rewrite (combine_nth r slots) by (rewrite Hsl; exact Hlen). cbn [fst snd]. apply cell_j; assumption. }
  assert (H0 : first_code (map fst cs) = 0).
  { apply first_code_zero. intros x Hx. apply in_map_iff in Hx as [c [<- Hc]].
    destruct (In_nth _ _ (0, []) Hc) as [j [Hj <-]]. rewrite Hcl in Hj. destruct (Hcj j Hj) as [anc [E _]]. rewrite E. reflexivity. }
  rewrite H0. cbn [first_code Z.eqb fst snd].
  assert (Hms : length (map snd cs) = length desc) by (rewrite map_length; exact Hcl).
  rewrite (map2_app_blank (map snd cs) desc Hms).
  eexists. split; [reflexivity|].
  apply (Forall2_nth _ _ _ 0%nat []); [rewrite len_As, map_length, Hcl; reflexivity|].
  intros j Hj. rewrite len_As in Hj. destruct (Hcj j Hj) as [anc [E Ha]].
  change (@nil (list nat)) with (snd (0, @nil (list nat))). rewrite map_nth, E. exact Ha.
Qed.

Lemma spacer_line_ok :
  line_slots o ws (row_line o aligns ws (map (fun _ => []) sts)) = Some (slots_of aligns ws (map (fun _ => []) sts))
  /\ forallb blank (slots_of aligns ws (map (fun _ => []) sts)) = true.
Proof.
  split.
  - rewrite row_line_eq. apply line_slots_framed. apply slots_lengths; [apply Forall2_blank; rewrite len_sts, len_ws; reflexivity|].
    rewrite len_aligns, len_ws. reflexivity.
  - apply forallb_forall. intros s Hs. unfold slots_of in Hs.
    assert (HF : Forall (fun s : str => blank s = true)
              (map2 (fun (x : str) (wa : nat * align) => pad (snd wa) (fst wa) x) (map (fun _ => []) sts) (combine ws aligns))).
    { apply Forall_map2. intros a b Ha _. apply in_map_iff in Ha as [? [<- _]]. rewrite pad_nil. apply blank_spaces. }
    rewrite Forall_forall in HF. apply HF. exact Hs.
Qed.

Definition model_row_lines (r : list cellv) : list str :=
  map (row_line o aligns ws) (row_cells numfmt o sts r :: spacer o sts).

Lemma rows_check_model rs : (forall r, In r rs -> In r rows) ->
  exists anc, rows_check o prec desc ws rs (flat_map model_row_lines rs) = (0, anc) /\ Forall2 anc_ok As anc.
Proof.
  pose proof (exact_desc_Forall desc He) as HD.
  induction rs as [|r rs IH]; intros Hsub.
  - cbn. eexists. split; [reflexivity|]. apply anc_ok_blank. apply len_As.
  - destruct (row_check_model r (Hsub r (or_introl eq_refl))) as [a1 [E1 A1]].
    destruct IH as [a3 [E3 A3]]; [intros; apply Hsub; right; assumption|].
    destruct spacer_line_ok as [S1 S2].
    cbn [rows_check flat_map]. rewrite (row_lines_exact o desc r HD).
    assert (EL : model_row_lines r = row_line o aligns ws (row_cells numfmt o sts r) :: map (row_line o aligns ws) (spacer o sts)) by reflexivity.
    rewrite EL. clear EL. unfold spacer. destruct (o_spaced o) eqn:Esp.
    + cbn [map app firstn skipn]. rewrite E1, S1, S2, E3. cbn [guard first_code Z.eqb].
      eexists. split; [reflexivity|]. apply anc_ok_map2_app; assumption.
    + cbn [map app firstn skipn]. rewrite E1, E3. cbn [first_code Z.eqb].
      eexists. split; [reflexivity|]. apply anc_ok_map2_app; assumption.
Qed.

Hypothesis Hnf : nl_free o desc rows.

Lemma body_lines_gen rs : map (row_line o aligns ws) (flat_map (render_row numfmt o sts) rs) = flat_map model_row_lines rs.
Proof.
  pose proof (col_states_exact quant o desc rows He) as HS. fold sts in HS.
  induction rs as [|r rs IH]; [reflexivity|]. cbn [flat_map]. rewrite map_app, IH.
  rewrite (render_row_exact numfmt o sts r HS). reflexivity.
Qed.
Lemma body_lines : map (row_line o aligns ws) (render_rows numfmt o sts rows) = flat_map model_row_lines rows.
Proof. apply body_lines_gen. Qed.

Lemma ws_ge1 : Forall (fun w => (1 <= w)%nat) ws.
Proof. unfold ws, table_widths. apply Forall_map2. intros. unfold col_width. lia. Qed.

Theorem check_table_model :
  check_table_code o prec desc rows (unlines (text_lines quant numfmt o desc rows)) = 0.
Proof.
  unfold check_table_code.
  assert (Har : forallb (fun r : list cellv => (length r =? length desc)%nat) rows = true).
  { apply forallb_forall. intros r Hr. destruct (Hwf r Hr) as [Hl _]. apply Nat.eqb_eq. exact Hl. }
  rewrite Har. cbn [negb].
  set (L := text_lines quant numfmt o desc rows).
  rewrite <- (text_lines_length quant numfmt o desc rows He). fold L.
  assert (HLn : (1 <= length L)%nat).
  { unfold L, text_lines. rewrite !app_length. simpl. lia. }
  rewrite (split_rect_unlines (linew o ws) L HLn (text_lines_rect quant numfmt o desc rows Hn Hfits)
             (text_lines_nonl quant numfmt o desc rows Hwf He Hnf)).
  assert (Hne : ws <> []) by (intros E; pose proof len_ws as H; rewrite E in H; simpl in H; lia).
  pose proof (widths_of_h_line o ws Hne ws_ge1 (ltac:(destruct (o_unicode o); auto))) as HW.
  pose proof body_lines as HB.
  destruct (rows_check_model rows (fun r H => H)) as [anc [ER HA]].
  assert (Hfin : first_code (map2 (fun (d : str * dtype) a => guard (anchors_agree a)
                       (match snd d with TDecimal => 10 | _ => 12 end)) desc anc) = 0).
  { apply first_code_zero. intros x Hx.
    assert (HF : Forall (fun x => x = 0) (map2 (fun (d : str * dtype) a => guard (anchors_agree a)
                       (match snd d with TDecimal => 10 | _ => 12 end)) desc anc)).
    { apply Forall_map2. intros d a _ Ha. destruct (Forall2_in_r _ _ _ a HA Ha) as [A HAa].
      rewrite (anchors_agree_ok A a HAa). reflexivity. }
    rewrite Forall_forall in HF. apply HF. exact Hx. }
  assert (Hwok : forallb2 (fun (d : str * dtype) w => width_ok o (fst d) w) desc ws = true).
  { unfold ws, table_widths. apply forallb2_map2_r; [apply col_states_length|]. intros. apply width_ok_col_width. }
  pose proof (header_slots_ok quant numfmt o desc rows) as HH. cbv zeta in HH. change (table_widths quant numfmt o desc rows) with ws in HH.
  pose proof (header_slots_check desc ws len_ws) as HHC.
  unfold L, text_lines.
  change (table_widths quant numfmt o desc rows) with ws.
  change (col_states quant o desc rows) with sts.
  change (map (fun d : str * dtype => align_of (snd d)) desc) with aligns.
  destruct (o_boxed o) eqn:B.
  - cbn [app nth Nat.add]. rewrite HW, len_ws, Nat.eqb_refl, str_eqb_refl, str_eqb_refl.
    rewrite app_comm_cons. rewrite !app_comm_cons. rewrite last_app_single, str_eqb_refl. cbn [andb orb negb].
    rewrite Hwok. cbn [negb]. rewrite HH, HHC. cbn [negb].
    rewrite <- !app_comm_cons. cbn [skipn length]. rewrite app_length. cbn [length].
    replace (S (S (S (length (map (row_line o aligns ws) (render_rows numfmt o sts rows)) + 1))) - 3 - 1)%nat
      with (length (map (row_line o aligns ws) (render_rows numfmt o sts rows))) by lia.
    rewrite firstn_app, Nat.sub_diag, firstn_all, firstn_O, app_nil_r, HB, ER. cbn [Z.eqb negb]. exact Hfin.
  - cbn [app nth Nat.add]. rewrite app_nil_r. rewrite HW, len_ws, Nat.eqb_refl, str_eqb_refl. cbn [andb orb negb].
    rewrite Hwok. cbn [negb]. rewrite HH, HHC. cbn [negb skipn length].
    replace (S (S (length (map (row_line o aligns ws) (render_rows numfmt o sts rows)))) - 2 - 0)%nat
      with (length (map (row_line o aligns ws) (render_rows numfmt o sts rows))) by lia.
    rewrite firstn_all, HB, ER. cbn [Z.eqb negb]. exact Hfin.
Qed.
End Sound.

(* ------------------------------------------------------------------ read-back of date and decimal cells *)
Definition nosp (c : Z) : bool := negb (c =? 32).
Lemma numc_allnosp s : allc numc s = true -> allc nosp s = true.
Proof. apply allc_impl. intros c H. unfold nosp. destruct (c =? 32) eqn:E; [apply Z.eqb_eq in E; subst; discriminate|reflexivity]. Qed.

Lemma lstrip_spaces_all n : lstrip (spaces n) = [].
Proof. unfold lstrip. replace (spaces n) with (spaces n ++ []) by apply app_nil_r. rewrite lead_spaces_spaces. simpl. rewrite Nat.add_0_r, app_nil_r. apply skipn_all2. rewrite spaces_length. lia. Qed.
Lemma lstrip_spaces_cons n c (t : str) : c <> 32 -> lstrip (spaces n ++ c :: t) = c :: t.
Proof.
  intros Hc. unfold lstrip. rewrite lead_spaces_spaces.
  assert (lead_spaces (c :: t) = 0%nat) as ->.
  { destruct c as [|p|p]; try reflexivity. do 6 (destruct p as [p|p|]; try reflexivity). congruence. }
  rewrite Nat.add_0_r, skipn_app, spaces_length, Nat.sub_diag, skipn_all2 by (rewrite spaces_length; lia). reflexivity.
Qed.
Lemma lstrip_nosp n (s t : str) : allc nosp s = true -> s <> [] -> lstrip (spaces n ++ s ++ t) = s ++ t.
Proof.
  intros Hs Hne. destruct s as [|c s']; [congruence|]. simpl in Hs. apply andb_prop in Hs as [Hc _].
  cbn [app]. apply lstrip_spaces_cons. intros ->. discriminate.
Qed.
Lemma rev_spaces n : rev (spaces n) = spaces n.
Proof. unfold spaces. induction n; [reflexivity|]. simpl. rewrite IHn. clear. induction n; simpl; [reflexivity|]. rewrite <- IHn. reflexivity. Qed.
Lemma allc_rev P (s : str) : allc P s = true -> allc P (rev s) = true.
Proof. intros H. unfold allc. apply forallb_forall. intros c Hc. apply in_rev in Hc. eapply allc_in; eassumption. Qed.

(* stripping a padded cell gives back the cell text (texts without spaces) *)
Lemma strip_padded l r (s : str) : allc nosp s = true -> strip (spaces l ++ s ++ spaces r) = s.
Proof.
  intros Hs. unfold strip. destruct s as [|c s'] eqn:Es.
  - cbn [app]. rewrite spaces_app, lstrip_spaces_all. reflexivity.
  - rewrite <- Es in *. assert (Hne : s <> []) by (rewrite Es; discriminate).
    rewrite (lstrip_nosp l s (spaces r) Hs Hne).
    unfold rstrip. rewrite rev_app_distr, rev_spaces.
    replace (spaces r ++ rev s) with (spaces r ++ rev s ++ []) by (rewrite app_nil_r; reflexivity).
    rewrite lstrip_nosp; [rewrite app_nil_r; apply rev_involutive|apply allc_rev; exact Hs|].
    intros E. apply (f_equal (@rev Z)) in E. rewrite rev_involutive in E. simpl in E. congruence.
Qed.

(* dates *)
Lemma split_on_nochar c (a : str) : allc (fun x => negb (x =? c)) a = true -> split_on c a = [a].
Proof.
  induction a as [|x a IH]; intros H; [reflexivity|]. simpl in H. apply andb_prop in H as [H1 H2].
  cbn [split_on]. apply negb_true_iff in H1. rewrite H1, (IH H2). reflexivity.
Qed.
Lemma split_on_app c (a b : str) : allc (fun x => negb (x =? c)) a = true -> split_on c (a ++ c :: b) = a :: split_on c b.
Proof.
  induction a as [|x a IH]; intros H.
  - cbn [app split_on]. rewrite Z.eqb_refl. reflexivity.
  - simpl in H. apply andb_prop in H as [H1 H2]. cbn [app split_on]. apply negb_true_iff in H1. rewrite H1, (IH H2). reflexivity.
Qed.
Lemma digits_nodash s : forallb is_digit s = true -> allc (fun x => negb (x =? 45)) s = true.
Proof. apply allc_impl. intros c H. destruct (c =? 45) eqn:E; [apply Z.eqb_eq in E; subst; discriminate|reflexivity]. Qed.

Lemma pnat_zeros k (s : str) : pnat (repeat 48 k ++ s) = pnat s.
Proof. unfold pnat. induction k; [reflexivity|]. cbn [repeat app fold_left]. exact IHk. Qed.
Lemma zpad_digits w n : 0 <= n -> forallb is_digit (zpad w n) = true.
Proof. intros. unfold zpad. rewrite forallb_app, show_nat_digits by lia. rewrite andb_true_r. apply (allc_repeat is_digit). reflexivity. Qed.
Lemma parse_nat_zpad w n : 0 <= n -> parse_nat (zpad w n) = Some n.
Proof.
  intros Hn. unfold parse_nat. pose proof (zpad_digits w n Hn) as Hd.
  assert (Hne : zpad w n <> []).
  { unfold zpad. pose proof (show_nat_nonempty n). destruct (repeat 48 _); simpl; [assumption|discriminate]. }
  destruct (zpad w n) eqn:E; [congruence|]. rewrite <- E. rewrite (zpad_digits w n Hn). f_equal.
  unfold zpad. fold (pnat (repeat 48 (w - length (show_nat n)) ++ show_nat n)). rewrite pnat_zeros. apply show_nat_pnat. lia.
Qed.

Theorem readback_date y m d l r : 0 <= y -> 0 <= m -> 0 <= d ->
  parse_date (strip (spaces l ++ date_str y m d ++ spaces r)) = Some (y, m, d).
Proof.
  intros Hy Hm Hd.
  assert (Hn : allc numc (date_str y m d) = true).
  { unfold date_str. rewrite !allc_app, show_nat_numc, !zpad_numc by lia. reflexivity. }
  rewrite strip_padded by (apply numc_allnosp; exact Hn).
  unfold parse_date, date_str. cbn [app].
  rewrite split_on_app by (apply digits_nodash, show_nat_digits; lia).
  rewrite split_on_app by (apply digits_nodash, zpad_digits; lia).
  rewrite split_on_nochar by (apply digits_nodash, zpad_digits; lia).
  rewrite parse_nat_show, !parse_nat_zpad by lia. reflexivity.
Qed.

(* decimals *)
Lemma parse_nat_digits (s : str) : s <> [] -> forallb is_digit s = true -> parse_nat s = Some (pnat s).
Proof. intros Hne Hd. unfold parse_nat. destruct s; [congruence|]. rewrite Hd. reflexivity. Qed.

Lemma span_digits_app (ip rest : str) : forallb is_digit ip = true ->
  (rest = [] \/ exists c t, rest = c :: t /\ is_digit c = false) -> span_digits (ip ++ rest) = (ip, rest).
Proof.
  intros Hd Hr. induction ip as [|x ip IH].
  - cbn [app]. destruct Hr as [->|[c [t [-> Hc]]]]; [reflexivity|]. cbn [span_digits]. rewrite Hc. reflexivity.
  - cbn [forallb] in Hd. apply andb_prop in Hd as [H1 H2]. cbn [app span_digits]. rewrite H1, (IH H2). reflexivity.
Qed.

Definition parse_unsigned (neg : bool) (s1 : str) : option (dec * nat) :=
  let '(ip, s2) := span_digits s1 in
  match ip with
  | [] => None
  | _ =>
    let intlen := ((if neg then 1 else 0) + length ip)%nat in
    match s2 with
    | [] => option_map (fun c => (mkdec neg c 0, intlen)) (parse_nat ip)
    | 46 :: fr =>
        match fr with
        | [] => None
        | _ => if forallb is_digit fr
               then option_map (fun c => (mkdec neg c (- Z.of_nat (length fr)), intlen)) (parse_nat (ip ++ fr))
               else None
        end
    | _ => None
    end
  end.
Lemma parse_num_neg t : parse_num (45 :: t) = parse_unsigned true t.
Proof. reflexivity. Qed.
Lemma parse_num_pos c t : is_digit c = true -> parse_num (c :: t) = parse_unsigned false (c :: t).
Proof.
  intros H. unfold parse_num, parse_unsigned.
  destruct c as [|p|p]; try reflexivity. do 6 (destruct p as [p|p|]; try reflexivity). discriminate.
Qed.

Lemma parse_unsigned_int neg (ip : str) : ip <> [] -> forallb is_digit ip = true ->
  parse_unsigned neg ip = Some (mkdec neg (pnat ip) 0, ((if neg then 1 else 0) + length ip)%nat).
Proof.
  intros Hne Hd. unfold parse_unsigned. rewrite <- (app_nil_r ip) at 1. rewrite span_digits_app by auto.
  destruct ip; [congruence|]. rewrite parse_nat_digits by (auto; discriminate). reflexivity.
Qed.
Lemma parse_unsigned_frac neg (ip fr : str) : ip <> [] -> fr <> [] -> forallb is_digit ip = true -> forallb is_digit fr = true ->
  parse_unsigned neg (ip ++ 46 :: fr)
  = Some (mkdec neg (pnat (ip ++ fr)) (- Z.of_nat (length fr)), ((if neg then 1 else 0) + length ip)%nat).
Proof.
  intros Hi Hf Hdi Hdf. unfold parse_unsigned. rewrite span_digits_app by (auto; right; eexists _, _; split; reflexivity).
  destruct ip as [|x ip]; [congruence|]. destruct fr as [|y fr]; [congruence|]. rewrite Hdf.
  rewrite parse_nat_digits; [reflexivity|discriminate|]. rewrite forallb_app, Hdi, Hdf. reflexivity.
Qed.

Lemma pnat_firstn_skipn n (s : str) : pnat (firstn n s ++ skipn n s) = pnat s.
Proof. rewrite firstn_skipn. reflexivity. Qed.

Theorem parse_num_dec_str d : 0 <= dcoef d -> dec_positional d = true ->
  parse_num (dec_str d) = Some (d, Z.to_nat (dec_intw d)).
Proof.
  intros Hc Hp. pose proof (dec_nd_pos d) as Hnd.
  pose proof (show_nat_digits (dcoef d) Hc) as Hdig. pose proof (show_nat_pnat (dcoef d) Hc) as Hpn.
  pose proof (show_nat_nonempty (dcoef d)) as Hne.
  assert (Hbody : forall neg,
    parse_unsigned neg
      (if dec_leftdigits d <=? 0 then [48; 46] ++ zeros (- dec_leftdigits d) ++ dec_digits d
       else if dec_nd d <=? dec_leftdigits d then dec_digits d ++ zeros (dec_leftdigits d - dec_nd d)
       else firstn (Z.to_nat (dec_leftdigits d)) (dec_digits d) ++ [46] ++ skipn (Z.to_nat (dec_leftdigits d)) (dec_digits d))
    = Some (mkdec neg (dcoef d) (dexp d), Z.to_nat (Z.max 1 (dec_nd d + dexp d) + (if neg then 1 else 0)))).
  { intros neg. unfold dec_positional, dec_leftdigits in *. apply andb_prop in Hp as [H1 H2].
    apply Z.leb_le in H1. apply Z.ltb_lt in H2. unfold dec_nd, dec_digits in *.
    destruct (dexp d + Z.of_nat (length (show_nat (dcoef d))) <=? 0) eqn:E1.
    - apply Z.leb_le in E1.
      set (fr := zeros (- (dexp d + Z.of_nat (length (show_nat (dcoef d))))) ++ show_nat (dcoef d)).
      assert (Hfr1 : fr <> []) by (unfold fr; intros E; apply app_eq_nil in E as [_ E]; congruence).
      assert (Hfr2 : forallb is_digit fr = true).
      { unfold fr. rewrite forallb_app, Hdig, andb_true_r. apply (allc_repeat is_digit). reflexivity. }
      pose proof (parse_unsigned_frac neg [48] fr ltac:(discriminate) Hfr1 eq_refl Hfr2) as HF.
      change ([48; 46] ++ fr) with ([48] ++ 46 :: fr). rewrite HF. f_equal. f_equal.
      + f_equal; [|unfold fr; rewrite app_length, zeros_length; lia].
        change ([48] ++ fr) with (repeat 48 1 ++ fr). rewrite pnat_zeros. unfold fr, zeros. rewrite pnat_zeros. exact Hpn.
      + destruct neg; cbn [length]; lia.
    - apply Z.leb_gt in E1.
      destruct (Z.of_nat (length (show_nat (dcoef d))) <=? dexp d + Z.of_nat (length (show_nat (dcoef d)))) eqn:E2.
      + apply Z.leb_le in E2. assert (dexp d = 0) by lia.
        replace (dexp d + Z.of_nat (length (show_nat (dcoef d))) - Z.of_nat (length (show_nat (dcoef d)))) with 0 by lia.
        change (zeros 0) with (@nil Z). rewrite app_nil_r. rewrite parse_unsigned_int by assumption.
        f_equal. f_equal; [f_equal; lia|]. destruct neg; lia.
      + apply Z.leb_gt in E2. change ([46] ++ ?x) with (46 :: x).
        set (L := Z.to_nat (dexp d + Z.of_nat (length (show_nat (dcoef d))))).
        assert (HL1 : (1 <= L)%nat) by (unfold L; lia).
        assert (HL2 : (L < length (show_nat (dcoef d)))%nat) by (unfold L; lia).
        rewrite parse_unsigned_frac.
        * rewrite pnat_firstn_skipn, skipn_length, firstn_length. f_equal. f_equal; [f_equal; lia|]. unfold L. destruct neg; lia.
        * intros E. apply (f_equal (@length Z)) in E. rewrite firstn_length in E. simpl in E. lia.
        * intros E. apply (f_equal (@length Z)) in E. rewrite skipn_length in E. simpl in E. lia.
        * apply (allc_firstn is_digit). exact Hdig.
        * apply (allc_skipn is_digit). exact Hdig. }
  unfold dec_str. rewrite Hp. cbv zeta. rewrite Z.eqb_refl, app_nil_r.
  destruct d as [neg coef ex]. cbn [dneg dcoef dexp] in *. unfold dec_intw. cbn [dneg dexp].
  destruct neg.
  - cbn [app]. rewrite parse_num_neg. apply Hbody.
  - cbn [app]. specialize (Hbody false).
    assert (Hhead : forall s r, parse_unsigned false s = Some r -> parse_num s = Some r).
    { intros s r H. destruct s as [|c t]; [discriminate H|].
      destruct (is_digit c) eqn:Ec; [rewrite parse_num_pos by exact Ec; exact H|].
      unfold parse_unsigned in H. cbn [span_digits] in H. rewrite Ec in H. discriminate H. }
    apply Hhead. exact Hbody.
Qed.

Theorem readback_decimal ds d : In d ds -> 0 <= dcoef d -> dec_positional d = true ->
  parse_num (strip (dec_format (dec_state ds) d)) = Some (d, Z.to_nat (dec_intw d)).
Proof.
  intros Hin Hc Hp.
  assert (E0 : (0 <? dexp d) = false).
  { unfold dec_positional in Hp. apply andb_prop in Hp as [H _]. apply Z.leb_le in H. apply Z.ltb_ge. lia. }
  destruct (dec_state ds) as [ni nf]. unfold dec_format. rewrite E0. unfold ljust.
  rewrite strip_padded by (apply numc_allnosp, dec_str_numc; exact Hc).
  apply parse_num_dec_str; assumption.
Qed.

(* ------------------------------------------------------------------ CSV: reading back what csv.writer wrote *)
Lemma csv_special_false c : csv_special c = false -> c <> 44 /\ c <> 34 /\ c <> 10 /\ c <> 13.
Proof. unfold csv_special. intros H. repeat (apply orb_false_elim in H as [H ?]). repeat split; intros ->; discriminate. Qed.

Lemma not34_match {T} c (t : str) (a : str -> T) (b d : T) : c <> 34 ->
  match c, t with | 34, 34 :: t' => a t' | 34, _ => b | _, _ => d end = d.
Proof.
  intros Hc. destruct c as [|p|p]; try reflexivity.
  do 6 (destruct p as [p|p|]; try reflexivity). congruence.
Qed.

Lemma csv_parse_plain (f : str) : existsb csv_special f = false -> forall rest acc rec,
  csv_parse (f ++ rest) false acc rec = csv_parse rest false (rev f ++ acc) rec.
Proof.
  induction f as [|c f IH]; intros H rest acc rec; [reflexivity|].
  cbn [existsb] in H. apply orb_false_elim in H as [H1 H2].
  destruct (csv_special_false c H1) as [A [B [C D]]].
  cbn [app csv_parse].
  apply Z.eqb_neq in A, B, C, D. rewrite A, B, D, C. rewrite (IH H2). cbn [rev]. rewrite <- app_assoc. reflexivity.
Qed.

Definition csv_esc (s : str) : str := flat_map (fun c => if c =? 34 then [34; 34] else [c]) s.

Lemma csv_parse_quoted (f : str) : forall d rest acc rec, d <> 34 ->
  csv_parse (csv_esc f ++ 34 :: d :: rest) true acc rec = csv_parse (d :: rest) false (rev f ++ acc) rec.
Proof.
  induction f as [|c f IH]; intros d rest acc rec Hd.
  - cbn [csv_esc flat_map app rev]. cbn [csv_parse].
    destruct d as [|p|p]; try reflexivity. do 6 (destruct p as [p|p|]; try reflexivity). congruence.
  - cbn [csv_esc flat_map]. fold (csv_esc f). destruct (c =? 34) eqn:E.
    + apply Z.eqb_eq in E. subst c. cbn [app]. cbn [csv_parse].
      rewrite (IH d rest (34 :: acc) rec Hd). cbn [rev]. rewrite <- app_assoc. reflexivity.
    + apply Z.eqb_neq in E. cbn [app].
      remember (csv_parse (d :: rest) false (rev (c :: f) ++ acc) rec) as R eqn:ER. cbn [csv_parse].
      rewrite (not34_match c _ (fun t' => csv_parse t' true (34 :: acc) rec)) by exact E.
      rewrite (IH d rest (c :: acc) rec Hd). subst R. cbn [rev]. rewrite <- app_assoc. reflexivity.
Qed.

(* one field followed by a delimiter d (',' or '\r') *)
Lemma csv_parse_field (f : str) d rest rec : d = 44 \/ d = 13 ->
  csv_parse (csv_field f ++ d :: rest) false [] rec = csv_parse (d :: rest) false (rev f) rec.
Proof.
  intros Hd. unfold csv_field. destruct (existsb csv_special f) eqn:E.
  - rewrite <- !app_assoc. cbn [app].
    remember (csv_parse (d :: rest) false (rev f) rec) as R eqn:ER.
    cbn [csv_parse Z.eqb Pos.eqb].
    fold (csv_esc f). rewrite csv_parse_quoted by (destruct Hd; subst; discriminate). rewrite app_nil_r. subst R. reflexivity.
  - rewrite csv_parse_plain by exact E. rewrite app_nil_r. reflexivity.
Qed.

Lemma csv_parse_fields (fs : list str) : fs <> [] -> forall rest rec,
  csv_parse (join [44] (map csv_field fs) ++ 13 :: 10 :: rest) false [] rec
  = (rev rec ++ fs) :: csv_parse rest false [] [].
Proof.
  induction fs as [|f fs IH]; intros Hne rest rec; [congruence|].
  destruct fs as [|g fs'].
  - cbn [map join]. rewrite csv_parse_field by auto.
    cbn [csv_parse]. cbn [Z.eqb Pos.eqb]. cbn [csv_parse]. cbn [Z.eqb Pos.eqb].
    rewrite rev_involutive. cbn [rev]. reflexivity.
  - change (join [44] (map csv_field (f :: g :: fs'))) with (csv_field f ++ [44] ++ join [44] (map csv_field (g :: fs'))).
    rewrite <- !app_assoc. cbn [app]. rewrite csv_parse_field by auto.
    cbn [csv_parse]. cbn [Z.eqb Pos.eqb]. rewrite rev_involutive.
    rewrite IH by discriminate. cbn [rev]. rewrite <- app_assoc. reflexivity.
Qed.

Lemma csv_parse_record (fs : list str) rest : fs <> [] ->
  csv_parse (csv_record fs ++ rest) false [] [] = fs :: csv_parse rest false [] [].
Proof.
  intros Hne.
  assert (G : csv_parse ((join [44] (map csv_field fs) ++ [13; 10]) ++ rest) false [] [] = fs :: csv_parse rest false [] []).
  { rewrite <- app_assoc. cbn [app]. rewrite csv_parse_fields by exact Hne. reflexivity. }
  unfold csv_record. destruct fs as [|f fs']; [congruence|]. destruct f; [destruct fs'|]; try exact G.
Qed.

Theorem csv_read_records (recs : list (list str)) : Forall (fun r => r <> []) recs ->
  csv_read (flat_map csv_record recs) = recs.
Proof.
  unfold csv_read. induction 1 as [|r recs Hr HF IH]; [reflexivity|].
  cbn [flat_map]. rewrite csv_parse_record by exact Hr. rewrite IH. reflexivity.
Qed.

(* ------------------------------------------------------------------ strip of a padded slot, any cell text *)
Lemma lead_spaces_cons c (t : str) : lead_spaces (c :: t) = if c =? 32 then S (lead_spaces t) else 0%nat.
Proof. destruct c as [|p|p]; try reflexivity. do 6 (destruct p as [p|p|]; try reflexivity). Qed.
Lemma lead_spaces_le (f : str) : (lead_spaces f <= length f)%nat.
Proof. induction f as [|c f IH]; [simpl; lia|]. rewrite lead_spaces_cons. destruct (c =? 32); simpl; lia. Qed.
Lemma lead_spaces_app_lt (f t : str) : (lead_spaces f < length f)%nat -> lead_spaces (f ++ t) = lead_spaces f.
Proof.
  induction f as [|c f IH]; intros H; [simpl in H; lia|]. cbn [app]. rewrite !lead_spaces_cons in *.
  destruct (c =? 32); [|reflexivity]. f_equal. apply IH. simpl in H. lia.
Qed.
Lemma lead_spaces_all (f : str) : lead_spaces f = length f -> f = spaces (length f).
Proof.
  induction f as [|c f IH]; intros H; [reflexivity|]. rewrite lead_spaces_cons in H.
  destruct (c =? 32) eqn:E; [|simpl in H; lia]. apply Z.eqb_eq in E. subst c. simpl in H. injection H as H.
  simpl. unfold spaces in *. simpl. f_equal. apply IH. exact H.
Qed.
Lemma lstrip_spaces_app n (X : str) : lstrip (spaces n ++ X) = lstrip X.
Proof.
  unfold lstrip. rewrite lead_spaces_spaces, skipn_app, spaces_length.
  rewrite skipn_all2 by (rewrite spaces_length; lia). cbn [app]. f_equal. lia.
Qed.
Lemma rstrip_app_spaces (Y : str) n : rstrip (Y ++ spaces n) = rstrip Y.
Proof. unfold rstrip. rewrite rev_app_distr, rev_spaces, lstrip_spaces_app. reflexivity. Qed.

Theorem strip_pad_any l r (f : str) : strip (spaces l ++ f ++ spaces r) = strip f.
Proof.
  unfold strip. rewrite lstrip_spaces_app.
  pose proof (lead_spaces_le f) as Hle.
  destruct (Nat.eq_dec (lead_spaces f) (length f)) as [E|E].
  - rewrite (lead_spaces_all f E). rewrite spaces_app, !lstrip_spaces_all. reflexivity.
  - assert (Hlt : (lead_spaces f < length f)%nat) by lia.
    assert (EL : lstrip (f ++ spaces r) = lstrip f ++ spaces r).
    { unfold lstrip. rewrite (lead_spaces_app_lt f (spaces r) Hlt), skipn_app.
      replace (lead_spaces f - length f)%nat with 0%nat by lia. reflexivity. }
    rewrite EL. apply rstrip_app_spaces.
Qed.

Lemma forallb2_refl_str (l : list str) : forallb2 str_eqb l l = true.
Proof. induction l; simpl; auto. rewrite str_eqb_refl. exact IHl. Qed.

Lemma strip_fields_ok slots cells :
  Forall2 (fun (slot c : str) => exists l r, slot = spaces l ++ c ++ spaces r) slots cells ->
  forallb2 (fun f s : str => str_eqb (strip f) (strip s)) cells slots = true.
Proof.
  induction 1 as [|s c slots cells [l [r E]] H IH]; [reflexivity|]. cbn [forallb2].
  rewrite E, strip_pad_any, str_eqb_refl. exact IH.
Qed.

Definition csv_text_opts (o : opts) : opts := mkopts false false false (o_expand o) (o_narrow o) (o_null o) [44].

Lemma map2_map_r {A B C} (f : A -> B -> C) (g : A -> B) l : map2 f l (map g l) = map (fun x => f x (g x)) l.
Proof. induction l; simpl; auto. f_equal. exact IHl. Qed.

Theorem check_csv_model quant numfmt o desc rows :
  (1 <= length desc)%nat -> wf_table desc rows -> exact_desc desc -> nl_free (csv_text_opts o) desc rows ->
  check_csv_code o desc rows (unlines (text_lines quant numfmt (csv_text_opts o) desc rows))
                 (flat_map csv_record (csv_records quant numfmt o desc rows)) = 0.
Proof.
  intros Hn Hwf He Hnf. unfold check_csv_code. cbv zeta. fold (csv_text_opts o).
  set (o' := csv_text_opts o) in *.
  assert (Hh : hyp_table quant numfmt o' desc rows).
  { intros j Hj. specialize (He j Hj). destruct (snd (nth j desc d0)); try discriminate; exact I. }
  assert (Hh2 : hyp_table quant numfmt (csv_opts o) desc rows).
  { intros j Hj. specialize (He j Hj). destruct (snd (nth j desc d0)); try discriminate; exact I. }
  pose proof (model_table_fits quant numfmt o' desc rows Hwf Hh) as Hfit.
  set (L := text_lines quant numfmt o' desc rows).
  rewrite <- (text_lines_length quant numfmt o' desc rows He). fold L.
  assert (HLn : (1 <= length L)%nat) by (unfold L, text_lines; rewrite !app_length; simpl; lia).
  rewrite (split_rect_unlines (linew o' (table_widths quant numfmt o' desc rows)) L HLn
             (text_lines_rect quant numfmt o' desc rows Hn Hfit) (text_lines_nonl quant numfmt o' desc rows Hwf He Hnf)).
  set (ws := table_widths quant numfmt o' desc rows) in *.
  set (sts := col_states quant o' desc rows).
  set (aligns := map (fun d : str * dtype => align_of (snd d)) desc).
  assert (Hlw : length ws = length desc) by apply table_widths_length.
  assert (Hne : ws <> []) by (intros E; rewrite E in Hlw; simpl in Hlw; lia).
  assert (Hge : Forall (fun w => (1 <= w)%nat) ws).
  { unfold ws, table_widths. apply Forall_map2. intros. unfold col_width. lia. }
  pose proof (widths_of_h_line o' ws Hne Hge (or_introl eq_refl)) as HW.
  (* the records *)
  assert (Hrecs : csv_records quant numfmt o desc rows = map fst desc :: render_rows numfmt o' sts rows).
  { unfold csv_records, sts. f_equal; try (apply render_rows_ext; reflexivity). }
  assert (Hlen : forall rec, In rec (csv_records quant numfmt o desc rows) -> length rec = length desc).
  { intros rec Hr. eapply csv_shape; eassumption. }
  rewrite csv_read_records.
  2:{ apply Forall_forall. intros rec Hr E. apply Hlen in Hr. rewrite E in Hr. simpl in Hr. lia. }
  rewrite Hrecs. unfold L, text_lines. fold ws sts aligns. change (o_boxed o') with false. cbv iota.
  cbn [app nth skipn]. rewrite app_nil_r, HW, map_length, Nat.eqb_refl, forallb2_refl_str. cbn [negb].
  assert (Hall : forallb (fun r : list str => (length r =? length desc)%nat) (render_rows numfmt o' sts rows) = true).
  { apply forallb_forall. intros rec Hr. apply Nat.eqb_eq. apply Hlen. rewrite Hrecs. right. exact Hr. }
  rewrite Hall. cbn [negb]. rewrite map2_map_r.
  apply first_code_zero. intros x Hx. apply in_map_iff in Hx as [cells [<- Hc]].
  destruct (rows_slots quant numfmt o' desc rows cells Hwf Hh Hc) as [S1 [_ S3]].
  fold ws aligns in S1, S3. rewrite S1. rewrite (strip_fields_ok _ _ S3). reflexivity.
Qed.
