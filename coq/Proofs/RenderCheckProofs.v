(* C16 phase 2: the relational checker accepts the model's own output (check_table, check_csv),
   read-back of date and decimal cells. *)
From Coq Require Import ZArith List Bool Arith Lia Permutation.
Import ListNotations.
From Verif Require Import Base.Out Base.StableSort Base.PyValue Model.Render Model.RenderCheck Proofs.RenderProofs.

(* ------------------------------------------------------------------ character classes *)
Definition allc (P : Z -> bool) (s : str) : bool := forallb P s.

Lemma allc_app P (a b : str) : allc P (a ++ b) = allc P a && allc P b.
Proof. apply forallb_app. Qed.
Lemma allc_repeat P c n : P c = true -> allc P (repeat c n) = true.
Proof. intros H. induction n; simpl; auto. rewrite H. exact IHn. Qed.
Lemma allc_firstn P n (s : str) : allc P s = true -> allc P (firstn n s) = true.
Proof. revert n; induction s as [|x s IH]; intros [|n] H; simpl in *; auto. apply andb_prop in H as [H1 H2]. rewrite H1. apply IH; exact H2. Qed.
Lemma allc_skipn P n (s : str) : allc P s = true -> allc P (skipn n s) = true.
Proof. revert n; induction s as [|x s IH]; intros [|n] H; simpl in *; auto. apply andb_prop in H as [H1 H2]. apply IH; exact H2. Qed.
Lemma allc_join P (sep : str) (l : list str) : allc P sep = true -> Forall (fun s => allc P s = true) l -> allc P (join sep l) = true.
Proof.
  intros Hs HF. induction HF as [|x t Hx HF IH]; [reflexivity|].
  destruct t as [|y t']; [exact Hx|].
  change (join sep (x :: y :: t')) with (x ++ sep ++ join sep (y :: t')).
  rewrite !allc_app, Hx, Hs, IH. reflexivity.
Qed.
Lemma allc_impl (P Q : Z -> bool) (s : str) : (forall c, P c = true -> Q c = true) -> allc P s = true -> allc Q s = true.
Proof. intros H. induction s; simpl; auto. intros HH. apply andb_prop in HH as [H1 H2]. rewrite (H _ H1). auto. Qed.
Lemma allc_in P (s : str) c : allc P s = true -> In c s -> P c = true.
Proof. unfold allc. rewrite forallb_forall. auto. Qed.

Definition nonl (c : Z) : bool := negb (c =? 10).
Lemma no_nl_allc s : no_nl s = allc nonl s.
Proof. reflexivity. Qed.

(* characters of numerals: digits - . E + *)
Definition numc (c : Z) : bool := is_digit c || (c =? 45) || (c =? 46) || (c =? 69) || (c =? 43).
Lemma numc_nonl c : numc c = true -> nonl c = true.
Proof.
  unfold numc, nonl, is_digit. intros H. destruct (c =? 10) eqn:E; [|reflexivity].
  apply Z.eqb_eq in E. subst. discriminate.
Qed.
Lemma numc_nosp c : numc c = true -> c <> 32.
Proof. intros H ->. discriminate. Qed.
Lemma digit_numc c : is_digit c = true -> numc c = true.
Proof. unfold numc. intros ->. reflexivity. Qed.

Lemma show_nat_numc n : 0 <= n -> allc numc (show_nat n) = true.
Proof. intros. eapply allc_impl; [apply digit_numc|]. apply show_nat_digits; assumption. Qed.
Lemma show_int_numc z : allc numc (show_int z) = true.
Proof. unfold show_int. destruct (z <? 0) eqn:E; [apply Z.ltb_lt in E|apply Z.ltb_ge in E]; simpl; rewrite ?show_nat_numc by lia; reflexivity. Qed.
Lemma show_signed_numc z : allc numc (show_signed z) = true.
Proof. unfold show_signed. destruct (z <? 0) eqn:E; [apply Z.ltb_lt in E|apply Z.ltb_ge in E]; simpl; rewrite ?show_nat_numc by lia; reflexivity. Qed.
Lemma zeros_numc n : allc numc (zeros n) = true.
Proof. apply allc_repeat. reflexivity. Qed.
Lemma zpad_numc w n : 0 <= n -> allc numc (zpad w n) = true.
Proof. intros. unfold zpad. rewrite allc_app, allc_repeat, show_nat_numc by (auto; lia). reflexivity. Qed.

Lemma dec_str_numc d : 0 <= dcoef d -> allc numc (dec_str d) = true.
Proof.
  intros Hc. unfold dec_str. cbv zeta.
  assert (Hd : allc numc (dec_digits d) = true) by (apply show_nat_numc; exact Hc).
  rewrite !allc_app.
  apply andb_true_intro; split; [destruct (dneg d); reflexivity|].
  apply andb_true_intro; split.
  - destruct (_ <=? 0).
    + rewrite !allc_app, zeros_numc, Hd. reflexivity.
    + destruct (dec_nd d <=? _).
      * rewrite allc_app, zeros_numc, Hd. reflexivity.
      * rewrite !allc_app, allc_firstn, allc_skipn by exact Hd. reflexivity.
  - destruct (_ =? _); [reflexivity|]. cbn [allc forallb]. fold (allc numc (show_signed (dec_leftdigits d - (if dec_positional d then dec_leftdigits d else 1)))).
    rewrite show_signed_numc. reflexivity.
Qed.

Lemma date_str_numc y m d : cell_valid (CDate y m d) = true -> allc numc (date_str y m d) = true.
Proof.
  unfold cell_valid. intros H. repeat (apply andb_prop in H as [H ?]).
  repeat match goal with H : (_ <=? _) = true |- _ => apply Z.leb_le in H end.
  unfold date_str. rewrite !allc_app, show_nat_numc, !zpad_numc by lia. reflexivity.
Qed.

(* ------------------------------------------------------------------ no line feed anywhere in the model's lines *)
Definition cell_nonl (v : cellv) : bool :=
  match v with CStr s | COther s => no_nl s | CSet l => forallb no_nl l | _ => true end.

Record nl_free (o : opts) (desc : list (str * dtype)) (rows : list (list cellv)) : Prop := {
  nf_null : no_nl (o_null o) = true;
  nf_sep : no_nl (o_listsep o) = true;
  nf_hdr : Forall (fun d : str * dtype => no_nl (fst d) = true) desc;
  nf_cells : forall row, In row rows -> Forall (fun v => cell_nonl v = true) row }.

Lemma numc_no_nl s : allc numc s = true -> no_nl s = true.
Proof. apply allc_impl. exact numc_nonl. Qed.
Lemma spaces_nonl n : no_nl (spaces n) = true.
Proof. apply allc_repeat. reflexivity. Qed.
Lemma no_nl_app (a b : str) : no_nl (a ++ b) = no_nl a && no_nl b.
Proof. apply forallb_app. Qed.
Lemma pad_nonl a w s : no_nl s = true -> no_nl (pad a w s) = true.
Proof. intros H. destruct a; simpl; unfold ljust, rjust; rewrite no_nl_app, spaces_nonl, H; reflexivity. Qed.
Lemma center_nonl w s : no_nl s = true -> no_nl (center w s) = true.
Proof. intros H. unfold center. rewrite !no_nl_app, !spaces_nonl, H. reflexivity. Qed.
Lemma colsep_nonl o : no_nl (colsep o) = true.
Proof. unfold colsep. destruct (o_boxed o), (o_unicode o); reflexivity. Qed.
Lemma frmt_nonl o s : no_nl s = true -> no_nl (frmt o s) = true.
Proof. intros H. unfold frmt. destruct (o_boxed o), (o_unicode o); rewrite ?no_nl_app, ?H; auto. Qed.

Lemma py_str_nonl v : scalar v = true -> cell_valid v = true -> cell_nonl v = true -> no_nl (py_str v) = true.
Proof.
  intros Hs Hv Hn. destruct v; try discriminate; cbn [py_str].
  - destruct b; reflexivity.
  - apply numc_no_nl, show_int_numc.
  - apply numc_no_nl, dec_str_numc. apply Z.leb_le. exact Hv.
  - exact Hn.
  - apply numc_no_nl. simpl in Hv. repeat (apply andb_prop in Hv as [Hv ?]).
    repeat match goal with H : (_ <=? _) = true |- _ => apply Z.leb_le in H end.
    rewrite !allc_app, !zpad_numc by lia. reflexivity.
  - exact Hn.
Qed.

Lemma dec_format_nonl st d : 0 <= dcoef d -> no_nl (dec_format st d) = true.
Proof.
  intros Hc. pose proof (numc_no_nl _ (dec_str_numc d Hc)) as H. destruct st as [ni nf]. unfold dec_format.
  destruct (0 <? dexp d); unfold ljust, rjust; rewrite !no_nl_app, ?spaces_nonl, H; reflexivity.
Qed.

Lemma set_format_nonl sep l : no_nl sep = true -> forallb no_nl l = true -> no_nl (set_format sep l) = true.
Proof.
  intros Hs Hl. unfold set_format. apply allc_join; [exact Hs|].
  apply Forall_forall. intros x Hx. unfold sort_strs in Hx.
  apply (Permutation_in _ (Permutation_sym (isort_perm _ list_le l))) in Hx.
  rewrite forallb_forall in Hl. apply Hl. exact Hx.
Qed.

Section NoNl.
Variable quant : dec -> str -> dec.
Variable numfmt : list (dec * str) -> dec -> str -> str.

Lemma format_nonl o t st v : exact_type t = true -> cell_ok t v = true -> cell_valid v = true -> cell_nonl v = true ->
  no_nl (o_null o) = true -> no_nl (o_listsep o) = true ->
  no_nl (cell_str (render_cell numfmt o (t, st) v)) = true.
Proof.
  intros Ht Hok Hv Hn Hnull Hsep. unfold render_cell. cbn [fst snd].
  destruct v; [exact Hnull|..]; destruct t; try discriminate; simpl in Hok; try discriminate;
    try (destruct st; cbn [st_format cell_str]; apply py_str_nonl; auto; fail).
  - cbn [st_format cell_str]. destruct b; reflexivity.
  - destruct st; cbn [st_format cell_str]; try (apply py_str_nonl; auto; fail).
    apply dec_format_nonl. apply Z.leb_le. exact Hv.
  - cbn [st_format cell_str]. apply numc_no_nl, date_str_numc. exact Hv.
  - cbn [st_format cell_str]. apply set_format_nonl; assumption.
Qed.
End NoNl.

(* ------------------------------------------------------------------ tables of exact datatypes: one line per row *)
Lemma exact_desc_Forall desc : exact_desc desc -> Forall (fun d : str * dtype => exact_type (snd d) = true) desc.
Proof.
  intros H. apply Forall_forall. intros d Hin. destruct (In_nth _ _ d0 Hin) as [j [Hj <-]]. apply H. exact Hj.
Qed.

Lemma Forall_map2 {A B C} (P : C -> Prop) (f : A -> B -> C) la lb :
  (forall a b, In a la -> In b lb -> P (f a b)) -> Forall P (map2 f la lb).
Proof.
  revert lb; induction la as [|a ta IH]; intros [|b tb] H; simpl; constructor.
  - apply H; simpl; auto.
  - apply IH. intros; apply H; simpl; auto.
Qed.

Section ExactRows.
Variable quant : dec -> str -> dec.
Variable numfmt : list (dec * str) -> dec -> str -> str.

Lemma col_states_exact o desc rows : exact_desc desc ->
  Forall (fun ts : dtype * rstate => exact_type (fst ts) = true) (col_states quant o desc rows).
Proof.
  intros He. unfold col_states. apply Forall_map2. intros i d _ Hd. cbn [fst].
  pose proof (exact_desc_Forall desc He) as HF. rewrite Forall_forall in HF. apply HF. exact Hd.
Qed.

Lemma not_many_exact o t st v : exact_type t = true -> is_many (render_cell numfmt o (t, st) v) = false.
Proof. intros Ht. unfold render_cell. cbn [fst snd]. destruct v; try reflexivity; destruct t; try discriminate; destruct st; reflexivity. Qed.

Lemma existsb_many_exact o sts row : Forall (fun ts : dtype * rstate => exact_type (fst ts) = true) sts ->
  existsb is_many (map2 (render_cell numfmt o) sts row) = false.
Proof.
  intros HF; revert row; induction HF as [|[t st] sts Ht HF IH]; intros [|v row]; simpl; auto.
  rewrite (not_many_exact o t st v Ht). apply IH.
Qed.

Definition row_cells (o : opts) (sts : list (dtype * rstate)) (row : list cellv) : list str :=
  map cell_str (map2 (render_cell numfmt o) sts row).
Definition spacer (o : opts) (sts : list (dtype * rstate)) : list (list str) :=
  if o_spaced o then [map (fun _ => []) sts] else [].

Lemma render_row_exact o sts row : Forall (fun ts : dtype * rstate => exact_type (fst ts) = true) sts ->
  render_row numfmt o sts row = row_cells o sts row :: spacer o sts.
Proof. intros HF. unfold render_row. rewrite existsb_many_exact by exact HF. reflexivity. Qed.

Lemma row_lines_exact o desc r : Forall (fun d : str * dtype => exact_type (snd d) = true) desc -> row_lines o desc r = 1%nat.
Proof.
  intros HF. unfold row_lines. destruct (o_expand o); [|reflexivity].
  assert (nmax (map2 (fun (d : str * dtype) v => inv_lines (snd d) v) desc r) = 0)%nat as ->; [|reflexivity].
  revert r; induction HF as [|d t Hd HF IH]; intros [|v r]; simpl; auto.
  rewrite IH. destruct (snd d); try discriminate; reflexivity.
Qed.

Lemma render_rows_length_exact o desc rows : exact_desc desc ->
  length (render_rows numfmt o (col_states quant o desc rows) rows)
  = fold_right (fun r a => (row_lines o desc r + (if o_spaced o then 1 else 0) + a)%nat) 0%nat rows.
Proof.
  intros He. pose proof (col_states_exact o desc rows He) as HS. pose proof (exact_desc_Forall desc He) as HD.
  unfold render_rows. generalize (col_states quant o desc rows) HS. clear HS. intros sts Hsts.
  induction rows as [|r rows IH]; [reflexivity|].
  cbn [flat_map fold_right]. rewrite app_length, IH. rewrite (render_row_exact o sts r Hsts). rewrite (row_lines_exact o desc r HD).
  unfold spacer. destruct (o_spaced o); simpl; lia.
Qed.

Lemma text_lines_length o desc rows : exact_desc desc ->
  length (text_lines quant numfmt o desc rows) = expected_lines o desc rows.
Proof.
  intros He. unfold text_lines, expected_lines. rewrite !app_length, map_length, render_rows_length_exact by exact He.
  destruct (o_boxed o); simpl; lia.
Qed.
End ExactRows.

(* ------------------------------------------------------------------ splitting the text back into its lines *)
Lemma chunks_unlines W (L : list str) : Forall (fun l => length l = W) L ->
  chunks (length L) (W + 1) (unlines L) = map (fun l => l ++ [10]) L.
Proof.
  induction 1 as [|l L Hl HF IH]; [reflexivity|].
  cbn [length chunks unlines flat_map map].
  assert (E : length (l ++ [10]) = (W + 1)%nat) by (rewrite app_length; simpl; lia).
  rewrite firstn_app, <- E, Nat.sub_diag, firstn_all, firstn_O, app_nil_r. f_equal.
  rewrite skipn_app, Nat.sub_diag, skipn_all. cbn [skipn app]. rewrite E. exact IH.
Qed.

Lemma unlines_length W (L : list str) : Forall (fun l => length l = W) L -> length (unlines L) = (length L * (W + 1))%nat.
Proof.
  induction 1 as [|l L Hl HF IH]; [reflexivity|]. cbn [unlines flat_map length]. fold (unlines L).
  rewrite !app_length, IH. simpl. lia.
Qed.

Lemma split_rect_unlines W (L : list str) : (1 <= length L)%nat ->
  Forall (fun l => length l = W) L -> Forall (fun l => no_nl l = true) L ->
  split_rect (length L) (unlines L) = Some L.
Proof.
  intros Hn HW HN. unfold split_rect. rewrite (unlines_length W L HW).
  assert (Ek : (length L * (W + 1) / length L = W + 1)%nat).
  { rewrite Nat.mul_comm. apply Nat.div_mul. lia. }
  rewrite Ek, Nat.eqb_refl. replace (1 <=? W + 1)%nat with true by (symmetry; apply Nat.leb_le; lia).
  cbn [andb]. rewrite (chunks_unlines W L HW). replace (W + 1 - 1)%nat with W by lia.
  assert (H1 : forallb (fun c : list Z => (nth W c 0 =? 10) && no_nl (firstn W c)) (map (fun l => l ++ [10]) L) = true).
  { apply forallb_forall. intros c Hc. apply in_map_iff in Hc as [l [<- Hl]].
    rewrite Forall_forall in HW, HN. pose proof (HW l Hl) as E.
    rewrite app_nth2, E, Nat.sub_diag by lia. cbn [nth].
    rewrite firstn_app, E, Nat.sub_diag, firstn_O, app_nil_r, <- E, firstn_all, (HN l Hl). reflexivity. }
  rewrite H1. f_equal. rewrite map_map. rewrite <- (map_id L) at 2. apply map_ext_in. intros l Hl.
  rewrite Forall_forall in HW. rewrite firstn_app, (HW l Hl), Nat.sub_diag, firstn_O, app_nil_r, <- (HW l Hl), firstn_all. reflexivity.
Qed.

Lemma Forall_map2_nth {A B C} (P : C -> Prop) (f : A -> B -> C) la lb da db :
  (forall j, (j < length la)%nat -> (j < length lb)%nat -> P (f (nth j la da) (nth j lb db))) -> Forall P (map2 f la lb).
Proof.
  revert lb; induction la as [|a ta IH]; intros [|b tb] H; simpl; constructor.
  - apply (H 0%nat); simpl; lia.
  - apply IH. intros j H1 H2. apply (H (S j)); simpl; lia.
Qed.

Lemma no_nl_join (sep : str) (l : list str) : no_nl sep = true -> Forall (fun s => no_nl s = true) l -> no_nl (join sep l) = true.
Proof. apply allc_join. Qed.
Lemma no_nl_repeat c n : nonl c = true -> no_nl (repeat c n) = true.
Proof. apply allc_repeat. Qed.
Lemma no_nl_firstn n (s : str) : no_nl s = true -> no_nl (firstn n s) = true.
Proof. apply allc_firstn. Qed.

Lemma rule_line_nonl o l j r ws : nonl l = true -> nonl j = true -> nonl r = true -> no_nl (rule_line o l j r ws) = true.
Proof.
  intros Hl Hj Hr. unfold rule_line.
  assert (Hc : nonl (rule_char o) = true) by (unfold rule_char; destruct (o_unicode o); reflexivity).
  assert (HS : Forall (fun s : str => no_nl s = true) (map (fun w => repeat (rule_char o) w) ws)).
  { apply Forall_forall. intros s Hs. apply in_map_iff in Hs as [w [<- _]]. apply no_nl_repeat. exact Hc. }
  cbv zeta. destruct (o_boxed o).
  - rewrite !no_nl_app. rewrite no_nl_join; [|cbn; fold (nonl (rule_char o)) (nonl j); rewrite Hc, Hj; reflexivity|exact HS].
    cbn. fold (nonl l) (nonl (rule_char o)) (nonl r). rewrite Hl, Hc, Hr. reflexivity.
  - apply no_nl_join; [apply colsep_nonl|exact HS].
Qed.

Section LinesNoNl.
Variable quant : dec -> str -> dec.
Variable numfmt : list (dec * str) -> dec -> str -> str.

Lemma row_cells_nonl o desc rows row : wf_table desc rows -> exact_desc desc -> nl_free o desc rows -> In row rows ->
  Forall (fun c : str => no_nl c = true) (row_cells numfmt o (col_states quant o desc rows) row).
Proof.
  intros Hwf He Hnf Hr. unfold row_cells. apply Forall_forall. intros c Hc. apply in_map_iff in Hc as [x [<- Hx]].
  revert x Hx. apply Forall_forall. destruct (Hwf row Hr) as [Hlen Hcells].
  apply (Forall_map2_nth _ _ _ _ (TObject, SPlain 0) CNull). intros j H1 H2.
  rewrite col_states_length in H1. rewrite col_states_nth by exact H1.
  destruct (Hcells j H1) as [Hok Hval].
  apply format_nonl; auto; try apply Hnf.
  pose proof (nf_cells _ _ _ Hnf row Hr) as HF. rewrite Forall_forall in HF. apply HF. apply nth_In. lia.
Qed.

Lemma rendered_cells_nonl o desc rows cells : wf_table desc rows -> exact_desc desc -> nl_free o desc rows ->
  In cells (render_rows numfmt o (col_states quant o desc rows) rows) -> Forall (fun c : str => no_nl c = true) cells.
Proof.
  intros Hwf He Hnf Hin. unfold render_rows in Hin. apply in_flat_map in Hin as [row [Hr Hin]].
  rewrite render_row_exact in Hin by (apply col_states_exact; exact He).
  destruct Hin as [<-|Hin]; [apply row_cells_nonl; assumption|].
  unfold spacer in Hin. destruct (o_spaced o); [|destruct Hin]. destruct Hin as [<-|[]].
  apply Forall_forall. intros c Hc. apply in_map_iff in Hc as [? [<- _]]. reflexivity.
Qed.

Lemma text_lines_nonl o desc rows : wf_table desc rows -> exact_desc desc -> nl_free o desc rows ->
  Forall (fun l => no_nl l = true) (text_lines quant numfmt o desc rows).
Proof.
  intros Hwf He Hnf. unfold text_lines.
  assert (Hr : forall l j r ws, nonl l = true -> nonl j = true -> nonl r = true -> no_nl (rule_line o l j r ws) = true)
    by (intros; apply rule_line_nonl; assumption).
  repeat (apply Forall_app; split).
  - destruct (o_boxed o); constructor; auto. unfold top_line. destruct (o_unicode o); apply Hr; reflexivity.
  - constructor; [|constructor; [unfold h_line; destruct (o_unicode o); apply Hr; reflexivity|constructor]].
    unfold header_line. apply frmt_nonl. apply no_nl_join; [apply colsep_nonl|].
    apply Forall_map2. intros h w Hh _. apply center_nonl. apply no_nl_firstn.
    apply in_map_iff in Hh as [d [<- Hd]]. pose proof (nf_hdr _ _ _ Hnf) as HF. rewrite Forall_forall in HF. apply HF. exact Hd.
  - apply Forall_forall. intros l Hl. apply in_map_iff in Hl as [cells [<- Hc]].
    pose proof (rendered_cells_nonl o desc rows cells Hwf He Hnf Hc) as HF.
    unfold row_line. apply frmt_nonl. apply no_nl_join; [apply colsep_nonl|].
    apply Forall_map2. intros c wa Hcin _. apply pad_nonl. rewrite Forall_forall in HF. apply HF. exact Hcin.
  - destruct (o_boxed o); constructor; auto. unfold bottom_line. destruct (o_unicode o); apply Hr; reflexivity.
Qed.
End LinesNoNl.

(* ------------------------------------------------------------------ the cell check accepts the model's padded cell *)
Lemma lead_spaces_spaces n (s : str) : lead_spaces (spaces n ++ s) = (n + lead_spaces s)%nat.
Proof. induction n; simpl; auto. Qed.
Lemma spaces_app a b : spaces a ++ spaces b = spaces (a + b).
Proof. unfold spaces. symmetry. apply repeat_app. Qed.

Lemma dec_str_head d : 0 <= dcoef d -> exists c t, dec_str d = c :: t /\ c <> 32.
Proof.
  intros Hc. pose proof (dec_str_numc d Hc) as Hn.
  assert (Hl : (1 <= length (dec_str d))%nat).
  { unfold dec_str. pose proof (dec_nd_pos d) as Hnd. cbv zeta. rewrite app_length, app_length.
    match goal with |- (1 <= _ + (length ?b + _))%nat => assert (1 <= length b)%nat; [|lia] end.
    destruct (_ <=? 0); [simpl; lia|]. destruct (dec_nd d <=? _).
    - rewrite app_length. unfold dec_nd in Hnd. lia.
    - rewrite !app_length. simpl. lia. }
  destruct (dec_str d) as [|c t]; [simpl in Hl; lia|]. exists c, t. split; [reflexivity|].
  simpl in Hn. apply andb_prop in Hn as [Hn _]. apply numc_nosp. exact Hn.
Qed.

Lemma dec_slot st d w : 0 <= dcoef d -> dec_positional d = true -> dec_dom st d -> (dec_width st <= w)%nat ->
  let L := Z.to_nat (fst st - dec_intw d) in
  ljust w (dec_format st d) = ljust w (spaces L ++ dec_str d) /\ lead_spaces (ljust w (dec_format st d)) = L.
Proof.
  intros Hc Hp Hd Hw L.
  pose proof (dec_format_length st d Hc Hd) as HLen.
  destruct (dec_format_aligned st d Hp Hd) as [rest [E Hle]]. fold L in E.
  assert (E0 : (0 <? dexp d) = false).
  { unfold dec_positional in Hp. apply andb_prop in Hp as [H _]. apply Z.leb_le in H. apply Z.ltb_ge. lia. }
  destruct st as [ni nf]. unfold dec_format in *. rewrite E0 in *. cbn [fst] in *.
  fold L in HLen |- *. set (dw := dec_width (ni, nf)) in *.
  rewrite app_length, spaces_length, ljust_length in HLen.
  split.
  - unfold ljust. rewrite !app_length, !spaces_length. rewrite <- !app_assoc. f_equal. f_equal.
    rewrite spaces_app. f_equal. lia.
  - unfold ljust. rewrite <- !app_assoc, lead_spaces_spaces.
    destruct (dec_str_head d Hc) as [c [t [Es Hc32]]]. rewrite Es. cbn [app lead_spaces].
    destruct c as [|p|p]; try lia. do 6 (destruct p as [p|p|]; try lia).
Qed.

Definition anchor_of (st : rstate) : nat := match st with SDec s => Z.to_nat (fst s) | _ => 0%nat end.
Definition anc_ok (A : nat) (a : list (list nat)) : Prop := Forall (fun x => x = [A]) a.

Section CellCheck.
Variable quant : dec -> str -> dec.
Variable numfmt : list (dec * str) -> dec -> str -> str.

Lemma cell_check_nondec o prec t st w v :
  exact_type t = true -> t <> TDecimal -> cell_ok t v = true ->
  cell_check o prec t w v 0 (pad (align_of t) w (cell_str (render_cell numfmt o (t, st) v))) = (0, []).
Proof.
  intros Ht Hnd Hok. unfold render_cell. cbn [fst snd].
  destruct t; try discriminate; try congruence; destruct v; simpl in Hok; try discriminate;
    destruct st; cbn -[str_eqb pad ljust rjust set_format show_int date_str py_str spaces];
    rewrite ?str_eqb_refl; reflexivity.
Qed.

Lemma cell_check_dec o prec vals w v :
  cell_ok TDecimal v = true -> cell_valid v = true -> (forall d, v = CDec d -> dec_positional d = true) ->
  (v = CNull \/ In v vals) ->
  let st := col_prepare quant o TDecimal vals in
  (st_width numfmt st <= w)%nat ->
  exists anc, cell_check o prec TDecimal w v 0 (pad (align_of TDecimal) w (cell_str (render_cell numfmt o (TDecimal, st) v))) = (0, anc)
              /\ anc_ok (anchor_of st) anc.
Proof.
  intros Hok Hval Hpos Hin st Hw. unfold render_cell. cbn [fst snd].
  destruct v; simpl in Hok; try discriminate.
  - exists []. split; [|constructor]. cbn -[str_eqb pad]. rewrite str_eqb_refl. reflexivity.
  - destruct Hin as [Hin|Hin]; [discriminate|].
    unfold st, col_prepare in *. cbn [st_format cell_str align_of pad st_width anchor_of] in *.
    set (s := dec_state (the_decs vals)) in *.
    assert (Hd : dec_dom s d) by (apply dec_state_dom, the_decs_in; exact Hin).
    assert (Hc : 0 <= dcoef d) by (apply Z.leb_le; exact Hval).
    destruct (dec_slot s d w Hc (Hpos d eq_refl) Hd Hw) as [E1 E2].
    cbn [cell_check]. cbv zeta. rewrite E2, E1, str_eqb_refl, (Hpos d eq_refl). cbn [negb].
    eexists. split; [reflexivity|]. constructor; [|constructor]. f_equal. f_equal.
    destruct s as [ni nf]. unfold dec_dom in Hd. cbn [fst]. unfold dec_positional in Hpos.
    pose proof (Hpos d eq_refl) as Hp. apply andb_prop in Hp as [Hp _]. apply Z.leb_le in Hp.
    assert ((0 <? dexp d) = false) as E0 by (apply Z.ltb_ge; lia). rewrite E0 in Hd.
    unfold dec_intw in *. destruct (dneg d); lia.
Qed.
End CellCheck.

(* ------------------------------------------------------------------ rows *)
Lemma first_code_zero l : (forall x, In x l -> x = 0) -> first_code l = 0.
Proof. induction l as [|c t IH]; intros H; simpl; auto. rewrite (H c) by (simpl; auto). simpl. apply IH. intros; apply H; simpl; auto. Qed.

Lemma map2_app_blank {A B} (a : list (list A)) (desc : list B) : length a = length desc ->
  map2 (fun x y => x ++ y) a (map (fun _ => @nil A) desc) = a.
Proof. revert desc; induction a as [|x a IH]; intros [|d desc] H; simpl in *; try discriminate; auto. rewrite app_nil_r, IH by lia. reflexivity. Qed.

Lemma anc_ok_map2_app As a b : Forall2 anc_ok As a -> Forall2 anc_ok As b -> Forall2 anc_ok As (map2 (fun x y => x ++ y) a b).
Proof.
  intros Ha; revert b; induction Ha as [|A x As a Hx Ha IH]; intros b Hb; inversion Hb; subst; simpl; constructor.
  - unfold anc_ok in *. apply Forall_app; split; assumption.
  - apply IH. assumption.
Qed.

Lemma anc_ok_blank {B} As (desc : list B) : length As = length desc -> Forall2 anc_ok As (map (fun _ => []) desc).
Proof. revert desc; induction As; intros [|d desc] H; simpl in *; try discriminate; constructor; [constructor|apply IHAs; lia]. Qed.

Lemma blank_spaces n : blank (spaces n) = true.
Proof. apply allc_repeat. reflexivity. Qed.
Lemma pad_nil a w : pad a w [] = spaces w.
Proof. destruct a; simpl; unfold ljust, rjust; simpl; rewrite ?app_nil_r, Nat.sub_0_r; reflexivity. Qed.


Lemma list_nat_eqb_refl a : list_nat_eqb a a = true.
Proof. induction a; simpl; auto. rewrite Nat.eqb_refl. exact IHa. Qed.

Lemma filter_len_same A a : anc_ok A a -> filter (fun x : list nat => (length x =? 1)%nat) a = a.
Proof. induction 1 as [|x t Hx H IH]; [reflexivity|]. subst x. cbn [filter length Nat.eqb]. rewrite IH. reflexivity. Qed.
Lemma filter_len_other A a k : k <> 1%nat -> anc_ok A a -> filter (fun x : list nat => (length x =? k)%nat) a = [].
Proof.
  intros Hk. induction 1 as [|x t Hx H IH]; [reflexivity|]. subst x. cbn [filter length].
  destruct (1 =? k)%nat eqn:E; [apply Nat.eqb_eq in E; congruence|]. exact IH.
Qed.

Lemma anchors_agree_ok A a : anc_ok A a -> anchors_agree a = true.
Proof.
  intros H. unfold anchors_agree. cbn [forallb].
  rewrite (filter_len_same A a H), (filter_len_other A a 2%nat), (filter_len_other A a 3%nat) by (auto; lia).
  rewrite !andb_true_r.
  destruct H as [|x t Hx H]; [reflexivity|]. subst x.
  apply forallb_forall. intros y Hy. rewrite Forall_forall in H. rewrite (H y Hy). apply list_nat_eqb_refl.
Qed.

Lemma forallb2_map2_r {A B} (P : A -> nat -> bool) (f : A -> B -> nat) (la : list A) : forall lb,
  length lb = length la -> (forall a b, P a (f a b) = true) -> forallb2 P la (map2 f la lb) = true.
Proof.
  induction la as [|a la IH]; intros [|b lb] Hl HP; simpl in *; try discriminate; auto.
  rewrite HP. apply IH; [lia|exact HP].
Qed.

Lemma header_slots_check (desc : list (str * dtype)) : forall ws, length ws = length desc ->
  forallb2 (fun (dw : (str * dtype) * nat) s => header_ok (snd dw) (fst (fst dw)) s) (combine desc ws)
           (header_slots (map fst desc) ws) = true.
Proof.
  induction desc as [|d desc IH]; intros [|w ws] Hl; simpl in *; try discriminate; auto.
  rewrite header_ok_center. apply IH. lia.
Qed.

Lemma last_app_single {A} (l : list A) x d : last (l ++ [x]) d = x.
Proof. apply last_last. Qed.

Lemma Forall2_in_r {A B} (R : A -> B -> Prop) la lb b : Forall2 R la lb -> In b lb -> exists a, R a b.
Proof. induction 1; intros []; subst; eauto. Qed.

Definition all_positional (rows : list (list cellv)) : Prop :=
  forall row, In row rows -> forall d, In (CDec d) row -> dec_positional d = true.

Section Sound.
Variable quant : dec -> str -> dec.
Variable numfmt : list (dec * str) -> dec -> str -> str.
Variable o : opts.
Variable prec : list (str * Z).
Variable desc : list (str * dtype).
Variable rows : list (list cellv).
Hypothesis Hn : (1 <= length desc)%nat.
Hypothesis Hwf : wf_table desc rows.
Hypothesis He : exact_desc desc.
Hypothesis Hpos : all_positional rows.

Let sts := col_states quant o desc rows.
Let ws := table_widths quant numfmt o desc rows.
Let aligns := map (fun d : str * dtype => align_of (snd d)) desc.
Let As := map (fun ts : dtype * rstate => anchor_of (snd ts)) sts.

Lemma hyp_exact : hyp_table quant numfmt o desc rows.
Proof. intros j Hj. specialize (He j Hj). destruct (snd (nth j desc d0)); try discriminate; exact I. Qed.

Lemma Hfits : table_fits quant numfmt o desc rows.
Proof. apply model_table_fits; [exact Hwf|exact hyp_exact]. Qed.

Lemma len_sts : length sts = length desc. Proof. apply col_states_length. Qed.
Lemma len_ws : length ws = length desc. Proof. apply table_widths_length. Qed.
Lemma len_aligns : length aligns = length desc. Proof. apply map_length. Qed.
Lemma len_As : length As = length desc. Proof. unfold As. rewrite map_length. apply len_sts. Qed.

Lemma row_cells_fit r : In r rows -> Forall2 (fun (c : str) w => (length c <= w)%nat) (row_cells numfmt o sts r) ws.
Proof. intros Hr. apply Forall2_cell_str. apply Hfits. exact Hr. Qed.

Lemma row_line_slots r : In r rows ->
  line_slots o ws (row_line o aligns ws (row_cells numfmt o sts r)) = Some (slots_of aligns ws (row_cells numfmt o sts r)).
Proof.
  intros Hr. rewrite row_line_eq. apply line_slots_framed. apply slots_lengths; [apply row_cells_fit; exact Hr|].
  rewrite len_aligns, len_ws. reflexivity.
Qed.

Lemma slot_nth r j : In r rows -> (j < length desc)%nat ->
  nth j (slots_of aligns ws (row_cells numfmt o sts r)) []
  = pad (align_of (snd (nth j desc d0))) (nth j ws 0%nat)
        (cell_str (render_cell numfmt o (nth j sts (TObject, SPlain 0)) (nth j r CNull))).
Proof.
  intros Hr Hj. destruct (Hwf r Hr) as [Hlen _].
  unfold slots_of. rewrite (map2_nth _ _ _ j (@nil Z) (0%nat, ALeft) (@nil Z)).
  - rewrite combine_nth by (rewrite len_ws, len_aligns; reflexivity). cbn [fst snd].
    unfold aligns. change ALeft with (align_of (snd d0)). rewrite (map_nth (fun d : str * dtype => align_of (snd d))).
    unfold row_cells. change (@nil Z) with (cell_str (One [])). rewrite map_nth.
    rewrite (map2_nth _ _ _ _ (TObject, SPlain 0) CNull) by (rewrite ?len_sts; lia). reflexivity.
  - unfold row_cells. rewrite map_length, map2_length, len_sts. lia.
  - rewrite combine_length, len_ws, len_aligns. lia.
Qed.

Lemma cell_j r j : In r rows -> (j < length desc)%nat ->
  exists anc,
    cell_check o prec (snd (nth j desc d0)) (nth j ws 0%nat) (nth j r CNull) 0
      (nth j (slots_of aligns ws (row_cells numfmt o sts r)) []) = (0, anc)
    /\ anc_ok (nth j As 0%nat) anc.
Proof.
  intros Hr Hj. destruct (Hwf r Hr) as [Hlen Hcells]. destruct (Hcells j Hj) as [Hok Hval].
  assert (HA : nth j As 0%nat = anchor_of (col_prepare quant o (snd (nth j desc d0)) (column j rows))).
  { unfold As. change 0%nat with (anchor_of (snd (TObject, SPlain 0))).
    rewrite (map_nth (fun ts : dtype * rstate => anchor_of (snd ts))). unfold sts. rewrite col_states_nth by exact Hj. reflexivity. }
  rewrite HA. clear HA.
  rewrite slot_nth by assumption. unfold sts. rewrite col_states_nth by exact Hj.
  unfold ws. rewrite table_widths_nth by exact Hj.
  pose proof (He j Hj) as Hex.
  remember (snd (nth j desc d0)) as t eqn:Et. remember (nth j r CNull) as v eqn:Ev.
  destruct t; try discriminate Hex;
    try (eexists; split; [apply cell_check_nondec; [reflexivity|discriminate|exact Hok]|constructor]).
  apply cell_check_dec; auto.
  - intros d Hd. apply (Hpos r Hr). rewrite <- Hd, Ev. apply nth_In. lia.
  - destruct v; auto; right; eapply column_in; try exact Hr; try (symmetry; exact Ev); try discriminate; lia.
  - unfold col_width. lia.
Qed.

Lemma row_check_model r : In r rows ->
  exists anc, row_check o prec desc ws r [row_line o aligns ws (row_cells numfmt o sts r)] = (0, anc)
              /\ Forall2 anc_ok As anc.
Proof.
  intros Hr. destruct (Hwf r Hr) as [Hlen _].
  unfold row_check. cbn [length seq map2 map fold_right]. rewrite (row_line_slots r Hr).
  set (slots := slots_of aligns ws (row_cells numfmt o sts r)).
  assert (Hsl : length slots = length desc).
  { unfold slots, slots_of. rewrite map2_length, combine_length, len_ws, len_aligns.
    unfold row_cells. rewrite map_length, map2_length, len_sts. lia. }
  set (cs := map2 (fun (dw : (str * dtype) * nat) (vs : cellv * str) =>
                     cell_check o prec (snd (fst dw)) (snd dw) (fst vs) 0 (snd vs)) (combine desc ws) (combine r slots)).
  assert (Hcl : length cs = length desc).
  { unfold cs. rewrite map2_length, !combine_length, len_ws, Hsl. lia. }
  assert (Hcj : forall j, (j < length desc)%nat -> exists anc, nth j cs (0, []) = (0, anc) /\ anc_ok (nth j As 0%nat) anc).
  { intros j Hj. unfold cs. rewrite (map2_nth _ _ _ j (d0, 0%nat) (CNull, @nil Z) (0, [])) by (rewrite !combine_length, ?len_ws, ?Hsl; lia).
    rewrite (combine_nth desc ws) by (rewrite len_ws; reflexivity).
    rewrite (combine_nth r slots) by (rewrite Hsl; exact Hlen). cbn [fst snd]. apply cell_j; assumption. }
  assert (H0 : first_code (map fst cs) = 0).
  { apply first_code_zero. intros x Hx. apply in_map_iff in Hx as [c [<- Hc]].
    destruct (In_nth _ _ (0, []) Hc) as [j [Hj <-]]. rewrite Hcl in Hj. destruct (Hcj j Hj) as [anc [E _]]. rewrite E. reflexivity. }
  rewrite H0. cbn [first_code Z.eqb fst snd].
  assert (Hms : length (map snd cs) = length desc) by (rewrite map_length; exact Hcl).
  rewrite (map2_app_blank (map snd cs) desc Hms).
  eexists. split; [reflexivity|].
  apply (Forall2_nth _ _ _ 0%nat []); [rewrite len_As, map_length, Hcl; reflexivity|].
  intros j Hj. rewrite len_As in Hj. destruct (Hcj j Hj) as [anc [E Ha]].
  change (@nil (list nat)) with (snd (0, @nil (list nat))). rewrite map_nth, E. exact Ha.
Qed.

Lemma spacer_line_ok :
  line_slots o ws (row_line o aligns ws (map (fun _ => []) sts)) = Some (slots_of aligns ws (map (fun _ => []) sts))
  /\ forallb blank (slots_of aligns ws (map (fun _ => []) sts)) = true.
Proof.
  split.
  - rewrite row_line_eq. apply line_slots_framed. apply slots_lengths; [apply Forall2_blank; rewrite len_sts, len_ws; reflexivity|].
    rewrite len_aligns, len_ws. reflexivity.
  - apply forallb_forall. intros s Hs. unfold slots_of in Hs.
    assert (HF : Forall (fun s : str => blank s = true)
              (map2 (fun (x : str) (wa : nat * align) => pad (snd wa) (fst wa) x) (map (fun _ => []) sts) (combine ws aligns))).
    { apply Forall_map2. intros a b Ha _. apply in_map_iff in Ha as [? [<- _]]. rewrite pad_nil. apply blank_spaces. }
    rewrite Forall_forall in HF. apply HF. exact Hs.
Qed.

Definition model_row_lines (r : list cellv) : list str :=
  map (row_line o aligns ws) (row_cells numfmt o sts r :: spacer o sts).

Lemma rows_check_model rs : (forall r, In r rs -> In r rows) ->
  exists anc, rows_check o prec desc ws rs (flat_map model_row_lines rs) = (0, anc) /\ Forall2 anc_ok As anc.
Proof.
  pose proof (exact_desc_Forall desc He) as HD.
  induction rs as [|r rs IH]; intros Hsub.
  - cbn. eexists. split; [reflexivity|]. apply anc_ok_blank. apply len_As.
  - destruct (row_check_model r (Hsub r (or_introl eq_refl))) as [a1 [E1 A1]].
    destruct IH as [a3 [E3 A3]]; [intros; apply Hsub; right; assumption|].
    destruct spacer_line_ok as [S1 S2].
    cbn [rows_check flat_map]. rewrite (row_lines_exact o desc r HD).
    assert (EL : model_row_lines r = row_line o aligns ws (row_cells numfmt o sts r) :: map (row_line o aligns ws) (spacer o sts)) by reflexivity.
    rewrite EL. clear EL. unfold spacer. destruct (o_spaced o) eqn:Esp.
    + cbn [map app firstn skipn]. rewrite E1, S1, S2, E3. cbn [guard first_code Z.eqb].
      eexists. split; [reflexivity|]. apply anc_ok_map2_app; assumption.
    + cbn [map app firstn skipn]. rewrite E1, E3. cbn [first_code Z.eqb].
      eexists. split; [reflexivity|]. apply anc_ok_map2_app; assumption.
Qed.

Hypothesis Hnf : nl_free o desc rows.

Lemma body_lines_gen rs : map (row_line o aligns ws) (flat_map (render_row numfmt o sts) rs) = flat_map model_row_lines rs.
Proof.
  pose proof (col_states_exact quant o desc rows He) as HS. fold sts in HS.
  induction rs as [|r rs IH]; [reflexivity|]. cbn [flat_map]. rewrite map_app, IH.
  rewrite (render_row_exact numfmt o sts r HS). reflexivity.
Qed.
Lemma body_lines : map (row_line o aligns ws) (render_rows numfmt o sts rows) = flat_map model_row_lines rows.
Proof. apply body_lines_gen. Qed.

Lemma ws_ge1 : Forall (fun w => (1 <= w)%nat) ws.
Proof. unfold ws, table_widths. apply Forall_map2. intros. unfold col_width. lia. Qed.

Theorem check_table_model :
  check_table_code o prec desc rows (unlines (text_lines quant numfmt o desc rows)) = 0.
Proof.
  unfold check_table_code.
  assert (Har : forallb (fun r : list cellv => (length r =? length desc)%nat) rows = true).
  { apply forallb_forall. intros r Hr. destruct (Hwf r Hr) as [Hl _]. apply Nat.eqb_eq. exact Hl. }
  rewrite Har. cbn [negb].
  set (L := text_lines quant numfmt o desc rows).
  rewrite <- (text_lines_length quant numfmt o desc rows He). fold L.
  assert (HLn : (1 <= length L)%nat).
  { unfold L, text_lines. rewrite !app_length. simpl. lia. }
  rewrite (split_rect_unlines (linew o ws) L HLn (text_lines_rect quant numfmt o desc rows Hn Hfits)
             (text_lines_nonl quant numfmt o desc rows Hwf He Hnf)).
  assert (Hne : ws <> []) by (intros E; pose proof len_ws as H; rewrite E in H; simpl in H; lia).
  pose proof (widths_of_h_line o ws Hne ws_ge1 (ltac:(destruct (o_unicode o); auto))) as HW.
  pose proof body_lines as HB.
  destruct (rows_check_model rows (fun r H => H)) as [anc [ER HA]].
  assert (Hfin : first_code (map2 (fun (d : str * dtype) a => guard (anchors_agree a)
                       (match snd d with TDecimal => 10 | _ => 12 end)) desc anc) = 0).
  { apply first_code_zero. intros x Hx.
    assert (HF : Forall (fun x => x = 0) (map2 (fun (d : str * dtype) a => guard (anchors_agree a)
                       (match snd d with TDecimal => 10 | _ => 12 end)) desc anc)).
    { apply Forall_map2. intros d a _ Ha. destruct (Forall2_in_r _ _ _ a HA Ha) as [A HAa].
      rewrite (anchors_agree_ok A a HAa). reflexivity. }
    rewrite Forall_forall in HF. apply HF. exact Hx. }
  assert (Hwok : forallb2 (fun (d : str * dtype) w => width_ok o (fst d) w) desc ws = true).
  { unfold ws, table_widths. apply forallb2_map2_r; [apply col_states_length|]. intros. apply width_ok_col_width. }
  pose proof (header_slots_ok quant numfmt o desc rows) as HH. cbv zeta in HH. change (table_widths quant numfmt o desc rows) with ws in HH.
  pose proof (header_slots_check desc ws len_ws) as HHC.
  unfold L, text_lines.
  change (table_widths quant numfmt o desc rows) with ws.
  change (col_states quant o desc rows) with sts.
  change (map (fun d : str * dtype => align_of (snd d)) desc) with aligns.
  destruct (o_boxed o) eqn:B.
  - cbn [app nth Nat.add]. rewrite HW, len_ws, Nat.eqb_refl, str_eqb_refl, str_eqb_refl.
    rewrite app_comm_cons. rewrite !app_comm_cons. rewrite last_app_single, str_eqb_refl. cbn [andb orb negb].
    rewrite Hwok. cbn [negb]. rewrite HH, HHC. cbn [negb].
    rewrite <- !app_comm_cons. cbn [skipn length]. rewrite app_length. cbn [length].
    replace (S (S (S (length (map (row_line o aligns ws) (render_rows numfmt o sts rows)) + 1))) - 3 - 1)%nat
      with (length (map (row_line o aligns ws) (render_rows numfmt o sts rows))) by lia.
    rewrite firstn_app, Nat.sub_diag, firstn_all, firstn_O, app_nil_r, HB, ER. cbn [Z.eqb negb]. exact Hfin.
  - cbn [app nth Nat.add]. rewrite app_nil_r. rewrite HW, len_ws, Nat.eqb_refl, str_eqb_refl. cbn [andb orb negb].
    rewrite Hwok. cbn [negb]. rewrite HH, HHC. cbn [negb skipn length].
    replace (S (S (length (map (row_line o aligns ws) (render_rows numfmt o sts rows)))) - 2 - 0)%nat
      with (length (map (row_line o aligns ws) (render_rows numfmt o sts rows))) by lia.
    rewrite firstn_all, HB, ER. cbn [Z.eqb negb]. exact Hfin.
Qed.
End Sound.

(* ------------------------------------------------------------------ read-back of date and decimal cells *)
Definition nosp (c : Z) : bool := negb (c =? 32).
Lemma numc_allnosp s : allc numc s = true -> allc nosp s = true.
Proof. apply allc_impl. intros c H. unfold nosp. destruct (c =? 32) eqn:E; [apply Z.eqb_eq in E; subst; discriminate|reflexivity]. Qed.

Lemma lstrip_spaces_all n : lstrip (spaces n) = [].
Proof. unfold lstrip. replace (spaces n) with (spaces n ++ []) by apply app_nil_r. rewrite lead_spaces_spaces. simpl. rewrite Nat.add_0_r, app_nil_r. apply skipn_all2. rewrite spaces_length. lia. Qed.
Lemma lstrip_spaces_cons n c (t : str) : c <> 32 -> lstrip (spaces n ++ c :: t) = c :: t.
Proof.
  intros Hc. unfold lstrip. rewrite lead_spaces_spaces.
  assert (lead_spaces (c :: t) = 0%nat) as ->.
  { destruct c as [|p|p]; try reflexivity. do 6 (destruct p as [p|p|]; try reflexivity). congruence. }
  rewrite Nat.add_0_r, skipn_app, spaces_length, Nat.sub_diag, skipn_all2 by (rewrite spaces_length; lia). reflexivity.
Qed.
Lemma lstrip_nosp n (s t : str) : allc nosp s = true -> s <> [] -> lstrip (spaces n ++ s ++ t) = s ++ t.
Proof.
  intros Hs Hne. destruct s as [|c s']; [congruence|]. simpl in Hs. apply andb_prop in Hs as [Hc _].
  cbn [app]. apply lstrip_spaces_cons. intros ->. discriminate.
Qed.
Lemma rev_spaces n : rev (spaces n) = spaces n.
Proof. unfold spaces. induction n; [reflexivity|]. simpl. rewrite IHn. clear. induction n; simpl; [reflexivity|]. rewrite <- IHn. reflexivity. Qed.
Lemma allc_rev P (s : str) : allc P s = true -> allc P (rev s) = true.
Proof. intros H. unfold allc. apply forallb_forall. intros c Hc. apply in_rev in Hc. eapply allc_in; eassumption. Qed.

(* stripping a padded cell gives back the cell text (texts without spaces) *)
Lemma strip_padded l r (s : str) : allc nosp s = true -> strip (spaces l ++ s ++ spaces r) = s.
Proof.
  intros Hs. unfold strip. destruct s as [|c s'] eqn:Es.
  - cbn [app]. rewrite spaces_app, lstrip_spaces_all. reflexivity.
  - rewrite <- Es in *. assert (Hne : s <> []) by (rewrite Es; discriminate).
    rewrite (lstrip_nosp l s (spaces r) Hs Hne).
    unfold rstrip. rewrite rev_app_distr, rev_spaces.
    replace (spaces r ++ rev s) with (spaces r ++ rev s ++ []) by (rewrite app_nil_r; reflexivity).
    rewrite lstrip_nosp; [rewrite app_nil_r; apply rev_involutive|apply allc_rev; exact Hs|].
    intros E. apply (f_equal (@rev Z)) in E. rewrite rev_involutive in E. simpl in E. congruence.
Qed.

(* dates *)
Lemma split_on_nochar c (a : str) : allc (fun x => negb (x =? c)) a = true -> split_on c a = [a].
Proof.
  induction a as [|x a IH]; intros H; [reflexivity|]. simpl in H. apply andb_prop in H as [H1 H2].
  cbn [split_on]. apply negb_true_iff in H1. rewrite H1, (IH H2). reflexivity.
Qed.
Lemma split_on_app c (a b : str) : allc (fun x => negb (x =? c)) a = true -> split_on c (a ++ c :: b) = a :: split_on c b.
Proof.
  induction a as [|x a IH]; intros H.
  - cbn [app split_on]. rewrite Z.eqb_refl. reflexivity.
  - simpl in H. apply andb_prop in H as [H1 H2]. cbn [app split_on]. apply negb_true_iff in H1. rewrite H1, (IH H2). reflexivity.
Qed.
Lemma digits_nodash s : forallb is_digit s = true -> allc (fun x => negb (x =? 45)) s = true.
Proof. apply allc_impl. intros c H. destruct (c =? 45) eqn:E; [apply Z.eqb_eq in E; subst; discriminate|reflexivity]. Qed.

Lemma pnat_zeros k (s : str) : pnat (repeat 48 k ++ s) = pnat s.
Proof. unfold pnat. induction k; [reflexivity|]. cbn [repeat app fold_left]. exact IHk. Qed.
Lemma zpad_digits w n : 0 <= n -> forallb is_digit (zpad w n) = true.
Proof. intros. unfold zpad. rewrite forallb_app, show_nat_digits by lia. rewrite andb_true_r. apply (allc_repeat is_digit). reflexivity. Qed.
Lemma parse_nat_zpad w n : 0 <= n -> parse_nat (zpad w n) = Some n.
Proof.
  intros Hn. unfold parse_nat. pose proof (zpad_digits w n Hn) as Hd.
  assert (Hne : zpad w n <> []).
  { unfold zpad. pose proof (show_nat_nonempty n). destruct (repeat 48 _); simpl; [assumption|discriminate]. }
  destruct (zpad w n) eqn:E; [congruence|]. rewrite <- E. rewrite (zpad_digits w n Hn). f_equal.
  unfold zpad. fold (pnat (repeat 48 (w - length (show_nat n)) ++ show_nat n)). rewrite pnat_zeros. apply show_nat_pnat. lia.
Qed.

Theorem readback_date y m d l r : 0 <= y -> 0 <= m -> 0 <= d ->
  parse_date (strip (spaces l ++ date_str y m d ++ spaces r)) = Some (y, m, d).
Proof.
  intros Hy Hm Hd.
  assert (Hn : allc numc (date_str y m d) = true).
  { unfold date_str. rewrite !allc_app, show_nat_numc, !zpad_numc by lia. reflexivity. }
  rewrite strip_padded by (apply numc_allnosp; exact Hn).
  unfold parse_date, date_str. cbn [app].
  rewrite split_on_app by (apply digits_nodash, show_nat_digits; lia).
  rewrite split_on_app by (apply digits_nodash, zpad_digits; lia).
  rewrite split_on_nochar by (apply digits_nodash, zpad_digits; lia).
  rewrite parse_nat_show, !parse_nat_zpad by lia. reflexivity.
Qed.
