(* C12 - proofs about Model/Inventory.v and Model/Balance.v.
   Inventories are compared as finite maps: [lookup inv k] is the number held
   under key k (0 when absent); [wf] is the dict invariant (unique keys, no zero
   position).  For well-formed inventories pointwise equality of lookups is the
   same as being permutations of each other ([eqv_perm]). *)
From Coq Require Import ZArith List Bool Lia Permutation.
From Verif Require Import Model.Inventory Model.Balance.
Import ListNotations.
Open Scope Z_scope.

(* ------------------------------------------------------------------ keys *)
Lemma optZ_eqb_eq a b : optZ_eqb a b = true <-> a = b.
Proof.
  destruct a, b; simpl; try (split; congruence).
  rewrite Z.eqb_eq. split; congruence.
Qed.

Lemma cost_eqb_eq a b : cost_eqb a b = true <-> a = b.
Proof.
  destruct a as [n1 c1 d1 l1], b as [n2 c2 d2 l2]. unfold cost_eqb. simpl.
  rewrite !andb_true_iff, !Z.eqb_eq, optZ_eqb_eq.
  split.
  - intros [[[? ?] ?] ?]. subst. reflexivity.
  - intros H. inversion H. auto.
Qed.

Lemma ocost_eqb_eq a b : ocost_eqb a b = true <-> a = b.
Proof.
  destruct a, b; simpl; try (split; congruence).
  rewrite cost_eqb_eq. split; congruence.
Qed.

Lemma key_eqb_eq a b : key_eqb a b = true <-> a = b.
Proof.
  destruct a, b. unfold key_eqb. simpl.
  rewrite andb_true_iff, Z.eqb_eq, ocost_eqb_eq. split.
  - intros [? ?]. subst. reflexivity.
  - intros H. inversion H. auto.
Qed.

Lemma key_eqP a b : reflect (a = b) (key_eqb a b).
Proof.
  destruct (key_eqb a b) eqn:E; constructor.
  - apply key_eqb_eq. exact E.
  - intro H. apply key_eqb_eq in H. congruence.
Qed.

Lemma key_eqb_refl k : key_eqb k k = true.
Proof. apply key_eqb_eq. reflexivity. Qed.

(* ------------------------------------------------------------------ finite-map view *)
Definition lookup (inv : inventory) (k : key) : Z :=
  match find k inv with Some n => n | None => 0 end.

Definition delta (k k' : key) (n : Z) : Z := if key_eqb k k' then n else 0.

Definition inv_eqv (a b : inventory) : Prop := forall k, lookup a k = lookup b k.

Definition keys (inv : inventory) : list key := map fst inv.

Definition wf (inv : inventory) : Prop :=
  NoDup (keys inv) /\ Forall (fun e : entry => snd e <> 0) inv.

Lemma inv_eqv_refl a : inv_eqv a a.
Proof. intro k. reflexivity. Qed.
Lemma inv_eqv_sym a b : inv_eqv a b -> inv_eqv b a.
Proof. intros H k. symmetry. apply H. Qed.
Lemma inv_eqv_trans a b c : inv_eqv a b -> inv_eqv b c -> inv_eqv a c.
Proof. intros H1 H2 k. rewrite H1. apply H2. Qed.

Lemma delta_add k k' n m : delta k k' (n + m) = delta k k' n + delta k k' m.
Proof. unfold delta. destruct (key_eqb k k'); lia. Qed.

Lemma delta_0 k k' : delta k k' 0 = 0.
Proof. unfold delta. destruct (key_eqb k k'); reflexivity. Qed.

Lemma find_replace k n inv k' :
  find k' (replace k n inv) =
  if key_eqb k k' then match find k inv with Some _ => Some n | None => None end
  else find k' inv.
Proof.
  induction inv as [|[k0 m0] t IH]; simpl.
  - destruct (key_eqb k k'); reflexivity.
  - destruct (key_eqP k0 k) as [->|N0]; simpl.
    + destruct (key_eqP k k') as [->|N1]; [reflexivity|]. exact IH.
    + destruct (key_eqP k0 k') as [->|N1].
      * destruct (key_eqP k k') as [->|N2]; [congruence|reflexivity].
      * exact IH.
Qed.

Lemma find_remove k inv k' :
  find k' (remove k inv) = if key_eqb k k' then None else find k' inv.
Proof.
  induction inv as [|[k0 m0] t IH]; simpl.
  - destruct (key_eqb k k'); reflexivity.
  - destruct (key_eqP k0 k) as [->|N0]; simpl.
    + rewrite IH. destruct (key_eqP k k'); reflexivity.
    + destruct (key_eqP k0 k') as [->|N1].
      * destruct (key_eqP k k') as [->|N2]; [congruence|reflexivity].
      * exact IH.
Qed.

Lemma find_app_single k n inv k' :
  find k' (inv ++ [(k, n)]) =
  match find k' inv with Some m => Some m | None => if key_eqb k k' then Some n else None end.
Proof.
  induction inv as [|[k0 m0] t IH]; simpl.
  - reflexivity.
  - destruct (key_eqb k0 k'); [reflexivity|exact IH].
Qed.

(* the finite-map meaning of Inventory.add_amount *)
Lemma lookup_add_amount inv a c k' :
  lookup (add_amount inv a c) k' = lookup inv k' + delta (snd a, c) k' (fst a).
Proof.
  destruct a as [n cur]. unfold add_amount, add_amount_full, lookup, delta. simpl.
  destruct (find (cur, c) inv) as [m|] eqn:F; simpl.
  - destruct (m + n =? 0) eqn:Z0.
    + rewrite find_remove. apply Z.eqb_eq in Z0.
      destruct (key_eqP (cur, c) k') as [<-|N]; [rewrite F; lia|lia].
    + rewrite find_replace, F.
      destruct (key_eqP (cur, c) k') as [<-|N]; [rewrite F; lia|lia].
  - destruct (n =? 0) eqn:Z0; simpl.
    + apply Z.eqb_eq in Z0. subst. destruct (key_eqb (cur, c) k'); lia.
    + rewrite find_app_single.
      destruct (key_eqP (cur, c) k') as [<-|N].
      * rewrite F. lia.
      * destruct (find k' inv); lia.
Qed.

Lemma lookup_add_position inv p k' :
  lookup (add_position inv p) k' = lookup inv k' + delta (pkey p) k' (pnum p).
Proof. unfold add_position. rewrite lookup_add_amount. reflexivity. Qed.

(* ------------------------------------------------------------------ the dict invariant *)
Lemma keys_replace k n inv : keys (replace k n inv) = keys inv.
Proof.
  induction inv as [|[k0 m0] t IH]; simpl; [reflexivity|].
  destruct (key_eqb k0 k); simpl; rewrite IH; reflexivity.
Qed.

Lemma in_keys_remove k inv x : In x (keys (remove k inv)) -> In x (keys inv).
Proof.
  induction inv as [|[k0 m0] t IH]; simpl; [tauto|].
  destruct (key_eqb k0 k); simpl; intuition.
Qed.

Lemma nodup_remove k inv : NoDup (keys inv) -> NoDup (keys (remove k inv)).
Proof.
  induction inv as [|[k0 m0] t IH]; simpl; intro H; [constructor|].
  inversion H; subst.
  destruct (key_eqb k0 k); simpl; [auto|].
  constructor; [|auto]. intro HI. apply in_keys_remove in HI. contradiction.
Qed.

Lemma find_none_notin k inv : find k inv = None -> ~ In k (keys inv).
Proof.
  induction inv as [|[k0 m0] t IH]; simpl; [tauto|].
  destruct (key_eqP k0 k) as [->|N]; [discriminate|].
  intros F [E|HI]; [congruence|]. exact (IH F HI).
Qed.

Lemma notin_find_none k inv : ~ In k (keys inv) -> find k inv = None.
Proof.
  induction inv as [|[k0 m0] t IH]; simpl; [reflexivity|].
  intro H. destruct (key_eqP k0 k) as [->|N]; [tauto|]. apply IH. tauto.
Qed.

Lemma forall_replace k n inv :
  n <> 0 -> Forall (fun e : entry => snd e <> 0) inv ->
  Forall (fun e : entry => snd e <> 0) (replace k n inv).
Proof.
  intros Hn. induction inv as [|[k0 m0] t IH]; simpl; intro H; [constructor|].
  inversion H; subst. destruct (key_eqb k0 k); constructor; simpl; auto.
Qed.

Lemma forall_remove k inv :
  Forall (fun e : entry => snd e <> 0) inv ->
  Forall (fun e : entry => snd e <> 0) (remove k inv).
Proof.
  induction inv as [|[k0 m0] t IH]; simpl; intro H; [constructor|].
  inversion H; subst. destruct (key_eqb k0 k); [auto|constructor; auto].
Qed.

Lemma NoDup_app_single_end {A} (l : list A) (x : A) : NoDup l -> ~ In x l -> NoDup (l ++ [x]).
Proof.
  induction l as [|a t IH]; simpl; intros ND NI.
  - constructor; [simpl; tauto|constructor].
  - inversion ND; subst. constructor.
    + rewrite in_app_iff. simpl. intros [H|[H|[]]]; [contradiction|subst; tauto].
    + apply IH; tauto.
Qed.

Lemma wf_nil : wf [].
Proof. split; constructor. Qed.

Lemma wf_add_amount inv a c : wf inv -> wf (add_amount inv a c).
Proof.
  intros [ND NZ]. destruct a as [n cur]. unfold add_amount, add_amount_full. simpl.
  destruct (find (cur, c) inv) as [m|] eqn:F; simpl.
  - destruct (m + n =? 0) eqn:Z0.
    + split; [apply nodup_remove; exact ND|apply forall_remove; exact NZ].
    + apply Z.eqb_neq in Z0. split.
      * rewrite keys_replace. exact ND.
      * apply forall_replace; assumption.
  - destruct (n =? 0) eqn:Z0; simpl; [split; assumption|].
    apply Z.eqb_neq in Z0. split.
    + unfold keys. rewrite map_app. simpl.
      apply NoDup_app_single_end; [exact ND|]. apply find_none_notin. exact F.
    + apply Forall_app. split; [exact NZ|]. constructor; [exact Z0|constructor].
Qed.

Lemma wf_add_position inv p : wf inv -> wf (add_position inv p).
Proof. apply wf_add_amount. Qed.

Lemma wf_fold_add_position l acc : wf acc -> wf (fold_left add_position l acc).
Proof.
  revert acc. induction l as [|p t IH]; simpl; intros acc H; [exact H|].
  apply IH. apply wf_add_position. exact H.
Qed.

Lemma wf_sum_pos l : wf (sum_pos l).
Proof. apply wf_fold_add_position. apply wf_nil. Qed.

Lemma wf_sum_amt l : wf (sum_amt l).
Proof.
  unfold sum_amt. generalize wf_nil. generalize (@nil entry).
  induction l as [|a t IH]; simpl; intros acc H; [exact H|].
  apply IH. apply wf_add_amount. exact H.
Qed.

Lemma wf_reduce f inv : wf (reduce f inv).
Proof.
  unfold reduce. generalize wf_nil. generalize (@nil entry).
  induction inv as [|e t IH]; simpl; intros acc H; [exact H|].
  apply IH. apply wf_add_amount. exact H.
Qed.

Lemma wf_fold_add_entry l acc : wf acc -> wf (fold_left add_entry l acc).
Proof.
  revert acc. induction l as [|p t IH]; simpl; intros acc H; [exact H|].
  apply IH. apply wf_add_position. exact H.
Qed.

Lemma wf_add_inventory a b : wf a -> wf b -> wf (add_inventory a b).
Proof.
  intros Ha Hb. destruct a as [|e t]; simpl; [exact Hb|].
  apply (wf_fold_add_entry b (e :: t)). exact Ha.
Qed.

(* ------------------------------------------------------------------ sums over lists *)
Definition zsum {X} (w : X -> Z) (l : list X) : Z := fold_right (fun x s => w x + s) 0 l.

Lemma zsum_app {X} (w : X -> Z) l1 l2 : zsum w (l1 ++ l2) = zsum w l1 + zsum w l2.
Proof. induction l1; simpl; lia. Qed.

Lemma zsum_ext {X} (w w' : X -> Z) l : (forall x, In x l -> w x = w' x) -> zsum w l = zsum w' l.
Proof.
  induction l; simpl; intro H; [reflexivity|].
  rewrite (H a) by tauto. rewrite IHl; [reflexivity|]. intros. apply H. tauto.
Qed.

Lemma zsum_map {X Y} (g : X -> Y) (w : Y -> Z) l : zsum w (map g l) = zsum (fun x => w (g x)) l.
Proof. induction l; simpl; congruence. Qed.

Lemma zsum_perm {X} (w : X -> Z) l1 l2 : Permutation l1 l2 -> zsum w l1 = zsum w l2.
Proof. induction 1; simpl; lia. Qed.

Lemma zsum_zero {X} (w : X -> Z) l : (forall x, In x l -> w x = 0) -> zsum w l = 0.
Proof.
  induction l; simpl; intro H; [reflexivity|].
  rewrite (H a) by tauto. rewrite IHl; [reflexivity|]. intros. apply H. tauto.
Qed.

Lemma zsum_plus {X} (w1 w2 : X -> Z) l : zsum (fun x => w1 x + w2 x) l = zsum w1 l + zsum w2 l.
Proof. induction l; simpl; lia. Qed.

Lemma zsum_filter {X} (w : X -> Z) (f : X -> bool) l :
  zsum w (filter f l) = zsum (fun x => if f x then w x else 0) l.
Proof. induction l; simpl; [reflexivity|]. destruct (f a); simpl; lia. Qed.

Lemma zsum_swap {X Y} (w : X -> Y -> Z) (lx : list X) (ly : list Y) :
  zsum (fun x => zsum (w x) ly) lx = zsum (fun y => zsum (fun x => w x y) lx) ly.
Proof.
  induction lx; simpl.
  - symmetry. apply zsum_zero. reflexivity.
  - rewrite IHlx. rewrite <- zsum_plus. reflexivity.
Qed.

Lemma zsum_indicator (a c : Z) groups :
  NoDup groups -> In a groups -> zsum (fun g => if a =? g then c else 0) groups = c.
Proof.
  induction groups as [|g t IH]; simpl; intros ND HI; [tauto|].
  inversion ND; subst. destruct HI as [->|HI].
  - rewrite Z.eqb_refl. rewrite zsum_zero; [lia|].
    intros x Hx. destruct (Z.eqb_spec a x); [subst; tauto|reflexivity].
  - destruct (Z.eqb_spec a g); [subst; tauto|]. rewrite IH; auto.
Qed.

(* entries of an inventory summed with a weight per (key, number) *)
Definition esum (g : key -> Z -> Z) (inv : inventory) : Z := zsum (fun e : entry => g (fst e) (snd e)) inv.

Definition additive (g : key -> Z -> Z) : Prop := forall k n m, g k (n + m) = g k n + g k m.

Lemma additive_0 g k : additive g -> g k 0 = 0.
Proof. intro H. specialize (H k 0 0). simpl in H. lia. Qed.

Lemma replace_notin k n inv : ~ In k (keys inv) -> replace k n inv = inv.
Proof.
  induction inv as [|[k0 m0] t IH]; simpl; intro H; [reflexivity|].
  destruct (key_eqP k0 k) as [->|N]; [tauto|]. rewrite IH; tauto.
Qed.

Lemma remove_notin k inv : ~ In k (keys inv) -> remove k inv = inv.
Proof.
  induction inv as [|[k0 m0] t IH]; simpl; intro H; [reflexivity|].
  destruct (key_eqP k0 k) as [->|N]; [tauto|]. rewrite IH; tauto.
Qed.

Lemma esum_replace g k m n inv :
  NoDup (keys inv) -> find k inv = Some m ->
  esum g (replace k n inv) = esum g inv - g k m + g k n.
Proof.
  unfold esum. induction inv as [|[k0 m0] t IH]; simpl; intros ND F; [discriminate|].
  inversion ND; subst.
  destruct (key_eqP k0 k) as [->|N]; simpl.
  - inversion F; subst. rewrite replace_notin by assumption. lia.
  - rewrite IH by assumption. lia.
Qed.

Lemma esum_remove g k m inv :
  NoDup (keys inv) -> find k inv = Some m ->
  esum g (remove k inv) = esum g inv - g k m.
Proof.
  unfold esum. induction inv as [|[k0 m0] t IH]; simpl; intros ND F; [discriminate|].
  inversion ND; subst.
  destruct (key_eqP k0 k) as [->|N]; simpl.
  - inversion F; subst. rewrite remove_notin by assumption. lia.
  - rewrite IH by assumption. lia.
Qed.

(* adding an amount changes an additive entry-sum by the weight of the amount *)
Lemma esum_add_amount g inv a c :
  additive g -> NoDup (keys inv) ->
  esum g (add_amount inv a c) = esum g inv + g (snd a, c) (fst a).
Proof.
  intros Hg ND. destruct a as [n cur]. unfold add_amount, add_amount_full. simpl.
  destruct (find (cur, c) inv) as [m|] eqn:F; simpl.
  - destruct (m + n =? 0) eqn:Z0.
    + apply Z.eqb_eq in Z0. rewrite (esum_remove g _ m) by assumption.
      pose proof (Hg (cur, c) m n) as H. rewrite Z0, (additive_0 g) in H by assumption. lia.
    + rewrite (esum_replace g _ m) by assumption. rewrite Hg. lia.
  - destruct (n =? 0) eqn:Z0; simpl.
    + apply Z.eqb_eq in Z0. subst. rewrite additive_0 by assumption. lia.
    + unfold esum. rewrite zsum_app. simpl. lia.
Qed.

Lemma esum_notin g k inv :
  ~ In k (keys inv) -> esum (fun k' n => delta k' k (g k' n)) inv = 0.
Proof.
  intro H. unfold esum. apply zsum_zero. intros [k0 m0] HI. simpl. unfold delta.
  destruct (key_eqP k0 k) as [->|N]; [|reflexivity].
  exfalso. apply H. unfold keys. apply in_map_iff. exists (k, m0). auto.
Qed.

Lemma lookup_esum inv k :
  NoDup (keys inv) -> lookup inv k = esum (fun k' n => delta k' k n) inv.
Proof.
  unfold lookup. induction inv as [|[k0 m0] t IH]; simpl; intro ND; [reflexivity|].
  inversion ND; subst. unfold esum in *. simpl. unfold delta at 1.
  destruct (key_eqP k0 k) as [->|N].
  - pose proof (esum_notin (fun _ n => n) k t H1) as E. unfold esum in E. rewrite E. lia.
  - rewrite IH by assumption. lia.
Qed.

(* ------------------------------------------------------------------ lookups of sums *)
Lemma lookup_fold_add_position l acc k :
  lookup (fold_left add_position l acc) k
  = lookup acc k + zsum (fun p => delta (pkey p) k (pnum p)) l.
Proof.
  revert acc. induction l as [|p t IH]; simpl; intro acc; [lia|].
  rewrite IH, lookup_add_position. lia.
Qed.

Lemma lookup_nil k : lookup [] k = 0.
Proof. reflexivity. Qed.

Lemma lookup_sum_pos l k : lookup (sum_pos l) k = zsum (fun p => delta (pkey p) k (pnum p)) l.
Proof. unfold sum_pos. rewrite lookup_fold_add_position. rewrite lookup_nil. lia. Qed.

Lemma lookup_sum_amt l k :
  lookup (sum_amt l) k = zsum (fun a : amount => delta (snd a, None) k (fst a)) l.
Proof.
  unfold sum_amt.
  assert (G : forall acc, lookup (fold_left (fun acc a => add_amount acc a None) l acc) k
                          = lookup acc k + zsum (fun a : amount => delta (snd a, None) k (fst a)) l).
  { induction l as [|a t IH]; simpl; intro acc; [lia|]. rewrite IH, lookup_add_amount. lia. }
  rewrite G, lookup_nil. lia.
Qed.

Lemma lookup_fold_add_entry l acc k :
  lookup (fold_left add_entry l acc) k = lookup acc k + esum (fun k' n => delta k' k n) l.
Proof.
  revert acc. unfold esum. induction l as [|[k0 m0] t IH]; simpl; intro acc; [lia|].
  rewrite IH. unfold add_entry. rewrite lookup_add_position. unfold pkey, epos. simpl.
  destruct k0. simpl. lia.
Qed.

(* Inventory.add_inventory adds the maps pointwise *)
Lemma lookup_add_inventory a b k :
  NoDup (keys b) -> lookup (add_inventory a b) k = lookup a k + lookup b k.
Proof.
  intro ND. destruct a as [|e t].
  - cbn [add_inventory]. change (lookup [] k) with 0. lia.
  - unfold add_inventory. rewrite lookup_fold_add_entry. rewrite <- lookup_esum by assumption. reflexivity.
Qed.

Lemma lookup_sum_inv l k :
  Forall wf l -> lookup (sum_inv l) k = zsum (fun i => lookup i k) l.
Proof.
  unfold sum_inv. intro H.
  assert (G : forall acc, lookup (fold_left add_inventory l acc) k = lookup acc k + zsum (fun i => lookup i k) l).
  { induction H as [|i t Hi Ht IH]; simpl; intro acc; [lia|].
    rewrite IH. rewrite lookup_add_inventory by apply Hi. lia. }
  rewrite G, lookup_nil. lia.
Qed.

Lemma wf_sum_inv l : Forall wf l -> wf (sum_inv l).
Proof.
  unfold sum_inv. generalize wf_nil. generalize (@nil entry).
  induction l as [|i t IH]; simpl; intros acc Ha H; [exact Ha|].
  inversion H; subst. apply IH; [|assumption]. apply wf_add_inventory; assumption.
Qed.

(* ------------------------------------------------------------------ finite maps vs lists *)
Lemma find_in inv k n : find k inv = Some n -> In (k, n) inv.
Proof.
  induction inv as [|[k0 m0] t IH]; simpl; [discriminate|].
  destruct (key_eqP k0 k) as [->|N]; intro H; [inversion H; auto|auto].
Qed.

Lemma in_find inv k n : NoDup (keys inv) -> In (k, n) inv -> find k inv = Some n.
Proof.
  induction inv as [|[k0 m0] t IH]; simpl; intros ND HI; [tauto|].
  inversion ND; subst. destruct HI as [E|HI].
  - inversion E; subst. rewrite key_eqb_refl. reflexivity.
  - destruct (key_eqP k0 k) as [->|N]; [|auto].
    exfalso. apply H1. unfold keys. apply in_map_iff. exists (k, n). auto.
Qed.

Lemma in_lookup inv k n : wf inv -> (In (k, n) inv <-> lookup inv k = n /\ n <> 0).
Proof.
  intros [ND NZ]. unfold lookup. split.
  - intro HI. rewrite (in_find _ _ _ ND HI). split; [reflexivity|].
    rewrite Forall_forall in NZ. apply (NZ _ HI).
  - intros [E N]. destruct (find k inv) as [m|] eqn:F; [|congruence].
    subst. apply find_in. exact F.
Qed.

Lemma nodup_entries inv : NoDup (keys inv) -> NoDup inv.
Proof. unfold keys. apply NoDup_map_inv. Qed.

(* well-formed inventories equal as maps hold the same positions *)
Lemma eqv_perm a b : wf a -> wf b -> inv_eqv a b -> Permutation a b.
Proof.
  intros Ha Hb E. apply NoDup_Permutation.
  - apply nodup_entries. apply Ha.
  - apply nodup_entries. apply Hb.
  - intros [k n]. rewrite (in_lookup a k n Ha), (in_lookup b k n Hb), (E k). tauto.
Qed.

Lemma perm_eqv a b : wf a -> Permutation a b -> inv_eqv a b.
Proof.
  intros Ha P k. assert (Hb : NoDup (keys b)).
  { unfold keys. eapply Permutation_NoDup; [apply Permutation_map; exact P|apply Ha]. }
  rewrite (lookup_esum a k) by apply Ha. rewrite (lookup_esum b k) by exact Hb.
  unfold esum. apply zsum_perm. exact P.
Qed.

(* ------------------------------------------------------------------ homomorphism laws *)
(* sum over l1 ++ l2 = sum l1 + sum l2 (Inventory.add_inventory) *)
Theorem sum_app l1 l2 :
  inv_eqv (sum_pos (l1 ++ l2)) (add_inventory (sum_pos l1) (sum_pos l2)).
Proof.
  intro k. rewrite lookup_add_inventory by apply wf_sum_pos.
  rewrite !lookup_sum_pos, zsum_app. reflexivity.
Qed.

Theorem sum_app_perm l1 l2 :
  Permutation (sum_pos (l1 ++ l2)) (add_inventory (sum_pos l1) (sum_pos l2)).
Proof.
  apply eqv_perm; [apply wf_sum_pos| |apply sum_app].
  apply wf_add_inventory; apply wf_sum_pos.
Qed.

(* the running fold really is an append law on the nose *)
Lemma sum_pos_app_fold l1 l2 : sum_pos (l1 ++ l2) = fold_left add_position l2 (sum_pos l1).
Proof. unfold sum_pos. apply fold_left_app. Qed.

Theorem sum_perm l1 l2 : Permutation l1 l2 -> inv_eqv (sum_pos l1) (sum_pos l2).
Proof. intros P k. rewrite !lookup_sum_pos. apply zsum_perm. exact P. Qed.

Theorem sum_perm_perm l1 l2 : Permutation l1 l2 -> Permutation (sum_pos l1) (sum_pos l2).
Proof. intro P. apply eqv_perm; [apply wf_sum_pos|apply wf_sum_pos|apply sum_perm; exact P]. Qed.

(* GROUP BY: the group sums, added up (SumInventory), give the sum of the whole selection *)
Lemma zsum_partition {X} (w : X -> Z) (gk : X -> Z) (groups : list Z) (l : list X) :
  NoDup groups -> (forall x, In x l -> In (gk x) groups) ->
  zsum (fun g => zsum w (filter (fun x => gk x =? g) l)) groups = zsum w l.
Proof.
  intros ND H.
  rewrite (zsum_ext _ (fun g => zsum (fun x => if gk x =? g then w x else 0) l)).
  2:{ intros g _. apply zsum_filter. }
  rewrite zsum_swap. apply zsum_ext. intros x Hx.
  apply zsum_indicator; auto.
Qed.

Theorem partition_total {X} (pos_of : X -> position) (gk : X -> Z) (groups : list Z) (l : list X) :
  NoDup groups -> (forall x, In x l -> In (gk x) groups) ->
  inv_eqv (sum_inv (map (fun g => sum_pos (map pos_of (filter (fun x => gk x =? g) l))) groups))
          (sum_pos (map pos_of l)).
Proof.
  intros ND H k. rewrite lookup_sum_inv.
  2:{ apply Forall_forall. intros i Hi. apply in_map_iff in Hi. destruct Hi as [g [<- _]]. apply wf_sum_pos. }
  rewrite zsum_map.
  rewrite (zsum_ext _ (fun g => zsum (fun x => delta (pkey (pos_of x)) k (pnum (pos_of x)))
                                     (filter (fun x => gk x =? g) l))).
  2:{ intros g _. rewrite lookup_sum_pos, zsum_map. reflexivity. }
  rewrite zsum_partition by assumption.
  rewrite lookup_sum_pos, zsum_map. reflexivity.
Qed.

Theorem partition_two (f : position -> bool) l :
  inv_eqv (add_inventory (sum_pos (filter f l)) (sum_pos (filter (fun p => negb (f p)) l))) (sum_pos l).
Proof.
  intro k. rewrite lookup_add_inventory by apply wf_sum_pos.
  rewrite !lookup_sum_pos, !zsum_filter, <- zsum_plus. apply zsum_ext.
  intros p _. destruct (f p); simpl; lia.
Qed.

(* ------------------------------------------------------------------ reducers *)
(* a reducer is lot-linear when, on positions of one lot (currency, cost), the
   currency of the result does not depend on the number and the number of the
   result is additive in the number *)
Definition lot_linear (f : position -> amount) : Prop :=
  (forall cur c n m, snd (f (mkpos n cur c)) = snd (f (mkpos m cur c))) /\
  (forall cur c n m, fst (f (mkpos (n + m) cur c)) = fst (f (mkpos n cur c)) + fst (f (mkpos m cur c))).

Lemma lookup_reduce f inv k :
  lookup (reduce f inv) k
  = esum (fun k' n => delta (snd (f (mkpos n (fst k') (snd k'))), None) k (fst (f (mkpos n (fst k') (snd k'))))) inv.
Proof.
  unfold reduce, esum.
  assert (G : forall acc, lookup (fold_left (fun acc e => add_amount acc (f (epos e)) None) inv acc) k
     = lookup acc k + zsum (fun e : entry => delta (snd (f (epos e)), None) k (fst (f (epos e)))) inv).
  { induction inv as [|e t IH]; simpl; intro acc; [lia|]. rewrite IH, lookup_add_amount. lia. }
  rewrite G. change (lookup [] k) with 0. reflexivity.
Qed.

Lemma esum_fold_add_position g l acc :
  additive g -> wf acc ->
  esum g (fold_left add_position l acc) = esum g acc + zsum (fun p => g (pkey p) (pnum p)) l.
Proof.
  intros Hg. revert acc. induction l as [|p t IH]; simpl; intros acc Ha; [lia|].
  rewrite IH by (apply wf_add_position; exact Ha).
  unfold add_position. rewrite esum_add_amount by (try assumption; apply Ha).
  unfold pkey, punits. simpl. lia.
Qed.

(* f(sum of positions) = sum of f(position), for every lot-linear reducer *)
Theorem reduce_commutes f l :
  lot_linear f -> inv_eqv (reduce f (sum_pos l)) (sum_amt (map f l)).
Proof.
  intros [Hc Hn] k. rewrite lookup_reduce, lookup_sum_amt, zsum_map.
  unfold sum_pos. rewrite esum_fold_add_position.
  - unfold esum. simpl. apply zsum_ext. intros [n cur c] _. reflexivity.
  - intros [cur c] n m. simpl.
    rewrite (Hc cur c (n + m) 0), (Hc cur c n 0), (Hc cur c m 0), Hn. apply delta_add.
  - apply wf_nil.
Qed.

Theorem reduce_commutes_perm f l :
  lot_linear f -> Permutation (reduce f (sum_pos l)) (sum_amt (map f l)).
Proof.
  intro H. apply eqv_perm; [apply wf_reduce|apply wf_sum_amt|apply reduce_commutes; exact H].
Qed.

Lemma lot_linear_units : lot_linear get_units.
Proof. split; intros; unfold get_units, punits; simpl; reflexivity. Qed.

Lemma lot_linear_cost one : lot_linear (get_cost one).
Proof. split; intros cur c n m; unfold get_cost; simpl; destruct c; simpl; try reflexivity; ring. Qed.

(* value() and convert(): for EVERY price function (the rate looked up depends on
   the currencies and the date only, never on the number) *)
Lemma lot_linear_value price one date : lot_linear (get_value price one date).
Proof.
  split; intros cur c n m; unfold get_value; simpl; destruct c as [c|]; simpl;
    try (destruct (price cur (ccur c) date)); simpl; try reflexivity; ring.
Qed.

Lemma lot_linear_convert price one target date : lot_linear (convert_position price one target date).
Proof.
  split; intros cur c n m; unfold convert_position, convert_amount, punits; simpl;
    destruct (price cur target date); simpl; try reflexivity; try ring;
    destruct c as [c|]; simpl; try reflexivity; try ring;
    destruct (ccur c =? target); simpl; try reflexivity; try ring;
    destruct (price cur (ccur c) date); simpl; try reflexivity; try ring;
    destruct (price (ccur c) target date); simpl; try reflexivity; ring.
Qed.

(* a reducer that multiplies by a rate depending on the lot only: the general linear shape *)
Lemma lot_linear_rate (rate : currency -> option cost -> Z) (tcur : currency -> option cost -> currency) :
  lot_linear (fun p => (pnum p * rate (pcur p) (pcost p), tcur (pcur p) (pcost p))).
Proof. split; intros; simpl; [reflexivity|ring]. Qed.

(* converse: over the integers a lot-linear reducer IS multiplication by a per-lot rate *)
Lemma lot_linear_homogeneous f cur c (n : Z) :
  lot_linear f -> fst (f (mkpos n cur c)) = n * fst (f (mkpos 1 cur c)).
Proof.
  intros [_ Hn].
  assert (H0 : fst (f (mkpos 0 cur c)) = 0).
  { pose proof (Hn cur c 0 0) as H. simpl in H. lia. }
  assert (Hp : forall k, 0 <= k -> fst (f (mkpos k cur c)) = k * fst (f (mkpos 1 cur c))).
  { intros k Hk. pattern k. apply natlike_ind; [rewrite H0; lia| |exact Hk].
    intros x Hx IH. unfold Z.succ. rewrite Hn, IH. ring. }
  destruct (Z_le_gt_dec 0 n) as [Hle|Hgt]; [apply Hp; exact Hle|].
  pose proof (Hn cur c n (- n)) as H. replace (n + - n) with 0 in H by lia.
  rewrite H0, (Hp (- n)) in H by lia. lia.
Qed.

(* NULL-skipping aggregators are the sums of the non-NULL values *)
Fixpoint somes {A} (l : list (option A)) : list A :=
  match l with [] => [] | Some a :: t => a :: somes t | None :: t => somes t end.

Lemma sum_position_somes vals : sum_position vals = sum_pos (somes vals).
Proof.
  unfold sum_position, sum_pos. generalize (@nil entry).
  induction vals as [|[p|] t IH]; simpl; intro acc; [reflexivity|apply IH|apply IH].
Qed.

Lemma sum_amount_somes vals : sum_amount vals = sum_amt (somes vals).
Proof.
  unfold sum_amount, sum_amt. generalize (@nil entry).
  induction vals as [|[p|] t IH]; simpl; intro acc; [reflexivity|apply IH|apply IH].
Qed.

Lemma sum_inventory_somes vals : sum_inventory vals = sum_inv (somes vals).
Proof.
  unfold sum_inventory, sum_inv. generalize (@nil entry).
  induction vals as [|[p|] t IH]; simpl; intro acc; [reflexivity|apply IH|apply IH].
Qed.

(* ================================================================== the balance column *)
Lemma memo_hit_after_miss st posting :
  memo_hit st = None ->
  let b := add_position (rbal st) posting in
  balance_col st posting = (mkrow (rowid st) b (Some (rowid st, b)), b).
Proof. intro H. unfold balance_col. rewrite H. reflexivity. Qed.

(* the memo: once the row's balance has been computed every further reference
   returns that same Inventory and leaves the row context alone *)
Lemma run_hit {A} (p : prog A) st posting v :
  memo_hit st = Some v -> run p st posting = (st, fst (pure_run p v)).
Proof.
  intro H. induction p as [a|k IH]; simpl; [reflexivity|].
  unfold balance_col. rewrite H. apply IH.
Qed.

(* a row whose memo is stale: the first reference (if any) adds the posting once *)
Lemma run_fresh {A} (p : prog A) st posting :
  memo_hit st = None ->
  let v := add_position (rbal st) posting in
  run p st posting =
  ((if snd (pure_run p v) then mkrow (rowid st) v (Some (rowid st, v)) else st), fst (pure_run p v)).
Proof.
  intros H v. destruct p as [a|k]; simpl; [reflexivity|].
  rewrite (memo_hit_after_miss st posting H). fold v.
  apply run_hit. unfold memo_hit. simpl. rewrite Z.eqb_refl. reflexivity.
Qed.

Lemma pure_run_bind {A B} (p : prog A) (f : A -> prog B) v :
  pure_run (bind p f) v =
  (fst (pure_run (f (fst (pure_run p v))) v), orb (snd (pure_run p v)) (snd (pure_run (f (fst (pure_run p v))) v))).
Proof.
  induction p as [a|k IH]; simpl.
  - destruct (pure_run (f a) v). reflexivity.
  - rewrite IH. reflexivity.
Qed.

Lemma pure_run_refs n v : pure_run (refs n) v = (repeat v n, match n with O => false | S _ => true end).
Proof.
  induction n as [|m IH]; simpl; [reflexivity|].
  rewrite pure_run_bind, IH. reflexivity.
Qed.

(* the memo never runs ahead of the row counter *)
Definition good (st : rowst) : Prop :=
  match memo st with Some (id, _) => id <= rowid st | None => True end.

Lemma good_init : good row_init.
Proof. exact I. Qed.

Lemma next_row_stale st : good st -> memo_hit (next_row st) = None.
Proof.
  unfold good, memo_hit, next_row. simpl. destruct (memo st) as [[id v]|]; [|reflexivity].
  intro H. destruct (Z.eqb_spec id (rowid st + 1)); [lia|reflexivity].
Qed.

Section ExecProofs.
  Variable R : Type.
  Variable posting_of : R -> position.
  Variable T : Type.
  Variable c_where : option (R -> prog bool).
  Variable c_targets : R -> prog T.

  Notation scan := (scan R posting_of T c_where c_targets).
  Notation scan_spec := (scan_spec R posting_of T c_where c_targets).

  (* THE law of the running balance: the row loop with its stateful, memoised,
     lazily evaluated column computes [scan_spec]: every reference in a row sees
     (balance before the row) + (the row's posting), and the balance advances
     exactly when the row referenced it at least once. *)
  Theorem scan_correct rows : forall st, good st -> scan st rows = scan_spec (rbal st) rows.
  Proof.
    induction rows as [|r t IH]; intros st G; [reflexivity|].
    simpl. pose proof (next_row_stale st G) as S1.
    set (st1 := next_row st) in *.
    set (v := add_position (rbal st) (posting_of r)).
    assert (Ev : add_position (rbal st1) (posting_of r) = v) by reflexivity.
    destruct c_where as [w|].
    - rewrite (run_fresh (w r) st1 (posting_of r) S1). rewrite Ev.
      destruct (pure_run (w r) v) as [ok tw] eqn:EW. simpl.
      destruct tw.
      + (* the condition consulted balance: targets hit the memo *)
        destruct ok.
        * rewrite (run_hit (c_targets r) _ (posting_of r) v)
            by (unfold memo_hit; simpl; rewrite Z.eqb_refl; reflexivity).
          destruct (pure_run (c_targets r) v) as [vals tg]. simpl.
          f_equal. apply IH. unfold good. simpl. lia.
        * apply IH. unfold good. simpl. lia.
      + destruct ok.
        * rewrite (run_fresh (c_targets r) st1 (posting_of r) S1). rewrite Ev.
          destruct (pure_run (c_targets r) v) as [vals tg]. simpl.
          f_equal. destruct tg.
          -- apply IH. unfold good. simpl. lia.
          -- apply (IH st1). unfold good, st1, next_row in *. simpl.
             destruct (memo st) as [[id x]|]; [lia|exact I].
        * apply (IH st1). unfold good, st1, next_row in *. simpl.
          destruct (memo st) as [[id x]|]; [lia|exact I].
    - rewrite (run_fresh (c_targets r) st1 (posting_of r) S1). rewrite Ev.
      destruct (pure_run (c_targets r) v) as [vals tg]. simpl.
      f_equal. destruct tg.
      + apply IH. unfold good. simpl. lia.
      + apply (IH st1). unfold good, st1, next_row in *. simpl.
        destruct (memo st) as [[id x]|]; [lia|exact I].
  Qed.

  Corollary execute_correct rows :
    execute R posting_of T c_where c_targets rows = scan_spec [] rows.
  Proof. apply (scan_correct rows row_init good_init). Qed.

  (* conditions that do not consult balance: [sel] is the selection they compute *)
  Definition no_consult (sel : R -> bool) : Prop :=
    match c_where with
    | None => forall r, sel r = true
    | Some w => forall r v, pure_run (w r) v = (sel r, false)
    end.

  (* targets that reference balance at least once, whatever they get *)
  Definition always_touch : Prop := forall r v, snd (pure_run (c_targets r) v) = true.

  Lemma spec_selected sel rows : no_consult sel -> always_touch ->
    forall bal,
    scan_spec bal rows =
    map (fun rv => fst (pure_run (c_targets (fst rv)) (snd rv)))
        (combine (filter sel rows) (prefix_sums bal (map posting_of (filter sel rows)))).
  Proof.
    intros NC AT. unfold no_consult in NC.
    induction rows as [|r t IH]; intro bal; [reflexivity|]. simpl.
    destruct c_where as [w|].
    - rewrite NC. destruct (sel r); simpl.
      + specialize (AT r (add_position bal (posting_of r))).
        destruct (pure_run (c_targets r) (add_position bal (posting_of r))) as [vals tg]. simpl in *.
        subst tg. f_equal. apply IH.
      + apply IH.
    - rewrite NC. simpl.
      specialize (AT r (add_position bal (posting_of r))).
      destruct (pure_run (c_targets r) (add_position bal (posting_of r))) as [vals tg]. simpl in *.
      subst tg. f_equal. apply IH.
  Qed.

End ExecProofs.

(* a condition that consults balance on every row *)
Lemma spec_where_consults (R : Type) (posting_of : R -> position) (T : Type)
      (w : R -> prog bool) (c_targets : R -> prog T) rows :
  (forall r v, snd (pure_run (w r) v) = true) ->
  forall bal,
  scan_spec R posting_of T (Some w) c_targets bal rows =
  map (fun rv => fst (pure_run (c_targets (fst rv)) (snd rv)))
      (filter (fun rv => fst (pure_run (w (fst rv)) (snd rv)))
              (combine rows (prefix_sums bal (map posting_of rows)))).
Proof.
  intros AT. induction rows as [|r t IH]; intro bal; [reflexivity|]. simpl.
  specialize (AT r (add_position bal (posting_of r))).
  destruct (pure_run (w r) (add_position bal (posting_of r))) as [ok tw]. simpl in *. subst tw.
  destruct ok; simpl.
  - destruct (pure_run (c_targets r) (add_position bal (posting_of r))) as [vals tg]. simpl.
    f_equal. apply IH.
  - apply IH.
Qed.

(* ------------------------------------------------------------------ prefix sums *)
Lemma prefix_sums_length bal l : length (prefix_sums bal l) = length l.
Proof. revert bal. induction l; simpl; intro; [reflexivity|]. rewrite IHl. reflexivity. Qed.

Lemma prefix_sums_nth l : forall bal k, (k < length l)%nat ->
  nth_error (prefix_sums bal l) k = Some (fold_left add_position (firstn (S k) l) bal).
Proof.
  induction l as [|p t IH]; simpl; intros bal k H; [lia|].
  destruct k as [|k]; simpl; [destruct t; reflexivity|].
  rewrite IH by lia. reflexivity.
Qed.

Lemma last_cons_default {A} (l : list A) : forall x d, last (x :: l) d = last l x.
Proof.
  induction l as [|y l' IH]; intros x d; [reflexivity|].
  change (last (x :: y :: l') d) with (last (y :: l') d). rewrite (IH y d), (IH y x). reflexivity.
Qed.

Lemma prefix_sums_last l : forall bal, last (prefix_sums bal l) bal = fold_left add_position l bal.
Proof.
  induction l as [|p t IH]; intro bal; [reflexivity|].
  cbn [prefix_sums fold_left]. rewrite last_cons_default. apply IH.
Qed.

Lemma map_combine_repeat {A B} (l : list A) (l' : list B) n :
  length l = length l' ->
  map (fun rv : A * B => repeat (snd rv) n) (combine l l') = map (fun v => repeat v n) l'.
Proof.
  revert l'. induction l as [|a t IH]; destruct l' as [|b t']; simpl; intro H; try discriminate; [reflexivity|].
  f_equal. apply IH. lia.
Qed.

(* ------------------------------------------------------------------ the old shared cache *)
(* schedule: row A references balance, another scan's row B references it, row A again *)
Lemma shared_cache_refuted :
  exists (pa pb : position),
    let a := mkrow 1 [] None in
    let b := mkrow 1 [] None in
    let '(c1, a1, v1) := balance_col_shared None 1 a pa in
    let '(c2, b1, _) := balance_col_shared c1 2 b pb in
    let '(_, _, v2) := balance_col_shared c2 1 a1 pa in
    v1 <> v2.
Proof.
  exists (mkpos 1000 1 None), (mkpos 5 2 None). vm_compute. discriminate.
Qed.

(* ------------------------------------------------------------------ property-level statements *)
Lemma last_map {A B} (f : A -> B) (l : list A) d : last (map f l) (f d) = f (last l d).
Proof.
  induction l as [|a t IH]; [reflexivity|].
  destruct t as [|b t']; [reflexivity|]. exact IH.
Qed.

Lemma filter_combine_length {A} (l : list A) bal (g : A -> position) :
  length l = length (prefix_sums bal (map g l)).
Proof. rewrite prefix_sums_length, map_length. reflexivity. Qed.

(* k >= 1 references per row, conditions not consulting balance *)
Theorem balance_prefix_sum (R : Type) (posting_of : R -> position)
        (c_where : option (R -> prog bool)) (sel : R -> bool) (n : nat) (rows : list R) :
  no_consult R c_where sel -> (1 <= n)%nat ->
  execute R posting_of (list inventory) c_where (fun _ => refs n) rows
  = map (fun v => repeat v n) (prefix_sums [] (map posting_of (filter sel rows))).
Proof.
  intros NC Hn. rewrite execute_correct.
  rewrite (spec_selected R posting_of (list inventory) c_where (fun _ => refs n) sel rows NC).
  - rewrite <- (map_combine_repeat (filter sel rows)) by apply filter_combine_length.
    apply map_ext. intros [r v]. simpl. rewrite pure_run_refs. reflexivity.
  - intros r v. rewrite pure_run_refs. destruct n; [lia|reflexivity].
Qed.

Theorem balance_kth (R : Type) (posting_of : R -> position)
        (c_where : option (R -> prog bool)) (sel : R -> bool) (n : nat) (rows : list R) (k : nat) :
  no_consult R c_where sel -> (1 <= n)%nat -> (k < length (filter sel rows))%nat ->
  nth_error (execute R posting_of (list inventory) c_where (fun _ => refs n) rows) k
  = Some (repeat (sum_pos (firstn (S k) (map posting_of (filter sel rows)))) n).
Proof.
  intros NC Hn Hk. rewrite (balance_prefix_sum R posting_of c_where sel n rows NC Hn).
  rewrite nth_error_map, prefix_sums_nth by (rewrite map_length; exact Hk). reflexivity.
Qed.

Theorem last_balance_is_sum (R : Type) (posting_of : R -> position)
        (c_where : option (R -> prog bool)) (sel : R -> bool) (n : nat) (rows : list R) :
  no_consult R c_where sel -> (1 <= n)%nat ->
  last (execute R posting_of (list inventory) c_where (fun _ => refs n) rows) (repeat [] n)
  = repeat (sum_pos (map posting_of (filter sel rows))) n.
Proof.
  intros NC Hn. rewrite (balance_prefix_sum R posting_of c_where sel n rows NC Hn).
  rewrite (last_map (fun v => repeat v n)). rewrite prefix_sums_last. reflexivity.
Qed.

(* any target list that references balance at least once per row *)
Theorem balance_prefix_sum_targets (R T : Type) (posting_of : R -> position)
        (c_where : option (R -> prog bool)) (c_targets : R -> prog T) (sel : R -> bool) (rows : list R) :
  no_consult R c_where sel -> always_touch R T c_targets ->
  execute R posting_of T c_where c_targets rows
  = map (fun rv => fst (pure_run (c_targets (fst rv)) (snd rv)))
        (combine (filter sel rows) (prefix_sums [] (map posting_of (filter sel rows)))).
Proof.
  intros NC AT. rewrite execute_correct. apply spec_selected; assumption.
Qed.

(* a condition consulting balance on every scanned row *)
Theorem balance_in_where (R T : Type) (posting_of : R -> position)
        (w : R -> prog bool) (c_targets : R -> prog T) (rows : list R) :
  (forall r v, snd (pure_run (w r) v) = true) ->
  execute R posting_of T (Some w) c_targets rows
  = map (fun rv => fst (pure_run (c_targets (fst rv)) (snd rv)))
        (filter (fun rv => fst (pure_run (w (fst rv)) (snd rv)))
                (combine rows (prefix_sums [] (map posting_of rows)))).
Proof.
  intros AT. rewrite execute_correct. apply spec_where_consults. exact AT.
Qed.

(* the concrete expressions of the correspondence satisfy the hypotheses *)
Lemma weval_mask_no_consult :
  no_consult prow (Some (fun r : prow => weval WMask (fst (snd r)))) (fun r => fst (snd r)).
Proof. intros r v. reflexivity. Qed.

Lemma teval_touch flag l v :
  existsb (fun t => match t with TBalance | TUnitsBal | TCostBal _ => true | _ => false end) l = true ->
  snd (pure_run (teval flag l) v) = true.
Proof.
  induction l as [|t l IH]; simpl; [discriminate|].
  destruct t; simpl; try reflexivity; intro H.
  - apply IH. exact H.
  - destruct flag; simpl; [reflexivity|]. rewrite pure_run_bind. simpl. rewrite (IH H). reflexivity.
  - destruct flag; simpl; [reflexivity|]. apply IH. exact H.
Qed.

(* inventory addition is commutative and associative on well-formed inventories (as maps) *)
Lemma add_inventory_comm a b : wf a -> wf b -> inv_eqv (add_inventory a b) (add_inventory b a).
Proof.
  intros Ha Hb k. rewrite !lookup_add_inventory by (apply Ha || apply Hb). lia.
Qed.

Lemma add_inventory_assoc a b c : wf a -> wf b -> wf c ->
  inv_eqv (add_inventory (add_inventory a b) c) (add_inventory a (add_inventory b c)).
Proof.
  intros Ha Hb Hc k.
  pose proof (wf_add_inventory b c Hb Hc) as Hbc.
  rewrite !lookup_add_inventory by (apply Hb || apply Hc || apply Hbc). lia.
Qed.

Lemma add_inventory_nil_r a : add_inventory a [] = a.
Proof. destruct a; reflexivity. Qed.

(* f(sum of inventories) = sum of f(inventory): units(sum(inv)) = sum(units(inv)) etc. *)
Lemma esum_fold_add_entry g l acc :
  additive g -> wf acc -> esum g (fold_left add_entry l acc) = esum g acc + esum g l.
Proof.
  intros Hg. revert acc. unfold esum at 3. induction l as [|[k0 m0] t IH]; simpl; intros acc Ha; [lia|].
  rewrite IH by (apply wf_add_position; exact Ha).
  unfold add_entry, add_position. rewrite esum_add_amount by (try assumption; apply Ha).
  unfold punits, epos. simpl. destruct k0. simpl. lia.
Qed.

Lemma esum_add_inventory g a b :
  additive g -> wf a -> esum g (add_inventory a b) = esum g a + esum g b.
Proof.
  intros Hg Ha. destruct a as [|e t]; [reflexivity|].
  unfold add_inventory. apply esum_fold_add_entry; assumption.
Qed.

Lemma esum_sum_inv g l : additive g -> Forall wf l -> esum g (sum_inv l) = zsum (esum g) l.
Proof.
  intros Hg H. unfold sum_inv.
  assert (G : forall acc, wf acc -> esum g (fold_left add_inventory l acc) = esum g acc + zsum (esum g) l).
  { induction H as [|i t Hi Ht IH]; simpl; intros acc Ha; [lia|].
    rewrite IH by (apply wf_add_inventory; assumption). rewrite esum_add_inventory by assumption. lia. }
  rewrite G by apply wf_nil. reflexivity.
Qed.

Theorem reduce_commutes_inventories f l :
  lot_linear f -> Forall wf l -> inv_eqv (reduce f (sum_inv l)) (sum_inv (map (reduce f) l)).
Proof.
  intros [Hc Hn] H k. rewrite lookup_reduce.
  rewrite lookup_sum_inv.
  2:{ apply Forall_forall. intros i Hi. apply in_map_iff in Hi. destruct Hi as [x [<- _]]. apply wf_reduce. }
  rewrite zsum_map. rewrite esum_sum_inv; [|intros [cur c] n m; simpl;
    rewrite (Hc cur c (n + m) 0), (Hc cur c n 0), (Hc cur c m 0), Hn; apply delta_add|exact H].
  apply zsum_ext. intros i _. rewrite lookup_reduce. reflexivity.
Qed.
