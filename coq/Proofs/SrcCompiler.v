(* Tie by translation, C05 (group `compiler`): the PyMini terms generated on every run from the CURRENT source of
   beanquery/compiler.py (Gen/SrcCompiler.v) compute what Model/Compile.v says:
     Compiler._compile_order_by  = Compile.compile_order_by   (order_by_src)
     Compiler._compile_pivot_by  = Compile.compile_pivot_by   (pivot_by_src)
     is_aggregate / get_columns_and_aggregates / _get_columns_and_aggregates / check_aggregates
                                 = Compile.has_agg / cols_aggs / check_aggregates, the recursive call being an opaque
                                   callable assumed to return the model's value on the children.
   Compiled nodes are references into a heap [tbl] (Model/PrimsCompiler.v); `self._compile`, `is_aggregate`,
   `check_aggregates` are opaque callables about which the theorems state hypotheses (what they return on a node is the
   model's value; an error value is a raised exception). *)
From Coq Require Import String Ascii ZArith List Bool Lia.
Import ListNotations.
From Verif Require Import Base.PyValue Model.Eval Model.PyMini Model.PrimsApi Model.PrimsCompiler Proofs.PyMiniLemmas
  Proofs.PyMiniLemmas2 Proofs.SrcApi Proofs.PyValueProofs Proofs.SrcLookup.
From Verif Require Model.Compile.
From Verif Require Import Gen.SrcCompiler.
Open Scope string_scope.
Open Scope list_scope.
Open Scope Z_scope.

Notation ctarget := Compile.ctarget.
Notation cerr := Compile.cerr.

(* ---------------------------------------------------------------- keys of ORDER BY / GROUP BY / PIVOT BY *)
Inductive akey := AInt (z : Z) | ACol (name : string) | AExpr (a : pv).
Definition enc_key (k : akey) : pv := match k with AInt z => PInt z | ACol n => enc_column n | AExpr a => a end.
(* any other expression node: a tagged record of a class other than ast.Column *)
Definition expr_like (a : pv) : Prop :=
  exists tag flds, a = record tag flds /\ zeqb tag (zs COLUMN) = false /\ zeqb tag (zs "builtins.int") = false
                   /\ zeqb tag (zs "builtins.bool") = false.
Definition key_ok (k : akey) : Prop := match k with AExpr a => expr_like a | _ => True end.

Definition enc_dir (d : bool) : pv := PInt (if d then 1 else 0).      (* ast.Ordering: ASC = 0, DESC = 1 *)
Definition enc_oitem (kd : akey * bool) : pv :=
  record (zs ORDERBY) [("column", enc_key (fst kd)); ("ordering", enc_dir (snd kd))].
Definition enc_sitem (p : nat * bool) : pv := PTuple [PInt (Z.of_nat (fst p)); enc_dir (snd p)].

Definition tid (t : ptarget) : nat := fst (fst t).

(* ---------------------------------------------------------------- small facts *)
Lemma assoc_app k l1 l2 :
  assoc k (l1 ++ l2) = match assoc k l1 with Some v => Some v | None => assoc k l2 end.
Proof.
  induction l1 as [|x t IH]; [reflexivity|]. cbn [app assoc].
  destruct x as [| |[|a [|b [|c r]]]| |]; try exact IH. destruct (key_eqb k a); [reflexivity|exact IH].
Qed.

Lemma slice_from {A} (l : list A) n : slice_list l (Some (Z.of_nat n)) None = skipn n l.
Proof.
  unfold slice_list, clipz.
  destruct (Z.ltb_spec (Z.of_nat n) 0); [lia|].
  destruct (Z.min_spec (Z.of_nat n) (Z.of_nat (length l))) as [[H1 ->]|[H1 ->]].
  - rewrite Nat2Z.id. rewrite firstn_all2; [reflexivity|]. rewrite skipn_length. lia.
  - rewrite Nat2Z.id, Z.sub_diag. cbn [Z.to_nat firstn]. rewrite (skipn_all2 (n:=n)) by lia. reflexivity.
Qed.

Lemma slice_all {A} (l : list A) : slice_list l None None = l.
Proof.
  unfold slice_list. rewrite Z.sub_0_r, Nat2Z.id. cbn [Z.to_nat skipn]. apply firstn_all.
Qed.

Section Tie.
Variable call_ref : nat -> list pv -> pv.
Variable tbl : nat -> Compile.cnode.
Variable kids : nat -> list nat.
Variable mro : string -> list string.
Variable msg : string -> list pv -> pv.
Notation prim := (prim_compiler tbl kids mro msg).
Notation eval := (PyMini.eval call_ref prim).
Notation exec := (PyMini.exec call_ref prim).
Notation exec_block := (PyMini.exec_block call_ref prim).
Notation for_loop := (for_loop call_ref prim).
Notation comp_go := (comp_go call_ref prim).

Definition T (t : ptarget) : ctarget := match t with (i, n, a) => Compile.mk_target (tbl i) n a end.

Lemma exec_try s body kinds handler :
  exec s (STry body kinds handler) =
  match exec_block s body with
  | Exc k => if match kinds with [] => true | _ => existsb (Z.eqb k) kinds end then exec_block s handler else Exc k
  | r => r
  end.
Proof.
  change (exec s (STry body kinds handler)) with
    (match block_in call_ref prim s body with
     | Exc k => if match kinds with [] => true | _ => existsb (Z.eqb k) kinds end
                then block_in call_ref prim s handler else Exc k
     | r => r
     end).
  rewrite !block_in_eq. reflexivity.
Qed.

Lemma eval_compare_one a op b s s1 s2 av bv r :
  eval s a = Ok (s1, av) -> eval s1 b = Ok (s2, bv) -> compare1 op av bv = Ok r ->
  eval s (XCompare a [(op, b)]) = Ok (s2, PBool r).
Proof.
  intros H1 H2 H3. cbn [PyMini.eval]. rewrite H1. cbn [bind]. rewrite H2. cbn [bind]. rewrite H3. cbn [bind].
  destruct r; reflexivity.
Qed.

Lemma eval_tuple2 a b s s1 s2 v w :
  eval s a = Ok (s1, v) -> eval s1 b = Ok (s2, w) -> eval s (XTuple [a; b]) = Ok (s2, PTuple [v; w]).
Proof. intros H1 H2. cbn [PyMini.eval]. rewrite H1. cbn [bind]. rewrite H2. reflexivity. Qed.

Lemma eval_const s v : eval s (XConst v) = Ok (s, v).
Proof. reflexivity. Qed.

Lemma eval_not a s s1 v b : eval s a = Ok (s1, v) -> pv_truthy v = Ok b -> eval s (XNot a) = Ok (s1, PBool (negb b)).
Proof. intros H1 H2. cbn [PyMini.eval]. rewrite H1. cbn [bind]. rewrite H2. reflexivity. Qed.

Lemma eval_call_ref k a s s1 v :
  eval s a = Ok (s1, v) ->
  eval s (XCall (XConst (PRef k)) [a] None) = bind (do_call call_ref (PRef k) [v]) (fun r => Ok (s1, r)).
Proof. intros H. cbn [PyMini.eval bind]. rewrite H. reflexivity. Qed.

Ltac lk := repeat first [rewrite lookup_update_eq | rewrite lookup_update_neq by reflexivity].
Ltac step := cbn [PyMini.exec_block PyMini.exec PyMini.eval bind read write locals fields]; lk.

(* ---------------------------------------------------------------- primitives on the encodings *)
Lemma prim_node_dtype' i : prim ("attr:" ++ "dtype") [nref i] = Ok (PStr (Compile.dtype (tbl i))).
Proof. apply prim_node_dtype. Qed.

Lemma target_c_expr t : prim ("attr:" ++ "c_expr") [enc_target t] = Ok (nref (tid t)).
Proof. destruct t as [[i n] a]. reflexivity. Qed.
Lemma target_name t : prim ("attr:" ++ "name") [enc_target t] = Ok (popt PStr (snd (fst t))).
Proof. destruct t as [[i n] a]. reflexivity. Qed.
Lemma target_agg t : prim ("attr:" ++ "is_aggregate") [enc_target t] = Ok (PBool (snd t)).
Proof. destruct t as [[i n] a]. reflexivity. Qed.
Lemma prim_ET e n a :
  prim "beanquery.query_compile.EvalTarget" [e; n; a] = Ok (record (zs ET) [("c_expr", e); ("name", n); ("is_aggregate", a)]).
Proof. reflexivity. Qed.
Lemma oitem_column kd : prim ("attr:" ++ "column") [enc_oitem kd] = Ok (enc_key (fst kd)).
Proof. reflexivity. Qed.
Lemma oitem_ordering kd : prim ("attr:" ++ "ordering") [enc_oitem kd] = Ok (enc_dir (snd kd)).
Proof. reflexivity. Qed.
Lemma oitem_not_self kd : enc_oitem kd <> PSelf.
Proof. discriminate. Qed.
Lemma prim_fstring args : prim "fstring" args = Ok (msg "fstring" args).
Proof. reflexivity. Qed.
Lemma prim_raise cls lead m : prim "raise" [PV (VStr cls); PV (VStr lead); m] = Exc (exc_code cls lead).
Proof. reflexivity. Qed.
Lemma enc_target_not_self t : enc_target t <> PSelf.
Proof. destruct t as [[i n] a]. discriminate. Qed.

Lemma isinstance_int_key k : key_ok k ->
  prim "isinstance:builtins.int" [enc_key k] = Ok (PBool (match k with AInt _ => true | _ => false end)).
Proof.
  destruct k as [z|n|a]; intros Hk; try reflexivity.
  destruct Hk as (tag & flds & -> & H1 & H2 & H3). cbn. unfold isinstance, is_a. cbn.
  change (zeqb tag _) with (zeqb tag (zs "builtins.int")) at 1. rewrite H2.
  cbn. change (zeqb tag _) with (zeqb tag (zs "builtins.bool")). rewrite H3. reflexivity.
Qed.

Lemma isinstance_column_key k : key_ok k ->
  prim "isinstance:beanquery.parser.ast.Column" [enc_key k] =
  Ok (PBool (match k with ACol _ => true | _ => false end)).
Proof.
  destruct k as [z|n|a]; intros Hk; try reflexivity.
  destruct Hk as (tag & flds & -> & H1 & H2 & H3). cbn. unfold isinstance, is_a. cbn.
  change (zeqb tag _) with (zeqb tag (zs COLUMN)). rewrite H1. reflexivity.
Qed.

(* l.index(x) on node references is Compile.index_of on the nodes *)
Lemma node_index_spec x : forall (ids : list nat) (n : nat),
  node_index tbl x (map nref ids) (Z.of_nat n) =
  match Compile.index_of (tbl x) (map tbl ids) n with
  | Some k => Ok (PInt (Z.of_nat k))
  | None => Exc ValueError
  end.
Proof.
  induction ids as [|i t IH]; intros n; [reflexivity|].
  cbn [map node_index Compile.index_of]. rewrite as_nref_nref.
  destruct (Compile.node_eqb (tbl i) (tbl x)); [reflexivity|].
  replace (Z.of_nat n + 1) with (Z.of_nat (S n)) by lia. apply IH.
Qed.

(* ---------------------------------------------------------------- the name map and the count of visible targets *)
Fixpoint name_items (i : nat) (pts : list ptarget) : list pv :=
  match pts with
  | [] => []
  | (_, Some n, _) :: t => PTuple [PStr n; PInt (Z.of_nat i)] :: name_items (S i) t
  | (_, None, _) :: t => name_items (S i) t
  end.
(* the dict comprehension without a condition (GROUP BY, PIVOT BY): a hidden target is the key None *)
Fixpoint name_items_all (i : nat) (pts : list ptarget) : list pv :=
  match pts with
  | [] => []
  | (_, n, _) :: t => PTuple [popt PStr n; PInt (Z.of_nat i)] :: name_items_all (S i) t
  end.

Fixpoint names_from (i : nat) (ts : list ctarget) : list (string * nat) :=
  match ts with
  | [] => []
  | t :: r => match Compile.ct_name t with Some n => (n, i) :: names_from (S i) r | None => names_from (S i) r end
  end.

Lemma names_of_from ts : Compile.names_of ts = names_from 0 ts.
Proof.
  unfold Compile.names_of. generalize 0%nat. induction ts as [|t r IH]; intros i; [reflexivity|].
  cbn [length seq combine flat_map names_from]. rewrite IH. destruct (Compile.ct_name t); reflexivity.
Qed.

Lemma assoc_last_app {A} k (l1 l2 : list (string * A)) :
  Compile.assoc_last k (l1 ++ l2) =
  match Compile.assoc_last k l2 with Some v => Some v | None => Compile.assoc_last k l1 end.
Proof.
  induction l1 as [|[k' v] t IH]; cbn [app Compile.assoc_last]; [destruct (Compile.assoc_last k l2); reflexivity|].
  rewrite IH. destruct (Compile.assoc_last k l2); [reflexivity|]. reflexivity.
Qed.

Definition enc_oidx (o : option nat) : pv := popt (fun j => PInt (Z.of_nat j)) o.

Lemma name_items_lookup n : forall pts i,
  assoc (PStr n) (rev (name_items i pts)) = option_map (fun j => PInt (Z.of_nat j)) (Compile.assoc_last n (names_from i (map T pts))).
Proof.
  induction pts as [|[[x [m|]] a] t IH]; intros i; [reflexivity| |].
  - cbn [name_items rev map T names_from Compile.ct_name Compile.assoc_last]. rewrite assoc_app, IH.
    destruct (Compile.assoc_last n (names_from (S i) (map T t))); [reflexivity|].
    cbn [option_map assoc]. rewrite key_eqb_PStr. destruct (String.eqb n m); reflexivity.
  - cbn [name_items map T names_from Compile.ct_name]. apply IH.
Qed.

Lemma name_items_all_lookup n : forall pts i,
  assoc (PStr n) (rev (name_items_all i pts)) = option_map (fun j => PInt (Z.of_nat j)) (Compile.assoc_last n (names_from i (map T pts))).
Proof.
  induction pts as [|[[x [m|]] a] t IH]; intros i; [reflexivity| |].
  - cbn [name_items_all rev map T names_from Compile.ct_name Compile.assoc_last popt]. rewrite assoc_app, IH.
    destruct (Compile.assoc_last n (names_from (S i) (map T t))); [reflexivity|].
    cbn [option_map assoc]. rewrite key_eqb_PStr. destruct (String.eqb n m); reflexivity.
  - cbn [name_items_all rev map T names_from Compile.ct_name popt]. rewrite assoc_app, IH.
    destruct (Compile.assoc_last n (names_from (S i) (map T t))); reflexivity.
Qed.

Definition is_named (t : ptarget) : bool := match snd (fst t) with Some _ => true | None => false end.

Lemma visible_length pts : length (Compile.visible (map T pts)) = length (filter is_named pts).
Proof.
  unfold Compile.visible. induction pts as [|[[x [m|]] a] t IH]; cbn; [reflexivity| |]; rewrite ?IH; reflexivity.
Qed.

Lemma sum_ones {A} (l : list A) : sum_ints (map (fun _ => PInt 1) l) = Some (Z.of_nat (length l)).
Proof. induction l as [|x t IH]; [reflexivity|]. cbn [map sum_ints PInt length]. rewrite IH. f_equal. lia. Qed.

(* the three comprehensions over the targets *)
Lemma comp_exprs s1 : forall pts,
  comp_go s1 (XAttr (XName "c_target") "c_expr") "c_target" None (map enc_target pts) = Ok (map (fun t => nref (tid t)) pts).
Proof.
  induction pts as [|t r IH]; [reflexivity|]. cbn [map SrcApi.comp_go bind].
  erewrite eval_attr; [|apply eval_name; cbn [write locals]; apply lookup_update_eq|apply enc_target_not_self].
  rewrite target_c_expr. cbn [bind snd]. rewrite IH. reflexivity.
Qed.

Lemma comp_count s1 : forall pts,
  comp_go s1 (XConst (PInt 1)) "target" (Some (XCompare (XAttr (XName "target") "name") [(CIsNot, XConst PNone)]))
    (map enc_target pts) = Ok (map (fun _ => PInt 1) (filter is_named pts)).
Proof.
  induction pts as [|t r IH]; [reflexivity|]. cbn [map SrcApi.comp_go bind].
  assert (E : eval (write s1 (TName "target") (enc_target t))
                (XCompare (XAttr (XName "target") "name") [(CIsNot, XConst PNone)]) =
              Ok (write s1 (TName "target") (enc_target t), PBool (is_named t))).
  { eapply eval_compare_one; [erewrite eval_attr; [|apply eval_name; cbn [write locals]; apply lookup_update_eq|apply enc_target_not_self];
                                rewrite target_name; reflexivity|apply eval_const|].
    destruct t as [[x [m|]] a]; reflexivity. }
  rewrite E. cbn [bind snd pv_truthy PBool truthy].
  destruct (is_named t) eqn:En; cbn [filter]; rewrite En.
  - cbn [PyMini.eval bind snd map]. rewrite IH. reflexivity.
  - exact IH.
Qed.

Definition name_elt : expr :=
  XTuple [XAttr (XIndex (XName "$t") (XConst (PInt 1))) "name"; XIndex (XName "$t") (XConst (PInt 0))].
Definition name_cond : expr := XCompare (XAttr (XIndex (XName "$t") (XConst (PInt 1))) "name") [(CIsNot, XConst PNone)].

Lemma eval_t_item s1 (i : nat) t k :
  eval (write s1 (TName "$t") (PTuple [PInt (Z.of_nat i); enc_target t])) (XIndex (XName "$t") (XConst (PInt k))) =
  match k with
  | 0 => Ok (write s1 (TName "$t") (PTuple [PInt (Z.of_nat i); enc_target t]), PInt (Z.of_nat i))
  | 1 => Ok (write s1 (TName "$t") (PTuple [PInt (Z.of_nat i); enc_target t]), enc_target t)
  | _ => eval (write s1 (TName "$t") (PTuple [PInt (Z.of_nat i); enc_target t])) (XIndex (XName "$t") (XConst (PInt k)))
  end.
Proof.
  destruct k as [|[| |]|]; try reflexivity; cbn [PyMini.eval write locals fields read bind]; rewrite lookup_update_eq; reflexivity.
Qed.

Lemma comp_names s1 : forall pts i,
  comp_go s1 name_elt "$t" (Some name_cond) (enum_from (Z.of_nat i) (map enc_target pts)) = Ok (name_items i pts).
Proof.
  induction pts as [|t r IH]; intros i; [reflexivity|]. cbn [map enum_from SrcApi.comp_go bind].
  set (sx := write s1 (TName "$t") (PTuple [PInt (Z.of_nat i); enc_target t])).
  assert (E1 : eval sx (XAttr (XIndex (XName "$t") (XConst (PInt 1))) "name") = Ok (sx, popt PStr (snd (fst t)))).
  { erewrite eval_attr; [|apply (eval_t_item s1 i t 1)|apply enc_target_not_self]. rewrite target_name. reflexivity. }
  assert (Ec : eval sx name_cond = Ok (sx, PBool (is_named t))).
  { unfold name_cond. eapply eval_compare_one; [exact E1|apply eval_const|]. destruct t as [[x [m|]] a]; reflexivity. }
  rewrite Ec. cbn [bind snd pv_truthy PBool truthy].
  replace (Z.of_nat i + 1) with (Z.of_nat (S i)) by lia.
  destruct t as [[x [m|]] a]; cbn [is_named fst snd name_items].
  - unfold name_elt at 1. rewrite (eval_tuple2 _ _ _ _ _ _ _ E1 (eval_t_item s1 i (x, Some m, a) 0)).
    cbn [bind snd popt fst]. rewrite IH. reflexivity.
  - apply IH.
Qed.

Lemma comp_names_all s1 : forall pts i,
  comp_go s1 name_elt "$t" None (enum_from (Z.of_nat i) (map enc_target pts)) = Ok (name_items_all i pts).
Proof.
  induction pts as [|t r IH]; intros i; [reflexivity|]. cbn [map enum_from SrcApi.comp_go bind].
  set (sx := write s1 (TName "$t") (PTuple [PInt (Z.of_nat i); enc_target t])).
  assert (E1 : eval sx (XAttr (XIndex (XName "$t") (XConst (PInt 1))) "name") = Ok (sx, popt PStr (snd (fst t)))).
  { erewrite eval_attr; [|apply (eval_t_item s1 i t 1)|apply enc_target_not_self]. rewrite target_name. reflexivity. }
  replace (Z.of_nat i + 1) with (Z.of_nat (S i)) by lia.
  unfold name_elt at 1. rewrite (eval_tuple2 _ _ _ _ _ _ _ E1 (eval_t_item s1 i t 0)).
  cbn [bind snd]. rewrite IH.
  destruct t as [[x m] a]. reflexivity.
Qed.

(* ================================================================ Compiler._compile_order_by *)
Variable compf : pv -> Compile.result nat cerr.       (* what self._compile returns: a node of the heap, or an error *)
Definition enc_rid (r : Compile.result nat cerr) : pv :=
  match r with Compile.Ok i => nref i | Compile.Err e => PV (VErr (CompErr e)) end.
Definition rnode_of (r : Compile.result nat cerr) : Compile.rnode :=
  match r with Compile.Ok i => Compile.Ok (tbl i) | Compile.Err e => Compile.Err e end.
Definition kref_of (k : akey) : Compile.kref :=
  match k with
  | AInt z => inl z
  | ACol n => inr (Some n, rnode_of (compf (enc_column n)))
  | AExpr a => inr (None, rnode_of (compf a))
  end.

Variable kc : nat.
Hypothesis Hcomp : forall a, call_ref kc [a] = enc_rid (compf a).
Hypothesis Hchk : forall i, call_ref 0 [nref i] =
  match Compile.check_aggregates (tbl i) with Some e => PV (VErr (CompErr e)) | None => PNone end.
Hypothesis Hagg : forall i, call_ref 1 [nref i] = PBool (Compile.has_agg (tbl i)).

(* the same resolution on targets given by heap references *)
Definition p_new (chk : Compile.cnode -> option cerr) (agg : Compile.cnode -> bool) (pts : list ptarget) (a : pv)
  : Compile.result (list ptarget * nat) cerr :=
  match compf a with
  | Compile.Err e => Compile.Err e
  | Compile.Ok i =>
      match chk (tbl i) with
      | Some er => Compile.Err er
      | None => match Compile.index_of (tbl i) (map tbl (map tid pts)) 0 with
                | Some j => Compile.Ok (pts, j)
                | None => Compile.Ok (pts ++ [(i, None, agg (tbl i))], length pts)
                end
      end
  end.

Definition p_resolve (err_index : cerr) (chk : Compile.cnode -> option cerr) (agg : Compile.cnode -> bool)
           (bound : nat) (nm : list (string * nat)) (k : akey) (pts : list ptarget)
  : Compile.result (list ptarget * nat) cerr :=
  match k with
  | AInt z => match Compile.nat_index z bound with Some i => Compile.Ok (pts, i) | None => Compile.Err err_index end
  | ACol n => match Compile.assoc_last n nm with
              | Some i => Compile.Ok (pts, i)
              | None => p_new chk agg pts (enc_column n)
              end
  | AExpr a => p_new chk agg pts a
  end.

Definition lift_T (r : Compile.result (list ptarget * nat) cerr) : Compile.result (list ctarget * nat) cerr :=
  match r with Compile.Ok (p, i) => Compile.Ok (map T p, i) | Compile.Err e => Compile.Err e end.

Lemma map_T_expr pts : map Compile.ct_expr (map T pts) = map tbl (map tid pts).
Proof. rewrite !map_map. apply map_ext. intros [[i n] a]. reflexivity. Qed.

Lemma p_resolve_T err_index chk agg bound nm k pts :
  Compile.resolve_key err_index bound nm chk agg (kref_of k) (map T pts) = lift_T (p_resolve err_index chk agg bound nm k pts).
Proof.
  assert (Hnew : forall a,
            Compile.bind (rnode_of (compf a)) (fun n =>
              match chk n with
              | Some er => Compile.Err er
              | None => match Compile.index_of n (map Compile.ct_expr (map T pts)) 0 with
                        | Some i => Compile.Ok (map T pts, i)
                        | None => Compile.Ok (map T pts ++ [Compile.mk_target n None (agg n)], length (map T pts))
                        end
              end) = lift_T (p_new chk agg pts a)).
  { intros a. unfold p_new. destruct (compf a) as [i|e]; [|reflexivity]. cbn [rnode_of Compile.bind].
    destruct (chk (tbl i)); [reflexivity|]. rewrite map_T_expr.
    destruct (Compile.index_of (tbl i) (map tbl (map tid pts)) 0); cbn [lift_T]; [reflexivity|].
    rewrite map_app, map_length. reflexivity. }
  destruct k as [z|n|a]; cbn [kref_of Compile.resolve_key p_resolve].
  - destruct (Compile.nat_index z bound); reflexivity.
  - destruct (Compile.assoc_last n nm); [reflexivity|]. apply Hnew.
  - apply Hnew.
Qed.

Definition order_body : list stmt :=
  Eval cbv in match nth 6 (f_body compile_order_by) SPass with SFor _ _ b => b | _ => [] end.

Section OrderLoop.
Variable pts0 : list ptarget.
Let NM : pv := PTuple [PStr dict_tag; PList (name_items 0 pts0)].
Let nm : list (string * nat) := names_from 0 (map T pts0).
Let bound : nat := length (filter is_named pts0).

Definition oinv (loc : env) (pts : list ptarget) (spec : list (nat * bool)) : Prop :=
  lookup "self" loc = Some PSelf
  /\ lookup "new_targets" loc = Some (PList (map enc_target pts))
  /\ lookup "c_target_expressions" loc = Some (PList (map (fun t => nref (tid t)) pts))
  /\ lookup "order_spec" loc = Some (PList (map enc_sitem spec))
  /\ lookup "targets_name_map" loc = Some NM
  /\ lookup "n_targets" loc = Some (PInt (Z.of_nat bound)).

Definition p_order_resolve := p_resolve Compile.EOrderIndex Compile.check_aggregates Compile.has_agg bound nm.

Definition ob_cond : expr := Eval cbv in match nth 3 order_body SPass with SIf c _ _ => c | _ => XConst PNone end.
Definition ob_int : list stmt := Eval cbv in match nth 3 order_body SPass with SIf _ a _ => a | _ => [] end.
Definition ob_else : list stmt := Eval cbv in match nth 3 order_body SPass with SIf _ _ b => b | _ => [] end.
Definition ob_tail : list stmt := Eval cbv in skipn 4 order_body.
Definition ob_col : stmt := Eval cbv in nth 0 ob_else SPass.
Definition ob_compile : stmt := Eval cbv in nth 1 ob_else SPass.

Ltac run := repeat (progress (cbn [PyMini.exec_block PyMini.exec PyMini.eval bind read write locals fields pv_truthy truthy
                                   PBool PNone PInt compare1 pv_is_none negb andb orb is_null rank Pos.eqb Z.eqb
                                   method_call String.eqb Ascii.eqb Bool.eqb binop1 binop_builtin fst snd existsb ValueError]; lk)).

(* the statements after the resolution: assert index is not None; order_spec.append((index, descending)) *)
Lemma ob_tail_ok : forall loc flds (j : nat) d spec,
  lookup "index" loc = Some (PInt (Z.of_nat j)) -> lookup "descending" loc = Some (enc_dir d) ->
  lookup "order_spec" loc = Some (PList (map enc_sitem spec)) ->
  exec_block {| locals := loc; fields := flds |} ob_tail =
  Ok (Next {| locals := update "order_spec" (PList (map enc_sitem (spec ++ [(j, d)]))) loc; fields := flds |}).
Proof.
  intros loc flds j d spec Hi Hd Hs. unfold ob_tail.
  run. rewrite Hi. run. rewrite Hi. run. rewrite Hd. run. rewrite Hs. run.
  rewrite map_app. reflexivity.
Qed.

(* the compiled-expression branch: index is None *)
Lemma ob_compile_ok : forall (a : pv) loc flds pts spec,
  lookup "_compile" flds = Some (PRef kc) ->
  oinv loc pts spec -> lookup "column" loc = Some a -> lookup "index" loc = Some PNone ->
  match p_new Compile.check_aggregates Compile.has_agg pts a with
  | Compile.Err e => exec {| locals := loc; fields := flds |} ob_compile = Exc (CompErr e)
  | Compile.Ok (pts', j) =>
      exists loc', exec {| locals := loc; fields := flds |} ob_compile = Ok (Next {| locals := loc'; fields := flds |})
                   /\ oinv loc' pts' spec /\ lookup "index" loc' = Some (PInt (Z.of_nat j))
                   /\ lookup "descending" loc' = lookup "descending" loc
  end.
Proof.
  intros a loc flds pts spec Hfld (Hself & Hnew & Hexp & Hspec & Hnm & Hn) Hcol Hidx.
  unfold p_new, ob_compile.
  run. rewrite Hidx. run. rewrite Hself. run. rewrite Hfld. run. rewrite Hcol. run.
  unfold do_call. rewrite Hcomp.
  destruct (compf a) as [i|e]; cbn [enc_rid]; [|reflexivity].
  cbn [nref]. run. fold (nref i). rewrite Hchk.
  destruct (Compile.check_aggregates (tbl i)) as [er|]; [reflexivity|].
  run. rewrite Hexp. run.
  change (prim ("call:" ++ "index") [PList (map (fun t => nref (tid t)) pts); nref i])
    with (match as_nref (nref i) with Some x => node_index tbl x (map (fun t => nref (tid t)) pts) 0 | None => Stuck end).
  rewrite as_nref_nref. rewrite <- (map_map tid nref). change 0 with (Z.of_nat 0) at 1. rewrite (node_index_spec i (map tid pts) 0).
  destruct (Compile.index_of (tbl i) (map tbl (map tid pts)) 0) as [j|].
  - eexists. split; [run; reflexivity|]. unfold oinv. repeat split; lk; try assumption; reflexivity.
  - eexists. split; [run; rewrite Hnew; run; rewrite Hagg; run; rewrite prim_ET; run; rewrite Hnew; run;
                     rewrite Hexp; run; reflexivity|].
    unfold oinv. repeat split; lk; try assumption; try reflexivity.
    + rewrite map_app. reflexivity.
    + rewrite map_app. reflexivity.
    + rewrite map_length. reflexivity.
Qed.

Lemma ob_compile_skip : forall loc flds (j : nat),
  lookup "index" loc = Some (PInt (Z.of_nat j)) ->
  exec {| locals := loc; fields := flds |} ob_compile = Ok (Next {| locals := loc; fields := flds |}).
Proof. intros loc flds j Hi. unfold ob_compile. run. rewrite Hi. run. reflexivity. Qed.

Lemma column_name n : prim ("attr:" ++ "name") [enc_column n] = Ok (PStr n).
Proof. reflexivity. Qed.

Lemma name_map_get n dflt :
  prim ("call:" ++ "get") [NM; PStr n; dflt] =
  Ok (match Compile.assoc_last n nm with Some j => PInt (Z.of_nat j) | None => dflt end).
Proof.
  change (prim ("call:" ++ "get") [NM; PStr n; dflt]) with (dict_get NM (PStr n) dflt).
  unfold dict_get, NM, PStr at 1. rewrite zeqb_refl. rewrite name_items_lookup. fold nm.
  destruct (Compile.assoc_last n nm); reflexivity.
Qed.

Lemma ob_finish : forall loc flds pts spec (j : nat) d,
  oinv loc pts spec -> lookup "index" loc = Some (PInt (Z.of_nat j)) -> lookup "descending" loc = Some (enc_dir d) ->
  exists loc', exec_block {| locals := loc; fields := flds |} ob_tail = Ok (Next {| locals := loc'; fields := flds |})
               /\ oinv loc' pts (spec ++ [(j, d)]).
Proof.
  intros loc flds pts spec j d (Hself & Hnew & Hexp & Hspec & Hnm & Hn) Hi Hd.
  eexists. split; [apply (ob_tail_ok _ flds j d spec); assumption|].
  unfold oinv. repeat split; lk; try assumption; reflexivity.
Qed.

Lemma order_step : forall (k : akey) (d : bool) loc flds pts spec,
  lookup "_compile" flds = Some (PRef kc) ->
  oinv loc pts spec -> key_ok k ->
  match p_order_resolve k pts with
  | Compile.Err e =>
      exec_block (write {| locals := loc; fields := flds |} (TName "spec") (enc_oitem (k, d))) order_body = Exc (CompErr e)
  | Compile.Ok (pts', j) =>
      exists loc', exec_block (write {| locals := loc; fields := flds |} (TName "spec") (enc_oitem (k, d))) order_body =
                   Ok (Next {| locals := loc'; fields := flds |})
                   /\ oinv loc' pts' (spec ++ [(j, d)])
  end.
Proof.
  intros k d loc flds pts spec Hfld Hinv Hk.
  pose proof Hinv as (Hself & Hnew & Hexp & Hspec & Hnm & Hn).
  change order_body with
    ([SAssign (TName "column") (XAttr (XName "spec") "column");
      SAssign (TName "descending") (XAttr (XName "spec") "ordering");
      SAssign (TName "index") (XConst (PV VNull)); SIf ob_cond ob_int ob_else] ++ ob_tail).
  cbn [app write locals fields].
  set (loc3 := update "index" PNone (update "descending" (enc_dir d) (update "column" (enc_key k)
                 (update "spec" (enc_oitem (k, d)) loc)))).
  assert (E3 : forall rest,
            exec_block {| locals := update "spec" (enc_oitem (k, d)) loc; fields := flds |}
              (SAssign (TName "column") (XAttr (XName "spec") "column") ::
               SAssign (TName "descending") (XAttr (XName "spec") "ordering") ::
               SAssign (TName "index") (XConst (PV VNull)) :: rest) =
            exec_block {| locals := loc3; fields := flds |} rest).
  { intros rest.
    rewrite exec_block_cons.
    erewrite exec_assign
      by (erewrite eval_attr; [|apply eval_name; cbn [locals]; apply lookup_update_eq|apply oitem_not_self];
          rewrite oitem_column; reflexivity).
    cbn [bind]. rewrite exec_block_cons.
    erewrite exec_assign
      by (erewrite eval_attr; [|apply eval_name; cbn [write locals]; lk; reflexivity|apply oitem_not_self];
          rewrite oitem_ordering; reflexivity).
    cbn [bind]. rewrite exec_block_cons. cbn [PyMini.exec PyMini.eval bind write locals fields fst snd]. reflexivity. }
  rewrite E3. clear E3.
  assert (I3 : oinv loc3 pts spec) by (unfold oinv, loc3; repeat split; lk; assumption).
  assert (Hc3 : lookup "column" loc3 = Some (enc_key k)) by (unfold loc3; lk; reflexivity).
  assert (Hd3 : lookup "descending" loc3 = Some (enc_dir d)) by (unfold loc3; lk; reflexivity).
  assert (Hi3 : lookup "index" loc3 = Some PNone) by (unfold loc3; lk; reflexivity).
  rewrite exec_block_cons.
  assert (Ec : eval {| locals := loc3; fields := flds |} ob_cond =
               Ok ({| locals := loc3; fields := flds |}, PBool (match k with AInt _ => true | _ => false end))).
  { unfold ob_cond. erewrite eval_prim1 by (apply eval_name; exact Hc3). rewrite (isinstance_int_key k Hk). reflexivity. }
  rewrite (exec_if call_ref prim _ _ _ _ _ _ _ Ec eq_refl).
  unfold p_order_resolve, p_resolve.
  destruct I3 as (Hs3 & Hn3 & He3 & Hsp3 & Hnm3 & Hnt3).
  destruct k as [z|n|a]; cbn [truthy].
  - unfold ob_int. cbn [enc_key] in Hc3. run. rewrite Hc3. run. rewrite Hnt3. run.
    rewrite !val_le_int. unfold Compile.nat_index.
    destruct (Z.leb_spec 0 (z - 1)), (Z.leb_spec (Z.of_nat bound) (z - 1)), (Z.leb_spec 1 z), (Z.leb_spec z (Z.of_nat bound));
      try lia; cbn [andb negb].
    + run. rewrite Hc3. run. rewrite prim_fstring. run. rewrite prim_raise. reflexivity.
    + run. eexists. split.
      * apply (ob_tail_ok _ flds (Z.to_nat (z - 1)) d spec); lk; try assumption.
        rewrite Z2Nat.id by lia. reflexivity.
      * unfold oinv. repeat split; lk; try assumption. rewrite map_app. reflexivity.
    + run. rewrite Hc3. run. rewrite prim_fstring. run. rewrite prim_raise. reflexivity.
  - change ob_else with [ob_col; ob_compile]. rewrite exec_block_cons.
    assert (Ecol : exec {| locals := loc3; fields := flds |} ob_col =
                   Ok (Next {| locals := update "index" (match Compile.assoc_last n nm with
                                                          | Some j => PInt (Z.of_nat j) | None => PNone end)
                                           (update "name" (PStr n) loc3); fields := flds |})).
    { unfold ob_col.
      assert (Ec2 : eval {| locals := loc3; fields := flds |}
                      (XPrim "isinstance:beanquery.parser.ast.Column" [XName "column"]) =
                    Ok ({| locals := loc3; fields := flds |}, PBool true)).
      { erewrite eval_prim1 by (apply eval_name; exact Hc3). rewrite (isinstance_column_key (ACol n) I). reflexivity. }
      rewrite (exec_if call_ref prim _ _ _ _ _ _ _ Ec2 eq_refl). cbn [truthy].
      rewrite exec_block_cons.
      erewrite exec_assign
        by (erewrite eval_attr; [|apply eval_name; exact Hc3|discriminate]; cbn [enc_key]; rewrite column_name; reflexivity).
      cbn [bind]. run. rewrite Hnm3. run. rewrite name_map_get. reflexivity. }
    rewrite Ecol. cbn [bind]. rewrite exec_block_cons.
    destruct (Compile.assoc_last n nm) as [j|].
    + rewrite (ob_compile_skip _ flds j) by (lk; reflexivity). cbn [bind PyMini.exec_block].
      apply ob_finish; [unfold oinv; repeat split; lk; assumption|lk; reflexivity|lk; exact Hd3].
    + set (loc5 := update "index" PNone (update "name" (PStr n) loc3)).
      assert (I5 : oinv loc5 pts spec) by (unfold oinv, loc5; repeat split; lk; assumption).
      pose proof (ob_compile_ok (enc_column n) loc5 flds pts spec Hfld I5) as HC.
      assert (Hc5 : lookup "column" loc5 = Some (enc_column n)) by (unfold loc5; lk; exact Hc3).
      assert (Hi5 : lookup "index" loc5 = Some PNone) by (unfold loc5; lk; reflexivity).
      specialize (HC Hc5 Hi5).
      destruct (p_new Compile.check_aggregates Compile.has_agg pts (enc_column n)) as [[pts' j]|e].
      * destruct HC as (loc' & -> & I' & Hi' & Hd'). cbn [bind PyMini.exec_block].
        apply ob_finish; [exact I'|exact Hi'|]. rewrite Hd'. unfold loc5. lk. exact Hd3.
      * rewrite HC. reflexivity.
  - change ob_else with [ob_col; ob_compile]. rewrite exec_block_cons.
    assert (Ecol : exec {| locals := loc3; fields := flds |} ob_col = Ok (Next {| locals := loc3; fields := flds |})).
    { unfold ob_col.
      assert (Ec2 : eval {| locals := loc3; fields := flds |}
                      (XPrim "isinstance:beanquery.parser.ast.Column" [XName "column"]) =
                    Ok ({| locals := loc3; fields := flds |}, PBool false)).
      { erewrite eval_prim1 by (apply eval_name; exact Hc3). rewrite (isinstance_column_key (AExpr a) Hk). reflexivity. }
      rewrite (exec_if call_ref prim _ _ _ _ _ _ _ Ec2 eq_refl). reflexivity. }
    rewrite Ecol. cbn [bind]. rewrite exec_block_cons.
    assert (I3 : oinv loc3 pts spec) by (unfold oinv; repeat split; assumption).
    pose proof (ob_compile_ok a loc3 flds pts spec Hfld I3 Hc3 Hi3) as HC.
    destruct (p_new Compile.check_aggregates Compile.has_agg pts a) as [[pts' j]|e].
    + destruct HC as (loc' & -> & I' & Hi' & Hd'). cbn [bind PyMini.exec_block].
      apply ob_finish; [exact I'|exact Hi'|]. rewrite Hd'. exact Hd3.
    + rewrite HC. reflexivity.
Qed.
End OrderLoop.

End Tie.
