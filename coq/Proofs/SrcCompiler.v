(* Tie by translation, C05 (group `compiler`): the PyMini terms generated on every run from the CURRENT source of
   beanquery/compiler.py (Gen/SrcCompiler.v) compute what Model/Compile.v says:
     Compiler._compile_order_by  = Compile.compile_order_by   (order_by_src)
     Compiler._compile_pivot_by  = Compile.compile_pivot_by   (pivot_by_src)
     is_aggregate / get_columns_and_aggregates / _get_columns_and_aggregates / check_aggregates
                                 = Compile.has_agg / cols_aggs / check_aggregates, the recursive call being an opaque
                                   callable assumed to return the model's value on the children.
   Compiled nodes are references into a heap [tbl] (Model/PrimsCompiler.v); `self._compile`, `is_aggregate`,
   `check_aggregates` are opaque callables about which the theorems state hypotheses (what they return on a node is the
   model's value; an error value is a raised exception). *)
From Coq Require Import String Ascii ZArith List Bool Lia.
Import ListNotations.
From Verif Require Import Base.PyValue Model.Eval Model.PyMini Model.PrimsApi Model.PrimsCompiler Proofs.PyMiniLemmas
  Proofs.PyMiniLemmas2 Proofs.SrcApi Proofs.PyValueProofs Proofs.SrcLookup.
From Verif Require Model.Compile.
From Verif Require Import Gen.SrcCompiler.
Open Scope string_scope.
Open Scope list_scope.
Open Scope Z_scope.

Notation ctarget := Compile.ctarget.
Notation cerr := Compile.cerr.

(* ---------------------------------------------------------------- keys of ORDER BY / GROUP BY / PIVOT BY *)
Inductive akey := AInt (z : Z) | ACol (name : string) | AExpr (a : pv).
Definition enc_key (k : akey) : pv := match k with AInt z => PInt z | ACol n => enc_column n | AExpr a => a end.
(* any other expression node: a tagged record of a class other than ast.Column *)
Definition expr_like (a : pv) : Prop :=
  exists tag flds, a = record tag flds /\ zeqb tag (zs COLUMN) = false /\ zeqb tag (zs "builtins.int") = false
                   /\ zeqb tag (zs "builtins.bool") = false.
Definition key_ok (k : akey) : Prop := match k with AExpr a => expr_like a | _ => True end.

Definition enc_dir (d : bool) : pv := PInt (if d then 1 else 0).      (* ast.Ordering: ASC = 0, DESC = 1 *)
Definition enc_oitem (kd : akey * bool) : pv :=
  record (zs ORDERBY) [("column", enc_key (fst kd)); ("ordering", enc_dir (snd kd))].
Definition enc_sitem (p : nat * bool) : pv := PTuple [PInt (Z.of_nat (fst p)); enc_dir (snd p)].

Definition tid (t : ptarget) : nat := fst (fst t).

(* ---------------------------------------------------------------- small facts *)
Lemma assoc_app k l1 l2 :
  assoc k (l1 ++ l2) = match assoc k l1 with Some v => Some v | None => assoc k l2 end.
Proof.
  induction l1 as [|x t IH]; [reflexivity|]. cbn [app assoc].
  destruct x as [| |[|a [|b [|c r]]]| |]; try exact IH. destruct (key_eqb k a); [reflexivity|exact IH].
Qed.

Lemma slice_from {A} (l : list A) n : slice_list l (Some (Z.of_nat n)) None = skipn n l.
Proof.
  unfold slice_list, clipz.
  destruct (Z.ltb_spec (Z.of_nat n) 0); [lia|].
  destruct (Z.min_spec (Z.of_nat n) (Z.of_nat (length l))) as [[H1 ->]|[H1 ->]].
  - rewrite Nat2Z.id. rewrite firstn_all2; [reflexivity|]. rewrite skipn_length. lia.
  - rewrite Nat2Z.id, Z.sub_diag. cbn [Z.to_nat firstn]. rewrite (skipn_all2 (n:=n)) by lia. reflexivity.
Qed.

Lemma slice_all {A} (l : list A) : slice_list l None None = l.
Proof.
  unfold slice_list. rewrite Z.sub_0_r, Nat2Z.id. cbn [Z.to_nat skipn]. apply firstn_all.
Qed.

Section Tie.
Variable call_ref : nat -> list pv -> pv.
Variable tbl : nat -> Compile.cnode.
Variable kids : nat -> list nat.
Variable mro : string -> list string.
Variable msg : string -> list pv -> pv.
Notation prim := (prim_compiler tbl kids mro msg).
Notation eval := (PyMini.eval call_ref prim).
Notation exec := (PyMini.exec call_ref prim).
Notation exec_block := (PyMini.exec_block call_ref prim).
Notation for_loop := (for_loop call_ref prim).
Notation comp_go := (comp_go call_ref prim).

Definition T (t : ptarget) : ctarget := match t with (i, n, a) => Compile.mk_target (tbl i) n a end.

Lemma exec_try s body kinds handler :
  exec s (STry body kinds handler) =
  match exec_block s body with
  | Exc k => if match kinds with [] => true | _ => existsb (Z.eqb k) kinds end then exec_block s handler else Exc k
  | r => r
  end.
Proof.
  change (exec s (STry body kinds handler)) with
    (match block_in call_ref prim s body with
     | Exc k => if match kinds with [] => true | _ => existsb (Z.eqb k) kinds end
                then block_in call_ref prim s handler else Exc k
     | r => r
     end).
  rewrite !block_in_eq. reflexivity.
Qed.

Lemma eval_compare_one a op b s s1 s2 av bv r :
  eval s a = Ok (s1, av) -> eval s1 b = Ok (s2, bv) -> compare1 op av bv = Ok r ->
  eval s (XCompare a [(op, b)]) = Ok (s2, PBool r).
Proof.
  intros H1 H2 H3. cbn [PyMini.eval]. rewrite H1. cbn [bind]. rewrite H2. cbn [bind]. rewrite H3. cbn [bind].
  destruct r; reflexivity.
Qed.

Lemma eval_tuple2 a b s s1 s2 v w :
  eval s a = Ok (s1, v) -> eval s1 b = Ok (s2, w) -> eval s (XTuple [a; b]) = Ok (s2, PTuple [v; w]).
Proof. intros H1 H2. cbn [PyMini.eval]. rewrite H1. cbn [bind]. rewrite H2. reflexivity. Qed.

Lemma eval_const s v : eval s (XConst v) = Ok (s, v).
Proof. reflexivity. Qed.

Lemma eval_not a s s1 v b : eval s a = Ok (s1, v) -> pv_truthy v = Ok b -> eval s (XNot a) = Ok (s1, PBool (negb b)).
Proof. intros H1 H2. cbn [PyMini.eval]. rewrite H1. cbn [bind]. rewrite H2. reflexivity. Qed.

Lemma eval_call_ref k a s s1 v :
  eval s a = Ok (s1, v) ->
  eval s (XCall (XConst (PRef k)) [a] None) = bind (do_call call_ref (PRef k) [v]) (fun r => Ok (s1, r)).
Proof. intros H. cbn [PyMini.eval bind]. rewrite H. reflexivity. Qed.

Ltac lk := repeat first [rewrite lookup_update_eq | rewrite lookup_update_neq by reflexivity].
Ltac step := cbn [PyMini.exec_block PyMini.exec PyMini.eval bind read write locals fields]; lk.

(* ---------------------------------------------------------------- primitives on the encodings *)
Lemma prim_node_dtype' i : prim ("attr:" ++ "dtype") [nref i] = Ok (PStr (Compile.dtype (tbl i))).
Proof. apply prim_node_dtype. Qed.

Lemma target_c_expr t : prim ("attr:" ++ "c_expr") [enc_target t] = Ok (nref (tid t)).
Proof. destruct t as [[i n] a]. reflexivity. Qed.
Lemma target_name t : prim ("attr:" ++ "name") [enc_target t] = Ok (popt PStr (snd (fst t))).
Proof. destruct t as [[i n] a]. reflexivity. Qed.
Lemma target_agg t : prim ("attr:" ++ "is_aggregate") [enc_target t] = Ok (PBool (snd t)).
Proof. destruct t as [[i n] a]. reflexivity. Qed.
Lemma prim_ET e n a :
  prim "beanquery.query_compile.EvalTarget" [e; n; a] = Ok (record (zs ET) [("c_expr", e); ("name", n); ("is_aggregate", a)]).
Proof. reflexivity. Qed.
Lemma oitem_column kd : prim ("attr:" ++ "column") [enc_oitem kd] = Ok (enc_key (fst kd)).
Proof. reflexivity. Qed.
Lemma oitem_ordering kd : prim ("attr:" ++ "ordering") [enc_oitem kd] = Ok (enc_dir (snd kd)).
Proof. reflexivity. Qed.
Lemma oitem_not_self kd : enc_oitem kd <> PSelf.
Proof. discriminate. Qed.
Lemma prim_fstring args : prim "fstring" args = Ok (msg "fstring" args).
Proof. reflexivity. Qed.
Lemma prim_raise cls lead m : prim "raise" [PV (VStr cls); PV (VStr lead); m] = Exc (exc_code cls lead).
Proof. reflexivity. Qed.
Lemma enc_target_not_self t : enc_target t <> PSelf.
Proof. destruct t as [[i n] a]. discriminate. Qed.

Lemma isinstance_int_key k : key_ok k ->
  prim "isinstance:builtins.int" [enc_key k] = Ok (PBool (match k with AInt _ => true | _ => false end)).
Proof.
  destruct k as [z|n|a]; intros Hk; try reflexivity.
  destruct Hk as (tag & flds & -> & H1 & H2 & H3). cbn. unfold isinstance, is_a. cbn.
  change (zeqb tag _) with (zeqb tag (zs "builtins.int")) at 1. rewrite H2.
  cbn. change (zeqb tag _) with (zeqb tag (zs "builtins.bool")). rewrite H3. reflexivity.
Qed.

Lemma isinstance_column_key k : key_ok k ->
  prim "isinstance:beanquery.parser.ast.Column" [enc_key k] =
  Ok (PBool (match k with ACol _ => true | _ => false end)).
Proof.
  destruct k as [z|n|a]; intros Hk; try reflexivity.
  destruct Hk as (tag & flds & -> & H1 & H2 & H3). cbn. unfold isinstance, is_a. cbn.
  change (zeqb tag _) with (zeqb tag (zs COLUMN)). rewrite H1. reflexivity.
Qed.

(* l.index(x) on node references is Compile.index_of on the nodes *)
Lemma node_index_spec x : forall (ids : list nat) (n : nat),
  node_index tbl x (map nref ids) (Z.of_nat n) =
  match Compile.index_of (tbl x) (map tbl ids) n with
  | Some k => Ok (PInt (Z.of_nat k))
  | None => Exc ValueError
  end.
Proof.
  induction ids as [|i t IH]; intros n; [reflexivity|].
  cbn [map node_index Compile.index_of]. rewrite as_nref_nref.
  destruct (Compile.node_eqb (tbl i) (tbl x)); [reflexivity|].
  replace (Z.of_nat n + 1) with (Z.of_nat (S n)) by lia. apply IH.
Qed.

(* ---------------------------------------------------------------- the name map and the count of visible targets *)
Fixpoint name_items (i : nat) (pts : list ptarget) : list pv :=
  match pts with
  | [] => []
  | (_, Some n, _) :: t => PTuple [PStr n; PInt (Z.of_nat i)] :: name_items (S i) t
  | (_, None, _) :: t => name_items (S i) t
  end.
(* the dict comprehension without a condition (GROUP BY, PIVOT BY): a hidden target is the key None *)
Fixpoint name_items_all (i : nat) (pts : list ptarget) : list pv :=
  match pts with
  | [] => []
  | (_, n, _) :: t => PTuple [popt PStr n; PInt (Z.of_nat i)] :: name_items_all (S i) t
  end.

Fixpoint names_from (i : nat) (ts : list ctarget) : list (string * nat) :=
  match ts with
  | [] => []
  | t :: r => match Compile.ct_name t with Some n => (n, i) :: names_from (S i) r | None => names_from (S i) r end
  end.

Lemma names_of_from ts : Compile.names_of ts = names_from 0 ts.
Proof.
  unfold Compile.names_of. generalize 0%nat. induction ts as [|t r IH]; intros i; [reflexivity|].
  cbn [length seq combine flat_map names_from]. rewrite IH. destruct (Compile.ct_name t); reflexivity.
Qed.

Lemma assoc_last_app {A} k (l1 l2 : list (string * A)) :
  Compile.assoc_last k (l1 ++ l2) =
  match Compile.assoc_last k l2 with Some v => Some v | None => Compile.assoc_last k l1 end.
Proof.
  induction l1 as [|[k' v] t IH]; cbn [app Compile.assoc_last]; [destruct (Compile.assoc_last k l2); reflexivity|].
  rewrite IH. destruct (Compile.assoc_last k l2); [reflexivity|]. reflexivity.
Qed.

Definition enc_oidx (o : option nat) : pv := popt (fun j => PInt (Z.of_nat j)) o.

Lemma name_items_lookup n : forall pts i,
  assoc (PStr n) (rev (name_items i pts)) = option_map (fun j => PInt (Z.of_nat j)) (Compile.assoc_last n (names_from i (map T pts))).
Proof.
  induction pts as [|[[x [m|]] a] t IH]; intros i; [reflexivity| |].
  - cbn [name_items rev map T names_from Compile.ct_name Compile.assoc_last]. rewrite assoc_app, IH.
    destruct (Compile.assoc_last n (names_from (S i) (map T t))); [reflexivity|].
    cbn [option_map assoc]. rewrite key_eqb_PStr. destruct (String.eqb n m); reflexivity.
  - cbn [name_items map T names_from Compile.ct_name]. apply IH.
Qed.

Lemma name_items_all_lookup n : forall pts i,
  assoc (PStr n) (rev (name_items_all i pts)) = option_map (fun j => PInt (Z.of_nat j)) (Compile.assoc_last n (names_from i (map T pts))).
Proof.
  induction pts as [|[[x [m|]] a] t IH]; intros i; [reflexivity| |].
  - cbn [name_items_all rev map T names_from Compile.ct_name Compile.assoc_last popt]. rewrite assoc_app, IH.
    destruct (Compile.assoc_last n (names_from (S i) (map T t))); [reflexivity|].
    cbn [option_map assoc]. rewrite key_eqb_PStr. destruct (String.eqb n m); reflexivity.
  - cbn [name_items_all rev map T names_from Compile.ct_name popt]. rewrite assoc_app, IH.
    destruct (Compile.assoc_last n (names_from (S i) (map T t))); reflexivity.
Qed.

Definition is_named (t : ptarget) : bool := match snd (fst t) with Some _ => true | None => false end.

Lemma visible_length pts : length (Compile.visible (map T pts)) = length (filter is_named pts).
Proof.
  unfold Compile.visible. induction pts as [|[[x [m|]] a] t IH]; cbn; [reflexivity| |]; rewrite ?IH; reflexivity.
Qed.

Lemma sum_ones {A} (l : list A) : sum_ints (map (fun _ => PInt 1) l) = Some (Z.of_nat (length l)).
Proof. induction l as [|x t IH]; [reflexivity|]. cbn [map sum_ints PInt length]. rewrite IH. f_equal. lia. Qed.

(* the three comprehensions over the targets *)
Lemma comp_exprs s1 : forall pts,
  comp_go s1 (XAttr (XName "c_target") "c_expr") "c_target" None (map enc_target pts) = Ok (map (fun t => nref (tid t)) pts).
Proof.
  induction pts as [|t r IH]; [reflexivity|]. cbn [map SrcApi.comp_go bind].
  erewrite eval_attr; [|apply eval_name; cbn [write locals]; apply lookup_update_eq|apply enc_target_not_self].
  rewrite target_c_expr. cbn [bind snd]. rewrite IH. reflexivity.
Qed.

Lemma comp_count s1 : forall pts,
  comp_go s1 (XConst (PInt 1)) "target" (Some (XCompare (XAttr (XName "target") "name") [(CIsNot, XConst PNone)]))
    (map enc_target pts) = Ok (map (fun _ => PInt 1) (filter is_named pts)).
Proof.
  induction pts as [|t r IH]; [reflexivity|]. cbn [map SrcApi.comp_go bind].
  assert (E : eval (write s1 (TName "target") (enc_target t))
                (XCompare (XAttr (XName "target") "name") [(CIsNot, XConst PNone)]) =
              Ok (write s1 (TName "target") (enc_target t), PBool (is_named t))).
  { eapply eval_compare_one; [erewrite eval_attr; [|apply eval_name; cbn [write locals]; apply lookup_update_eq|apply enc_target_not_self];
                                rewrite target_name; reflexivity|apply eval_const|].
    destruct t as [[x [m|]] a]; reflexivity. }
  rewrite E. cbn [bind snd pv_truthy PBool truthy].
  destruct (is_named t) eqn:En; cbn [filter]; rewrite En.
  - cbn [PyMini.eval bind snd map]. rewrite IH. reflexivity.
  - exact IH.
Qed.

Definition name_elt : expr :=
  XTuple [XAttr (XIndex (XName "$t") (XConst (PInt 1))) "name"; XIndex (XName "$t") (XConst (PInt 0))].
Definition name_cond : expr := XCompare (XAttr (XIndex (XName "$t") (XConst (PInt 1))) "name") [(CIsNot, XConst PNone)].

Lemma eval_t_item s1 (i : nat) t k :
  eval (write s1 (TName "$t") (PTuple [PInt (Z.of_nat i); enc_target t])) (XIndex (XName "$t") (XConst (PInt k))) =
  match k with
  | 0 => Ok (write s1 (TName "$t") (PTuple [PInt (Z.of_nat i); enc_target t]), PInt (Z.of_nat i))
  | 1 => Ok (write s1 (TName "$t") (PTuple [PInt (Z.of_nat i); enc_target t]), enc_target t)
  | _ => eval (write s1 (TName "$t") (PTuple [PInt (Z.of_nat i); enc_target t])) (XIndex (XName "$t") (XConst (PInt k)))
  end.
Proof.
  destruct k as [|[| |]|]; try reflexivity; cbn [PyMini.eval write locals fields read bind]; rewrite lookup_update_eq; reflexivity.
Qed.

Lemma comp_names s1 : forall pts i,
  comp_go s1 name_elt "$t" (Some name_cond) (enum_from (Z.of_nat i) (map enc_target pts)) = Ok (name_items i pts).
Proof.
  induction pts as [|t r IH]; intros i; [reflexivity|]. cbn [map enum_from SrcApi.comp_go bind].
  set (sx := write s1 (TName "$t") (PTuple [PInt (Z.of_nat i); enc_target t])).
  assert (E1 : eval sx (XAttr (XIndex (XName "$t") (XConst (PInt 1))) "name") = Ok (sx, popt PStr (snd (fst t)))).
  { erewrite eval_attr; [|apply (eval_t_item s1 i t 1)|apply enc_target_not_self]. rewrite target_name. reflexivity. }
  assert (Ec : eval sx name_cond = Ok (sx, PBool (is_named t))).
  { unfold name_cond. eapply eval_compare_one; [exact E1|apply eval_const|]. destruct t as [[x [m|]] a]; reflexivity. }
  rewrite Ec. cbn [bind snd pv_truthy PBool truthy].
  replace (Z.of_nat i + 1) with (Z.of_nat (S i)) by lia.
  destruct t as [[x [m|]] a]; cbn [is_named fst snd name_items].
  - unfold name_elt at 1. rewrite (eval_tuple2 _ _ _ _ _ _ _ E1 (eval_t_item s1 i (x, Some m, a) 0)).
    cbn [bind snd popt fst]. rewrite IH. reflexivity.
  - apply IH.
Qed.

Lemma comp_names_all s1 : forall pts i,
  comp_go s1 name_elt "$t" None (enum_from (Z.of_nat i) (map enc_target pts)) = Ok (name_items_all i pts).
Proof.
  induction pts as [|t r IH]; intros i; [reflexivity|]. cbn [map enum_from SrcApi.comp_go bind].
  set (sx := write s1 (TName "$t") (PTuple [PInt (Z.of_nat i); enc_target t])).
  assert (E1 : eval sx (XAttr (XIndex (XName "$t") (XConst (PInt 1))) "name") = Ok (sx, popt PStr (snd (fst t)))).
  { erewrite eval_attr; [|apply (eval_t_item s1 i t 1)|apply enc_target_not_self]. rewrite target_name. reflexivity. }
  replace (Z.of_nat i + 1) with (Z.of_nat (S i)) by lia.
  unfold name_elt at 1. rewrite (eval_tuple2 _ _ _ _ _ _ _ E1 (eval_t_item s1 i t 0)).
  cbn [bind snd]. rewrite IH.
  destruct t as [[x m] a]. reflexivity.
Qed.

(* ================================================================ Compiler._compile_order_by *)
Variable compf : pv -> Compile.result nat cerr.       (* what self._compile returns: a node of the heap, or an error *)
Definition enc_rid (r : Compile.result nat cerr) : pv :=
  match r with Compile.Ok i => nref i | Compile.Err e => PV (VErr (CompErr e)) end.
Definition rnode_of (r : Compile.result nat cerr) : Compile.rnode :=
  match r with Compile.Ok i => Compile.Ok (tbl i) | Compile.Err e => Compile.Err e end.
Definition kref_of (k : akey) : Compile.kref :=
  match k with
  | AInt z => inl z
  | ACol n => inr (Some n, rnode_of (compf (enc_column n)))
  | AExpr a => inr (None, rnode_of (compf a))
  end.

Variable kc : nat.
Hypothesis Hcomp : forall a, call_ref kc [a] = enc_rid (compf a).
Hypothesis Hchk : forall i, call_ref 0 [nref i] =
  match Compile.check_aggregates (tbl i) with Some e => PV (VErr (CompErr e)) | None => PNone end.
Hypothesis Hagg : forall i, call_ref 1 [nref i] = PBool (Compile.has_agg (tbl i)).

(* the same resolution on targets given by heap references *)
Definition p_new (chk : Compile.cnode -> option cerr) (agg : Compile.cnode -> bool) (pts : list ptarget) (a : pv)
  : Compile.result (list ptarget * nat) cerr :=
  match compf a with
  | Compile.Err e => Compile.Err e
  | Compile.Ok i =>
      match chk (tbl i) with
      | Some er => Compile.Err er
      | None => match Compile.index_of (tbl i) (map tbl (map tid pts)) 0 with
                | Some j => Compile.Ok (pts, j)
                | None => Compile.Ok (pts ++ [(i, None, agg (tbl i))], length pts)
                end
      end
  end.

Definition p_resolve (err_index : cerr) (chk : Compile.cnode -> option cerr) (agg : Compile.cnode -> bool)
           (bound : nat) (nm : list (string * nat)) (k : akey) (pts : list ptarget)
  : Compile.result (list ptarget * nat) cerr :=
  match k with
  | AInt z => match Compile.nat_index z bound with Some i => Compile.Ok (pts, i) | None => Compile.Err err_index end
  | ACol n => match Compile.assoc_last n nm with
              | Some i => Compile.Ok (pts, i)
              | None => p_new chk agg pts (enc_column n)
              end
  | AExpr a => p_new chk agg pts a
  end.

Definition lift_T (r : Compile.result (list ptarget * nat) cerr) : Compile.result (list ctarget * nat) cerr :=
  match r with Compile.Ok (p, i) => Compile.Ok (map T p, i) | Compile.Err e => Compile.Err e end.

Lemma map_T_expr pts : map Compile.ct_expr (map T pts) = map tbl (map tid pts).
Proof. rewrite !map_map. apply map_ext. intros [[i n] a]. reflexivity. Qed.

Lemma p_resolve_T err_index chk agg bound nm k pts :
  Compile.resolve_key err_index bound nm chk agg (kref_of k) (map T pts) = lift_T (p_resolve err_index chk agg bound nm k pts).
Proof.
  assert (Hnew : forall a,
            Compile.bind (rnode_of (compf a)) (fun n =>
              match chk n with
              | Some er => Compile.Err er
              | None => match Compile.index_of n (map Compile.ct_expr (map T pts)) 0 with
                        | Some i => Compile.Ok (map T pts, i)
                        | None => Compile.Ok (map T pts ++ [Compile.mk_target n None (agg n)], length (map T pts))
                        end
              end) = lift_T (p_new chk agg pts a)).
  { intros a. unfold p_new. destruct (compf a) as [i|e]; [|reflexivity]. cbn [rnode_of Compile.bind].
    destruct (chk (tbl i)); [reflexivity|]. rewrite map_T_expr.
    destruct (Compile.index_of (tbl i) (map tbl (map tid pts)) 0); cbn [lift_T]; [reflexivity|].
    rewrite map_app, map_length. reflexivity. }
  destruct k as [z|n|a]; cbn [kref_of Compile.resolve_key p_resolve].
  - destruct (Compile.nat_index z bound); reflexivity.
  - destruct (Compile.assoc_last n nm); [reflexivity|]. apply Hnew.
  - apply Hnew.
Qed.

Definition order_body : list stmt :=
  Eval cbv in match nth 6 (f_body compile_order_by) SPass with SFor _ _ b => b | _ => [] end.

Section OrderLoop.
Variable pts0 : list ptarget.
Let NM : pv := PTuple [PStr dict_tag; PList (name_items 0 pts0)].
Let nm : list (string * nat) := names_from 0 (map T pts0).
Let bound : nat := length (filter is_named pts0).

Definition oinv (loc : env) (pts : list ptarget) (spec : list (nat * bool)) : Prop :=
  lookup "self" loc = Some PSelf
  /\ lookup "new_targets" loc = Some (PList (map enc_target pts))
  /\ lookup "c_target_expressions" loc = Some (PList (map (fun t => nref (tid t)) pts))
  /\ lookup "order_spec" loc = Some (PList (map enc_sitem spec))
  /\ lookup "targets_name_map" loc = Some NM
  /\ lookup "n_targets" loc = Some (PInt (Z.of_nat bound))
  /\ lookup "c_targets" loc = Some (PList (map enc_target pts0)).

Definition p_order_resolve := p_resolve Compile.EOrderIndex Compile.check_aggregates Compile.has_agg bound nm.

Definition ob_cond : expr := Eval cbv in match nth 3 order_body SPass with SIf c _ _ => c | _ => XConst PNone end.
Definition ob_int : list stmt := Eval cbv in match nth 3 order_body SPass with SIf _ a _ => a | _ => [] end.
Definition ob_else : list stmt := Eval cbv in match nth 3 order_body SPass with SIf _ _ b => b | _ => [] end.
Definition ob_tail : list stmt := Eval cbv in skipn 4 order_body.
Definition ob_col : stmt := Eval cbv in nth 0 ob_else SPass.
Definition ob_compile : stmt := Eval cbv in nth 1 ob_else SPass.

Ltac run := repeat (progress (cbn [PyMini.exec_block PyMini.exec PyMini.eval bind read write locals fields pv_truthy truthy
                                   PBool PNone PInt compare1 pv_is_none negb andb orb is_null rank Pos.eqb Z.eqb
                                   method_call String.eqb Ascii.eqb Bool.eqb binop1 binop_builtin fst snd existsb ValueError]; lk)).

(* the statements after the resolution: assert index is not None; order_spec.append((index, descending)) *)
Lemma ob_tail_ok : forall loc flds (j : nat) d spec,
  lookup "index" loc = Some (PInt (Z.of_nat j)) -> lookup "descending" loc = Some (enc_dir d) ->
  lookup "order_spec" loc = Some (PList (map enc_sitem spec)) ->
  exec_block {| locals := loc; fields := flds |} ob_tail =
  Ok (Next {| locals := update "order_spec" (PList (map enc_sitem (spec ++ [(j, d)]))) loc; fields := flds |}).
Proof.
  intros loc flds j d spec Hi Hd Hs. unfold ob_tail.
  run. rewrite Hi. run. rewrite Hi. run. rewrite Hd. run. rewrite Hs. run.
  rewrite map_app. reflexivity.
Qed.

(* the compiled-expression branch: index is None *)
Lemma ob_compile_ok : forall (a : pv) loc flds pts spec,
  lookup "_compile" flds = Some (PRef kc) ->
  oinv loc pts spec -> lookup "column" loc = Some a -> lookup "index" loc = Some PNone ->
  match p_new Compile.check_aggregates Compile.has_agg pts a with
  | Compile.Err e => exec {| locals := loc; fields := flds |} ob_compile = Exc (CompErr e)
  | Compile.Ok (pts', j) =>
      exists loc', exec {| locals := loc; fields := flds |} ob_compile = Ok (Next {| locals := loc'; fields := flds |})
                   /\ oinv loc' pts' spec /\ lookup "index" loc' = Some (PInt (Z.of_nat j))
                   /\ lookup "descending" loc' = lookup "descending" loc
  end.
Proof.
  intros a loc flds pts spec Hfld (Hself & Hnew & Hexp & Hspec & Hnm & Hn & Hct) Hcol Hidx.
  unfold p_new, ob_compile.
  run. rewrite Hidx. run. rewrite Hself. run. rewrite Hfld. run. rewrite Hcol. run.
  unfold do_call. rewrite Hcomp.
  destruct (compf a) as [i|e]; cbn [enc_rid]; [|reflexivity].
  cbn [nref]. run. fold (nref i). rewrite Hchk.
  destruct (Compile.check_aggregates (tbl i)) as [er|]; [reflexivity|].
  run. rewrite Hexp. run.
  change (prim ("call:" ++ "index") [PList (map (fun t => nref (tid t)) pts); nref i])
    with (match as_nref (nref i) with Some x => node_index tbl x (map (fun t => nref (tid t)) pts) 0 | None => Stuck end).
  rewrite as_nref_nref. rewrite <- (map_map tid nref). change 0 with (Z.of_nat 0) at 1. rewrite (node_index_spec i (map tid pts) 0).
  destruct (Compile.index_of (tbl i) (map tbl (map tid pts)) 0) as [j|].
  - eexists. split; [run; reflexivity|]. unfold oinv. repeat split; lk; try assumption; reflexivity.
  - eexists. split; [run; rewrite Hnew; run; rewrite Hagg; run; rewrite prim_ET; run; rewrite Hnew; run;
                     rewrite Hexp; run; reflexivity|].
    unfold oinv. repeat split; lk; try assumption; try reflexivity.
    + rewrite map_app. reflexivity.
    + rewrite map_app. reflexivity.
    + rewrite map_length. reflexivity.
Qed.

Lemma ob_compile_skip : forall loc flds (j : nat),
  lookup "index" loc = Some (PInt (Z.of_nat j)) ->
  exec {| locals := loc; fields := flds |} ob_compile = Ok (Next {| locals := loc; fields := flds |}).
Proof. intros loc flds j Hi. unfold ob_compile. run. rewrite Hi. run. reflexivity. Qed.

Lemma column_name n : prim ("attr:" ++ "name") [enc_column n] = Ok (PStr n).
Proof. reflexivity. Qed.

Lemma name_map_get n dflt :
  prim ("call:" ++ "get") [NM; PStr n; dflt] =
  Ok (match Compile.assoc_last n nm with Some j => PInt (Z.of_nat j) | None => dflt end).
Proof.
  change (prim ("call:" ++ "get") [NM; PStr n; dflt]) with (dict_get NM (PStr n) dflt).
  unfold dict_get, NM, PStr at 1. rewrite zeqb_refl. rewrite name_items_lookup. fold nm.
  destruct (Compile.assoc_last n nm); reflexivity.
Qed.

Lemma ob_finish : forall loc flds pts spec (j : nat) d,
  oinv loc pts spec -> lookup "index" loc = Some (PInt (Z.of_nat j)) -> lookup "descending" loc = Some (enc_dir d) ->
  exists loc', exec_block {| locals := loc; fields := flds |} ob_tail = Ok (Next {| locals := loc'; fields := flds |})
               /\ oinv loc' pts (spec ++ [(j, d)]).
Proof.
  intros loc flds pts spec j d (Hself & Hnew & Hexp & Hspec & Hnm & Hn & Hct) Hi Hd.
  eexists. split; [apply (ob_tail_ok _ flds j d spec); assumption|].
  unfold oinv. repeat split; lk; try assumption; reflexivity.
Qed.

Lemma order_step : forall (k : akey) (d : bool) loc flds pts spec,
  lookup "_compile" flds = Some (PRef kc) ->
  oinv loc pts spec -> key_ok k ->
  match p_order_resolve k pts with
  | Compile.Err e =>
      exec_block (write {| locals := loc; fields := flds |} (TName "spec") (enc_oitem (k, d))) order_body = Exc (CompErr e)
  | Compile.Ok (pts', j) =>
      exists loc', exec_block (write {| locals := loc; fields := flds |} (TName "spec") (enc_oitem (k, d))) order_body =
                   Ok (Next {| locals := loc'; fields := flds |})
                   /\ oinv loc' pts' (spec ++ [(j, d)])
  end.
Proof.
  intros k d loc flds pts spec Hfld Hinv Hk.
  pose proof Hinv as (Hself & Hnew & Hexp & Hspec & Hnm & Hn & Hct).
  change order_body with
    ([SAssign (TName "column") (XAttr (XName "spec") "column");
      SAssign (TName "descending") (XAttr (XName "spec") "ordering");
      SAssign (TName "index") (XConst (PV VNull)); SIf ob_cond ob_int ob_else] ++ ob_tail).
  cbn [app write locals fields].
  set (loc3 := update "index" PNone (update "descending" (enc_dir d) (update "column" (enc_key k)
                 (update "spec" (enc_oitem (k, d)) loc)))).
  assert (E3 : forall rest,
            exec_block {| locals := update "spec" (enc_oitem (k, d)) loc; fields := flds |}
              (SAssign (TName "column") (XAttr (XName "spec") "column") ::
               SAssign (TName "descending") (XAttr (XName "spec") "ordering") ::
               SAssign (TName "index") (XConst (PV VNull)) :: rest) =
            exec_block {| locals := loc3; fields := flds |} rest).
  { intros rest.
    rewrite exec_block_cons.
    erewrite exec_assign
      by (erewrite eval_attr; [|apply eval_name; cbn [locals]; apply lookup_update_eq|apply oitem_not_self];
          rewrite oitem_column; reflexivity).
    cbn [bind]. rewrite exec_block_cons.
    erewrite exec_assign
      by (erewrite eval_attr; [|apply eval_name; cbn [write locals]; lk; reflexivity|apply oitem_not_self];
          rewrite oitem_ordering; reflexivity).
    cbn [bind]. rewrite exec_block_cons. cbn [PyMini.exec PyMini.eval bind write locals fields fst snd]. reflexivity. }
  rewrite E3. clear E3.
  assert (I3 : oinv loc3 pts spec) by (unfold oinv, loc3; repeat split; lk; assumption).
  assert (Hc3 : lookup "column" loc3 = Some (enc_key k)) by (unfold loc3; lk; reflexivity).
  assert (Hd3 : lookup "descending" loc3 = Some (enc_dir d)) by (unfold loc3; lk; reflexivity).
  assert (Hi3 : lookup "index" loc3 = Some PNone) by (unfold loc3; lk; reflexivity).
  rewrite exec_block_cons.
  assert (Ec : eval {| locals := loc3; fields := flds |} ob_cond =
               Ok ({| locals := loc3; fields := flds |}, PBool (match k with AInt _ => true | _ => false end))).
  { unfold ob_cond. erewrite eval_prim1 by (apply eval_name; exact Hc3). rewrite (isinstance_int_key k Hk). reflexivity. }
  rewrite (exec_if call_ref prim _ _ _ _ _ _ _ Ec eq_refl).
  unfold p_order_resolve, p_resolve.
  destruct I3 as (Hs3 & Hn3 & He3 & Hsp3 & Hnm3 & Hnt3 & Hct3).
  destruct k as [z|n|a]; cbn [truthy].
  - unfold ob_int. cbn [enc_key] in Hc3. run. rewrite Hc3. run. rewrite Hnt3. run.
    rewrite !val_le_int. unfold Compile.nat_index.
    destruct (Z.leb_spec 0 (z - 1)), (Z.leb_spec (Z.of_nat bound) (z - 1)), (Z.leb_spec 1 z), (Z.leb_spec z (Z.of_nat bound));
      try lia; cbn [andb negb].
    + run. rewrite Hc3. run. rewrite prim_fstring. run. rewrite prim_raise. reflexivity.
    + run. eexists. split.
      * apply (ob_tail_ok _ flds (Z.to_nat (z - 1)) d spec); lk; try assumption.
        rewrite Z2Nat.id by lia. reflexivity.
      * unfold oinv. repeat split; lk; try assumption. rewrite map_app. reflexivity.
    + run. rewrite Hc3. run. rewrite prim_fstring. run. rewrite prim_raise. reflexivity.
  - change ob_else with [ob_col; ob_compile]. rewrite exec_block_cons.
    assert (Ecol : exec {| locals := loc3; fields := flds |} ob_col =
                   Ok (Next {| locals := update "index" (match Compile.assoc_last n nm with
                                                          | Some j => PInt (Z.of_nat j) | None => PNone end)
                                           (update "name" (PStr n) loc3); fields := flds |})).
    { unfold ob_col.
      assert (Ec2 : eval {| locals := loc3; fields := flds |}
                      (XPrim "isinstance:beanquery.parser.ast.Column" [XName "column"]) =
                    Ok ({| locals := loc3; fields := flds |}, PBool true)).
      { erewrite eval_prim1 by (apply eval_name; exact Hc3). rewrite (isinstance_column_key (ACol n) I). reflexivity. }
      rewrite (exec_if call_ref prim _ _ _ _ _ _ _ Ec2 eq_refl). cbn [truthy].
      rewrite exec_block_cons.
      erewrite exec_assign
        by (erewrite eval_attr; [|apply eval_name; exact Hc3|discriminate]; cbn [enc_key]; rewrite column_name; reflexivity).
      cbn [bind]. run. rewrite Hnm3. run. rewrite name_map_get. reflexivity. }
    rewrite Ecol. cbn [bind]. rewrite exec_block_cons.
    destruct (Compile.assoc_last n nm) as [j|].
    + rewrite (ob_compile_skip _ flds j) by (lk; reflexivity). cbn [bind PyMini.exec_block].
      apply ob_finish; [unfold oinv; repeat split; lk; assumption|lk; reflexivity|lk; exact Hd3].
    + set (loc5 := update "index" PNone (update "name" (PStr n) loc3)).
      assert (I5 : oinv loc5 pts spec) by (unfold oinv, loc5; repeat split; lk; assumption).
      pose proof (ob_compile_ok (enc_column n) loc5 flds pts spec Hfld I5) as HC.
      assert (Hc5 : lookup "column" loc5 = Some (enc_column n)) by (unfold loc5; lk; exact Hc3).
      assert (Hi5 : lookup "index" loc5 = Some PNone) by (unfold loc5; lk; reflexivity).
      specialize (HC Hc5 Hi5).
      destruct (p_new Compile.check_aggregates Compile.has_agg pts (enc_column n)) as [[pts' j]|e].
      * destruct HC as (loc' & -> & I' & Hi' & Hd'). cbn [bind PyMini.exec_block].
        apply ob_finish; [exact I'|exact Hi'|]. rewrite Hd'. unfold loc5. lk. exact Hd3.
      * rewrite HC. reflexivity.
  - change ob_else with [ob_col; ob_compile]. rewrite exec_block_cons.
    assert (Ecol : exec {| locals := loc3; fields := flds |} ob_col = Ok (Next {| locals := loc3; fields := flds |})).
    { unfold ob_col.
      assert (Ec2 : eval {| locals := loc3; fields := flds |}
                      (XPrim "isinstance:beanquery.parser.ast.Column" [XName "column"]) =
                    Ok ({| locals := loc3; fields := flds |}, PBool false)).
      { erewrite eval_prim1 by (apply eval_name; exact Hc3). rewrite (isinstance_column_key (AExpr a) Hk). reflexivity. }
      rewrite (exec_if call_ref prim _ _ _ _ _ _ _ Ec2 eq_refl). reflexivity. }
    rewrite Ecol. cbn [bind]. rewrite exec_block_cons.
    assert (I3 : oinv loc3 pts spec) by (unfold oinv; repeat split; assumption).
    pose proof (ob_compile_ok a loc3 flds pts spec Hfld I3 Hc3 Hi3) as HC.
    destruct (p_new Compile.check_aggregates Compile.has_agg pts a) as [[pts' j]|e].
    + destruct HC as (loc' & -> & I' & Hi' & Hd'). cbn [bind PyMini.exec_block].
      apply ob_finish; [exact I'|exact Hi'|]. rewrite Hd'. exact Hd3.
    + rewrite HC. reflexivity.
Qed.
Fixpoint p_order_loop (l : list (akey * bool)) (pts : list ptarget) (spec : list (nat * bool))
  : Compile.result (list ptarget * list (nat * bool)) cerr :=
  match l with
  | [] => Compile.Ok (pts, spec)
  | (k, d) :: rest =>
      match p_order_resolve k pts with
      | Compile.Err e => Compile.Err e
      | Compile.Ok (pts', j) => p_order_loop rest pts' (spec ++ [(j, d)])
      end
  end.

Definition krefs (l : list (akey * bool)) : list (Compile.kref * bool) := map (fun kd => (kref_of (fst kd), snd kd)) l.

Lemma p_order_loop_T : forall l pts spec,
  Compile.order_loop bound nm (krefs l) (map T pts) spec =
  match p_order_loop l pts spec with
  | Compile.Ok (p, sp) => Compile.Ok (map T p, sp)
  | Compile.Err e => Compile.Err e
  end.
Proof.
  induction l as [|[k d] rest IH]; intros pts spec; [reflexivity|].
  cbn [krefs map fst snd Compile.order_loop p_order_loop]. rewrite p_resolve_T. fold p_order_resolve.
  destruct (p_order_resolve k pts) as [[pts' j]|e]; cbn [lift_T Compile.bind]; [|reflexivity].
  apply IH.
Qed.

Lemma order_loop_src : forall (l : list (akey * bool)) loc flds pts spec,
  lookup "_compile" flds = Some (PRef kc) -> oinv loc pts spec -> Forall key_ok (map fst l) ->
  match p_order_loop l pts spec with
  | Compile.Err e => for_loop order_body "spec" {| locals := loc; fields := flds |} (map enc_oitem l) = Exc (CompErr e)
  | Compile.Ok (pts', spec') =>
      exists loc', for_loop order_body "spec" {| locals := loc; fields := flds |} (map enc_oitem l) =
                   Ok (Next {| locals := loc'; fields := flds |}) /\ oinv loc' pts' spec'
  end.
Proof.
  induction l as [|[k d] rest IH]; intros loc flds pts spec Hfld Hinv Hks.
  - cbn. exists loc. split; [reflexivity|exact Hinv].
  - cbn [map fst] in Hks. inversion Hks as [|? ? Hk Hrest]; subst.
    cbn [map PyMiniLemmas.for_loop p_order_loop].
    pose proof (order_step k d loc flds pts spec Hfld Hinv Hk) as HS.
    destruct (p_order_resolve k pts) as [[pts' j]|e].
    + destruct HS as (loc1 & -> & I1). cbn [bind]. apply (IH loc1 flds pts' _ Hfld I1 Hrest).
    + rewrite HS. reflexivity.
Qed.

End OrderLoop.

Ltac run := repeat (progress (cbn [PyMini.exec_block PyMini.exec PyMini.eval bind read write locals fields pv_truthy truthy
                                   PBool PNone PInt compare1 pv_is_none negb andb orb is_null rank Pos.eqb Z.eqb
                                   method_call String.eqb Ascii.eqb Bool.eqb binop1 binop_builtin fst snd existsb
                                   ValueError as_bound]; lk)).

Definition enc_ospec (o : option (list (nat * bool))) : pv := popt (fun l => PList (map enc_sitem l)) o.

Definition ob_prefix : list stmt := Eval cbv in firstn 6 (f_body compile_order_by).
Definition ob_ret : stmt := Eval cbv in nth 7 (f_body compile_order_by) SPass.
Lemma order_body_split :
  f_body compile_order_by = ob_prefix ++ [SFor "spec" (XName "order_by") order_body; ob_ret].
Proof. reflexivity. Qed.

Lemma exec_block_app : forall a b s,
  exec_block s (a ++ b) = bind (exec_block s a) (fun o => match o with Next s1 => exec_block s1 b | Ret _ _ => Ok o end).
Proof.
  induction a as [|c t IH]; intros b s; [reflexivity|].
  cbn [app]. rewrite !exec_block_cons. destruct (exec s c) as [[s1|s1 v]| |]; cbn [bind]; auto.
Qed.

Ltac crun := repeat (progress (cbn [PyMini.exec_block PyMini.exec PyMini.eval bind read write locals fields lookup update
                                    String.eqb Ascii.eqb Bool.eqb as_bound PNone pv_truthy truthy PBool negb fst snd])).

Definition order_env (ord pts0 : pv) (pts : list ptarget) : env :=
  [("self", PSelf); ("order_by", ord); ("c_targets", pts0);
   ("new_targets", PList (map enc_target pts));
   ("c_target_expressions", PList (map (fun t => nref (tid t)) pts));
   ("targets_name_map", PTuple [PStr dict_tag; PList (name_items 0 pts)]);
   ("n_targets", PInt (Z.of_nat (length (filter is_named pts))));
   ("order_spec", PList [])].

Lemma order_prefix_ok : forall (pts0 : list ptarget) (o : pv) (l : list pv) flds, o = PList l -> l <> [] ->
  exec_block {| locals := [("self", PSelf); ("order_by", o); ("c_targets", PList (map enc_target pts0))]; fields := flds |}
    ob_prefix =
  Ok (Next {| locals := order_env o (PList (map enc_target pts0)) pts0; fields := flds |}).
Proof.
  intros pts0 o l flds -> Hl. unfold ob_prefix.
  set (ct := PList (map enc_target pts0)).
  rewrite exec_block_cons.
  assert (E0 : eval {| locals := [("self", PSelf); ("order_by", PList l); ("c_targets", ct)]; fields := flds |}
                 (XNot (XName "order_by")) =
               Ok ({| locals := [("self", PSelf); ("order_by", PList l); ("c_targets", ct)]; fields := flds |}, PBool (negb true))).
  { eapply eval_not; [apply eval_name; reflexivity|]. destruct l; [congruence|reflexivity]. }
  rewrite (exec_if call_ref prim _ _ _ _ _ _ _ E0 eq_refl). cbn [truthy negb]. rewrite exec_block_nil. cbn [bind].
  rewrite exec_block_cons.
  erewrite exec_assign by (unfold ct; crun; rewrite slice_all; reflexivity).
  cbn [bind]. rewrite exec_block_cons.
  erewrite exec_assign
    by (erewrite eval_listcomp_gen by (apply eval_name; reflexivity); rewrite comp_exprs; reflexivity).
  cbn [bind]. rewrite exec_block_cons.
  erewrite exec_assign
    by (erewrite eval_prim1;
        [|erewrite eval_listcomp_gen;
          [|erewrite eval_prim1 by (apply eval_name; reflexivity);
            change (prim "builtins.enumerate" [ct]) with (Ok (A:=pv) (PList (enum_from (Z.of_nat 0) (map enc_target pts0))));
            reflexivity];
          fold name_elt; fold name_cond; rewrite (comp_names _ pts0 0); reflexivity];
        reflexivity).
  cbn [bind]. rewrite exec_block_cons.
  erewrite exec_assign
    by (erewrite eval_prim1;
        [|erewrite eval_listcomp_gen by (apply eval_name; reflexivity); rewrite comp_count; reflexivity];
        change (prim "builtins.sum" [PList (map (fun _ => PInt 1) (filter is_named pts0))])
          with (match sum_ints (map (fun _ : ptarget => PInt 1) (filter is_named pts0)) with
                | Some z => Ok (A:=pv) (PInt z) | None => Stuck end);
        rewrite sum_ones; reflexivity).
  cbn [bind]. crun. reflexivity.
Qed.

Theorem order_by_src : forall (pts0 : list ptarget) (ord : list (akey * bool)) flds,
  lookup "_compile" flds = Some (PRef kc) -> Forall key_ok (map fst ord) ->
  match Compile.compile_order_by (map T pts0) (krefs ord) with
  | Compile.Err e =>
      call_method call_ref prim compile_order_by flds [PList (map enc_oitem ord); PList (map enc_target pts0)] =
      Exc (CompErr e)
  | Compile.Ok (ts, spec) =>
      exists new : list ptarget,
        call_method call_ref prim compile_order_by flds [PList (map enc_oitem ord); PList (map enc_target pts0)] =
        Ok (flds, PTuple [PList (map enc_target new); enc_ospec spec])
        /\ map T new = skipn (length pts0) ts
  end.
Proof.
  intros pts0 ord flds Hfld Hks.
  unfold call_method.
  change (f_params compile_order_by) with ["self"; "order_by"; "c_targets"].
  change (f_gen compile_order_by) with false. rewrite order_body_split. cbn [bind_params].
  destruct ord as [|kd rest] eqn:Eord.
  { (* no ORDER BY *)
    cbn [krefs map Compile.compile_order_by]. exists []. split.
    - reflexivity.
    - rewrite skipn_all2; [reflexivity|]. rewrite map_length. lia. }
  rewrite <- Eord in *.
  assert (Hne : map enc_oitem ord <> []) by (rewrite Eord; discriminate).
  rewrite exec_block_app. rewrite (order_prefix_ok pts0 _ _ flds eq_refl Hne). cbn [bind].
  rewrite exec_block_cons.
  rewrite (exec_for call_ref prim "spec" (XName "order_by") order_body _ _ (map enc_oitem ord))
    by (apply eval_name; reflexivity).
  assert (I0 : oinv pts0 (order_env (PList (map enc_oitem ord)) (PList (map enc_target pts0)) pts0) pts0 [])
    by (unfold oinv; repeat split; reflexivity).
  pose proof (order_loop_src pts0 ord _ flds pts0 [] Hfld I0 Hks) as HL.
  assert (EM : Compile.compile_order_by (map T pts0) (krefs ord) =
               match p_order_loop pts0 ord pts0 [] with
               | Compile.Ok (p, sp) => Compile.Ok (map T p, Some sp)
               | Compile.Err e => Compile.Err e
               end).
  { unfold Compile.compile_order_by. destruct (krefs ord) as [|kr krs] eqn:Ek; [rewrite Eord in Ek; discriminate|].
    rewrite <- Ek. rewrite visible_length, names_of_from, p_order_loop_T.
    destruct (p_order_loop pts0 ord pts0 []) as [[p sp]|e]; reflexivity. }
  rewrite EM.
  destruct (p_order_loop pts0 ord pts0 []) as [[pts' spec']|e].
  - destruct HL as (loc' & -> & (Hself & Hnew & Hexp & Hspec & Hnm & Hn & Hct)). cbn [bind].
    exists (skipn (length pts0) pts'). split.
    + unfold ob_ret. rewrite exec_block_cons. run. rewrite Hnew. run. rewrite Hct. run. rewrite Hspec. run.
      rewrite map_length, slice_from, skipn_map. reflexivity.
    + rewrite skipn_map. reflexivity.
  - rewrite HL. reflexivity.
Qed.

End Tie.

(* the statement for Properties/C05.v: the opaque callables are named through the generated [refs] table *)
Theorem order_by_source :
  forall (call_ref : nat -> list pv -> pv) (tbl : nat -> Compile.cnode) (kids : nat -> list nat)
         (mro : string -> list string) (msg : string -> list pv -> pv)
         (compf : pv -> Compile.result nat cerr) (kc kchk kagg : nat),
  ref_of refs "beanquery.compiler.check_aggregates" = Some kchk ->
  ref_of refs "beanquery.compiler.is_aggregate" = Some kagg ->
  (forall a, call_ref kc [a] = enc_rid (compf a)) ->
  (forall i, call_ref kchk [nref i] =
             match Compile.check_aggregates (tbl i) with Some e => PV (VErr (CompErr e)) | None => PNone end) ->
  (forall i, call_ref kagg [nref i] = PBool (Compile.has_agg (tbl i))) ->
  forall (pts0 : list ptarget) (ord : list (akey * bool)) (flds : env),
  lookup "_compile" flds = Some (PRef kc) -> Forall key_ok (map fst ord) ->
  match Compile.compile_order_by (map (T tbl) pts0) (krefs tbl compf ord) with
  | Compile.Err e =>
      call_method call_ref (prim_compiler tbl kids mro msg) compile_order_by flds
        [PList (map enc_oitem ord); PList (map enc_target pts0)] = Exc (CompErr e)
  | Compile.Ok (ts, spec) =>
      exists new : list ptarget,
        call_method call_ref (prim_compiler tbl kids mro msg) compile_order_by flds
          [PList (map enc_oitem ord); PList (map enc_target pts0)] =
        Ok (flds, PTuple [PList (map enc_target new); enc_ospec spec])
        /\ map (T tbl) new = skipn (length pts0) ts
  end.
Proof.
  intros call_ref tbl kids mro msg compf kc kchk kagg H1 H2 Hc Hk Ha.
  cbn in H1, H2. injection H1 as <-. injection H2 as <-.
  apply (order_by_src call_ref tbl kids mro msg compf kc Hc Hk Ha).
Qed.

(* ================================================================ the aggregate walk *)
From Verif Require Proofs.CompileProofs.

Section Walk.
Variable call_ref : nat -> list pv -> pv.
Variable tbl : nat -> Compile.cnode.
Variable kids : nat -> list nat.
Variable mro : string -> list string.
Variable msg : string -> list pv -> pv.
Notation prim := (prim_compiler tbl kids mro msg).

Ltac lk := repeat first [rewrite lookup_update_eq | rewrite lookup_update_neq by reflexivity].
Ltac crun := repeat (progress (cbn [PyMini.exec_block PyMini.exec PyMini.eval bind read write locals fields lookup update
                                    String.eqb Ascii.eqb Bool.eqb PNone pv_truthy truthy PBool negb fst snd do_call])).

(* is_aggregate(node) = bool(aggregates) of get_columns_and_aggregates(node) = Compile.has_agg *)
Theorem is_aggregate_src : forall (kg i : nat) (cs ags : list nat),
  ref_of refs "beanquery.compiler.get_columns_and_aggregates" = Some kg ->
  call_ref kg [nref i] = PTuple [PList (map nref cs); PList (map nref ags)] ->
  map tbl ags = snd (Compile.cols_aggs (tbl i)) ->
  call_function call_ref prim is_aggregate [nref i] = Ok (PBool (Compile.has_agg (tbl i))).
Proof.
  intros kg i cs ags Hk Hc Ha. cbn in Hk. injection Hk as <-.
  unfold call_function, is_aggregate. cbn [f_params f_body f_gen bind_params].
  crun. rewrite Hc. crun.
  change (prim "builtins.bool" [PList (map nref ags)])
    with (bind (pv_truthy (PList (map nref ags))) (fun b => Ok (A:=pv) (PBool b))).
  rewrite (proj2 (CompileProofs.predicates_are_the_walk (tbl i))), <- Ha.
  destruct ags; reflexivity.
Qed.

(* get_columns_and_aggregates(node): the two accumulators start empty and are what the recursive walk returns *)
Theorem get_columns_and_aggregates_src : forall (kr i : nat) (c a : pv),
  ref_of refs "beanquery.compiler._get_columns_and_aggregates" = Some kr ->
  call_ref kr [nref i; PList []; PList []] = PTuple [c; a] ->
  call_function call_ref prim get_columns_and_aggregates [nref i] = Ok (PTuple [c; a]).
Proof.
  intros kr i c a Hk Hc. cbn in Hk. injection Hk as <-.
  unfold call_function, get_columns_and_aggregates. cbn [f_params f_body f_gen bind_params].
  crun. rewrite Hc. crun. reflexivity.
Qed.

End Walk.

(* ================================================================ Compiler._compile_pivot_by *)
Definition enc_pcol (p : Compile.pcol) : pv :=
  match p with Compile.PIdx z => PInt z | Compile.PName n => enc_column n end.
Definition enc_gi (g : option (list nat)) : pv := popt (fun l => PList (map (fun j => PInt (Z.of_nat j)) l)) g.
Definition enc_pivot_by (p1 p2 : Compile.pcol) : pv := record (zs PIVOTBY) [("columns", PList [enc_pcol p1; enc_pcol p2])].
Definition pivot_body : list stmt :=
  Eval cbv in match nth 4 (f_body compile_pivot_by) SPass with SFor _ _ b => b | _ => [] end.
Definition pivot_prefix : list stmt := Eval cbv in firstn 4 (f_body compile_pivot_by).
Definition pivot_suffix : list stmt := Eval cbv in skipn 5 (f_body compile_pivot_by).

Section Pivot.
Variable call_ref : nat -> list pv -> pv.
Variable tbl : nat -> Compile.cnode.
Variable kids : nat -> list nat.
Variable mro : string -> list string.
Variable msg : string -> list pv -> pv.
Notation prim := (prim_compiler tbl kids mro msg).
Notation eval := (PyMini.eval call_ref prim).
Notation exec := (PyMini.exec call_ref prim).
Notation exec_block := (PyMini.exec_block call_ref prim).
Notation for_loop := (for_loop call_ref prim).
Notation T := (T tbl).

Ltac lk := repeat first [rewrite lookup_update_eq | rewrite lookup_update_neq by reflexivity].
Ltac run := repeat (progress (cbn [PyMini.exec_block PyMini.exec PyMini.eval bind read write locals fields pv_truthy truthy
                                   PBool PNone PInt compare1 pv_is_none negb andb orb is_null rank Pos.eqb Z.eqb
                                   method_call String.eqb Ascii.eqb Bool.eqb binop1 binop_builtin fst snd existsb
                                   ValueError as_bound]; lk)).

Variable pts : list ptarget.
Let NMA : pv := PTuple [PStr dict_tag; PList (name_items_all 0 pts)].
Let bound : nat := length (filter is_named pts).
Definition enc_idxs (l : list nat) : pv := PList (map (fun j => PInt (Z.of_nat j)) l).

Variable G : pv.      (* group_indexes *)
Definition pinv (loc : env) (idxs : list nat) : Prop :=
  lookup "indexes" loc = Some (enc_idxs idxs) /\ lookup "names" loc = Some NMA
  /\ lookup "n_targets" loc = Some (PInt (Z.of_nat bound)) /\ lookup "group_indexes" loc = Some G.

Lemma names_all_get n dflt :
  prim ("call:" ++ "get") [NMA; PStr n; dflt] =
  Ok (match Compile.assoc_last n (Compile.names_of (map T pts)) with Some j => PInt (Z.of_nat j) | None => dflt end).
Proof.
  change (prim ("call:" ++ "get") [NMA; PStr n; dflt]) with (dict_get NMA (PStr n) dflt).
  unfold dict_get, NMA, PStr at 1. rewrite zeqb_refl. rewrite (name_items_all_lookup tbl), names_of_from.
  destruct (Compile.assoc_last n (names_from 0 (map T pts))); reflexivity.
Qed.

Lemma isinstance_int_int z : prim "isinstance:builtins.int" [PV (VInt z)] = Ok (PBool true).
Proof. reflexivity. Qed.
Notation colv n := (PTuple [PV (VStr (zs COLUMN)); PList [PTuple [PStr "name"; PStr n]]]).
Lemma isinstance_int_col n : prim "isinstance:builtins.int" [colv n] = Ok (PBool false).
Proof. reflexivity. Qed.
Lemma isinstance_col_col n : prim "isinstance:beanquery.parser.ast.Column" [colv n] = Ok (PBool true).
Proof. reflexivity. Qed.
Lemma column_name' n : prim ("attr:" ++ "name") [colv n] = Ok (PStr n).
Proof. reflexivity. Qed.
Lemma prim_fstring' args : prim "fstring" args = Ok (msg "fstring" args).
Proof. reflexivity. Qed.
Lemma prim_raise' cls lead m : prim "raise" [PV (VStr cls); PV (VStr lead); m] = Exc (exc_code cls lead).
Proof. reflexivity. Qed.
Lemma prim_getitem l i : prim "getitem" [PList l; PV (VInt i)] = index_at l i.
Proof. reflexivity. Qed.

Lemma pivot_step : forall (p : Compile.pcol) loc flds idxs, pinv loc idxs ->
  match Compile.resolve_pivot (map T pts) p with
  | Compile.Err e =>
      exec_block (write {| locals := loc; fields := flds |} (TName "column") (enc_pcol p)) pivot_body = Exc (CompErr e)
  | Compile.Ok i =>
      exists loc', exec_block (write {| locals := loc; fields := flds |} (TName "column") (enc_pcol p)) pivot_body =
                   Ok (Next {| locals := loc'; fields := flds |}) /\ pinv loc' (idxs ++ [i])
  end.
Proof.
  intros p loc flds idxs (Hi & Hn & Hb & Hg). unfold pivot_body, Compile.resolve_pivot.
  destruct p as [z|n]; cbn [enc_pcol].
  - rewrite (visible_length tbl). fold bound. unfold Compile.nat_index.
    assert (Pre : forall rest,
              exec_block (write {| locals := loc; fields := flds |} (TName "column") (PInt z))
                [SIf (XPrim "isinstance:builtins.int" [XName "column"]) rest
                   (match pivot_body with [SIf _ _ b] => b | _ => [] end)] =
              bind (exec_block (write {| locals := loc; fields := flds |} (TName "column") (PInt z)) rest)
                (fun o => match o with Next s1 => Ok (Next s1) | Ret _ _ => Ok o end)).
    { intros rest. rewrite exec_block_cons.
      erewrite exec_if; [|erewrite eval_prim1 by (apply eval_name; cbn [write locals]; apply lookup_update_eq);
                          unfold PInt; rewrite isinstance_int_int; reflexivity|reflexivity].
      cbn [truthy]. destruct (exec_block _ rest) as [[s1|s1 v]| |]; reflexivity. }
    rewrite Pre. clear Pre.
    destruct (Z.leb_spec 1 z), (Z.leb_spec z (Z.of_nat bound)); cbn [andb].
    + eexists. split.
      * run. rewrite Hb. run. rewrite !val_le_int.
        destruct (Z.leb_spec 0 (z - 1)); [|lia]. destruct (Z.leb_spec (Z.of_nat bound) (z - 1)); [lia|].
        run. rewrite Hi. run. reflexivity.
      * unfold pinv. repeat split; lk; try assumption. unfold enc_idxs. rewrite map_app. cbn [map].
        rewrite Z2Nat.id by lia. reflexivity.
    + run. rewrite Hb. run. rewrite !val_le_int.
      destruct (Z.leb_spec 0 (z - 1)); [|lia]. destruct (Z.leb_spec (Z.of_nat bound) (z - 1)); [|lia].
      run. rewrite prim_fstring'. run. rewrite prim_raise'. reflexivity.
    + run. rewrite Hb. run. rewrite !val_le_int.
      destruct (Z.leb_spec 0 (z - 1)); [lia|].
      run. rewrite prim_fstring'. run. rewrite prim_raise'. reflexivity.
    + run. rewrite Hb. run. rewrite !val_le_int.
      destruct (Z.leb_spec 0 (z - 1)); [lia|].
      run. rewrite prim_fstring'. run. rewrite prim_raise'. reflexivity.
  - unfold enc_column, record. cbn [map fst snd].
    destruct (Compile.assoc_last n (Compile.names_of (map T pts))) as [j|] eqn:Ej.
    + eexists. split.
      * run. rewrite isinstance_int_col. run. rewrite isinstance_col_col. run. rewrite Hn. run. rewrite column_name'. run.
        rewrite names_all_get, Ej. run. rewrite Hi. run. reflexivity.
      * unfold pinv. repeat split; lk; try assumption. unfold enc_idxs. rewrite map_app. reflexivity.
    + run. rewrite isinstance_int_col. run. rewrite isinstance_col_col. run. rewrite Hn. run. rewrite column_name'. run.
      rewrite names_all_get, Ej. run. rewrite prim_fstring'. run. rewrite prim_raise'. reflexivity.
Qed.

Lemma pivot_body_split :
  f_body compile_pivot_by = pivot_prefix ++ [SFor "column" (XAttr (XName "pivot_by") "columns") pivot_body] ++ pivot_suffix.
Proof. reflexivity. Qed.

Lemma exec_block_app' : forall a b s,
  exec_block s (a ++ b) = bind (exec_block s a) (fun o => match o with Next s1 => exec_block s1 b | Ret _ _ => Ok o end).
Proof.
  induction a as [|c t IH]; intros b s; [reflexivity|].
  cbn [app]. rewrite !exec_block_cons. destruct (exec s c) as [[s1|s1 v]| |]; cbn [bind]; auto.
Qed.

Ltac crun := repeat (progress (cbn [PyMini.exec_block PyMini.exec PyMini.eval bind read write locals fields lookup update
                                    String.eqb Ascii.eqb Bool.eqb as_bound PNone pv_truthy truthy PBool negb fst snd])).

Lemma mem_nat_enc i g :
  existsb (pv_eqb (PV (VInt (Z.of_nat i)))) (map (fun j => PInt (Z.of_nat j)) g) = Compile.mem_nat i g.
Proof.
  unfold Compile.mem_nat. induction g as [|j t IH]; [reflexivity|]. cbn [map existsb]. rewrite IH. f_equal.
  unfold PInt. cbn [pv_eqb is_null orb rank Z.eqb Pos.eqb]. rewrite val_eq_int.
  destruct (Nat.eqb_spec i j) as [->|N]; [apply Z.eqb_refl|]. apply Z.eqb_neq. lia.
Qed.

Lemma mem_nat_enc' i g :
  existsb (pv_eqb (PV (VInt (Z.of_nat i)))) (map (fun j => PV (VInt (Z.of_nat j))) g) = Compile.mem_nat i g.
Proof. apply mem_nat_enc. Qed.

End Pivot.

Section PivotMain.
Variable call_ref : nat -> list pv -> pv.
Variable tbl : nat -> Compile.cnode.
Variable kids : nat -> list nat.
Variable mro : string -> list string.
Variable msg : string -> list pv -> pv.
Notation prim := (prim_compiler tbl kids mro msg).
Notation eval := (PyMini.eval call_ref prim).
Notation exec_block := (PyMini.exec_block call_ref prim).
Notation T := (T tbl).

Ltac lk := repeat first [rewrite lookup_update_eq | rewrite lookup_update_neq by reflexivity].
Ltac run := repeat (progress (cbn [PyMini.exec_block PyMini.exec PyMini.eval bind read write locals fields pv_truthy truthy
                                   PBool PNone PInt compare1 pv_is_none negb andb orb is_null rank Pos.eqb Z.eqb
                                   method_call String.eqb Ascii.eqb Bool.eqb binop1 binop_builtin fst snd existsb
                                   ValueError as_bound]; lk)).
Ltac crun := repeat (progress (cbn [PyMini.exec_block PyMini.exec PyMini.eval bind read write locals fields lookup update
                                    String.eqb Ascii.eqb Bool.eqb as_bound PNone pv_truthy truthy PBool negb fst snd])).

Definition pivot_env (pb ct g : pv) (pts : list ptarget) : env :=
  [("self", PSelf); ("pivot_by", pb); ("targets", ct); ("group_indexes", g); ("indexes", PList []);
   ("names", PTuple [PStr dict_tag; PList (name_items_all 0 pts)]);
   ("n_targets", PInt (Z.of_nat (length (filter is_named pts))))].

Lemma pivot_prefix_ok : forall (pts : list ptarget) (p1 p2 : Compile.pcol) (g : pv) flds,
  exec_block {| locals := [("self", PSelf); ("pivot_by", enc_pivot_by p1 p2); ("targets", PList (map enc_target pts));
                           ("group_indexes", g)]; fields := flds |} pivot_prefix =
  Ok (Next {| locals := pivot_env (enc_pivot_by p1 p2) (PList (map enc_target pts)) g pts; fields := flds |}).
Proof.
  intros pts p1 p2 g flds. unfold pivot_prefix.
  set (ct := PList (map enc_target pts)). set (pb := enc_pivot_by p1 p2).
  rewrite exec_block_cons.
  erewrite exec_if; [|eapply (eval_compare_one call_ref tbl kids mro msg) with (r := false);
                       [apply eval_name; reflexivity|reflexivity|reflexivity]
                    |reflexivity].
  cbn [truthy]. rewrite exec_block_nil. cbn [bind].
  rewrite exec_block_cons. cbn [PyMini.exec PyMini.eval bind write locals fields update String.eqb Ascii.eqb Bool.eqb].
  rewrite exec_block_cons.
  erewrite exec_assign
    by (erewrite eval_prim1;
        [|erewrite eval_listcomp_gen;
          [|erewrite eval_prim1 by (apply eval_name; reflexivity);
            change (prim "builtins.enumerate" [ct]) with (Ok (A:=pv) (PList (enum_from (Z.of_nat 0) (map enc_target pts))));
            reflexivity];
          fold name_elt; rewrite (comp_names_all call_ref tbl kids mro msg _ pts 0); reflexivity];
        reflexivity).
  cbn [bind]. rewrite exec_block_cons.
  erewrite exec_assign
    by (erewrite eval_prim1;
        [|erewrite eval_listcomp_gen by (apply eval_name; reflexivity);
          rewrite (comp_count call_ref tbl kids mro msg); reflexivity];
        change (prim "builtins.sum" [PList (map (fun _ => PInt 1) (filter is_named pts))])
          with (match sum_ints (map (fun _ : ptarget => PInt 1) (filter is_named pts)) with
                | Some z => Ok (A:=pv) (PInt z) | None => Stuck end);
        rewrite sum_ones; reflexivity).
  cbn [bind]. crun. reflexivity.
Qed.

Theorem pivot_by_src : forall (pts : list ptarget) (p1 p2 : Compile.pcol) (gi : option (list nat)) flds,
  call_method call_ref prim compile_pivot_by flds [enc_pivot_by p1 p2; PList (map enc_target pts); enc_gi gi] =
  match Compile.compile_pivot_by (map T pts) gi (Some (p1, p2)) with
  | Compile.Err e => Exc (CompErr e)
  | Compile.Ok (Some (i1, i2)) => Ok (flds, enc_idxs [i1; i2])
  | Compile.Ok None => Ok (flds, PNone)
  end.
Proof.
  intros pts p1 p2 gi flds. unfold call_method.
  change (f_params compile_pivot_by) with ["self"; "pivot_by"; "targets"; "group_indexes"].
  change (f_gen compile_pivot_by) with false. rewrite pivot_body_split. cbn [bind_params].
  rewrite (exec_block_app' call_ref tbl kids mro msg). rewrite pivot_prefix_ok. cbn [bind].
  rewrite (exec_block_app' call_ref tbl kids mro msg).
  set (env4 := pivot_env (enc_pivot_by p1 p2) (PList (map enc_target pts)) (enc_gi gi) pts).
  rewrite exec_block_cons.
  rewrite (exec_for call_ref prim "column" _ pivot_body _ {| locals := env4; fields := flds |} [enc_pcol p1; enc_pcol p2])
    by (erewrite eval_attr; [|apply eval_name; reflexivity|discriminate]; reflexivity).
  assert (I0 : pinv pts (enc_gi gi) env4 []) by (unfold pinv, env4; repeat split; reflexivity).
  cbn [PyMiniLemmas.for_loop Compile.compile_pivot_by].
  pose proof (pivot_step call_ref tbl kids mro msg pts (enc_gi gi) p1 env4 flds [] I0) as H1.
  destruct (Compile.resolve_pivot (map T pts) p1) as [i1|e1]; cbn [Compile.bind]; [|rewrite H1; reflexivity].
  destruct H1 as (loc1 & -> & I1). cbn [bind app] in *.
  pose proof (pivot_step call_ref tbl kids mro msg pts (enc_gi gi) p2 loc1 flds [i1] I1) as H2.
  destruct (Compile.resolve_pivot (map T pts) p2) as [i2|e2]; cbn [Compile.bind]; [|rewrite H2; reflexivity].
  destruct H2 as (loc2 & -> & (Hi & Hn & Hb & Hg)). cbn [bind app PyMini.exec_block] in *.
  unfold pivot_suffix. unfold enc_idxs in Hi. cbn [map] in Hi.
  assert (X0 : forall a b : pv, index_at [a; b] 0 = Ok a) by reflexivity.
  assert (X1 : forall a b : pv, index_at [a; b] 1 = Ok b) by reflexivity.
  run. rewrite Hi. run. rewrite (prim_getitem tbl kids mro msg), X0. run. rewrite Hi. run.
  rewrite (prim_getitem tbl kids mro msg), X1. run. rewrite val_eq_int.
  destruct (Nat.eqb_spec i1 i2) as [->|N].
  - rewrite Z.eqb_refl. run. rewrite (prim_raise' tbl kids mro msg). reflexivity.
  - destruct (Z.eqb_spec (Z.of_nat i1) (Z.of_nat i2)); [lia|]. run. rewrite Hg.
    destruct gi as [g|]; cbn [enc_gi popt]; run.
    + rewrite Hi. run. rewrite (prim_getitem tbl kids mro msg), X1.
      run. rewrite Hg. cbn [enc_gi popt]. run. unfold PInt. rewrite mem_nat_enc'; try exact pts.
      destruct (Compile.mem_nat i2 g); run;
        first [rewrite Hi; reflexivity | rewrite (prim_raise' tbl kids mro msg); reflexivity].
    + rewrite (prim_raise' tbl kids mro msg). reflexivity.
Qed.

End PivotMain.
