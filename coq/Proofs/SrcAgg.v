(* Tie by translation (group `agg`, Gen/SrcAgg.v): the PyMini terms generated from the SOURCE of
   - query_execute.Allocator (__init__, allocate, create_store),
   - the allocate / initialize / update / finalize protocol of the aggregator classes of query_env.py
     (Count, CountArg, SumInt, SumDecimal, First, Last, Min, Max, resolved through the MRO of the live classes),
   - the four parts of the aggregated branch of query_execute.execute_select (split of the targets, allocate loop, scan
     loop with `aggregates = collections.defaultdict(create)`, output loop with HAVING) and their concatenation
   compute, for every store / row / table, what Model/Exec.v's agg_init, agg_update, store_update, scan_agg, out_values,
   having_ok, finalize and (on the aggregate path) exec_rows compute.

   Objects are encoded as in Model/PrimsAgg.v; compiled expressions are opaque callables of the context and of the
   state of the aggregate nodes (rule A3 of harness/vf/src_agg.py), as children are in Proofs/SrcEval.v. *)
From Coq Require Import String ZArith List Bool Lia.
Import ListNotations.
From Verif Require Import Base.StableSort Base.PyValue Model.Eval Model.Order Model.Exec Model.PyMini Model.PrimsAgg
  Gen.SrcAgg Proofs.PyValueProofs Proofs.PyMiniLemmas Proofs.PyMiniLemmas2.
Open Scope string_scope.
Open Scope Z_scope.
Local Arguments val_le : simpl never.
Local Arguments val_eq : simpl never.
Local Arguments bin : simpl never.

(* ================================================================== encodings of the model store; the dict *)
(* ------------------------------------------------------------------ encodings of the model's store *)
Definition key_pv (k : list value) : pv := PTuple (map PV k).
Definition slots_pv (sl : list value) : pv := PList (map PV sl).
Definition entry_pv (ks : list value * list value) : pv := PTuple [key_pv (fst ks); slots_pv (snd ks)].
Definition dict_pv (s : store) : pv := PList (map entry_pv s).

Lemma pv_eqb_value x y : pv_eqb (PV x) (PV y) = val_eq x y.
Proof.
  cbn [pv_eqb]. unfold val_eq, val_le. rewrite !eqv_lex.
  destruct x, y; cbn [is_null orb andb rank Z.eqb]; try reflexivity;
    try (cbn; reflexivity);
    unfold eqv at 1, on; cbn [rank]; try reflexivity.
Qed.

Lemma pv_eqb_key a : forall b, pv_eqb (key_pv a) (key_pv b) = row_eq a b.
Proof.
  unfold key_pv. induction a as [|x a IH]; intros [|y b]; try reflexivity.
  specialize (IH b). cbn [map row_eq].
  change (pv_eqb (PTuple (PV x :: map PV a)) (PTuple (PV y :: map PV b)))
    with (pv_eqb (PV x) (PV y) && pv_eqb (PTuple (map PV a)) (PTuple (map PV b))).
  rewrite pv_eqb_value, IH. reflexivity.
Qed.

Fixpoint mget (key : list value) (s : store) : option (list value) :=
  match s with
  | [] => None
  | (k, x) :: t => if row_eq k key then Some x else mget key t
  end.
Fixpoint mset (key sl : list value) (s : store) : store :=
  match s with
  | [] => [(key, sl)]
  | (k, x) :: t => if row_eq k key then (k, sl) :: t else (k, x) :: mset key sl t
  end.

Lemma entry_has_pv key ks : entry_has (key_pv key) (entry_pv ks) = row_eq (fst ks) key.
Proof. unfold entry_has, entry_pv. apply pv_eqb_key. Qed.

Lemma dict_contains_pv key s : existsb (entry_has (key_pv key)) (map entry_pv s) = match mget key s with Some _ => true | None => false end.
Proof.
  induction s as [|[k x] t IH]; [reflexivity|]. cbn [map existsb mget]. rewrite entry_has_pv. cbn [fst].
  destruct (row_eq k key); [reflexivity|exact IH].
Qed.

Lemma dict_get_pv key s : dict_get (map entry_pv s) (key_pv key) = option_map slots_pv (mget key s).
Proof.
  induction s as [|[k x] t IH]; [reflexivity|]. cbn [map dict_get mget]. rewrite entry_has_pv. cbn [fst].
  destruct (row_eq k key); [reflexivity|exact IH].
Qed.

Lemma dict_set_pv key sl s : dict_set (map entry_pv s) (key_pv key) (slots_pv sl) = map entry_pv (mset key sl s).
Proof.
  induction s as [|[k x] t IH]; [reflexivity|]. cbn [map dict_set mset]. rewrite entry_has_pv. cbn [fst].
  destruct (row_eq k key); [reflexivity|]. cbn [map]. rewrite IH. reflexivity.
Qed.

Lemma mget_mset_same key sl s : mget key (mset key sl s) = Some sl.
Proof.
  induction s as [|[k x] t IH]; cbn [mset mget]; [now rewrite row_eq_refl|].
  destruct (row_eq k key) eqn:E; cbn [mget]; rewrite E; [reflexivity|exact IH].
Qed.

Lemma mset_mset key a b s : mset key b (mset key a s) = mset key b s.
Proof.
  induction s as [|[k x] t IH]; cbn [mset]; [now rewrite row_eq_refl|].
  destruct (row_eq k key) eqn:E; cbn [mset]; rewrite E; [reflexivity|]. rewrite IH. reflexivity.
Qed.

Definition upd_all (q : query) (r : row) (sl : list value) : list value :=
  map (fun '(a, cur) => agg_update a r cur) (combine (q_aggs q) sl).
Definition init_all (q : query) : list value := map agg_init (q_aggs q).

Lemma upd_all_init q r : upd_all q r (init_all q) = map (fun a => agg_update a r (agg_init a)) (q_aggs q).
Proof.
  unfold upd_all, init_all. induction (q_aggs q) as [|a t IH]; [reflexivity|]. cbn [map combine]. rewrite IH. reflexivity.
Qed.

(* what the translated statements do to the dict, on the model side: find-or-create, read, update, write back *)
Lemma store_update_dict q r key s :
  let s1 := match mget key s with Some _ => s | None => mset key (init_all q) s end in
  exists sl, mget key s1 = Some sl /\ store_update q r key s = mset key (upd_all q r sl) s1.
Proof.
  induction s as [|[k x] t IH]; cbn zeta.
  - cbn [mget mset]. exists (init_all q). rewrite row_eq_refl. split; [reflexivity|].
    cbn [store_update]. rewrite upd_all_init. reflexivity.
  - cbn [mget store_update]. destruct (row_eq k key) eqn:E.
    + exists x. cbn [mget mset]. rewrite E. split; reflexivity.
    + cbn zeta in IH. destruct (mget key t) eqn:G.
      * destruct IH as [sl [H1 H2]]. exists sl. cbn [mget mset]. rewrite E. split; [exact H1|]. rewrite H2. reflexivity.
      * destruct IH as [sl [H1 H2]]. exists sl. cbn [mget mset]. rewrite E. cbn [mget mset]. rewrite E.
        split; [exact H1|]. rewrite H2. reflexivity.
Qed.

(* ================================================================== loops over the aggregate nodes (rules A1, A2) *)
Section NodeLoop.
Variable call_ref : nat -> list pv -> pv.
Variable prim : string -> list pv -> res pv.

Definition nbody (M x t : string) (extras : list string) : list stmt :=
  [SAssign (TName t) (XMethod (TName x) M (XName t :: map XName extras));
   SExpr (XMethod (TName "$acc") "append" [XName x])].

Fixpoint node_fold (f : pv -> pv -> res (pv * pv)) (nodes : list pv) (th : pv) : res (list pv * pv) :=
  match nodes with
  | [] => Ok ([], th)
  | n :: rest => bind (f n th) (fun p => bind (node_fold f rest (snd p)) (fun q => Ok (fst p :: fst q, snd q)))
  end.

Lemma node_loop : forall (M x t : string) (extras : list string) (vs : list pv),
  x <> t -> x <> "$acc" -> t <> "$acc" ->
  (extras = [] /\ vs = []) \/ (exists e v, extras = [e] /\ vs = [v] /\ e <> x /\ e <> t /\ e <> "$acc") ->
  forall nodes acc th loc flds nodes' th',
  lookup t loc = Some th -> lookup "$acc" loc = Some (PList acc) ->
  (forall e v, extras = [e] -> vs = [v] -> lookup e loc = Some v) ->
  node_fold (fun n th => method_call prim M n (th :: vs)) nodes th = Ok (nodes', th') ->
  exists loc',
    for_loop call_ref prim (nbody M x t extras) x {| locals := loc; fields := flds |} nodes =
      Ok (Next {| locals := loc'; fields := flds |}) /\
    lookup t loc' = Some th' /\ lookup "$acc" loc' = Some (PList (acc ++ nodes')) /\
    (forall y, y <> x -> y <> t -> y <> "$acc" -> lookup y loc' = lookup y loc).
Proof.
  intros M x t extras vs Hxt Hxa Hta Hex.
  induction nodes as [|n rest IH]; intros acc th loc flds nodes' th' Ht Ha He Hf.
  - cbn [node_fold] in Hf. injection Hf as <- <-. exists loc. rewrite app_nil_r. repeat split; auto.
  - cbn [node_fold] in Hf.
    destruct (method_call prim M n (th :: vs)) as [[n1 th1]| |] eqn:Em; cbn [bind snd fst] in Hf; try discriminate.
    destruct (node_fold (fun n th => method_call prim M n (th :: vs)) rest th1) as [[ns th2]| |] eqn:Ef;
      cbn [bind snd fst] in Hf; try discriminate.
    injection Hf as <- <-.
    cbn [for_loop]. unfold nbody at 1. rewrite exec_block_cons.
    set (loc1 := update x n loc).
    assert (Ht1 : lookup t loc1 = Some th) by (unfold loc1; rewrite lookup_update_other by congruence; exact Ht).
    assert (Hx1 : lookup x loc1 = Some n) by apply lookup_update_eq.
    set (loc3 := update t th1 (update x n1 loc1)).
    assert (E1 : PyMini.exec call_ref prim (write {| locals := loc; fields := flds |} (TName x) n)
                   (SAssign (TName t) (XMethod (TName x) M (XName t :: map XName extras))) =
                 Ok (Next {| locals := loc3; fields := flds |})).
    { cbn [write locals fields]. fold loc1.
      destruct Hex as [[-> ->]|[e [v [-> [-> [Hex [Het Hea]]]]]]].
      - cbn [map PyMini.exec PyMini.eval read locals fields bind]. rewrite Ht1. cbn [bind locals fields]. rewrite Hx1. cbn [bind].
        rewrite Em. cbn [bind write locals fields]. reflexivity.
      - assert (He1 : lookup e loc1 = Some v)
          by (unfold loc1; rewrite lookup_update_other by congruence; apply (He e v eq_refl eq_refl)).
        cbn [map PyMini.exec PyMini.eval read locals fields bind]. rewrite Ht1. cbn [bind locals fields]. rewrite He1. cbn [bind locals fields].
        rewrite Hx1. cbn [bind]. rewrite Em. cbn [bind write locals fields]. reflexivity. }
    rewrite E1. cbn [bind]. rewrite exec_block_cons.
    assert (Hx3 : lookup x loc3 = Some n1).
    { unfold loc3. rewrite lookup_update_other by congruence. apply lookup_update_eq. }
    assert (Ha3 : lookup "$acc" loc3 = Some (PList acc)).
    { unfold loc3, loc1. rewrite !lookup_update_other by congruence. exact Ha. }
    cbn [PyMini.exec PyMini.eval read locals fields bind]. rewrite Hx3. cbn [bind locals fields]. rewrite Ha3. cbn [bind].
    cbn [method_call String.eqb Ascii.eqb Bool.eqb bind write locals fields exec_block].
    set (loc4 := update "$acc" (PList (acc ++ [n1])%list) loc3).
    destruct (IH (acc ++ [n1])%list th1 loc4 flds ns th2) as [loc' [El [Lt [La Lf]]]].
    + unfold loc4, loc3. rewrite lookup_update_other by congruence. apply lookup_update_eq.
    + apply lookup_update_eq.
    + intros e v -> ->. destruct Hex as [[Hx _]|[e' [v' [Hx [Hv [Hex [Het Hea]]]]]]]; [discriminate|].
      injection Hx as <-. injection Hv as <-.
      unfold loc4, loc3, loc1. rewrite !lookup_update_other by congruence. apply (He e v eq_refl eq_refl).
    + exact Ef.
    + exists loc'. split; [exact El|]. split; [exact Lt|]. split.
      * rewrite La, <- app_assoc. reflexivity.
      * intros y Hy1 Hy2 Hy3. rewrite (Lf y Hy1 Hy2 Hy3). unfold loc4, loc3, loc1.
        rewrite !lookup_update_other by congruence. reflexivity.
Qed.
End NodeLoop.

(* ================================================================== part 1: Allocator and the protocol methods *)
Definition is_err (v : value) : bool := match v with VErr _ => true | _ => false end.

Definition classes : list aggcls := map snd agg_classes.
Lemma agg_class_names :
  map (fun x => fst (fst (fst x))) agg_classes =
  ["beanquery.query_env.Count"; "beanquery.query_env.CountArg"; "beanquery.query_env.SumInt";
   "beanquery.query_env.SumDecimal"; "beanquery.query_env.First"; "beanquery.query_env.Last";
   "beanquery.query_env.Min"; "beanquery.query_env.Max"].
Proof. reflexivity. Qed.

Section Methods.
Variable call_ref : nat -> list pv -> pv.
Notation p1 := (prims1 call_ref alloc_init alloc_allocate alloc_create_store).
Notation p2 := (prims2 call_ref alloc_init alloc_allocate alloc_create_store classes).

Lemma new_allocator : p2 "new:beanquery.query_execute.Allocator" [] = Ok (alloc_pv (PInt 0)).
Proof. reflexivity. Qed.

Lemma alloc_allocate_src : forall n : Z, p2 "method:allocate" [alloc_pv (PInt n)] = Ok (PTuple [alloc_pv (PInt (n + 1)); PInt n]).
Proof. intros n. reflexivity. Qed.

Lemma repeat_none : forall n : nat, concat (repeat [PNone] n) = map PV (repeat VNull n).
Proof. induction n; cbn; [reflexivity|]. f_equal. exact IHn. Qed.

Lemma alloc_create_store_src : forall n : nat,
  p2 "call:create_store" [alloc_pv (PInt (Z.of_nat n))] = Ok (PList (map PV (repeat VNull n))).
Proof. intros n. cbn. rewrite Nat2Z.id, repeat_none. reflexivity. Qed.

Lemma set_item_nat (l : list pv) (i : nat) v : (i < length l)%nat -> set_item l (Z.of_nat i) v = Ok (PList (set_nth i v l)).
Proof.
  intros H. unfold set_item.
  assert (E1 : (Z.of_nat i <? 0)%Z = false) by (apply Z.ltb_ge; lia).
  assert (E2 : (Z.of_nat (length l) <=? Z.of_nat i)%Z = false) by (apply Z.leb_gt; lia).
  rewrite E1. cbv iota zeta. rewrite E1, E2. cbn [orb]. rewrite Nat2Z.id. reflexivity.
Qed.
Lemma map_set_nth {A B} (f : A -> B) x : forall l i, map f (set_nth i x l) = set_nth i (f x) (map f l).
Proof. induction l as [|y t IH]; intros [|i]; cbn; try reflexivity. rewrite IH. reflexivity. Qed.
Lemma nth_map_PV slots i : nth i (map PV slots) PNone = PV (nth i slots VNull).
Proof. change PNone with (PV VNull). apply map_nth. Qed.

Local Arguments set_item : simpl never.
Local Arguments index_at : simpl never.

Definition anode (c i kd : nat) (o v : pv) : pv := node_pv c (PInt (Z.of_nat i)) (PRef kd) o v.
Definition aflds (i kd : nat) (o v : pv) : env := node_fields (PInt (Z.of_nat i)) (PRef kd) o v.

(* EvalAggregator.initialize: store[self.handle] = self.dtype(); self.value = None *)
Lemma initialize_default_src : forall (i kd : nat) o v (slots : list value) z,
  (i < length slots)%nat -> call_ref kd [] = PV z -> is_err z = false ->
  call_method call_ref p1 aggm_EvalAggregator_initialize (aflds i kd o v) [PList (map PV slots)] =
  Ok (aflds i kd o PNone, PList (map PV (set_nth i z slots))).
Proof.
  intros i kd o v slots z Hi Hd He.
  cbn. rewrite Hd. destruct z; try discriminate; cbn;
    rewrite set_item_nat by (rewrite map_length; exact Hi); cbn; rewrite map_set_nth; reflexivity.
Qed.

Lemma initialize_none_src : forall f (i kd : nat) o v (slots : list value),
  f = aggm_First_initialize \/ f = aggm_Last_initialize \/ f = aggm_Min_initialize \/ f = aggm_Max_initialize ->
  (i < length slots)%nat ->
  call_method call_ref p1 f (aflds i kd o v) [PList (map PV slots)] =
  Ok (aflds i kd o v, PList (map PV (set_nth i VNull slots))).
Proof.
  intros f i kd o v slots Hf Hi.
  destruct Hf as [->|[->|[->| ->]]]; cbn;
    rewrite set_item_nat by (rewrite map_length; exact Hi); cbn; rewrite map_set_nth; reflexivity.
Qed.

Variable ctx_of : row -> pv.
Notation mev := Verif.Model.Eval.eval.

(* the operand of the aggregate: an opaque compiled expression (as in Proofs/SrcEval.v) whose value is not an exception *)
Definition operand_on (r : row) (o : pv) (e : enode) : Prop :=
  exists ko, o = PList [PRef ko] /\ call_ref ko [ctx_of r] = PV (mev r [] e) /\ is_err (mev r [] e) = false.

Lemma index_at_0 (x : pv) l : index_at (x :: l) 0 = Ok x.
Proof. reflexivity. Qed.

Ltac mstep Hi :=
  repeat (cbn; rewrite ?index_at_0; rewrite ?(index_at_nat _ _ PNone), ?nth_map_PV, ?set_item_nat by (rewrite ?map_length; exact Hi)).
Ltac fin := rewrite ?map_set_nth; reflexivity.

Definition upd_result (i kd : nat) o v slots (new : value) : res (env * pv) :=
  Ok (aflds i kd o v, PList (map PV (set_nth i new slots))).

Lemma set_nth_same {A} (d : A) : forall l i, set_nth i (nth i l d) l = l.
Proof. induction l as [|y t IH]; intros [|i]; cbn; try reflexivity. rewrite IH. reflexivity. Qed.

Lemma update_count_src : forall (i kd : nat) o v (slots : list value) r e,
  (i < length slots)%nat ->
  call_method call_ref p1 aggm_Count_update (aflds i kd o v) [PList (map PV slots); ctx_of r] =
  upd_result i kd o v slots (agg_update {| afun := ACountStar; aarg := e |} r (nth i slots VNull)).
Proof.
  intros i kd o v slots r e Hi. unfold upd_result, agg_update. cbn [afun aarg].
  mstep Hi. destruct (nth i slots VNull); mstep Hi; fin.
Qed.

Lemma update_countarg_src : forall (i kd : nat) o v (slots : list value) r e,
  (i < length slots)%nat -> operand_on r o e ->
  call_method call_ref p1 aggm_CountArg_update (aflds i kd o v) [PList (map PV slots); ctx_of r] =
  upd_result i kd o v slots (agg_update {| afun := ACount; aarg := e |} r (nth i slots VNull)).
Proof.
  intros i kd o v slots r e Hi [ko [-> [Hc He]]]. unfold upd_result, agg_update. cbn [afun aarg].
  mstep Hi. rewrite Hc. destruct (mev r [] e) eqn:Ev; try discriminate; mstep Hi;
    try (rewrite set_nth_same; fin);
    destruct (nth i slots VNull); mstep Hi; fin.
Qed.

Lemma update_sum_src : forall f (i kd : nat) o v (slots : list value) r e z,
  f = aggm_SumInt_update \/ f = aggm_SumDecimal_update ->
  (i < length slots)%nat -> operand_on r o e ->
  call_method call_ref p1 f (aflds i kd o v) [PList (map PV slots); ctx_of r] =
  upd_result i kd o v slots (agg_update {| afun := ASum z; aarg := e |} r (nth i slots VNull)).
Proof.
  intros f i kd o v slots r e z Hf Hi [ko [-> [Hc He]]]. unfold upd_result, agg_update. cbn [afun aarg].
  destruct Hf as [-> | ->];
  (mstep Hi; rewrite Hc; destruct (mev r [] e) eqn:Ev; try discriminate; mstep Hi;
    try (rewrite set_nth_same; fin);
    destruct (nth i slots VNull); mstep Hi; fin).
Qed.

Lemma update_first_src : forall (i kd : nat) o v (slots : list value) r e,
  (i < length slots)%nat -> operand_on r o e ->
  call_method call_ref p1 aggm_First_update (aflds i kd o v) [PList (map PV slots); ctx_of r] =
  upd_result i kd o v slots (agg_update {| afun := AFirst; aarg := e |} r (nth i slots VNull)).
Proof.
  intros i kd o v slots r e Hi [ko [-> [Hc He]]]. unfold upd_result, agg_update. cbn [afun aarg].
  mstep Hi. destruct (nth i slots VNull) eqn:En; mstep Hi; try (rewrite <- En, set_nth_same; fin).
  rewrite Hc. destruct (mev r [] e) eqn:Ev; try discriminate; mstep Hi; fin.
Qed.

Lemma update_last_src : forall (i kd : nat) o v (slots : list value) r e,
  (i < length slots)%nat -> operand_on r o e ->
  call_method call_ref p1 aggm_Last_update (aflds i kd o v) [PList (map PV slots); ctx_of r] =
  upd_result i kd o v slots (agg_update {| afun := ALast; aarg := e |} r (nth i slots VNull)).
Proof.
  intros i kd o v slots r e Hi [ko [-> [Hc He]]]. unfold upd_result, agg_update. cbn [afun aarg].
  mstep Hi. rewrite Hc. destruct (mev r [] e) eqn:Ev; try discriminate; mstep Hi; fin.
Qed.

(* min / max compare the new value with the current extremum: the two must be comparable (same kind), which the
   typed argument column guarantees *)
Definition comparable (x y : value) : Prop := is_null x = false -> is_null y = false -> rank x = rank y.

Lemma update_min_src : forall (i kd : nat) o v (slots : list value) r e,
  (i < length slots)%nat -> operand_on r o e -> comparable (mev r [] e) (nth i slots VNull) ->
  call_method call_ref p1 aggm_Min_update (aflds i kd o v) [PList (map PV slots); ctx_of r] =
  upd_result i kd o v slots (agg_update {| afun := AMin; aarg := e |} r (nth i slots VNull)).
Proof.
  intros i kd o v slots r e Hi [ko [-> [Hc He]]] Hcmp. unfold upd_result, agg_update, val_lt. cbn [afun aarg].
  mstep Hi. rewrite Hc. unfold comparable in Hcmp.
  destruct (mev r [] e) eqn:Ev; try discriminate; mstep Hi; try (rewrite set_nth_same; fin);
    destruct (nth i slots VNull) eqn:En; mstep Hi; try fin;
    try (specialize (Hcmp eq_refl eq_refl); discriminate Hcmp);
    match goal with |- context [val_le ?x ?y] => destruct (val_le x y) end; mstep Hi;
    try fin; rewrite <- En, set_nth_same; fin.
Qed.

Lemma update_max_src : forall (i kd : nat) o v (slots : list value) r e,
  (i < length slots)%nat -> operand_on r o e -> comparable (mev r [] e) (nth i slots VNull) ->
  call_method call_ref p1 aggm_Max_update (aflds i kd o v) [PList (map PV slots); ctx_of r] =
  upd_result i kd o v slots (agg_update {| afun := AMax; aarg := e |} r (nth i slots VNull)).
Proof.
  intros i kd o v slots r e Hi [ko [-> [Hc He]]] Hcmp. unfold upd_result, agg_update, val_lt. cbn [afun aarg].
  mstep Hi. rewrite Hc. unfold comparable in Hcmp.
  destruct (mev r [] e) eqn:Ev; try discriminate; mstep Hi; try (rewrite set_nth_same; fin);
    destruct (nth i slots VNull) eqn:En; mstep Hi; try fin;
    try (specialize (Hcmp eq_refl eq_refl); discriminate Hcmp);
    match goal with |- context [val_le ?x ?y] => destruct (val_le x y) end; mstep Hi;
    try fin; rewrite <- En, set_nth_same; fin.
Qed.

(* finalize parks store[handle] on the node; __call__ returns the parked value: Eval's clause EAgg h = nth h slots *)
Lemma finalize_call_src : forall (i kd : nat) o v ctx (slots : list value),
  (i < length slots)%nat ->
  call_method call_ref p1 aggm_EvalAggregator_finalize (aflds i kd o v) [PList (map PV slots)] =
    Ok (aflds i kd o (PV (nth i slots VNull)), PList (map PV slots)) /\
  call_method call_ref p1 aggm_EvalAggregator_call (aflds i kd o (PV (nth i slots VNull))) [ctx] =
    Ok (aflds i kd o (PV (nth i slots VNull)), PV (mev [] slots (EAgg i))).
Proof.
  intros i kd o v ctx slots Hi. split; [|reflexivity]. mstep Hi. reflexivity.
Qed.
End Methods.

(* ================================================================== part 3: the scan loop *)

Definition lo_names : list string :=
  ["builtins.enumerate"; "builtins.tuple"; "builtins.iter"; "dict.new"; "dict.contains"; "dict.get"; "dict.set";
   "call:items"; "attr:table"; "attr:having_index"].

Ltac lk := repeat (rewrite lookup_update_eq || (rewrite lookup_update_neq by reflexivity)).
Ltac st := repeat (progress (cbn [PyMini.exec PyMini.eval bind read write locals fields String.append]; lk)).

Lemma last_cons_default {A} : forall (l : list A) a d, last (a :: l) d = last l a.
Proof.
  induction l as [|b l IH]; intros a d; [reflexivity|].
  change (last (a :: b :: l) d) with (last (b :: l) d). rewrite (IH b d), (IH b a). reflexivity.
Qed.

Section Scan.
Variable call_ref : nat -> list pv -> pv.
Variable prim : string -> list pv -> res pv.
Variable ctx_of : row -> pv.
Variable q : query.
Variable g : list nat.
Variable table : list row.
Variable mk_nodes : list pv -> list pv.   (* the aggregate nodes (handles allocated) as a function of the values parked on them *)
Variable allocv : pv.
Variable good : list value -> Prop.        (* an invariant of the slots of every store (typing of the accumulators) *)
Notation mev := Verif.Model.Eval.eval.
Notation n := (length (q_aggs q)).

Hypothesis Hlo : forall name args, In name lo_names -> prim name args = prims0 name args.
Hypothesis Hcreate : prim "call:create_store" [allocv] = Ok (slots_pv (repeat VNull n)).
Hypothesis Hinit : forall vals, length vals = n -> exists vals', length vals' = n /\
  node_fold (fun nd th => method_call prim "initialize" nd [th]) (mk_nodes vals) (slots_pv (repeat VNull n)) =
  Ok (mk_nodes vals', slots_pv (init_all q)).
Hypothesis Hupd : forall vals r sl, length vals = n -> In r table -> good sl ->
  node_fold (fun nd th => method_call prim "update" nd [th; ctx_of r]) (mk_nodes vals) (slots_pv sl) =
  Ok (mk_nodes vals, slots_pv (upd_all q r sl)).
Hypothesis Hgood_init : good (init_all q).
Hypothesis Hgood_upd : forall r sl, In r table -> good sl -> good (upd_all q r sl).
Hypothesis Hallocv : allocv <> PSelf.

(* a compiled expression is an opaque callable of the context and of the state of the aggregate nodes (rule A3);
   WHERE and the grouping expressions contain no aggregate: their value does not depend on that state *)
Definition expr_on (r : row) (k : nat) (v : value) : Prop :=
  forall vals, call_ref k [ctx_of r; PList (mk_nodes vals)] = PV v /\ is_err v = false.

Definition where_ok (cw : pv) : Prop :=
  match q_where q with
  | None => cw = PNone
  | Some w => exists k, cw = PRef k /\ forall r, In r table -> expr_on r k (mev r [] w)
  end.

Definition keys_ok (gks : list nat) : Prop :=
  forall r, In r table -> Forall2 (expr_on r) gks (group_key q g r).

Definition create_block : list stmt :=
  [SAssign (TName "create$store") (XCallMethod (XName "allocator") "create_store" []);
   SAssign (TName "$acc") (XList []);
   SFor "create$c_expr" (XName "c_aggregate_exprs") (nbody "initialize" "create$c_expr" "create$store" []);
   SAssign (TName "c_aggregate_exprs") (XName "$acc");
   SAssign (TName "create$ret") (XName "create$store");
   SAssign (TName "aggregates") (XPrim "dict.set" [XName "aggregates"; XName "key"; XName "create$ret"])].

Definition frame (keep : list string) (loc loc' : env) : Prop :=
  forall y, In y keep -> lookup y loc' = lookup y loc.

Definition scan_vars : list string :=
  ["query"; "c_where"; "c_nonaggregate_exprs"; "allocator"; "context"; "key"; "c_target_exprs"; "group_indexes"; "rows"].
Definition row_keep : list string :=
  ["query"; "c_where"; "c_nonaggregate_exprs"; "allocator"; "context"; "c_target_exprs"; "group_indexes"; "rows"].

Lemma create_block_src : forall (s : store) key vals loc flds,
  length vals = n ->
  lookup "allocator" loc = Some allocv -> lookup "c_aggregate_exprs" loc = Some (PList (mk_nodes vals)) ->
  lookup "aggregates" loc = Some (dict_pv s) -> lookup "key" loc = Some (key_pv key) ->
  exists loc' vals',
    exec_block call_ref prim {| locals := loc; fields := flds |} create_block = Ok (Next {| locals := loc'; fields := flds |}) /\
    length vals' = n /\
    lookup "c_aggregate_exprs" loc' = Some (PList (mk_nodes vals')) /\
    lookup "aggregates" loc' = Some (dict_pv (mset key (init_all q) s)) /\
    frame scan_vars loc loc'.
Proof.
  intros s key vals loc flds Hv Hal Hn Hag Hk.
  destruct (Hinit vals Hv) as [vals' [Hv' Hf]].
  unfold create_block. rewrite exec_block_cons.
  cbn [PyMini.exec PyMini.eval bind read locals fields]. rewrite Hal. cbn [bind String.append]. rewrite Hcreate. cbn [bind write locals fields].
  rewrite exec_block_cons. cbn [PyMini.exec PyMini.eval bind write locals fields].
  rewrite exec_block_cons.
  set (loc2 := update "$acc" (PList []) (update "create$store" (slots_pv (repeat VNull n)) loc)).
  rewrite (exec_for call_ref prim "create$c_expr" _ _ {| locals := loc2; fields := flds |} {| locals := loc2; fields := flds |} (mk_nodes vals)).
  2:{ apply eval_name. cbn [locals]. unfold loc2. lk. exact Hn. }
  destruct (node_loop call_ref prim "initialize" "create$c_expr" "create$store" [] []
              ltac:(discriminate) ltac:(discriminate) ltac:(discriminate) (or_introl (conj eq_refl eq_refl))
              (mk_nodes vals) [] (slots_pv (repeat VNull n)) loc2 flds (mk_nodes vals') (slots_pv (init_all q)))
    as [loc3 [El [Lt [La Lf]]]].
  { unfold loc2. lk. reflexivity. }
  { unfold loc2. lk. reflexivity. }
  { intros e v H. discriminate H. }
  { exact Hf. }
  rewrite El. cbn [bind]. cbn [app] in La.
  assert (F3 : forall y, y <> "create$c_expr" -> y <> "create$store" -> y <> "$acc" -> lookup y loc3 = lookup y loc).
  { intros y H1 H2 H3. rewrite (Lf y H1 H2 H3). unfold loc2. rewrite !lookup_update_other by congruence. reflexivity. }
  rewrite exec_block_cons. st. rewrite La. st.
  rewrite exec_block_cons. st. rewrite Lt. st.
  rewrite exec_block_cons. st.
  rewrite (F3 "aggregates") by discriminate. rewrite Hag. st.
  rewrite (F3 "key") by discriminate. rewrite Hk. st.
  rewrite Hlo by (cbn; tauto). cbn [prims0 String.eqb Ascii.eqb Bool.eqb dict_pv].
  rewrite dict_set_pv. cbn [bind write locals fields exec_block].
  eexists. exists vals'. split; [reflexivity|]. split; [exact Hv'|]. split; [lk; reflexivity|]. split; [lk; reflexivity|].
  intros y Hy. cbn in Hy. 
  repeat (destruct Hy as [<-|Hy]; [lk; apply F3; discriminate|]). destruct Hy.
Qed.

Definition key_expr : expr :=
  XPrim "builtins.tuple"
    [XListComp (XCall (XName "c_expr") [XName "context"; XName "c_aggregate_exprs"] None) "c_expr"
       (XName "c_nonaggregate_exprs") None].

Definition row_stmts : list stmt :=
  [SAssign (TName "key") key_expr;
   SIf (XNot (XPrim "dict.contains" [XName "aggregates"; XName "key"])) create_block [];
   SAssign (TName "store") (XPrim "dict.get" [XName "aggregates"; XName "key"]);
   SAssign (TName "$acc") (XList []);
   SFor "c_expr" (XName "c_aggregate_exprs") (nbody "update" "c_expr" "store" ["context"]);
   SAssign (TName "c_aggregate_exprs") (XName "$acc");
   SAssign (TName "aggregates") (XPrim "dict.set" [XName "aggregates"; XName "key"; XName "store"])].

Definition good_store (s : store) : Prop := Forall (fun ks => good (snd ks)) s.

Lemma mget_good key : forall s sl, good_store s -> mget key s = Some sl -> good sl.
Proof.
  induction s as [|[k x] t IH]; intros sl Hg Hm; [discriminate|]. cbn [mget] in Hm. inversion Hg; subst.
  destruct (row_eq k key); [injection Hm as <-; assumption|]. apply IH; assumption.
Qed.
Lemma mset_good key sl : forall s, good_store s -> good sl -> good_store (mset key sl s).
Proof.
  unfold good_store. induction s as [|[k x] t IH]; intros Hg Hs; cbn [mset].
  - constructor; [exact Hs|constructor].
  - inversion Hg as [|? ? H1 H2]; subst. destruct (row_eq k key).
    + constructor; [exact Hs|exact H2].
    + constructor; [exact H1|apply IH; assumption].
Qed.

Lemma keys_comp : forall r vals gks (ks : list value) loc flds,
  Forall2 (expr_on r) gks ks -> lookup "context" loc = Some (ctx_of r) ->
  lookup "c_aggregate_exprs" loc = Some (PList (mk_nodes vals)) ->
  map_res (fun v => bind (PyMini.eval call_ref prim (write {| locals := loc; fields := flds |} (TName "c_expr") v)
                            (XCall (XName "c_expr") [XName "context"; XName "c_aggregate_exprs"] None)) (fun p => Ok (snd p)))
          (map PRef gks) = Ok (map PV ks).
Proof.
  intros r vals gks ks loc flds Hc Hctx Hn. induction Hc as [|k v gks ks Hk Hcs IH]; [reflexivity|].
  cbn [map map_res]. destruct (Hk vals) as [Hcall Herr].
  assert (E : bind (PyMini.eval call_ref prim (write {| locals := loc; fields := flds |} (TName "c_expr") (PRef k))
                      (XCall (XName "c_expr") [XName "context"; XName "c_aggregate_exprs"] None)) (fun p => Ok (snd p)) = Ok (PV v)).
  { st. rewrite Hctx. st. rewrite Hn. st. cbn [do_call]. rewrite Hcall. destruct v; try discriminate; reflexivity. }
  rewrite E. cbn [bind]. rewrite IH. reflexivity.
Qed.

Lemma row_stmts_src : forall (s : store) vals gks r loc flds,
  In r table -> length vals = n -> good_store s -> keys_ok gks ->
  lookup "allocator" loc = Some allocv -> lookup "c_aggregate_exprs" loc = Some (PList (mk_nodes vals)) ->
  lookup "aggregates" loc = Some (dict_pv s) -> lookup "context" loc = Some (ctx_of r) ->
  lookup "c_nonaggregate_exprs" loc = Some (PList (map PRef gks)) ->
  exists loc' vals',
    exec_block call_ref prim {| locals := loc; fields := flds |} row_stmts = Ok (Next {| locals := loc'; fields := flds |}) /\
    length vals' = n /\
    lookup "c_aggregate_exprs" loc' = Some (PList (mk_nodes vals')) /\
    lookup "aggregates" loc' = Some (dict_pv (store_update q r (group_key q g r) s)) /\
    good_store (store_update q r (group_key q g r) s) /\
    frame row_keep loc loc'.
Proof.
  intros s vals gks r loc flds Hr Hv Hgs Hks Hal Hn Hag Hctx Hne.
  set (key := group_key q g r).
  unfold row_stmts. rewrite exec_block_cons.
  (* key = tuple(c_expr(context) for c_expr in c_nonaggregate_exprs) *)
  assert (Ek : PyMini.eval call_ref prim {| locals := loc; fields := flds |} key_expr =
               Ok ({| locals := loc; fields := flds |}, key_pv key)).
  { unfold key_expr.
    rewrite (eval_prim1 call_ref prim "builtins.tuple" _ _ {| locals := loc; fields := flds |} (PList (map PV key))).
    - rewrite Hlo by (cbn; tauto). reflexivity.
    - rewrite (eval_listcomp call_ref prim _ _ _ _ {| locals := loc; fields := flds |} (map PRef gks)
                 (eval_name call_ref prim {| locals := loc; fields := flds |} "c_nonaggregate_exprs" _ Hne)).
      rewrite (keys_comp r vals gks key loc flds (Hks r Hr) Hctx Hn). reflexivity. }
  rewrite (exec_assign call_ref prim _ _ _ _ _ Ek). cbn [bind write locals fields].
  set (loc1 := update "key" (key_pv key) loc).
  assert (Hk1 : lookup "key" loc1 = Some (key_pv key)) by apply lookup_update_eq.
  assert (Hal1 : lookup "allocator" loc1 = Some allocv) by (unfold loc1; lk; exact Hal).
  assert (Hn1 : lookup "c_aggregate_exprs" loc1 = Some (PList (mk_nodes vals))) by (unfold loc1; lk; exact Hn).
  assert (Hag1 : lookup "aggregates" loc1 = Some (dict_pv s)) by (unfold loc1; lk; exact Hag).
  (* if key not in aggregates: create *)
  rewrite exec_block_cons.
  destruct (store_update_dict q r key s) as [sl [Hget Hupdate]]. cbn zeta in Hget, Hupdate.
  set (s1 := match mget key s with Some _ => s | None => mset key (init_all q) s end) in *.
  assert (Estep2 : exists loc2 vals2,
            PyMini.exec call_ref prim {| locals := loc1; fields := flds |}
              (SIf (XNot (XPrim "dict.contains" [XName "aggregates"; XName "key"])) create_block []) =
            Ok (Next {| locals := loc2; fields := flds |}) /\ length vals2 = n /\
            lookup "c_aggregate_exprs" loc2 = Some (PList (mk_nodes vals2)) /\
            lookup "aggregates" loc2 = Some (dict_pv s1) /\ frame scan_vars loc1 loc2).
  { assert (Ec : PyMini.eval call_ref prim {| locals := loc1; fields := flds |}
                   (XNot (XPrim "dict.contains" [XName "aggregates"; XName "key"])) =
                 Ok ({| locals := loc1; fields := flds |},
                     PBool (negb (match mget key s with Some _ => true | None => false end)))).
    { st. rewrite Hag1. st. rewrite Hk1. st. rewrite Hlo by (cbn; tauto).
      cbn [prims0 String.eqb Ascii.eqb Bool.eqb dict_pv]. rewrite dict_contains_pv. reflexivity. }
    rewrite (exec_if call_ref prim _ _ _ _ _ _ _ Ec eq_refl).
    unfold s1. destruct (mget key s) eqn:G; cbn [negb].
    - exists loc1, vals. split; [reflexivity|]. split; [exact Hv|]. split; [exact Hn1|]. split; [exact Hag1|].
      intros y _. reflexivity.
    - destruct (create_block_src s key vals loc1 flds Hv Hal1 Hn1 Hag1 Hk1) as [loc2 [vals2 [E [L1 [L2 [L3 L4]]]]]].
      exists loc2, vals2. auto. }
  destruct Estep2 as [loc2 [vals2 [E2 [Hv2 [Hn2 [Hag2 F2]]]]]]. rewrite E2. cbn [bind].
  assert (Hk2 : lookup "key" loc2 = Some (key_pv key)) by (rewrite (F2 "key") by (cbn; tauto); exact Hk1).
  assert (Hc2 : lookup "context" loc2 = Some (ctx_of r)).
  { rewrite (F2 "context") by (cbn; tauto). unfold loc1. lk. exact Hctx. }
  (* store = aggregates[key] *)
  rewrite exec_block_cons. st. rewrite Hag2. st. rewrite Hk2. st. rewrite Hlo by (cbn; tauto).
  cbn [prims0 String.eqb Ascii.eqb Bool.eqb dict_pv]. rewrite dict_get_pv, Hget. cbn [option_map]. st.
  rewrite exec_block_cons. st.
  set (loc4 := update "$acc" (PList []) (update "store" (slots_pv sl) loc2)).
  assert (Hgsl : good sl).
  { apply (mget_good key s1 sl); [|exact Hget]. unfold s1. destruct (mget key s); [exact Hgs|].
    apply mset_good; assumption. }
  rewrite exec_block_cons.
  rewrite (exec_for call_ref prim "c_expr" _ _ {| locals := loc4; fields := flds |} {| locals := loc4; fields := flds |} (mk_nodes vals2)).
  2:{ apply eval_name. cbn [locals]. unfold loc4. lk. exact Hn2. }
  assert (Hex : (["context"] = [] /\ [ctx_of r] = []) \/
                (exists e v, ["context"] = [e] /\ [ctx_of r] = [v] /\ e <> "c_expr" /\ e <> "store" /\ e <> "$acc")).
  { right. exists "context", (ctx_of r). repeat split; discriminate. }
  destruct (node_loop call_ref prim "update" "c_expr" "store" ["context"] [ctx_of r]
              ltac:(discriminate) ltac:(discriminate) ltac:(discriminate) Hex
              (mk_nodes vals2) [] (slots_pv sl) loc4 flds (mk_nodes vals2) (slots_pv (upd_all q r sl)))
    as [loc5 [El [Lt [La Lf]]]].
  { unfold loc4. lk. reflexivity. }
  { unfold loc4. lk. reflexivity. }
  { intros e v He Hvv. injection He as <-. injection Hvv as <-. unfold loc4. lk. exact Hc2. }
  { apply Hupd; assumption. }
  rewrite El. cbn [bind]. cbn [app] in La.
  assert (F5 : forall y, y <> "c_expr" -> y <> "store" -> y <> "$acc" -> lookup y loc5 = lookup y loc2).
  { intros y H1 H2 H3. rewrite (Lf y H1 H2 H3). unfold loc4. rewrite !lookup_update_other by congruence. reflexivity. }
  rewrite exec_block_cons. st. rewrite La. st.
  rewrite exec_block_cons. st.
  rewrite (F5 "aggregates") by discriminate. rewrite Hag2. st.
  rewrite (F5 "key") by discriminate. rewrite Hk2. st. rewrite Lt. st.
  rewrite Hlo by (cbn; tauto). cbn [prims0 String.eqb Ascii.eqb Bool.eqb dict_pv]. rewrite dict_set_pv.
  cbn [bind write locals fields exec_block]. rewrite <- Hupdate.
  eexists. exists vals2. split; [reflexivity|]. split; [exact Hv2|]. split; [lk; reflexivity|]. split; [lk; reflexivity|].
  split.
  - rewrite Hupdate. apply mset_good.
    + unfold s1. destruct (mget key s); [exact Hgs|]. apply mset_good; assumption.
    + apply Hgood_upd; assumption.
  - intros y Hy. cbn in Hy.
    repeat (destruct Hy as [<-|Hy];
            [lk; rewrite F5 by discriminate; rewrite (F2 _) by (cbn; tauto); unfold loc1; lk; reflexivity|]).
    destruct Hy.
Qed.

Definition scan_cond : expr :=
  XBoolOp false [XCompare (XName "c_where") [(CIs, XConst PNone)];
                 XCall (XName "c_where") [XName "context"; XName "c_aggregate_exprs"] None].
Definition scan_body : list stmt := [SIf scan_cond row_stmts []].

Lemma agg_scan_shape :
  f_body agg_scan = [SAssign (TName "context") (XConst PNone); SAssign (TName "aggregates") (XPrim "dict.new" []);
                     SFor "context" (XAttr (XName "query") "table") scan_body].
Proof. reflexivity. Qed.

Definition pass_vars : list string := ["query"; "c_target_exprs"; "group_indexes"; "rows"].

Lemma scan_loop : forall (cw : pv) (gks : list nat) (rows : list row), incl rows table ->
  where_ok cw -> keys_ok gks ->
  forall (s : store) vals c0 loc flds,
  length vals = n -> good_store s ->
  lookup "c_where" loc = Some cw -> lookup "allocator" loc = Some allocv ->
  lookup "c_nonaggregate_exprs" loc = Some (PList (map PRef gks)) ->
  lookup "c_aggregate_exprs" loc = Some (PList (mk_nodes vals)) ->
  lookup "aggregates" loc = Some (dict_pv s) -> lookup "context" loc = Some c0 ->
  exists loc' vals',
    for_loop call_ref prim scan_body "context" {| locals := loc; fields := flds |} (map ctx_of rows) =
      Ok (Next {| locals := loc'; fields := flds |}) /\
    length vals' = n /\
    lookup "c_aggregate_exprs" loc' = Some (PList (mk_nodes vals')) /\
    lookup "aggregates" loc' = Some (dict_pv (scan_agg q g s rows)) /\
    lookup "context" loc' = Some (last (map ctx_of rows) c0) /\
    frame pass_vars loc loc'.
Proof.
  intros cw gks rows. induction rows as [|r t IH]; intros Hin Hw Hks s vals c0 loc flds Hv Hgs Hcw Hal Hne Hn Hag Hc.
  - exists loc, vals. cbn [map for_loop scan_agg last]. repeat split; auto.
  - assert (Hr : In r table) by (apply Hin; left; reflexivity).
    assert (Hin' : incl t table) by (intros x Hx; apply Hin; right; exact Hx).
    cbn [map for_loop scan_agg]. cbn [write locals fields].
    set (loc1 := update "context" (ctx_of r) loc).
    assert (Hc1 : lookup "context" loc1 = Some (ctx_of r)) by apply lookup_update_eq.
    assert (Hcw1 : lookup "c_where" loc1 = Some cw) by (unfold loc1; lk; exact Hcw).
    assert (Hal1 : lookup "allocator" loc1 = Some allocv) by (unfold loc1; lk; exact Hal).
    assert (Hne1 : lookup "c_nonaggregate_exprs" loc1 = Some (PList (map PRef gks))) by (unfold loc1; lk; exact Hne).
    assert (Hn1 : lookup "c_aggregate_exprs" loc1 = Some (PList (mk_nodes vals))) by (unfold loc1; lk; exact Hn).
    assert (Hag1 : lookup "aggregates" loc1 = Some (dict_pv s)) by (unfold loc1; lk; exact Hag).
    assert (Econd : exists cv, PyMini.eval call_ref prim {| locals := loc1; fields := flds |} scan_cond =
                                 Ok ({| locals := loc1; fields := flds |}, cv) /\ pv_truthy cv = Ok (passes q r)).
    { unfold where_ok in Hw. unfold passes. destruct (q_where q) as [w|].
      - destruct Hw as [k [-> H]]. destruct (H r Hr vals) as [Hcall Herr].
        exists (PV (mev r [] w)). split.
        + unfold scan_cond. st. rewrite Hcw1. st. cbn [compare1 pv_is_none PNone pv_truthy PBool truthy Bool.eqb bind].
          st. rewrite Hcw1. st. rewrite Hc1. st. rewrite Hn1. st. cbn [do_call]. rewrite Hcall.
          destruct (mev r [] w); try discriminate; reflexivity.
        + destruct (mev r [] w); try reflexivity; discriminate.
      - subst cw. exists (PBool true). split; [|reflexivity].
        unfold scan_cond. st. rewrite Hcw1. st. reflexivity. }
    destruct Econd as [cv [Ec Et]].
    unfold scan_body at 1. rewrite exec_block_cons.
    rewrite (exec_if call_ref prim _ _ _ _ _ cv (passes q r) Ec Et).
    rewrite (last_cons_default (map ctx_of t) (ctx_of r) c0).
    destruct (passes q r).
    + destruct (row_stmts_src s vals gks r loc1 flds Hr Hv Hgs Hks Hal1 Hn1 Hag1 Hc1 Hne1)
        as [loc2 [vals2 [E [Hv2 [Hn2 [Hag2 [Hgs2 F2]]]]]]].
      rewrite E. cbn [bind exec_block].
      destruct (IH Hin' Hw Hks _ vals2 (ctx_of r) loc2 flds Hv2 Hgs2) as [loc' [vals' [E' [A1 [A2 [A3 [A4 A5]]]]]]].
      * rewrite (F2 "c_where") by (cbn; tauto). exact Hcw1.
      * rewrite (F2 "allocator") by (cbn; tauto). exact Hal1.
      * rewrite (F2 "c_nonaggregate_exprs") by (cbn; tauto). exact Hne1.
      * exact Hn2.
      * exact Hag2.
      * rewrite (F2 "context") by (cbn; tauto). exact Hc1.
      * exists loc', vals'. repeat split; auto.
        intros y Hy. rewrite (A5 y Hy). cbn in Hy.
        repeat (destruct Hy as [<-|Hy]; [rewrite F2 by (cbn; tauto); unfold loc1; lk; reflexivity|]). destruct Hy.
    + cbn [exec_block bind].
      destruct (IH Hin' Hw Hks s vals (ctx_of r) loc1 flds) as [loc' [vals' [E' [A1 [A2 [A3 [A4 A5]]]]]]]; try assumption.
      exists loc', vals'. repeat split; auto.
      intros y Hy. rewrite (A5 y Hy). cbn in Hy.
      repeat (destruct Hy as [<-|Hy]; [unfold loc1; lk; reflexivity|]). destruct Hy.
Qed.

(* the scan part from ANY state that binds what it reads (used by the composition of the branch) *)
Lemma agg_scan_gen : forall (cw qobj : pv) (gks : list nat) vals loc flds,
  qobj <> PSelf -> prim "attr:table" [qobj] = Ok (PList (map ctx_of table)) ->
  where_ok cw -> keys_ok gks -> length vals = n ->
  lookup "query" loc = Some qobj -> lookup "c_where" loc = Some cw ->
  lookup "c_nonaggregate_exprs" loc = Some (PList (map PRef gks)) -> lookup "allocator" loc = Some allocv ->
  lookup "c_aggregate_exprs" loc = Some (PList (mk_nodes vals)) ->
  exists loc' vals',
    exec_block call_ref prim {| locals := loc; fields := flds |} (f_body agg_scan) =
      Ok (Next {| locals := loc'; fields := flds |}) /\
    lookup "aggregates" loc' = Some (dict_pv (scan_agg q g [] table)) /\
    lookup "context" loc' = Some (last (map ctx_of table) PNone) /\
    length vals' = n /\ lookup "c_aggregate_exprs" loc' = Some (PList (mk_nodes vals')) /\
    frame pass_vars loc loc'.
Proof.
  intros cw qobj gks vals loc flds Hq Htab Hw Hks Hv Hqo Hcw Hne Hal Hn. rewrite agg_scan_shape.
  rewrite exec_block_cons. st. rewrite exec_block_cons. st. rewrite Hlo by (cbn; tauto).
  cbn [prims0 String.eqb Ascii.eqb Bool.eqb]. st.
  rewrite exec_block_cons.
  match goal with |- context [PyMini.exec call_ref prim ?s0 (SFor _ _ _)] => set (st0 := s0) end.
  assert (Hqo0 : lookup "query" (locals st0) = Some qobj) by (unfold st0; cbn [locals]; lk; exact Hqo).
  rewrite (exec_for call_ref prim "context" _ _ st0 st0 (map ctx_of table)).
  2:{ rewrite (eval_attr call_ref prim (XName "query") "table" st0 st0 qobj
                 (eval_name call_ref prim st0 "query" qobj Hqo0) Hq). cbn [String.append]. rewrite Htab. reflexivity. }
  destruct (scan_loop cw gks table (incl_refl _) Hw Hks [] vals PNone (locals st0) flds Hv (Forall_nil _))
    as [loc' [vals' [E [Hv' [Hn' [Hag' [Hc' F]]]]]]];
    try (unfold st0; cbn [locals]; lk; assumption); try (unfold st0; cbn [locals]; lk; reflexivity).
  unfold st0 in *. cbn [locals] in E. rewrite E. cbn [bind exec_block].
  exists loc', vals'. split; [reflexivity|]. repeat split; auto.
  intros y Hy. rewrite (F y Hy). cbn [locals]. cbn in Hy.
  repeat (destruct Hy as [<-|Hy]; [lk; reflexivity|]). destruct Hy.
Qed.

(* the translated scan part: `context = None; aggregates = defaultdict(create); for context in query.table: ...`
   builds the model's insertion-ordered aggregate store Exec.scan_agg, and leaves the last scanned row in `context` *)
Theorem agg_scan_src : forall (cw qobj : pv) (gks : list nat) vals,
  qobj <> PSelf -> prim "attr:table" [qobj] = Ok (PList (map ctx_of table)) ->
  where_ok cw -> keys_ok gks -> length vals = n ->
  exists s' vals',
    exec_block call_ref prim
      {| locals := [("query", qobj); ("c_where", cw); ("c_nonaggregate_exprs", PList (map PRef gks));
                    ("allocator", allocv); ("c_aggregate_exprs", PList (mk_nodes vals))]; fields := [] |}
      (f_body agg_scan) = Ok (Next s') /\
    lookup "aggregates" (locals s') = Some (dict_pv (scan_agg q g [] table)) /\
    lookup "context" (locals s') = Some (last (map ctx_of table) PNone) /\
    length vals' = n /\ lookup "c_aggregate_exprs" (locals s') = Some (PList (mk_nodes vals')).
Proof.
  intros cw qobj gks vals Hq Htab Hw Hks Hv. rewrite agg_scan_shape.
  rewrite exec_block_cons. st. rewrite exec_block_cons. st. rewrite Hlo by (cbn; tauto).
  cbn [prims0 String.eqb Ascii.eqb Bool.eqb]. st.
  rewrite exec_block_cons.
  match goal with |- context [PyMini.exec call_ref prim ?s0 (SFor _ _ _)] => set (st0 := s0) end.
  rewrite (exec_for call_ref prim "context" _ _ st0 st0 (map ctx_of table)).
  2:{ rewrite (eval_attr call_ref prim (XName "query") "table" st0 st0 qobj
                 (eval_name call_ref prim st0 "query" qobj eq_refl) Hq). cbn [String.append]. rewrite Htab. reflexivity. }
  destruct (scan_loop cw gks table (incl_refl _) Hw Hks [] vals PNone (locals st0) [] Hv (Forall_nil _)
              eq_refl eq_refl eq_refl eq_refl eq_refl eq_refl) as [loc' [vals' [E [Hv' [Hn' [Hag' [Hc' _]]]]]]].
  unfold st0 in *. cbn [locals] in E. rewrite E. cbn [bind exec_block].
  eexists. exists vals'. split; [reflexivity|]. cbn [locals]. auto.
Qed.
End Scan.

(* ================================================================== linking parts 1 and 3 *)
Fixpoint mk_nodes_from (i : nat) (ds : list (nat * nat * pv)) (vals : list pv) : list pv :=
  match ds, vals with
  | (c, kd, o) :: ds', v :: vals' => anode c i kd o v :: mk_nodes_from (S i) ds' vals'
  | _, _ => []
  end.

Definition agg_class (f : aggf) (c : nat) : Prop :=
  match f with
  | ACountStar => c = 0 | ACount => c = 1 | ASum _ => c = 2 \/ c = 3
  | AFirst => c = 4 | ALast => c = 5 | AMin => c = 6 | AMax => c = 7
  end%nat.
Definition is_minmax (a : agg) : bool := match afun a with AMin | AMax => true | _ => false end.

Lemma set_nth_app {A} (pre : list A) x y rest : set_nth (length pre) y (pre ++ x :: rest)%list = (pre ++ y :: rest)%list.
Proof. induction pre as [|p t IH]; cbn; [reflexivity|]. rewrite IH. reflexivity. Qed.
Lemma nth_app_len {A} (pre : list A) x rest d : nth (length pre) (pre ++ x :: rest)%list d = x.
Proof. induction pre as [|p t IH]; cbn; [reflexivity|exact IH]. Qed.

Section Link.
Variable call_ref : nat -> list pv -> pv.
Variable ctx_of : row -> pv.
Variable q : query.
Variable table : list row.
Notation mev := Verif.Model.Eval.eval.
Notation p1 := (prims1 call_ref alloc_init alloc_allocate alloc_create_store).
Notation p2 := (prims2 call_ref alloc_init alloc_allocate alloc_create_store classes).

Definition dtype_ok (a : agg) (kd : nat) : Prop :=
  match afun a with
  | ACountStar | ACount | ASum _ => call_ref kd [] = PV (agg_init a) /\ is_err (agg_init a) = false
  | _ => True
  end.

(* an aggregate node object of the right class for aggregate a: its dtype() is the zero the sum starts from, its
   operand is the compiled argument expression *)
Definition node_ok (a : agg) (d : nat * nat * pv) : Prop :=
  agg_class (afun a) (fst (fst d)) /\ dtype_ok a (snd (fst d)) /\
  (afun a <> ACountStar -> forall r, In r table -> operand_on call_ref ctx_of r (snd d) (aarg a)).

Definition slot_good (a : agg) (cur : value) : Prop :=
  is_minmax a = true -> forall r, In r table -> comparable (mev r [] (aarg a)) cur.
Definition good (sl : list value) : Prop := Forall2 slot_good (q_aggs q) sl.

Lemma p2_protocol name c cl f i kd o v rest :
  nth_error classes c = Some cl -> protocol_method name cl = Some f ->
  p2 name (anode c i kd o v :: rest) =
  bind (call_method call_ref p1 f (aflds i kd o v) rest) (fun p => Ok (PTuple [node_of_fields c (fst p); snd p])).
Proof.
  intros H1 H2. unfold prims2, anode, node_pv, aflds, PInt. rewrite Nat2Z.id, H1, H2.
  destruct (call_method _ _ _ _ _) as [[flds r]| |]; reflexivity.
Qed.

Lemma mc_node m c i kd o v args :
  method_call p2 m (anode c i kd o v) args =
  bind (p2 ("method:" ++ m) (anode c i kd o v :: args))
       (fun r => match r with PTuple [recv'; x] => Ok (recv', x) | _ => Stuck end).
Proof. unfold method_call, anode, node_pv. destruct args as [|a [|b t]]; reflexivity. Qed.

Lemma node_init_p2 : forall a c kd o i v (sl : list value),
  node_ok a (c, kd, o) -> (i < length sl)%nat ->
  exists v', method_call p2 "initialize" (anode c i kd o v) [slots_pv sl] =
             Ok (anode c i kd o v', slots_pv (set_nth i (agg_init a) sl)).
Proof.
  intros a c kd o i v sl [Hc [Hd _]] Hi. cbn [fst snd] in *. rewrite mc_node. cbn [String.append].
  unfold agg_class, dtype_ok, agg_init in *. unfold slots_pv.
  destruct (afun a) eqn:Ef.
  - subst c. destruct Hd as [Hd He]. exists PNone.
    rewrite (p2_protocol _ 0%nat class_Count aggm_EvalAggregator_initialize) by reflexivity.
    rewrite (initialize_default_src call_ref i kd o v sl _ Hi Hd He). reflexivity.
  - subst c. destruct Hd as [Hd He]. exists PNone.
    rewrite (p2_protocol _ 1%nat class_CountArg aggm_EvalAggregator_initialize) by reflexivity.
    rewrite (initialize_default_src call_ref i kd o v sl _ Hi Hd He). reflexivity.
  - destruct Hd as [Hd He]. exists PNone. destruct Hc as [-> | ->].
    + rewrite (p2_protocol _ 2%nat class_SumInt aggm_EvalAggregator_initialize) by reflexivity.
      rewrite (initialize_default_src call_ref i kd o v sl _ Hi Hd He). reflexivity.
    + rewrite (p2_protocol _ 3%nat class_SumDecimal aggm_EvalAggregator_initialize) by reflexivity.
      rewrite (initialize_default_src call_ref i kd o v sl _ Hi Hd He). reflexivity.
  - subst c. exists v. rewrite (p2_protocol _ 4%nat class_First aggm_First_initialize) by reflexivity.
    rewrite (initialize_none_src call_ref _ i kd o v sl (or_introl eq_refl) Hi). reflexivity.
  - subst c. exists v. rewrite (p2_protocol _ 5%nat class_Last aggm_Last_initialize) by reflexivity.
    rewrite (initialize_none_src call_ref _ i kd o v sl (or_intror (or_introl eq_refl)) Hi). reflexivity.
  - subst c. exists v. rewrite (p2_protocol _ 6%nat class_Min aggm_Min_initialize) by reflexivity.
    rewrite (initialize_none_src call_ref _ i kd o v sl (or_intror (or_intror (or_introl eq_refl))) Hi). reflexivity.
  - subst c. exists v. rewrite (p2_protocol _ 7%nat class_Max aggm_Max_initialize) by reflexivity.
    rewrite (initialize_none_src call_ref _ i kd o v sl (or_intror (or_intror (or_intror eq_refl))) Hi). reflexivity.
Qed.

Lemma node_update_p2 : forall a c kd o i v (sl : list value) r,
  node_ok a (c, kd, o) -> (i < length sl)%nat -> In r table -> slot_good a (nth i sl VNull) ->
  method_call p2 "update" (anode c i kd o v) [slots_pv sl; ctx_of r] =
  Ok (anode c i kd o v, slots_pv (set_nth i (agg_update a r (nth i sl VNull)) sl)).
Proof.
  intros a c kd o i v sl r [Hc [_ Hop]] Hi Hr Hg. cbn [fst snd] in *. rewrite mc_node. cbn [String.append].
  unfold agg_class, slot_good, is_minmax in *. unfold slots_pv.
  destruct a as [f e]. cbn [afun aarg] in *.
  destruct f.
  - subst c. rewrite (p2_protocol _ 0%nat class_Count aggm_Count_update) by reflexivity.
    rewrite (update_count_src call_ref ctx_of i kd o v sl r e Hi). reflexivity.
  - subst c. rewrite (p2_protocol _ 1%nat class_CountArg aggm_CountArg_update) by reflexivity.
    rewrite (update_countarg_src call_ref ctx_of i kd o v sl r e Hi (Hop ltac:(discriminate) r Hr)). reflexivity.
  - destruct Hc as [-> | ->].
    + rewrite (p2_protocol _ 2%nat class_SumInt aggm_SumInt_update) by reflexivity.
      rewrite (update_sum_src call_ref ctx_of _ i kd o v sl r e zero (or_introl eq_refl) Hi (Hop ltac:(discriminate) r Hr)). reflexivity.
    + rewrite (p2_protocol _ 3%nat class_SumDecimal aggm_SumDecimal_update) by reflexivity.
      rewrite (update_sum_src call_ref ctx_of _ i kd o v sl r e zero (or_intror eq_refl) Hi (Hop ltac:(discriminate) r Hr)). reflexivity.
  - subst c. rewrite (p2_protocol _ 4%nat class_First aggm_First_update) by reflexivity.
    rewrite (update_first_src call_ref ctx_of i kd o v sl r e Hi (Hop ltac:(discriminate) r Hr)). reflexivity.
  - subst c. rewrite (p2_protocol _ 5%nat class_Last aggm_Last_update) by reflexivity.
    rewrite (update_last_src call_ref ctx_of i kd o v sl r e Hi (Hop ltac:(discriminate) r Hr)). reflexivity.
  - subst c. rewrite (p2_protocol _ 6%nat class_Min aggm_Min_update) by reflexivity.
    rewrite (update_min_src call_ref ctx_of i kd o v sl r e Hi (Hop ltac:(discriminate) r Hr) (Hg eq_refl r Hr)). reflexivity.
  - subst c. rewrite (p2_protocol _ 7%nat class_Max aggm_Max_update) by reflexivity.
    rewrite (update_max_src call_ref ctx_of i kd o v sl r e Hi (Hop ltac:(discriminate) r Hr) (Hg eq_refl r Hr)). reflexivity.
Qed.

Lemma init_fold : forall (aggs : list agg) ds, Forall2 node_ok aggs ds ->
  forall i (pre rest : list value) vals, length pre = i -> length rest = length aggs -> length vals = length aggs ->
  exists vals', length vals' = length aggs /\
    node_fold (fun nd th => method_call p2 "initialize" nd [th]) (mk_nodes_from i ds vals) (slots_pv (pre ++ rest)) =
    Ok (mk_nodes_from i ds vals', slots_pv (pre ++ map agg_init aggs)).
Proof.
  induction 1 as [|a [[c kd] o] aggs ds Hn Hns IH]; intros i pre rest vals Hp Hr Hv.
  - destruct rest; [|discriminate]. destruct vals; [|discriminate]. exists []. split; reflexivity.
  - destruct rest as [|x rest]; [discriminate|]. destruct vals as [|v vals]; [discriminate|].
    cbn [length] in Hr, Hv. injection Hr as Hr. injection Hv as Hv.
    cbn [mk_nodes_from node_fold].
    destruct (node_init_p2 a c kd o i v (pre ++ x :: rest)%list Hn) as [v' E].
    { rewrite app_length. cbn [length]. lia. }
    rewrite E. cbn [bind fst snd]. subst i. rewrite set_nth_app.
    destruct (IH (S (length pre)) (pre ++ [agg_init a])%list rest vals) as [vals' [Hv' E']]; try assumption.
    { rewrite app_length. cbn [length]. lia. }
    rewrite <- app_assoc in E'. cbn [app] in E'. rewrite E'. cbn [bind fst snd].
    exists (v' :: vals'). split; [cbn [length]; congruence|]. cbn [map]. rewrite <- app_assoc. reflexivity.
Qed.

Lemma upd_fold : forall r, In r table -> forall (aggs : list agg) ds, Forall2 node_ok aggs ds ->
  forall i (pre rest : list value) vals, length pre = i -> length vals = length aggs -> Forall2 slot_good aggs rest ->
    node_fold (fun nd th => method_call p2 "update" nd [th; ctx_of r]) (mk_nodes_from i ds vals) (slots_pv (pre ++ rest)) =
    Ok (mk_nodes_from i ds vals,
        slots_pv (pre ++ map (fun '(a, cur) => agg_update a r cur) (combine aggs rest))).
Proof.
  intros r Hr. induction 1 as [|a [[c kd] o] aggs ds Hn Hns IH]; intros i pre rest vals Hp Hv Hg.
  - inversion Hg; subst. destruct vals; [|discriminate]. reflexivity.
  - inversion Hg as [|? x ? rest' Hgx Hgr]; subst. destruct vals as [|v vals]; [discriminate|].
    cbn [length] in Hv. injection Hv as Hv.
    cbn [mk_nodes_from node_fold].
    rewrite (node_update_p2 a c kd o (length pre) v (pre ++ x :: rest')%list r Hn).
    2:{ rewrite app_length. cbn [length]. lia. }
    2:{ exact Hr. }
    2:{ rewrite nth_app_len. exact Hgx. }
    cbn [bind fst snd]. rewrite nth_app_len, set_nth_app.
    assert (Hl : length (pre ++ [agg_update a r x])%list = S (length pre)) by (rewrite app_length; cbn [length]; lia).
    pose proof (IH (S (length pre)) (pre ++ [agg_update a r x])%list rest' vals Hl Hv Hgr) as E'.
    rewrite <- !app_assoc in E'. cbn [app] in E'. rewrite E'.
    cbn [bind fst snd combine map]. reflexivity.
Qed.

Lemma prims2_other name args :
  (forall cl, protocol_method name cl = None) ->
  p2 name args = p1 name args.
Proof.
  intros H. unfold prims2.
  destruct args as [|a rest]; [reflexivity|]. destruct a as [| |l| |]; try reflexivity.
  destruct l as [|x0 l]; try reflexivity. destruct x0 as [v0| | | |]; try reflexivity. destruct v0; try reflexivity.
  destruct l as [|h [|d [|o [|v [|? ?]]]]]; try reflexivity.
  destruct (nth_error classes (Z.to_nat z)); [rewrite H|]; reflexivity.
Qed.

Lemma p2_lo : forall name args, In name lo_names -> p2 name args = prims0 name args.
Proof.
  intros name args Hin. cbn in Hin.
  repeat (destruct Hin as [<-|Hin]; [rewrite prims2_other by (intros cl; reflexivity); reflexivity|]). destruct Hin.
Qed.

(* values of one typed argument column are pairwise comparable (min / max compare them) *)
Definition homogeneous : Prop :=
  forall a, In a (q_aggs q) -> is_minmax a = true ->
  forall r r', In r table -> In r' table -> comparable (mev r [] (aarg a)) (mev r' [] (aarg a)).

Lemma good_init : good (init_all q).
Proof.
  unfold good, init_all. induction (q_aggs q) as [|a t IH]; constructor; [|exact IH].
  intros Hm r Hr. unfold is_minmax in Hm. unfold agg_init. destruct (afun a); try discriminate; intros _ H; discriminate H.
Qed.

Lemma good_upd : homogeneous -> forall r sl, In r table -> good sl -> good (upd_all q r sl).
Proof.
  unfold homogeneous, good, upd_all. intros Hh r sl Hr.
  generalize (fun a (H : In a (q_aggs q)) => Hh a H). clear Hh.
  generalize (q_aggs q) as aggs. intros aggs Hh Hg. induction Hg as [|a cur aggs sl Hs Hg IH]; [constructor|].
  cbn [combine map]. constructor.
  - intros Hm r' Hr'. specialize (Hs Hm). pose proof (Hh a (or_introl eq_refl) Hm r' r Hr' Hr) as Hrr.
    unfold is_minmax in Hm. unfold agg_update.
    destruct (afun a); try discriminate;
      (destruct (is_null (mev r [] (aarg a))); [apply Hs; exact Hr'|];
       match goal with |- context [if ?b then _ else _] => destruct b end; [exact Hrr|apply Hs; exact Hr']).
  - apply IH. intros a' Ha'. apply Hh. right. exact Ha'.
Qed.

(* (3, linked) the translated scan part, run with the TRANSLATED protocol methods of the aggregator classes (prims2 over the
   generated class table), builds Exec.scan_agg *)
Theorem agg_scan_linked : forall (g : list nat) (ds : list (nat * nat * pv)) (cw qobj : pv) (gks : list nat) vals,
  Forall2 node_ok (q_aggs q) ds -> homogeneous ->
  qobj <> PSelf -> p2 "attr:table" [qobj] = Ok (PList (map ctx_of table)) ->
  where_ok call_ref ctx_of q table (mk_nodes_from 0 ds) cw ->
  keys_ok call_ref ctx_of q g table (mk_nodes_from 0 ds) gks ->
  length vals = length (q_aggs q) ->
  exists s' vals',
    exec_block call_ref p2
      {| locals := [("query", qobj); ("c_where", cw); ("c_nonaggregate_exprs", PList (map PRef gks));
                    ("allocator", alloc_pv (PInt (Z.of_nat (length (q_aggs q)))));
                    ("c_aggregate_exprs", PList (mk_nodes_from 0 ds vals))]; fields := [] |}
      (f_body agg_scan) = Ok (Next s') /\
    lookup "aggregates" (locals s') = Some (dict_pv (scan_agg q g [] table)) /\
    lookup "context" (locals s') = Some (last (map ctx_of table) PNone) /\
    length vals' = length (q_aggs q) /\
    lookup "c_aggregate_exprs" (locals s') = Some (PList (mk_nodes_from 0 ds vals')).
Proof.
  intros g ds cw qobj gks vals Hds Hh Hq Htab Hw Hks Hv.
  apply (agg_scan_src call_ref p2 ctx_of q g table (mk_nodes_from 0 ds)
           (alloc_pv (PInt (Z.of_nat (length (q_aggs q))))) good); try assumption.
  - exact p2_lo.
  - apply alloc_create_store_src.
  - intros vals0 Hv0.
    destruct (init_fold (q_aggs q) ds Hds 0%nat [] (repeat VNull (length (q_aggs q))) vals0 eq_refl
                (repeat_length _ _) Hv0) as [vals' [Hv' E]].
    exists vals'. split; [exact Hv'|exact E].
  - intros vals0 r sl Hv0 Hr Hg.
    apply (upd_fold r Hr (q_aggs q) ds Hds 0%nat [] sl vals0 eq_refl Hv0 Hg).
  - exact good_init.
  - apply good_upd. exact Hh.
Qed.
End Link.

Local Arguments pop_at : simpl never.

(* ================================================================== part 4: the output loop *)
Definition idx (i : nat) : pv := PInt (Z.of_nat i).

Lemma val_eq_int a b : val_eq (VInt a) (VInt b) = (a =? b).
Proof.
  unfold val_eq, StableSort.eqv. rewrite !val_le_int.
  destruct (a =? b) eqn:E; [apply Z.eqb_eq in E; subst; rewrite Z.leb_refl; reflexivity|].
  apply Z.eqb_neq in E. destruct (a <=? b) eqn:E1; destruct (b <=? a) eqn:E2; try reflexivity.
  apply Z.leb_le in E1, E2. lia.
Qed.

Lemma existsb_idx i g : existsb (pv_eqb (idx i)) (map idx g) = existsb (Nat.eqb i) g.
Proof.
  induction g as [|j g IH]; [reflexivity|]. cbn [map existsb]. rewrite IH. f_equal.
  unfold idx, PInt. rewrite pv_eqb_value, val_eq_int.
  destruct (Nat.eqb_spec i j); [subst; apply Z.eqb_refl|]. apply Z.eqb_neq. lia.
Qed.

Lemma pop_at_0 (x : pv) l : pop_at (x :: l) 0 = Ok (x, l).
Proof.
  unfold pop_at. cbv zeta. change (0 <? 0) with false. cbv iota.
  replace (Z.of_nat (length (x :: l)) <=? 0) with false by (symmetry; apply Z.leb_gt; cbn [length]; lia).
  reflexivity.
Qed.

Definition frame_out (modified : list string) (loc loc' : env) : Prop :=
  forall y, ~ In y modified -> lookup y loc' = lookup y loc.

Section Output.
Variable call_ref : nat -> list pv -> pv.
Variable prim : string -> list pv -> res pv.
Variable q : query.
Variable g : list nat.
Variable ctx : row.                      (* the last scanned row *)
Variable cv : pv.                        (* its context object: what the scan loop left in `context` *)
Variable mk_nodes : list pv -> list pv.
Notation mev := Verif.Model.Eval.eval.
Notation n := (length (q_aggs q)).

Hypothesis Hlo : forall name args, In name lo_names -> prim name args = prims0 name args.
Hypothesis Hfin : forall vals sl, length vals = n -> length sl = n ->
  node_fold (fun nd th => method_call prim "finalize" nd [th]) (mk_nodes vals) (slots_pv sl) =
  Ok (mk_nodes (map PV sl), slots_pv sl).

(* a non-grouped target: an opaque callable of the context and of the state of the aggregate nodes (rule A3); with the
   finalised value slots[h] parked on node h it evaluates to Eval.eval ctx slots e (EAgg h = nth h slots) *)
Definition target_on (k : nat) (e : enode) : Prop :=
  forall sl, length sl = n -> is_err (mev ctx sl e) = false ->
    call_ref k [cv; PList (mk_nodes (map PV sl))] = PV (mev ctx sl e).
Definition no_err (vals : list value) : Prop := Forall (fun v => is_err v = false) vals.

Fixpoint targets_ok_from (i : nat) (tks : list nat) (ts : list enode) : Prop :=
  match tks, ts with
  | [], [] => True
  | k :: tks', e :: ts' => (existsb (Nat.eqb i) g = false -> target_on k e) /\ targets_ok_from (S i) tks' ts'
  | _, _ => False
  end.

Fixpoint gcount (i : nat) (ts : list enode) : nat :=
  match ts with
  | [] => 0
  | _ :: t => ((if existsb (Nat.eqb i) g then 1 else 0) + gcount (S i) t)%nat
  end.

Lemma do_call_ok k args v : call_ref k args = PV v -> is_err v = false -> do_call call_ref (PRef k) args = Ok (PV v).
Proof. intros H E. cbn [do_call]. rewrite H. destruct v; try reflexivity; discriminate. Qed.

Lemma eval_compare_const a op c s s1 av :
  PyMini.eval call_ref prim s a = Ok (s1, av) ->
  PyMini.eval call_ref prim s (XCompare a [(op, XConst c)]) =
  bind (compare1 op av c) (fun r => if r then Ok (s1, PBool true) else Ok (s1, PBool false)).
Proof. intros H. cbn [PyMini.eval]. rewrite H. reflexivity. Qed.

Lemma eval_not a s s1 v :
  PyMini.eval call_ref prim s a = Ok (s1, v) ->
  PyMini.eval call_ref prim s (XNot a) = bind (pv_truthy v) (fun b => Ok (s1, PBool (negb b))).
Proof. intros H. cbn [PyMini.eval]. rewrite H. reflexivity. Qed.

Definition vbody : list stmt :=
  [SIf (XCompare (XName "index") [(CIn, XName "group_indexes")])
     [SAssign (TName "value") (XMethod (TName "key_iter") "pop" [XConst (PInt 0)])]
     [SAssign (TName "value") (XCall (XName "c_expr") [XName "context"; XName "c_aggregate_exprs"] None)];
   SExpr (XMethod (TName "values") "append" [XName "value"])].

Definition vmod : list string := ["index"; "c_expr"; "value"; "key_iter"; "values"].

Lemma values_loop : forall ts tks i krest vacc loc flds sl,
  targets_ok_from i tks ts -> length sl = n -> (gcount i ts <= length krest)%nat ->
  lookup "key_iter" loc = Some (PList (map PV krest)) -> lookup "values" loc = Some (PList (map PV vacc)) ->
  lookup "group_indexes" loc = Some (PList (map idx g)) -> lookup "context" loc = Some cv ->
  lookup "c_aggregate_exprs" loc = Some (PList (mk_nodes (map PV sl))) ->
  no_err (out_values g ctx sl i ts krest) ->
  exists loc',
    for_unpack_loop call_ref prim vbody ["index"; "c_expr"] {| locals := loc; fields := flds |}
      (enumerate_from (Z.of_nat i) (map PRef tks)) = Ok (Next {| locals := loc'; fields := flds |}) /\
    lookup "values" loc' = Some (PList (map PV (vacc ++ out_values g ctx sl i ts krest))) /\
    frame_out vmod loc loc'.
Proof.
  induction ts as [|e ts IH]; intros tks i krest vacc loc flds sl Hts Hsl Hk Hki Hva Hgi Hc Hn Hne.
  - destruct tks; [|destruct Hts]. exists loc. cbn [map enumerate_from for_unpack_loop out_values].
    rewrite app_nil_r. split; [reflexivity|]. split; [exact Hva|]. intros y _. reflexivity.
  - destruct tks as [|k tks]; [destruct Hts|]. destruct Hts as [Hk1 Hts].
    cbn [map enumerate_from for_unpack_loop unpack_names write locals fields bind].
    set (loc1 := update "c_expr" (PRef k) (update "index" (PInt (Z.of_nat i)) loc)).
    assert (Hki1 : lookup "key_iter" loc1 = Some (PList (map PV krest))) by (unfold loc1; lk; exact Hki).
    assert (Hva1 : lookup "values" loc1 = Some (PList (map PV vacc))) by (unfold loc1; lk; exact Hva).
    assert (Hgi1 : lookup "group_indexes" loc1 = Some (PList (map idx g))) by (unfold loc1; lk; exact Hgi).
    assert (Hc1 : lookup "context" loc1 = Some cv) by (unfold loc1; lk; exact Hc).
    assert (Hn1 : lookup "c_aggregate_exprs" loc1 = Some (PList (mk_nodes (map PV sl)))) by (unfold loc1; lk; exact Hn).
    assert (Hix : lookup "index" loc1 = Some (idx i)) by (unfold loc1; lk; reflexivity).
    assert (Hce : lookup "c_expr" loc1 = Some (PRef k)) by (unfold loc1; lk; reflexivity).
    assert (Ec : PyMini.eval call_ref prim {| locals := loc1; fields := flds |}
                   (XCompare (XName "index") [(CIn, XName "group_indexes")]) =
                 Ok ({| locals := loc1; fields := flds |}, PBool (existsb (Nat.eqb i) g))).
    { st. rewrite Hix. st. rewrite Hgi1. st. cbn [compare1]. rewrite existsb_idx. cbn [bind].
      destruct (existsb (Nat.eqb i) g); reflexivity. }
    unfold vbody at 1. rewrite exec_block_cons.
    rewrite (exec_if call_ref prim _ _ _ _ _ _ _ Ec eq_refl).
    cbn [out_values gcount] in *.
    replace (Z.of_nat i + 1) with (Z.of_nat (S i)) by lia.
    destruct (existsb (Nat.eqb i) g) eqn:Eg.
    + destruct krest as [|kv krest]; [cbn in Hk; lia|].
      rewrite exec_block_cons. cbn [truthy]. st. rewrite Hki1. st. cbn [map method_call String.eqb Ascii.eqb Bool.eqb PInt].
      rewrite pop_at_0. st. cbn [exec_block bind]. st. rewrite Hva1. st.
      cbn [method_call String.eqb Ascii.eqb Bool.eqb bind write locals fields exec_block].
      match goal with |- context [for_unpack_loop _ _ _ _ {| locals := ?l; fields := _ |} _] => set (loc2 := l) end.
      destruct (IH tks (S i) krest (vacc ++ [kv])%list loc2 flds sl Hts Hsl) as [loc' [E [Hv' F]]].
      * cbn [length] in Hk. lia.
      * unfold loc2. lk. reflexivity.
      * unfold loc2. lk. rewrite map_app. reflexivity.
      * unfold loc2. lk. exact Hgi1.
      * unfold loc2. lk. exact Hc1.
      * unfold loc2. lk. exact Hn1.
      * inversion Hne; assumption.
      * exists loc'. split; [exact E|]. split; [rewrite Hv', <- app_assoc; reflexivity|].
        intros y Hy. rewrite (F y Hy). unfold loc2, loc1. unfold vmod in Hy. cbn [In] in Hy.
        rewrite !lookup_update_other by (intros ->; apply Hy; tauto). reflexivity.
    + assert (Herr : is_err (mev ctx sl e) = false) by (inversion Hne; assumption).
      pose proof (Hk1 eq_refl sl Hsl Herr) as Hcall.
      cbn [truthy]. rewrite exec_block_cons. st. rewrite Hce. st. rewrite Hc1. st. rewrite Hn1. st. rewrite (do_call_ok _ _ _ Hcall Herr).
      st. cbn [exec_block bind]. st. rewrite Hva1. st.
      cbn [method_call String.eqb Ascii.eqb Bool.eqb bind write locals fields exec_block].
      match goal with |- context [for_unpack_loop _ _ _ _ {| locals := ?l; fields := _ |} _] => set (loc2 := l) end.
      destruct (IH tks (S i) krest (vacc ++ [mev ctx sl e])%list loc2 flds sl Hts Hsl) as [loc' [E [Hv' F]]].
      * cbn in Hk. lia.
      * unfold loc2. lk. exact Hki1.
      * unfold loc2. lk. rewrite map_app. reflexivity.
      * unfold loc2. lk. exact Hgi1.
      * unfold loc2. lk. exact Hc1.
      * unfold loc2. lk. exact Hn1.
      * inversion Hne; assumption.
      * exists loc'. split; [exact E|]. split; [rewrite Hv', <- app_assoc; reflexivity|].
        intros y Hy. rewrite (F y Hy). unfold loc2, loc1. unfold vmod in Hy. cbn [In] in Hy.
        rewrite !lookup_update_other by (intros ->; apply Hy; tauto). reflexivity.
Qed.

Lemma out_values_length sl : forall ts i key, length (out_values g ctx sl i ts key) = length ts.
Proof.
  induction ts as [|e ts IH]; intros i key; [reflexivity|]. cbn [out_values].
  destruct (existsb (Nat.eqb i) g); [destruct key|]; cbn [length]; rewrite IH; reflexivity.
Qed.

Definition having_pv : pv := match q_having q with None => PNone | Some h => idx h end.
Definition having_safe (vals : list value) : Prop :=
  match q_having q with
  | None => True
  | Some h => (h < length (q_targets q))%nat /\ is_err (nth h vals VNull) = false
  end.
Definition having_bound : Prop :=
  match q_having q with None => True | Some h => (h < length (q_targets q))%nat end.
(* an entry of the store: one slot per aggregate, one key cell per grouped target, and no cell of its output row is an
   exception value (C04: well-typed queries) *)
Definition entry_ok (ks : list value * list value) : Prop :=
  length (snd ks) = n /\ (gcount 0 (q_targets q) <= length (fst ks))%nat /\
  no_err (out_values g ctx (snd ks) 0 (q_targets q) (fst ks)) /\ having_bound.

Definition having_stmt : stmt :=
  SIf (XCompare (XAttr (XName "query") "having_index") [(CIsNot, XConst PNone)])
    [SIf (XNot (XIndex (XName "values") (XAttr (XName "query") "having_index")))
       [SAssign (TName "$skip") (XConst (PBool true))] []] [].
Definition append_stmt : stmt :=
  SIf (XNot (XName "$skip")) [SExpr (XMethod (TName "rows") "append" [XName "values"])] [].

Definition obody : list stmt :=
  [SAssign (TName "$skip") (XConst (PBool false));
   SAssign (TName "key_iter") (XPrim "builtins.iter" [XName "key"]);
   SAssign (TName "values") (XList []);
   SAssign (TName "$acc") (XList []);
   SFor "c_expr" (XName "c_aggregate_exprs") (nbody "finalize" "c_expr" "store" []);
   SAssign (TName "c_aggregate_exprs") (XName "$acc");
   SForUnpack ["index"; "c_expr"] (XPrim "builtins.enumerate" [XName "c_target_exprs"]) vbody;
   having_stmt; append_stmt].

Lemma agg_output_shape :
  f_body agg_output = [SForUnpack ["key"; "store"] (XCallMethod (XName "aggregates") "items" []) obody].
Proof. reflexivity. Qed.

Definition okeep : list string := ["c_target_exprs"; "group_indexes"; "context"; "query"].

(* the last two statements: HAVING by truthiness of values[having_index] (continue desugared by rule A6), then append *)
Lemma having_append : forall (vals : list value) (acc : list row) qobj loc flds,
  qobj <> PSelf -> prim "attr:having_index" [qobj] = Ok having_pv ->
  having_safe vals -> length vals = length (q_targets q) ->
  lookup "query" loc = Some qobj -> lookup "values" loc = Some (PList (map PV vals)) ->
  lookup "$skip" loc = Some (PBool false) -> lookup "rows" loc = Some (PList (map slots_pv acc)) ->
  exists loc',
    exec_block call_ref prim {| locals := loc; fields := flds |} [having_stmt; append_stmt] =
      Ok (Next {| locals := loc'; fields := flds |}) /\
    lookup "rows" loc' = Some (PList (map slots_pv (acc ++ (if having_ok q vals then [vals] else [])))) /\
    frame_out ["$skip"; "rows"] loc loc'.
Proof.
  intros vals acc qobj loc flds Hq Hh Hs Hl Hqo Hv Hsk Hr.
  assert (Eh : PyMini.eval call_ref prim {| locals := loc; fields := flds |} (XAttr (XName "query") "having_index") =
               Ok ({| locals := loc; fields := flds |}, having_pv)).
  { rewrite (eval_attr call_ref prim (XName "query") "having_index" _ _ qobj
               (eval_name call_ref prim {| locals := loc; fields := flds |} "query" qobj Hqo) Hq).
    cbn [String.append]. rewrite Hh. reflexivity. }
  assert (Fin : forall loc1 (b : bool), lookup "$skip" loc1 = Some (PBool (negb b)) ->
            lookup "rows" loc1 = Some (PList (map slots_pv acc)) -> lookup "values" loc1 = Some (PList (map PV vals)) ->
            exists loc', exec_block call_ref prim {| locals := loc1; fields := flds |} [append_stmt] =
                           Ok (Next {| locals := loc'; fields := flds |}) /\
                         lookup "rows" loc' = Some (PList (map slots_pv (acc ++ (if b then [vals] else [])))) /\
                         frame_out ["rows"] loc1 loc').
  { intros loc1 b H1 H2 H3. unfold append_stmt. rewrite exec_block_cons.
    assert (En : PyMini.eval call_ref prim {| locals := loc1; fields := flds |} (XNot (XName "$skip")) =
                 Ok ({| locals := loc1; fields := flds |}, PBool b)).
    { cbn [PyMini.eval read locals]. rewrite H1. cbn [bind pv_truthy PBool truthy]. rewrite negb_involutive. reflexivity. }
    rewrite (exec_if call_ref prim _ _ _ _ _ _ b En eq_refl). destruct b.
    - rewrite exec_block_cons. st. rewrite H3. st. rewrite H2. st.
      cbn [method_call String.eqb Ascii.eqb Bool.eqb bind write locals fields exec_block].
      eexists. split; [reflexivity|]. split; [lk; rewrite map_app; reflexivity|].
      intros y Hy. cbn [In] in Hy. rewrite lookup_update_other by (intros ->; apply Hy; tauto). reflexivity.
    - cbn [exec_block bind]. exists loc1. rewrite app_nil_r. split; [reflexivity|]. split; [exact H2|].
      intros y _. reflexivity. }
  unfold having_stmt. rewrite exec_block_cons.
  unfold having_ok, having_safe, having_pv in *. destruct (q_having q) as [h|].
  - destruct Hs as [Hlt Herr].
    assert (Ec : PyMini.eval call_ref prim {| locals := loc; fields := flds |}
                   (XCompare (XAttr (XName "query") "having_index") [(CIsNot, XConst PNone)]) =
                 Ok ({| locals := loc; fields := flds |}, PBool true)).
    { rewrite (eval_compare_const _ _ _ _ _ _ Eh). reflexivity. }
    rewrite (exec_if call_ref prim _ _ _ _ _ _ true Ec eq_refl).
    rewrite exec_block_cons.
    assert (Ei : PyMini.eval call_ref prim {| locals := loc; fields := flds |}
                   (XNot (XIndex (XName "values") (XAttr (XName "query") "having_index"))) =
                 Ok ({| locals := loc; fields := flds |}, PBool (negb (truthy (nth h vals VNull))))).
    { rewrite (eval_not _ _ {| locals := loc; fields := flds |} (PV (nth h vals VNull))).
      - cbn [pv_truthy]. destruct (nth h vals VNull); try reflexivity; discriminate.
      - rewrite (eval_index call_ref prim _ _ _ _ _ _ _
                   (eval_name call_ref prim {| locals := loc; fields := flds |} "values" _ Hv) Eh).
        rewrite (index_at_nat _ _ PNone) by (rewrite map_length; lia). rewrite nth_map_PV. reflexivity. }
    rewrite (exec_if call_ref prim _ _ _ _ _ _ _ Ei eq_refl).
    destruct (truthy (nth h vals VNull)) eqn:Et; cbn [negb].
    + cbn [exec_block bind].
      destruct (Fin loc true Hsk Hr Hv) as [loc' [E [R F]]]. exists loc'. split; [exact E|]. split; [exact R|].
      intros y Hy. apply F. cbn [In] in *. tauto.
    + rewrite exec_block_cons. st. cbn [exec_block bind].
      destruct (Fin (update "$skip" (PBool true) loc) false) as [loc' [E [R F]]].
      * lk. reflexivity.
      * lk. exact Hr.
      * lk. exact Hv.
      * exists loc'. split; [exact E|]. split; [exact R|].
        intros y Hy. rewrite F by (cbn [In] in *; tauto). cbn [In] in Hy.
        rewrite lookup_update_other by (intros ->; apply Hy; tauto). reflexivity.
  - assert (Ec : PyMini.eval call_ref prim {| locals := loc; fields := flds |}
                   (XCompare (XAttr (XName "query") "having_index") [(CIsNot, XConst PNone)]) =
                 Ok ({| locals := loc; fields := flds |}, PBool false)).
    { rewrite (eval_compare_const _ _ _ _ _ _ Eh). reflexivity. }
    rewrite (exec_if call_ref prim _ _ _ _ _ _ false Ec eq_refl). cbn [exec_block bind].
    destruct (Fin loc true Hsk Hr Hv) as [loc' [E [R F]]]. exists loc'. split; [exact E|]. split; [exact R|].
    intros y Hy. apply F. cbn [In] in *. tauto.
Qed.

Lemma frame_out_get modified loc loc' y v :
  frame_out modified loc loc' -> ~ In y modified -> lookup y loc = Some v -> lookup y loc' = Some v.
Proof. intros F N H. rewrite (F y N). exact H. Qed.

Lemma entry_src : forall (tks : list nat) (key sl : list value) (acc : list row) vals qobj loc flds,
  targets_ok_from 0 tks (q_targets q) -> entry_ok (key, sl) -> length vals = n ->
  qobj <> PSelf -> prim "attr:having_index" [qobj] = Ok having_pv ->
  lookup "key" loc = Some (key_pv key) -> lookup "store" loc = Some (slots_pv sl) ->
  lookup "c_aggregate_exprs" loc = Some (PList (mk_nodes vals)) ->
  lookup "c_target_exprs" loc = Some (PList (map PRef tks)) ->
  lookup "group_indexes" loc = Some (PList (map idx g)) -> lookup "context" loc = Some cv ->
  lookup "query" loc = Some qobj -> lookup "rows" loc = Some (PList (map slots_pv acc)) ->
  exists loc',
    exec_block call_ref prim {| locals := loc; fields := flds |} obody = Ok (Next {| locals := loc'; fields := flds |}) /\
    lookup "rows" loc' = Some (PList (map slots_pv
      (acc ++ (let vs := out_values g ctx sl 0 (q_targets q) key in if having_ok q vs then [vs] else [])))) /\
    lookup "c_aggregate_exprs" loc' = Some (PList (mk_nodes (map PV sl))) /\
    (forall y, In y okeep -> lookup y loc' = lookup y loc).
Proof.
  intros tks key sl acc vals qobj loc flds Hts [Hsl [Hgc [Hne Hhb]]] Hv Hq Hh Hk Hs Hn Hte Hgi Hc Hqo Hr.
  cbn [fst snd] in *.
  assert (Hhs : having_safe (out_values g ctx sl 0 (q_targets q) key)).
  { unfold having_safe, having_bound in *. destruct (q_having q) as [h|]; [|exact I]. split; [exact Hhb|].
    unfold no_err in Hne. rewrite Forall_forall in Hne. apply Hne. apply nth_In. rewrite out_values_length. exact Hhb. }
  unfold obody.
  rewrite exec_block_cons. st. rewrite exec_block_cons. st. rewrite Hk. st. rewrite Hlo by (cbn; tauto).
  cbn [prims0 String.eqb Ascii.eqb Bool.eqb key_pv seq_items]. st.
  rewrite exec_block_cons. st. rewrite exec_block_cons. st.
  match goal with |- context [exec_block _ _ {| locals := ?l; fields := _ |} _] => set (loc1 := l) end.
  rewrite exec_block_cons.
  rewrite (exec_for call_ref prim "c_expr" _ _ {| locals := loc1; fields := flds |} {| locals := loc1; fields := flds |} (mk_nodes vals)).
  2:{ apply eval_name. cbn [locals]. unfold loc1. lk. exact Hn. }
  destruct (node_loop call_ref prim "finalize" "c_expr" "store" [] []
              ltac:(discriminate) ltac:(discriminate) ltac:(discriminate) (or_introl (conj eq_refl eq_refl))
              (mk_nodes vals) [] (slots_pv sl) loc1 flds (mk_nodes (map PV sl)) (slots_pv sl))
    as [loc2 [El [Lt [La Lf]]]].
  { unfold loc1. lk. exact Hs. }
  { unfold loc1. lk. reflexivity. }
  { intros e v H. discriminate H. }
  { apply Hfin; assumption. }
  rewrite El. cbn [bind]. cbn [app] in La.
  assert (F2 : forall y, y <> "c_expr" -> y <> "store" -> y <> "$acc" -> y <> "values" -> y <> "key_iter" -> y <> "$skip" ->
               lookup y loc2 = lookup y loc).
  { intros y H1 H2 H3 H4 H5 H6. rewrite (Lf y H1 H2 H3). unfold loc1. rewrite !lookup_update_other by congruence. reflexivity. }
  rewrite exec_block_cons. st. rewrite La. st.
  match goal with |- context [exec_block _ _ {| locals := ?l; fields := _ |} _] => set (loc3 := l) end.
  rewrite exec_block_cons.
  assert (Een : PyMini.eval call_ref prim {| locals := loc3; fields := flds |}
                  (XPrim "builtins.enumerate" [XName "c_target_exprs"]) =
                Ok ({| locals := loc3; fields := flds |}, PList (enumerate_from (Z.of_nat 0) (map PRef tks)))).
  { rewrite (eval_prim1 call_ref prim "builtins.enumerate" _ _ {| locals := loc3; fields := flds |} (PList (map PRef tks))).
    - rewrite Hlo by (cbn; tauto). reflexivity.
    - apply eval_name. cbn [locals]. unfold loc3. lk. rewrite F2 by discriminate. exact Hte. }
  rewrite (exec_for_unpack call_ref prim _ _ _ _ _ _ Een).
  destruct (values_loop (q_targets q) tks 0%nat key [] loc3 flds sl Hts Hsl Hgc) as [loc4 [E4 [Hv4 F4]]]; [| | | | |exact Hne|].
  { unfold loc3. lk. rewrite (Lf "key_iter") by discriminate. unfold loc1. lk. reflexivity. }
  { unfold loc3. lk. rewrite (Lf "values") by discriminate. unfold loc1. lk. reflexivity. }
  { unfold loc3. lk. rewrite F2 by discriminate. exact Hgi. }
  { unfold loc3. lk. rewrite F2 by discriminate. exact Hc. }
  { unfold loc3. lk. reflexivity. }
  rewrite E4. cbn [bind app] in *.
  set (vs := out_values g ctx sl 0 (q_targets q) key) in *.
  destruct (having_append vs acc qobj loc4 flds Hq Hh Hhs (out_values_length _ _ _ _)) as [loc5 [E5 [R5 F5]]].
  { apply (frame_out_get _ _ _ _ _ F4); [unfold vmod; cbn [In]; intuition discriminate|].
    unfold loc3. lk. rewrite F2 by discriminate. exact Hqo. }
  { exact Hv4. }
  { apply (frame_out_get _ _ _ _ _ F4); [unfold vmod; cbn [In]; intuition discriminate|].
    unfold loc3. lk. rewrite (Lf "$skip") by discriminate. unfold loc1. lk. reflexivity. }
  { apply (frame_out_get _ _ _ _ _ F4); [unfold vmod; cbn [In]; intuition discriminate|].
    unfold loc3. lk. rewrite F2 by discriminate. exact Hr. }
  rewrite E5. exists loc5. split; [reflexivity|]. split; [exact R5|]. split.
  - rewrite (F5 "c_aggregate_exprs") by (cbn [In]; intuition discriminate).
    rewrite (F4 "c_aggregate_exprs") by (unfold vmod; cbn [In]; intuition discriminate).
    unfold loc3. lk. reflexivity.
  - intros y Hy. unfold okeep in Hy. cbn [In] in Hy.
    repeat (destruct Hy as [<-|Hy];
            [rewrite F5 by (cbn [In]; intuition discriminate);
             rewrite F4 by (unfold vmod; cbn [In]; intuition discriminate);
             unfold loc3; lk; rewrite F2 by discriminate; reflexivity|]).
    destruct Hy.
Qed.

Lemma output_loop : forall (tks : list nat) qobj (s : store), Forall entry_ok s ->
  (s <> [] -> targets_ok_from 0 tks (q_targets q)) -> qobj <> PSelf -> prim "attr:having_index" [qobj] = Ok having_pv ->
  forall (acc : list row) vals loc flds, length vals = n ->
  lookup "c_aggregate_exprs" loc = Some (PList (mk_nodes vals)) ->
  lookup "c_target_exprs" loc = Some (PList (map PRef tks)) ->
  lookup "group_indexes" loc = Some (PList (map idx g)) -> lookup "context" loc = Some cv ->
  lookup "query" loc = Some qobj -> lookup "rows" loc = Some (PList (map slots_pv acc)) ->
  exists loc',
    for_unpack_loop call_ref prim obody ["key"; "store"] {| locals := loc; fields := flds |} (map entry_pv s) =
      Ok (Next {| locals := loc'; fields := flds |}) /\
    lookup "rows" loc' = Some (PList (map slots_pv (acc ++ finalize q g ctx s))).
Proof.
  intros tks qobj s Hs Hts Hq Hh. induction Hs as [|[key sl] s Hk Hs IH]; intros acc vals loc flds Hv Hn Hte Hgi Hc Hqo Hr.
  - exists loc. cbn [map for_unpack_loop]. unfold finalize. cbn [flat_map]. rewrite app_nil_r. auto.
  - assert (Hts' : targets_ok_from 0 tks (q_targets q)) by (apply Hts; discriminate).
    specialize (IH (fun _ => Hts')). clear Hts. rename Hts' into Hts.
    cbn [map for_unpack_loop]. unfold entry_pv at 1. cbn [fst snd unpack_names write locals fields bind].
    match goal with |- context [exec_block _ _ {| locals := ?l; fields := _ |} _] => set (loc1 := l) end.
    destruct (entry_src tks key sl acc vals qobj loc1 flds Hts Hk Hv Hq Hh) as [loc2 [E [R [N K]]]];
      try (unfold loc1; lk; assumption); try (unfold loc1; lk; reflexivity).
    rewrite E. cbn [bind].
    destruct (IH (acc ++ (let vs := out_values g ctx sl 0 (q_targets q) key in if having_ok q vs then [vs] else []))%list
                 (map PV sl) loc2 flds) as [loc3 [E3 R3]].
    + rewrite map_length. destruct Hk as [Hl _]. exact Hl.
    + exact N.
    + rewrite (K "c_target_exprs") by (cbn; tauto). unfold loc1. lk. exact Hte.
    + rewrite (K "group_indexes") by (cbn; tauto). unfold loc1. lk. exact Hgi.
    + rewrite (K "context") by (cbn; tauto). unfold loc1. lk. exact Hc.
    + rewrite (K "query") by (cbn; tauto). unfold loc1. lk. exact Hqo.
    + exact R.
    + exists loc3. split; [exact E3|]. rewrite R3. unfold finalize. cbn [flat_map]. rewrite <- app_assoc. reflexivity.
Qed.

(* (4) the translated output part appends, for every entry of the store in insertion order, the row of Exec.out_values
   unless HAVING is falsy: Exec.finalize *)
Lemma agg_output_gen : forall (tks : list nat) qobj (s : store) (acc : list row) vals loc flds,
  Forall entry_ok s -> (s <> [] -> targets_ok_from 0 tks (q_targets q)) ->
  qobj <> PSelf -> prim "attr:having_index" [qobj] = Ok having_pv -> length vals = n ->
  lookup "aggregates" loc = Some (dict_pv s) -> lookup "c_aggregate_exprs" loc = Some (PList (mk_nodes vals)) ->
  lookup "c_target_exprs" loc = Some (PList (map PRef tks)) ->
  lookup "group_indexes" loc = Some (PList (map idx g)) -> lookup "context" loc = Some cv ->
  lookup "query" loc = Some qobj -> lookup "rows" loc = Some (PList (map slots_pv acc)) ->
  exists loc',
    exec_block call_ref prim {| locals := loc; fields := flds |} (f_body agg_output) =
      Ok (Next {| locals := loc'; fields := flds |}) /\
    lookup "rows" loc' = Some (PList (map slots_pv (acc ++ finalize q g ctx s))).
Proof.
  intros tks qobj s acc vals loc flds Hs Hts Hq Hh Hv Hag Hn Hte Hgi Hc Hqo Hr.
  rewrite agg_output_shape. rewrite exec_block_cons.
  assert (Ei : PyMini.eval call_ref prim {| locals := loc; fields := flds |} (XCallMethod (XName "aggregates") "items" []) =
               Ok ({| locals := loc; fields := flds |}, PList (map entry_pv s))).
  { cbn [PyMini.eval read locals bind String.append]. rewrite Hag. cbn [bind].
    rewrite Hlo by (cbn; tauto). reflexivity. }
  rewrite (exec_for_unpack call_ref prim _ _ _ _ _ _ Ei).
  destruct (output_loop tks qobj s Hs Hts Hq Hh acc vals loc flds Hv Hn Hte Hgi Hc Hqo Hr) as [loc' [E R]].
  rewrite E. cbn [bind exec_block]. exists loc'. split; [reflexivity|exact R].
Qed.

Theorem agg_output_src : forall (tks : list nat) qobj (s : store) (acc : list row) vals,
  Forall entry_ok s -> (s <> [] -> targets_ok_from 0 tks (q_targets q)) ->
  qobj <> PSelf -> prim "attr:having_index" [qobj] = Ok having_pv -> length vals = n ->
  exists s',
    exec_block call_ref prim
      {| locals := [("aggregates", dict_pv s); ("c_aggregate_exprs", PList (mk_nodes vals));
                    ("c_target_exprs", PList (map PRef tks)); ("group_indexes", PList (map idx g)); ("context", cv);
                    ("query", qobj); ("rows", PList (map slots_pv acc))]; fields := [] |}
      (f_body agg_output) = Ok (Next s') /\
    lookup "rows" (locals s') = Some (PList (map slots_pv (acc ++ finalize q g ctx s))).
Proof.
  intros tks qobj s acc vals Hs Hts Hq Hh Hv.
  destruct (agg_output_gen tks qobj s acc vals
              [("aggregates", dict_pv s); ("c_aggregate_exprs", PList (mk_nodes vals));
               ("c_target_exprs", PList (map PRef tks)); ("group_indexes", PList (map idx g)); ("context", cv);
               ("query", qobj); ("rows", PList (map slots_pv acc))] [] Hs Hts Hq Hh Hv
              eq_refl eq_refl eq_refl eq_refl eq_refl eq_refl eq_refl)
    as [loc' [E R]].
  eexists. split; [exact E|exact R].
Qed.
End Output.

(* ================================================================== part 2: the split of the targets; the allocate loop *)
Lemma refs_gca : refs = [(0%nat, "beanquery.compiler.get_columns_and_aggregates")].
Proof. reflexivity. Qed.

Section Split.
Variable call_ref : nat -> list pv -> pv.
Variable prim : string -> list pv -> res pv.
Variable g : list nat.
Variable aggs_of : nat -> list pv.        (* the aggregate nodes below a compiled target, in hunting order *)
Hypothesis Hlo : forall name args, In name lo_names -> prim name args = prims0 name args.

(* compiler.get_columns_and_aggregates (opaque callable 0 of Gen/SrcAgg.refs) returns the pair (columns, aggregates) *)
Definition gca_ok (k : nat) : Prop := exists cols, call_ref 0 [PRef k] = PTuple [cols; PList (aggs_of k)].

Fixpoint split_from (i : nat) (tks : list nat) : list nat * list pv :=
  match tks with
  | [] => ([], [])
  | k :: t => let p := split_from (S i) t in
              if existsb (Nat.eqb i) g then (k :: fst p, snd p) else (fst p, (aggs_of k ++ snd p)%list)
  end.

Definition sbody : list stmt :=
  [SIf (XCompare (XName "index") [(CIn, XName "group_indexes")])
     [SExpr (XMethod (TName "c_nonaggregate_exprs") "append" [XName "c_expr"])]
     [SUnpack [TName "_"; TName "aggregate_exprs"] (XCall (XConst (PRef 0)) [XName "c_expr"] None);
      SExpr (XMethod (TName "c_aggregate_exprs") "extend" [XName "aggregate_exprs"])]].

Definition smod : list string :=
  ["index"; "c_expr"; "_"; "aggregate_exprs"; "c_nonaggregate_exprs"; "c_aggregate_exprs"].

Lemma split_loop : forall tks i na aa loc flds,
  Forall gca_ok tks ->
  lookup "c_nonaggregate_exprs" loc = Some (PList na) -> lookup "c_aggregate_exprs" loc = Some (PList aa) ->
  lookup "group_indexes" loc = Some (PList (map idx g)) ->
  exists loc',
    for_unpack_loop call_ref prim sbody ["index"; "c_expr"] {| locals := loc; fields := flds |}
      (enumerate_from (Z.of_nat i) (map PRef tks)) = Ok (Next {| locals := loc'; fields := flds |}) /\
    lookup "c_nonaggregate_exprs" loc' = Some (PList (na ++ map PRef (fst (split_from i tks)))) /\
    lookup "c_aggregate_exprs" loc' = Some (PList (aa ++ snd (split_from i tks))) /\
    frame_out smod loc loc'.
Proof.
  induction tks as [|k tks IH]; intros i na aa loc flds Hg Hna Haa Hgi.
  - exists loc. cbn [map enumerate_from for_unpack_loop split_from fst snd]. rewrite !app_nil_r.
    repeat split; auto; intros y _; reflexivity.
  - inversion Hg as [|? ? [cols Hk] Hg']; subst.
    cbn [map enumerate_from for_unpack_loop unpack_names write locals fields bind].
    set (loc1 := update "c_expr" (PRef k) (update "index" (PInt (Z.of_nat i)) loc)).
    assert (Hna1 : lookup "c_nonaggregate_exprs" loc1 = Some (PList na)) by (unfold loc1; lk; exact Hna).
    assert (Haa1 : lookup "c_aggregate_exprs" loc1 = Some (PList aa)) by (unfold loc1; lk; exact Haa).
    assert (Hgi1 : lookup "group_indexes" loc1 = Some (PList (map idx g))) by (unfold loc1; lk; exact Hgi).
    assert (Hix : lookup "index" loc1 = Some (idx i)) by (unfold loc1; lk; reflexivity).
    assert (Hce : lookup "c_expr" loc1 = Some (PRef k)) by (unfold loc1; lk; reflexivity).
    assert (Ec : PyMini.eval call_ref prim {| locals := loc1; fields := flds |}
                   (XCompare (XName "index") [(CIn, XName "group_indexes")]) =
                 Ok ({| locals := loc1; fields := flds |}, PBool (existsb (Nat.eqb i) g))).
    { st. rewrite Hix. st. rewrite Hgi1. st. cbn [compare1]. rewrite existsb_idx. cbn [bind].
      destruct (existsb (Nat.eqb i) g); reflexivity. }
    unfold sbody at 1. rewrite exec_block_cons.
    rewrite (exec_if call_ref prim _ _ _ _ _ _ _ Ec eq_refl).
    cbn [split_from]. replace (Z.of_nat i + 1) with (Z.of_nat (S i)) by lia.
    destruct (existsb (Nat.eqb i) g) eqn:Eg; cbn [fst snd truthy].
    + rewrite exec_block_cons. st. rewrite Hce. st. rewrite Hna1. st.
      cbn [method_call String.eqb Ascii.eqb Bool.eqb bind write locals fields exec_block].
      match goal with |- context [for_unpack_loop _ _ _ _ {| locals := ?l; fields := _ |} _] => set (loc2 := l) end.
      destruct (IH (S i) (na ++ [PRef k])%list aa loc2 flds Hg') as [loc' [E [R1 [R2 F]]]].
      * unfold loc2. lk. reflexivity.
      * unfold loc2. lk. exact Haa1.
      * unfold loc2. lk. exact Hgi1.
      * exists loc'. split; [exact E|]. split; [rewrite R1, <- app_assoc; reflexivity|]. split; [exact R2|].
        intros y Hy. rewrite (F y Hy). unfold loc2, loc1. unfold smod in Hy. cbn [In] in Hy.
        rewrite !lookup_update_other by (intros ->; apply Hy; tauto). reflexivity.
    + rewrite exec_block_cons. st. rewrite Hce. st. cbn [do_call]. rewrite Hk. st.
      rewrite exec_block_cons. st. rewrite Haa1. st.
      cbn [method_call String.eqb Ascii.eqb Bool.eqb bind write locals fields exec_block].
      match goal with |- context [for_unpack_loop _ _ _ _ {| locals := ?l; fields := _ |} _] => set (loc2 := l) end.
      destruct (IH (S i) na (aa ++ aggs_of k)%list loc2 flds Hg') as [loc' [E [R1 [R2 F]]]].
      * unfold loc2. lk. exact Hna1.
      * unfold loc2. lk. reflexivity.
      * unfold loc2. lk. exact Hgi1.
      * exists loc'. split; [exact E|]. split; [exact R1|]. split; [rewrite R2, <- app_assoc; reflexivity|].
        intros y Hy. rewrite (F y Hy). unfold loc2, loc1. unfold smod in Hy. cbn [In] in Hy.
        rewrite !lookup_update_other by (intros ->; apply Hy; tauto). reflexivity.
Qed.

Lemma agg_split_shape :
  f_body agg_split = [SAssign (TName "c_nonaggregate_exprs") (XList []); SAssign (TName "c_aggregate_exprs") (XList []);
                      SForUnpack ["index"; "c_expr"] (XPrim "builtins.enumerate" [XName "c_target_exprs"]) sbody].
Proof. reflexivity. Qed.

(* (2) the translated split: grouping expressions = the targets at the positions of group_indexes, in target order;
   aggregate nodes = what get_columns_and_aggregates finds below the other targets, concatenated in target order *)
Lemma agg_split_gen : forall (tks : list nat) loc flds,
  Forall gca_ok tks ->
  lookup "c_target_exprs" loc = Some (PList (map PRef tks)) -> lookup "group_indexes" loc = Some (PList (map idx g)) ->
  exists loc',
    exec_block call_ref prim {| locals := loc; fields := flds |} (f_body agg_split) =
      Ok (Next {| locals := loc'; fields := flds |}) /\
    lookup "c_nonaggregate_exprs" loc' = Some (PList (map PRef (fst (split_from 0 tks)))) /\
    lookup "c_aggregate_exprs" loc' = Some (PList (snd (split_from 0 tks))) /\
    frame_out smod loc loc'.
Proof.
  intros tks loc flds Hg Hte Hgi. rewrite agg_split_shape.
  rewrite exec_block_cons. st. rewrite exec_block_cons. st.
  match goal with |- context [exec_block _ _ {| locals := ?l; fields := _ |} _] => set (loc1 := l) end.
  rewrite exec_block_cons.
  assert (Een : PyMini.eval call_ref prim {| locals := loc1; fields := flds |}
                  (XPrim "builtins.enumerate" [XName "c_target_exprs"]) =
                Ok ({| locals := loc1; fields := flds |}, PList (enumerate_from (Z.of_nat 0) (map PRef tks)))).
  { rewrite (eval_prim1 call_ref prim "builtins.enumerate" _ _ {| locals := loc1; fields := flds |} (PList (map PRef tks))).
    - rewrite Hlo by (cbn; tauto). reflexivity.
    - apply eval_name. cbn [locals]. unfold loc1. lk. exact Hte. }
  rewrite (exec_for_unpack call_ref prim _ _ _ _ _ _ Een).
  destruct (split_loop tks 0%nat [] [] loc1 flds Hg) as [loc' [E [R1 [R2 F]]]].
  { unfold loc1. lk. reflexivity. }
  { unfold loc1. lk. reflexivity. }
  { unfold loc1. lk. exact Hgi. }
  rewrite E. cbn [bind exec_block app] in *. exists loc'. split; [reflexivity|]. split; [exact R1|]. split; [exact R2|].
  intros y Hy. rewrite (F y Hy). unfold loc1. unfold smod in Hy. cbn [In] in Hy.
  rewrite !lookup_update_other by (intros ->; apply Hy; tauto). reflexivity.
Qed.

(* ---- the allocate loop *)
Lemma agg_alloc_shape :
  f_body agg_alloc = [SAssign (TName "allocator") (XPrim "new:beanquery.query_execute.Allocator" []);
                      SAssign (TName "$acc") (XList []);
                      SFor "c_expr" (XName "c_aggregate_exprs") (nbody "allocate" "c_expr" "allocator" []);
                      SAssign (TName "c_aggregate_exprs") (XName "$acc")].
Proof. reflexivity. Qed.

Definition amod : list string := ["allocator"; "$acc"; "c_expr"; "c_aggregate_exprs"].

Lemma agg_alloc_gen : forall (raw nodes' : list pv) (allocv0 allocv' : pv) loc flds,
  prim "new:beanquery.query_execute.Allocator" [] = Ok allocv0 ->
  node_fold (fun nd th => method_call prim "allocate" nd [th]) raw allocv0 = Ok (nodes', allocv') ->
  lookup "c_aggregate_exprs" loc = Some (PList raw) ->
  exists loc',
    exec_block call_ref prim {| locals := loc; fields := flds |} (f_body agg_alloc) =
      Ok (Next {| locals := loc'; fields := flds |}) /\
    lookup "allocator" loc' = Some allocv' /\ lookup "c_aggregate_exprs" loc' = Some (PList nodes') /\
    frame_out amod loc loc'.
Proof.
  intros raw nodes' allocv0 allocv' loc flds Hnew Hf Hn. rewrite agg_alloc_shape.
  rewrite exec_block_cons. st. rewrite Hnew. st. rewrite exec_block_cons. st.
  match goal with |- context [exec_block _ _ {| locals := ?l; fields := _ |} _] => set (loc1 := l) end.
  rewrite exec_block_cons.
  rewrite (exec_for call_ref prim "c_expr" _ _ {| locals := loc1; fields := flds |} {| locals := loc1; fields := flds |} raw).
  2:{ apply eval_name. cbn [locals]. unfold loc1. lk. exact Hn. }
  destruct (node_loop call_ref prim "allocate" "c_expr" "allocator" [] []
              ltac:(discriminate) ltac:(discriminate) ltac:(discriminate) (or_introl (conj eq_refl eq_refl))
              raw [] allocv0 loc1 flds nodes' allocv') as [loc2 [El [Lt [La Lf]]]].
  { unfold loc1. lk. reflexivity. }
  { unfold loc1. lk. reflexivity. }
  { intros e v H. discriminate H. }
  { exact Hf. }
  rewrite El. cbn [bind]. cbn [app] in La.
  rewrite exec_block_cons. st. rewrite La. st. cbn [exec_block].
  eexists. split; [reflexivity|]. split; [lk; exact Lt|]. split; [lk; reflexivity|].
  intros y Hy. unfold amod in Hy. cbn [In] in Hy.
  rewrite lookup_update_other by (intros ->; apply Hy; tauto).
  rewrite Lf by (intros ->; apply Hy; tauto). unfold loc1.
  rewrite !lookup_update_other by (intros ->; apply Hy; tauto). reflexivity.
Qed.
End Split.

(* ================================================================== part 5: the whole aggregated branch *)
Lemma exec_block_app call_ref prim : forall a b s,
  exec_block call_ref prim s (a ++ b) =
  bind (exec_block call_ref prim s a) (fun o => match o with Next s1 => exec_block call_ref prim s1 b | Ret _ _ => Ok o end).
Proof.
  induction a as [|c a IH]; intros b s; [reflexivity|]. cbn [app]. rewrite !exec_block_cons.
  destruct (PyMini.exec call_ref prim s c) as [[s1|s1 v]| |]; cbn [bind]; [apply IH|reflexivity|reflexivity|reflexivity].
Qed.

Lemma agg_branch_shape : f_body agg_branch = (f_body agg_split ++ f_body agg_alloc ++ f_body agg_scan ++ f_body agg_output)%list.
Proof. reflexivity. Qed.

Lemma last_map {A B} (f : A -> B) : forall (l : list A) a b, l <> [] -> last (map f l) b = f (last l a).
Proof.
  induction l as [|x l IH]; intros a b H; [congruence|]. destruct l as [|y l]; [reflexivity|].
  change (last (map f (x :: y :: l)) b) with (last (map f (y :: l)) b).
  change (last (x :: y :: l) a) with (last (y :: l) a). apply IH. discriminate.
Qed.

(* ---- invariants of the model's store *)
Definition KS (K S : list value -> Prop) (ks : list value * list value) : Prop := K (fst ks) /\ S (snd ks).

Lemma mset_KS (K S : list value -> Prop) key sl : forall s, Forall (KS K S) s -> K key -> S sl -> Forall (KS K S) (mset key sl s).
Proof.
  induction s as [|[k x] t IH]; intros Hs Hk Hsl; cbn [mset].
  - constructor; [split; assumption|constructor].
  - inversion Hs as [|? ? [H1 H2] H3]; subst. destruct (row_eq k key).
    + constructor; [split; assumption|exact H3].
    + constructor; [split; assumption|apply IH; assumption].
Qed.
Lemma mget_KS (K S : list value -> Prop) key : forall s sl, Forall (KS K S) s -> mget key s = Some sl -> S sl.
Proof.
  induction s as [|[k x] t IH]; intros sl Hs Hm; [discriminate|]. cbn [mget] in Hm.
  inversion Hs as [|? ? [H1 H2] H3]; subst. destruct (row_eq k key); [injection Hm as <-; exact H2|]. apply IH; assumption.
Qed.

Lemma scan_agg_KS q g (K S : list value -> Prop) :
  (forall r, K (group_key q g r)) -> S (init_all q) -> (forall r sl, S sl -> S (upd_all q r sl)) ->
  forall rows s, Forall (KS K S) s -> Forall (KS K S) (scan_agg q g s rows).
Proof.
  intros HK HS0 HSu. induction rows as [|r t IH]; intros s Hs; [exact Hs|]. cbn [scan_agg]. apply IH.
  destruct (passes q r); [|exact Hs].
  destruct (store_update_dict q r (group_key q g r) s) as [sl [Hget Hup]]. cbn zeta in Hget, Hup. rewrite Hup.
  assert (Hs1 : Forall (KS K S) (match mget (group_key q g r) s with Some _ => s | None => mset (group_key q g r) (init_all q) s end)).
  { destruct (mget (group_key q g r) s); [exact Hs|]. apply mset_KS; auto. }
  apply mset_KS; auto. apply HSu. apply (mget_KS K S _ _ _ Hs1 Hget).
Qed.

Lemma upd_all_length q r sl : length sl = length (q_aggs q) -> length (upd_all q r sl) = length (q_aggs q).
Proof. intros H. unfold upd_all. rewrite map_length, combine_length, H. apply Nat.min_id. Qed.

Lemma group_key_from g (f : enode -> value) : forall ts i,
  length (flat_map (fun '(i, e) => if existsb (Nat.eqb i) g then [f e] else []) (combine (seq i (length ts)) ts)) =
  gcount g i ts.
Proof.
  induction ts as [|e ts IH]; intros i; [reflexivity|]. cbn [length seq combine flat_map gcount].
  rewrite app_length, IH. destruct (existsb (Nat.eqb i) g); reflexivity.
Qed.

Lemma group_key_length q g r : length (group_key q g r) = gcount g 0 (q_targets q).
Proof. unfold group_key. apply (group_key_from g (Verif.Model.Eval.eval r [])). Qed.

Section Branch.
Variable call_ref : nat -> list pv -> pv.
Variable prim : string -> list pv -> res pv.
Variable ctx_of : row -> pv.
Variable q : query.
Variable g : list nat.
Variable table : list row.
Variable mk_nodes : list pv -> list pv.
Variable allocv : pv.
Variable good : list value -> Prop.
Variable aggs_of : nat -> list pv.
Variable raw : list pv.                   (* the aggregate nodes before allocate *)
Variables (allocv0 : pv) (vals0 : list pv).
Notation mev := Verif.Model.Eval.eval.
Notation n := (length (q_aggs q)).
Notation ctx := (last table []).

Hypothesis Hlo : forall name args, In name lo_names -> prim name args = prims0 name args.
Hypothesis Hcreate : prim "call:create_store" [allocv] = Ok (slots_pv (repeat VNull n)).
Hypothesis Hinit : forall vals, length vals = n -> exists vals', length vals' = n /\
  node_fold (fun nd th => method_call prim "initialize" nd [th]) (mk_nodes vals) (slots_pv (repeat VNull n)) =
  Ok (mk_nodes vals', slots_pv (init_all q)).
Hypothesis Hupd : forall vals r sl, length vals = n -> In r table -> good sl ->
  node_fold (fun nd th => method_call prim "update" nd [th; ctx_of r]) (mk_nodes vals) (slots_pv sl) =
  Ok (mk_nodes vals, slots_pv (upd_all q r sl)).
Hypothesis Hgood_init : good (init_all q).
Hypothesis Hgood_upd : forall r sl, In r table -> good sl -> good (upd_all q r sl).
Hypothesis Hfin : forall vals sl, length vals = n -> length sl = n ->
  node_fold (fun nd th => method_call prim "finalize" nd [th]) (mk_nodes vals) (slots_pv sl) =
  Ok (mk_nodes (map PV sl), slots_pv sl).
Hypothesis Hnew : prim "new:beanquery.query_execute.Allocator" [] = Ok allocv0.
Hypothesis Halloc : node_fold (fun nd th => method_call prim "allocate" nd [th]) raw allocv0 = Ok (mk_nodes vals0, allocv).
Hypothesis Hvals0 : length vals0 = n.

(* a grouped target: its value does not depend on the state of the aggregate nodes *)
Fixpoint gtargets_ok_from (i : nat) (tks : list nat) (ts : list enode) : Prop :=
  match tks, ts with
  | [], [] => True
  | k :: tks', e :: ts' =>
      (existsb (Nat.eqb i) g = true -> forall r, In r table -> expr_on call_ref ctx_of mk_nodes r k (mev r [] e)) /\
      gtargets_ok_from (S i) tks' ts'
  | _, _ => False
  end.

Lemma gtargets_keys : forall r, In r table -> forall ts tks i, gtargets_ok_from i tks ts ->
  Forall2 (expr_on call_ref ctx_of mk_nodes r) (fst (split_from g aggs_of i tks))
    (flat_map (fun '(i, e) => if existsb (Nat.eqb i) g then [mev r [] e] else []) (combine (seq i (length ts)) ts)).
Proof.
  intros r Hr. induction ts as [|e ts IH]; intros tks i H; destruct tks as [|k tks]; try destruct H; [constructor|].
  cbn [split_from length seq combine flat_map]. specialize (IH tks (S i) H0).
  destruct (existsb (Nat.eqb i) g); cbn [fst app]; [constructor; auto|exact IH].
Qed.

Lemma gtargets_keys_ok tks : gtargets_ok_from 0 tks (q_targets q) ->
  keys_ok call_ref ctx_of q g table mk_nodes (fst (split_from g aggs_of 0 tks)).
Proof. intros H r Hr. unfold group_key. apply gtargets_keys; assumption. Qed.

(* (5) the whole translated aggregated branch appends Exec.finalize (Exec.scan_agg ..) to rows *)
Theorem agg_branch_src : forall (tks : list nat) (cw qobj : pv) (acc : list row),
  Forall (gca_ok call_ref aggs_of) tks -> snd (split_from g aggs_of 0 tks) = raw ->
  qobj <> PSelf -> prim "attr:table" [qobj] = Ok (PList (map ctx_of table)) ->
  prim "attr:having_index" [qobj] = Ok (having_pv q) ->
  where_ok call_ref ctx_of q table mk_nodes cw ->
  gtargets_ok_from 0 tks (q_targets q) ->
  (table <> [] -> targets_ok_from call_ref q g ctx (ctx_of ctx) mk_nodes 0 tks (q_targets q)) ->
  (forall ks, In ks (scan_agg q g [] table) -> no_err (out_values g ctx (snd ks) 0 (q_targets q) (fst ks))) ->
  having_bound q ->
  exists s',
    exec_block call_ref prim
      {| locals := [("c_target_exprs", PList (map PRef tks)); ("group_indexes", PList (map idx g)); ("query", qobj);
                    ("c_where", cw); ("rows", PList (map slots_pv acc))]; fields := [] |}
      (f_body agg_branch) = Ok (Next s') /\
    lookup "rows" (locals s') = Some (PList (map slots_pv (acc ++ finalize q g ctx (scan_agg q g [] table)))).
Proof.
  intros tks cw qobj acc Hg Hraw Hq Htab Hhav Hw Hgt Hts Hsafe Hhb.
  rewrite agg_branch_shape.
  set (loc0 := [("c_target_exprs", PList (map PRef tks)); ("group_indexes", PList (map idx g)); ("query", qobj);
                ("c_where", cw); ("rows", PList (map slots_pv acc))]).
  (* split *)
  destruct (agg_split_gen call_ref prim g aggs_of Hlo tks loc0 [] Hg eq_refl eq_refl) as [loc1 [E1 [N1 [A1 F1]]]].
  rewrite exec_block_app, E1. cbn [bind]. rewrite Hraw in A1.
  (* allocate *)
  destruct (agg_alloc_gen call_ref prim raw (mk_nodes vals0) allocv0 allocv loc1 [] Hnew Halloc A1)
    as [loc2 [E2 [Al2 [A2 F2]]]].
  rewrite exec_block_app, E2. cbn [bind].
  assert (K2 : forall y v, ~ In y smod -> ~ In y amod -> lookup y loc0 = Some v -> lookup y loc2 = Some v).
  { intros y v H1 H2 H. rewrite (F2 y H2), (F1 y H1). exact H. }
  (* scan *)
  destruct (agg_scan_gen call_ref prim ctx_of q g table mk_nodes allocv good Hlo Hcreate Hinit Hupd Hgood_init Hgood_upd
              cw qobj (fst (split_from g aggs_of 0 tks)) vals0 loc2 [] Hq Htab Hw (gtargets_keys_ok tks Hgt) Hvals0)
    as [loc3 [vals3 [E3 [Ag3 [C3 [V3 [A3 F3]]]]]]].
  { apply K2; [unfold smod|unfold amod|reflexivity]; cbn [In]; intuition discriminate. }
  { apply K2; [unfold smod|unfold amod|reflexivity]; cbn [In]; intuition discriminate. }
  { rewrite (F2 "c_nonaggregate_exprs") by (unfold amod; cbn [In]; intuition discriminate). exact N1. }
  { exact Al2. }
  { exact A2. }
  rewrite exec_block_app, E3. cbn [bind].
  (* output *)
  assert (Hent : Forall (entry_ok q g ctx) (scan_agg q g [] table)).
  { pose proof (scan_agg_KS q g (fun k => (gcount g 0 (q_targets q) <= length k)%nat) (fun sl => length sl = n)) as H.
    specialize (H (fun r => eq_ind_r (fun x => (_ <= x)%nat) (le_n _) (group_key_length q g r))).
    specialize (H (map_length _ _) (upd_all_length q) table [] (Forall_nil _)).
    rewrite Forall_forall in *. intros ks Hks. destruct (H ks Hks) as [H1 H2]. unfold entry_ok. auto. }
  assert (Hcv : scan_agg q g [] table <> [] -> last (map ctx_of table) PNone = ctx_of ctx /\ table <> []).
  { intros Hne. destruct table as [|r0 t0] eqn:Et; [exfalso; apply Hne; reflexivity|].
    split; [apply last_map; discriminate|discriminate]. }
  destruct (scan_agg q g [] table) as [|e0 s0] eqn:Es.
  - (* no group: the loop body is never entered *)
    destruct (agg_output_gen call_ref prim q g ctx (last (map ctx_of table) PNone) mk_nodes Hlo Hfin tks qobj [] acc vals3 loc3 []
                (Forall_nil _) (fun H => False_ind _ (H eq_refl)) Hq Hhav V3 Ag3 A3) as [loc4 [E4 R4]].
    + rewrite (F3 "c_target_exprs") by (cbn; tauto). apply K2; [unfold smod|unfold amod|reflexivity]; cbn [In]; intuition discriminate.
    + rewrite (F3 "group_indexes") by (cbn; tauto). apply K2; [unfold smod|unfold amod|reflexivity]; cbn [In]; intuition discriminate.
    + exact C3.
    + rewrite (F3 "query") by (cbn; tauto). apply K2; [unfold smod|unfold amod|reflexivity]; cbn [In]; intuition discriminate.
    + rewrite (F3 "rows") by (cbn; tauto). apply K2; [unfold smod|unfold amod|reflexivity]; cbn [In]; intuition discriminate.
    + rewrite E4. eexists. split; [reflexivity|exact R4].
  - destruct (Hcv ltac:(discriminate)) as [Hc Hne]. rewrite Hc in C3.
    destruct (agg_output_gen call_ref prim q g ctx (ctx_of ctx) mk_nodes Hlo Hfin tks qobj (e0 :: s0) acc vals3 loc3 []
                Hent (fun _ => Hts Hne) Hq Hhav V3 Ag3 A3) as [loc4 [E4 R4]].
    + rewrite (F3 "c_target_exprs") by (cbn; tauto). apply K2; [unfold smod|unfold amod|reflexivity]; cbn [In]; intuition discriminate.
    + rewrite (F3 "group_indexes") by (cbn; tauto). apply K2; [unfold smod|unfold amod|reflexivity]; cbn [In]; intuition discriminate.
    + exact C3.
    + rewrite (F3 "query") by (cbn; tauto). apply K2; [unfold smod|unfold amod|reflexivity]; cbn [In]; intuition discriminate.
    + rewrite (F3 "rows") by (cbn; tauto). apply K2; [unfold smod|unfold amod|reflexivity]; cbn [In]; intuition discriminate.
    + rewrite E4. eexists. split; [reflexivity|exact R4].
Qed.
End Branch.

(* ================================================================== linking: the branch run with the translated methods *)
Definition raw_nodes (ds : list (nat * nat * pv)) (vals : list pv) : list pv :=
  map (fun dv => node_pv (fst (fst (fst dv))) PNone (PRef (snd (fst (fst dv)))) (snd (fst dv)) (snd dv)) (combine ds vals).

Lemma Forall2_len {A B} (R : A -> B -> Prop) l m : Forall2 R l m -> length l = length m.
Proof. induction 1; cbn; congruence. Qed.

Lemma agg_class_lt f c : agg_class f c -> (c < 8)%nat.
Proof. unfold agg_class. destruct f; intros H; try destruct H; subst; lia. Qed.

Section Link2.
Variable call_ref : nat -> list pv -> pv.
Variable ctx_of : row -> pv.
Variable q : query.
Variable table : list row.
Notation p1 := (prims1 call_ref alloc_init alloc_allocate alloc_create_store).
Notation p2 := (prims2 call_ref alloc_init alloc_allocate alloc_create_store classes).

Lemma node_alloc_p2 : forall c kd o v (z : Z), (c < 8)%nat ->
  method_call p2 "allocate" (node_pv c PNone (PRef kd) o v) [alloc_pv (PInt z)] =
  Ok (node_pv c (PInt z) (PRef kd) o v, alloc_pv (PInt (z + 1))).
Proof.
  intros c kd o v z Hc.
  do 8 (destruct c as [|c]; [reflexivity|]). lia.
Qed.

Lemma node_fin_p2 : forall c kd o i v (sl : list value), (c < 8)%nat -> (i < length sl)%nat ->
  method_call p2 "finalize" (anode c i kd o v) [slots_pv sl] = Ok (anode c i kd o (PV (nth i sl VNull)), slots_pv sl).
Proof.
  intros c kd o i v sl Hc Hi. rewrite mc_node. cbn [String.append]. unfold slots_pv.
  destruct (finalize_call_src call_ref i kd o v PNone sl Hi) as [E _].
  destruct c as [|c]; [rewrite (p2_protocol call_ref "method:finalize" 0%nat class_Count aggm_EvalAggregator_finalize) by reflexivity; rewrite E; reflexivity|].
  destruct c as [|c]; [rewrite (p2_protocol call_ref "method:finalize" 1%nat class_CountArg aggm_EvalAggregator_finalize) by reflexivity; rewrite E; reflexivity|].
  destruct c as [|c]; [rewrite (p2_protocol call_ref "method:finalize" 2%nat class_SumInt aggm_EvalAggregator_finalize) by reflexivity; rewrite E; reflexivity|].
  destruct c as [|c]; [rewrite (p2_protocol call_ref "method:finalize" 3%nat class_SumDecimal aggm_EvalAggregator_finalize) by reflexivity; rewrite E; reflexivity|].
  destruct c as [|c]; [rewrite (p2_protocol call_ref "method:finalize" 4%nat class_First aggm_EvalAggregator_finalize) by reflexivity; rewrite E; reflexivity|].
  destruct c as [|c]; [rewrite (p2_protocol call_ref "method:finalize" 5%nat class_Last aggm_EvalAggregator_finalize) by reflexivity; rewrite E; reflexivity|].
  destruct c as [|c]; [rewrite (p2_protocol call_ref "method:finalize" 6%nat class_Min aggm_EvalAggregator_finalize) by reflexivity; rewrite E; reflexivity|].
  destruct c as [|c]; [rewrite (p2_protocol call_ref "method:finalize" 7%nat class_Max aggm_EvalAggregator_finalize) by reflexivity; rewrite E; reflexivity|].
  lia.
Qed.

Lemma alloc_fold : forall ds vals i, Forall (fun d => (fst (fst d) < 8)%nat) ds -> length vals = length ds ->
  node_fold (fun nd th => method_call p2 "allocate" nd [th]) (raw_nodes ds vals) (alloc_pv (PInt (Z.of_nat i))) =
  Ok (mk_nodes_from i ds vals, alloc_pv (PInt (Z.of_nat (i + length ds)))).
Proof.
  induction ds as [|[[c kd] o] ds IH]; intros vals i Hc Hv.
  - destruct vals; [|discriminate]. cbn [raw_nodes combine map node_fold mk_nodes_from length]. rewrite Nat.add_0_r. reflexivity.
  - destruct vals as [|v vals]; [discriminate|]. cbn [length] in Hv. injection Hv as Hv.
    inversion Hc as [|? ? Hc1 Hc2]; subst. cbn [fst] in Hc1.
    unfold raw_nodes. cbn [combine map node_fold fst snd]. rewrite (node_alloc_p2 c kd o v _ Hc1). cbn [bind fst snd].
    fold (raw_nodes ds vals). replace (Z.of_nat i + 1) with (Z.of_nat (S i)) by lia.
    rewrite (IH vals (S i) Hc2 Hv). cbn [bind fst snd mk_nodes_from length].
    replace (S i + length ds)%nat with (i + S (length ds))%nat by lia. reflexivity.
Qed.

Lemma fin_fold : forall ds i (pre rest : list value) vals, Forall (fun d => (fst (fst d) < 8)%nat) ds ->
  length pre = i -> length rest = length ds -> length vals = length ds ->
  node_fold (fun nd th => method_call p2 "finalize" nd [th]) (mk_nodes_from i ds vals) (slots_pv (pre ++ rest)) =
  Ok (mk_nodes_from i ds (map PV rest), slots_pv (pre ++ rest)).
Proof.
  induction ds as [|[[c kd] o] ds IH]; intros i pre rest vals Hc Hp Hr Hv.
  - destruct rest; [|discriminate]. destruct vals; [|discriminate]. reflexivity.
  - destruct rest as [|x rest]; [discriminate|]. destruct vals as [|v vals]; [discriminate|].
    cbn [length] in Hr, Hv. injection Hr as Hr. injection Hv as Hv.
    inversion Hc as [|? ? Hc1 Hc2]; subst. cbn [fst] in Hc1.
    cbn [mk_nodes_from node_fold map].
    rewrite (node_fin_p2 c kd o (length pre) v (pre ++ x :: rest)%list Hc1) by (rewrite app_length; cbn [length]; lia).
    cbn [bind fst snd]. rewrite nth_app_len.
    assert (Hl : length (pre ++ [x])%list = S (length pre)) by (rewrite app_length; cbn [length]; lia).
    pose proof (IH (S (length pre)) (pre ++ [x])%list rest vals Hc2 Hl Hr Hv) as E.
    rewrite <- !app_assoc in E. cbn [app] in E. rewrite E. reflexivity.
Qed.

Lemma node_ok_classes : forall aggs ds, Forall2 (node_ok call_ref ctx_of table) aggs ds ->
  Forall (fun d => (fst (fst d) < 8)%nat) ds.
Proof.
  induction 1 as [|a d aggs ds [Hc _] _ IH]; constructor; [|exact IH]. apply (agg_class_lt _ _ Hc).
Qed.

(* (5, linked) the whole translated aggregated branch, run with the TRANSLATED Allocator and protocol methods *)
Theorem agg_branch_linked : forall (g : list nat) (ds : list (nat * nat * pv)) (aggs_of : nat -> list pv)
    (tks : list nat) (cw qobj : pv) (acc : list row) (vals0 : list pv),
  Forall2 (node_ok call_ref ctx_of table) (q_aggs q) ds -> homogeneous q table -> length vals0 = length ds ->
  Forall (gca_ok call_ref aggs_of) tks -> snd (split_from g aggs_of 0 tks) = raw_nodes ds vals0 ->
  qobj <> PSelf -> p2 "attr:table" [qobj] = Ok (PList (map ctx_of table)) ->
  p2 "attr:having_index" [qobj] = Ok (having_pv q) ->
  where_ok call_ref ctx_of q table (mk_nodes_from 0 ds) cw ->
  gtargets_ok_from call_ref ctx_of g table (mk_nodes_from 0 ds) 0 tks (q_targets q) ->
  (table <> [] -> targets_ok_from call_ref q g (last table []) (ctx_of (last table [])) (mk_nodes_from 0 ds) 0 tks (q_targets q)) ->
  (forall ks, In ks (scan_agg q g [] table) ->
     no_err (out_values g (last table []) (snd ks) 0 (q_targets q) (fst ks))) ->
  having_bound q ->
  exists s',
    exec_block call_ref p2
      {| locals := [("c_target_exprs", PList (map PRef tks)); ("group_indexes", PList (map idx g)); ("query", qobj);
                    ("c_where", cw); ("rows", PList (map slots_pv acc))]; fields := [] |}
      (f_body agg_branch) = Ok (Next s') /\
    lookup "rows" (locals s') =
      Some (PList (map slots_pv (acc ++ finalize q g (last table []) (scan_agg q g [] table)))).
Proof.
  intros g ds aggs_of tks cw qobj acc vals0 Hds Hh Hv0 Hg Hraw Hq Htab Hhav Hw Hgt Hts Hsafe Hhb.
  pose proof (node_ok_classes _ _ Hds) as Hcl.
  assert (Hn : length ds = length (q_aggs q)) by (symmetry; apply (Forall2_len _ _ _ Hds)).
  apply (agg_branch_src call_ref p2 ctx_of q g table (mk_nodes_from 0 ds)
           (alloc_pv (PInt (Z.of_nat (length (q_aggs q))))) (good q table) aggs_of (raw_nodes ds vals0)
           (alloc_pv (PInt 0)) vals0); try assumption.
  - apply p2_lo.
  - apply alloc_create_store_src.
  - intros vals Hv.
    destruct (init_fold call_ref ctx_of table (q_aggs q) ds Hds 0%nat [] (repeat VNull (length (q_aggs q))) vals eq_refl
                (repeat_length _ _) Hv) as [vals' [Hv' E]].
    exists vals'. split; [exact Hv'|exact E].
  - intros vals r sl Hv Hr Hgd. apply (upd_fold call_ref ctx_of table r Hr (q_aggs q) ds Hds 0%nat [] sl vals eq_refl Hv Hgd).
  - apply good_init.
  - apply good_upd. exact Hh.
  - intros vals sl Hv Hsl. apply (fin_fold ds 0%nat [] sl vals Hcl eq_refl); congruence.
  - apply new_allocator.
  - rewrite <- Hn. apply (alloc_fold ds vals0 0%nat Hcl Hv0).
  - congruence.
Qed.

(* with C02_partition_fold: what the translated branch leaves in `rows` is Exec.exec_rows on the aggregate path *)
Corollary agg_branch_exec_rows : forall (g : list nat) (ds : list (nat * nat * pv)) (aggs_of : nat -> list pv)
    (tks : list nat) (cw qobj : pv) (vals0 : list pv),
  q_group q = Some g ->
  Forall2 (node_ok call_ref ctx_of table) (q_aggs q) ds -> homogeneous q table -> length vals0 = length ds ->
  Forall (gca_ok call_ref aggs_of) tks -> snd (split_from g aggs_of 0 tks) = raw_nodes ds vals0 ->
  qobj <> PSelf -> p2 "attr:table" [qobj] = Ok (PList (map ctx_of table)) ->
  p2 "attr:having_index" [qobj] = Ok (having_pv q) ->
  where_ok call_ref ctx_of q table (mk_nodes_from 0 ds) cw ->
  gtargets_ok_from call_ref ctx_of g table (mk_nodes_from 0 ds) 0 tks (q_targets q) ->
  (table <> [] -> targets_ok_from call_ref q g (last table []) (ctx_of (last table [])) (mk_nodes_from 0 ds) 0 tks (q_targets q)) ->
  (forall ks, In ks (scan_agg q g [] table) ->
     no_err (out_values g (last table []) (snd ks) 0 (q_targets q) (fst ks))) ->
  having_bound q ->
  exists s',
    exec_block call_ref p2
      {| locals := [("c_target_exprs", PList (map PRef tks)); ("group_indexes", PList (map idx g)); ("query", qobj);
                    ("c_where", cw); ("rows", PList [])]; fields := [] |}
      (f_body agg_branch) = Ok (Next s') /\
    lookup "rows" (locals s') = Some (PList (map slots_pv (exec_rows q table))).
Proof.
  intros g ds aggs_of tks cw qobj vals0 Hgq Hds Hh Hv0 Hg Hraw Hq Htab Hhav Hw Hgt Hts Hsafe Hhb.
  unfold exec_rows. rewrite Hgq.
  apply (agg_branch_linked g ds aggs_of tks cw qobj [] vals0); assumption.
Qed.

(* (4, linked) the output part run with the translated finalize *)
Theorem agg_output_linked : forall (g : list nat) (ctx : row) (cv : pv) (ds : list (nat * nat * pv)) (tks : list nat)
    qobj (s : store) (acc : list row) vals,
  Forall (fun d => (fst (fst d) < 8)%nat) ds -> length ds = length (q_aggs q) ->
  Forall (entry_ok q g ctx) s ->
  (s <> [] -> targets_ok_from call_ref q g ctx cv (mk_nodes_from 0 ds) 0 tks (q_targets q)) ->
  qobj <> PSelf -> p2 "attr:having_index" [qobj] = Ok (having_pv q) -> length vals = length (q_aggs q) ->
  exists s',
    exec_block call_ref p2
      {| locals := [("aggregates", dict_pv s); ("c_aggregate_exprs", PList (mk_nodes_from 0 ds vals));
                    ("c_target_exprs", PList (map PRef tks)); ("group_indexes", PList (map idx g)); ("context", cv);
                    ("query", qobj); ("rows", PList (map slots_pv acc))]; fields := [] |}
      (f_body agg_output) = Ok (Next s') /\
    lookup "rows" (locals s') = Some (PList (map slots_pv (acc ++ finalize q g ctx s))).
Proof.
  intros g ctx cv ds tks qobj s acc vals Hcl Hn Hs Hts Hq Hh Hv.
  apply (agg_output_src call_ref p2 q g ctx cv (mk_nodes_from 0 ds)); try assumption.
  - apply p2_lo.
  - intros vals1 sl Hv1 Hsl. apply (fin_fold ds 0%nat [] sl vals1 Hcl eq_refl); congruence.
Qed.

(* (2, linked) the split of the targets and the allocate loop: handle = position *)
Theorem agg_split_linked : forall (g : list nat) (aggs_of : nat -> list pv) (tks : list nat),
  Forall (gca_ok call_ref aggs_of) tks ->
  exists s',
    exec_block call_ref p2
      {| locals := [("c_target_exprs", PList (map PRef tks)); ("group_indexes", PList (map idx g))]; fields := [] |}
      (f_body agg_split) = Ok (Next s') /\
    lookup "c_nonaggregate_exprs" (locals s') = Some (PList (map PRef (fst (split_from g aggs_of 0 tks)))) /\
    lookup "c_aggregate_exprs" (locals s') = Some (PList (snd (split_from g aggs_of 0 tks))).
Proof.
  intros g aggs_of tks Hg.
  destruct (agg_split_gen call_ref p2 g aggs_of (p2_lo call_ref) tks
              [("c_target_exprs", PList (map PRef tks)); ("group_indexes", PList (map idx g))] [] Hg eq_refl eq_refl)
    as [loc' [E [R1 [R2 _]]]].
  eexists. split; [exact E|]. split; assumption.
Qed.

Theorem agg_alloc_linked : forall (ds : list (nat * nat * pv)) (vals : list pv),
  Forall (fun d => (fst (fst d) < 8)%nat) ds -> length vals = length ds ->
  exists s',
    exec_block call_ref p2 {| locals := [("c_aggregate_exprs", PList (raw_nodes ds vals))]; fields := [] |}
      (f_body agg_alloc) = Ok (Next s') /\
    lookup "allocator" (locals s') = Some (alloc_pv (PInt (Z.of_nat (length ds)))) /\
    lookup "c_aggregate_exprs" (locals s') = Some (PList (mk_nodes_from 0 ds vals)).
Proof.
  intros ds vals Hcl Hv.
  destruct (agg_alloc_gen call_ref p2 (raw_nodes ds vals) (mk_nodes_from 0 ds vals) (alloc_pv (PInt 0))
              (alloc_pv (PInt (Z.of_nat (length ds)))) [("c_aggregate_exprs", PList (raw_nodes ds vals))] []
              (new_allocator call_ref) (alloc_fold ds vals 0%nat Hcl Hv) eq_refl) as [loc' [E [R1 [R2 _]]]].
  eexists. split; [exact E|]. split; assumption.
Qed.
End Link2.
