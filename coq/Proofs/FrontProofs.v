(* C06 proofs, front end: text -> rows; the translation to the compiler's AST loses nothing. *)
From Coq Require Import String Ascii ZArith NArith List Bool Arith Lia.
Import ListNotations.
From Verif Require Import Base.PyValue.
From Verif Require Import Model.Ast Model.Lexer Model.Parser Model.Printer Model.Spelling Model.Front.
From Verif Require Import Proofs.ParserProofs Proofs.LexerProofs.
From Verif Require Model.Compile Model.Link Model.Dates.

(* ---------------------------------------------------------------------- *)
(* running the text of a printed statement = running the statement *)

Theorem run_text_print : forall sch p dat s ss gs g0,
  wf_stmt s = true -> lex_ok (print_stmt s) = true ->
  Forall2 spell (print_stmt s) ss -> sep g0 -> seps_ok (print_stmt s) gs ->
  run_text sch p dat (render_text g0 ss gs)
  = match to_cstmt (stmt_erase s) with Some c => L.run_stmt sch p dat c | None => None end.
Proof.
  intros. unfold run_text. rewrite (text_roundtrip s ss gs g0) by assumption. reflexivity.
Qed.

Theorem run_text_canonical : forall sch p dat s,
  wf_stmt s = true -> lex_ok (print_stmt s) = true ->
  run_text sch p dat (render (print_stmt s))
  = match to_cstmt (stmt_erase s) with Some c => L.run_stmt sch p dat c | None => None end.
Proof.
  intros. unfold run_text. rewrite text_roundtrip_canonical by assumption. reflexivity.
Qed.

(* ---------------------------------------------------------------------- *)
(* injectivity of the components *)

Lemma ascii_of_Z_inj a b : plain_char a = true -> plain_char b = true -> ascii_of_Z a = ascii_of_Z b -> a = b.
Proof.
  unfold plain_char, ascii_of_Z. intros Ha Hb E.
  apply andb_prop in Ha. destruct Ha as [Ha _]. apply andb_prop in Ha. destruct Ha as [Ha1 Ha2].
  apply andb_prop in Hb. destruct Hb as [Hb _]. apply andb_prop in Hb. destruct Hb as [Hb1 Hb2].
  apply Z.leb_le in Ha1, Ha2, Hb1, Hb2.
  apply (f_equal nat_of_ascii) in E. rewrite !nat_ascii_embedding in E by lia. lia.
Qed.

Lemma string_of_inj a : forall b, forallb plain_char a = true -> forallb plain_char b = true ->
  string_of a = string_of b -> a = b.
Proof.
  induction a as [|x a IH]; intros [|y b] Ha Hb E; cbn [string_of forallb] in *; try discriminate; [reflexivity|].
  apply andb_prop in Ha. apply andb_prop in Hb. destruct Ha as [Hx Ha], Hb as [Hy Hb].
  injection E as E1 E2. f_equal; [apply ascii_of_Z_inj; assumption|apply IH; assumption].
Qed.

Lemma enc_name_inj a b s : enc_name a = Some s -> enc_name b = Some s -> a = b.
Proof.
  unfold enc_name. destruct (forallb plain_char a) eqn:Ha; [|discriminate]. destruct (forallb plain_char b) eqn:Hb; [|discriminate].
  intros E1 E2. apply string_of_inj; [exact Ha|exact Hb|]. injection E1 as E1. injection E2 as E2. congruence.
Qed.

Lemma oname_inj a b s : oname a = Some s -> oname b = Some s -> a = b.
Proof.
  unfold oname. destruct a as [a|], b as [b|].
  - destruct (enc_name a) eqn:Ea, (enc_name b) eqn:Eb; try discriminate. intros E1 E2. f_equal.
    apply (enc_name_inj a b s0); congruence.
  - destruct (enc_name a); congruence.
  - destruct (enc_name b); congruence.
  - reflexivity.
Qed.

(* ---------------------------------------------------------------------- *)
(* date.toordinal() is injective on calendar dates *)
Module D := Verif.Model.Dates.
Local Open Scope Z_scope.

Lemma dby_step y : D.days_before_year (y + 1) = D.days_before_year y + 365 + (if D.is_leap y then 1 else 0).
Proof.
  unfold D.days_before_year, D.is_leap. replace (y + 1 - 1) with y by lia.
  destruct (y mod 4 =? 0) eqn:E4; destruct (y mod 100 =? 0) eqn:E100; destruct (y mod 400 =? 0) eqn:E400;
    cbn [andb orb negb];
    apply Z.eqb_eq in E4 || apply Z.eqb_neq in E4; apply Z.eqb_eq in E100 || apply Z.eqb_neq in E100;
    apply Z.eqb_eq in E400 || apply Z.eqb_neq in E400; Z.div_mod_to_equations; lia.
Qed.

Lemma dby_mono a b : a <= b -> D.days_before_year a <= D.days_before_year b.
Proof. unfold D.days_before_year. intros H. Z.div_mod_to_equations. lia. Qed.

Lemma month_cases m : 1 <= m <= 12 ->
  m = 1 \/ m = 2 \/ m = 3 \/ m = 4 \/ m = 5 \/ m = 6 \/ m = 7 \/ m = 8 \/ m = 9 \/ m = 10 \/ m = 11 \/ m = 12.
Proof. lia. Qed.

Lemma valid_ymd_inv y m d : D.valid_ymd y m d = true -> 1 <= y /\ 1 <= m <= 12 /\ 1 <= d <= D.days_in_month y m.
Proof.
  unfold D.valid_ymd. intros H. repeat (apply andb_prop in H; destruct H as [H ?]).
  repeat match goal with H : (_ <=? _) = true |- _ => apply Z.leb_le in H end. lia.
Qed.

(* the day of the year *)
Definition yday (y m d : Z) : Z := D.days_before_month y m + d.

Lemma yday_span y m d : D.valid_ymd y m d = true -> 1 <= yday y m d <= 365 + (if D.is_leap y then 1 else 0).
Proof.
  intros H. destruct (valid_ymd_inv y m d H) as (_ & Hm & Hd). unfold yday, D.days_before_month, D.days_in_month in *.
  destruct (D.is_leap y);
    destruct (month_cases m Hm) as [-> | [-> | [-> | [-> | [-> | [-> | [-> | [-> | [-> | [-> | [-> | ->]]]]]]]]]]];
    unfold D.dbm_table, D.dim_table in *;
    cbv [nth Z.to_nat Pos.to_nat Pos.iter_op Init.Nat.add Z.eqb Pos.eqb Z.ltb Z.compare Pos.compare Pos.compare_cont andb orb] in *; lia.
Qed.

Lemma yday_inj y m d m' d' : D.valid_ymd y m d = true -> D.valid_ymd y m' d' = true ->
  yday y m d = yday y m' d' -> m = m' /\ d = d'.
Proof.
  intros H H'. destruct (valid_ymd_inv y m d H) as (_ & Hm & Hd). destruct (valid_ymd_inv y m' d' H') as (_ & Hm' & Hd').
  unfold yday, D.days_before_month, D.days_in_month in *.
  destruct (D.is_leap y);
    destruct (month_cases m Hm) as [-> | [-> | [-> | [-> | [-> | [-> | [-> | [-> | [-> | [-> | [-> | ->]]]]]]]]]]];
    destruct (month_cases m' Hm') as [-> | [-> | [-> | [-> | [-> | [-> | [-> | [-> | [-> | [-> | [-> | ->]]]]]]]]]]];
    unfold D.dbm_table, D.dim_table in *;
    cbv [nth Z.to_nat Pos.to_nat Pos.iter_op Init.Nat.add Z.eqb Pos.eqb Z.ltb Z.compare Pos.compare Pos.compare_cont andb orb] in *; intros E; lia.
Qed.

Lemma ymd2ord_inj y m d y' m' d' : D.valid_ymd y m d = true -> D.valid_ymd y' m' d' = true ->
  D.ymd2ord y m d = D.ymd2ord y' m' d' -> y = y' /\ m = m' /\ d = d'.
Proof.
  intros H H' E. unfold D.ymd2ord in E.
  pose proof (yday_span y m d H) as S1. pose proof (yday_span y' m' d' H') as S2. unfold yday in *.
  pose proof (dby_step y) as T1. pose proof (dby_step y') as T2.
  assert (y = y').
  { destruct (Z.lt_trichotomy y y') as [Hlt | [Heq | Hgt]]; [|exact Heq|].
    - pose proof (dby_mono (y + 1) y' ltac:(lia)). lia.
    - pose proof (dby_mono (y' + 1) y ltac:(lia)). lia. }
  subst y'. split; [reflexivity|]. apply (yday_inj y m d m' d' H H'). unfold yday. lia.
Qed.

Lemma ord_of_inj y m d y' m' d' o : ord_of y m d = Some o -> ord_of y' m' d' = Some o -> y = y' /\ m = m' /\ d = d'.
Proof.
  unfold ord_of. destruct (D.valid_ymd (Z.of_N y) (Z.of_N m) (Z.of_N d)) eqn:V; [|discriminate].
  destruct (D.valid_ymd (Z.of_N y') (Z.of_N m') (Z.of_N d')) eqn:V'; [|discriminate].
  intros E1 E2. injection E1 as E1. injection E2 as E2.
  assert (EE : D.ymd2ord (Z.of_N y) (Z.of_N m) (Z.of_N d) = D.ymd2ord (Z.of_N y') (Z.of_N m') (Z.of_N d')) by congruence.
  destruct (ymd2ord_inj _ _ _ _ _ _ V V' EE) as (A & B & Cc). repeat split; apply N2Z.inj; assumption.
Qed.

Lemma value_of_lit_inj a b v : value_of_lit a = Some v -> value_of_lit b = Some v -> a = b.
Proof.
  destruct a, b; cbn [value_of_lit]; intros E1 E2;
    repeat match goal with
           | H : match ord_of ?y ?m ?d with _ => _ end = Some _ |- _ => destruct (ord_of y m d) eqn:?; [|discriminate H]
           end;
    try congruence.
  - injection E1 as <-. injection E2 as E2. f_equal. lia.
  - injection E1 as <-. injection E2 as E2 E3. f_equal; lia.
  - injection E1 as <-. injection E2 as E2. subst.
    destruct (ord_of_inj _ _ _ _ _ _ _ Heqo Heqo0) as (A & B & Cc). congruence.
Qed.

Lemma values_of_lits_inj a : forall b v, values_of_lits a = Some v -> values_of_lits b = Some v -> a = b.
Proof.
  induction a as [|x a IH]; intros [|y b] v E1 E2; cbn [values_of_lits] in *; try reflexivity.
  - destruct (value_of_lit y), (values_of_lits b); congruence.
  - destruct (value_of_lit x), (values_of_lits a); congruence.
  - destruct (value_of_lit x) eqn:Ex, (values_of_lits a) eqn:Ea; try discriminate.
    destruct (value_of_lit y) eqn:Ey, (values_of_lits b) eqn:Eb; try discriminate.
    injection E1 as <-. injection E2 as E2 E3. subst. f_equal; [eapply value_of_lit_inj; eassumption|apply (IH b l eq_refl Eb)].
Qed.

Lemma arith_name_inj a b : arith_name a = arith_name b -> a = b.
Proof. destruct a, b; cbn; congruence. Qed.
Lemma cmp_name_inj a b : cmp_name a = cmp_name b -> a = b.
Proof. destruct a, b; cbn; congruence. Qed.
Lemma arith_cmp_name a b : arith_name a <> cmp_name b.
Proof. destruct a, b; cbn; discriminate. Qed.

(* mapk *)
Lemma mapk_nil {A B} (f : nat -> A -> option B) cnt k : mapk f cnt k [] = Some [].
Proof. reflexivity. Qed.
Lemma mapk_cons {A B} (f : nat -> A -> option B) cnt k x t :
  mapk f cnt k (x :: t) = match f k x, mapk f cnt (k + cnt x)%nat t with
                          | Some a, Some r => Some (a :: r) | _, _ => None end.
Proof. reflexivity. Qed.

Lemma mapk_inj {A B} (f : nat -> A -> option B) cnt : forall l1 l2 k r,
  (forall x, List.In x l1 -> forall k y b, f k x = Some b -> f k y = Some b -> x = y) ->
  mapk f cnt k l1 = Some r -> mapk f cnt k l2 = Some r -> l1 = l2.
Proof.
  induction l1 as [|x l1 IH]; intros [|y l2] k r Hf E1 E2; try reflexivity.
  - rewrite mapk_nil in E1. rewrite mapk_cons in E2. destruct (f k y), (mapk f cnt (k + cnt y) l2); congruence.
  - rewrite mapk_nil in E2. rewrite mapk_cons in E1. destruct (f k x), (mapk f cnt (k + cnt x) l1); congruence.
  - rewrite mapk_cons in E1, E2.
    destruct (f k x) eqn:Fx; [|discriminate]. destruct (mapk f cnt (k + cnt x) l1) eqn:M1; [|discriminate].
    destruct (f k y) eqn:Fy; [|discriminate]. destruct (mapk f cnt (k + cnt y) l2) eqn:M2; [|discriminate].
    injection E1 as <-. injection E2 as E2 E3. subst.
    assert (x = y) by (eapply (Hf x (or_introl eq_refl)); eassumption). subst y.
    f_equal. eapply IH; [|eassumption|eassumption]. intros; eapply Hf; [right|..]; eassumption.
Qed.

(* ---------------------------------------------------------------------- *)
(* the translation of SELECT, component by component *)
Local Open Scope nat_scope.

Definition ftarget (k : nat) (x : expr * option str) : option (C.expr * option string * string) :=
  match x with
  | (xe, nm) => match tr k xe, oname nm with
                | Some cx, Some cn => Some (cx, cn, text_of_tokens (pp 1 xe))
                | _, _ => None
                end
  end.
Definition fgcol (k : nat) (c : N + expr) : option (Z + C.expr) :=
  match c with
  | inl n => Some (inl (Z.of_N n))
  | inr y => match tr k y with Some cy => Some (inr cy) | None => None end
  end.
Definition ford (k : nat) (x : (N + expr) * bool) : option ((Z + C.expr) * bool) :=
  match x with
  | (inl n, dsc) => Some (inl (Z.of_N n), dsc)
  | (inr y, dsc) => match tr k y with Some cy => Some (inr cy, dsc) | None => None end
  end.
Definition tr_targets (k : nat) (t : option (list (expr * option str))) :=
  match t with
  | None => Some None
  | Some tl => match mapk ftarget (fun x => nplace (fst x)) k tl with Some l => Some (Some l) | None => None end
  end.
Definition tr_from (kt : nat) (f : option (fromc expr)) : option (C.fromkind * option C.expr) :=
  match f with
  | None => Some (C.FKNone, None)
  | Some (FTable n) => match enc_name n with Some s => Some (C.FKTable s, None) | None => None end
  | Some (FSub s) => match tr kt s with Some cs => Some (C.FKSelect, Some cs) | None => None end
  | Some (FFrom x op c cl) =>
      match fk_of op c cl, otr (fun y => tr kt y) x with
      | Some fk, Some fe => Some (fk, fe)
      | _, _ => None
      end
  end.
Definition tr_group (kw : nat) (g : option (list (N + expr) * option expr)) :=
  match g with
  | None => Some None
  | Some (gl, h) =>
      match mapk fgcol (ssize nplace) kw gl, otr (fun y => tr (kw + lsize (ssize nplace) gl) y) h with
      | Some cl, Some ch => Some (Some (cl, ch))
      | _, _ => None
      end
  end.

Lemma tr_select_eq k d t f w g o p lim :
  tr k (ESelect d t f w g o p lim) =
  let kt := k + osum (lsize (fun p => nplace (fst p))) t in
  let kf := kt + osum (from_size nplace) f in
  let kw := kf + osum nplace w in
  let kg := kw + osum (fun p => lsize (ssize nplace) (fst p) + osum nplace (snd p)) g in
  match tr_targets k t, tr_from kt f, otr (fun y => tr kf y) w, tr_group kw g,
        mapk ford (fun x => ssize nplace (fst x)) kg o, pivot_of p with
  | Some ct, Some (fk, fe), Some cw, Some cg, Some co, Some cp =>
      Some (C.ESelect ct fk fe cw cg co cp (omap Z.of_N lim) d)
  | _, _, _, _, _, _ => None
  end.
Proof. reflexivity. Qed.

Definition IHn (n : nat) : Prop :=
  forall e1, esize e1 <= n -> forall k e2 c, tr k e1 = Some c -> tr k e2 = Some c -> e1 = e2.

Lemma otr_inj n k w1 w2 c : IHn n -> osize esize w1 <= n ->
  otr (fun y => tr k y) w1 = Some c -> otr (fun y => tr k y) w2 = Some c -> w1 = w2.
Proof.
  intros IH Hs. unfold otr. destruct w1 as [x|], w2 as [y|]; cbn [osize] in Hs.
  - destruct (tr k x) eqn:E1; [|discriminate]. destruct (tr k y) eqn:E2; [|discriminate]. intros H1 H2. f_equal.
    eapply IH; [exact Hs|exact E1|]. congruence.
  - destruct (tr k x); congruence.
  - destruct (tr k y); congruence.
  - reflexivity.
Qed.

Lemma ftarget_inj n k x y b : IHn n -> esize (fst x) <= n -> ftarget k x = Some b -> ftarget k y = Some b -> x = y.
Proof.
  intros IH Hs. destruct x as [xe xn], y as [ye yn]. cbn [ftarget fst] in *.
  destruct (tr k xe) eqn:E1; [|discriminate]. destruct (oname xn) eqn:N1; [|discriminate].
  destruct (tr k ye) eqn:E2; [|discriminate]. destruct (oname yn) eqn:N2; [|discriminate].
  intros H1 H2. injection H1 as <-. injection H2 as A B _. subst.
  f_equal; [eapply IH; eassumption|eapply oname_inj; eassumption].
Qed.

Lemma fgcol_inj n k x y b : IHn n -> ssize esize x <= n -> fgcol k x = Some b -> fgcol k y = Some b -> x = y.
Proof.
  intros IH Hs. destruct x as [a|x], y as [a'|y]; cbn [fgcol ssize] in *.
  - intros H1 H2. injection H1 as <-. injection H2 as H2. f_equal. lia.
  - destruct (tr k y); congruence.
  - destruct (tr k x); congruence.
  - destruct (tr k x) eqn:E1; [|discriminate]. destruct (tr k y) eqn:E2; [|discriminate].
    intros H1 H2. f_equal. eapply IH; [exact Hs|exact E1|]. congruence.
Qed.

Lemma ford_inj n k x y b : IHn n -> ssize esize (fst x) <= n -> ford k x = Some b -> ford k y = Some b -> x = y.
Proof.
  intros IH Hs. destruct x as [[a|x] dx], y as [[a'|y] dy]; cbn [ford ssize fst] in *.
  - intros H1 H2. injection H1 as <-. injection H2 as H2 H3. subst. do 2 f_equal. lia.
  - destruct (tr k y); congruence.
  - destruct (tr k x); congruence.
  - destruct (tr k x) eqn:E1; [|discriminate]. destruct (tr k y) eqn:E2; [|discriminate].
    intros H1 H2. injection H1 as <-. injection H2 as H2 H3. subst. do 2 f_equal. eapply IH; eassumption.
Qed.

Lemma date_ord_inj a b o : date_ord a = Some o -> date_ord b = Some o -> a = b.
Proof.
  destruct a as [[y m] d], b as [[y' m'] d']. cbn [date_ord]. intros H1 H2.
  destruct (ord_of_inj _ _ _ _ _ _ _ H1 H2) as (A & B & Cc). congruence.
Qed.

Lemma fk_of_inj o c cl o' c' cl' fk : fk_of o c cl = Some fk -> fk_of o' c' cl' = Some fk ->
  o = o' /\ c = c' /\ cl = cl'.
Proof.
  unfold fk_of. intros H1 H2.
  assert (A : forall (x : option date) r, match x with Some d => match date_ord d with Some z => Some (Some z) | None => None end
                                                  | None => Some None end = Some r ->
              forall y, match y with Some d => match date_ord d with Some z => Some (Some z) | None => None end
                                    | None => Some None end = Some r -> x = y).
  { intros [a|] r Hx [b|] Hy; try reflexivity.
    - destruct (date_ord a) eqn:Ea, (date_ord b) eqn:Eb; try discriminate. f_equal. eapply date_ord_inj; [exact Ea|]. congruence.
    - destruct (date_ord a); congruence.
    - destruct (date_ord b); congruence. }
  assert (B : forall (x : option (option date)) r,
              match x with Some (Some d) => match date_ord d with Some z => Some (Some (Some z)) | None => None end
                         | Some None => Some (Some None) | None => Some None end = Some r ->
              forall y, match y with Some (Some d) => match date_ord d with Some z => Some (Some (Some z)) | None => None end
                                   | Some None => Some (Some None) | None => Some None end = Some r -> x = y).
  { intros [[a|]|] r Hx [[b|]|] Hy; try reflexivity; try congruence;
      try (destruct (date_ord a) eqn:Ea); try (destruct (date_ord b) eqn:Eb); try congruence.
    do 2 f_equal. eapply date_ord_inj; [exact Ea|]. congruence. }
  destruct (match o with Some d => match date_ord d with Some z => Some (Some z) | None => None end | None => Some None end) eqn:O1; [|discriminate].
  destruct (match c with Some (Some d) => match date_ord d with Some z => Some (Some (Some z)) | None => None end
                       | Some None => Some (Some None) | None => Some None end) eqn:C1; [|discriminate].
  destruct (match o' with Some d => match date_ord d with Some z => Some (Some z) | None => None end | None => Some None end) eqn:O2; [|discriminate].
  destruct (match c' with Some (Some d) => match date_ord d with Some z => Some (Some (Some z)) | None => None end
                        | Some None => Some (Some None) | None => Some None end) eqn:C2; [|discriminate].
  injection H1 as <-. injection H2 as E1 E2 E3. subst. repeat split; [eapply A; eassumption|eapply B; eassumption].
Qed.

Lemma fk_of_shape o c cl f : fk_of o c cl = Some f -> exists a b, f = C.FKExpr a b cl.
Proof.
  unfold fk_of. intros H.
  destruct (match o with Some d => match date_ord d with Some z => Some (Some z) | None => None end | None => Some None end); [|discriminate].
  destruct (match c with Some (Some d) => match date_ord d with Some z => Some (Some (Some z)) | None => None end
                       | Some None => Some (Some None) | None => Some None end); [|discriminate].
  injection H as <-. eauto.
Qed.

Lemma pcol_of_inj a b c : pcol_of a = Some c -> pcol_of b = Some c -> a = b.
Proof.
  destruct a as [x|x], b as [y|y]; cbn [pcol_of]; try (destruct (enc_name x) eqn:Ex); try (destruct (enc_name y) eqn:Ey);
    try congruence.
  - intros H1 H2. injection H1 as <-. injection H2 as H2. f_equal. lia.
  - intros H1 H2. f_equal. eapply enc_name_inj; [exact Ex|]. congruence.
Qed.

Lemma pivot_of_inj a b c : pivot_of a = Some c -> pivot_of b = Some c -> a = b.
Proof.
  destruct a as [[a1 a2]|], b as [[b1 b2]|]; cbn [pivot_of]; try reflexivity.
  - destruct (pcol_of a1) eqn:A1, (pcol_of a2) eqn:A2; try discriminate.
    destruct (pcol_of b1) eqn:B1, (pcol_of b2) eqn:B2; try discriminate.
    intros H1 H2. injection H1 as <-. injection H2 as E1 E2. subst.
    do 2 f_equal; eapply pcol_of_inj; eassumption.
  - destruct (pcol_of a1), (pcol_of a2); congruence.
  - destruct (pcol_of b1), (pcol_of b2); congruence.
Qed.

Lemma tr_from_inj n k f1 f2 c : IHn n -> osize (from_size esize) f1 <= n ->
  tr_from k f1 = Some c -> tr_from k f2 = Some c -> f1 = f2.
Proof.
  intros IH Hs. unfold tr_from.
  destruct f1 as [[n1|s1|x1 o1 c1 cl1]|], f2 as [[n2|s2|x2 o2 c2 cl2]|]; cbn [osize from_size] in Hs;
    repeat match goal with
           | |- context [enc_name ?x] => destruct (enc_name x) eqn:?
           | |- context [tr k ?x] => destruct (tr k x) eqn:?
           | |- context [fk_of ?a ?b ?cc] =>
               let E := fresh "FK" in destruct (fk_of a b cc) eqn:E;
               [let H := fresh in pose proof (fk_of_shape _ _ _ _ E) as (? & ? & H); rewrite H in *|]
           | |- context [otr ?f ?x] => destruct (otr f x) eqn:?
           end; try congruence; intros H1 H2.
  - do 2 f_equal. eapply enc_name_inj; [eassumption|]. congruence.
  - do 2 f_equal. eapply IH; [exact Hs|eassumption|]. congruence.
  - injection H1 as <-. injection H2 as E1 E2 E3 E4. subst.
    destruct (fk_of_inj _ _ _ _ _ _ _ FK FK0) as (A & B & Cc). subst.
    do 2 f_equal. eapply (otr_inj n k); [exact IH|exact Hs|eassumption|eassumption].
Qed.

Lemma tr_targets_inj n k t1 t2 c : IHn n -> osize (lsize (fun p => esize (fst p))) t1 <= n ->
  tr_targets k t1 = Some c -> tr_targets k t2 = Some c -> t1 = t2.
Proof.
  intros IH Hs. unfold tr_targets. destruct t1 as [l1|], t2 as [l2|]; cbn [osize] in Hs.
  - destruct (mapk ftarget (fun x => nplace (fst x)) k l1) eqn:M1; [|discriminate].
    destruct (mapk ftarget (fun x => nplace (fst x)) k l2) eqn:M2; [|discriminate].
    intros H1 H2. f_equal. eapply (mapk_inj ftarget); [|exact M1|congruence].
    intros x Hx k' y b. apply (ftarget_inj n); [exact IH|].
    pose proof (In_lsize (fun p : expr * option str => esize (fst p)) x l1 Hx). cbv beta in *. lia.
  - destruct (mapk ftarget (fun x => nplace (fst x)) k l1); congruence.
  - destruct (mapk ftarget (fun x => nplace (fst x)) k l2); congruence.
  - reflexivity.
Qed.

Lemma tr_group_inj n k g1 g2 c : IHn n ->
  osize (fun p => lsize (ssize esize) (fst p) + osize esize (snd p)) g1 <= n ->
  tr_group k g1 = Some c -> tr_group k g2 = Some c -> g1 = g2.
Proof.
  intros IH Hs. unfold tr_group. destruct g1 as [[l1 h1]|], g2 as [[l2 h2]|]; cbn [osize fst snd] in Hs; try reflexivity.
  - destruct (mapk fgcol (ssize nplace) k l1) eqn:M1; [|discriminate].
    destruct (otr (fun y => tr (k + lsize (ssize nplace) l1) y) h1) eqn:O1; [|discriminate].
    destruct (mapk fgcol (ssize nplace) k l2) eqn:M2; [|discriminate].
    destruct (otr (fun y => tr (k + lsize (ssize nplace) l2) y) h2) eqn:O2; [|discriminate].
    intros H1 H2. injection H1 as <-. injection H2 as E1 E2. subst.
    assert (l1 = l2).
    { eapply (mapk_inj fgcol); [|exact M1|exact M2]. intros x Hx k' y b. apply (fgcol_inj n); [exact IH|].
      pose proof (In_lsize (ssize esize) x l1 Hx). lia. }
    subst l2. do 2 f_equal. eapply (otr_inj n); [exact IH|lia|exact O1|exact O2].
  - destruct (mapk fgcol (ssize nplace) k l1), (otr (fun y => tr (k + lsize (ssize nplace) l1) y) h1); congruence.
  - destruct (mapk fgcol (ssize nplace) k l2), (otr (fun y => tr (k + lsize (ssize nplace) l2) y) h2); congruence.
Qed.

(* ---------------------------------------------------------------------- *)
(* the translation is injective *)

Ltac dm H := repeat match type of H with
                    | match ?x with _ => _ end = Some _ => let E := fresh "E" in destruct x eqn:E; try discriminate H
                    end.

Lemma tr_not_asterisk k e : tr k e <> Some C.EAsterisk.
Proof.
  destruct e; try rewrite tr_select_eq; cbn [tr]; cbv zeta; intros H; dm H; try discriminate H.
Qed.

Lemma tr_inj_n : forall n, IHn n.
Proof.
  induction n as [|n IH]; intros e1 Hs k e2 c H1 H2.
  { destruct e1; simpl in Hs; lia. }
  destruct e1; cbn [esize] in Hs.
  - (* EConst *)
    cbn [tr] in H1. dm H1. injection H1 as <-.
    destruct e2; try rewrite tr_select_eq in H2; cbn [tr] in H2; cbv zeta in H2; dm H2; try discriminate H2.
    injection H2 as H2. subst. f_equal. eapply value_of_lit_inj; eassumption.
  - (* EList *)
    cbn [tr] in H1. dm H1. injection H1 as <-.
    destruct e2; try rewrite tr_select_eq in H2; cbn [tr] in H2; cbv zeta in H2; dm H2; try discriminate H2.
    injection H2 as H2. subst. f_equal. eapply values_of_lits_inj; eassumption.
  - (* EColumn *)
    cbn [tr] in H1. dm H1. injection H1 as <-.
    destruct e2; try rewrite tr_select_eq in H2; cbn [tr] in H2; cbv zeta in H2; dm H2; try discriminate H2.
    injection H2 as H2. subst. f_equal. eapply enc_name_inj; eassumption.
  - (* EFunc *)
    cbn [tr] in H1. dm H1. injection H1 as <-.
    destruct e2; try rewrite tr_select_eq in H2; cbn [tr] in H2; cbv zeta in H2; dm H2; try discriminate H2.
    + injection H2 as A B. subst. f_equal; [eapply enc_name_inj; eassumption|].
      eapply (mapk_inj (fun k x => tr k x)); [|eassumption|eassumption].
      intros x Hx k' y b. apply IH. pose proof (In_lsize esize x args Hx). lia.
    + (* a call with the star argument is not a call with an expression argument *)
      injection H2 as A B. subst. exfalso. destruct args as [|x [|? ?]]; cbn in E0.
      * discriminate E0.
      * destruct (tr k x) eqn:T; [|discriminate]. injection E0 as E0. apply (tr_not_asterisk k x). congruence.
      * destruct (tr k x); [|discriminate]. destruct (tr (k + nplace x) e); [|discriminate].
        destruct (mapk (fun k x => tr k x) nplace (k + nplace x + nplace e) l); discriminate.
  - (* EFuncStar *)
    cbn [tr] in H1. dm H1. injection H1 as <-.
    destruct e2; try rewrite tr_select_eq in H2; cbn [tr] in H2; cbv zeta in H2; dm H2; try discriminate H2.
    + injection H2 as A B. subst. exfalso. destruct args as [|x [|? ?]]; cbn in E1.
      * discriminate E1.
      * destruct (tr k x) eqn:T; [|discriminate]. injection E1 as E1. apply (tr_not_asterisk k x). congruence.
      * destruct (tr k x); [|discriminate]. destruct (tr (k + nplace x) e); [|discriminate].
        destruct (mapk (fun k x => tr k x) nplace (k + nplace x + nplace e) l); discriminate.
    + injection H2 as A. subst. f_equal. eapply enc_name_inj; eassumption.
  - (* EPlace *)
    cbn [tr] in H1. dm H1. injection H1 as <-.
    destruct e2; try rewrite tr_select_eq in H2; cbn [tr] in H2; cbv zeta in H2; dm H2; try discriminate H2.
    injection H2 as H2. subst. f_equal. eapply enc_name_inj; eassumption.
  - (* EAttr *)
    cbn [tr] in H1. dm H1. injection H1 as <-.
    destruct e2; try rewrite tr_select_eq in H2; cbn [tr] in H2; cbv zeta in H2; dm H2; try discriminate H2.
    injection H2 as A B. subst. f_equal; [eapply IH; [|eassumption|eassumption]; lia|eapply enc_name_inj; eassumption].
  - (* ESubscript *)
    cbn [tr] in H1. dm H1. injection H1 as <-.
    destruct e2; try rewrite tr_select_eq in H2; cbn [tr] in H2; cbv zeta in H2; dm H2; try discriminate H2.
    injection H2 as A B. subst. f_equal; [eapply IH; [|eassumption|eassumption]; lia|eapply enc_name_inj; eassumption].
  - (* ENeg *)
    cbn [tr] in H1. dm H1. injection H1 as <-.
    destruct e2; try rewrite tr_select_eq in H2; cbn [tr] in H2; cbv zeta in H2; dm H2; try discriminate H2.
    injection H2 as A. subst. f_equal. eapply IH; [|eassumption|eassumption]. lia.
  - (* EArith *)
    cbn [tr] in H1. dm H1. injection H1 as <-.
    destruct e2; try rewrite tr_select_eq in H2; cbn [tr] in H2; cbv zeta in H2; dm H2; try discriminate H2.
    + injection H2 as A B Cc. subst. apply arith_name_inj in A. subst.
      assert (e1_1 = e2_1) by (eapply IH; [|eassumption|eassumption]; lia). subst.
      f_equal. eapply IH; [|eassumption|eassumption]. lia.
    + injection H2 as A B Cc. exfalso. apply (arith_cmp_name op op0). congruence.
  - (* ECmp *)
    cbn [tr] in H1. dm H1. injection H1 as <-.
    destruct e2; try rewrite tr_select_eq in H2; cbn [tr] in H2; cbv zeta in H2; dm H2; try discriminate H2.
    + injection H2 as A B Cc. exfalso. apply (arith_cmp_name op0 op). congruence.
    + injection H2 as A B Cc. subst. apply cmp_name_inj in A. subst.
      assert (e1_1 = e2_1) by (eapply IH; [|eassumption|eassumption]; lia). subst.
      f_equal. eapply IH; [|eassumption|eassumption]. lia.
  - (* EIsNull *)
    cbn [tr] in H1. dm H1. injection H1 as <-.
    destruct e2; try rewrite tr_select_eq in H2; cbn [tr] in H2; cbv zeta in H2; dm H2; try discriminate H2.
    injection H2 as A. subst. f_equal. eapply IH; [|eassumption|eassumption]. lia.
  - (* EIsNotNull *)
    cbn [tr] in H1. dm H1. injection H1 as <-.
    destruct e2; try rewrite tr_select_eq in H2; cbn [tr] in H2; cbv zeta in H2; dm H2; try discriminate H2.
    injection H2 as A. subst. f_equal. eapply IH; [|eassumption|eassumption]. lia.
  - (* EBetween *)
    cbn [tr] in H1. dm H1. injection H1 as <-.
    destruct e2; try rewrite tr_select_eq in H2; cbn [tr] in H2; cbv zeta in H2; dm H2; try discriminate H2.
    injection H2 as A B Cc. subst.
    assert (e1_1 = e2_1) by (eapply IH; [|eassumption|eassumption]; lia). subst.
    assert (e1_2 = e2_2) by (eapply IH; [|eassumption|eassumption]; lia). subst.
    f_equal. eapply IH; [|eassumption|eassumption]. lia.
  - (* ENot *)
    cbn [tr] in H1. dm H1. injection H1 as <-.
    destruct e2; try rewrite tr_select_eq in H2; cbn [tr] in H2; cbv zeta in H2; dm H2; try discriminate H2.
    injection H2 as A. subst. f_equal. eapply IH; [|eassumption|eassumption]. lia.
  - (* EAnd *)
    cbn [tr] in H1. dm H1. injection H1 as <-.
    destruct e2; try rewrite tr_select_eq in H2; cbn [tr] in H2; cbv zeta in H2; dm H2; try discriminate H2.
    injection H2 as A. subst. f_equal.
    eapply (mapk_inj (fun k x => tr k x)); [|eassumption|eassumption].
    intros x Hx k' y b. apply IH. pose proof (In_lsize esize x args Hx). lia.
  - (* EOr *)
    cbn [tr] in H1. dm H1. injection H1 as <-.
    destruct e2; try rewrite tr_select_eq in H2; cbn [tr] in H2; cbv zeta in H2; dm H2; try discriminate H2.
    injection H2 as A. subst. f_equal.
    eapply (mapk_inj (fun k x => tr k x)); [|eassumption|eassumption].
    intros x Hx k' y b. apply IH. pose proof (In_lsize esize x args Hx). lia.
  - (* ESelect *)
    rewrite tr_select_eq in H1. cbv zeta in H1. dm H1. injection H1 as <-.
    destruct e2; try rewrite tr_select_eq in H2; cbn [tr] in H2; cbv zeta in H2; dm H2; try discriminate H2.
    injection H2 as A1 A2 A3 A4 A5 A6 A7 A8 A9. subst.
    assert (targets = targets0) by (eapply (tr_targets_inj n); [exact IH| |eassumption|eassumption]; lia). subst.
    assert (from = from0) by (eapply (tr_from_inj n); [exact IH| |eassumption|eassumption]; lia). subst.
    assert (where_ = where_0) by (eapply (otr_inj n); [exact IH| |eassumption|eassumption]; lia). subst.
    assert (group = group0) by (eapply (tr_group_inj n); [exact IH| |eassumption|eassumption]; lia). subst.
    assert (order = order0).
    { eapply (mapk_inj ford); [|eassumption|eassumption]. intros x Hx k' y b. apply (ford_inj n); [exact IH|].
      pose proof (In_lsize (fun p : (N + expr) * bool => ssize esize (fst p)) x order Hx). cbv beta in *. lia. }
    subst.
    assert (pivot = pivot0) by (eapply pivot_of_inj; eassumption). subst.
    f_equal. match goal with H : omap Z.of_N ?a = omap Z.of_N ?b |- _ =>
               destruct a, b; cbn [omap] in H; try congruence; injection H as H; f_equal; lia end.
  - (* EParen *) discriminate H1.
  - (* EUPlus *) discriminate H1.
Qed.

Theorem tr_inj : forall k e1 e2 c, tr k e1 = Some c -> tr k e2 = Some c -> e1 = e2.
Proof. intros k e1 e2 c. apply (tr_inj_n (esize e1) e1 (le_n _)). Qed.

Lemma otr_inj' k w1 w2 c : otr (tr k) w1 = Some c -> otr (tr k) w2 = Some c -> w1 = w2.
Proof. apply (otr_inj (osize esize w1) k w1 w2 c (tr_inj_n _) (le_n _)). Qed.

Lemma from_of_inj k f1 f2 c : from_of k f1 = Some c -> from_of k f2 = Some c -> f1 = f2.
Proof.
  unfold from_of.
  destruct f1 as [[n1|s1|x1 o1 c1 cl1]|], f2 as [[n2|s2|x2 o2 c2 cl2]|]; try discriminate; try reflexivity;
    repeat match goal with
           | |- context [fk_of ?a ?b ?cc] =>
               let E := fresh "FK" in destruct (fk_of a b cc) eqn:E;
               [let H := fresh in pose proof (fk_of_shape _ _ _ _ E) as (? & ? & H); rewrite H in *|]
           | |- context [otr ?f ?x] => destruct (otr f x) eqn:?
           end; try congruence; intros H1 H2.
  injection H1 as <-. injection H2 as E1 E2 E3 E4. subst.
  destruct (fk_of_inj _ _ _ _ _ _ _ FK FK0) as (A & B & Cc). subst.
  do 2 f_equal. eapply otr_inj'; eassumption.
Qed.

(* the front end loses nothing: two statements with the same translation are the same statement *)
Theorem to_cstmt_inj : forall s1 s2 c, to_cstmt s1 = Some c -> to_cstmt s2 = Some c -> s1 = s2.
Proof.
  intros s1 s2 c H1 H2. destruct s1 as [e1|sf1 f1 w1|a1 sf1 f1|f1]; cbn [to_cstmt] in H1.
  - destruct e1; try discriminate H1. dm H1. injection H1 as <-.
    destruct s2 as [e2|sf2 f2 w2|a2 sf2 f2|f2]; cbn [to_cstmt] in H2; [|dm H2; discriminate H2..].
    destruct e2; try discriminate H2. dm H2. injection H2 as H2. subst. f_equal. eapply tr_inj; eassumption.
  - dm H1. injection H1 as <-.
    destruct s2 as [e2|sf2 f2 w2|a2 sf2 f2|f2]; cbn [to_cstmt] in H2; [destruct e2; try discriminate H2; dm H2; discriminate H2| |dm H2; discriminate H2..].
    dm H2. injection H2 as A B Cc Dd. subst.
    assert (sf1 = sf2) by (eapply oname_inj; eassumption). subst.
    assert (f1 = f2) by (eapply from_of_inj; eassumption). subst.
    f_equal. eapply otr_inj'; eassumption.
  - dm H1. injection H1 as <-.
    destruct s2 as [e2|sf2 f2 w2|a2 sf2 f2|f2]; cbn [to_cstmt] in H2; [destruct e2; try discriminate H2; dm H2; discriminate H2|dm H2; discriminate H2| |dm H2; discriminate H2].
    dm H2. injection H2 as A B Cc Dd. subst.
    assert (sf1 = sf2) by (eapply oname_inj; eassumption). subst.
    assert (f1 = f2) by (eapply from_of_inj; eassumption). subst.
    f_equal. destruct a1, a2; cbn [omap] in A; congruence.
  - dm H1. injection H1 as <-.
    destruct s2 as [e2|sf2 f2 w2|a2 sf2 f2|f2]; cbn [to_cstmt] in H2; [destruct e2; try discriminate H2; dm H2; discriminate H2|dm H2; discriminate H2..|].
    dm H2. injection H2 as A B. subst. f_equal. eapply from_of_inj; eassumption.
Qed.
