(* Tie by translation, C19: the PyMini terms generated on every run from the CURRENT source of
   DispatchingShell.parseline, DispatchingShell.onecmd and Settings._parse_bool (Gen/SrcShell.v) compute what
   Model/Shell.v says: [classify] (which input line is nothing / a query / which command with which argument, with
   or without the deprecation warning) and [parse_bool]. *)
From Coq Require Import String Ascii ZArith List Bool Lia.
Import ListNotations.
From Verif Require Import Base.PyValue Model.Eval Model.PyMini Model.PrimsApi Model.PrimsShell Proofs.PyMiniLemmas
  Proofs.SrcApi.
From Verif Require Model.Shell.
From Verif Require Import Gen.SrcShell.
Open Scope string_scope.
Open Scope list_scope.
Open Scope Z_scope.


(* what DispatchingShell.parseline returns, written with the model's cmd_parseline (cmd.Cmd.parseline) *)
Definition sh_parseline (line : list Z) : pv :=
  match Shell.cmd_parseline line with
  | None => PTuple [PNone; PNone; PS line]
  | Some (cmd, arg, l) =>
      match cmd with
      | [] => PTuple [PS cmd; PS arg; PS l]
      | c0 :: r =>
          let cmd' := if c0 =? 46 then r else cmd in
          let l' := if Shell.str_eqb cmd' (Shell.s2z "EOF") then Shell.s2z ".EOF" else l in
          PTuple [PS cmd'; PS arg; PS l']
      end
  end.

Lemma slice_tl (c : Z) r : slice_list (c :: r) (Some 1) None = r.
Proof.
  unfold slice_list, clipz. cbn [Z.ltb Z.compare length].
  rewrite Z.min_l by lia. change (Z.to_nat 1) with 1%nat. cbn [skipn].
  apply firstn_all2. lia.
Qed.

Lemma compare1_eq_str a b : compare1 CEq (PV (VStr a)) (PV (VStr b)) = Ok (zeqb a b).
Proof. unfold compare1. cbn [is_null orb rank Z.eqb negb]. cbn. now rewrite val_eq_str. Qed.

Lemma sh_str_eqb a b : Shell.str_eqb a b = zeqb a b.
Proof. reflexivity. Qed.

Lemma zprefix_dot l : zprefix [46] l = Shell.starts_with [46] l.
Proof. destruct l; reflexivity. Qed.

Lemma zprefix_dot_cons c0 r : zprefix [46] (c0 :: r) = (c0 =? 46).
Proof. cbn [zprefix]. rewrite andb_true_r. apply Z.eqb_sym. Qed.

Section Tie.
Variable call_ref : nat -> list pv -> pv.
Variable msg : string -> list pv -> pv.
Variable ga : list Z -> option nat.          (* getattr(self, name, None): the bound method of that name, if any *)

Definition shell_lib : strlib :=
  {| sl_strip := Shell.strip; sl_lower := Shell.lower; sl_parseline := Shell.cmd_parseline; sl_getattr := ga;
     sl_ext := shell_ext |}.
Notation prim := (prim_api shell_lib msg).

Theorem parseline_src : forall (flds : env) (line : list Z),
  call_method call_ref prim shell_parseline flds [PS line] = Ok (flds, sh_parseline line).
Proof.
  intros flds line. unfold shell_parseline, call_method, sh_parseline.
  cbn -[compare1 Shell.cmd_parseline slice_list zprefix].
  destruct (Shell.cmd_parseline line) as [[[cmd arg] l]|]; [|reflexivity].
  cbn -[compare1 Shell.cmd_parseline slice_list zprefix].
  destruct cmd as [|c0 r]; [reflexivity|].
  cbn -[compare1 Shell.cmd_parseline slice_list zprefix]. rewrite zprefix_dot_cons.
  destruct (c0 =? 46); cbn -[compare1 Shell.cmd_parseline slice_list]; rewrite ?slice_tl;
    rewrite compare1_eq_str; cbn [zeqb];
    match goal with |- context [Shell.str_eqb ?a ?b] =>
      let E := fresh "E" in
      destruct (Shell.str_eqb a b) eqn:E; change (Shell.str_eqb a b) with (zeqb a b) in E; rewrite E end;
    try reflexivity; destruct (c0 =? 69); reflexivity.
Qed.


(* ---- onecmd: which handler an input line reaches *)
Definition do_name (cmd : list Z) : list Z := zs "do_" ++ cmd.

Definition unknown_command (name : list Z) : pv :=
  PTuple [PS (zs "error"); PS (zs "unknown command """ ++ name ++ [34])].

Definition dispatch (kexec : nat) (flds : env) (evs : list pv) (c : Shell.cls) : res (env * pv) :=
  match c with
  | Shell.Empty => Ok (flds, PNone)
  | Shell.Query text => bind (do_call call_ref (PRef kexec) [PS text]) (fun r => Ok (flds, r))
  | Shell.Command _ name arg =>
      match ga (do_name name) with
      | Some k => bind (do_call call_ref (PRef k) [PS arg]) (fun r => Ok (flds, r))
      | None => Ok (update "$events" (PList (evs ++ [unknown_command name])) flds, PNone)   (* self.error(..) *)
      end
  end.

Lemma legacy_mem c :
  existsb (pv_eqb (PS c))
    [PS (zs "clear"); PS (zs "errors"); PS (zs "exit"); PS (zs "help"); PS (zs "history"); PS (zs "parse");
     PS (zs "quit"); PS (zs "run"); PS (zs "set")] = Shell.mem c Shell.legacy.
Proof. unfold PS. cbn [existsb]. rewrite !pv_eqb_str. reflexivity. Qed.

Theorem onecmd_src : forall (kpl kexec kwarn : nat) (flds : env) (evs : list pv) (line : list Z),
  ref_of refs "_warnings.warn:stacklevel" = Some kwarn ->
  lookup "parseline" flds = Some (PRef kpl) -> lookup "execute" flds = Some (PRef kexec) ->
  lookup "$events" flds = Some (PList evs) ->                   (* what the shell has written so far (rule R10) *)
  (forall l, call_ref kpl [PS l] = sh_parseline l) ->          (* self.parseline is the method tied above *)
  (forall args, exists v, do_call call_ref (PRef kwarn) args = Ok v) ->   (* warnings.warn returns *)
  call_method call_ref prim shell_onecmd flds [PS line] = dispatch kexec flds evs (Shell.classify line).
Proof.
  intros kpl kexec kwarn flds evs line Hk Hpl Hex Her Hparse Hwarn.
  cbn in Hk. injection Hk as <-.
  unfold shell_onecmd, call_method, dispatch, unknown_command, PS in *.
  cbn -[compare1 do_call pv_eqb zprefix Shell.lower Shell.legacy]. rewrite Hpl. cbn -[compare1 do_call pv_eqb zprefix Shell.lower Shell.legacy].
  unfold do_call at 1. rewrite Hparse. unfold sh_parseline, Shell.classify.
  destruct (Shell.cmd_parseline line) as [[[cmd arg] l]|]; [|reflexivity].
  destruct cmd as [|c0 r]; [reflexivity|].
  cbv beta iota zeta.
  change (if c0 =? 46 return Shell.str then r else c0 :: r) with (if c0 =? 46 then r else c0 :: r).
  remember (if c0 =? 46 then r else c0 :: r) as cmd' eqn:Ec.
  change (if Shell.str_eqb cmd' (Shell.s2z "EOF") return Shell.str then Shell.s2z ".EOF" else l)
    with (if Shell.str_eqb cmd' (Shell.s2z "EOF") then Shell.s2z ".EOF" else l).
  remember (if Shell.str_eqb cmd' (Shell.s2z "EOF") then Shell.s2z ".EOF" else l) as l' eqn:El.
  clear Ec El Hparse. unfold PS.
  cbn -[compare1 do_call pv_eqb zprefix Shell.lower Shell.mem Shell.starts_with Shell.legacy].
  destruct cmd' as [|d0 d]; [reflexivity|].
  cbn -[compare1 do_call pv_eqb zprefix Shell.lower Shell.mem Shell.starts_with Shell.legacy].
  rewrite zprefix_dot.
  destruct (Shell.starts_with [46] l') eqn:Edot.
  - cbn -[compare1 do_call pv_eqb zprefix Shell.lower Shell.mem Shell.starts_with Shell.legacy].
    unfold do_name. cbn -[do_call Shell.lower].
    match goal with |- context [ga ?x] => destruct (ga x) as [k|] end.
    + cbn -[do_call]. destruct (do_call call_ref (PRef k) [PV (VStr arg)]); cbn; reflexivity.
    + cbn -[do_call]. rewrite Her. reflexivity.
  - cbn -[compare1 do_call pv_eqb zprefix Shell.lower Shell.mem Shell.starts_with Shell.legacy].
    unfold compare1.
    match goal with |- context [existsb (pv_eqb (PV (VStr ?c))) ?L] =>
      change (existsb (pv_eqb (PV (VStr c))) L) with
        (existsb (pv_eqb (PS c)) [PS (zs "clear"); PS (zs "errors"); PS (zs "exit"); PS (zs "help"); PS (zs "history");
           PS (zs "parse"); PS (zs "quit"); PS (zs "run"); PS (zs "set")]) end.
    rewrite legacy_mem.
    destruct (Shell.mem (Shell.lower (d0 :: d)) Shell.legacy).
    + cbn -[do_call Shell.lower].
      match goal with |- context [do_call call_ref (PRef 0) ?a] => destruct (Hwarn a) as [v ->] end.
      unfold do_name. cbn -[do_call Shell.lower].
      match goal with |- context [ga ?x] => destruct (ga x) as [k|] end.
      * cbn -[do_call]. destruct (do_call call_ref (PRef k) [PV (VStr arg)]); cbn; reflexivity.
      * cbn -[do_call Shell.lower]. rewrite Her. reflexivity.
    + cbn -[do_call Shell.lower]. rewrite Hex. cbn -[do_call].
      destruct (do_call call_ref (PRef kexec) [PV (VStr l')]); reflexivity.
Qed.


(* ---- Settings._parse_bool *)
Lemma mem_strs c L : existsb (pv_eqb (PS c)) (map PS L) = Shell.mem c L.
Proof.
  unfold Shell.mem. induction L as [|x t IH]; [reflexivity|]. cbn [map existsb]. unfold PS at 1 2.
  rewrite pv_eqb_str, IH. reflexivity.
Qed.

Theorem parse_bool_src : forall (flds : env) (v : list Z),
  call_method call_ref prim settings_parse_bool flds [PS v] =
  match Shell.parse_bool v with
  | inr b => Ok (flds, PBool b)
  | inl _ => Exc ValueError             (* the message is built by the text oracle *)
  end.
Proof.
  intros flds v. unfold settings_parse_bool, call_method, Shell.parse_bool, PS.
  cbn -[compare1 pv_eqb Shell.strip Shell.lower Shell.mem].
  unfold compare1. cbn -[pv_eqb Shell.strip Shell.lower Shell.mem].
  replace (pv_eqb (PV (VStr v)) (PBool true)) with false by reflexivity.
  replace (pv_eqb (PV (VStr v)) (PBool false)) with false by reflexivity.
  cbn -[pv_eqb Shell.strip Shell.lower Shell.mem].
  set (norm := Shell.lower (Shell.strip v)).
  rewrite !pv_eqb_str.
  change (Shell.mem norm) with (existsb (zeqb norm)).
  repeat match goal with |- context [map Shell.s2z ?L] =>
    let L' := eval vm_compute in (map Shell.s2z L) in change (map Shell.s2z L) with L' end.
  cbn [existsb].
  match goal with |- context [if ?c then inr true else _] => destruct c end; [reflexivity|].
  cbn -[pv_eqb Shell.strip Shell.lower zeqb]. rewrite !pv_eqb_str.
  match goal with |- context [if ?c then inr false else _] => destruct c end; reflexivity.
Qed.


(* ---- Settings._parse_format *)
Theorem parse_format_src : forall (flds : env) (v : list Z),
  call_method call_ref prim settings_parse_format flds [PS v] =
  match Shell.parse_format v with
  | inr s => Ok (flds, PS s)
  | inl _ => Exc ValueError
  end.
Proof.
  intros flds v. unfold settings_parse_format, call_method, Shell.parse_format, PS.
  cbn -[Shell.mem Shell.formats]. destruct (Shell.mem v Shell.formats); reflexivity.
Qed.

End Tie.

(* ================================================================ the Settings object as a value *)
Lemma zeqb_sym a b : zeqb a b = zeqb b a.
Proof. revert b; induction a as [|x a IH]; intros [|y b]; cbn; try reflexivity. now rewrite Z.eqb_sym, IH. Qed.

Lemma assoc_fields n st :
  assoc (PS n) (enc_fields st) = match Shell.lookup st n with Some v => Some (enc_value v) | None => None end.
Proof.
  induction st as [|[k v] t IH]; [reflexivity|]. cbn [enc_fields map assoc fst snd PS key_eqb Shell.lookup].
  change (Shell.str_eqb k n) with (zeqb k n). rewrite (zeqb_sym n k). destruct (zeqb k n); [reflexivity|exact IH].
Qed.

Lemma dec_enc_fields st : dec_fields (enc_fields st) = Some st.
Proof.
  induction st as [|[k v] t IH]; [reflexivity|]. cbn [enc_fields map dec_fields fst snd PS].
  fold (enc_fields t). rewrite IH. destruct v; reflexivity.
Qed.
Lemma dec_enc_state st : dec_state (enc_state st) = Some st.
Proof. unfold dec_state, enc_state. rewrite zeqb_refl. apply dec_enc_fields. Qed.

Lemma enc_fields_cons k v t : enc_fields ((k, v) :: t) = PTuple [PV (VStr k); enc_value v] :: enc_fields t.
Proof. reflexivity. Qed.

Lemma set_field_update n st cur new : Shell.lookup st n = Some cur ->
  set_field (PV (VStr n)) (enc_value new) (enc_fields st) = enc_fields (Shell.update st n new).
Proof.
  induction st as [|[k v] t IH]; [discriminate|]. rewrite enc_fields_cons.
  cbn [set_field key_eqb Shell.lookup Shell.update].
  change (Shell.str_eqb k n) with (zeqb k n). rewrite (zeqb_sym n k). destruct (zeqb k n); [reflexivity|].
  intros H. rewrite enc_fields_cons, (IH H). reflexivity.
Qed.

Definition settings_lib : strlib :=
  {| sl_strip := Shell.strip; sl_lower := Shell.lower; sl_parseline := Shell.cmd_parseline;
     sl_getattr := settings_getattr; sl_ext := shell_ext |}.

Section Settings.
Variable call_ref : nat -> list pv -> pv.
Variable msg : string -> list pv -> pv.
Notation prim := (prim_api settings_lib msg).

Theorem getstr_src : forall (st : Shell.state) (n : list Z),
  call_function call_ref prim settings_getstr [enc_state st; PS n] =
  match Shell.lookup st n with
  | Some v => Ok (PS (Shell.getstr v))
  | None => Exc AttributeError
  end.
Proof.
  intros st n. unfold settings_getstr, call_function, enc_state, PS.
  cbn -[assoc enc_fields Shell.getstr Shell.py_repr Shell.Z_to_str].
  pose proof (assoc_fields n st) as H. unfold PS in H.
  destruct (Shell.lookup st n) as [[b|s|z]|];
    repeat (progress (cbn -[assoc enc_fields Shell.getstr Shell.py_repr Shell.Z_to_str]; rewrite ?H));
    try reflexivity. destruct b; reflexivity.
Qed.

(* setstr.  The parsers and classes are opaque callables with the reserved numbers of Model/PrimsShell.v:
   _parse_bool and _parse_format return what their translated bodies return (parse_bool_src, parse_format_src),
   str(v) is v, int(v) is Python's int() of the model *)
Definition callables_ok : Prop :=
  (forall v, call_ref (parser_ref 0) [PS v] = enc_parsed PBool (Shell.parse_bool v)) /\
  (forall v, call_ref (parser_ref 1) [PS v] = enc_parsed PS (Shell.parse_format v)) /\
  (forall v, call_ref cls_str [PS v] = PS v) /\
  (forall v, call_ref cls_int [PS v] = match Shell.py_int v with Some z => PInt z | None => PV (VErr ValueError) end).

Definition no_parse_field (st : Shell.state) : Prop :=
  forall nv, In nv st -> zstrip_prefix (zs "_parse_") (fst nv) = None.

Lemma assoc_parse_none st x : no_parse_field st -> assoc (PV (VStr (zs "_parse_" ++ x))) (enc_fields st) = None.
Proof.
  intros H. pose proof (assoc_fields (zs "_parse_" ++ x) st) as E. unfold PS in E. rewrite E.
  destruct (Shell.lookup st (zs "_parse_" ++ x)) eqn:L; [|reflexivity]. exfalso.
  clear E. revert L. induction st as [|[k v'] t IH]; [discriminate|]. cbn [Shell.lookup].
  change (Shell.str_eqb k (zs "_parse_" ++ x)) with (zeqb k (zs "_parse_" ++ x)).
  destruct (zeqb k (zs "_parse_" ++ x)) eqn:Ek.
  - intros _. apply zeqb_eq in Ek. specialize (H (k, v') (or_introl eq_refl)). cbn [fst] in H. subst k.
    clear - H. cbn in H. discriminate.
  - intros L. apply IH; [|exact L]. intros nv Hin. apply H. now right.
Qed.

Theorem setstr_src : forall (st : Shell.state) (n v : list Z),
  callables_ok -> no_parse_field st ->
  call_on_value call_ref prim settings_setstr [enc_state st; PS n; PS v] =
  match Shell.lookup st n with
  | None => Exc AttributeError
  | Some cur =>
      match Shell.parse_value n (Shell.type_of cur) v with
      | inl _ => Exc ValueError
      | inr new => Ok (enc_state (Shell.update st n new), PNone)
      end
  end.
Proof.
  intros st n v (Hb & Hf & Hs & Hi) Hnp.
  unfold settings_setstr, call_on_value, enc_state, PS.
  pose proof (assoc_fields n st) as H. unfold PS in H.
  destruct (Shell.lookup st n) as [cur|] eqn:L;
    [|repeat (progress (cbn -[assoc enc_fields]; rewrite ?H)); reflexivity].
  pose proof (assoc_parse_none st n Hnp) as P0. cbn -[assoc enc_fields] in P0.
  pose proof (assoc_parse_none st (zs "bool") Hnp) as P1. cbn -[assoc enc_fields] in P1.
  pose proof (assoc_parse_none st (zs "str") Hnp) as P2. cbn -[assoc enc_fields] in P2.
  pose proof (assoc_parse_none st (zs "int") Hnp) as P3. cbn -[assoc enc_fields] in P3.
  unfold Shell.parse_value, Shell.mem, Shell.parsers. cbn [existsb].
  destruct (Shell.str_eqb n (Shell.s2z "bool")) eqn:E1;
    change (Shell.str_eqb n (Shell.s2z "bool")) with (zeqb n [98; 111; 111; 108]) in E1;
  destruct (Shell.str_eqb n (Shell.s2z "format")) eqn:E2;
    change (Shell.str_eqb n (Shell.s2z "format")) with (zeqb n [102; 111; 114; 109; 97; 116]) in E2;
  destruct cur as [b|s0|z];
  unfold PS, parser_ref, cls_str, cls_int in Hb, Hf, Hs, Hi; cbn [Nat.add] in Hb, Hf;
  repeat (progress (cbn -[assoc enc_fields set_field Shell.parse_bool Shell.parse_format Shell.py_int];
                    rewrite ?app_nil_r, ?H, ?P0, ?P1, ?P2, ?P3, ?E1, ?E2, ?Hb, ?Hf, ?Hs, ?Hi)).
  all: try solve [apply zeqb_eq in E1; apply zeqb_eq in E2; congruence].
  all: repeat match goal with
       | |- context [Shell.parse_bool ?x] => destruct (Shell.parse_bool x)
       | |- context [Shell.parse_format ?x] => destruct (Shell.parse_format x)
       | |- context [Shell.py_int ?x] => destruct (Shell.py_int x)
       end;
       cbn -[assoc enc_fields set_field]; try reflexivity;
       rewrite <- (set_field_update n st _ _ L); reflexivity.
Qed.
End Settings.

(* ================================================================ do_set
   The shell object: its settings (a Settings value) and what it has written so far ($events, rule R10: the pair
   (channel, text) of every print(.., file=self.outfile) / self.error(..), in order).  [do_set_abs] is Model/Shell.v's
   do_set with the events kept symbolic; [do_set_abs_ok] shows it IS the model's do_set in every World. *)
Inductive aev :=
| AOut (s : list Z)            (* print(s, file=self.outfile) *)
| AErr (s : list Z)            (* self.error(s) *)
| AErrExc (m : list Z)         (* self.error(str(ex)): the text is the exception's (m in the model) *)
| ARaiseValue (m : list Z)     (* ValueError out of shlex.split *)
| ARaiseIndex.                 (* components[0] of an empty list *)

Definition echo_text (name : list Z) (v : Shell.value) : list Z := name ++ Shell.s2z ": " ++ Shell.getstr v.
Definition no_var_text (name : list Z) : list Z := Shell.s2z "variable """ ++ name ++ Shell.s2z """ does not exist".

Definition do_set_abs (st : Shell.state) (arg : list Z) : Shell.state * list aev :=
  match arg with
  | [] => (st, map (fun nv => AOut (echo_text (fst nv) (snd nv))) st)
  | _ =>
    match Shell.shlex_split arg with
    | Shell.ShNoQuote => (st, [ARaiseValue (Shell.s2z "No closing quotation")])
    | Shell.ShNoEscaped => (st, [ARaiseValue (Shell.s2z "No escaped character")])
    | Shell.ShOk [] => (st, [ARaiseIndex])
    | Shell.ShOk [name] =>
        match Shell.lookup st name with
        | Some v => (st, [AOut (echo_text name v)])
        | None => (st, [AErr (no_var_text name)])
        end
    | Shell.ShOk [name; v] =>
        match Shell.lookup st name with
        | None => (st, [AErr (no_var_text name)])
        | Some cur =>
            match Shell.parse_value name (Shell.type_of cur) v with
            | inl m => (st, [AErrExc m])
            | inr new => (Shell.update st name new, [])
            end
        end
    | Shell.ShOk _ => (st, [AErr (Shell.s2z "invalid number of arguments")])
    end
  end.

Definition conc (W : Shell.World) (a : aev) : Shell.event W :=
  match a with
  | AOut s => Shell.println W Shell.Outfile s
  | AErr s => Shell.error W s
  | AErrExc m => Shell.error W m
  | ARaiseValue m => Shell.ERaise (Shell.XValue m)
  | ARaiseIndex => Shell.ERaise Shell.XIndex
  end.

Lemma do_set_abs_ok : forall (W : Shell.World) st arg,
  Shell.do_set W st arg = (fst (do_set_abs st arg), map (conc W) (snd (do_set_abs st arg))).
Proof.
  intros W st arg. unfold Shell.do_set, do_set_abs. destruct arg as [|c r].
  - cbn [fst snd]. rewrite map_map. reflexivity.
  - destruct (Shell.shlex_split (c :: r)) as [[|name [|v [|x l]]]| |]; try reflexivity.
    + destruct (Shell.lookup st name); reflexivity.
    + destruct (Shell.lookup st name) as [cur|]; [|reflexivity].
      destruct (Shell.parse_value name (Shell.type_of cur) v); reflexivity.
Qed.
