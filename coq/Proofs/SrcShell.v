(* Tie by translation, C19: the PyMini terms generated on every run from the CURRENT source of
   DispatchingShell.parseline, DispatchingShell.onecmd and Settings._parse_bool (Gen/SrcShell.v) compute what
   Model/Shell.v says: [classify] (which input line is nothing / a query / which command with which argument, with
   or without the deprecation warning) and [parse_bool]. *)
From Coq Require Import String Ascii ZArith List Bool Lia.
Import ListNotations.
From Verif Require Import Base.PyValue Model.Eval Model.PyMini Model.PrimsApi Proofs.PyMiniLemmas Proofs.SrcApi.
From Verif Require Model.Shell.
From Verif Require Import Gen.SrcShell.
Open Scope string_scope.
Open Scope list_scope.
Open Scope Z_scope.

Definition PS (s : list Z) : pv := PV (VStr s).

(* what DispatchingShell.parseline returns, written with the model's cmd_parseline (cmd.Cmd.parseline) *)
Definition sh_parseline (line : list Z) : pv :=
  match Shell.cmd_parseline line with
  | None => PTuple [PNone; PNone; PS line]
  | Some (cmd, arg, l) =>
      match cmd with
      | [] => PTuple [PS cmd; PS arg; PS l]
      | c0 :: r =>
          let cmd' := if c0 =? 46 then r else cmd in
          let l' := if Shell.str_eqb cmd' (Shell.s2z "EOF") then Shell.s2z ".EOF" else l in
          PTuple [PS cmd'; PS arg; PS l']
      end
  end.

Lemma slice_tl (c : Z) r : slice_list (c :: r) (Some 1) None = r.
Proof.
  unfold slice_list, clipz. cbn [Z.ltb Z.compare length].
  rewrite Z.min_l by lia. change (Z.to_nat 1) with 1%nat. cbn [skipn].
  apply firstn_all2. lia.
Qed.

Lemma compare1_eq_str a b : compare1 CEq (PV (VStr a)) (PV (VStr b)) = Ok (zeqb a b).
Proof. unfold compare1. cbn [is_null orb rank Z.eqb negb]. cbn. now rewrite val_eq_str. Qed.

Lemma sh_str_eqb a b : Shell.str_eqb a b = zeqb a b.
Proof. reflexivity. Qed.

Lemma zprefix_dot l : zprefix [46] l = Shell.starts_with [46] l.
Proof. destruct l; reflexivity. Qed.

Lemma zprefix_dot_cons c0 r : zprefix [46] (c0 :: r) = (c0 =? 46).
Proof. cbn [zprefix]. rewrite andb_true_r. apply Z.eqb_sym. Qed.

Section Tie.
Variable call_ref : nat -> list pv -> pv.
Variable msg : string -> list pv -> pv.
Variable ga : list Z -> option nat.          (* getattr(self, name, None): the bound method of that name, if any *)

Definition shell_lib : strlib :=
  {| sl_strip := Shell.strip; sl_lower := Shell.lower; sl_parseline := Shell.cmd_parseline; sl_getattr := ga |}.
Notation prim := (prim_api shell_lib msg).

Theorem parseline_src : forall (flds : env) (line : list Z),
  call_method call_ref prim shell_parseline flds [PS line] = Ok (flds, sh_parseline line).
Proof.
  intros flds line. unfold shell_parseline, call_method, sh_parseline.
  cbn -[compare1 Shell.cmd_parseline slice_list zprefix].
  destruct (Shell.cmd_parseline line) as [[[cmd arg] l]|]; [|reflexivity].
  cbn -[compare1 Shell.cmd_parseline slice_list zprefix].
  destruct cmd as [|c0 r]; [reflexivity|].
  cbn -[compare1 Shell.cmd_parseline slice_list zprefix]. rewrite zprefix_dot_cons.
  destruct (c0 =? 46); cbn -[compare1 Shell.cmd_parseline slice_list]; rewrite ?slice_tl;
    rewrite compare1_eq_str; cbn [zeqb];
    match goal with |- context [Shell.str_eqb ?a ?b] =>
      let E := fresh "E" in
      destruct (Shell.str_eqb a b) eqn:E; change (Shell.str_eqb a b) with (zeqb a b) in E; rewrite E end;
    try reflexivity; destruct (c0 =? 69); reflexivity.
Qed.


(* ---- onecmd: which handler an input line reaches *)
Definition do_name (cmd : list Z) : list Z := zs "do_" ++ cmd.

Definition dispatch (kexec : nat) (flds : env) (c : Shell.cls) : res (env * pv) :=
  match c with
  | Shell.Empty => Ok (flds, PNone)
  | Shell.Query text => bind (do_call call_ref (PRef kexec) [PS text]) (fun r => Ok (flds, r))
  | Shell.Command _ name arg =>
      match ga (do_name name) with
      | Some k => bind (do_call call_ref (PRef k) [PS arg]) (fun r => Ok (flds, r))
      | None => Ok (flds, PNone)              (* after self.error('unknown command ...') *)
      end
  end.

Lemma legacy_mem c :
  existsb (pv_eqb (PS c))
    [PS (zs "clear"); PS (zs "errors"); PS (zs "exit"); PS (zs "help"); PS (zs "history"); PS (zs "parse");
     PS (zs "quit"); PS (zs "run"); PS (zs "set")] = Shell.mem c Shell.legacy.
Proof. unfold PS. cbn [existsb]. rewrite !pv_eqb_str. reflexivity. Qed.

Theorem onecmd_src : forall (kpl kexec kerr kwarn : nat) (flds : env) (line : list Z),
  ref_of refs "_warnings.warn:stacklevel" = Some kwarn ->
  lookup "parseline" flds = Some (PRef kpl) -> lookup "execute" flds = Some (PRef kexec) ->
  lookup "error" flds = Some (PRef kerr) ->
  (forall l, call_ref kpl [PS l] = sh_parseline l) ->          (* self.parseline is the method tied above *)
  (forall args, exists v, do_call call_ref (PRef kwarn) args = Ok v) ->   (* warnings.warn / self.error return *)
  (forall args, exists v, do_call call_ref (PRef kerr) args = Ok v) ->
  call_method call_ref prim shell_onecmd flds [PS line] = dispatch kexec flds (Shell.classify line).
Proof.
  intros kpl kexec kerr kwarn flds line Hk Hpl Hex Her Hparse Hwarn Herr.
  cbn in Hk. injection Hk as <-.
  unfold shell_onecmd, call_method, dispatch, PS in *.
  cbn -[compare1 do_call pv_eqb zprefix Shell.lower Shell.legacy]. rewrite Hpl. cbn -[compare1 do_call pv_eqb zprefix Shell.lower Shell.legacy].
  unfold do_call at 1. rewrite Hparse. unfold sh_parseline, Shell.classify.
  destruct (Shell.cmd_parseline line) as [[[cmd arg] l]|]; [|reflexivity].
  destruct cmd as [|c0 r]; [reflexivity|].
  cbv beta iota zeta.
  change (if c0 =? 46 return Shell.str then r else c0 :: r) with (if c0 =? 46 then r else c0 :: r).
  remember (if c0 =? 46 then r else c0 :: r) as cmd' eqn:Ec.
  change (if Shell.str_eqb cmd' (Shell.s2z "EOF") return Shell.str then Shell.s2z ".EOF" else l)
    with (if Shell.str_eqb cmd' (Shell.s2z "EOF") then Shell.s2z ".EOF" else l).
  remember (if Shell.str_eqb cmd' (Shell.s2z "EOF") then Shell.s2z ".EOF" else l) as l' eqn:El.
  clear Ec El Hparse. unfold PS.
  cbn -[compare1 do_call pv_eqb zprefix Shell.lower Shell.mem Shell.starts_with Shell.legacy].
  destruct cmd' as [|d0 d]; [reflexivity|].
  cbn -[compare1 do_call pv_eqb zprefix Shell.lower Shell.mem Shell.starts_with Shell.legacy].
  rewrite zprefix_dot.
  destruct (Shell.starts_with [46] l') eqn:Edot.
  - cbn -[compare1 do_call pv_eqb zprefix Shell.lower Shell.mem Shell.starts_with Shell.legacy].
    unfold do_name. cbn -[do_call Shell.lower].
    match goal with |- context [ga ?x] => destruct (ga x) as [k|] end.
    + cbn -[do_call]. destruct (do_call call_ref (PRef k) [PV (VStr arg)]); cbn; reflexivity.
    + cbn -[do_call]. rewrite Her. cbn -[do_call].
      match goal with |- context [do_call call_ref (PRef kerr) ?a] => destruct (Herr a) as [v ->] end. reflexivity.
  - cbn -[compare1 do_call pv_eqb zprefix Shell.lower Shell.mem Shell.starts_with Shell.legacy].
    unfold compare1.
    match goal with |- context [existsb (pv_eqb (PV (VStr ?c))) ?L] =>
      change (existsb (pv_eqb (PV (VStr c))) L) with
        (existsb (pv_eqb (PS c)) [PS (zs "clear"); PS (zs "errors"); PS (zs "exit"); PS (zs "help"); PS (zs "history");
           PS (zs "parse"); PS (zs "quit"); PS (zs "run"); PS (zs "set")]) end.
    rewrite legacy_mem.
    destruct (Shell.mem (Shell.lower (d0 :: d)) Shell.legacy).
    + cbn -[do_call Shell.lower].
      match goal with |- context [do_call call_ref (PRef 0) ?a] => destruct (Hwarn a) as [v ->] end.
      unfold do_name. cbn -[do_call Shell.lower].
      match goal with |- context [ga ?x] => destruct (ga x) as [k|] end.
      * cbn -[do_call]. destruct (do_call call_ref (PRef k) [PV (VStr arg)]); cbn; reflexivity.
      * cbn -[do_call]. rewrite Her. cbn -[do_call].
        match goal with |- context [do_call call_ref (PRef kerr) ?a] => destruct (Herr a) as [v' ->] end. reflexivity.
    + cbn -[do_call Shell.lower]. rewrite Hex. cbn -[do_call].
      destruct (do_call call_ref (PRef kexec) [PV (VStr l')]); reflexivity.
Qed.


(* ---- Settings._parse_bool *)
Lemma mem_strs c L : existsb (pv_eqb (PS c)) (map PS L) = Shell.mem c L.
Proof.
  unfold Shell.mem. induction L as [|x t IH]; [reflexivity|]. cbn [map existsb]. unfold PS at 1 2.
  rewrite pv_eqb_str, IH. reflexivity.
Qed.

Theorem parse_bool_src : forall (flds : env) (v : list Z),
  call_method call_ref prim settings_parse_bool flds [PS v] =
  match Shell.parse_bool v with
  | inr b => Ok (flds, PBool b)
  | inl _ => Exc ValueError             (* the message is built by the text oracle *)
  end.
Proof.
  intros flds v. unfold settings_parse_bool, call_method, Shell.parse_bool, PS.
  cbn -[compare1 pv_eqb Shell.strip Shell.lower Shell.mem].
  unfold compare1. cbn -[pv_eqb Shell.strip Shell.lower Shell.mem].
  replace (pv_eqb (PV (VStr v)) (PBool true)) with false by reflexivity.
  replace (pv_eqb (PV (VStr v)) (PBool false)) with false by reflexivity.
  cbn -[pv_eqb Shell.strip Shell.lower Shell.mem].
  set (norm := Shell.lower (Shell.strip v)).
  rewrite !pv_eqb_str.
  change (Shell.mem norm) with (existsb (zeqb norm)).
  repeat match goal with |- context [map Shell.s2z ?L] =>
    let L' := eval vm_compute in (map Shell.s2z L) in change (map Shell.s2z L) with L' end.
  cbn [existsb].
  match goal with |- context [if ?c then inr true else _] => destruct c end; [reflexivity|].
  cbn -[pv_eqb Shell.strip Shell.lower zeqb]. rewrite !pv_eqb_str.
  match goal with |- context [if ?c then inr false else _] => destruct c end; reflexivity.
Qed.

End Tie.
