(* C17. Lemmas about Model/Numberify.v -- for all tables, formatters, currencies. *)
From Coq Require Import ZArith QArith List Bool Lia Permutation Sorted.
Import ListNotations.
From Verif Require Import Base.StableSort Base.PyValue Proofs.PyValueProofs Model.Numberify.
Open Scope Z_scope.

(* ------------------------------------------------------------------ strings *)
Lemma str_eqb_eq a : forall b, str_eqb a b = true <-> a = b.
Proof.
  induction a as [|x a IH]; intros [|y b]; simpl.
  - split; reflexivity.
  - split; discriminate.
  - split; discriminate.
  - rewrite andb_true_iff, Z.eqb_eq, IH. split.
    + intros [-> ->]. reflexivity.
    + intros H. inversion H. auto.
Qed.
Lemma str_eqb_refl a : str_eqb a a = true.
Proof. apply str_eqb_eq. reflexivity. Qed.
Lemma str_eqb_neq a b : str_eqb a b = false <-> a <> b.
Proof.
  split.
  - intros H E. apply str_eqb_eq in E. congruence.
  - intros H. destruct (str_eqb a b) eqn:E; [|reflexivity]. apply str_eqb_eq in E. contradiction.
Qed.
Lemma str_eqb_sym a b : str_eqb a b = str_eqb b a.
Proof.
  destruct (str_eqb a b) eqn:E.
  - apply str_eqb_eq in E. subst. symmetry. apply str_eqb_refl.
  - apply str_eqb_neq in E. symmetry. apply str_eqb_neq. auto.
Qed.

Ltac seq :=
  repeat match goal with
         | H : str_eqb _ _ = true |- _ => apply str_eqb_eq in H; subst
         | H : str_eqb _ _ = false |- _ => apply str_eqb_neq in H
         end.

Lemma existsb_str_In c l : existsb (str_eqb c) l = true <-> In c l.
Proof.
  rewrite existsb_exists. split.
  - intros [x [Hx E]]. apply str_eqb_eq in E. subst. exact Hx.
  - intros H. exists c. split; [exact H|apply str_eqb_refl].
Qed.

(* ------------------------------------------------------------------ decimals *)
(* the value of d as an integer number of units 10^e (e at most the exponent) *)
Definition sc (e : Z) (d : dec) : Z := dec_signed d * 10 ^ (dexp d - e).
Fixpoint sum_sc (e : Z) (l : list dec) : Z :=
  match l with [] => 0 | d :: t => sc e d + sum_sc e t end.

Lemma dexp_add a b : dexp (dec_add a b) = Z.min (dexp a) (dexp b).
Proof. unfold dec_add. cbv zeta. destruct (_ =? 0); reflexivity. Qed.

Lemma dec_signed_add a b :
  dec_signed (dec_add a b) =
  dec_signed a * 10 ^ (dexp a - Z.min (dexp a) (dexp b)) + dec_signed b * 10 ^ (dexp b - Z.min (dexp a) (dexp b)).
Proof.
  unfold dec_add. cbv zeta.
  set (s := dec_signed a * _ + dec_signed b * _).
  destruct (s =? 0) eqn:E.
  - apply Z.eqb_eq in E. unfold dec_signed at 1. simpl. destruct (dneg a && dneg b); lia.
  - unfold dec_signed at 1. simpl. destruct (s <? 0) eqn:L.
    + apply Z.ltb_lt in L. lia.
    + apply Z.ltb_ge in L. lia.
Qed.

Lemma sc_add e a b : e <= dexp a -> e <= dexp b -> sc e (dec_add a b) = sc e a + sc e b.
Proof.
  intros Ha Hb. unfold sc. rewrite dec_signed_add, dexp_add.
  set (m := Z.min (dexp a) (dexp b)).
  assert (Ea : 10 ^ (dexp a - e) = 10 ^ (dexp a - m) * 10 ^ (m - e)).
  { rewrite <- Z.pow_add_r by lia. f_equal. lia. }
  assert (Eb : 10 ^ (dexp b - e) = 10 ^ (dexp b - m) * 10 ^ (m - e)).
  { rewrite <- Z.pow_add_r by lia. f_equal. lia. }
  rewrite Ea, Eb. ring.
Qed.

Lemma sc_dzero e : sc e dzero = 0.
Proof. reflexivity. Qed.

Lemma sc_zero e d : dec_is_zero d = true -> sc e d = 0.
Proof.
  unfold dec_is_zero, sc, dec_signed. intros H. apply Z.eqb_eq in H. rewrite H. destruct (dneg d); reflexivity.
Qed.

Lemma sc_zero_inv e d : e <= dexp d -> sc e d = 0 -> dec_is_zero d = true.
Proof.
  unfold dec_is_zero, sc, dec_signed. intros He H. apply Z.eqb_eq.
  assert (0 < 10 ^ (dexp d - e)) by (apply Z.pow_pos_nonneg; lia).
  destruct (dneg d); nia.
Qed.

(* ------------------------------------------------------------------ units of a cell *)
Definition cell_units (c : cellv) : list amount :=
  match c with
  | CPlain _ => []
  | CAmount a => [a]
  | CPosition p => [punits p]
  | CInventory i => map punits i
  end.

(* the numbers of the units of currency [cur] held in the cell (one per lot) *)
Definition units_of (cur : currency) (c : cellv) : list dec :=
  map anum (filter (fun a => str_eqb (acur a) cur) (cell_units c)).

Definition dt_amountlike (dt : dtype) : bool := match dt with DPlain _ => false | _ => true end.

Lemma inv_fold_sc cur e i : forall acc,
  e <= dexp acc ->
  (forall d, In d (map anum (filter (fun a => str_eqb (acur a) cur) (map punits i))) -> e <= dexp d) ->
  sc e (fold_left (fun acc p => if str_eqb (pcur p) cur then dec_add acc (pnum p) else acc) i acc)
  = sc e acc + sum_sc e (map anum (filter (fun a => str_eqb (acur a) cur) (map punits i))).
Proof.
  induction i as [|p i IH]; intros acc Ha Hl.
  - simpl. lia.
  - cbn [fold_left map filter] in *. unfold pcur in *.
    destruct (str_eqb (acur (punits p)) cur) eqn:E.
    + cbn [map sum_sc] in *. rewrite IH.
      * rewrite sc_add; [unfold pnum; lia|exact Ha|]. apply Hl. left. reflexivity.
      * rewrite dexp_add. assert (e <= dexp (pnum p)) by (apply Hl; left; reflexivity). lia.
      * intros d Hd. apply Hl. right. exact Hd.
    + apply IH; assumption.
Qed.

Lemma inv_fold_exp cur e i : forall acc,
  e <= dexp acc ->
  (forall d, In d (map anum (filter (fun a => str_eqb (acur a) cur) (map punits i))) -> e <= dexp d) ->
  e <= dexp (fold_left (fun acc p => if str_eqb (pcur p) cur then dec_add acc (pnum p) else acc) i acc).
Proof.
  induction i as [|p i IH]; intros acc Ha Hl.
  - exact Ha.
  - cbn [fold_left map filter] in *. unfold pcur in *.
    destruct (str_eqb (acur (punits p)) cur) eqn:E.
    + cbn [map] in *. apply IH.
      * rewrite dexp_add. assert (e <= dexp (pnum p)) by (apply Hl; left; reflexivity). lia.
      * intros d Hd. apply Hl. right. exact Hd.
    + apply IH; assumption.
Qed.

Lemma inv_units_exp cur e i :
  e <= 0 -> (forall d, In d (units_of cur (CInventory i)) -> e <= dexp d) -> e <= dexp (inv_units cur i).
Proof. intros He Hl. unfold inv_units. apply inv_fold_exp; [exact He|exact Hl]. Qed.

Lemma inv_units_sc cur e i :
  e <= 0 -> (forall d, In d (units_of cur (CInventory i)) -> e <= dexp d) ->
  sc e (inv_units cur i) = sum_sc e (units_of cur (CInventory i)).
Proof.
  intros He Hl. unfold inv_units. rewrite (inv_fold_sc cur e i dzero); [rewrite sc_dzero; reflexivity|exact He|exact Hl].
Qed.

Lemma inv_units_absent cur i : units_of cur (CInventory i) = [] -> inv_units cur i = dzero.
Proof.
  unfold units_of, inv_units. simpl. generalize dzero.
  induction i as [|p i IH]; intros acc H; simpl; [reflexivity|].
  unfold pcur in *. simpl in H. destruct (str_eqb (acur (punits p)) cur); [discriminate|]. apply IH. exact H.
Qed.

Section Cell.
Variable f : option (dec -> currency -> dec).

(* Every new cell: NULL or a decimal; a decimal is the (possibly quantized) exact sum u of the
   units of that currency over the lots of the original cell; NULL only when there are no such
   units or their sum is zero. *)
Theorem conv_cell_units dt cur c e :
  dt_amountlike dt = true -> cell_ok dt c = true ->
  e <= 0 -> (forall d, In d (units_of cur c) -> e <= dexp d) ->
  exists u, e <= dexp u /\ sc e u = sum_sc e (units_of cur c) /\
    ((conv_cell f dt cur c = cnull /\
      (units_of cur c = [] \/ dec_is_zero u = true))
     \/ conv_cell f dt cur c = CPlain (VDec (quant f u cur))).
Proof.
  intros Hdt Hok He Hl.
  destruct c as [v|a|p|i].
  - (* NULL *)
    exists dzero. split; [exact He|]. split; [reflexivity|]. left. split; [|left; reflexivity].
    destruct dt; reflexivity.
  - destruct dt; try discriminate. unfold units_of in *. simpl in *.
    destruct (str_eqb (acur a) cur) eqn:E; simpl in *.
    + exists (anum a). split; [apply Hl; left; reflexivity|]. split; [lia|].
      destruct (dec_is_zero (anum a)) eqn:Z; simpl.
      * left. split; [reflexivity|]. right. reflexivity.
      * right. reflexivity.
    + exists dzero. split; [exact He|]. split; [reflexivity|]. left. rewrite andb_false_r.
      split; [reflexivity|left; reflexivity].
  - destruct dt; try discriminate. unfold units_of in *. simpl in *. unfold pcur, pnum.
    destruct (str_eqb (acur (punits p)) cur) eqn:E; simpl in *.
    + exists (anum (punits p)). split; [apply Hl; left; reflexivity|]. split; [lia|]. right. reflexivity.
    + exists dzero. split; [exact He|]. split; [reflexivity|]. left. split; [reflexivity|left; reflexivity].
  - destruct dt; try discriminate.
    exists (inv_units cur i). split; [apply inv_units_exp; assumption|].
    split; [apply inv_units_sc; assumption|].
    simpl. destruct (dec_is_zero (inv_units cur i)) eqn:Z; simpl.
    + left. split; [reflexivity|]. right. reflexivity.
    + right. reflexivity.
Qed.

(* A currency absent from the cell gives NULL (never a zero). *)
Theorem conv_cell_absent dt cur c : units_of cur c = [] -> conv_cell f dt cur c = cnull.
Proof.
  intros H. destruct dt, c; try reflexivity; unfold units_of in H; simpl in *.
  - destruct (str_eqb (acur a) cur); [discriminate|]. rewrite andb_false_r. reflexivity.
  - unfold pcur. destruct (str_eqb (acur (punits p)) cur); [discriminate|reflexivity].
  - rewrite (inv_units_absent cur i H). reflexivity.
Qed.

Theorem conv_cell_null dt cur : conv_cell f dt cur cnull = cnull.
Proof. destruct dt; reflexivity. Qed.

Theorem conv_cell_shape dt cur c : conv_cell f dt cur c = cnull \/ exists d, conv_cell f dt cur c = CPlain (VDec d).
Proof.
  destruct dt, c; simpl; auto.
  - destruct (_ && _); eauto.
  - destruct (str_eqb _ _); eauto.
  - destruct (dec_is_zero _); eauto.
Qed.
End Cell.

(* Without a formatter nothing is lost: NULL only when the units sum to zero,
   otherwise the new cell has exactly the value of the sum. *)
Corollary conv_cell_units_noformat dt cur c e :
  dt_amountlike dt = true -> cell_ok dt c = true ->
  e <= 0 -> (forall d, In d (units_of cur c) -> e <= dexp d) ->
  (conv_cell None dt cur c = cnull /\ sum_sc e (units_of cur c) = 0)
  \/ exists d, conv_cell None dt cur c = CPlain (VDec d) /\ e <= dexp d /\ sc e d = sum_sc e (units_of cur c).
Proof.
  intros Hdt Hok He Hl.
  destruct (conv_cell_units None dt cur c e Hdt Hok He Hl) as [u [Hx [Hu [[Hn Hz]|Hd]]]].
  - left. split; [exact Hn|]. destruct Hz as [Hz|Hz].
    + rewrite Hz. reflexivity.
    + rewrite <- Hu. apply sc_zero. exact Hz.
  - right. exists u. split; [exact Hd|]. split; [exact Hx|exact Hu].
Qed.

(* ---- the same in rational numbers (PyValue.dec_q), without a scale ---- *)
Definition sum_q (l : list dec) : Q := fold_right Qplus (0 # 1)%Q (map dec_q l).
Definition lo (l : list dec) : Z := fold_right (fun d m => Z.min (dexp d) m) 0 l.

Lemma lo_nonpos l : lo l <= 0.
Proof. induction l; simpl; lia. Qed.
Lemma lo_le l d : In d l -> lo l <= dexp d.
Proof. induction l as [|x l IH]; simpl; intros H; [destruct H|]. destruct H as [->|H]; [lia|]. specialize (IH H). lia. Qed.

Lemma pow10_pos x : 0 <= x -> 0 < 10 ^ x.
Proof. intros. apply Z.pow_pos_nonneg; lia. Qed.

Lemma dec_q_sc e d : e <= 0 -> e <= dexp d -> (dec_q d == sc e d # Z.to_pos (10 ^ (- e)))%Q.
Proof.
  intros He Hd. unfold dec_q, sc, Qeq.
  assert (P : 0 < 10 ^ (- e)) by (apply pow10_pos; lia).
  destruct (Z.leb_spec 0 (dexp d)); simpl Qnum; simpl Qden.
  - rewrite Z2Pos.id by exact P.
    replace (dexp d - e) with (dexp d + - e) by lia. rewrite Z.pow_add_r by lia. ring.
  - assert (P2 : 0 < 10 ^ (- dexp d)) by (apply pow10_pos; lia).
    rewrite !Z2Pos.id by assumption.
    replace (- e) with ((dexp d - e) + - dexp d) by lia. rewrite Z.pow_add_r by lia. ring.
Qed.

Lemma sum_q_sc e l : e <= 0 -> (forall d, In d l -> e <= dexp d) ->
  (sum_q l == sum_sc e l # Z.to_pos (10 ^ (- e)))%Q.
Proof.
  intros He. induction l as [|d l IH]; intros Hl.
  - reflexivity.
  - unfold sum_q in *. simpl. rewrite IH by (intros x Hx; apply Hl; right; exact Hx).
    rewrite (dec_q_sc e d He) by (apply Hl; left; reflexivity).
    unfold Qeq, Qplus. simpl. rewrite Pos2Z.inj_mul. ring.
Qed.

(* The statement of the property: without a formatter the new cell has the value of the units
   of that currency summed over the lots; NULL only when that value is zero. *)
Theorem conv_cell_value dt cur c :
  dt_amountlike dt = true -> cell_ok dt c = true ->
  (conv_cell None dt cur c = cnull /\ (sum_q (units_of cur c) == 0)%Q)
  \/ exists d, conv_cell None dt cur c = CPlain (VDec d) /\ (dec_q d == sum_q (units_of cur c))%Q.
Proof.
  intros Hdt Hok. set (e := lo (units_of cur c)).
  assert (He : e <= 0) by apply lo_nonpos.
  assert (Hl : forall d, In d (units_of cur c) -> e <= dexp d) by (intros d; apply lo_le).
  destruct (conv_cell_units_noformat dt cur c e Hdt Hok He Hl) as [[Hn Hs]|[d [Hd [Hx Hs]]]].
  - left. split; [exact Hn|]. rewrite (sum_q_sc e _ He Hl), Hs. reflexivity.
  - right. exists d. split; [exact Hd|]. rewrite (sum_q_sc e _ He Hl), (dec_q_sc e d He Hx), Hs. reflexivity.
Qed.

(* With a formatter: the cell is the quantized sum (u has the value of the sum). *)
Theorem conv_cell_value_fmt f dt cur c :
  dt_amountlike dt = true -> cell_ok dt c = true ->
  exists u, (dec_q u == sum_q (units_of cur c))%Q /\
    ((conv_cell f dt cur c = cnull /\
      (units_of cur c = [] \/ dec_is_zero u = true))
     \/ conv_cell f dt cur c = CPlain (VDec (quant f u cur))).
Proof.
  intros Hdt Hok. set (e := lo (units_of cur c)).
  assert (He : e <= 0) by apply lo_nonpos.
  assert (Hl : forall d, In d (units_of cur c) -> e <= dexp d) by (intros d; apply lo_le).
  destruct (conv_cell_units f dt cur c e Hdt Hok He Hl) as [u [Hx [Hu H]]].
  exists u. split; [|exact H]. rewrite (sum_q_sc e _ He Hl), (dec_q_sc e u He Hx), Hu. reflexivity.
Qed.

(* ------------------------------------------------------------------ layout of the converters *)
Lemma build_convs_app a : forall i b rows,
  build_convs i (a ++ b) rows = build_convs i a rows ++ build_convs (i + length a) b rows.
Proof.
  induction a as [|[n dt] a IH]; intros i b rows; simpl.
  - rewrite Nat.add_0_r. reflexivity.
  - rewrite IH, app_assoc. do 2 f_equal. lia.
Qed.

Lemma layout pre name dt post rows :
  build_convs 0 (pre ++ (name, dt) :: post) rows =
  build_convs 0 pre rows ++ convert_col name dt rows (length pre) ++ build_convs (S (length pre)) post rows.
Proof. rewrite build_convs_app. reflexivity. Qed.

Lemma nth_map_default {A B} (g : A -> B) l j d d' : (j < length l)%nat -> nth j (map g l) d' = g (nth j l d).
Proof. intros H. rewrite (nth_indep _ d' (g d)) by (rewrite map_length; exact H). apply map_nth. Qed.

Section Table.
Variable f : option (dec -> currency -> dec).

Definition ocols cols rows := fst (numberify_core f cols rows).
Definition orows cols rows := snd (numberify_core f cols rows).
(* number of output columns produced by the columns [pre] *)
Definition width (pre : list column) (rows : list crow) : nat := length (build_convs 0 pre rows).

Theorem rows_preserved cols rows :
  orows cols rows = map (convert_row f (build_convs 0 cols rows)) rows.
Proof. reflexivity. Qed.

Theorem row_count_preserved cols rows : length (orows cols rows) = length rows.
Proof. unfold orows, numberify_core. simpl. apply map_length. Qed.

Theorem row_order_preserved cols rows i :
  (i < length rows)%nat ->
  nth i (orows cols rows) [] = convert_row f (build_convs 0 cols rows) (nth i rows []).
Proof.
  intros H. rewrite rows_preserved.
  rewrite (nth_indep _ [] (convert_row f (build_convs 0 cols rows) [])) by (rewrite map_length; exact H).
  apply map_nth.
Qed.

Theorem row_widths cols rows r : In r (orows cols rows) -> length r = length (ocols cols rows).
Proof.
  unfold orows, ocols, numberify_core. simpl. intros H. apply in_map_iff in H as [x [<- _]].
  unfold convert_row. rewrite !map_length. reflexivity.
Qed.

(* A column that is not Amount/Position/Inventory is copied: name, datatype and every cell. *)
Theorem plain_column_untouched pre name k post rows :
  let cols := pre ++ (name, DPlain k) :: post in
  let off := width pre rows in
  nth off (ocols cols rows) ([], DPlain 0) = (name, DPlain k) /\
  forall r, nth off (convert_row f (build_convs 0 cols rows) r) cnull = cellat (length pre) r.
Proof.
  intros cols off. unfold ocols, numberify_core, cols, off, width. simpl fst.
  rewrite layout. simpl convert_col. split.
  - rewrite map_app. simpl.
    rewrite <- (map_length (fun k0 => (conv_name k0, conv_dtype k0)) (build_convs 0 pre rows)).
    rewrite nth_middle. reflexivity.
  - intros r. unfold convert_row. rewrite map_app. simpl.
    rewrite <- (map_length (fun k0 => apply_conv f k0 r) (build_convs 0 pre rows)).
    rewrite nth_middle. reflexivity.
Qed.

(* An amount-like column becomes one decimal column per census currency, in census order,
   named `name (CUR)`; each new cell is the converter of that currency applied to the old cell. *)
Theorem amount_column_split pre name dt post rows j :
  dt_amountlike dt = true ->
  let cols := pre ++ (name, dt) :: post in
  let curs := col_currencies dt rows (length pre) in
  let off := width pre rows in
  (j < length curs)%nat ->
  nth (off + j) (ocols cols rows) ([], DPlain 0) = (fmt_name name (nth j curs []), DDecimal) /\
  forall r, nth (off + j) (convert_row f (build_convs 0 cols rows) r) cnull
            = conv_cell f dt (nth j curs []) (cellat (length pre) r).
Proof.
  intros Hdt cols curs off Hj. unfold ocols, numberify_core, cols, off, width. simpl fst.
  rewrite layout.
  assert (Hc : convert_col name dt rows (length pre)
               = map (fun cur => KConv (fmt_name name cur) dt (length pre) cur) curs).
  { destruct dt; [discriminate|reflexivity..]. }
  rewrite Hc. split.
  - rewrite map_app.
    rewrite <- (map_length (fun k0 => (conv_name k0, conv_dtype k0)) (build_convs 0 pre rows)).
    rewrite app_nth2_plus. rewrite map_app, app_nth1 by (rewrite !map_length; exact Hj).
    rewrite map_map. etransitivity; [apply (nth_map_default _ curs j []); exact Hj|reflexivity].
  - intros r. unfold convert_row. rewrite map_app.
    rewrite <- (map_length (fun k0 => apply_conv f k0 r) (build_convs 0 pre rows)).
    rewrite app_nth2_plus. rewrite map_app, app_nth1 by (rewrite !map_length; exact Hj).
    rewrite map_map. etransitivity; [apply (nth_map_default _ curs j []); exact Hj|reflexivity].
Qed.

(* the whole description, column by column *)
Definition col_out (rows : list crow) (idx : nat) (c : column) : list column :=
  match snd c with
  | DPlain _ => [c]
  | dt => map (fun cur => (fmt_name (fst c) cur, DDecimal)) (col_currencies dt rows idx)
  end.

Fixpoint cols_out (rows : list crow) (idx : nat) (cols : list column) : list column :=
  match cols with [] => [] | c :: t => col_out rows idx c ++ cols_out rows (S idx) t end.

Lemma cols_out_spec rows cols : forall idx,
  map (fun k => (conv_name k, conv_dtype k)) (build_convs idx cols rows) = cols_out rows idx cols.
Proof.
  induction cols as [|[n dt] t IH]; intros idx; simpl; [reflexivity|].
  rewrite map_app, IH. f_equal. unfold col_out. simpl.
  destruct dt; simpl; [reflexivity|rewrite map_map; reflexivity..].
Qed.

Theorem description cols rows : ocols cols rows = cols_out rows 0 cols.
Proof. unfold ocols, numberify_core. simpl. apply cols_out_spec. Qed.

Theorem total_on_well_typed cols rows :
  well_typed cols rows = true -> numberify_results f cols rows = Some (numberify_core f cols rows).
Proof. unfold numberify_results. intros ->. reflexivity. Qed.
End Table.

Lemma null_cell_ok dt : cell_ok dt cnull = true.
Proof. destruct dt; reflexivity. Qed.

(* ------------------------------------------------------------------ census *)
Definition incr_all (l : list currency) (m : list (currency * Z)) : list (currency * Z) :=
  fold_left (fun m c => incr c m) l m.

Definition mentions (dt : dtype) (idx : nat) (r : crow) : list currency := cell_census dt (cellat idx r).

Lemma census_flat dt rows idx : census dt rows idx = incr_all (flat_map (mentions dt idx) rows) [].
Proof.
  unfold census. generalize (@nil (currency * Z)).
  induction rows as [|r rows IH]; intros m; simpl; [reflexivity|].
  unfold incr_all. rewrite fold_left_app. apply IH.
Qed.

Fixpoint assoc (c : currency) (m : list (currency * Z)) : Z :=
  match m with [] => 0 | (k, n) :: t => if str_eqb k c then n else assoc c t end.

Definition cnt (c : currency) (l : list currency) : Z := Z.of_nat (length (filter (str_eqb c) l)).

Lemma cnt_cons c k l : cnt c (k :: l) = (if str_eqb c k then 1 else 0) + cnt c l.
Proof. unfold cnt. simpl. destruct (str_eqb c k); simpl length; lia. Qed.

Lemma cnt_app c a b : cnt c (a ++ b) = cnt c a + cnt c b.
Proof. unfold cnt. rewrite filter_app, app_length, Nat2Z.inj_add. reflexivity. Qed.

Lemma cnt_pos c l : In c l -> 1 <= cnt c l.
Proof.
  induction l as [|k l IH]; intros H; [destruct H|]. rewrite cnt_cons. destruct H as [->|H].
  - rewrite str_eqb_refl. unfold cnt. lia.
  - specialize (IH H). destruct (str_eqb c k); lia.
Qed.

Lemma cnt_notin c l : ~ In c l -> cnt c l = 0.
Proof.
  induction l as [|k l IH]; intros H; [reflexivity|]. rewrite cnt_cons.
  destruct (str_eqb c k) eqn:E.
  - seq. exfalso. apply H. left. reflexivity.
  - rewrite IH; [reflexivity|]. intros Hin. apply H. right. exact Hin.
Qed.

Lemma cnt_nodup c l : NoDup l -> cnt c l = if existsb (str_eqb c) l then 1 else 0.
Proof.
  induction 1 as [|k l Hk Hn IH]; [reflexivity|]. rewrite cnt_cons. simpl.
  destruct (str_eqb c k) eqn:E; simpl.
  - seq. rewrite cnt_notin by exact Hk. reflexivity.
  - rewrite IH. reflexivity.
Qed.

Lemma assoc_incr c k m : assoc c (incr k m) = assoc c m + (if str_eqb c k then 1 else 0).
Proof.
  induction m as [|[k0 n] t IH]; simpl.
  - rewrite (str_eqb_sym k c). reflexivity.
  - destruct (str_eqb k0 k) eqn:E1; simpl.
    + destruct (str_eqb k0 c) eqn:E2; seq.
      * rewrite str_eqb_refl. reflexivity.
      * assert (E3 : str_eqb c k = false) by (apply str_eqb_neq; auto). rewrite E3. lia.
    + destruct (str_eqb k0 c) eqn:E2; seq.
      * assert (E3 : str_eqb c k = false) by (apply str_eqb_neq; auto). rewrite E3. lia.
      * exact IH.
Qed.

Lemma keys_incr c k m : In c (map fst (incr k m)) <-> c = k \/ In c (map fst m).
Proof.
  induction m as [|[k0 n] t IH]; simpl.
  - intuition.
  - destruct (str_eqb k0 k) eqn:E; simpl; seq.
    + intuition.
    + rewrite IH. intuition.
Qed.

Lemma nodup_incr k m : NoDup (map fst m) -> NoDup (map fst (incr k m)).
Proof.
  induction m as [|[k0 n] t IH]; simpl; intros H.
  - constructor; [intros []|constructor].
  - inversion H as [|? ? Hk Ht]; subst. destruct (str_eqb k0 k) eqn:E; simpl; seq.
    + constructor; assumption.
    + constructor; [|apply IH; exact Ht]. rewrite keys_incr. intros [->|Hin]; [apply E; reflexivity|contradiction].
Qed.

Lemma assoc_all c l : forall m, assoc c (incr_all l m) = assoc c m + cnt c l.
Proof.
  induction l as [|k l IH]; intros m; simpl.
  - unfold cnt. simpl. lia.
  - rewrite IH, assoc_incr, cnt_cons. lia.
Qed.

Lemma keys_all c l : forall m, In c (map fst (incr_all l m)) <-> In c l \/ In c (map fst m).
Proof.
  induction l as [|k l IH]; intros m; simpl.
  - intuition.
  - rewrite IH, keys_incr. intuition.
Qed.

Lemma nodup_all l : forall m, NoDup (map fst m) -> NoDup (map fst (incr_all l m)).
Proof. induction l as [|k l IH]; intros m H; simpl; [exact H|]. apply IH. apply nodup_incr. exact H. Qed.

Lemma in_assoc c n m : NoDup (map fst m) -> In (c, n) m -> assoc c m = n.
Proof.
  induction m as [|[k0 n0] t IH]; simpl; intros Hn Hin; [destruct Hin|].
  inversion Hn as [|? ? Hk Ht]; subst. destruct Hin as [E|Hin].
  - inversion E; subst. rewrite str_eqb_refl. reflexivity.
  - destruct (str_eqb k0 c) eqn:E; seq.
    + exfalso. apply Hk. apply (in_map fst) in Hin. exact Hin.
    + apply IH; assumption.
Qed.

Lemma census_entry_count l c n : In (c, n) (incr_all l []) -> n = cnt c l.
Proof.
  intros H. rewrite <- (in_assoc c n _ (nodup_all l [] (NoDup_nil _)) H). rewrite assoc_all. reflexivity.
Qed.

(* number of rows whose cell mentions c *)
Definition row_count (dt : dtype) (rows : list crow) (idx : nat) (c : currency) : Z :=
  Z.of_nat (length (filter (fun r => existsb (str_eqb c) (mentions dt idx r)) rows)).

Lemma dedup_in x l : In x (dedup l) <-> In x l.
Proof.
  induction l as [|y l IH]; simpl; [tauto|].
  destruct (existsb (str_eqb y) l) eqn:E.
  - rewrite IH. apply existsb_str_In in E. split; [auto|]. intros [->|H]; auto.
  - simpl. rewrite IH. tauto.
Qed.

Lemma dedup_nodup l : NoDup (dedup l).
Proof.
  induction l as [|y l IH]; simpl; [constructor|].
  destruct (existsb (str_eqb y) l) eqn:E; [exact IH|].
  constructor; [|exact IH]. rewrite dedup_in. intros H. apply existsb_str_In in H. congruence.
Qed.

Lemma cell_census_nodup dt c : NoDup (cell_census dt c).
Proof.
  destruct dt, c; simpl; try constructor.
  - destruct (_ && _); [constructor; [intros []|constructor]|constructor].
  - destruct (str_nonempty _); [constructor; [intros []|constructor]|constructor].
  - apply dedup_nodup.
Qed.

Lemma cnt_rows dt idx c rows : cnt c (flat_map (mentions dt idx) rows) = row_count dt rows idx c.
Proof.
  unfold row_count, mentions. induction rows as [|r rows IH]; [reflexivity|].
  simpl flat_map. rewrite cnt_app, IH. rewrite (cnt_nodup c _ (cell_census_nodup dt (cellat idx r))).
  simpl filter. destruct (existsb (str_eqb c) (cell_census dt (cellat idx r))); simpl length; lia.
Qed.

(* the sort *)
Lemma census_le_total : total census_le.
Proof. apply total_lex; [apply total_on, zleb_total|apply total_on, list_le_total]. Qed.
Lemma census_le_trans : trans census_le.
Proof. apply trans_lex; [apply total_on, zleb_total|apply trans_on, zleb_trans|apply trans_on, list_le_trans]. Qed.

Lemma census_sort m : py_sort census_le true m = isort (flip census_le) m.
Proof. unfold py_sort. apply py_sort_reverse; [apply census_le_total|apply census_le_trans]. Qed.

(* (count, name) of a before (count, name) of b in decreasing order *)
Definition key_ge (a b : currency * Z) : Prop :=
  snd b < snd a \/ (snd a = snd b /\ list_le (fst b) (fst a) = true).

Lemma flip_census_le_key a b : flip census_le a b = true -> key_ge a b.
Proof.
  unfold flip, census_le, lex, on, key_ge. destruct a as [ca na], b as [cb nb]. simpl.
  destruct (Z.leb_spec nb na); [|discriminate]. destruct (Z.leb_spec na nb); intros HH.
  - right. split; [lia|exact HH].
  - left. lia.
Qed.

Lemma StronglySorted_map_in {A B} (R : A -> A -> Prop) (R' : B -> B -> Prop) (g : A -> B) l :
  (forall x y, In x l -> In y l -> R x y -> R' (g x) (g y)) ->
  StronglySorted R l -> StronglySorted R' (map g l).
Proof.
  induction l as [|x l IH]; intros H S; simpl; [constructor|].
  inversion S as [|? ? Sl Fx]; subst. constructor.
  - apply IH; [|exact Sl]. intros a b Ha Hb. apply H; right; assumption.
  - rewrite Forall_forall in *. intros y Hy. apply in_map_iff in Hy as [z [<- Hz]].
    apply H; [left; reflexivity|right; exact Hz|apply Fx; exact Hz].
Qed.

Section Census.
Variables (dt : dtype) (rows : list crow) (idx : nat).
Let curs := col_currencies dt rows idx.
Let rc := row_count dt rows idx.

Lemma sorted_census_perm : Permutation (census dt rows idx) (py_sort census_le true (census dt rows idx)).
Proof. rewrite census_sort. apply isort_perm. Qed.

Lemma census_entry c n : In (c, n) (census dt rows idx) -> n = rc c.
Proof. rewrite census_flat. intros H. apply census_entry_count in H. rewrite H. apply cnt_rows. Qed.

Theorem currencies_nodup : NoDup curs.
Proof.
  unfold curs, col_currencies.
  apply (Permutation_NoDup (l := map fst (census dt rows idx))).
  - apply Permutation_map. apply sorted_census_perm.
  - rewrite census_flat. apply nodup_all. constructor.
Qed.

(* a currency gets a column iff some row's cell mentions it *)
Theorem currencies_exact c :
  In c curs <-> exists r, In r rows /\ In c (cell_census dt (cellat idx r)).
Proof.
  unfold curs, col_currencies.
  assert (P : Permutation (map fst (census dt rows idx)) (map fst (py_sort census_le true (census dt rows idx))))
    by (apply Permutation_map, sorted_census_perm).
  split.
  - intros H. apply (Permutation_in _ (Permutation_sym P)) in H.
    rewrite census_flat, keys_all in H. destruct H as [H|[]].
    apply in_flat_map in H. exact H.
  - intros H. apply (Permutation_in _ P). rewrite census_flat, keys_all. left. apply in_flat_map. exact H.
Qed.

(* the sorted census is exactly the currencies paired with their row counts *)
Theorem sorted_census_counts :
  py_sort census_le true (census dt rows idx) = map (fun c => (c, rc c)) curs.
Proof.
  unfold curs, col_currencies. rewrite map_map. simpl.
  rewrite <- (map_id (py_sort census_le true (census dt rows idx))) at 1.
  apply map_ext_in. intros [c n] H. simpl.
  apply (Permutation_in _ (Permutation_sym sorted_census_perm)) in H. rewrite (census_entry c n H). reflexivity.
Qed.

(* columns come by decreasing number of rows mentioning the currency, ties by decreasing name *)
Theorem currencies_order :
  StronglySorted (fun a b => rc b < rc a \/ (rc a = rc b /\ list_le b a = true)) curs.
Proof.
  assert (S : sorted (flip census_le) (py_sort census_le true (census dt rows idx))).
  { rewrite census_sort. apply isort_sorted; [apply total_flip, census_le_total|apply trans_flip, census_le_trans]. }
  unfold sorted in S.
  apply (StronglySorted_map_in _ (fun a b => rc b < rc a \/ (rc a = rc b /\ list_le b a = true)) fst) in S.
  - exact S.
  - intros [ca na] [cb nb] Ha Hb H. apply flip_census_le_key in H. unfold key_ge in H. simpl in *.
    apply (Permutation_in _ (Permutation_sym sorted_census_perm)) in Ha, Hb.
    rewrite <- (census_entry ca na Ha), <- (census_entry cb nb Hb). exact H.
Qed.

(* with NoDup: strictly decreasing keys *)
Theorem currencies_order_strict a b l1 l2 l3 :
  curs = l1 ++ a :: l2 ++ b :: l3 -> rc b < rc a \/ (rc a = rc b /\ list_le b a = true /\ a <> b).
Proof.
  intros E. pose proof currencies_order as S. pose proof currencies_nodup as N. rewrite E in S, N.
  assert (Hab : a <> b).
  { apply NoDup_remove_2 in N. intros ->. apply N. apply in_or_app. right. apply in_or_app. right. left. reflexivity. }
  assert (S2 : StronglySorted (fun a b => rc b < rc a \/ (rc a = rc b /\ list_le b a = true)) (a :: l2 ++ b :: l3)).
  { clear N E. induction l1 as [|x l1 IH]; [exact S|]. apply IH. inversion S; assumption. }
  inversion S2 as [|? ? _ F]; subst. rewrite Forall_forall in F.
  destruct (F b) as [H|[H1 H2]]; [apply in_or_app; right; left; reflexivity|left; exact H|right; auto].
Qed.
End Census.

(* ------------------------------------------------------------------ nothing dropped, nothing invented *)
Lemma census_of_unit dt c a :
  dt_amountlike dt = true -> cell_ok dt c = true -> In a (cell_units c) -> acur a <> [] ->
  (dt = DAmount -> dec_is_zero (anum a) = false) ->
  In (acur a) (cell_census dt c).
Proof.
  intros Hdt Hok Hin Hne Hnz.
  assert (Hs : str_nonempty (acur a) = true) by (destruct (acur a); [contradiction|reflexivity]).
  destruct c as [v|a0|p|i]; simpl in Hin.
  - destruct Hin.
  - destruct Hin as [->|[]]. destruct dt; try discriminate. simpl. rewrite (Hnz eq_refl), Hs. left. reflexivity.
  - destruct Hin as [<-|[]]. destruct dt; try discriminate. simpl. unfold pcur in *. rewrite Hs. left. reflexivity.
  - destruct dt; try discriminate. simpl. apply dedup_in. apply in_map_iff in Hin as [p [<- Hp]].
    apply in_map_iff. exists p. split; [reflexivity|exact Hp].
Qed.

Theorem no_currency_dropped dt rows idx r a :
  dt_amountlike dt = true -> In r rows -> cell_ok dt (cellat idx r) = true ->
  In a (cell_units (cellat idx r)) -> acur a <> [] ->
  (dt = DAmount -> dec_is_zero (anum a) = false) ->
  In (acur a) (col_currencies dt rows idx).
Proof.
  intros Hdt Hr Hok Hin Hne Hnz. apply currencies_exact. exists r. split; [exact Hr|].
  apply census_of_unit; assumption.
Qed.

Lemma census_is_unit dt c cur : In cur (cell_census dt c) -> exists a, In a (cell_units c) /\ acur a = cur.
Proof.
  destruct dt, c; simpl; try (intros []).
  - destruct (_ && _); [|intros []]. intros [<-|[]]. exists a. auto.
  - destruct (str_nonempty _); [|intros []]. intros [<-|[]]. exists (punits p). auto.
  - intros H. rewrite dedup_in in H. apply in_map_iff in H as [p [<- Hp]]. exists (punits p). split; [|reflexivity].
    apply in_map. exact Hp.
Qed.

Theorem no_currency_invented dt rows idx cur :
  In cur (col_currencies dt rows idx) ->
  exists r a, In r rows /\ In a (cell_units (cellat idx r)) /\ acur a = cur.
Proof.
  intros H. apply currencies_exact in H as [r [Hr Hc]]. apply census_is_unit in Hc as [a [Ha E]].
  exists r, a. auto.
Qed.

(* ------------------------------------------------------------------ the order in which the census meets the currencies is irrelevant
   (dict insertion order; set iteration order of Inventory.currencies() is hash dependent) *)
Lemma sorted_perm_unique {A} (le : A -> A -> bool) :
  (forall x y, le x y = true -> le y x = true -> x = y) ->
  forall l1 l2, sorted le l1 -> sorted le l2 -> Permutation l1 l2 -> l1 = l2.
Proof.
  intros Anti. induction l1 as [|x t1 IH]; intros l2 S1 S2 P.
  - apply Permutation_nil in P. auto.
  - destruct l2 as [|y t2].
    + apply Permutation_sym, Permutation_nil in P. discriminate.
    + inversion S1 as [|? ? S1' F1]; inversion S2 as [|? ? S2' F2]; subst. rewrite Forall_forall in F1, F2.
      assert (E : x = y).
      { assert (Hx : In x (y :: t2)) by (apply (Permutation_in _ P); left; reflexivity).
        assert (Hy : In y (x :: t1)) by (apply (Permutation_in _ (Permutation_sym P)); left; reflexivity).
        destruct Hx as [Hx|Hx]; [auto|]. destruct Hy as [Hy|Hy]; [auto|].
        apply Anti; [apply F1; exact Hy|apply F2; exact Hx]. }
      subst y. f_equal. apply IH; auto. apply Permutation_cons_inv in P. exact P.
Qed.

Lemma census_le_antisym a b : census_le a b = true -> census_le b a = true -> a = b.
Proof.
  unfold census_le, lex, on. destruct a as [ca na], b as [cb nb]. simpl.
  destruct (Z.leb_spec na nb), (Z.leb_spec nb na); try discriminate; try lia.
  intros H1 H2. assert (na = nb) by lia. subst. f_equal. apply list_le_antisym; assumption.
Qed.

Lemma cnt_perm c l l' : Permutation l l' -> cnt c l = cnt c l'.
Proof. induction 1; [reflexivity|rewrite !cnt_cons; lia|rewrite !cnt_cons; lia|lia]. Qed.

Lemma census_mem l c n : In (c, n) (incr_all l []) <-> In c l /\ n = cnt c l.
Proof.
  split.
  - intros H. split; [|apply census_entry_count; exact H].
    apply (in_map fst) in H. simpl in H. apply keys_all in H. destruct H as [H|[]]. exact H.
  - intros [H ->]. assert (K : In c (map fst (incr_all l []))) by (apply keys_all; left; exact H).
    apply in_map_iff in K as [[c' n'] [E K]]. simpl in E. subst c'.
    rewrite <- (census_entry_count l c n' K). exact K.
Qed.

Lemma census_perm l l' : Permutation l l' -> Permutation (incr_all l []) (incr_all l' []).
Proof.
  intros P. apply NoDup_Permutation.
  - apply (NoDup_map_inv fst). apply nodup_all. constructor.
  - apply (NoDup_map_inv fst). apply nodup_all. constructor.
  - intros [c n]. rewrite !census_mem, (cnt_perm c l l' P). split; intros [H E]; split; auto.
    + apply (Permutation_in _ P). exact H.
    + apply (Permutation_in _ (Permutation_sym P)). exact H.
Qed.

Theorem census_flat_order_irrelevant l l' :
  Permutation l l' -> py_sort census_le true (incr_all l []) = py_sort census_le true (incr_all l' []).
Proof.
  intros P. rewrite !census_sort.
  apply (sorted_perm_unique (flip census_le)).
  - intros x y H1 H2. unfold flip in *. apply census_le_antisym; assumption.
  - apply isort_sorted; [apply total_flip, census_le_total|apply trans_flip, census_le_trans].
  - apply isort_sorted; [apply total_flip, census_le_total|apply trans_flip, census_le_trans].
  - eapply Permutation_trans; [apply Permutation_sym, isort_perm|].
    eapply Permutation_trans; [apply census_perm; exact P|apply isort_perm].
Qed.

(* whatever order each cell yields its currencies in, the columns come out the same *)
Theorem census_order_irrelevant dt rows idx (g : crow -> list currency) :
  (forall r, Permutation (g r) (mentions dt idx r)) ->
  map fst (py_sort census_le true (incr_all (flat_map g rows) [])) = col_currencies dt rows idx.
Proof.
  intros H. unfold col_currencies. rewrite census_flat. f_equal. apply census_flat_order_irrelevant.
  induction rows as [|r rows IH]; simpl; [constructor|]. apply Permutation_app; [apply H|exact IH].
Qed.

(* ------------------------------------------------------------------ the concrete formatter (DisplayContext): Decimal.quantize *)
Lemma quantize_exp_exp d e : dexp (quantize_exp d e) = e /\ dneg (quantize_exp d e) = dneg d.
Proof. unfold quantize_exp. destruct (e <=? dexp d); simpl; auto. Qed.

(* no digit to drop: the value is unchanged *)
Lemma quantize_exp_exact d e : e <= dexp d -> sc e (quantize_exp d e) = sc e d.
Proof.
  intros H. unfold quantize_exp. apply Z.leb_le in H. rewrite H. apply Z.leb_le in H.
  unfold sc, dec_signed. simpl. rewrite Z.sub_diag. simpl. destruct (dneg d); lia.
Qed.

(* digits dropped: the error is at most half a unit of the last kept place, ties go to the even coefficient *)
Lemma quantize_exp_round d e :
  dexp d < e -> 0 <= dcoef d ->
  let p := 10 ^ (e - dexp d) in
  let q := dcoef (quantize_exp d e) in
  2 * Z.abs (dcoef d - q * p) <= p /\ (2 * Z.abs (dcoef d - q * p) = p -> Z.even q = true).
Proof.
  intros H Hc p q. unfold q, quantize_exp. assert (L : (e <=? dexp d) = false) by (apply Z.leb_gt; exact H).
  rewrite L. cbv zeta. cbn [dcoef]. fold p.
  assert (Pp : 0 < p) by (apply pow10_pos; lia).
  pose proof (Z.div_mod (dcoef d) p ltac:(lia)) as DM.
  pose proof (Z.mod_pos_bound (dcoef d) p Pp) as MB.
  set (qq := dcoef d / p) in *. set (r := dcoef d mod p) in *.
  destruct (Z.ltb_spec (2 * r) p).
  - split; [lia|]. intros E. exfalso. lia.
  - destruct (Z.ltb_spec p (2 * r)).
    + split; [lia|]. intros E. exfalso. lia.
    + destruct (Z.odd qq) eqn:O.
      * split; [lia|]. intros _. rewrite Z.even_add, <- Z.negb_odd, O. reflexivity.
      * split; [lia|]. intros _. rewrite <- Z.negb_odd, O. reflexivity.
Qed.

Lemma dc_quantize_unknown t d cur : lookup_digits cur t = None -> dc_quantize t d cur = d.
Proof. unfold dc_quantize. intros ->. reflexivity. Qed.

Lemma dc_quantize_known t d cur n :
  lookup_digits cur t = Some n -> dexp (dc_quantize t d cur) = - n.
Proof. unfold dc_quantize. intros ->. apply quantize_exp_exp. Qed.

(* ------------------------------------------------------------------ table level: every quantity of every cell is accounted for *)
Lemma row_ok_cell pre name dt post : forall r,
  row_ok (pre ++ (name, dt) :: post) r = true -> cell_ok dt (cellat (length pre) r) = true.
Proof.
  induction pre as [|[n d] pre IH]; intros [|c r]; simpl; try discriminate.
  - intros H. apply andb_prop in H as [H _]. exact H.
  - intros H. apply andb_prop in H as [_ H]. apply IH. exact H.
Qed.

Lemma dec_q_zero d : dec_is_zero d = true -> (dec_q d == 0)%Q.
Proof.
  unfold dec_is_zero, dec_q, dec_signed, Qeq. intros H. apply Z.eqb_eq in H. rewrite H.
  destruct (dneg d), (0 <=? dexp d); simpl; reflexivity.
Qed.

Lemma sum_q_zero l : (forall d, In d l -> dec_is_zero d = true) -> (sum_q l == 0)%Q.
Proof.
  induction l as [|d l IH]; intros H; [reflexivity|]. unfold sum_q in *. simpl.
  rewrite IH by (intros x Hx; apply H; right; exact Hx).
  rewrite (dec_q_zero d) by (apply H; left; reflexivity). reflexivity.
Qed.

Theorem table_conservation pre name dt post rows r cur :
  dt_amountlike dt = true ->
  let cols := pre ++ (name, dt) :: post in
  let curs := col_currencies dt rows (length pre) in
  let off := width pre rows in
  let c := cellat (length pre) r in
  well_typed cols rows = true -> In r rows -> cur <> [] ->
  (exists j, (j < length curs)%nat /\ nth j curs [] = cur /\
     let out := nth (off + j) (convert_row None (build_convs 0 cols rows) r) cnull in
     (out = cnull /\ (sum_q (units_of cur c) == 0)%Q)
     \/ exists d, out = CPlain (VDec d) /\ (dec_q d == sum_q (units_of cur c))%Q)
  \/ (~ In cur curs /\ (sum_q (units_of cur c) == 0)%Q).
Proof.
  intros Hdt cols curs off c Hwt Hr Hne.
  assert (Hok : cell_ok dt c = true).
  { unfold well_typed in Hwt. rewrite forallb_forall in Hwt. apply (row_ok_cell pre name dt post). apply Hwt. exact Hr. }
  destruct (in_dec (list_eq_dec Z.eq_dec) cur curs) as [Hin|Hnin].
  - left. destruct (In_nth _ _ [] Hin) as [j [Hj Ej]]. exists j. split; [exact Hj|]. split; [exact Ej|].
    destruct (amount_column_split None pre name dt post rows j Hdt Hj) as [_ Hcell].
    cbv zeta. fold cols. rewrite Hcell.
    change (col_currencies dt rows (length pre)) with curs. unfold currency in *. rewrite Ej.
    change (cellat (length pre) r) with c.
    apply conv_cell_value; assumption.
  - right. split; [exact Hnin|]. apply sum_q_zero. intros d Hd. unfold units_of in Hd.
    apply in_map_iff in Hd as [a [<- Ha]]. apply filter_In in Ha as [Ha E]. apply str_eqb_eq in E.
    destruct (dec_is_zero (anum a)) eqn:Z; [reflexivity|]. exfalso. apply Hnin. rewrite <- E.
    apply (no_currency_dropped dt rows (length pre) r a); auto.
    rewrite E. exact Hne.
Qed.
