From Coq Require Import String ZArith List Bool Lia.
Import ListNotations.
From Verif Require Import Base.PyValue Model.Eval Model.PyMini Model.PrimsLedger Model.Ledger Model.Tables
  Gen.SrcLedgerTables Proofs.PyMiniLemmas Proofs.PyMiniLemmasLedger.
Open Scope string_scope.
Open Scope list_scope.
Open Scope Z_scope.

Local Arguments prims_ledger : simpl never.

Definition entries_body : list stmt :=
  Eval cbv beta iota delta [f_body src_entries_iter] in match f_body src_entries_iter with [_; _; SFor _ _ b] => b | _ => [] end.
Definition postings_outer : list stmt :=
  Eval cbv beta iota delta [f_body src_postings_iter] in match f_body src_postings_iter with [_; _; SFor _ _ b] => b | _ => [] end.
Definition postings_inner : list stmt :=
  Eval cbv beta iota delta [postings_outer] in match postings_outer with [SIf _ [_; SFor _ _ b] _] => b | _ => [] end.
Definition typed_body : list stmt :=
  Eval cbv beta iota delta [f_body src_typed_iter] in match f_body src_typed_iter with [_; SFor _ _ b] => b | _ => [] end.

(* values in head-constructor form (convertible with PrimsLedger.row_obj / enc_directive) *)
Notation robj rid e p :=
  (PTuple [pstr ROW; PList (enc_flds [("rowid", PInt rid); ("posting", p); ("entry", e); ("balance", Inv.enc_inv []);
                                      ("balance_rowid", PNone); ("balance_value", PNone)])]).

Ltac env_tac :=
  repeat (rewrite ?lookup_update_eq; rewrite ?lookup_update_neq by reflexivity);
  repeat match goal with H : lookup ?x ?l = Some _ |- context [lookup ?x ?l] => rewrite H end.

Section Tie.
Variable call_ref : nat -> list pv -> pv.
Variable ext : string -> list pv -> res pv.
Notation prims := (prims_ledger SrcLedgerTables.refs ext).

Lemma setattr_entry rid e p v : prims "setattr:entry" [robj rid e p; v] = Ok (robj rid v p).
Proof. exact (prim_setattr_obj _ ext "entry" ROW _ v). Qed.
Lemma setattr_posting rid e p v : prims "setattr:posting" [robj rid e p; v] = Ok (robj rid e v).
Proof. exact (prim_setattr_obj _ ext "posting" ROW _ v). Qed.
Lemma setattr_rowid rid e p z : prims "setattr:rowid" [robj rid e p; PInt z] = Ok (robj z e p).
Proof. exact (prim_setattr_obj _ ext "rowid" ROW _ (PInt z)). Qed.
Lemma attr_rowid rid e p : prims ("attr:" ++ "rowid") [robj rid e p] = Ok (PInt rid).
Proof. exact (prim_attr_obj _ ext "rowid" ROW _). Qed.

Ltac eval_tac :=
  repeat (progress (cbn [PyMini.eval read bind locals fields write binop1 binop_builtin PInt row_obj obj enc_directive];
                    env_tac; rewrite ?setattr_entry, ?setattr_posting, ?setattr_rowid, ?attr_rowid)).
Ltac ylist_tac :=
  cbn [locals write]; rewrite ?ylist_update_yield; rewrite ?ylist_update_other by reflexivity; try eassumption.
Ltac step_assign := erewrite exec_block_next by (eapply exec_assign; eval_tac; reflexivity).
Ltac step_yield := erewrite exec_block_next by (eapply exec_yield; [eval_tac; reflexivity | ylist_tac]).

Theorem row_init_src : forall es o,
  call_method call_ref prims src_row_init row_class_attrs [es; o] = Ok (row0, PNone).
Proof. intros. reflexivity. Qed.

Lemma prim_row es o : prims ROW [es; o] = Ok (row_obj 0 PNone PNone).
Proof. reflexivity. Qed.

Definition enc_erow (r : erow) : pv := row_obj (er_rowid r) (enc_directive (er_entry r)) PNone.

Lemma entries_loop_src : forall es loc flds rid ent acc,
  lookup "context" loc = Some (robj rid ent PNone) -> ylist loc = Some acc ->
  exists loc',
    for_loop call_ref prims entries_body "entry" {| locals := loc; fields := flds |} (map enc_directive es) =
    Ok (Next {| locals := loc'; fields := flds |}) /\
    ylist loc' = Some (acc ++ map enc_erow (entries_loop es rid)).
Proof.
  induction es as [|e es IH]; intros loc flds rid ent acc Hc Hy.
  - exists loc. split; [reflexivity|]. cbn. now rewrite app_nil_r.
  - cbn [map for_loop entries_loop]. unfold entries_body at 1.
    step_assign. step_assign. step_yield.
    cbn [PyMini.exec_block bind write locals fields].
    match goal with |- context [for_loop _ _ _ _ {| locals := ?L; fields := _ |}] =>
      destruct (IH L flds (rid + 1) (enc_directive e) (acc ++ [enc_erow (mkerow (rid + 1) e)])) as [loc' [E Y]];
      [| |exists loc'; split; [exact E|]] end.
    + cbn [locals write]. env_tac. reflexivity.
    + ylist_tac. reflexivity.
    + rewrite Y, <- app_assoc. reflexivity.
Qed.

Theorem entries_iter_src : forall kp o l,
  call_ref kp [] = enc_ledger l ->
  let flds := [("prepare", PRef kp); ("options", o)] in
  call_method call_ref prims src_entries_iter flds [] = Ok (flds, PList (map enc_erow (entries_iter l))).
Proof.
  intros kp o l Hp flds. unfold call_method, src_entries_iter. cbn [f_params f_body f_gen bind_params].
  erewrite exec_block_next.
  2:{ eapply exec_assign. cbn. rewrite Hp. reflexivity. }
  erewrite exec_block_next.
  2:{ eapply exec_assign. cbn. rewrite prim_row. reflexivity. }
  cbn [PyMini.exec_block].
  erewrite exec_for by reflexivity. fold entries_body. cbn [write locals fields update String.eqb Ascii.eqb Bool.eqb].
  match goal with |- context [for_loop _ _ _ _ {| locals := ?L; fields := _ |}] =>
    destruct (entries_loop_src l L flds 0 PNone []) as [loc' [E Y]]; [| |unfold enc_ledger; rewrite E] end.
  - reflexivity.
  - reflexivity.
  - cbn [bind locals fields]. unfold ylist in Y.
    destruct (lookup yield_var loc') as [[ | a| | |]|]; try discriminate; injection Y as ->; reflexivity.
Qed.

(* ---------------------------------------------------------------- postings *)
Definition enc_prow (r : prow) : pv :=
  row_obj (pr_rowid r) (enc_directive (pr_entry r)) (enc_posting (pr_posting r)).

Lemma post_loop_src : forall ps loc flds rid e p0 acc j seen,
  lookup "context" loc = Some (robj rid (enc_directive e) p0) -> ylist loc = Some acc ->
  exists loc' p1,
    for_loop call_ref prims postings_inner "posting" {| locals := loc; fields := flds |} (map enc_posting ps) =
    Ok (Next {| locals := loc'; fields := flds |}) /\
    ylist loc' = Some (acc ++ map enc_prow (post_loop e ps j rid seen)) /\
    lookup "context" loc' = Some (robj (rid + Z.of_nat (List.length ps)) (enc_directive e) p1).
Proof.
  induction ps as [|p ps IH]; intros loc flds rid e p0 acc j seen Hc Hy.
  - exists loc, p0. split; [reflexivity|]. cbn. rewrite app_nil_r, Z.add_0_r. auto.
  - cbn [map for_loop post_loop]. unfold postings_inner at 1.
    step_assign. step_assign. step_yield.
    cbn [PyMini.exec_block bind write locals fields].
    match goal with |- context [for_loop _ _ _ _ {| locals := ?L; fields := _ |}] =>
      destruct (IH L flds (rid + 1) e (enc_posting p) (acc ++ [enc_prow (mkprow (rid + 1) e j p (seen ++ [p]))])
                 (S j) (seen ++ [p])) as [loc' [p1 [E [Y C]]]];
      [| |exists loc', p1; split; [exact E|split]] end.
    + cbn [locals write]. env_tac. reflexivity.
    + ylist_tac. reflexivity.
    + rewrite Y, <- app_assoc. reflexivity.
    + rewrite C. cbn [List.length]. rewrite Nat2Z.inj_succ.
      replace (rid + 1 + Z.of_nat (List.length ps)) with (rid + Z.succ (Z.of_nat (List.length ps))) by lia.
      reflexivity.
Qed.

Lemma isinstance_txn d : prims "builtins.isinstance" [enc_directive d; PRef 0] = Ok (PBool (is_transaction d)).
Proof. destruct d; reflexivity. Qed.

Lemma attr_postings d : is_transaction d = true ->
  prims ("attr:" ++ "postings") [enc_directive d] = Ok (PList (map enc_posting (d_postings d))).
Proof. destruct d; try discriminate. intros _. exact (prim_attr_obj _ ext "postings" _ _). Qed.

Lemma postings_loop_src : forall es loc flds rid ent p0 acc seen,
  lookup "context" loc = Some (robj rid ent p0) -> ylist loc = Some acc ->
  exists loc',
    for_loop call_ref prims postings_outer "entry" {| locals := loc; fields := flds |} (map enc_directive es) =
    Ok (Next {| locals := loc'; fields := flds |}) /\
    ylist loc' = Some (acc ++ map enc_prow (postings_loop es rid seen)).
Proof.
  induction es as [|e es IH]; intros loc flds rid ent p0 acc seen Hc Hy.
  - exists loc. split; [reflexivity|]. cbn. now rewrite app_nil_r.
  - cbn [map for_loop postings_loop]. unfold postings_outer at 1. cbn [PyMini.exec_block].
    erewrite exec_if; [| eval_tac; rewrite isinstance_txn; reflexivity | reflexivity].
    destruct (is_transaction e) eqn:Ht; cbn [Eval.truthy].
    + step_assign. cbn [PyMini.exec_block].
      erewrite exec_for by (eval_tac; rewrite (attr_postings e Ht); reflexivity).
      fold postings_inner. cbn [write locals fields].
      match goal with |- context [for_loop _ _ postings_inner _ {| locals := ?L; fields := _ |}] =>
        destruct (post_loop_src (d_postings e) L flds rid e p0 acc 0%nat seen) as [loc1 [p1 [E [Y C]]]] end.
      * env_tac. reflexivity.
      * ylist_tac.
      * rewrite E. cbn [bind].
        destruct (IH loc1 flds (rid + Z.of_nat (List.length (d_postings e))) (enc_directive e) p1
                     (acc ++ map enc_prow (post_loop e (d_postings e) 0 rid seen)) (seen ++ d_postings e) C Y)
          as [loc' [E' Y']].
        exists loc'. split; [exact E'|]. rewrite Y', map_app, app_assoc. reflexivity.
    + cbn [PyMini.exec_block bind].
      match goal with |- context [for_loop _ _ _ _ {| locals := ?L; fields := _ |}] =>
        destruct (IH L flds rid ent p0 acc seen) as [loc' [E Y]]; [| |exists loc'; split; [exact E|exact Y]] end.
      * cbn [locals]. env_tac. reflexivity.
      * cbn [locals]. ylist_tac.
Qed.

Theorem postings_iter_src : forall kp o l,
  call_ref kp [] = enc_ledger l ->
  let flds := [("prepare", PRef kp); ("options", o)] in
  call_method call_ref prims src_postings_iter flds [] = Ok (flds, PList (map enc_prow (postings_iter l))).
Proof.
  intros kp o l Hp flds. unfold call_method, src_postings_iter. cbn [f_params f_body f_gen bind_params].
  erewrite exec_block_next.
  2:{ eapply exec_assign. cbn. rewrite Hp. reflexivity. }
  erewrite exec_block_next.
  2:{ eapply exec_assign. cbn. rewrite prim_row. reflexivity. }
  cbn [PyMini.exec_block].
  erewrite exec_for by reflexivity. fold postings_outer. cbn [write locals fields update String.eqb Ascii.eqb Bool.eqb].
  match goal with |- context [for_loop _ _ _ _ {| locals := ?L; fields := _ |}] =>
    destruct (postings_loop_src l L flds 0 PNone PNone [] []) as [loc' [E Y]]; [| |unfold enc_ledger; rewrite E] end.
  - reflexivity.
  - reflexivity.
  - cbn [bind locals fields]. unfold ylist in Y.
    destruct (lookup yield_var loc') as [[ | a| | |]|]; try discriminate; injection Y as ->; reflexivity.
Qed.

(* ---------------------------------------------------------------- typed directive tables *)
Lemma isinstance_kind d k :
  prims "builtins.isinstance" [enc_directive d; cls_value (kind_class k)] = Ok (PBool (dkind_eqb (d_kind d) k)).
Proof. destruct d, k; reflexivity. Qed.

Lemma typed_loop_src : forall es loc flds k acc,
  lookup "datatype" loc = Some (cls_value (kind_class k)) -> ylist loc = Some acc ->
  exists loc',
    for_loop call_ref prims typed_body "entry" {| locals := loc; fields := flds |} (map enc_directive es) =
    Ok (Next {| locals := loc'; fields := flds |}) /\
    ylist loc' = Some (acc ++ map enc_directive (typed_iter k es)).
Proof.
  induction es as [|e es IH]; intros loc flds k acc Hd Hy.
  - exists loc. split; [reflexivity|]. cbn. now rewrite app_nil_r.
  - cbn [map for_loop typed_iter]. unfold typed_body at 1. cbn [PyMini.exec_block].
    erewrite exec_if; [| eval_tac; rewrite isinstance_kind; reflexivity | reflexivity].
    destruct (dkind_eqb (d_kind e) k) eqn:Hk; cbn [Eval.truthy].
    + step_yield. cbn [PyMini.exec_block bind write locals fields].
      match goal with |- context [for_loop _ _ _ _ {| locals := ?L; fields := _ |}] =>
        destruct (IH L flds k (acc ++ [enc_directive e])) as [loc' [E Y]]; [| |exists loc'; split; [exact E|]] end.
      * env_tac. reflexivity.
      * ylist_tac. reflexivity.
      * rewrite Y, <- app_assoc. reflexivity.
    + cbn [PyMini.exec_block bind].
      match goal with |- context [for_loop _ _ _ _ {| locals := ?L; fields := _ |}] =>
        destruct (IH L flds k acc) as [loc' [E Y]]; [| |exists loc'; split; [exact E|exact Y]] end.
      * cbn [locals]. env_tac. reflexivity.
      * cbn [locals]. ylist_tac.
Qed.

Theorem typed_iter_src : forall k l,
  let flds := [("datatype", cls_value (kind_class k)); ("entries", enc_ledger l)] in
  call_method call_ref prims src_typed_iter flds [] = Ok (flds, PList (map enc_directive (typed_iter k l))).
Proof.
  intros k l flds. unfold call_method, src_typed_iter. cbn [f_params f_body f_gen bind_params].
  erewrite exec_block_next by (eapply exec_assign; reflexivity).
  cbn [PyMini.exec_block].
  erewrite exec_for by reflexivity. fold typed_body. cbn [write locals fields update String.eqb Ascii.eqb Bool.eqb].
  match goal with |- context [for_loop _ _ _ _ {| locals := ?L; fields := _ |}] =>
    destruct (typed_loop_src l L flds k []) as [loc' [E Y]]; [| |unfold enc_ledger; rewrite E] end.
  - reflexivity.
  - reflexivity.
  - cbn [bind locals fields]. unfold ylist in Y.
    destruct (lookup yield_var loc') as [[ | a| | |]|]; try discriminate; injection Y as ->; reflexivity.
Qed.
End Tie.

(* every table class that iterates with Table.__iter__ has a directive class as datatype (the generated census) *)
Definition all_kinds : list dkind :=
  [KTransaction; KOpen; KClose; KCommodity; KPad; KBalance; KNote; KEvent; KQuery; KPrice; KDocument; KCustom].
Lemma typed_tables_kinds :
  forallb (fun nc => existsb (fun k => String.eqb (snd nc) (kind_class k)) all_kinds) typed_tables = true.
Proof. reflexivity. Qed.
