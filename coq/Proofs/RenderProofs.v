(* Proofs about Model/Render.v and Model/RenderCheck.v (C16). *)
From Coq Require Import ZArith List Bool Arith Lia.
Import ListNotations.
From Verif Require Import Base.Out Base.StableSort Base.PyValue Model.Render Model.RenderCheck.

(* ------------------------------------------------------------------ lists *)
Lemma map2_length {A B C} (f : A -> B -> C) la lb : length (map2 f la lb) = Nat.min (length la) (length lb).
Proof. revert lb; induction la as [|a ta IH]; intros [|b tb]; simpl; auto. Qed.

Lemma map2_nth {A B C} (f : A -> B -> C) la lb j da db dc :
  (j < length la)%nat -> (j < length lb)%nat -> nth j (map2 f la lb) dc = f (nth j la da) (nth j lb db).
Proof.
  revert lb j; induction la as [|a ta IH]; intros [|b tb] [|j]; simpl; intros; try lia; auto.
  apply IH; lia.
Qed.

Lemma Forall2_nth {A B} (R : A -> B -> Prop) la lb da db :
  length la = length lb -> (forall j, (j < length la)%nat -> R (nth j la da) (nth j lb db)) -> Forall2 R la lb.
Proof.
  revert lb; induction la as [|a ta IH]; intros [|b tb] Hl H; simpl in *; try discriminate; constructor.
  - apply (H 0%nat); lia.
  - apply IH; [lia|]. intros j Hj. apply (H (S j)); lia.
Qed.

Lemma Forall2_nth_inv {A B} (R : A -> B -> Prop) la lb da db j :
  Forall2 R la lb -> (j < length la)%nat -> R (nth j la da) (nth j lb db).
Proof.
  intros H; revert j; induction H; intros [|j] Hj; simpl in *; try lia; auto. apply IHForall2; lia.
Qed.

Lemma Forall2_len {A B} (R : A -> B -> Prop) la lb : Forall2 R la lb -> length la = length lb.
Proof. induction 1; simpl; auto. Qed.

Lemma nmax_ge l x : In x l -> (x <= nmax l)%nat.
Proof. induction l as [|y t IH]; simpl; intros []; subst; try lia. specialize (IH H). lia. Qed.

Lemma nmax_le l b : (forall x, In x l -> (x <= b)%nat) -> (nmax l <= b)%nat.
Proof. induction l as [|y t IH]; simpl; intros H; [lia|]. apply Nat.max_lub; [apply H; auto|apply IH; auto]. Qed.

(* ------------------------------------------------------------------ str primitives *)
Lemma spaces_length n : length (spaces n) = n.
Proof. apply repeat_length. Qed.

Lemma ljust_length w s : length (ljust w s) = Nat.max w (length s).
Proof. unfold ljust. rewrite app_length, spaces_length. lia. Qed.
Lemma rjust_length w s : length (rjust w s) = Nat.max w (length s).
Proof. unfold rjust. rewrite app_length, spaces_length. lia. Qed.
Lemma pad_length a w s : (length s <= w)%nat -> length (pad a w s) = w.
Proof. destruct a; simpl; rewrite ?ljust_length, ?rjust_length; lia. Qed.

Lemma center_left_le marg w :
  (marg / 2 + (if Nat.odd marg && Nat.odd w then 1 else 0) <= marg)%nat.
Proof.
  pose proof (Nat.div_mod_eq marg 2) as Hd. pose proof (Nat.mod_upper_bound marg 2 ltac:(lia)) as Hm.
  destruct (Nat.odd marg) eqn:E.
  - apply Nat.odd_spec in E. destruct E as [k Hk]. destruct (Nat.odd w); cbv [andb]; lia.
  - cbv [andb]. lia.
Qed.

Lemma center_length w s : (length s <= w)%nat -> length (center w s) = w.
Proof.
  intros H. unfold center. pose proof (center_left_le (w - length s) w).
  rewrite !app_length, !spaces_length. lia.
Qed.

Fixpoint sumlen (l : list str) : nat := match l with [] => 0 | x :: t => length x + sumlen t end.

Lemma join_length sep l : length (join sep l) = (sumlen l + length sep * (length l - 1))%nat.
Proof.
  induction l as [|x t IH]; simpl; [lia|].
  destruct t as [|y t']; [simpl; lia|].
  rewrite !app_length, IH. simpl length. simpl sumlen. lia.
Qed.

Lemma sumlen_map_length l : sumlen l = list_sum (map (@length Z) l).
Proof. induction l; simpl; auto. Qed.

(* ------------------------------------------------------------------ line layout *)
Definition linew (o : opts) (ws : list nat) : nat :=
  ((if o_boxed o then 4 else 0) + list_sum ws + length (colsep o) * (length ws - 1))%nat.

Lemma frmt_length o s : length (frmt o s) = ((if o_boxed o then 4 else 0) + length s)%nat.
Proof. unfold frmt. destruct (o_boxed o), (o_unicode o); simpl; rewrite ?app_length; simpl; lia. Qed.

Lemma framed_length o slots ws :
  map (@length Z) slots = ws -> length (frmt o (join (colsep o) slots)) = linew o ws.
Proof.
  intros <-. unfold linew. rewrite frmt_length, join_length, sumlen_map_length, map_length. apply Nat.add_assoc.
Qed.

Definition slots_of (aligns : list align) (ws : list nat) (cells : list str) : list str :=
  map2 (fun (x : str) (wa : nat * align) => pad (snd wa) (fst wa) x) cells (combine ws aligns).

Lemma slots_lengths aligns ws cells :
  Forall2 (fun c w => (length c <= w)%nat) cells ws -> length aligns = length ws ->
  map (@length Z) (slots_of aligns ws cells) = ws.
Proof.
  intros H; revert aligns; induction H as [|c w cs ws' Hc H IH]; intros [|a al] Hl; simpl in *; try discriminate; auto.
  unfold slots_of in *. simpl. rewrite pad_length by exact Hc. f_equal. apply IH. lia.
Qed.

Lemma row_line_eq o aligns ws cells :
  row_line o aligns ws cells = frmt o (join (colsep o) (slots_of aligns ws cells)).
Proof. reflexivity. Qed.

Lemma row_line_length o aligns ws cells :
  Forall2 (fun c w => (length c <= w)%nat) cells ws -> length aligns = length ws ->
  length (row_line o aligns ws cells) = linew o ws.
Proof. intros. rewrite row_line_eq. apply framed_length. apply slots_lengths; assumption. Qed.

Definition header_slots (headers : list str) (ws : list nat) : list str :=
  map2 (fun h w => center w (firstn w h)) headers ws.

Lemma header_slots_lengths headers ws :
  length headers = length ws -> map (@length Z) (header_slots headers ws) = ws.
Proof.
  revert ws; induction headers as [|h t IH]; intros [|w ws] Hl; simpl in *; try discriminate; auto.
  rewrite center_length by (rewrite firstn_length; lia). f_equal. apply IH. lia.
Qed.

Lemma header_line_length o headers ws :
  length headers = length ws -> length (header_line o headers ws) = linew o ws.
Proof. intros. unfold header_line. apply framed_length. apply header_slots_lengths; assumption. Qed.

Lemma rule_line_length o l j r ws : (1 <= length ws)%nat -> length (rule_line o l j r ws) = linew o ws.
Proof.
  intros Hn. unfold rule_line, linew.
  assert (Hs : forall c, sumlen (map (fun w => repeat c w) ws) = list_sum ws).
  { intros c. induction ws; simpl; auto. rewrite repeat_length. f_equal. destruct ws; simpl in *; auto. apply IHws. lia. }
  assert (Hs' : forall c, sumlen (map (fun w => repeat c w) ws) = list_sum ws).
  { intros c. clear. induction ws; simpl; auto. rewrite repeat_length. f_equal. exact IHws. }
  destruct (o_boxed o) eqn:B.
  - rewrite !app_length, join_length, Hs', map_length. unfold colsep. rewrite B. destruct (o_unicode o); simpl; lia.
  - rewrite join_length, Hs', map_length. lia.
Qed.

(* ------------------------------------------------------------------ rows *)
Definition cell_le (c : cell) (w : nat) : Prop := forall s, In s (as_list c) -> (length s <= w)%nat.

Lemma Forall2_blank {A} (l : list A) ws :
  length l = length ws -> Forall2 (fun (c : str) w => (length c <= w)%nat) (map (fun _ => []) l) ws.
Proof. revert ws; induction l; intros [|w ws] H; simpl in *; try discriminate; constructor; simpl; try lia. apply IHl; lia. Qed.

Lemma Forall2_cell_str cs ws :
  Forall2 cell_le cs ws -> Forall2 (fun (c : str) w => (length c <= w)%nat) (map cell_str cs) ws.
Proof.
  induction 1 as [|c w cs ws Hc H IH]; simpl; constructor; auto.
  destruct c; simpl; [apply Hc; simpl; auto|lia].
Qed.

Lemma Forall2_cell_nth i cs ws :
  Forall2 cell_le cs ws ->
  Forall2 (fun (c : str) w => (length c <= w)%nat) (map (fun c => nth i c []) (map as_list cs)) ws.
Proof.
  induction 1 as [|c w cs ws Hc H IH]; cbn [map]; constructor; auto.
  destruct (@nth_in_or_default (list Z) i (as_list c) []) as [Hin | Heq]; [apply Hc; exact Hin|rewrite Heq; simpl; lia].
Qed.

Section WithFmt.
Variable quant : dec -> str -> dec.
Variable numfmt : list (dec * str) -> dec -> str -> str.

Lemma render_row_cells o sts row ws cells :
  Forall2 cell_le (map2 (render_cell numfmt o) sts row) ws -> length sts = length ws ->
  In cells (render_row numfmt o sts row) -> Forall2 (fun (c : str) w => (length c <= w)%nat) cells ws.
Proof.
  intros HF Hl Hin. unfold render_row in Hin. apply in_app_or in Hin as [Hin|Hin].
  - destruct (existsb is_many _).
    + apply in_map_iff in Hin as [i [<- _]]. apply Forall2_cell_nth; exact HF.
    + destruct Hin as [<-|[]]. apply Forall2_cell_str; exact HF.
  - destruct (o_spaced o); [|destruct Hin]. destruct Hin as [<-|[]]. apply Forall2_blank; exact Hl.
Qed.

Lemma col_states_length o desc rows : length (col_states quant o desc rows) = length desc.
Proof. unfold col_states. rewrite map2_length, seq_length. lia. Qed.
Lemma table_widths_length o desc rows : length (table_widths quant numfmt o desc rows) = length desc.
Proof. unfold table_widths. rewrite map2_length, col_states_length. lia. Qed.

(* every rendered cell fits the width of its column *)
Definition table_fits (o : opts) desc rows : Prop :=
  forall row, In row rows ->
    Forall2 cell_le (map2 (render_cell numfmt o) (col_states quant o desc rows) row) (table_widths quant numfmt o desc rows).

Lemma render_rows_fit o desc rows cells :
  table_fits o desc rows -> In cells (render_rows numfmt o (col_states quant o desc rows) rows) ->
  Forall2 (fun (c : str) w => (length c <= w)%nat) cells (table_widths quant numfmt o desc rows).
Proof.
  intros HF Hin. unfold render_rows in Hin. apply in_flat_map in Hin as [row [Hr Hin]].
  eapply render_row_cells; [apply HF; exact Hr| |exact Hin].
  rewrite col_states_length, table_widths_length. reflexivity.
Qed.

Theorem text_lines_rect o desc rows :
  (1 <= length desc)%nat -> table_fits o desc rows ->
  Forall (fun l => length l = linew o (table_widths quant numfmt o desc rows)) (text_lines quant numfmt o desc rows).
Proof.
  intros Hn HF. unfold text_lines.
  set (ws := table_widths quant numfmt o desc rows).
  assert (Hw : length ws = length desc) by apply table_widths_length.
  assert (Hr : forall l j r, length (rule_line o l j r ws) = linew o ws) by (intros; apply rule_line_length; lia).
  repeat (apply Forall_app; split).
  - destruct (o_boxed o); constructor; auto. unfold top_line. destruct (o_unicode o); apply Hr.
  - constructor; [apply header_line_length; rewrite map_length; lia|].
    constructor; [unfold h_line; destruct (o_unicode o); apply Hr|constructor].
  - apply Forall_forall. intros l Hl. apply in_map_iff in Hl as [cells [<- Hc]].
    apply row_line_length; [apply render_rows_fit; assumption|rewrite map_length; lia].
  - destruct (o_boxed o); constructor; auto. unfold bottom_line. destruct (o_unicode o); apply Hr.
Qed.
End WithFmt.

(* ------------------------------------------------------------------ digits *)
Open Scope Z_scope.
Definition pnat (s : str) : Z := fold_left (fun a c => 10 * a + (c - 48)) s 0.

Lemma pow10_S j : 10 ^ Z.of_nat (S j) = 10 * 10 ^ Z.of_nat j.
Proof. rewrite Nat2Z.inj_succ, Z.pow_succ_r by lia. reflexivity. Qed.
Lemma pow10_pos j : 0 < 10 ^ Z.of_nat j.
Proof. apply Z.pow_pos_nonneg; lia. Qed.

Lemma digits_fuel_pnat f : forall n, 0 <= n < 10 ^ Z.of_nat (S f) -> pnat (digits_fuel f n) = n.
Proof.
  induction f as [|f IH]; intros n Hn.
  - change (10 ^ Z.of_nat 1) with 10 in Hn. unfold pnat. cbn [digits_fuel fold_left]. rewrite Z.mod_small by lia. lia.
  - cbn [digits_fuel]. destruct (n <? 10) eqn:E.
    + unfold pnat; cbn [fold_left]; lia.
    + apply Z.ltb_ge in E. unfold pnat. rewrite fold_left_app. cbn [fold_left].
      fold (pnat (digits_fuel f (n / 10))). rewrite IH.
      * pose proof (Z.div_mod n 10). lia.
      * rewrite pow10_S in Hn. split; [apply Z.div_pos; lia|apply Z.div_lt_upper_bound; lia].
Qed.

Lemma digits_fuel_digits f : forall n, 0 <= n -> forallb is_digit (digits_fuel f n) = true.
Proof.
  assert (Hd : forall n, 0 <= n -> is_digit (48 + n mod 10) = true).
  { intros n Hn. pose proof (Z.mod_pos_bound n 10). unfold is_digit. apply andb_true_intro; split; apply Z.leb_le; lia. }
  induction f as [|f IH]; intros n Hn; cbn [digits_fuel forallb].
  - rewrite Hd by lia. reflexivity.
  - destruct (n <? 10) eqn:E.
    + apply Z.ltb_lt in E. cbn [forallb]. unfold is_digit. rewrite andb_true_r. apply andb_true_intro; split; apply Z.leb_le; lia.
    + rewrite forallb_app, IH by (apply Z.div_pos; lia). cbn [forallb]. rewrite Hd by lia. reflexivity.
Qed.

Lemma digits_fuel_length_ge f n : (1 <= length (digits_fuel f n))%nat.
Proof. destruct f; simpl; [lia|]. destruct (n <? 10); simpl; [lia|]. rewrite app_length; simpl; lia. Qed.

Lemma digits_fuel_length_le f : forall n j, 0 <= n < 10 ^ Z.of_nat j -> (1 <= j)%nat -> (length (digits_fuel f n) <= j)%nat.
Proof.
  induction f as [|f IH]; intros n j Hn Hj; simpl; [lia|].
  destruct (n <? 10) eqn:E; simpl; [lia|]. apply Z.ltb_ge in E.
  rewrite app_length. simpl.
  destruct j as [|[|j]]; [lia|simpl in Hn; lia|].
  assert ((length (digits_fuel f (n / 10)) <= S j)%nat); [|lia].
  apply IH; [|lia]. rewrite pow10_S in Hn. split; [apply Z.div_pos; lia|apply Z.div_lt_upper_bound; lia].
Qed.

Lemma fuel_ok n : 0 <= n -> n < 10 ^ Z.of_nat (S (Z.to_nat (Z.log2 n))).
Proof.
  intros Hn. pose proof (Z.log2_nonneg n) as HL.
  replace (Z.of_nat (S (Z.to_nat (Z.log2 n)))) with (Z.log2 n + 1) by lia.
  destruct (Z.eq_dec n 0) as [->|Hz]; [simpl; lia|].
  pose proof (Z.log2_spec n ltac:(lia)) as [_ H2]. rewrite Z.add_1_r.
  eapply Z.lt_le_trans; [exact H2|]. apply Z.pow_le_mono_l. lia.
Qed.

Lemma show_nat_pnat n : 0 <= n -> pnat (show_nat n) = n.
Proof. intros. unfold show_nat. apply digits_fuel_pnat. split; [lia|apply fuel_ok; lia]. Qed.
Lemma show_nat_digits n : 0 <= n -> forallb is_digit (show_nat n) = true.
Proof. intros. apply digits_fuel_digits; lia. Qed.
Lemma show_nat_nonempty n : show_nat n <> [].
Proof. unfold show_nat. pose proof (digits_fuel_length_ge (Z.to_nat (Z.log2 n)) n). destruct (digits_fuel _ _); simpl in *; [lia|discriminate]. Qed.
Lemma show_nat_length_le n j : 0 <= n < 10 ^ Z.of_nat j -> (1 <= j)%nat -> (length (show_nat n) <= j)%nat.
Proof. intros. apply digits_fuel_length_le; assumption. Qed.

Lemma parse_nat_show n : 0 <= n -> parse_nat (show_nat n) = Some n.
Proof.
  intros Hn. unfold parse_nat. pose proof (show_nat_nonempty n).
  destruct (show_nat n) eqn:E; [congruence|]. rewrite <- E. rewrite show_nat_digits by lia.
  f_equal. apply show_nat_pnat; lia.
Qed.

Lemma show_nat_head_digit n : 0 <= n -> exists c t, show_nat n = c :: t /\ is_digit c = true.
Proof.
  intros Hn. pose proof (show_nat_nonempty n). pose proof (show_nat_digits n Hn) as Hd.
  destruct (show_nat n) as [|c t]; [congruence|]. simpl in Hd. apply andb_prop in Hd as [Hc _]. eauto.
Qed.

(* readback: integers *)
Theorem parse_int_show z : parse_int (show_int z) = Some z.
Proof.
  unfold show_int. destruct (z <? 0) eqn:E.
  - apply Z.ltb_lt in E. simpl. rewrite parse_nat_show by lia. simpl. f_equal. lia.
  - apply Z.ltb_ge in E. destruct (show_nat_head_digit z E) as [c [t [Hs Hc]]].
    unfold parse_int. rewrite Hs. rewrite <- Hs.
    assert (c <> 45) by (unfold is_digit in Hc; intros ->; discriminate).
    destruct c as [|p|p]; try (rewrite parse_nat_show by lia; reflexivity).
    do 6 (destruct p as [p|p|]; try (rewrite parse_nat_show by lia; reflexivity)); congruence.
Qed.

(* ------------------------------------------------------------------ per-datatype: the formatted value fits the prepared width *)
Definition cell_valid (v : cellv) : bool :=
  match v with
  | CDate y m d => (0 <=? y) && (y <=? 9999) && (0 <=? m) && (m <=? 99) && (0 <=? d) && (d <=? 99)
  | CDec d => 0 <=? dcoef d
  | _ => true
  end.

Lemma zpad_length w n : (length (show_nat n) <= w)%nat -> length (zpad w n) = w.
Proof. intros. unfold zpad. rewrite app_length, repeat_length. lia. Qed.

Lemma date_str_length y m d : cell_valid (CDate y m d) = true -> (length (date_str y m d) <= 10)%nat.
Proof.
  unfold cell_valid. intros H. repeat (apply andb_prop in H as [H ?]).
  repeat match goal with H : (_ <=? _) = true |- _ => apply Z.leb_le in H end.
  unfold date_str. rewrite !app_length. cbn [length].
  assert (length (show_nat y) <= 4)%nat by (apply show_nat_length_le; [simpl; lia|lia]).
  rewrite !zpad_length by (apply show_nat_length_le; [simpl; lia|lia]). lia.
Qed.

(* sets *)
Definition zlen (s : str) : Z := Z.of_nat (length s).
Lemma set_sum_fold (sep : str) (l : list str) (a : Z) :
  fold_left (fun a (x : str) => a + Z.of_nat (length x) + Z.of_nat (length sep)) l a
  = a + Z.of_nat (sumlen l) + Z.of_nat (length sep) * Z.of_nat (length l).
Proof.
  revert a; induction l as [|x t IH]; intros a; cbn [fold_left]; [simpl; lia|].
  rewrite IH. cbn [sumlen]. cbn [length]. lia.
Qed.

From Coq Require Import Permutation.
Lemma sumlen_perm l l' : Permutation l l' -> sumlen l = sumlen l'.
Proof. induction 1; simpl; lia. Qed.

Lemma set_format_length (sep : str) (l : list str) :
  Z.of_nat (length (set_format sep l)) <= Z.max 0 (fold_left (fun a (x : str) => a + Z.of_nat (length x) + Z.of_nat (length sep)) l 0 - Z.of_nat (length sep)).
Proof.
  unfold set_format, sort_strs. rewrite join_length, set_sum_fold.
  pose proof (isort_perm _ list_le l) as HP.
  pose proof (sumlen_perm _ _ HP) as H1. pose proof (Permutation_length HP) as H2.
  unfold str in *. rewrite <- H1, <- H2.
  destruct l as [|x t]; [simpl; lia|]. cbn [length]. nia.
Qed.

Lemma fold_set_update_ge (sep : str) ls : forall m, m <= fold_left (set_update sep) ls m.
Proof. induction ls as [|l t IH]; intros m; simpl; [lia|]. etransitivity; [|apply IH]. unfold set_update. lia. Qed.
Lemma fold_set_update_in (sep : str) ls (l : list str) : In l ls -> forall m,
  fold_left (fun a (x : str) => a + Z.of_nat (length x) + Z.of_nat (length sep)) l 0 - Z.of_nat (length sep)
  <= fold_left (set_update sep) ls m.
Proof.
  induction ls as [|l' t IH]; intros [] m; cbn [fold_left].
  - subst. etransitivity; [|apply fold_set_update_ge]. unfold set_update. apply Z.le_max_r.
  - apply IH; assumption.
Qed.

(* decimals: the state dominates every value fed to it *)
Definition dec_dom (st : Z * Z) (d : dec) : Prop :=
  let '(ni, nf) := st in
  0 <= ni /\ 0 <= nf /\
  if 0 <? dexp d then Z.of_nat (length (dec_str d)) <= ni else dec_intw d <= ni /\ - dexp d <= nf.
Definition st_le (a b : Z * Z) : Prop := fst a <= fst b /\ snd a <= snd b.

Lemma dec_update_mono st d : st_le st (dec_update st d).
Proof. destruct st as [ni nf]. unfold dec_update, st_le. destruct (0 <? dexp d); simpl; lia. Qed.
Lemma fold_dec_update_mono ds : forall st, st_le st (fold_left dec_update ds st).
Proof.
  induction ds as [|d t IH]; intros st; simpl; [unfold st_le; lia|].
  pose proof (dec_update_mono st d). pose proof (IH (dec_update st d)). unfold st_le in *. lia.
Qed.
Lemma dec_update_dom st d : 0 <= fst st -> 0 <= snd st -> dec_dom (dec_update st d) d.
Proof. destruct st as [ni nf]. simpl. intros. unfold dec_update, dec_dom. destruct (0 <? dexp d); lia. Qed.
Lemma dec_dom_mono st st' d : dec_dom st d -> st_le st st' -> dec_dom st' d.
Proof. destruct st as [ni nf], st' as [ni' nf']. unfold dec_dom, st_le. simpl. destruct (0 <? dexp d); lia. Qed.
Lemma dec_state_dom ds d : In d ds -> dec_dom (dec_state ds) d.
Proof.
  unfold dec_state.
  assert (G : forall st, 0 <= fst st -> 0 <= snd st -> In d ds -> dec_dom (fold_left dec_update ds st) d).
  { induction ds as [|d' t IH]; intros st H1 H2 []; cbn [fold_left].
    - subst d'. apply (dec_dom_mono (dec_update st d)); [apply dec_update_dom; assumption|apply fold_dec_update_mono].
    - pose proof (dec_update_mono st d') as [M1 M2]. apply IH; auto; lia. }
  intros. apply G; simpl; auto; lia.
Qed.

Lemma pow_gt j : (5 <= j)%nat -> Z.of_nat j + 2 < 10 ^ Z.of_nat j.
Proof.
  induction 1 as [|j Hle IH]; [vm_compute; reflexivity|].
  rewrite pow10_S. lia.
Qed.

Lemma zeros_length n : length (zeros n) = Z.to_nat n.
Proof. apply repeat_length. Qed.

Lemma dec_nd_pos d : 1 <= dec_nd d.
Proof.
  unfold dec_nd, dec_digits, show_nat.
  pose proof (digits_fuel_length_ge (Z.to_nat (Z.log2 (dcoef d))) (dcoef d)). lia.
Qed.

(* positional notation: str(d) = sign+integer part (dec_intw characters), then '.'+fraction *)
Lemma dec_str_length_pos d : dec_positional d = true ->
  Z.of_nat (length (dec_str d)) = dec_intw d + (if dexp d <? 0 then 1 - dexp d else 0).
Proof.
  intros Hp. pose proof (dec_nd_pos d) as Hnd.
  unfold dec_str. rewrite Hp. unfold dec_intw.
  unfold dec_positional, dec_leftdigits in *. apply andb_prop in Hp as [H1 H2].
  apply Z.leb_le in H1. apply Z.ltb_lt in H2.
  rewrite Z.eqb_refl. rewrite app_nil_r, app_length.
  assert (Hs : Z.of_nat (length (if dneg d then [45] else [])) = (if dneg d then 1 else 0)) by (destruct (dneg d); reflexivity).
  rewrite Nat2Z.inj_add, Hs. clear Hs.
  destruct (dexp d + dec_nd d <=? 0) eqn:E1.
  - apply Z.leb_le in E1. rewrite !app_length, zeros_length. cbn [length]. fold (dec_nd d) in *.
    unfold dec_nd in *. destruct (dexp d <? 0) eqn:E; [|apply Z.ltb_ge in E]; lia.
  - apply Z.leb_gt in E1. destruct (dec_nd d <=? dexp d + dec_nd d) eqn:E2.
    + apply Z.leb_le in E2. rewrite app_length, zeros_length. unfold dec_nd in *.
      destruct (dexp d <? 0) eqn:E; [apply Z.ltb_lt in E|apply Z.ltb_ge in E]; lia.
    + apply Z.leb_gt in E2. rewrite !app_length, firstn_length, skipn_length. cbn [length]. unfold dec_nd in *.
      destruct (dexp d <? 0) eqn:E; [apply Z.ltb_lt in E|apply Z.ltb_ge in E]; lia.
Qed.

Lemma dec_str_length_le d : 0 <= dcoef d -> dexp d <= 0 ->
  Z.of_nat (length (dec_str d)) <= dec_intw d + (- dexp d) + (if 0 <? - dexp d then 1 else 0).
Proof.
  intros Hc He. destruct (dec_positional d) eqn:Hp.
  - rewrite dec_str_length_pos by exact Hp.
    destruct (dexp d <? 0) eqn:E; [apply Z.ltb_lt in E|apply Z.ltb_ge in E];
      destruct (0 <? - dexp d) eqn:E'; try apply Z.ltb_lt in E'; try apply Z.ltb_ge in E'; lia.
  - pose proof (dec_nd_pos d) as Hnd.
    unfold dec_str. rewrite Hp. unfold dec_intw.
    unfold dec_positional, dec_leftdigits in *.
    assert (HL : dexp d + dec_nd d <= -6).
    { apply andb_false_iff in Hp as [H|H]; [apply Z.leb_gt in H; lia|apply Z.ltb_ge in H; lia]. }
    rewrite !app_length.
    assert (Hs : Z.of_nat (length (if dneg d then [45] else [])) = (if dneg d then 1 else 0)) by (destruct (dneg d); reflexivity).
    rewrite !Nat2Z.inj_add, Hs. clear Hs.
    change (1 <=? 0) with false. cbv iota.
    destruct (dexp d + dec_nd d =? 1) eqn:E0; [apply Z.eqb_eq in E0; lia|].
    unfold show_signed. destruct (dexp d + dec_nd d - 1 <? 0) eqn:E1; [|apply Z.ltb_ge in E1; lia].
    cbn [length].
    set (k := - (dexp d + dec_nd d - 1)).
    assert (Hk : (length (show_nat k) <= Z.to_nat (k - 2))%nat).
    { apply show_nat_length_le; [|lia]. split; [lia|].
      pose proof (pow_gt (Z.to_nat (k - 2)) ltac:(lia)). rewrite Z2Nat.id in * by lia. lia. }
    assert (Hb : Z.of_nat (length (if dec_nd d <=? 1 then dec_digits d ++ zeros (1 - dec_nd d)
                   else firstn (Z.to_nat 1) (dec_digits d) ++ [46] ++ skipn (Z.to_nat 1) (dec_digits d))) <= dec_nd d + 1).
    { destruct (dec_nd d <=? 1) eqn:E2.
      - apply Z.leb_le in E2. rewrite app_length, zeros_length. unfold dec_nd in *. lia.
      - rewrite !app_length, firstn_length, skipn_length. cbn [length]. unfold dec_nd in *. lia. }
    destruct (0 <? - dexp d) eqn:E'; [|apply Z.ltb_ge in E'; lia].
    lia.
Qed.

Lemma dec_format_length st d : 0 <= dcoef d -> dec_dom st d -> length (dec_format st d) = dec_width st.
Proof.
  intros Hc Hd. destruct st as [ni nf]. unfold dec_dom in Hd. destruct Hd as [Hni [Hnf Hd]].
  unfold dec_format. destruct (0 <? dexp d) eqn:E.
  - rewrite ljust_length, rjust_length. unfold dec_width. destruct (0 <? nf); lia.
  - apply Z.ltb_ge in E. destruct Hd as [H1 H2].
    pose proof (dec_str_length_le d Hc E) as HL.
    rewrite app_length, spaces_length, ljust_length. unfold dec_width.
    destruct (0 <? - dexp d) eqn:E1; [apply Z.ltb_lt in E1|apply Z.ltb_ge in E1];
      (destruct (0 <? nf) eqn:E2; [apply Z.ltb_lt in E2|apply Z.ltb_ge in E2]); lia.
Qed.

(* the integer part of every positional decimal of a column ends at the same offset [ni] *)
Lemma dec_format_aligned st d : dec_positional d = true -> dec_dom st d ->
  exists rest, dec_format st d = spaces (Z.to_nat (fst st - dec_intw d)) ++ dec_str d ++ rest /\ dec_intw d <= fst st.
Proof.
  intros Hp Hd. destruct st as [ni nf]. unfold dec_dom in Hd. destruct Hd as [Hni [Hnf Hd]].
  assert (E : (0 <? dexp d) = false).
  { unfold dec_positional in Hp. apply andb_prop in Hp as [H _]. apply Z.leb_le in H. apply Z.ltb_ge. lia. }
  rewrite E in Hd. unfold dec_format. rewrite E. unfold ljust. simpl fst. eexists. split; [reflexivity|lia].
Qed.

Section Fits.
Variable quant : dec -> str -> dec.
Variable numfmt : list (dec * str) -> dec -> str -> str.

Definition col_fits (o : opts) (t : dtype) (vals : list cellv) : Prop :=
  forall v, In v vals -> v <> CNull -> cell_ok t v = true -> cell_valid v = true ->
  cell_le (st_format numfmt o t (col_prepare quant o t vals) v) (st_width numfmt (col_prepare quant o t vals)).

Definition exact_type (t : dtype) : bool :=
  match t with TAmount | TPosition | TInventory => false | _ => true end.

Lemma plain_fits (vals : list cellv) v : In v vals ->
  (length (py_str v) <= nmax (map (fun v => length (py_str v)) vals))%nat.
Proof. intros. apply nmax_ge. apply in_map_iff. eauto. Qed.

Lemma the_sets_in vals l : In (CSet l) vals -> In l (the_sets vals).
Proof. intros. unfold the_sets. apply in_flat_map. exists (CSet l). simpl. auto. Qed.
Lemma the_decs_in vals d : In (CDec d) vals -> In d (the_decs vals).
Proof. intros. unfold the_decs. apply in_flat_map. exists (CDec d). simpl. auto. Qed.

Lemma exact_col_fits o t vals : exact_type t = true -> col_fits o t vals.
Proof.
  intros Ht v Hin Hnn Hok Hval s Hs.
  destruct t; try discriminate; simpl in Hok.
  - (* object *) destruct v; try discriminate; try congruence; simpl in Hs; destruct Hs as [<-|[]]; apply (plain_fits vals _ Hin).
  - (* bool *) destruct v; try discriminate; try congruence. simpl in Hs. destruct Hs as [<-|[]]. simpl st_width.
    eapply Nat.le_trans; [|apply nmax_ge; apply in_map_iff; eexists; split; [reflexivity|exact Hin]].
    destruct b; simpl; lia.
  - (* str *) destruct v; try discriminate; try congruence; simpl in Hs; destruct Hs as [<-|[]]; apply (plain_fits vals _ Hin).
  - (* set *) destruct v; try discriminate; try congruence. simpl in Hs. destruct Hs as [<-|[]]. simpl st_width.
    pose proof (set_format_length (o_listsep o) l) as H1.
    pose proof (fold_set_update_in (o_listsep o) (the_sets vals) l (the_sets_in _ _ Hin) 0) as H2.
    pose proof (fold_set_update_ge (o_listsep o) (the_sets vals) 0). lia.
  - (* date *) destruct v; try discriminate; try congruence. simpl in Hs. destruct Hs as [<-|[]]. simpl st_width.
    destruct vals; [destruct Hin|]. apply date_str_length; exact Hval.
  - (* int *) destruct v; try discriminate; try congruence; simpl in Hs; destruct Hs as [<-|[]]; apply (plain_fits vals _ Hin).
  - (* decimal *) destruct v; try discriminate; try congruence. simpl in Hs. destruct Hs as [<-|[]]. simpl st_width.
    rewrite dec_format_length; [lia|apply Z.leb_le; exact Hval|apply dec_state_dom; apply the_decs_in; exact Hin].
Qed.
End Fits.

(* ------------------------------------------------------------------ from columns to the table *)
Definition d0 : str * dtype := ([], TObject).
Definition wf_table (desc : list (str * dtype)) (rows : list (list cellv)) : Prop :=
  forall row, In row rows -> length row = length desc /\
    forall j, (j < length desc)%nat ->
      cell_ok (snd (nth j desc d0)) (nth j row CNull) = true /\ cell_valid (nth j row CNull) = true.

Lemma column_in rows row j v :
  In row rows -> (j < length row)%nat -> nth j row CNull = v -> v <> CNull -> In v (column j rows).
Proof.
  intros Hr Hj Hv Hn. unfold column, non_null. apply filter_In. split.
  - apply in_flat_map. exists row. split; [exact Hr|].
    rewrite (nth_error_nth' row CNull Hj). rewrite Hv. simpl. auto.
  - destruct v; auto; congruence.
Qed.

Section Table.
Variable quant : dec -> str -> dec.
Variable numfmt : list (dec * str) -> dec -> str -> str.

Definition cols_fit (o : opts) desc rows : Prop :=
  forall j, (j < length desc)%nat -> col_fits quant numfmt o (snd (nth j desc d0)) (column j rows).

Lemma col_states_nth o desc rows j : (j < length desc)%nat ->
  nth j (col_states quant o desc rows) (TObject, SPlain 0)
  = (snd (nth j desc d0), col_prepare quant o (snd (nth j desc d0)) (column j rows)).
Proof.
  intros Hj. unfold col_states. rewrite (map2_nth _ _ _ _ 0%nat d0) by (rewrite ?seq_length; lia).
  rewrite seq_nth by lia. reflexivity.
Qed.

Lemma table_widths_nth o desc rows j : (j < length desc)%nat ->
  nth j (table_widths quant numfmt o desc rows) 0%nat
  = col_width numfmt o (fst (nth j desc d0)) (col_prepare quant o (snd (nth j desc d0)) (column j rows)).
Proof.
  intros Hj. unfold table_widths.
  rewrite (map2_nth _ _ _ _ d0 (TObject, SPlain 0)) by (rewrite ?col_states_length; lia).
  rewrite col_states_nth by lia. reflexivity.
Qed.

Theorem table_fits_of o desc rows :
  wf_table desc rows -> cols_fit o desc rows -> table_fits quant numfmt o desc rows.
Proof.
  intros Hwf Hcf row Hr. destruct (Hwf row Hr) as [Hlen Hcells].
  apply (Forall2_nth _ _ _ (One []) 0%nat).
  - rewrite map2_length, col_states_length, table_widths_length. lia.
  - intros j Hj. rewrite map2_length, col_states_length in Hj.
    assert (Hjd : (j < length desc)%nat) by lia.
    rewrite (map2_nth _ _ _ _ (TObject, SPlain 0) CNull) by (rewrite ?col_states_length; lia).
    rewrite col_states_nth, table_widths_nth by lia.
    destruct (Hcells j Hjd) as [Hok Hval].
    set (t := snd (nth j desc d0)) in *. set (st := col_prepare quant o t (column j rows)).
    unfold render_cell. cbn [fst snd].
    assert (Hw1 : (length (o_null o) <= col_width numfmt o (fst (nth j desc d0)) st)%nat) by (unfold col_width; lia).
    assert (Hw2 : (st_width numfmt st <= col_width numfmt o (fst (nth j desc d0)) st)%nat) by (unfold col_width; lia).
    destruct (nth j row CNull) eqn:Ev;
      try (intros s' Hs'; eapply Nat.le_trans; [|exact Hw2];
           eapply (Hcf j Hjd); [eapply column_in; [exact Hr|lia|exact Ev|discriminate]|discriminate|exact Hok|exact Hval|exact Hs']).
    intros s' [<-|[]]. exact Hw1.
Qed.

(* tables whose columns all have a datatype the model formats itself *)
Definition exact_desc (desc : list (str * dtype)) : Prop := forall j, (j < length desc)%nat -> exact_type (snd (nth j desc d0)) = true.

Corollary exact_table_fits o desc rows : wf_table desc rows -> exact_desc desc -> table_fits quant numfmt o desc rows.
Proof. intros Hwf He. apply table_fits_of; [exact Hwf|]. intros j Hj. apply exact_col_fits. apply He; exact Hj. Qed.
End Table.

(* ------------------------------------------------------------------ fixed offsets: slots are recovered by cutting at the widths *)
Lemma str_eqb_refl s : str_eqb s s = true.
Proof. induction s; simpl; auto. rewrite Z.eqb_refl. exact IHs. Qed.
Lemma str_eqb_eq a : forall b, str_eqb a b = true -> a = b.
Proof.
  induction a as [|x a IH]; intros [|y b] H; simpl in H; try discriminate; auto.
  apply andb_prop in H as [H1 H2]. apply Z.eqb_eq in H1. f_equal; auto.
Qed.

Lemma cut_join (sep : str) (slots : list (list Z)) : forall ws,
  map (@length Z) slots = ws -> cut (length sep) ws (join sep slots) = slots.
Proof.
  induction slots as [|x t IH]; intros ws <-; [reflexivity|].
  cbn [map cut]. destruct t as [|y t'].
  - cbn [join map]. rewrite firstn_all. reflexivity.
  - cbn [map]. change (join sep (x :: y :: t')) with (x ++ sep ++ join sep (y :: t')).
    rewrite firstn_app, Nat.sub_diag, firstn_all, firstn_O, app_nil_r. f_equal.
    rewrite app_assoc, skipn_app, app_length, Nat.sub_diag. cbn [skipn].
    rewrite skipn_all2 by (rewrite app_length; lia). cbn [app].
    apply (IH (map (@length Z) (y :: t'))). reflexivity.
Qed.

Lemma forallb2_lengths (slots : list (list Z)) : forall ws, map (@length Z) slots = ws ->
  forallb2 (fun (s : list Z) w => (length s =? w)%nat) slots ws = true.
Proof. induction slots; intros ws <-; simpl; auto. rewrite Nat.eqb_refl. apply IHslots. reflexivity. Qed.

Lemma line_slots_framed o (slots : list (list Z)) ws :
  map (@length Z) slots = ws -> line_slots o ws (frmt o (join (colsep o) slots)) = Some slots.
Proof.
  intros Hl. unfold line_slots.
  assert (Hb : (if o_boxed o then firstn (length (frmt o (join (colsep o) slots)) - 4) (skipn 2 (frmt o (join (colsep o) slots)))
                else frmt o (join (colsep o) slots)) = join (colsep o) slots).
  { rewrite frmt_length. unfold frmt. destruct (o_boxed o); [|reflexivity].
    destruct (o_unicode o); cbn [app skipn];
      rewrite firstn_app; replace (4 + _ - 4)%nat with (length (join (colsep o) slots)) by lia;
      rewrite Nat.sub_diag, firstn_all, firstn_O, app_nil_r; reflexivity. }
  rewrite Hb, (cut_join _ _ ws Hl), str_eqb_refl, (forallb2_lengths _ _ Hl). reflexivity.
Qed.

Lemma pad_split a w (c : str) : (length c <= w)%nat ->
  exists l r, pad a w c = spaces l ++ c ++ spaces r /\ (l + length c + r = w)%nat.
Proof.
  intros H. destruct a; cbn [pad].
  - exists 0%nat, (w - length c)%nat. split; [reflexivity|]. clear -H. lia.
  - exists (w - length c)%nat, 0%nat. unfold rjust, spaces. cbn [repeat]. rewrite app_nil_r. split; [reflexivity|]. clear -H. lia.
Qed.

Lemma center_split w (s : str) : (length s <= w)%nat ->
  exists l r, center w s = spaces l ++ s ++ spaces r /\ (l + length s + r = w)%nat /\ (l <= r + 1)%nat /\ (r <= l + 1)%nat.
Proof.
  intros H. unfold center. set (marg := (w - length s)%nat).
  pose proof (center_left_le marg w) as HL.
  pose proof (Nat.div_mod_eq marg 2) as Hd. pose proof (Nat.mod_upper_bound marg 2 ltac:(lia)) as Hm.
  eexists _, _. split; [reflexivity|].
  destruct (Nat.odd marg) eqn:E; cbn [andb] in *;
    [apply Nat.odd_spec in E; destruct E as [k Hk]; destruct (Nat.odd w)|]; lia.
Qed.

Section Expand.
Variable quant : dec -> str -> dec.
Variable numfmt : list (dec * str) -> dec -> str -> str.

Lemma not_many o t vals v : o_expand o = false ->
  is_many (render_cell numfmt o (t, col_prepare quant o t vals) v) = false.
Proof.
  intros He. unfold render_cell. cbn [fst snd]. destruct v; try reflexivity;
    destruct t; try reflexivity; unfold col_prepare; rewrite ?He; reflexivity.
Qed.

Lemma existsb_map2_many o desc rows row : o_expand o = false ->
  existsb is_many (map2 (render_cell numfmt o) (col_states quant o desc rows) row) = false.
Proof.
  intros He. unfold col_states. generalize (seq 0 (length desc)). intros idx.
  revert idx row. induction desc as [|d t IH]; intros [|i idx] [|v row]; simpl; auto.
  rewrite not_many by exact He. apply IH.
Qed.

Theorem no_expand_one_line o desc rows row : o_expand o = false ->
  length (render_row numfmt o (col_states quant o desc rows) row) = (1 + if o_spaced o then 1 else 0)%nat.
Proof.
  intros He. unfold render_row. rewrite existsb_map2_many by exact He.
  rewrite app_length. destruct (o_spaced o); reflexivity.
Qed.

(* the CSV fields are the cells the text renderer pads into its slots *)
Lemma render_rows_ext o1 o2 desc rows :
  o_expand o1 = o_expand o2 -> o_null o1 = o_null o2 -> o_listsep o1 = o_listsep o2 -> o_spaced o1 = o_spaced o2 ->
  render_rows numfmt o1 (col_states quant o1 desc rows) rows = render_rows numfmt o2 (col_states quant o2 desc rows) rows.
Proof.
  destruct o1, o2; simpl; intros; subst. reflexivity.
Qed.
End Expand.

(* ------------------------------------------------------------------ Amount / Position / Inventory over an abstract number formatter *)
Section Amounts.
Variable quant : dec -> str -> dec.
Variable numfmt : list (dec * str) -> dec -> str -> str.

Definition a_state (vals : list amt) : astate := fold_left (a_update quant) vals a_init.

(* HYPOTHESIS about DisplayContext.build(Align.DOT): after the column's numbers were fed to it, the
   formatter returns strings of one length [k] for every number of the column and for zero *)
Definition uniform (vals : list amt) (k : nat) : Prop :=
  forall a, In a vals ->
    length (numfmt (a_ups (a_state vals)) (fst a) (snd a)) = k /\
    length (numfmt (a_ups (a_state vals)) dec_zero (snd a)) = k.

Lemma a_fold_ups vals : forall st,
  a_ups (fold_left (a_update quant) vals st) = a_ups st ++ map (fun a => (quant (fst a) (snd a), snd a)) vals.
Proof. induction vals as [|a t IH]; intros st; simpl; [rewrite app_nil_r; reflexivity|]. rewrite IH. simpl. rewrite <- app_assoc. reflexivity. Qed.
Lemma a_fold_curw vals : forall st a, In a vals -> (length (snd a) <= a_curw (fold_left (a_update quant) vals st))%nat.
Proof.
  assert (M : forall vals st, (a_curw st <= a_curw (fold_left (a_update quant) vals st))%nat).
  { induction vals0 as [|b t IH]; intros st; cbn [fold_left]; [lia|]. etransitivity; [|apply IH]. unfold a_update. cbn [a_curw]. apply Nat.le_max_l. }
  induction vals as [|b t IH]; intros st a []; cbn [fold_left].
  - subst. etransitivity; [|apply M]. unfold a_update. cbn [a_curw]. apply Nat.le_max_r.
  - apply IH; assumption.
Qed.

Lemma a_format_length vals k a : uniform vals k -> In a vals ->
  length (a_format numfmt (a_state vals) a) = (k + 1 + a_curw (a_state vals))%nat.
Proof.
  intros HU Hin. destruct (HU a Hin) as [H1 _]. unfold a_format. rewrite !app_length, ljust_length, H1.
  pose proof (a_fold_curw vals a_init a Hin) as Hc. fold (a_state vals) in Hc.
  change (length [32]) with 1%nat. unfold str in *. lia.
Qed.

Lemma a_width_ge vals k a : uniform vals k -> In a vals ->
  (k + 1 + a_curw (a_state vals) <= a_width numfmt (a_state vals))%nat.
Proof.
  intros HU Hin. destruct (HU a Hin) as [_ H0]. unfold a_width. apply nmax_ge. apply in_map_iff.
  exists (quant (fst a) (snd a), snd a). cbn [snd]. split; [rewrite H0; reflexivity|].
  unfold a_state. rewrite a_fold_ups. simpl. apply in_map_iff. exists a. auto.
Qed.

Lemma a_fits vals k a : uniform vals k -> In a vals ->
  (length (a_format numfmt (a_state vals) a) <= a_width numfmt (a_state vals))%nat.
Proof. intros. rewrite (a_format_length vals k) by assumption. eapply a_width_ge; eassumption. Qed.

Lemma a_format_pos st a : (1 <= length (a_format numfmt st a))%nat.
Proof. unfold a_format. rewrite !app_length. cbn [length]. lia. Qed.

(* positions *)
Definition costs (ps : list posn) : list amt := flat_map (fun p => match p_cost p with Some c => [c] | None => [] end) ps.
Lemma p_fold ps : forall st,
  fold_left (p_update quant) ps st
  = mkpst (fold_left (a_update quant) (map p_units ps) (p_u st)) (fold_left (a_update quant) (costs ps) (p_c st)).
Proof.
  induction ps as [|p t IH]; intros [u c]; simpl; [reflexivity|]. rewrite IH. simpl.
  destruct (p_cost p); simpl; reflexivity.
Qed.
Definition p_state (ps : list posn) : pstate := fold_left (p_update quant) ps p_init.

Definition uniform_pos (ps : list posn) : Prop :=
  (exists ku, uniform (map p_units ps) ku) /\ (exists kc, uniform (costs ps) kc).

Lemma p_fits ps p : uniform_pos ps -> In p ps ->
  (length (p_format numfmt (p_state ps) p) <= p_width numfmt (p_state ps))%nat.
Proof.
  intros [[ku HU] [kc HC]] Hin. unfold p_state. rewrite p_fold. cbn [p_init p_u p_c].
  fold (a_state (map p_units ps)). fold (a_state (costs ps)).
  assert (Hu : In (p_units p) (map p_units ps)) by (apply in_map; exact Hin).
  pose proof (a_fits _ _ _ HU Hu) as Fu.
  unfold p_format, p_width. cbn [p_u p_c].
  destruct (p_cost p) as [c|] eqn:Ec.
  - assert (Hc : In c (costs ps)) by (unfold costs; apply in_flat_map; exists p; rewrite Ec; simpl; auto).
    pose proof (a_fits _ _ _ HC Hc) as Fc. pose proof (a_format_pos (a_state (costs ps)) c) as Pc.
    rewrite !app_length. cbn [length].
    destruct (0 <? a_width numfmt (a_state (costs ps)))%nat eqn:E; [|apply Nat.ltb_ge in E]; lia.
  - rewrite ljust_length.
    destruct (0 <? a_width numfmt (a_state (costs ps)))%nat; lia.
Qed.

(* the hypothesis, per column datatype *)
Definition fmt_hyp (o : opts) (t : dtype) (vals : list cellv) : Prop :=
  match t with
  | TAmount => exists k, uniform (the_amts vals) k
  | TPosition => uniform_pos (the_poss vals)
  | TInventory => o_expand o = true /\ uniform_pos (concat (the_invs vals))
  | _ => True
  end.

Lemma amount_col_fits o t vals : exact_type t = false -> fmt_hyp o t vals -> col_fits quant numfmt o t vals.
Proof.
  intros Ht Hh v Hin Hnn Hok Hval s Hs. destruct t; try discriminate; simpl in Hok, Hh.
  - destruct v; try discriminate; try congruence. destruct Hh as [k HU].
    simpl in Hs. destruct Hs as [<-|[]]. simpl st_width.
    apply (a_fits _ k); [exact HU|]. unfold the_amts. apply in_flat_map. exists (CAmt a). simpl; auto.
  - destruct v; try discriminate; try congruence.
    simpl in Hs. destruct Hs as [<-|[]]. simpl st_width.
    apply p_fits; [exact Hh|]. unfold the_poss. apply in_flat_map. exists (CPos p). simpl; auto.
  - destruct v; try discriminate; try congruence. destruct Hh as [He HU].
    unfold col_prepare in *. rewrite He in *. simpl in Hs. unfold inv_format in Hs.
    apply in_map_iff in Hs as [p [<- Hp]]. simpl st_width.
    apply p_fits; [exact HU|].
    apply (Permutation_in _ (Permutation_sym (isort_perm _ pos_le l))) in Hp.
    apply in_concat. exists l. split; [|exact Hp]. unfold the_invs. apply in_flat_map. exists (CInv l). simpl; auto.
Qed.

(* all columns: exact datatypes unconditionally, amount-like ones under the formatter hypothesis *)
Theorem all_cols_fit o desc rows :
  (forall j, (j < length desc)%nat -> fmt_hyp o (snd (nth j desc d0)) (column j rows)) ->
  cols_fit quant numfmt o desc rows.
Proof.
  intros H j Hj. destruct (exact_type (snd (nth j desc d0))) eqn:E.
  - apply exact_col_fits; exact E.
  - apply amount_col_fits; [exact E|apply H; exact Hj].
Qed.
End Amounts.

(* ------------------------------------------------------------------ assembled statements *)
Lemma slots_split aligns ws cells :
  Forall2 (fun (c : str) w => (length c <= w)%nat) cells ws -> length aligns = length ws ->
  Forall2 (fun slot (c : str) => exists l r, slot = spaces l ++ c ++ spaces r) (slots_of aligns ws cells) cells.
Proof.
  intros H; revert aligns; induction H as [|c w cs ws' Hc H IH]; intros [|a al] Hl; simpl in *; try discriminate; [constructor|].
  unfold slots_of in *. cbn [combine map2 fst snd]. constructor; [|apply IH; lia].
  destruct (pad_split a w c Hc) as [l [r [E _]]]. eauto.
Qed.

Section Final.
Variable quant : dec -> str -> dec.
Variable numfmt : list (dec * str) -> dec -> str -> str.

Definition hyp_table (o : opts) desc rows : Prop :=
  forall j, (j < length desc)%nat -> fmt_hyp quant numfmt o (snd (nth j desc d0)) (column j rows).

Lemma model_table_fits o desc rows : wf_table desc rows -> hyp_table o desc rows -> table_fits quant numfmt o desc rows.
Proof. intros. apply table_fits_of; [assumption|apply all_cols_fit; assumption]. Qed.

Lemma rows_slots o desc rows cells :
  wf_table desc rows -> hyp_table o desc rows ->
  In cells (render_rows numfmt o (col_states quant o desc rows) rows) ->
  let ws := table_widths quant numfmt o desc rows in
  let aligns := map (fun d => align_of (snd d)) desc in
  line_slots o ws (row_line o aligns ws cells) = Some (slots_of aligns ws cells)
  /\ map (@length Z) (slots_of aligns ws cells) = ws
  /\ Forall2 (fun slot (c : str) => exists l r, slot = spaces l ++ c ++ spaces r) (slots_of aligns ws cells) cells.
Proof.
  intros Hwf Hh Hin ws aligns.
  pose proof (render_rows_fit quant numfmt o desc rows cells (model_table_fits o desc rows Hwf Hh) Hin) as HF.
  assert (Hl : length aligns = length ws) by (unfold aligns, ws; rewrite map_length, table_widths_length; reflexivity).
  pose proof (slots_lengths aligns ws cells HF Hl) as HS.
  split; [|split].
  - rewrite row_line_eq. apply line_slots_framed. exact HS.
  - exact HS.
  - apply slots_split; assumption.
Qed.

Lemma header_slots_ok o desc rows :
  let ws := table_widths quant numfmt o desc rows in
  line_slots o ws (header_line o (map fst desc) ws) = Some (header_slots (map fst desc) ws).
Proof.
  intros ws. unfold header_line. apply line_slots_framed. apply header_slots_lengths.
  unfold ws. rewrite map_length, table_widths_length. reflexivity.
Qed.

Lemma header_not_cut o h st : o_narrow o = false -> firstn (col_width numfmt o h st) h = h.
Proof. intros Hn. apply firstn_all2. unfold col_width. rewrite Hn. lia. Qed.

Lemma row_never_vanishes o sts row : (1 <= length (render_row numfmt o sts row))%nat.
Proof.
  unfold render_row. rewrite app_length. destruct (existsb is_many _).
  - rewrite map_length, seq_length. lia.
  - simpl. lia.
Qed.

Lemma csv_shape o desc rows rec :
  wf_table desc rows -> hyp_table (csv_opts o) desc rows ->
  In rec (csv_records quant numfmt o desc rows) -> length rec = length desc.
Proof.
  intros Hwf Hh [<-|Hin]; [apply map_length|].
  pose proof (render_rows_fit quant numfmt _ desc rows rec (model_table_fits _ desc rows Hwf Hh) Hin) as HF.
  apply Forall2_len in HF. rewrite HF. apply table_widths_length.
Qed.

Lemma csv_is_text_cells o o' desc rows :
  o_expand o' = o_expand o -> o_null o' = o_null o -> o_listsep o' = [44] -> o_spaced o' = false ->
  csv_records quant numfmt o desc rows
  = map fst desc :: render_rows numfmt o' (col_states quant o' desc rows) rows.
Proof.
  intros. unfold csv_records. f_equal. apply render_rows_ext; simpl; congruence.
Qed.
End Final.

(* decimals: integer part / fraction *)
Lemma dec_str_split d : dec_positional d = true ->
  exists ip fp, dec_str d = ip ++ fp /\ Z.of_nat (length ip) = dec_intw d /\ (fp = [] \/ exists f, fp = 46 :: f).
Proof.
  intros Hp. pose proof (dec_nd_pos d) as Hnd.
  unfold dec_str. rewrite Hp. unfold dec_intw.
  unfold dec_positional, dec_leftdigits in *. apply andb_prop in Hp as [H1 H2].
  apply Z.leb_le in H1. apply Z.ltb_lt in H2.
  rewrite Z.eqb_refl. rewrite app_nil_r.
  assert (Hs : Z.of_nat (length (if dneg d then [45] else [])) = (if dneg d then 1 else 0)) by (destruct (dneg d); reflexivity).
  destruct (dexp d + dec_nd d <=? 0) eqn:E1.
  - apply Z.leb_le in E1. exists ((if dneg d then [45] else []) ++ [48]), ([46] ++ zeros (- (dexp d + dec_nd d)) ++ dec_digits d).
    split; [rewrite <- app_assoc; reflexivity|]. split; [rewrite app_length, Nat2Z.inj_add, Hs; cbn [length]; lia|].
    right. eexists. reflexivity.
  - apply Z.leb_gt in E1. destruct (dec_nd d <=? dexp d + dec_nd d) eqn:E2.
    + apply Z.leb_le in E2. exists ((if dneg d then [45] else []) ++ dec_digits d ++ zeros (dexp d + dec_nd d - dec_nd d)), [].
      split; [rewrite app_nil_r; reflexivity|]. split; [|left; reflexivity].
      rewrite !app_length, !Nat2Z.inj_add, Hs, zeros_length. unfold dec_nd in *. lia.
    + apply Z.leb_gt in E2.
      exists ((if dneg d then [45] else []) ++ firstn (Z.to_nat (dexp d + dec_nd d)) (dec_digits d)),
             ([46] ++ skipn (Z.to_nat (dexp d + dec_nd d)) (dec_digits d)).
      split; [rewrite <- app_assoc; reflexivity|]. split; [|right; eexists; reflexivity].
      rewrite app_length, Nat2Z.inj_add, Hs, firstn_length. unfold dec_nd in *. lia.
Qed.

(* the cell of every positional decimal of a column: padding, then the integer part ending at
   offset [ni] (the same for the whole column), then nothing or '.' and the fraction *)
Theorem decimal_aligned ds d : In d ds -> dec_positional d = true ->
  let st := dec_state ds in
  exists ip fp rest, dec_format st d = spaces (Z.to_nat (fst st) - length ip) ++ ip ++ fp ++ rest
    /\ (length ip <= Z.to_nat (fst st))%nat /\ (fp = [] \/ exists f, fp = 46 :: f).
Proof.
  intros Hin Hp st. pose proof (dec_state_dom ds d Hin) as Hd. fold st in Hd.
  destruct (dec_format_aligned st d Hp Hd) as [rest [E Hle]].
  destruct (dec_str_split d Hp) as [ip [fp [Es [Hl Hf]]]].
  exists ip, fp, rest. split; [|split; [lia|exact Hf]].
  rewrite E, Es, <- app_assoc. f_equal. f_equal. lia.
Qed.

Definition parse_bool (s : str) : option bool :=
  if str_eqb s s_true then Some true else if str_eqb s s_false then Some false else None.
Lemma readback_bool (b : bool) : parse_bool (if b then s_true else s_false) = Some b.
Proof. destruct b; reflexivity. Qed.
Lemma readback_str w (s : str) : firstn (length s) (ljust w s) = s.
Proof. unfold ljust. rewrite firstn_app, Nat.sub_diag, firstn_all, firstn_O, app_nil_r. reflexivity. Qed.

(* ------------------------------------------------------------------ the checker's components accept the model's output *)
Lemma runs_repeat c n (s : str) cur : runs c cur (repeat c n ++ s) = runs c (cur + n) s.
Proof.
  revert cur; induction n as [|n IH]; intros cur; cbn [repeat app]; [f_equal; lia|].
  cbn [runs]. rewrite Z.eqb_refl, IH. f_equal. lia.
Qed.

(* rule line = pre ++ seg(w1) ++ sep ++ seg(w2) ++ ... ++ post with the rule character absent from pre/sep/post *)
Fixpoint rule_body (c : Z) (k : nat) (sep : str) (ws : list nat) : str :=
  match ws with
  | [] => []
  | w :: t => repeat c (w + k) ++ match t with [] => [] | _ :: _ => sep ++ rule_body c k sep t end
  end.

Lemma runs_nochar c (s : str) : forallb (fun x => negb (x =? c)) s = true -> forall t, runs c 0 (s ++ t) = runs c 0 t.
Proof.
  induction s as [|x s IH]; intros H t; [reflexivity|]. cbn [forallb] in H. apply andb_prop in H as [H1 H2].
  cbn [app runs]. apply negb_true_iff in H1. rewrite H1. apply IH. exact H2.
Qed.

Lemma runs_nochar0 c (s : str) : forallb (fun x => negb (x =? c)) s = true -> runs c 0 s = [].
Proof. intros H. rewrite <- (app_nil_r s). rewrite runs_nochar by exact H. reflexivity. Qed.

Lemma runs_rule_body c k sep post ws :
  forallb (fun x => negb (x =? c)) sep = true -> sep <> [] -> forallb (fun x => negb (x =? c)) post = true ->
  Forall (fun w => (1 <= w + k)%nat) ws ->
  runs c 0 (rule_body c k sep ws ++ post) = map (fun w => (w + k)%nat) ws.
Proof.
  intros Hsep Hne Hpost HF. induction HF as [|w t Hw HF IH]; cbn [rule_body map].
  - cbn [app]. apply runs_nochar0. exact Hpost.
  - rewrite <- app_assoc, runs_repeat. destruct t as [|w' t'].
    + cbn [app map]. destruct post as [|p post'].
      * cbn [runs]. destruct (0 + (w + k))%nat eqn:E; [lia|]. rewrite <- E. reflexivity.
      * cbn [forallb] in Hpost. apply andb_prop in Hpost as [P1 P2]. apply negb_true_iff in P1.
        cbn [runs]. rewrite P1. destruct (0 + (w + k))%nat eqn:E; [lia|]. rewrite <- E. cbn [Nat.add]. f_equal.
        apply runs_nochar0. exact P2.
    + destruct sep as [|s0 sep']; [congruence|].
      cbn [forallb] in Hsep. apply andb_prop in Hsep as [S1 S2]. pose proof S1 as S1'. apply negb_true_iff in S1.
      rewrite <- app_assoc. cbn [app runs]. rewrite S1. destruct (0 + (w + k))%nat eqn:E; [lia|]. rewrite <- E. cbn [Nat.add]. f_equal.
      rewrite runs_nochar by exact S2. apply IH.
Qed.

Lemma join_rule_body c (sep : str) ws :
  join sep (map (fun w => repeat c w) ws) = rule_body c 0 sep ws.
Proof.
  induction ws as [|w t IH]; [reflexivity|]. cbn [map join rule_body]. rewrite Nat.add_0_r.
  destruct t as [|w' t']; [cbn [map]; rewrite app_nil_r; reflexivity|].
  cbn [map] in *. rewrite IH. reflexivity.
Qed.

Lemma join_rule_body_boxed c j ws : ws <> [] ->
  [c] ++ join [c; j; c] (map (fun w => repeat c w) ws) ++ [c] = rule_body c 2 [j] ws.
Proof.
  assert (R : forall w, c :: repeat c w ++ [c] = repeat c (w + 2)).
  { intros w. replace (w + 2)%nat with (S (w + 1)) by lia. cbn [repeat]. f_equal. rewrite repeat_app. reflexivity. }
  induction ws as [|w t IH]; intros Hne; [congruence|].
  destruct t as [|w' t'].
  - cbn [map join rule_body app]. rewrite app_nil_r. apply R.
  - change (rule_body c 2 [j] (w :: w' :: t')) with (repeat c (w + 2) ++ [j] ++ rule_body c 2 [j] (w' :: t')).
    rewrite <- (IH ltac:(discriminate)). rewrite <- R.
    set (L := map (fun w0 => repeat c w0) (w' :: t')).
    change (map (fun w0 => repeat c w0) (w :: w' :: t')) with (repeat c w :: L).
    assert (J : join [c; j; c] (repeat c w :: L) = repeat c w ++ [c; j; c] ++ join [c; j; c] L) by (unfold L; reflexivity).
    rewrite J. cbn [app]. rewrite <- !app_assoc. reflexivity.
Qed.

Lemma boxed_shape (l c r : Z) (X : str) : [l; c] ++ X ++ [c; r] = [l] ++ ([c] ++ X ++ [c]) ++ [r].
Proof. cbn [app]. f_equal. f_equal. rewrite <- app_assoc. reflexivity. Qed.

Theorem widths_of_h_line o ws : ws <> [] -> Forall (fun w => (1 <= w)%nat) ws -> o_unicode o = false \/ o_unicode o = true ->
  widths_of o (h_line o ws) = ws.
Proof.
  intros Hne HF _. unfold widths_of, h_line, rule_line, rule_char, colsep.
  assert (M : map (fun r => (r - 2)%nat) (map (fun w => (w + 2)%nat) ws) = ws).
  { rewrite map_map. rewrite <- (map_id ws) at 2. apply map_ext. intros; lia. }
  assert (F2 : Forall (fun w => (1 <= w + 2)%nat) ws) by (eapply Forall_impl; [|exact HF]; intros; simpl in *; lia).
  assert (F0 : Forall (fun w => (1 <= w + 0)%nat) ws) by (eapply Forall_impl; [|exact HF]; intros; simpl in *; lia).
  assert (M0 : map (fun w => (w + 0)%nat) ws = ws).
  { rewrite <- (map_id ws) at 2. apply map_ext. intros; lia. }
  destruct (o_boxed o), (o_unicode o).
  - cbv zeta. rewrite boxed_shape.
    rewrite (join_rule_body_boxed u_h 9532 ws Hne). rewrite (runs_nochar u_h [9500]) by reflexivity.
    rewrite runs_rule_body by (try reflexivity; try discriminate; exact F2). exact M.
  - cbv zeta. rewrite boxed_shape.
    rewrite (join_rule_body_boxed 45 43 ws Hne). rewrite (runs_nochar 45 [43]) by reflexivity.
    rewrite runs_rule_body by (try reflexivity; try discriminate; exact F2). exact M.
  - rewrite join_rule_body. rewrite <- (app_nil_r (rule_body _ _ _ _)).
    rewrite runs_rule_body by (try reflexivity; try discriminate; exact F0). exact M0.
  - rewrite join_rule_body. rewrite <- (app_nil_r (rule_body _ _ _ _)).
    rewrite runs_rule_body by (try reflexivity; try discriminate; exact F0). exact M0.
Qed.

Lemma header_ok_center w (h : str) : header_ok w h (center w (firstn w h)) = true.
Proof.
  unfold header_ok, center. set (h' := firstn w h). set (marg := (w - length h')%nat).
  pose proof (Nat.div_mod_eq marg 2) as Hd. pose proof (Nat.mod_upper_bound marg 2 ltac:(lia)) as Hm.
  destruct (Nat.odd marg) eqn:E; cbn [andb].
  - apply Nat.odd_spec in E. destruct E as [k Hk]. destruct (Nat.odd w).
    + replace (marg / 2 + 1)%nat with (marg - marg / 2)%nat by lia.
      replace (marg - (marg - marg / 2))%nat with (marg / 2)%nat by lia.
      rewrite (str_eqb_refl (spaces (marg - marg / 2) ++ h' ++ spaces (marg / 2))). apply orb_true_r.
    + rewrite Nat.add_0_r. rewrite str_eqb_refl. reflexivity.
  - rewrite Nat.add_0_r. rewrite str_eqb_refl. reflexivity.
Qed.

Lemma width_ok_col_width numfmt o h st : width_ok o h (col_width numfmt o h st) = true.
Proof.
  unfold width_ok, col_width. destruct (o_narrow o); cbn [orb];
    rewrite ?andb_true_r; repeat (apply andb_true_intro; split); apply Nat.leb_le; lia.
Qed.

(* a cell of a datatype whose text does not depend on the column: the checker accepts the padded slot *)
Lemma cell_check_plain o prec t w v :
  match t with TDecimal | TAmount | TPosition | TInventory => False | _ => True end ->
  cell_ok t v = true ->
  fst (cell_check o prec t w v 0
        (pad (align_of t) w (cell_str (render_cell no_numfmt o (t, SPlain 0) v)))) = 0.
Proof.
  intros Ht Hok. destruct v; destruct t; try contradiction; try discriminate;
    cbn -[str_eqb pad ljust rjust set_format show_int date_str py_str]; rewrite ?str_eqb_refl; reflexivity.
Qed.
