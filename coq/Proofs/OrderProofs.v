From Coq Require Import ZArith List Bool Lia Permutation Sorted.
Import ListNotations.
From Verif Require Import Base.StableSort Base.PyValue Proofs.PyValueProofs Model.Order.
Open Scope Z_scope.

(* ---- comparators of single columns, runs and whole specs ---- *)
Lemma col_le_total i : total (col_le i).
Proof. apply total_on, val_le_total. Qed.
Lemma col_le_trans i : trans (col_le i).
Proof. apply trans_on, val_le_trans. Qed.

Lemma dir_total d le : total le -> total (dir d le).
Proof. destruct d; simpl; [apply total_flip|auto]. Qed.
Lemma dir_trans d le : trans le -> trans (dir d le).
Proof. destruct d; simpl; [apply trans_flip|auto]. Qed.

Fixpoint keys_le (idxs : list nat) : row -> row -> bool :=
  match idxs with [] => triv | i :: t => lex (col_le i) (keys_le t) end.

Lemma keys_le_total idxs : total (keys_le idxs).
Proof. induction idxs; simpl; [apply total_triv|apply total_lex; [apply col_le_total|assumption]]. Qed.
Lemma keys_le_trans idxs : trans (keys_le idxs).
Proof.
  induction idxs; simpl; [apply trans_triv|].
  apply trans_lex; [apply col_le_total|apply col_le_trans|assumption].
Qed.

(* Python's tuple comparison on the extracted keys is the lexicographic
   combination of the column orders. *)
Lemma tuple_key_le idxs : peq (on (key_of idxs) tuple_le) (keys_le idxs).
Proof.
  intros a b. unfold on, tuple_le. induction idxs as [|i t IH]; simpl; [reflexivity|].
  unfold lex, col_le, on at 1 2, val_eq, eqv, val_lt.
  destruct (val_le (cell i a) (cell i b)) eqn:E1, (val_le (cell i b) (cell i a)) eqn:E2; simpl; auto.
Qed.

Lemma spec_le_total s : total (spec_le s).
Proof.
  induction s as [|[i d] t IH]; simpl; [apply total_triv|].
  apply total_lex; [apply dir_total, col_le_total|assumption].
Qed.
Lemma spec_le_trans s : trans (spec_le s).
Proof.
  induction s as [|[i d] t IH]; simpl; [apply trans_triv|].
  apply trans_lex; [apply dir_total, col_le_total|apply dir_trans, col_le_trans|assumption].
Qed.

(* spec comparator with an explicit tail *)
Fixpoint spec_le_app (s : list (nat * bool)) (acc : row -> row -> bool) : row -> row -> bool :=
  match s with
  | [] => acc
  | (i, d) :: t => lex (dir d (col_le i)) (spec_le_app t acc)
  end.

Lemma spec_le_app_triv s : peq (spec_le_app s triv) (spec_le s).
Proof. induction s as [|[i d] t IH]; simpl; intros x y; [reflexivity|]. apply lex_ext; [intros ? ?; reflexivity|exact IH]. Qed.

Lemma spec_le_app_app s1 s2 acc : spec_le_app (s1 ++ s2) acc = spec_le_app s1 (spec_le_app s2 acc).
Proof. induction s1 as [|[i d] t IH]; simpl; [reflexivity|]. now rewrite IH. Qed.

Lemma spec_le_app_ext s acc acc' : peq acc acc' -> peq (spec_le_app s acc) (spec_le_app s acc').
Proof. intros H. induction s as [|[i d] t IH]; simpl; [exact H|]. apply lex_ext; [intros ? ?; reflexivity|exact IH]. Qed.

Lemma spec_le_app_total s acc : total acc -> total (spec_le_app s acc).
Proof. intros H. induction s as [|[i d] t IH]; simpl; [exact H|]. apply total_lex; [apply dir_total, col_le_total|exact IH]. Qed.
Lemma spec_le_app_trans s acc : trans acc -> trans (spec_le_app s acc).
Proof.
  intros H. induction s as [|[i d] t IH]; simpl; [exact H|].
  apply trans_lex; [apply dir_total, col_le_total|apply dir_trans, col_le_trans|exact IH].
Qed.

Lemma lex_triv_l (le : row -> row -> bool) : peq (lex triv le) le.
Proof. intros x y. reflexivity. Qed.

Lemma dir_triv d : peq (dir d (@triv row)) triv.
Proof. destruct d; intros x y; reflexivity. Qed.

Lemma dir_lex d (a b : row -> row -> bool) : peq (dir d (lex a b)) (lex (dir d a) (dir d b)).
Proof. destruct d; intros x y; reflexivity. Qed.

Lemma peq_trans (a b c : row -> row -> bool) : peq a b -> peq b c -> peq a c.
Proof. intros H1 H2 x y. now rewrite H1. Qed.
Lemma peq_sym (a b : row -> row -> bool) : peq a b -> peq b a.
Proof. intros H x y. now rewrite H. Qed.

(* one run (direction d, columns js in key order) in front of a tail order *)
Lemma run_le_spec d js acc :
  peq (lex (dir d (keys_le js)) acc) (spec_le_app (map (fun i => (i, d)) js) acc).
Proof.
  induction js as [|j t IH]; simpl.
  - eapply peq_trans; [apply lex_ext; [apply dir_triv|intros ? ?; reflexivity]|apply lex_triv_l].
  - eapply peq_trans; [apply lex_ext; [apply dir_lex|intros ? ?; reflexivity]|].
    eapply peq_trans; [apply lex_assoc|]. apply lex_ext; [intros ? ?; reflexivity|exact IH].
Qed.

(* ---- one pass ---- *)
Lemma sort_pass_isort idxs d rows : sort_pass idxs d rows = isort (dir d (keys_le idxs)) rows.
Proof.
  unfold sort_pass, py_sort.
  assert (T : total (on (key_of idxs) tuple_le)) by (eapply total_ext; [apply peq_sym, tuple_key_le|apply keys_le_total]).
  assert (R : trans (on (key_of idxs) tuple_le)) by (eapply trans_ext; [apply peq_sym, tuple_key_le|apply keys_le_trans]).
  destruct d; simpl.
  - rewrite py_sort_reverse by assumption. apply isort_ext. intros x y. unfold flip. apply tuple_key_le.
  - apply isort_ext, tuple_key_le.
Qed.

(* ---- all passes ---- *)
Definition flat (rs : list (bool * list nat)) : list (nat * bool) :=
  flat_map (fun r : bool * list nat => map (fun i => (i, fst r)) (snd r)) rs.

Lemma flat_runs l : flat (runs l) = l.
Proof.
  induction l as [|[i d] t IH]; simpl; [reflexivity|].
  destruct (runs t) as [|[d' is] rest] eqn:E.
  - simpl in IH. subst t. reflexivity.
  - destruct (Bool.eqb d d') eqn:Ed.
    + apply eqb_prop in Ed. subst d'. simpl in *. now rewrite IH.
    + simpl in *. now rewrite IH.
Qed.

Definition pass (rows : list row) (run : bool * list nat) := sort_pass (rev (snd run)) (fst run) rows.

Lemma passes_fold rs : forall acc rows, total acc -> trans acc ->
  exists le, fold_left pass rs (isort acc rows) = isort le rows
             /\ peq le (spec_le_app (rev (flat rs)) acc) .
Proof.
  induction rs as [|[d is] rs IH]; intros acc rows T R; simpl.
  - exists acc. split; [reflexivity|intros ? ?; reflexivity].
  - unfold pass at 2. simpl. rewrite sort_pass_isort.
    set (le1 := dir d (keys_le (rev is))).
    assert (T1 : total le1) by (apply dir_total, keys_le_total).
    assert (R1 : trans le1) by (apply dir_trans, keys_le_trans).
    rewrite lsd_pass by assumption.
    destruct (IH (lex le1 acc) rows (total_lex _ _ _ T1 T) (trans_lex _ _ _ T1 R1 R)) as (le & E & P).
    exists le. split; [exact E|].
    eapply peq_trans; [exact P|]. rewrite rev_app_distr, spec_le_app_app.
    apply spec_le_app_ext. rewrite <- map_rev. apply run_le_spec.
Qed.

(* C03 main theorem: the multi-pass sort grouped by direction equals ONE stable
   sort by the lexicographic, per-key-directed order. *)
Theorem order_rows_lex spec rows : order_rows spec rows = isort (spec_le spec) rows.
Proof.
  unfold order_rows. rewrite <- (isort_triv _ rows) at 1.
  destruct (passes_fold (runs (rev spec)) triv rows (total_triv _) (trans_triv _)) as (le & E & P).
  fold pass. rewrite E. apply isort_ext.
  eapply peq_trans; [exact P|]. rewrite flat_runs, rev_involutive. apply spec_le_app_triv.
Qed.

Corollary order_rows_perm spec rows : Permutation rows (order_rows spec rows).
Proof. rewrite order_rows_lex. apply isort_perm. Qed.

Corollary order_rows_sorted spec rows : sorted (spec_le spec) (order_rows spec rows).
Proof. rewrite order_rows_lex. apply isort_sorted; [apply spec_le_total|apply spec_le_trans]. Qed.

(* ties (rows equivalent under every key) keep their prior relative order *)
Corollary order_rows_stable spec rows a :
  filter (eqv (spec_le spec) a) (order_rows spec rows) = filter (eqv (spec_le spec) a) rows.
Proof. rewrite order_rows_lex. apply isort_stable; [apply spec_le_total|apply spec_le_trans]. Qed.

(* and the result is the ONLY list with these three properties *)
Corollary order_rows_unique spec rows l :
  sorted (spec_le spec) l ->
  (forall a, filter (eqv (spec_le spec) a) l = filter (eqv (spec_le spec) a) rows) ->
  l = order_rows spec rows.
Proof.
  intros S F. apply (stable_sort_unique _ (spec_le spec) (spec_le_total spec)); [exact S|apply order_rows_sorted|].
  intros a. rewrite F. symmetry. apply order_rows_stable.
Qed.

(* NULL first under ASC, last under DESC, on the leading key *)
Theorem null_first_asc i t a b :
  cell i a = VNull -> cell i b <> VNull -> spec_le ((i, false) :: t) b a = false.
Proof.
  intros Ha Hb. simpl. unfold lex, col_le, on. rewrite Ha. now rewrite (null_strictly_least _ Hb).
Qed.
Theorem null_last_desc i t a b :
  cell i a = VNull -> cell i b <> VNull -> spec_le ((i, true) :: t) a b = false.
Proof.
  intros Ha Hb. simpl. unfold lex, flip, col_le, on. rewrite Ha. now rewrite (null_strictly_least _ Hb).
Qed.

(* ---- DISTINCT ---- *)
Lemma uniquify_acc_snoc : forall l seen x,
  uniquify_acc seen (l ++ [x]) =
  uniquify_acc seen l ++ (if existsb (row_eq x) (seen ++ l) then [] else [x]).
Proof.
  induction l as [|r t IH]; intros seen x; simpl.
  - rewrite app_nil_r. destruct (existsb (row_eq x) seen); reflexivity.
  - destruct (existsb (row_eq r) seen) eqn:E.
    + rewrite IH. f_equal. rewrite !existsb_app. simpl.
      destruct (existsb (row_eq x) seen) eqn:Ex; [reflexivity|]. simpl.
      destruct (row_eq x r) eqn:Exr; [|reflexivity]. exfalso.
      apply existsb_exists in E as (s & Hs & Hrs).
      assert (existsb (row_eq x) seen = true); [|congruence].
      apply existsb_exists. exists s. split; [exact Hs|]. eapply row_eq_trans; eassumption.
    + simpl. rewrite IH. f_equal. rewrite <- app_assoc. reflexivity.
Qed.

(* DISTINCT keeps a row exactly when no equal row precedes it. *)
Theorem uniquify_snoc l x :
  uniquify (l ++ [x]) = uniquify l ++ (if existsb (row_eq x) l then [] else [x]).
Proof. unfold uniquify. now rewrite uniquify_acc_snoc. Qed.

Lemma uniquify_acc_in seen l y : In y (uniquify_acc seen l) -> In y l.
Proof.
  revert seen. induction l as [|r t IH]; intros seen; simpl; [auto|].
  destruct (existsb (row_eq r) seen); simpl; [intros H; right; eapply IH; exact H|].
  intros [->|H]; [now left|right; eapply IH; exact H].
Qed.

Lemma uniquify_acc_fresh seen l y : In y (uniquify_acc seen l) -> existsb (row_eq y) seen = false.
Proof.
  revert seen. induction l as [|r t IH]; intros seen; simpl; [tauto|].
  destruct (existsb (row_eq r) seen) eqn:E; simpl; [apply IH|].
  intros [<-|H]; [exact E|]. apply IH in H. rewrite existsb_app in H. now apply orb_false_iff in H.
Qed.

Theorem uniquify_nodup l : ForallOrdPairs (fun a b => row_eq a b = false) (uniquify l).
Proof.
  unfold uniquify. generalize (@nil row) as seen. induction l as [|r t IH]; intros seen; simpl; [constructor|].
  destruct (existsb (row_eq r) seen) eqn:E; [apply IH|]. constructor; [|apply IH].
  rewrite Forall_forall. intros y Hy. apply uniquify_acc_fresh in Hy. rewrite existsb_app in Hy.
  apply orb_false_iff in Hy as [_ Hy]. simpl in Hy. rewrite orb_false_r in Hy. now rewrite row_eq_sym.
Qed.

Theorem uniquify_complete l x : In x l -> exists y, In y (uniquify l) /\ row_eq x y = true.
Proof.
  unfold uniquify. assert (G : forall seen, In x l ->
    (exists y, In y (uniquify_acc seen l) /\ row_eq x y = true) \/ existsb (row_eq x) seen = true).
  { induction l as [|r t IH]; intros seen; simpl; [tauto|].
    intros [->|H].
    - destruct (existsb (row_eq x) seen) eqn:E; [now right|]. left. exists x. split; [now left|apply row_eq_refl].
    - destruct (existsb (row_eq r) seen) eqn:E; [apply IH; exact H|].
      destruct (IH (seen ++ [r]) H) as [(y & Hy & Hxy)|Hs].
      + left. exists y. split; [now right|exact Hxy].
      + rewrite existsb_app in Hs. apply orb_true_iff in Hs as [Hs|Hs]; [now right|].
        simpl in Hs. rewrite orb_false_r in Hs. left. exists r. split; [now left|exact Hs]. }
  intros H. destruct (G [] H) as [G'|G']; [exact G'|discriminate].
Qed.

(* ---- LIMIT ---- *)
Theorem limit_spec n l : 0 <= n ->
  limit (Some n) l = firstn (Nat.min (Z.to_nat n) (length l)) l.
Proof.
  intros _. unfold limit. destruct (Nat.le_ge_cases (Z.to_nat n) (length l)) as [H|H].
  - now rewrite Nat.min_l.
  - rewrite Nat.min_r by exact H. rewrite firstn_all. now apply firstn_all2.
Qed.

(* ---- pipeline ---- *)
Theorem post_pipeline spec vis distinct lim rows :
  post (Some spec) vis distinct lim rows =
  limit lim ((if distinct then uniquify else fun l => l) (map (project vis) (isort (spec_le spec) rows))).
Proof. unfold post. rewrite order_rows_lex. destruct distinct; reflexivity. Qed.
