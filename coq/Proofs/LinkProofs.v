(* Proofs about Model/Link.v: a lowered query is typed by Model/Typing.v with the datatypes the compiler announced,
   it satisfies the executor-side shape invariants, and running a statement has no third outcome. *)
From Coq Require Import String ZArith List Bool Lia Arith.
Import ListNotations.
From Verif Require Import Base.Out Base.PyValue Model.Compile Model.Link Proofs.CompileProofs.
From Verif Require Model.Eval Model.Exec Model.Typing.
Open Scope list_scope.
Open Scope nat_scope.

(* ------------------------------------------------------------------ typing of lowered queries *)
Lemma forallb_combine_Forall2 : forall {A B} (f : A * B -> bool) (l : list A) (m : list B),
  length l = length m -> forallb f (combine l m) = true -> Forall2 (fun a b => f (a, b) = true) l m.
Proof.
  induction l as [|a l IH]; intros [|b m] Hlen H; simpl in *; try discriminate; constructor.
  - apply andb_true_iff in H; tauto.
  - apply IH; [lia | apply andb_true_iff in H; tauto].
Qed.

Definition typed_as (colsT aggT : list Typing.ty) (e : Link.enode) (t : ctarget) : Prop :=
  exists ty, Typing.type_of colsT aggT e = Some ty /\ Typing.ty_name ty = dtype (ct_expr t).

Lemma ty_is_spec : forall o name, ty_is o name = true -> exists ty, o = Some ty /\ Typing.ty_name ty = name.
Proof.
  intros [t|] name H; simpl in H; [|discriminate]. exists t. split; auto. apply String.eqb_eq; auto.
Qed.

(* every target of a lowered query has, in the executor's type system, the datatype the compiler announced; every
   allocated aggregate too *)
Theorem lower_query_typed : forall q xq,
  lower_query q = Some xq ->
  exists colsT aggT,
    all_some (map (fun c => Typing.ty_of_name (snd c)) (t_cols (cq_table q))) = Some colsT
    /\ all_some (map (Typing.agg_type colsT) (Exec.q_aggs xq)) = Some aggT
    /\ Forall2 (typed_as colsT aggT) (Exec.q_targets xq) (cq_targets q).
Proof.
  intros q xq H. unfold lower_query in H.
  destruct (match cq_where q with Some w => _ | None => Some None end) as [wh|]; [|discriminate].
  destruct (lower_targets _ _ 0 0 (cq_targets q)) as [[es ags]|]; [|discriminate].
  destruct (types_agree (cq_table q) q wh es ags) eqn:T; [|discriminate]. inversion H; subst; clear H. simpl.
  unfold types_agree in T.
  destruct (all_some (map (fun c => Typing.ty_of_name (snd c)) (t_cols (cq_table q)))) as [colsT|]; [|discriminate].
  destruct (all_some (map (fun a => Typing.agg_type colsT (fst a)) ags)) as [aggT|] eqn:A; [|discriminate].
  exists colsT, aggT. split; auto. split; [rewrite map_map; exact A|].
  apply andb_true_iff in T; destruct T as [T Hwh].
  apply andb_true_iff in T; destruct T as [T Htg].
  apply andb_true_iff in T; destruct T as [Hag Hlen].
  apply Nat.eqb_eq in Hlen.
  pose proof (forallb_combine_Forall2 _ _ _ Hlen Htg) as F. clear -F.
  induction F as [|e t es' ts' Ht F IH]; constructor; auto.
  simpl in Ht. apply ty_is_spec in Ht. exact Ht.
Qed.

(* ------------------------------------------------------------------ executor-side shape *)
Lemma vis_indexes_aux : forall ts i0,
  flat_map (fun '(i, t) => if named_t t then [i] else []) (combine (seq i0 (length ts)) ts)
  = map (fun k => i0 + k) (flat_map (fun '(i, t) => if named_t t then [i] else []) (combine (seq 0 (length ts)) ts)).
Proof.
  induction ts as [|t ts IH]; intros i0; simpl; auto.
  rewrite map_app. f_equal.
  - destruct (named_t t); simpl; auto. f_equal. lia.
  - rewrite (IH (S i0)), (IH 1). rewrite map_map. apply map_ext. intros; lia.
Qed.

Lemma vis_indexes_prefix : forall vis hid,
  Forall (fun t => named t = true) vis -> Forall hidden hid ->
  vis_indexes (vis ++ hid) = seq 0 (length vis).
Proof.
  unfold vis_indexes. induction vis as [|t vis IH]; intros hid Hv Hh; simpl.
  - induction hid as [|h hid IHh]; simpl; auto. inversion Hh; subst.
    unfold named_t. rewrite H1. simpl. rewrite vis_indexes_aux.
    rewrite (IHh H2). reflexivity.
  - inversion Hv; subst. unfold named_t at 1. unfold named in H1. destruct (ct_name t); [|discriminate]. simpl.
    f_equal. rewrite vis_indexes_aux. rewrite (IH hid H2 Hh). rewrite <- seq_shift. reflexivity.
Qed.

Lemma lower_targets_length : forall cols g ts idx h es ags,
  lower_targets cols g idx h ts = Some (es, ags) -> length es = length ts.
Proof.
  induction ts as [|t ts IH]; intros idx h es ags H; simpl in H.
  - inversion H; reflexivity.
  - destruct (lower cols h (ct_expr t)) as [[e a]|]; [|discriminate].
    destruct (_ && _); [discriminate|].
    destruct (lower_targets cols g (S idx) _ ts) as [[es' a']|] eqn:R; [|discriminate].
    inversion H; subst. simpl. f_equal. eapply IH; eauto.
Qed.

(* a statement accepted by the compiler and lowered: result_indexes are 0..n-1 (n visible targets first), the target
   lists have the same length, GROUP BY / HAVING / ORDER BY indexes are in range of the lowered targets *)
Theorem lowered_query_shape : forall sch p st q xq,
  compile sch p st = Ok (CSelect q) -> lower_query q = Some xq ->
  Exec.q_vis xq = seq 0 (length (visible (cq_targets q)))
  /\ length (Exec.q_targets xq) = length (cq_targets q)
  /\ (forall gi, Exec.q_group xq = Some gi -> Forall (fun i => i < length (Exec.q_targets xq)) gi)
  /\ (forall k, Exec.q_having xq = Some k -> k < length (Exec.q_targets xq))
  /\ (forall spec, Exec.q_order xq = Some spec -> Forall (fun p => fst p < length (Exec.q_targets xq)) spec).
Proof.
  intros sch p st q xq C L. apply compile_inv in C. destruct C as [[vis [hid [E [Hv Hh]]]] Hg _ Hhav Hord _].
  unfold lower_query in L.
  destruct (match cq_where q with Some w => _ | None => Some None end) as [wh|]; [|discriminate].
  destruct (lower_targets _ _ 0 0 (cq_targets q)) as [[es ags]|] eqn:LT; [|discriminate].
  destruct (types_agree _ _ _ _ _); [|discriminate]. inversion L; subst; clear L. simpl.
  apply lower_targets_length in LT. unfold Link.enode in *. rewrite LT.
  split; [|split; [reflexivity|split; [|split]]].
  - rewrite E. rewrite vis_indexes_prefix; auto. f_equal.
    unfold visible. rewrite filter_app.
    assert (F1 : filter (fun t => match ct_name t with Some _ => true | None => false end) vis = vis).
    { clear -Hv. induction vis as [|t vis IH]; simpl; auto. inversion Hv; subst. unfold named in H1.
      destruct (ct_name t); [|discriminate]. f_equal; auto. }
    assert (F2 : filter (fun t => match ct_name t with Some _ => true | None => false end) hid = []).
    { clear -Hh. induction hid as [|t hid IH]; simpl; auto. inversion Hh; subst. unfold hidden in H1. rewrite H1. auto. }
    rewrite F1, F2, app_nil_r. reflexivity.
  - intros gi G. apply Forall_forall. intros i Hi. apply (Hg gi G) in Hi. destruct Hi as [t [Hn _]].
    apply nth_error_Some. congruence.
  - intros k K. apply Hhav in K. tauto.
  - intros spec S. apply Hord; auto.
Qed.

(* ------------------------------------------------------------------ run_stmt has no third outcome *)
Lemma exec_query_not_err : forall q xq rows er, exec_query q xq rows <> RErr er.
Proof.
  intros. unfold exec_query. destruct (Exec.has_err _); [discriminate|].
  destruct (cq_pivots q) as [[c1 c2]|]; [|discriminate].
  destruct (Verif.Model.Pivot.pivot _ _ _ _); discriminate.
Qed.

Lemma run_select_not_err : forall sch pv dat e tbl q er,
  comp sch pv e tbl = Ok (RQuery q) -> snd (run_select sch pv dat e tbl) <> RErr er.
Proof.
  intros sch pv dat e tbl q er H.
  destruct e; try (exfalso; simpl in H; crush_rnode H; fail).
  unfold run_select. cbn [go]. rewrite H.
  match goal with |- context [match ?s with inl _ => _ | inr _ => _ end] => destruct s as [rows|r] eqn:S end.
  - match goal with |- context [comp sch pv ?e' tbl] => destruct (comp sch pv e' tbl) as [[n|q']|e1] end;
      simpl; try discriminate.
    destruct (lower_query q'); simpl; [apply exec_query_not_err | discriminate].
  - simpl. destruct fk; try (inversion S; subst; discriminate).
    + destruct (assoc name dat); inversion S; subst; discriminate.
    + destruct fe as [sub|]; [|inversion S; subst; discriminate].
      destruct (snd (go sch pv dat sub tbl)) as [[qi|] [ty rws|e0| |s0]]; inversion S; subst; discriminate.
Qed.

Theorem run_rejects_iff_compile_rejects : forall sch p dat st e,
  run sch p dat st = RErr e <-> compile sch p st = Err e.
Proof.
  intros sch p dat st e. unfold run. destruct (compile sch p st) as [[q|t w]|e0] eqn:C.
  - split; [|discriminate]. intros H. exfalso. unfold compile in C.
    destruct (bind_params p (stmt_placeholders st)) as [pv|eb]; simpl in C; [|discriminate].
    destruct (negb (stmt_subqueries_ok st)); [discriminate|].
    destruct st; simpl in C, H.
    + destruct (comp sch pv s _) as [[n|q0]|e1] eqn:K; simpl in C; try discriminate.
      eapply run_select_not_err in K. apply K. exact H.
    + destruct (comp sch pv _ _) as [[n|q0]|e1] eqn:K; simpl in C; try discriminate.
      eapply run_select_not_err in K. apply K. exact H.
    + destruct (comp sch pv _ _) as [[n|q0]|e1] eqn:K; simpl in C; try discriminate.
      eapply run_select_not_err in K. apply K. exact H.
    + discriminate.
  - split; discriminate.
  - split; intros H; inversion H; reflexivity.
Qed.

(* compile >>= lower >>= exec: rows, the compiler's error (exactly when the compiler rejects), or "outside the
   lowerable subset / evaluation raises" -- nothing else *)
Theorem run_stmt_outcomes : forall sch p dat st,
  (exists rows, run_stmt sch p dat st = Some (inl rows) /\ exists q, compile sch p st = Ok (CSelect q))
  \/ (exists e, run_stmt sch p dat st = Some (inr e) /\ compile sch p st = Err e)
  \/ (run_stmt sch p dat st = None /\ exists c, compile sch p st = Ok c).
Proof.
  intros. unfold run_stmt. destruct (run sch p dat st) as [ty rows|e| |s] eqn:Rn.
  - left. exists rows. split; auto. unfold run in Rn.
    destruct (compile sch p st) as [[q|t w]|e0]; try discriminate. eauto.
  - right; left. exists e. split; auto. apply run_rejects_iff_compile_rejects in Rn. exact Rn.
  - right; right. split; auto. destruct (compile sch p st) as [c|e0] eqn:C; eauto.
    exfalso. assert (run sch p dat st = RErr e0) by (apply run_rejects_iff_compile_rejects; auto). congruence.
  - right; right. split; auto. destruct (compile sch p st) as [c|e0] eqn:C; eauto.
    exfalso. assert (run sch p dat st = RErr e0) by (apply run_rejects_iff_compile_rejects; auto). congruence.
Qed.
