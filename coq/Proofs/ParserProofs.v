(* C06 proofs: parsing the print of a well-formed tree gives the tree back.

   Fuel never appears in the final statements.  [Ok off p ts r] says that the
   fuelled function [p] returns [Some r] on [ts] for every fuel
   >= 40 * length ts + off; the offsets are the heights of the functions in
   the "calls without consuming a token" graph, so each call of a callee at
   fuel m-1 on a suffix of the input is again above its threshold (a consumed
   token buys 40 units).  The lemmas about left-recursive levels are in
   continuation-passing form (DESIGN.md A.2): "parsing body e ++ rest at level
   L equals entering the loop of level L with accumulator e at rest". *)
From Coq Require Import ZArith NArith List Bool Arith Lia.
Import ListNotations.
From Verif Require Import Model.Ast Model.Lexer Model.Parser Model.Printer.
From Verif Require Model.Grammar Gen.Grammar.

(* ---------------------------------------------------------------------- *)
(* the grammar the parser model was written against is the grammar in the repository *)
Lemma grammar_pinned : Verif.Gen.Grammar.grammar = Verif.Model.Grammar.grammar.
Proof. vm_compute. reflexivity. Qed.

(* ---------------------------------------------------------------------- *)
(* unfolding equations of the fuelled functions *)

Lemma p_expression_S m ts : p_expression (S m) ts =
  match p_disjunction m ts with Some x => Some x | None => p_conjunction m ts end.
Proof. reflexivity. Qed.
Lemma p_disjunction_S m ts : p_disjunction (S m) ts =
  match p_conjunction m ts with Some (a, r) => or_loop m a [] r | None => None end.
Proof. reflexivity. Qed.
Lemma or_loop_S m a acc ts : or_loop (S m) a acc ts =
  match ts with
  | TKw KOR :: r => match p_conjunction m r with
                    | Some (b, r') => or_loop m a (b :: acc) r'
                    | None => Some (mk_bool EOr a acc, ts) end
  | _ => Some (mk_bool EOr a acc, ts)
  end.
Proof. reflexivity. Qed.
Lemma p_conjunction_S m ts : p_conjunction (S m) ts =
  match p_inversion m ts with Some (a, r) => and_loop m a [] r | None => None end.
Proof. reflexivity. Qed.
Lemma and_loop_S m a acc ts : and_loop (S m) a acc ts =
  match ts with
  | TKw KAND :: r => match p_inversion m r with
                     | Some (b, r') => and_loop m a (b :: acc) r'
                     | None => Some (mk_bool EAnd a acc, ts) end
  | _ => Some (mk_bool EAnd a acc, ts)
  end.
Proof. reflexivity. Qed.
Lemma p_inversion_S m ts : p_inversion (S m) ts =
  match ts with
  | TKw KNOT :: r => match p_inversion m r with Some (a, r') => Some (ENot a, r') | None => None end
  | _ => p_comparison m ts
  end.
Proof. reflexivity. Qed.
Lemma p_comparison_S m ts : p_comparison (S m) ts =
  match p_sum m ts with
  | None => None
  | Some (a, r0) =>
    match cmp_of_tokens r0 with
    | Some (op, r1) =>
      match p_sum m r1 with
      | Some (b, r2) => Some (ECmp op a b, r2)
      | None => Some (a, r0)
      end
    | None =>
      match r0 with
      | TKw KIS :: TId n :: r1 => if str_eqb n w_null then Some (EIsNull a, r1) else Some (a, r0)
      | TKw KIS :: TKw KNOT :: TId n :: r1 => if str_eqb n w_null then Some (EIsNotNull a, r1) else Some (a, r0)
      | TId n :: r1 =>
        if str_eqb n w_between then
          match p_sum m r1 with
          | Some (lo, TKw KAND :: r2) =>
            match p_sum m r2 with
            | Some (hi, r3) => Some (EBetween a lo hi, r3)
            | None => Some (a, r0)
            end
          | _ => Some (a, r0)
          end
        else Some (a, r0)
      | _ => Some (a, r0)
      end
    end
  end.
Proof. reflexivity. Qed.
Lemma p_sum_S m ts : p_sum (S m) ts =
  match p_term m ts with Some (a, r) => sum_loop m a r | None => None end.
Proof. reflexivity. Qed.
Lemma sum_loop_S m a ts : sum_loop (S m) a ts =
  match ts with
  | TPlus :: r => match p_term m r with
                  | Some (b, r') => sum_loop m (EArith Add a b) r' | None => Some (a, ts) end
  | TMinus :: r => match p_term m r with
                   | Some (b, r') => sum_loop m (EArith Sub a b) r' | None => Some (a, ts) end
  | _ => Some (a, ts)
  end.
Proof. reflexivity. Qed.
Lemma p_term_S m ts : p_term (S m) ts =
  match p_factor m ts with Some (a, r) => term_loop m a r | None => None end.
Proof. reflexivity. Qed.
Lemma term_loop_S m a ts : term_loop (S m) a ts =
  match ts with
  | TStar :: r => match p_factor m r with
                  | Some (b, r') => term_loop m (EArith Mul a b) r' | None => Some (a, ts) end
  | TSlash :: r => match p_factor m r with
                   | Some (b, r') => term_loop m (EArith Div a b) r' | None => Some (a, ts) end
  | TPercent :: r => match p_factor m r with
                     | Some (b, r') => term_loop m (EArith Mod a b) r' | None => Some (a, ts) end
  | TPlaceS :: r => match p_factor m (TId w_s :: r) with
                    | Some (b, r') => term_loop m (EArith Mod a b) r' | None => Some (a, ts) end
  | _ => Some (a, ts)
  end.
Proof. reflexivity. Qed.
Lemma p_factor_S m ts : p_factor (S m) ts =
  match p_unary m ts with
  | Some x => Some x
  | None => match ts with
            | TLP :: r => match p_expression m r with
                          | Some (e, TRP :: r') => Some (e, r')
                          | _ => None end
            | _ => None
            end
  end.
Proof. reflexivity. Qed.
Lemma p_unary_S m ts : p_unary (S m) ts =
  match ts with
  | TPlus :: r => p_atom m r
  | TMinus :: r => match p_factor m r with Some (a, r') => Some (ENeg a, r') | None => None end
  | _ => p_primary m ts
  end.
Proof. reflexivity. Qed.
Lemma p_primary_S m ts : p_primary (S m) ts =
  match p_atom m ts with Some (a, r) => Some (primary_loop a r) | None => None end.
Proof. reflexivity. Qed.
Lemma p_atom_S m ts : p_atom (S m) ts =
  match ts with
  | TKw KSELECT :: _ => p_select m ts
  | TId n :: r =>
    let plain := if str_eqb n w_null then Some (EConst LNull, r) else Some (EColumn n, r) in
    match r with
    | TLP :: r1 =>
      match p_args m r1 with
      | None => None
      | Some (args, TRP :: r2) => Some (EFunc n args, r2)
      | Some _ => match r1 with
                  | TStar :: TRP :: r2 => Some (EFuncStar n, r2)
                  | _ => plain
                  end
      end
    | _ => plain
    end
  | TLP :: r =>
    match r with
    | t :: TComma :: _ =>
      match lit_of_tok t with
      | Some _ => match p_lits [] r with
                  | (ls, TRP :: r') => Some (EList ls, r')
                  | _ => None
                  end
      | None => None
      end
    | _ => None
    end
  | TPlaceS :: r => Some (EPlace [], r)
  | TPlaceN n :: r => Some (EPlace n, r)
  | t :: r => match lit_of_tok t with Some l => Some (EConst l, r) | None => None end
  | [] => None
  end.
Proof. reflexivity. Qed.
Lemma p_args_S m ts : p_args (S m) ts =
  match p_expression m ts with
  | Some (e, r) => args_loop m [e] r
  | None => args_loop m [] ts
  end.
Proof. reflexivity. Qed.
Lemma args_loop_S m acc ts : args_loop (S m) acc ts =
  match ts with
  | TComma :: r => match p_expression m r with
                   | Some (e, r') => args_loop m (e :: acc) r'
                   | None => None end
  | _ => Some (rev acc, ts)
  end.
Proof. reflexivity. Qed.
Lemma p_select_S m ts : p_select (S m) ts = select_body (p_expression m) (p_select m) m ts.
Proof. reflexivity. Qed.

(* ---------------------------------------------------------------------- *)

Definition Ok {T : Type} (off : nat) (p : nat -> list token -> option (T * list token))
           (ts : list token) (r : T * list token) : Prop :=
  forall m, 40 * length ts + off <= m -> p m ts = Some r.

Lemma length_cons {A} (x : A) l : length (x :: l) = S (length l).
Proof. reflexivity. Qed.
Ltac len := repeat (rewrite app_length || rewrite length_cons); try lia.

(* what the token after an expression would be absorbed by:
   8 postfix, 6 * / %, 5 + -, 4 comparison, 2 AND, 1 OR, 0 nothing *)
Definition cont_lvl (t : token) : nat :=
  match t with
  | TDot | TLB => 8
  | TStar | TSlash | TPercent | TPlaceS => 6
  | TPlus | TMinus => 5
  | TLt | TLe | TGt | TGe | TEq | TNe | TTilde | TNotTilde | TKw KIN | TKw KNOT | TKw KIS => 4
  | TId s => if str_eqb s w_between then 4 else 0
  | TKw KAND => 2
  | TKw KOR => 1
  | _ => 0
  end.
Definition follow (L : nat) (rest : list token) : Prop :=
  match rest with [] => True | t :: _ => cont_lvl t < L end.

Lemma follow_mono L L' rest : follow L rest -> L <= L' -> follow L' rest.
Proof. destruct rest; simpl; auto. intros; lia. Qed.

(* loops stop *)
Lemma primary_loop_stop a rest : follow 8 rest -> primary_loop a rest = (a, rest).
Proof.
  destruct rest as [|t r]; [reflexivity|]. simpl. intros H.
  destruct t; simpl in H; try lia; try reflexivity.
Qed.
Lemma term_loop_stop a rest : follow 6 rest -> Ok 1 (fun m => term_loop m a) rest (a, rest).
Proof.
  intros H m Hm. destruct m; [lia|]. rewrite term_loop_S.
  destruct rest as [|t r]; [reflexivity|]. destruct t; simpl in H; try lia; reflexivity.
Qed.
Lemma sum_loop_stop a rest : follow 5 rest -> Ok 1 (fun m => sum_loop m a) rest (a, rest).
Proof.
  intros H m Hm. destruct m; [lia|]. rewrite sum_loop_S.
  destruct rest as [|t r]; [reflexivity|]. destruct t; simpl in H; try lia; reflexivity.
Qed.
Lemma and_loop_stop a acc rest : follow 2 rest ->
  Ok 1 (fun m => and_loop m a acc) rest (mk_bool EAnd a acc, rest).
Proof.
  intros H m Hm. destruct m; [lia|]. rewrite and_loop_S.
  destruct rest as [|t r]; [reflexivity|]. destruct t; try reflexivity.
  destruct k; simpl in H; try lia; reflexivity.
Qed.
Lemma or_loop_stop a acc rest : follow 1 rest ->
  Ok 1 (fun m => or_loop m a acc) rest (mk_bool EOr a acc, rest).
Proof.
  intros H m Hm. destruct m; [lia|]. rewrite or_loop_S.
  destruct rest as [|t r]; [reflexivity|]. destruct t; try reflexivity.
  destruct k; simpl in H; try lia; reflexivity.
Qed.

(* no comparison continues at a token of continuation level < 4 *)
Lemma cmp_stop a rest : follow 4 rest ->
  match cmp_of_tokens rest with
  | Some (op, r1) => None
  | None =>
    match rest with
    | TKw KIS :: TId n :: r1 => None
    | TKw KIS :: TKw KNOT :: TId n :: r1 => None
    | TId n :: r1 => if str_eqb n w_between then None else Some (a, rest)
    | _ => Some (a, rest)
    end
  end = Some (a, rest).
Proof.
  destruct rest as [|t r]; [reflexivity|]. simpl. intros H.
  destruct t; simpl in H; try lia; try reflexivity.
  - destruct k; simpl in H; try lia; reflexivity.
  - destruct (str_eqb s w_between); [lia|reflexivity].
Qed.

(* ---------------------------------------------------------------------- *)
(* the chain: a fact at one grammar level gives the fact one level down *)

Definition hd_not_pm (ts : list token) : Prop :=
  match ts with TPlus :: _ | TMinus :: _ => False | _ => True end.
Definition hd_not_NOT (ts : list token) : Prop :=
  match ts with TKw KNOT :: _ => False | _ => True end.
(* `( literal ,` would start a list constant *)
Definition look (ts : list token) : bool :=
  match ts with
  | t :: TComma :: _ => match lit_of_tok t with Some _ => true | None => false end
  | _ => false
  end.

Lemma L_A_P ts a r0 : Ok 2 p_atom ts (a, r0) -> Ok 3 p_primary ts (primary_loop a r0).
Proof. intros H m Hm. destruct m; [lia|]. rewrite p_primary_S, H by lia. reflexivity. Qed.

Lemma L_P_F ts r : Ok 3 p_primary ts r -> hd_not_pm ts -> Ok 5 p_factor ts r.
Proof.
  intros H Hh m Hm. destruct m; [lia|]. rewrite p_factor_S.
  destruct m; [lia|]. rewrite p_unary_S.
  assert (E : p_primary m ts = Some r) by (apply H; lia).
  destruct ts as [|t ts']; [rewrite E; reflexivity|].
  destruct t; simpl in Hh; try contradiction; rewrite E; reflexivity.
Qed.

Lemma L_F_T ts a r0 r : Ok 5 p_factor ts (a, r0) -> length r0 <= length ts ->
  Ok 1 (fun m => term_loop m a) r0 r -> Ok 7 p_term ts r.
Proof. intros H Hl H2 m Hm. destruct m; [lia|]. rewrite p_term_S, H by lia. apply H2. lia. Qed.

Lemma L_T_S ts a r0 r : Ok 7 p_term ts (a, r0) -> length r0 <= length ts ->
  Ok 1 (fun m => sum_loop m a) r0 r -> Ok 9 p_sum ts r.
Proof. intros H Hl H2 m Hm. destruct m; [lia|]. rewrite p_sum_S, H by lia. apply H2. lia. Qed.

Lemma L_S_C ts a r0 : Ok 9 p_sum ts (a, r0) -> follow 4 r0 -> Ok 10 p_comparison ts (a, r0).
Proof.
  intros H Hf m Hm. destruct m; [lia|]. rewrite p_comparison_S, H by lia.
  pose proof (cmp_stop a r0 Hf) as C.
  destruct (cmp_of_tokens r0) as [[op r1]|]; [discriminate|].
  destruct r0 as [|t r]; [reflexivity|].
  destruct t; try exact C; try reflexivity.
  - destruct k; try exact C; try reflexivity.
    destruct r as [|t2 r2]; [reflexivity|]. destruct t2; try discriminate; try reflexivity.
    destruct k; try discriminate; try reflexivity.
    destruct r2 as [|t3 r3]; [reflexivity|]. destruct t3; try discriminate; reflexivity.
  - destruct (str_eqb s w_between); [discriminate|reflexivity].
Qed.

Lemma L_C_I ts r : Ok 10 p_comparison ts r -> hd_not_NOT ts -> Ok 11 p_inversion ts r.
Proof.
  intros H Hh m Hm. destruct m; [lia|]. rewrite p_inversion_S.
  assert (E : p_comparison m ts = Some r) by (apply H; lia).
  destruct ts as [|t ts']; [exact E|].
  destruct t; try exact E. destruct k; simpl in Hh; try contradiction; exact E.
Qed.

Lemma L_I_J ts a r0 : Ok 11 p_inversion ts (a, r0) -> length r0 <= length ts -> follow 2 r0 ->
  Ok 12 p_conjunction ts (a, r0).
Proof.
  intros H Hl Hf m Hm. destruct m; [lia|]. rewrite p_conjunction_S, H by lia.
  apply (and_loop_stop a [] r0 Hf). lia.
Qed.

Lemma L_J_D ts a r0 : Ok 12 p_conjunction ts (a, r0) -> length r0 <= length ts -> follow 1 r0 ->
  Ok 13 p_disjunction ts (a, r0).
Proof.
  intros H Hl Hf m Hm. destruct m; [lia|]. rewrite p_disjunction_S, H by lia.
  apply (or_loop_stop a [] r0 Hf). lia.
Qed.

Lemma L_D_E ts r : Ok 13 p_disjunction ts r -> Ok 14 p_expression ts r.
Proof. intros H m Hm. destruct m; [lia|]. rewrite p_expression_S, H by lia. reflexivity. Qed.

(* `( ts` is not a list constant, hence not a primary: the factor is the parenthesised expression *)
Lemma p_unary_paren_None ts : look ts = false -> forall m, p_unary m (TLP :: ts) = None.
Proof.
  intros Hl m. destruct m; [reflexivity|]. rewrite p_unary_S.
  destruct m; [reflexivity|]. rewrite p_primary_S.
  destruct m; [reflexivity|]. rewrite p_atom_S.
  destruct ts as [|t [|t2 r]]; try reflexivity.
  destruct t2; try reflexivity. simpl in Hl.
  destruct (lit_of_tok t); [discriminate|reflexivity].
Qed.

Lemma L_E_Par ts a rest : Ok 14 p_expression ts (a, TRP :: rest) -> look ts = false ->
  Ok 5 p_factor (TLP :: ts) (a, rest).
Proof.
  intros H Hl m Hm. destruct m; [lia|]. rewrite p_factor_S, (p_unary_paren_None ts Hl).
  rewrite H; [reflexivity|]. rewrite length_cons in Hm. lia.
Qed.
