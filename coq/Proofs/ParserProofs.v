(* C06 proofs: parsing the print of a well-formed tree gives the tree back.

   Fuel never appears in the final statements.  [Ok off p ts r] says that the
   fuelled function [p] returns [Some r] on [ts] for every fuel
   >= 40 * length ts + off; the offsets are the heights of the functions in
   the "calls without consuming a token" graph, so each call of a callee at
   fuel m-1 on a suffix of the input is again above its threshold (a consumed
   token buys 40 units).  The lemmas about left-recursive levels are in
   continuation-passing form (DESIGN.md A.2): "parsing body e ++ rest at level
   L equals entering the loop of level L with accumulator e at rest". *)
From Coq Require Import ZArith NArith List Bool Arith Lia.
Import ListNotations.
From Verif Require Import Model.Ast Model.Lexer Model.Parser Model.Printer.
From Verif Require Model.Grammar Gen.Grammar.

(* ---------------------------------------------------------------------- *)
(* the grammar the parser model was written against is the grammar in the repository *)
Lemma grammar_pinned : Verif.Gen.Grammar.grammar = Verif.Model.Grammar.grammar.
Proof. vm_compute. reflexivity. Qed.

(* ---------------------------------------------------------------------- *)
(* unfolding equations of the fuelled functions *)

Lemma p_expression_S m ts : p_expression (S m) ts =
  match p_disjunction m ts with Some x => Some x | None => p_conjunction m ts end.
Proof. reflexivity. Qed.
Lemma p_disjunction_S m ts : p_disjunction (S m) ts =
  match p_conjunction m ts with Some (a, r) => or_loop m a [] r | None => None end.
Proof. reflexivity. Qed.
Lemma or_loop_S m a acc ts : or_loop (S m) a acc ts =
  match ts with
  | TKw KOR :: r => match p_conjunction m r with
                    | Some (b, r') => or_loop m a (b :: acc) r'
                    | None => Some (mk_bool EOr a acc, ts) end
  | _ => Some (mk_bool EOr a acc, ts)
  end.
Proof. reflexivity. Qed.
Lemma p_conjunction_S m ts : p_conjunction (S m) ts =
  match p_inversion m ts with Some (a, r) => and_loop m a [] r | None => None end.
Proof. reflexivity. Qed.
Lemma and_loop_S m a acc ts : and_loop (S m) a acc ts =
  match ts with
  | TKw KAND :: r => match p_inversion m r with
                     | Some (b, r') => and_loop m a (b :: acc) r'
                     | None => Some (mk_bool EAnd a acc, ts) end
  | _ => Some (mk_bool EAnd a acc, ts)
  end.
Proof. reflexivity. Qed.
Lemma p_inversion_S m ts : p_inversion (S m) ts =
  match ts with
  | TKw KNOT :: r => match p_inversion m r with Some (a, r') => Some (ENot a, r') | None => None end
  | _ => p_comparison m ts
  end.
Proof. reflexivity. Qed.
Lemma p_comparison_S m ts : p_comparison (S m) ts =
  match p_sum m ts with
  | None => None
  | Some (a, r0) =>
    match cmp_of_tokens r0 with
    | Some (op, r1) =>
      match p_sum m r1 with
      | Some (b, r2) => Some (ECmp op a b, r2)
      | None => Some (a, r0)
      end
    | None =>
      match r0 with
      | TKw KIS :: TId n :: r1 => if str_eqb n w_null then Some (EIsNull a, r1) else Some (a, r0)
      | TKw KIS :: TKw KNOT :: TId n :: r1 => if str_eqb n w_null then Some (EIsNotNull a, r1) else Some (a, r0)
      | TId n :: r1 =>
        if str_eqb n w_between then
          match p_sum m r1 with
          | Some (lo, TKw KAND :: r2) =>
            match p_sum m r2 with
            | Some (hi, r3) => Some (EBetween a lo hi, r3)
            | None => Some (a, r0)
            end
          | _ => Some (a, r0)
          end
        else Some (a, r0)
      | _ => Some (a, r0)
      end
    end
  end.
Proof. reflexivity. Qed.
Lemma p_sum_S m ts : p_sum (S m) ts =
  match p_term m ts with Some (a, r) => sum_loop m a r | None => None end.
Proof. reflexivity. Qed.
Lemma sum_loop_S m a ts : sum_loop (S m) a ts =
  match ts with
  | TPlus :: r => match p_term m r with
                  | Some (b, r') => sum_loop m (EArith Add a b) r' | None => Some (a, ts) end
  | TMinus :: r => match p_term m r with
                   | Some (b, r') => sum_loop m (EArith Sub a b) r' | None => Some (a, ts) end
  | _ => Some (a, ts)
  end.
Proof. reflexivity. Qed.
Lemma p_term_S m ts : p_term (S m) ts =
  match p_factor m ts with Some (a, r) => term_loop m a r | None => None end.
Proof. reflexivity. Qed.
Lemma term_loop_S m a ts : term_loop (S m) a ts =
  match ts with
  | TStar :: r => match p_factor m r with
                  | Some (b, r') => term_loop m (EArith Mul a b) r' | None => Some (a, ts) end
  | TSlash :: r => match p_factor m r with
                   | Some (b, r') => term_loop m (EArith Div a b) r' | None => Some (a, ts) end
  | TPercent :: r => match p_factor m r with
                     | Some (b, r') => term_loop m (EArith Mod a b) r' | None => Some (a, ts) end
  | TPlaceS :: r => match p_factor m (TId w_s :: r) with
                    | Some (b, r') => term_loop m (EArith Mod a b) r' | None => Some (a, ts) end
  | _ => Some (a, ts)
  end.
Proof. reflexivity. Qed.
Lemma p_factor_S m ts : p_factor (S m) ts =
  match p_unary m ts with
  | Some x => Some x
  | None => match ts with
            | TLP :: r => match p_expression m r with
                          | Some (e, TRP :: r') => Some (e, r')
                          | _ => None end
            | _ => None
            end
  end.
Proof. reflexivity. Qed.
Lemma p_unary_S m ts : p_unary (S m) ts =
  match ts with
  | TPlus :: r => p_atom m r
  | TMinus :: r => match p_factor m r with Some (a, r') => Some (ENeg a, r') | None => None end
  | _ => p_primary m ts
  end.
Proof. reflexivity. Qed.
Lemma p_primary_S m ts : p_primary (S m) ts =
  match p_atom m ts with Some (a, r) => Some (primary_loop a r) | None => None end.
Proof. reflexivity. Qed.
Lemma p_atom_S m ts : p_atom (S m) ts =
  match ts with
  | TKw KSELECT :: _ => p_select m ts
  | TId n :: r =>
    let plain := if str_eqb n w_null then Some (EConst LNull, r) else Some (EColumn n, r) in
    match r with
    | TLP :: r1 =>
      match p_args m r1 with
      | None => None
      | Some (args, TRP :: r2) => Some (EFunc n args, r2)
      | Some _ => match r1 with
                  | TStar :: TRP :: r2 => Some (EFuncStar n, r2)
                  | _ => plain
                  end
      end
    | _ => plain
    end
  | TLP :: r =>
    match r with
    | t :: TComma :: _ =>
      match lit_of_tok t with
      | Some _ => match p_lits [] r with
                  | (ls, TRP :: r') => Some (EList ls, r')
                  | _ => None
                  end
      | None => None
      end
    | _ => None
    end
  | TPlaceS :: r => Some (EPlace [], r)
  | TPlaceN n :: r => Some (EPlace n, r)
  | t :: r => match lit_of_tok t with Some l => Some (EConst l, r) | None => None end
  | [] => None
  end.
Proof. reflexivity. Qed.
Lemma p_args_S m ts : p_args (S m) ts =
  match p_expression m ts with
  | Some (e, r) => args_loop m [e] r
  | None => args_loop m [] ts
  end.
Proof. reflexivity. Qed.
Lemma args_loop_S m acc ts : args_loop (S m) acc ts =
  match ts with
  | TComma :: r => match p_expression m r with
                   | Some (e, r') => args_loop m (e :: acc) r'
                   | None => None end
  | _ => Some (rev acc, ts)
  end.
Proof. reflexivity. Qed.
Lemma p_select_S m ts : p_select (S m) ts = select_body (p_expression m) (p_select m) m ts.
Proof. reflexivity. Qed.

(* ---------------------------------------------------------------------- *)

Definition Ok {T : Type} (off : nat) (p : nat -> list token -> option (T * list token))
           (ts : list token) (r : T * list token) : Prop :=
  forall m, 40 * length ts + off <= m -> p m ts = Some r.

Lemma length_cons {A} (x : A) l : length (x :: l) = S (length l).
Proof. reflexivity. Qed.
Ltac len := repeat (rewrite app_length in * || rewrite length_cons in * ); simpl length in *; try lia.

(* what the token after an expression would be absorbed by:
   8 postfix, 6 * / %, 5 + -, 4 comparison, 2 AND, 1 OR, 0 nothing *)
Definition cont_lvl (t : token) : nat :=
  match t with
  | TDot | TLB => 8
  | TStar | TSlash | TPercent | TPlaceS => 6
  | TPlus | TMinus => 5
  | TLt | TLe | TGt | TGe | TEq | TNe | TTilde | TNotTilde | TKw KIN | TKw KNOT | TKw KIS => 4
  | TId s => if str_eqb s w_between then 4 else 0
  | TKw KAND => 2
  | TKw KOR => 1
  | _ => 0
  end.
Definition follow (L : nat) (rest : list token) : Prop :=
  match rest with [] => True | t :: _ => cont_lvl t < L end.

Lemma follow_mono L L' rest : follow L rest -> L <= L' -> follow L' rest.
Proof. destruct rest; simpl; auto. intros; lia. Qed.

(* loops stop *)
Lemma primary_loop_stop a rest : follow 8 rest -> primary_loop a rest = (a, rest).
Proof.
  destruct rest as [|t r]; [reflexivity|]. simpl. intros H.
  destruct t; simpl in H; try lia; try reflexivity.
Qed.
Lemma term_loop_stop a rest : follow 6 rest -> Ok 1 (fun m => term_loop m a) rest (a, rest).
Proof.
  intros H m Hm. destruct m; [lia|]. rewrite term_loop_S.
  destruct rest as [|t r]; [reflexivity|]. destruct t; simpl in H; try lia; reflexivity.
Qed.
Lemma sum_loop_stop a rest : follow 5 rest -> Ok 1 (fun m => sum_loop m a) rest (a, rest).
Proof.
  intros H m Hm. destruct m; [lia|]. rewrite sum_loop_S.
  destruct rest as [|t r]; [reflexivity|]. destruct t; simpl in H; try lia; reflexivity.
Qed.
Lemma and_loop_stop a acc rest : follow 2 rest ->
  Ok 1 (fun m => and_loop m a acc) rest (mk_bool EAnd a acc, rest).
Proof.
  intros H m Hm. destruct m; [lia|]. rewrite and_loop_S.
  destruct rest as [|t r]; [reflexivity|]. destruct t; try reflexivity.
  destruct k; simpl in H; try lia; reflexivity.
Qed.
Lemma or_loop_stop a acc rest : follow 1 rest ->
  Ok 1 (fun m => or_loop m a acc) rest (mk_bool EOr a acc, rest).
Proof.
  intros H m Hm. destruct m; [lia|]. rewrite or_loop_S.
  destruct rest as [|t r]; [reflexivity|]. destruct t; try reflexivity.
  destruct k; simpl in H; try lia; reflexivity.
Qed.

(* ---------------------------------------------------------------------- *)
(* the chain: a fact at one grammar level gives the fact one level down *)

Definition hd_not_pm (ts : list token) : Prop :=
  match ts with TPlus :: _ | TMinus :: _ => False | _ => True end.
Definition hd_not_NOT (ts : list token) : Prop :=
  match ts with TKw KNOT :: _ => False | _ => True end.
(* `( literal ,` would start a list constant *)
Definition look (ts : list token) : bool :=
  match ts with
  | t :: TComma :: _ => match lit_of_tok t with Some _ => true | None => false end
  | _ => false
  end.

Lemma L_A_P ts a r0 : Ok 2 p_atom ts (a, r0) -> Ok 3 p_primary ts (primary_loop a r0).
Proof. intros H m Hm. destruct m; [lia|]. rewrite p_primary_S, H by lia. reflexivity. Qed.

Lemma L_P_F ts r : Ok 3 p_primary ts r -> hd_not_pm ts -> Ok 5 p_factor ts r.
Proof.
  intros H Hh m Hm. destruct m; [lia|]. rewrite p_factor_S.
  destruct m; [lia|]. rewrite p_unary_S.
  assert (E : p_primary m ts = Some r) by (apply H; lia).
  destruct ts as [|t ts']; [rewrite E; reflexivity|].
  destruct t; simpl in Hh; try contradiction; rewrite E; reflexivity.
Qed.

Lemma L_F_T ts a r0 r : Ok 5 p_factor ts (a, r0) -> length r0 <= length ts ->
  Ok 1 (fun m => term_loop m a) r0 r -> Ok 7 p_term ts r.
Proof. intros H Hl H2 m Hm. destruct m; [lia|]. rewrite p_term_S, H by lia. apply H2. lia. Qed.

Lemma L_T_S ts a r0 r : Ok 7 p_term ts (a, r0) -> length r0 <= length ts ->
  Ok 1 (fun m => sum_loop m a) r0 r -> Ok 9 p_sum ts r.
Proof. intros H Hl H2 m Hm. destruct m; [lia|]. rewrite p_sum_S, H by lia. apply H2. lia. Qed.

Lemma L_S_C ts a r0 : Ok 9 p_sum ts (a, r0) -> follow 4 r0 -> Ok 10 p_comparison ts (a, r0).
Proof.
  intros H Hf m Hm. destruct m; [lia|]. rewrite p_comparison_S, H by lia.
  destruct r0 as [|t r]; [reflexivity|].
  destruct t; simpl in Hf; try lia; try reflexivity.
  - destruct k; simpl in Hf; try lia; reflexivity.
  - destruct (str_eqb s w_between) eqn:E; [lia|reflexivity].
Qed.

Lemma L_C_I ts r : Ok 10 p_comparison ts r -> hd_not_NOT ts -> Ok 11 p_inversion ts r.
Proof.
  intros H Hh m Hm. destruct m; [lia|]. rewrite p_inversion_S.
  assert (E : p_comparison m ts = Some r) by (apply H; lia).
  destruct ts as [|t ts']; [exact E|].
  destruct t; try exact E. destruct k; simpl in Hh; try contradiction; exact E.
Qed.

Lemma L_I_J ts a r0 : Ok 11 p_inversion ts (a, r0) -> length r0 <= length ts -> follow 2 r0 ->
  Ok 12 p_conjunction ts (a, r0).
Proof.
  intros H Hl Hf m Hm. destruct m; [lia|]. rewrite p_conjunction_S, H by lia.
  apply (and_loop_stop a [] r0 Hf). lia.
Qed.

Lemma L_J_D ts a r0 : Ok 12 p_conjunction ts (a, r0) -> length r0 <= length ts -> follow 1 r0 ->
  Ok 13 p_disjunction ts (a, r0).
Proof.
  intros H Hl Hf m Hm. destruct m; [lia|]. rewrite p_disjunction_S, H by lia.
  apply (or_loop_stop a [] r0 Hf). lia.
Qed.

Lemma L_D_E ts r : Ok 13 p_disjunction ts r -> Ok 14 p_expression ts r.
Proof. intros H m Hm. destruct m; [lia|]. rewrite p_expression_S, H by lia. reflexivity. Qed.

(* `( ts` is not a list constant, hence not a primary: the factor is the parenthesised expression *)
Lemma p_unary_paren_None ts : look ts = false -> forall m, p_unary m (TLP :: ts) = None.
Proof.
  intros Hl m. destruct m; [reflexivity|]. rewrite p_unary_S.
  destruct m; [reflexivity|]. rewrite p_primary_S.
  destruct m; [reflexivity|]. rewrite p_atom_S.
  destruct ts as [|t [|t2 r]]; try reflexivity.
  destruct t2; try reflexivity. simpl in Hl.
  destruct (lit_of_tok t); [discriminate|reflexivity].
Qed.

Lemma L_E_Par ts a rest : Ok 14 p_expression ts (a, TRP :: rest) -> look ts = false ->
  Ok 5 p_factor (TLP :: ts) (a, rest).
Proof.
  intros H Hl m Hm. destruct m; [lia|]. rewrite p_factor_S, (p_unary_paren_None ts Hl).
  rewrite H; [reflexivity|]. rewrite length_cons in Hm. lia.
Qed.

(* ---------------------------------------------------------------------- *)
(* the facts proved about a print [b] of a tree whose erasure is [e], one per grammar level *)

Definition cont_lvl' (t : token) : nat := match t with TLP => 9 | _ => cont_lvl t end.
Definition follow' (L : nat) (rest : list token) : Prop :=
  match rest with [] => True | t :: _ => cont_lvl' t < L end.
Lemma follow'_mono L L' rest : follow' L rest -> L <= L' -> follow' L' rest.
Proof. destruct rest; simpl; auto. intros; lia. Qed.
Lemma follow'_follow L rest : follow' L rest -> follow L rest.
Proof. destruct rest as [|t r]; simpl; auto. destruct t; simpl; auto; lia. Qed.

Definition nocomma (rest : list token) : Prop := match rest with TComma :: _ => False | _ => True end.
Definition hdb (k : nat) (b : list token) : Prop :=
  match b with
  | [] => False
  | t :: _ => (4 <= k -> t <> TKw KNOT) /\ (8 <= k -> t <> TPlus /\ t <> TMinus)
  end.
Definition nolook (b : list token) : Prop := forall rest, nocomma rest -> look (b ++ rest) = false.

Lemma hdb_mono k k' b : hdb k b -> k' <= k -> hdb k' b.
Proof. destruct b; simpl; auto. intros [H1 H2] Hk. split; intros; [apply H1|apply H2]; lia. Qed.
Lemma hdb_pm b rest : hdb 8 b -> hd_not_pm (b ++ rest).
Proof.
  destruct b as [|t b]; simpl; [tauto|]. intros [_ H]. destruct (H (le_n 8)) as [H1 H2].
  destruct t; auto; congruence.
Qed.
Lemma hdb_NOT b rest : hdb 4 b -> hd_not_NOT (b ++ rest).
Proof.
  destruct b as [|t b]; simpl; [tauto|]. intros [H _]. specialize (H (le_n 4)).
  destruct t; auto. destruct k; auto; congruence.
Qed.

Section Facts.
Variable b : list token.
Variable e : expr.

Definition F9 := forall rest, follow' 9 rest -> Ok 2 p_atom (b ++ rest) (e, rest).
Definition F8 := forall rest, follow' 9 rest -> Ok 3 p_primary (b ++ rest) (primary_loop e rest).
Definition F7 := forall rest, follow' 8 rest -> Ok 5 p_factor (b ++ rest) (e, rest).
Definition F6 := forall rest r, follow' 8 rest -> Ok 1 (fun m => term_loop m e) rest r -> Ok 7 p_term (b ++ rest) r.
Definition F5 := forall rest r, follow' 6 rest -> Ok 1 (fun m => sum_loop m e) rest r -> Ok 9 p_sum (b ++ rest) r.
Definition F4 := forall rest, follow' 4 rest -> Ok 10 p_comparison (b ++ rest) (e, rest).
Definition F3 := forall rest, follow' 4 rest -> Ok 11 p_inversion (b ++ rest) (e, rest).
Definition F2 := forall rest, follow' 2 rest -> Ok 12 p_conjunction (b ++ rest) (e, rest).
Definition F1 := forall rest, follow' 1 rest -> Ok 14 p_expression (b ++ rest) (e, rest).
Definition FP := forall rest, Ok 5 p_factor (TLP :: b ++ TRP :: rest) (e, rest).

Definition Fall (k : nat) : Prop :=
  (9 <= k -> F9) /\ (8 <= k -> F8) /\ (7 <= k -> F7) /\ (6 <= k -> F6) /\ (5 <= k -> F5) /\
  (4 <= k -> F4) /\ (3 <= k -> F3) /\ (2 <= k -> F2) /\ (1 <= k -> F1) /\ FP.

Lemma c98 : F9 -> F8.
Proof. intros H rest Hf. apply L_A_P, H, Hf. Qed.
Lemma c87 : hdb 8 b -> F8 -> F7.
Proof.
  intros Hh H rest Hf. apply L_P_F; [|apply hdb_pm, Hh].
  rewrite <- (primary_loop_stop e rest) by (apply follow'_follow, Hf).
  apply H. eapply follow'_mono; [exact Hf|lia].
Qed.
Lemma c76 : F7 -> F6.
Proof. intros H rest r Hf Hl. eapply L_F_T; [apply H, Hf| len |exact Hl]. Qed.
Lemma c65 : F6 -> F5.
Proof.
  intros H rest r Hf Hl.
  assert (T : Ok 7 p_term (b ++ rest) (e, rest)).
  { apply H; [eapply follow'_mono; [exact Hf|lia]|]. apply term_loop_stop, follow'_follow, Hf. }
  eapply L_T_S; [exact T|len|exact Hl].
Qed.
Lemma c54 : F5 -> F4.
Proof.
  intros H rest Hf. apply L_S_C; [|apply follow'_follow, Hf].
  apply H; [eapply follow'_mono; [exact Hf|lia]|].
  apply sum_loop_stop, follow'_follow. eapply follow'_mono; [exact Hf|lia].
Qed.
Lemma c43 : hdb 4 b -> F4 -> F3.
Proof. intros Hh H rest Hf. apply L_C_I; [apply H, Hf|apply hdb_NOT, Hh]. Qed.
Lemma c32 : F3 -> F2.
Proof.
  intros H rest Hf.
  assert (T : Ok 11 p_inversion (b ++ rest) (e, rest)) by (apply H; eapply follow'_mono; [exact Hf|lia]).
  apply L_I_J; [exact T|len|apply follow'_follow, Hf].
Qed.
Lemma c21 : F2 -> F1.
Proof.
  intros H rest Hf.
  assert (T : Ok 12 p_conjunction (b ++ rest) (e, rest)) by (apply H; eapply follow'_mono; [exact Hf|lia]).
  apply L_D_E, L_J_D; [exact T|len|apply follow'_follow, Hf].
Qed.
Lemma c1P : nolook b -> F1 -> FP.
Proof.
  intros Hn H rest. apply L_E_Par; [apply H; simpl; lia|apply Hn; exact I].
Qed.

Lemma Fall_build k : 1 <= k <= 9 -> hdb k b -> nolook b ->
  (k = 9 -> F9) -> (k = 8 -> F8) -> (k = 7 -> F7) -> (k = 6 -> F6) -> (k = 5 -> F5) ->
  (k = 4 -> F4) -> (k = 3 -> F3) -> (k = 2 -> F2) -> (k = 1 -> F1) -> Fall k.
Proof.
  intros Hk Hh Hn X9 X8 X7 X6 X5 X4 X3 X2 X1.
  assert (H9 : 9 <= k -> F9) by (intros; apply X9; lia).
  assert (H8 : 8 <= k -> F8).
  { intros. destruct (Nat.eq_dec k 8); [auto|apply c98, H9; lia]. }
  assert (H7 : 7 <= k -> F7).
  { intros. destruct (Nat.eq_dec k 7); [auto|]. apply c87; [eapply hdb_mono; [exact Hh|lia]|apply H8; lia]. }
  assert (H6 : 6 <= k -> F6).
  { intros. destruct (Nat.eq_dec k 6); [auto|apply c76, H7; lia]. }
  assert (H5 : 5 <= k -> F5).
  { intros. destruct (Nat.eq_dec k 5); [auto|apply c65, H6; lia]. }
  assert (H4 : 4 <= k -> F4).
  { intros. destruct (Nat.eq_dec k 4); [auto|apply c54, H5; lia]. }
  assert (H3 : 3 <= k -> F3).
  { intros. destruct (Nat.eq_dec k 3); [auto|]. apply c43; [eapply hdb_mono; [exact Hh|lia]|apply H4; lia]. }
  assert (H2 : 2 <= k -> F2).
  { intros. destruct (Nat.eq_dec k 2); [auto|apply c32, H3; lia]. }
  assert (H1 : 1 <= k -> F1).
  { intros. destruct (Nat.eq_dec k 1); [auto|apply c21, H2; lia]. }
  repeat split; auto. apply c1P; [exact Hn|apply H1; lia].
Qed.

Lemma Fall_mono k k' : Fall k -> k' <= k -> Fall k'.
Proof.
  intros (H9 & H8 & H7 & H6 & H5 & H4 & H3 & H2 & H1 & HP) Hk.
  repeat split; auto; intros; [apply H9|apply H8|apply H7|apply H6|apply H5|apply H4|apply H3|apply H2|apply H1]; lia.
Qed.
End Facts.

Lemma paren_app b rest : paren b ++ rest = TLP :: b ++ TRP :: rest.
Proof. unfold paren. simpl. rewrite <- app_assoc. reflexivity. Qed.

Lemma nolook_paren b : nolook (paren b).
Proof.
  intros rest _. rewrite paren_app. simpl. destruct (b ++ TRP :: rest) as [|t r]; [reflexivity|].
  destruct t; reflexivity.
Qed.

(* what is known of a sub-tree *)
Definition Good (c : expr) : Prop :=
  Fall (body c) (erase c) (lvl c) /\ hdb (lvl c) (body c) /\ nolook (body c).

(* the print of a child at a position that needs binding strength L <= 7 *)
Lemma pp_Fall L x : 1 <= L <= 7 -> 1 <= lvl x -> Good x ->
  Fall (pp L x) (erase x) L /\ hdb L (pp L x) /\ nolook (pp L x).
Proof.
  intros HL Hx (HF & Hh & Hn). unfold pp. destruct (lvl x <? L) eqn:E.
  - assert (F : Fall (paren (body x)) (erase x) 7).
    { apply Fall_build; try lia.
      - simpl. split; intros; [discriminate|split; discriminate].
      - apply nolook_paren.
      - intros _ rest _. rewrite paren_app. apply HF. }
    split; [eapply Fall_mono; [exact F|lia]|]. split; [|apply nolook_paren].
    simpl. split; intros; [discriminate|split; discriminate].
  - apply Nat.ltb_ge in E. split; [eapply Fall_mono; [exact HF|exact E]|].
    split; [eapply hdb_mono; [exact Hh|exact E]|exact Hn].
Qed.

(* ---------------------------------------------------------------------- *)
(* helper facts *)

Lemma str_eqb_refl s : str_eqb s s = true.
Proof. induction s; simpl; [reflexivity|]. rewrite Z.eqb_refl. exact IHs. Qed.

Lemma lit_of_lit_tok l : lit_of_tok (lit_tok l) = Some l.
Proof. destruct l as [| [] | | | |]; reflexivity. Qed.

Lemma lit_tok_not_comma l : lit_tok l <> TComma.
Proof. destruct l as [| [] | | | |]; discriminate. Qed.

Lemma p_lits_lit acc l r : p_lits acc (lit_tok l :: r) =
  match r with TComma :: r' => p_lits (l :: acc) r' | _ => (rev (l :: acc), r) end.
Proof.
  change (p_lits acc (lit_tok l :: r)) with
    (match lit_of_tok (lit_tok l) with
     | Some l0 => match r with TComma :: r' => p_lits (l0 :: acc) r' | _ => (rev (l0 :: acc), r) end
     | None => match lit_tok l with TComma => p_lits acc r | _ => (rev acc, lit_tok l :: r) end
     end).
  rewrite lit_of_lit_tok. reflexivity.
Qed.

Lemma p_lits_tail ls : ls <> [] -> forall acc rest,
  p_lits acc (lits_tail ls ++ TRP :: rest) = (rev acc ++ ls, TRP :: rest).
Proof.
  induction ls as [|l ls IH]; [congruence|]. intros _ acc rest.
  destruct ls as [|l2 ls].
  - change (lits_tail [l] ++ TRP :: rest) with (lit_tok l :: TRP :: rest).
    rewrite p_lits_lit. reflexivity.
  - change (lits_tail (l :: l2 :: ls) ++ TRP :: rest)
      with (lit_tok l :: TComma :: (lits_tail (l2 :: ls) ++ TRP :: rest)).
    rewrite p_lits_lit, IH by discriminate. simpl. rewrite <- app_assoc. reflexivity.
Qed.

Lemma p_lits_toks ls : ls <> [] -> forall rest,
  p_lits [] (lits_toks ls ++ TRP :: rest) = (ls, TRP :: rest).
Proof.
  intros Hn rest. destruct ls as [|l [|l2 ls]]; [congruence| |].
  - change (lits_toks [l] ++ TRP :: rest) with (lit_tok l :: TComma :: TRP :: rest).
    rewrite p_lits_lit. reflexivity.
  - change (lits_toks (l :: l2 :: ls) ++ TRP :: rest)
      with (lit_tok l :: TComma :: (lits_tail (l2 :: ls) ++ TRP :: rest)).
    rewrite p_lits_lit, p_lits_tail by discriminate. reflexivity.
Qed.

Lemma cmp_of_cmp_toks op r : cmp_of_tokens (cmp_toks op ++ r) = Some (op, r).
Proof. destruct op; reflexivity. Qed.

(* tokens no expression starts with *)
Definition dead (t : token) : bool :=
  match t with TRP | TStar | TComma | TRB => true | _ => false end.
Lemma atom_dead t r : dead t = true -> forall m, p_atom m (t :: r) = None.
Proof. intros H m. destruct m; [reflexivity|]. rewrite p_atom_S. destruct t; try discriminate; reflexivity. Qed.
Lemma primary_dead t r : dead t = true -> forall m, p_primary m (t :: r) = None.
Proof. intros H m. destruct m; [reflexivity|]. rewrite p_primary_S, atom_dead by exact H. reflexivity. Qed.
Lemma unary_dead t r : dead t = true -> forall m, p_unary m (t :: r) = None.
Proof.
  intros H m. destruct m; [reflexivity|]. rewrite p_unary_S.
  destruct t; try discriminate; apply primary_dead; reflexivity.
Qed.
Lemma factor_dead t r : dead t = true -> forall m, p_factor m (t :: r) = None.
Proof.
  intros H m. destruct m; [reflexivity|]. rewrite p_factor_S, unary_dead by exact H.
  destruct t; try discriminate; reflexivity.
Qed.
Lemma term_dead t r : dead t = true -> forall m, p_term m (t :: r) = None.
Proof. intros H m. destruct m; [reflexivity|]. rewrite p_term_S, factor_dead by exact H. reflexivity. Qed.
Lemma sum_dead t r : dead t = true -> forall m, p_sum m (t :: r) = None.
Proof. intros H m. destruct m; [reflexivity|]. rewrite p_sum_S, term_dead by exact H. reflexivity. Qed.
Lemma cmp_dead t r : dead t = true -> forall m, p_comparison m (t :: r) = None.
Proof. intros H m. destruct m; [reflexivity|]. rewrite p_comparison_S, sum_dead by exact H. reflexivity. Qed.
Lemma inv_dead t r : dead t = true -> forall m, p_inversion m (t :: r) = None.
Proof.
  intros H m. destruct m; [reflexivity|]. rewrite p_inversion_S.
  destruct t; try discriminate; apply cmp_dead; reflexivity.
Qed.
Lemma conj_dead t r : dead t = true -> forall m, p_conjunction m (t :: r) = None.
Proof. intros H m. destruct m; [reflexivity|]. rewrite p_conjunction_S, inv_dead by exact H. reflexivity. Qed.
Lemma disj_dead t r : dead t = true -> forall m, p_disjunction m (t :: r) = None.
Proof. intros H m. destruct m; [reflexivity|]. rewrite p_disjunction_S, conj_dead by exact H. reflexivity. Qed.
Lemma expr_dead t r : dead t = true -> forall m, p_expression m (t :: r) = None.
Proof.
  intros H m. destruct m; [reflexivity|]. rewrite p_expression_S, disj_dead, conj_dead by exact H. reflexivity.
Qed.

Lemma In_lsize {A} (f : A -> nat) x l : List.In x l -> f x <= lsize f l.
Proof.
  induction l as [|y l IH]; simpl; [tauto|]. intros [->|H]; [lia|]. specialize (IH H). lia.
Qed.

(* function arguments after the first *)
Lemma args_tail : forall l acc rest,
  (forall x, List.In x l -> F1 (pp 1 x) (erase x)) ->
  Ok 1 (fun m => args_loop m acc)
     (concat (map (fun x => TComma :: pp 1 x) l) ++ TRP :: rest)
     (rev acc ++ map erase l, TRP :: rest).
Proof.
  induction l as [|x l IH]; intros acc rest HF m Hm.
  - destruct m; [lia|]. cbn [map concat app]. rewrite args_loop_S, app_nil_r. reflexivity.
  - destruct m; [lia|]. cbn [map concat app] in *. rewrite <- app_assoc. rewrite args_loop_S.
    rewrite length_cons, !app_length in Hm.
    rewrite (HF x (or_introl eq_refl)).
    + rewrite IH; [|intros; apply HF; right; assumption|len].
      simpl. rewrite <- app_assoc. reflexivity.
    + destruct l; simpl; lia.
    + len.
Qed.

(* AND / OR operands after the first *)
Lemma and_tail : forall l a acc rest,
  (forall x, List.In x l -> F3 (pp 3 x) (erase x)) -> follow' 2 rest ->
  Ok 1 (fun m => and_loop m a acc)
     (concat (map (fun x => TKw KAND :: pp 3 x) l) ++ rest)
     (mk_bool EAnd a (rev (map erase l) ++ acc), rest).
Proof.
  induction l as [|x l IH]; intros a acc rest HF Hf m Hm.
  - cbn [map concat app rev]. apply and_loop_stop; [apply follow'_follow, Hf|exact Hm].
  - destruct m; [lia|]. cbn [map concat app] in *. rewrite <- app_assoc. rewrite and_loop_S.
    rewrite length_cons, !app_length in Hm.
    rewrite (HF x (or_introl eq_refl)).
    + rewrite IH; [|intros; apply HF; right; assumption|exact Hf|len].
      simpl. rewrite <- app_assoc. reflexivity.
    + destruct l; simpl; [eapply follow'_mono; [exact Hf|lia]|lia].
    + len.
Qed.

Lemma or_tail : forall l a acc rest,
  (forall x, List.In x l -> F2 (pp 2 x) (erase x)) -> follow' 1 rest ->
  Ok 1 (fun m => or_loop m a acc)
     (concat (map (fun x => TKw KOR :: pp 2 x) l) ++ rest)
     (mk_bool EOr a (rev (map erase l) ++ acc), rest).
Proof.
  induction l as [|x l IH]; intros a acc rest HF Hf m Hm.
  - cbn [map concat app rev]. apply or_loop_stop; [apply follow'_follow, Hf|exact Hm].
  - destruct m; [lia|]. cbn [map concat app] in *. rewrite <- app_assoc. rewrite or_loop_S.
    rewrite length_cons, !app_length in Hm.
    rewrite (HF x (or_introl eq_refl)).
    + rewrite IH; [|intros; apply HF; right; assumption|exact Hf|len].
      simpl. rewrite <- app_assoc. reflexivity.
    + destruct l; simpl; [eapply follow'_mono; [exact Hf|lia]|lia].
    + len.
Qed.

Lemma mk_bool_rev C a l : l <> [] -> mk_bool C a (rev l ++ []) = C (a :: l).
Proof.
  intros Hl. rewrite app_nil_r. unfold mk_bool.
  destruct (rev l) eqn:E.
  - apply (f_equal (@rev _)) in E. rewrite rev_involutive in E. simpl in E. congruence.
  - rewrite <- E, rev_involutive. reflexivity.
Qed.

(* ---------------------------------------------------------------------- *)
(* the main induction (expressions without sub-selects first) *)

Fixpoint nosel (e : expr) : bool :=
  match e with
  | ESelect _ _ _ _ _ _ _ _ => false
  | EConst _ | EList _ | EColumn _ | EFuncStar _ | EPlace _ => true
  | EFunc _ args => forallb nosel args
  | EAttr a _ | ESubscript a _ | ENeg a | EIsNull a | EIsNotNull a | ENot a | EParen a | EUPlus a => nosel a
  | EArith _ a b | ECmp _ a b => nosel a && nosel b
  | EBetween a b c => nosel a && nosel b && nosel c
  | EAnd l | EOr l => forallb nosel l
  end.

Lemma nosel_lvl c : nosel c = true -> 1 <= lvl c.
Proof. destruct c; simpl; try discriminate; try lia. destruct op; lia. Qed.

Lemma hdb_app k b r : hdb k b -> hdb k (b ++ r).
Proof. destruct b; simpl; tauto. Qed.
Lemma nolook_app b r : nolook b -> (forall rest, nocomma (r ++ rest)) -> nolook (b ++ r).
Proof. intros H Hr rest _. rewrite <- app_assoc. apply H, Hr. Qed.
Lemma nolook_single t : nolook [t].
Proof.
  intros rest H. simpl. destruct rest as [|t2 r]; [reflexivity|].
  destruct t2; try reflexivity. contradiction.
Qed.

Ltac wrong_levels := try (let Hk := fresh "Hk" in intro Hk; discriminate Hk).
Ltac ok_start := let m := fresh "m" in let Hm := fresh "Hm" in
  intros m Hm; destruct m as [|m]; [exfalso; revert Hm; len|].

Lemma Fall_F9 b e k : Fall b e k -> 9 <= k -> F9 b e. Proof. intros H; apply H. Qed.
Lemma Fall_F8 b e k : Fall b e k -> 8 <= k -> F8 b e. Proof. intros H; apply H. Qed.
Lemma Fall_F7 b e k : Fall b e k -> 7 <= k -> F7 b e. Proof. intros H; apply H. Qed.
Lemma Fall_F6 b e k : Fall b e k -> 6 <= k -> F6 b e. Proof. intros H; apply H. Qed.
Lemma Fall_F5 b e k : Fall b e k -> 5 <= k -> F5 b e. Proof. intros H; apply H. Qed.
Lemma Fall_F4 b e k : Fall b e k -> 4 <= k -> F4 b e. Proof. intros H; apply H. Qed.
Lemma Fall_F3 b e k : Fall b e k -> 3 <= k -> F3 b e. Proof. intros H; apply H. Qed.
Lemma Fall_F2 b e k : Fall b e k -> 2 <= k -> F2 b e. Proof. intros H; apply H. Qed.
Lemma Fall_F1 b e k : Fall b e k -> 1 <= k -> F1 b e. Proof. intros H; apply H. Qed.
Lemma Fall_FP b e k : Fall b e k -> FP b e. Proof. intros H; apply H. Qed.

Definition args_toks (args : list expr) : list token :=
  match args with
  | [] => []
  | a :: r => pp 1 a ++ concat (map (fun x => TComma :: pp 1 x) r)
  end.

Lemma args_ok args rest : (forall x, List.In x args -> F1 (pp 1 x) (erase x)) ->
  Ok 15 p_args (args_toks args ++ TRP :: rest) (map erase args, TRP :: rest).
Proof.
  intros HF. destruct args as [|a l]; ok_start; rewrite p_args_S.
  - cbn [args_toks app]. rewrite expr_dead by reflexivity.
    destruct m; [lia|]. reflexivity.
  - cbn [args_toks]. rewrite <- app_assoc.
    rewrite (HF a (or_introl eq_refl)).
    + rewrite (args_tail l [erase a] rest); [reflexivity| |cbn [args_toks] in *; len].
      intros x Hx. apply HF. right. exact Hx.
    + destruct l; simpl; lia.
    + cbn [args_toks] in *; len.
Qed.

Lemma args_star r : forall m, 2 <= m -> p_args m (TStar :: r) = Some ([], TStar :: r).
Proof.
  intros m Hm. destruct m; [lia|]. rewrite p_args_S, expr_dead by reflexivity.
  destruct m; [lia|]. reflexivity.
Qed.

Lemma main : forall n c, esize c <= n -> wf c = true -> nosel c = true -> Good c.
Proof.
  induction n as [|n IH]; intros c Hs Hwf Hns.
  { destruct c; simpl in Hs; lia. }
  destruct c; cbn [wf nosel esize] in Hs, Hwf, Hns; try discriminate Hns.
  - (* EConst *)
    assert (Hh : hdb 9 [lit_tok l]).
    { simpl. split; intros; [|split]; destruct l as [| [] | | | |]; discriminate. }
    split; [|split; [exact Hh|apply nolook_single]].
    apply Fall_build; [cbn [lvl]; lia|exact Hh|apply nolook_single|..]; cbn [lvl]; wrong_levels; intros _.
    intros rest Hf. ok_start. cbn [body app]. rewrite p_atom_S.
    destruct l as [| [] | | | |]; try reflexivity.
    (* NULL: an identifier, must not be followed by `(` *)
    cbn [lit_tok]. destruct rest as [|t r]; [reflexivity|].
    destruct t; simpl in Hf; try lia; reflexivity.
  - (* EList *)
    assert (Hne : ls <> []) by (destruct ls; [discriminate|discriminate]).
    assert (Hh : hdb 9 (body (EList ls))) by (simpl; split; intros; [|split]; discriminate).
    assert (Hn : nolook (body (EList ls))).
    { intros rest _. cbn [body app]. destruct ls as [|l [|l2 ls]]; [congruence| |];
        simpl; destruct l as [| [] | | | |]; reflexivity. }
    split; [|split; assumption].
    apply Fall_build; [cbn [lvl]; lia|exact Hh|exact Hn|..]; cbn [lvl]; wrong_levels; intros _.
    intros rest Hf. ok_start. cbn [body erase]. rewrite p_atom_S.
    change ((TLP :: lits_toks ls ++ [TRP]) ++ rest) with (TLP :: (lits_toks ls ++ [TRP]) ++ rest).
    rewrite <- app_assoc. cbn [app].
    pose proof (p_lits_toks ls Hne rest) as PL.
    destruct ls as [|l [|l2 ls]]; [congruence| |].
    + change (lits_toks [l] ++ TRP :: rest) with (lit_tok l :: TComma :: TRP :: rest) in *.
      cbv iota. rewrite lit_of_lit_tok, PL. reflexivity.
    + change (lits_toks (l :: l2 :: ls) ++ TRP :: rest)
        with (lit_tok l :: TComma :: (lits_tail (l2 :: ls) ++ TRP :: rest)) in *.
      cbv iota. rewrite lit_of_lit_tok, PL. reflexivity.
  - (* EColumn *)
    assert (Hh : hdb 9 [TId name]) by (simpl; split; intros; [|split]; discriminate).
    split; [|split; [exact Hh|apply nolook_single]].
    apply Fall_build; [cbn [lvl]; lia|exact Hh|apply nolook_single|..]; cbn [lvl]; wrong_levels; intros _.
    intros rest Hf. ok_start. cbn [body app erase]. rewrite p_atom_S.
    apply negb_true_iff in Hwf. rewrite Hwf.
    destruct rest as [|t r]; [reflexivity|].
    destruct t; simpl in Hf; try lia; reflexivity.
  - (* EFunc *)
    assert (Hh : hdb 9 (body (EFunc name args))) by (simpl; split; intros; [|split]; discriminate).
    assert (Hn : nolook (body (EFunc name args))) by (intros rest _; reflexivity).
    split; [|split; assumption].
    apply Fall_build; [cbn [lvl]; lia|exact Hh|exact Hn|..]; cbn [lvl]; wrong_levels; intros _.
    assert (HF : forall x, List.In x args -> F1 (pp 1 x) (erase x)).
    { intros x Hx. assert (Gx : Good x).
      { apply IH; [pose proof (In_lsize esize x args Hx); lia| |].
        - rewrite forallb_forall in Hwf. apply Hwf, Hx.
        - rewrite forallb_forall in Hns. apply Hns, Hx. }
      assert (Lx : 1 <= lvl x) by (apply nosel_lvl; rewrite forallb_forall in Hns; apply Hns, Hx).
      destruct (pp_Fall 1 x ltac:(lia) Lx Gx) as (Fx & _ & _). apply (Fall_F1 _ _ _ Fx). lia. }
    intros rest Hf. ok_start.
    change (body (EFunc name args)) with (TId name :: TLP :: args_toks args ++ [TRP]) in *.
    cbn [app erase] in *. rewrite <- app_assoc in *. cbn [app] in *. rewrite p_atom_S. cbv iota zeta.
    rewrite (args_ok args rest HF) by len. reflexivity.
  - (* EFuncStar *)
    assert (Hh : hdb 9 (body (EFuncStar name))) by (simpl; split; intros; [|split]; discriminate).
    assert (Hn : nolook (body (EFuncStar name))) by (intros rest _; reflexivity).
    split; [|split; assumption].
    apply Fall_build; [cbn [lvl]; lia|exact Hh|exact Hn|..]; cbn [lvl]; wrong_levels; intros _.
    intros rest Hf. ok_start. cbn [body app erase] in *. rewrite p_atom_S. cbv iota zeta.
    rewrite args_star by len. reflexivity.
  - (* EPlace *)
    assert (Hh : hdb 9 (body (EPlace name))) by (destruct name; simpl; split; intros; [|split| |split]; discriminate).
    assert (Hn : nolook (body (EPlace name))) by (destruct name; apply nolook_single).
    split; [|split; assumption].
    apply Fall_build; [cbn [lvl]; lia|exact Hh|exact Hn|..]; cbn [lvl]; wrong_levels; intros _.
    intros rest Hf. ok_start. rewrite p_atom_S. destruct name; reflexivity.
  - (* EAttr *)
    apply andb_prop in Hwf. destruct Hwf as [Hl Hwf]. apply Nat.leb_le in Hl.
    assert (Ga : Good c) by (apply IH; [lia|assumption|assumption]).
    destruct Ga as (Fa & Hha & Hna).
    unfold Good. change (body (EAttr c name)) with (body c ++ [TDot; TId name]).
    assert (Hh : hdb 8 (body c ++ [TDot; TId name])) by (apply hdb_app; eapply hdb_mono; [exact Hha|exact Hl]).
    assert (Hn : nolook (body c ++ [TDot; TId name])) by (apply nolook_app; [exact Hna|intros; exact I]).
    split; [|split; assumption].
    apply Fall_build; [cbn [lvl]; lia|exact Hh|exact Hn|..]; cbn [lvl]; wrong_levels; intros _.
    intros rest Hf. rewrite <- app_assoc. cbn [app erase].
    change (primary_loop (EAttr (erase c) name) rest) with (primary_loop (erase c) (TDot :: TId name :: rest)).
    apply (Fall_F8 _ _ _ Fa Hl). simpl. lia.
  - (* ESubscript *)
    apply andb_prop in Hwf. destruct Hwf as [Hl Hwf]. apply Nat.leb_le in Hl.
    assert (Ga : Good c) by (apply IH; [lia|assumption|assumption]).
    destruct Ga as (Fa & Hha & Hna).
    unfold Good. change (body (ESubscript c key)) with (body c ++ [TLB; str_tok key; TRB]).
    assert (Hh : hdb 8 (body c ++ [TLB; str_tok key; TRB])) by (apply hdb_app; eapply hdb_mono; [exact Hha|exact Hl]).
    assert (Hn : nolook (body c ++ [TLB; str_tok key; TRB])) by (apply nolook_app; [exact Hna|intros; exact I]).
    split; [|split; assumption].
    apply Fall_build; [cbn [lvl]; lia|exact Hh|exact Hn|..]; cbn [lvl]; wrong_levels; intros _.
    intros rest Hf. rewrite <- app_assoc. cbn [app erase].
    change (primary_loop (ESubscript (erase c) key) rest) with (primary_loop (erase c) (TLB :: str_tok key :: TRB :: rest)).
    apply (Fall_F8 _ _ _ Fa Hl). simpl. lia.
  - (* ENeg *)
    assert (Ga : Good c) by (apply IH; [lia|assumption|assumption]).
    destruct (pp_Fall 7 c ltac:(lia) (nosel_lvl c Hns) Ga) as (Fa & _ & _).
    unfold Good. change (body (ENeg c)) with (TMinus :: pp 7 c).
    assert (Hh : hdb 7 (TMinus :: pp 7 c)) by (simpl; split; intros; [discriminate|lia]).
    assert (Hn : nolook (TMinus :: pp 7 c)).
    { intros rest _. cbn [app]. destruct (pp 7 c ++ rest) as [|t r]; [reflexivity|]. destruct t; reflexivity. }
    split; [|split; assumption].
    apply Fall_build; [cbn [lvl]; lia|exact Hh|exact Hn|..]; cbn [lvl]; wrong_levels; intros _.
    intros rest Hf. ok_start. cbn [app erase] in *. rewrite p_factor_S.
    destruct m; [exfalso; len|]. rewrite p_unary_S. cbv iota.
    rewrite (Fall_F7 _ _ _ Fa (le_n 7) rest Hf) by len. reflexivity.
  - (* EArith *)
    apply andb_prop in Hwf. destruct Hwf as [Hw1 Hw2]. apply andb_prop in Hns. destruct Hns as [Hn1 Hn2].
    assert (G1 : Good c1) by (apply IH; [lia|assumption|assumption]).
    assert (G2 : Good c2) by (apply IH; [lia|assumption|assumption]).
    destruct (pp_Fall 5 c1 ltac:(lia) (nosel_lvl c1 Hn1) G1) as (Fa & Hha & Hna).
    destruct (pp_Fall 6 c2 ltac:(lia) (nosel_lvl c2 Hn2) G2) as (Fb & _ & _).
    destruct (pp_Fall 6 c1 ltac:(lia) (nosel_lvl c1 Hn1) G1) as (Fa' & Hha' & Hna').
    destruct (pp_Fall 7 c2 ltac:(lia) (nosel_lvl c2 Hn2) G2) as (Fb' & _ & _).
    destruct op.
      { unfold Good. change (body (EArith Add c1 c2)) with (pp 5 c1 ++ TPlus :: pp 6 c2).
        assert (Hh : hdb 5 (pp 5 c1 ++ TPlus :: pp 6 c2)) by (apply hdb_app; exact Hha).
        assert (Hn : nolook (pp 5 c1 ++ TPlus :: pp 6 c2)) by (apply nolook_app; [exact Hna|intros; exact I]).
        split; [|split; assumption].
        apply Fall_build; [cbn [lvl]; lia|exact Hh|exact Hn|..]; cbn [lvl]; wrong_levels; intros _.
        intros rest r Hf Hl. rewrite <- app_assoc. cbn [app erase].
        apply (Fall_F5 _ _ _ Fa (le_n 5)); [simpl; lia|].
        ok_start. rewrite sum_loop_S. cbv iota.
        rewrite (Fall_F6 _ _ _ Fb (le_n 6) rest (erase c2, rest)); [apply Hl; len| | |len].
        - eapply follow'_mono; [exact Hf|lia].
        - apply term_loop_stop, follow'_follow, Hf. }
      { unfold Good. change (body (EArith Sub c1 c2)) with (pp 5 c1 ++ TMinus :: pp 6 c2).
        assert (Hh : hdb 5 (pp 5 c1 ++ TMinus :: pp 6 c2)) by (apply hdb_app; exact Hha).
        assert (Hn : nolook (pp 5 c1 ++ TMinus :: pp 6 c2)) by (apply nolook_app; [exact Hna|intros; exact I]).
        split; [|split; assumption].
        apply Fall_build; [cbn [lvl]; lia|exact Hh|exact Hn|..]; cbn [lvl]; wrong_levels; intros _.
        intros rest r Hf Hl. rewrite <- app_assoc. cbn [app erase].
        apply (Fall_F5 _ _ _ Fa (le_n 5)); [simpl; lia|].
        ok_start. rewrite sum_loop_S. cbv iota.
        rewrite (Fall_F6 _ _ _ Fb (le_n 6) rest (erase c2, rest)); [apply Hl; len| | |len].
        - eapply follow'_mono; [exact Hf|lia].
        - apply term_loop_stop, follow'_follow, Hf. }
      { unfold Good. change (body (EArith Mul c1 c2)) with (pp 6 c1 ++ TStar :: pp 7 c2).
        assert (Hh : hdb 6 (pp 6 c1 ++ TStar :: pp 7 c2)) by (apply hdb_app; exact Hha').
        assert (Hn : nolook (pp 6 c1 ++ TStar :: pp 7 c2)) by (apply nolook_app; [exact Hna'|intros; exact I]).
        split; [|split; assumption].
        apply Fall_build; [cbn [lvl]; lia|exact Hh|exact Hn|..]; cbn [lvl]; wrong_levels; intros _.
        intros rest r Hf Hl. rewrite <- app_assoc. cbn [app erase].
        apply (Fall_F6 _ _ _ Fa' (le_n 6)); [simpl; lia|].
        ok_start. rewrite term_loop_S. cbv iota.
        rewrite (Fall_F7 _ _ _ Fb' (le_n 7) rest Hf); [apply Hl; len|len]. }
      { unfold Good. change (body (EArith Div c1 c2)) with (pp 6 c1 ++ TSlash :: pp 7 c2).
        assert (Hh : hdb 6 (pp 6 c1 ++ TSlash :: pp 7 c2)) by (apply hdb_app; exact Hha').
        assert (Hn : nolook (pp 6 c1 ++ TSlash :: pp 7 c2)) by (apply nolook_app; [exact Hna'|intros; exact I]).
        split; [|split; assumption].
        apply Fall_build; [cbn [lvl]; lia|exact Hh|exact Hn|..]; cbn [lvl]; wrong_levels; intros _.
        intros rest r Hf Hl. rewrite <- app_assoc. cbn [app erase].
        apply (Fall_F6 _ _ _ Fa' (le_n 6)); [simpl; lia|].
        ok_start. rewrite term_loop_S. cbv iota.
        rewrite (Fall_F7 _ _ _ Fb' (le_n 7) rest Hf); [apply Hl; len|len]. }
      { unfold Good. change (body (EArith Mod c1 c2)) with (pp 6 c1 ++ TPercent :: pp 7 c2).
        assert (Hh : hdb 6 (pp 6 c1 ++ TPercent :: pp 7 c2)) by (apply hdb_app; exact Hha').
        assert (Hn : nolook (pp 6 c1 ++ TPercent :: pp 7 c2)) by (apply nolook_app; [exact Hna'|intros; exact I]).
        split; [|split; assumption].
        apply Fall_build; [cbn [lvl]; lia|exact Hh|exact Hn|..]; cbn [lvl]; wrong_levels; intros _.
        intros rest r Hf Hl. rewrite <- app_assoc. cbn [app erase].
        apply (Fall_F6 _ _ _ Fa' (le_n 6)); [simpl; lia|].
        ok_start. rewrite term_loop_S. cbv iota.
        rewrite (Fall_F7 _ _ _ Fb' (le_n 7) rest Hf); [apply Hl; len|len]. }
  - (* ECmp *)
    apply andb_prop in Hwf. destruct Hwf as [Hw1 Hw2]. apply andb_prop in Hns. destruct Hns as [Hn1 Hn2].
    assert (G1 : Good c1) by (apply IH; [lia|assumption|assumption]).
    assert (G2 : Good c2) by (apply IH; [lia|assumption|assumption]).
    destruct (pp_Fall 5 c1 ltac:(lia) (nosel_lvl c1 Hn1) G1) as (Fa & Hha & Hna).
    destruct (pp_Fall 5 c2 ltac:(lia) (nosel_lvl c2 Hn2) G2) as (Fb & _ & _).
    unfold Good. change (body (ECmp op c1 c2)) with (pp 5 c1 ++ cmp_toks op ++ pp 5 c2).
    assert (Hh : hdb 4 (pp 5 c1 ++ cmp_toks op ++ pp 5 c2)) by (apply hdb_app; eapply hdb_mono; [exact Hha|lia]).
    assert (Hn : nolook (pp 5 c1 ++ cmp_toks op ++ pp 5 c2)).
    { apply nolook_app; [exact Hna|]. intros; destruct op; exact I. }
    split; [|split; assumption].
    apply Fall_build; [cbn [lvl]; lia|exact Hh|exact Hn|..]; cbn [lvl]; wrong_levels; intros _.
    intros rest Hf. ok_start. rewrite p_comparison_S. rewrite <- !app_assoc in *. cbn [erase].
    rewrite (Fall_F5 _ _ _ Fa (le_n 5) (cmp_toks op ++ pp 5 c2 ++ rest) (erase c1, cmp_toks op ++ pp 5 c2 ++ rest));
      [| destruct op; simpl; lia | apply sum_loop_stop; destruct op; simpl; lia | len].
    rewrite cmp_of_cmp_toks.
    rewrite (Fall_F5 _ _ _ Fb (le_n 5) rest (erase c2, rest)); [reflexivity| | |len].
    + eapply follow'_mono; [exact Hf|lia].
    + apply sum_loop_stop, follow'_follow. eapply follow'_mono; [exact Hf|lia].
  - (* EIsNull *)
    assert (G1 : Good c) by (apply IH; [lia|assumption|assumption]).
    destruct (pp_Fall 5 c ltac:(lia) (nosel_lvl c Hns) G1) as (Fa & Hha & Hna).
    unfold Good. change (body (EIsNull c)) with (pp 5 c ++ [TKw KIS; TId w_null]).
    assert (Hh : hdb 4 (pp 5 c ++ [TKw KIS; TId w_null])) by (apply hdb_app; eapply hdb_mono; [exact Hha|lia]).
    assert (Hn : nolook (pp 5 c ++ [TKw KIS; TId w_null])) by (apply nolook_app; [exact Hna|intros; exact I]).
    split; [|split; assumption].
    apply Fall_build; [cbn [lvl]; lia|exact Hh|exact Hn|..]; cbn [lvl]; wrong_levels; intros _.
    intros rest Hf. ok_start. rewrite p_comparison_S. rewrite <- !app_assoc in *. cbn [erase app] in *.
    rewrite (Fall_F5 _ _ _ Fa (le_n 5) (TKw KIS :: TId w_null :: rest) (erase c, TKw KIS :: TId w_null :: rest));
      [reflexivity | simpl; lia | apply sum_loop_stop; simpl; lia | len].
  - (* EIsNotNull *)
    assert (G1 : Good c) by (apply IH; [lia|assumption|assumption]).
    destruct (pp_Fall 5 c ltac:(lia) (nosel_lvl c Hns) G1) as (Fa & Hha & Hna).
    unfold Good. change (body (EIsNotNull c)) with (pp 5 c ++ [TKw KIS; TKw KNOT; TId w_null]).
    assert (Hh : hdb 4 (pp 5 c ++ [TKw KIS; TKw KNOT; TId w_null])) by (apply hdb_app; eapply hdb_mono; [exact Hha|lia]).
    assert (Hn : nolook (pp 5 c ++ [TKw KIS; TKw KNOT; TId w_null])) by (apply nolook_app; [exact Hna|intros; exact I]).
    split; [|split; assumption].
    apply Fall_build; [cbn [lvl]; lia|exact Hh|exact Hn|..]; cbn [lvl]; wrong_levels; intros _.
    intros rest Hf. ok_start. rewrite p_comparison_S. rewrite <- !app_assoc in *. cbn [erase app] in *.
    rewrite (Fall_F5 _ _ _ Fa (le_n 5) (TKw KIS :: TKw KNOT :: TId w_null :: rest) (erase c, TKw KIS :: TKw KNOT :: TId w_null :: rest));
      [reflexivity | simpl; lia | apply sum_loop_stop; simpl; lia | len].
  - (* EBetween *)
    apply andb_prop in Hwf. destruct Hwf as [Hwf Hw3]. apply andb_prop in Hwf. destruct Hwf as [Hw1 Hw2].
    apply andb_prop in Hns. destruct Hns as [Hns Hn3]. apply andb_prop in Hns. destruct Hns as [Hn1 Hn2].
    assert (G1 : Good c1) by (apply IH; [lia|assumption|assumption]).
    assert (G2 : Good c2) by (apply IH; [lia|assumption|assumption]).
    assert (G3 : Good c3) by (apply IH; [lia|assumption|assumption]).
    destruct (pp_Fall 5 c1 ltac:(lia) (nosel_lvl c1 Hn1) G1) as (Fa & Hha & Hna).
    destruct (pp_Fall 5 c2 ltac:(lia) (nosel_lvl c2 Hn2) G2) as (Fb & _ & _).
    destruct (pp_Fall 5 c3 ltac:(lia) (nosel_lvl c3 Hn3) G3) as (Fc & _ & _).
    unfold Good. change (body (EBetween c1 c2 c3)) with (pp 5 c1 ++ TId w_between :: pp 5 c2 ++ TKw KAND :: pp 5 c3).
    assert (Hh : hdb 4 (pp 5 c1 ++ TId w_between :: pp 5 c2 ++ TKw KAND :: pp 5 c3))
      by (apply hdb_app; eapply hdb_mono; [exact Hha|lia]).
    assert (Hn : nolook (pp 5 c1 ++ TId w_between :: pp 5 c2 ++ TKw KAND :: pp 5 c3))
      by (apply nolook_app; [exact Hna|intros; exact I]).
    split; [|split; assumption].
    apply Fall_build; [cbn [lvl]; lia|exact Hh|exact Hn|..]; cbn [lvl]; wrong_levels; intros _.
    intros rest Hf. ok_start. rewrite p_comparison_S. rewrite <- !app_assoc in *. cbn [erase app] in *.
    rewrite <- !app_assoc in *. cbn [app] in *.
    rewrite (Fall_F5 _ _ _ Fa (le_n 5) (TId w_between :: pp 5 c2 ++ TKw KAND :: pp 5 c3 ++ rest)
               (erase c1, TId w_between :: pp 5 c2 ++ TKw KAND :: pp 5 c3 ++ rest));
      [| simpl; lia | apply sum_loop_stop; simpl; lia | len].
    change (cmp_of_tokens (TId w_between :: pp 5 c2 ++ TKw KAND :: pp 5 c3 ++ rest)) with (@None (cmp * list token)).
    cbv iota. rewrite str_eqb_refl.
    rewrite (Fall_F5 _ _ _ Fb (le_n 5) (TKw KAND :: pp 5 c3 ++ rest) (erase c2, TKw KAND :: pp 5 c3 ++ rest));
      [| simpl; lia | apply sum_loop_stop; simpl; lia | len].
    rewrite (Fall_F5 _ _ _ Fc (le_n 5) rest (erase c3, rest)); [reflexivity| | |len].
    + eapply follow'_mono; [exact Hf|lia].
    + apply sum_loop_stop, follow'_follow. eapply follow'_mono; [exact Hf|lia].
  - (* ENot *)
    assert (G1 : Good c) by (apply IH; [lia|assumption|assumption]).
    destruct (pp_Fall 3 c ltac:(lia) (nosel_lvl c Hns) G1) as (Fa & _ & _).
    unfold Good. change (body (ENot c)) with (TKw KNOT :: pp 3 c).
    assert (Hh : hdb 3 (TKw KNOT :: pp 3 c)) by (simpl; split; intros; lia).
    assert (Hn : nolook (TKw KNOT :: pp 3 c)).
    { intros rest _. cbn [app]. destruct (pp 3 c ++ rest) as [|t r]; [reflexivity|]. destruct t; reflexivity. }
    split; [|split; assumption].
    apply Fall_build; [cbn [lvl]; lia|exact Hh|exact Hn|..]; cbn [lvl]; wrong_levels; intros _.
    intros rest Hf. ok_start. cbn [app erase] in *. rewrite p_inversion_S. cbv iota.
    rewrite (Fall_F3 _ _ _ Fa (le_n 3) rest Hf) by len. reflexivity.
  - (* EAnd *)
    destruct args as [|a1 l]; [discriminate|].
    apply andb_prop in Hwf. destruct Hwf as [Hlen Hwf]. cbn [forallb] in Hwf, Hns.
    apply andb_prop in Hwf. destruct Hwf as [Hw1 Hwl]. apply andb_prop in Hns. destruct Hns as [Hn1 Hnl].
    assert (Hne : l <> []) by (destruct l; [discriminate|discriminate]).
    cbn [lsize fold_right] in Hs. fold (lsize esize l) in Hs.
    assert (G1 : Good a1) by (apply IH; [lia|assumption|assumption]).
    destruct (pp_Fall 3 a1 ltac:(lia) (nosel_lvl a1 Hn1) G1) as (Fa & Hha & Hna).
    assert (HF : forall x, List.In x l -> F3 (pp 3 x) (erase x)).
    { intros x Hx. assert (Gx : Good x).
      { apply IH; [pose proof (In_lsize esize x l Hx); lia| |].
        - rewrite forallb_forall in Hwl. apply Hwl, Hx.
        - rewrite forallb_forall in Hnl. apply Hnl, Hx. }
      assert (Lx : 1 <= lvl x) by (apply nosel_lvl; rewrite forallb_forall in Hnl; apply Hnl, Hx).
      destruct (pp_Fall 3 x ltac:(lia) Lx Gx) as (Fx & _ & _). apply (Fall_F3 _ _ _ Fx). lia. }
    unfold Good. change (body (EAnd (a1 :: l))) with (pp 3 a1 ++ concat (map (fun x => TKw KAND :: pp 3 x) l)).
    set (tail := concat (map (fun x => TKw KAND :: pp 3 x) l)) in *.
    assert (Ht : forall rest, exists r, tail ++ rest = TKw KAND :: r).
    { intros rest. unfold tail. destruct l as [|x l']; [congruence|]. cbn [map concat app]. eexists. reflexivity. }
    assert (Hh : hdb 2 (pp 3 a1 ++ tail)) by (apply hdb_app; eapply hdb_mono; [exact Hha|lia]).
    assert (Hn : nolook (pp 3 a1 ++ tail)).
    { apply nolook_app; [exact Hna|]. intros rest. destruct (Ht rest) as [r ->]. exact I. }
    split; [|split; assumption].
    apply Fall_build; [cbn [lvl]; lia|exact Hh|exact Hn|..]; cbn [lvl]; wrong_levels; intros _.
    intros rest Hf. ok_start. rewrite p_conjunction_S. rewrite <- !app_assoc in *.
    rewrite (Fall_F3 _ _ _ Fa (le_n 3) (tail ++ rest)); [| destruct (Ht rest) as [r ->]; simpl; lia | len].
    unfold tail. rewrite (and_tail l (erase a1) [] rest HF Hf) by (fold tail; len).
    rewrite mk_bool_rev; [reflexivity|]. destruct l; [congruence|discriminate].
  - (* EOr *)
    destruct args as [|a1 l]; [discriminate|].
    apply andb_prop in Hwf. destruct Hwf as [Hlen Hwf]. cbn [forallb] in Hwf, Hns.
    apply andb_prop in Hwf. destruct Hwf as [Hw1 Hwl]. apply andb_prop in Hns. destruct Hns as [Hn1 Hnl].
    assert (Hne : l <> []) by (destruct l; [discriminate|discriminate]).
    cbn [lsize fold_right] in Hs. fold (lsize esize l) in Hs.
    assert (G1 : Good a1) by (apply IH; [lia|assumption|assumption]).
    destruct (pp_Fall 2 a1 ltac:(lia) (nosel_lvl a1 Hn1) G1) as (Fa & Hha & Hna).
    assert (HF : forall x, List.In x l -> F2 (pp 2 x) (erase x)).
    { intros x Hx. assert (Gx : Good x).
      { apply IH; [pose proof (In_lsize esize x l Hx); lia| |].
        - rewrite forallb_forall in Hwl. apply Hwl, Hx.
        - rewrite forallb_forall in Hnl. apply Hnl, Hx. }
      assert (Lx : 1 <= lvl x) by (apply nosel_lvl; rewrite forallb_forall in Hnl; apply Hnl, Hx).
      destruct (pp_Fall 2 x ltac:(lia) Lx Gx) as (Fx & _ & _). apply (Fall_F2 _ _ _ Fx). lia. }
    unfold Good. change (body (EOr (a1 :: l))) with (pp 2 a1 ++ concat (map (fun x => TKw KOR :: pp 2 x) l)).
    set (tail := concat (map (fun x => TKw KOR :: pp 2 x) l)) in *.
    assert (Ht : forall rest, exists r, tail ++ rest = TKw KOR :: r).
    { intros rest. unfold tail. destruct l as [|x l']; [congruence|]. cbn [map concat app]. eexists. reflexivity. }
    assert (Hh : hdb 1 (pp 2 a1 ++ tail)) by (apply hdb_app; eapply hdb_mono; [exact Hha|lia]).
    assert (Hn : nolook (pp 2 a1 ++ tail)).
    { apply nolook_app; [exact Hna|]. intros rest. destruct (Ht rest) as [r ->]. exact I. }
    split; [|split; assumption].
    apply Fall_build; [cbn [lvl]; lia|exact Hh|exact Hn|..]; cbn [lvl]; wrong_levels; intros _.
    intros rest Hf. apply L_D_E. ok_start. rewrite p_disjunction_S. rewrite <- !app_assoc in *.
    rewrite (Fall_F2 _ _ _ Fa (le_n 2) (tail ++ rest)); [| destruct (Ht rest) as [r ->]; simpl; lia | len].
    unfold tail. rewrite (or_tail l (erase a1) [] rest HF Hf) by (fold tail; len).
    rewrite mk_bool_rev; [reflexivity|]. destruct l; [congruence|discriminate].
  - (* EParen *)
    assert (G1 : Good c) by (apply IH; [lia|assumption|assumption]).
    destruct (pp_Fall 1 c ltac:(lia) (nosel_lvl c Hns) G1) as (Fa & _ & _).
    unfold Good. change (body (EParen c)) with (paren (pp 1 c)).
    assert (Hh : hdb 7 (paren (pp 1 c))) by (simpl; split; intros; [discriminate|lia]).
    split; [|split; [exact Hh|apply nolook_paren]].
    apply Fall_build; [cbn [lvl]; lia|exact Hh|apply nolook_paren|..]; cbn [lvl]; wrong_levels; intros _.
    intros rest Hf. rewrite paren_app. cbn [erase]. apply (Fall_FP _ _ _ Fa).
  - (* EUPlus *)
    apply andb_prop in Hwf. destruct Hwf as [Hwf Hw1]. apply andb_prop in Hwf. destruct Hwf as [Hl _].
    apply Nat.leb_le in Hl.
    assert (G1 : Good c) by (apply IH; [lia|assumption|assumption]).
    destruct G1 as (Fa & _ & _).
    unfold Good. change (body (EUPlus c)) with (TPlus :: body c).
    assert (Hh : hdb 7 (TPlus :: body c)) by (simpl; split; intros; [discriminate|lia]).
    assert (Hn : nolook (TPlus :: body c)).
    { intros rest _. cbn [app]. destruct (body c ++ rest) as [|t r]; [reflexivity|]. destruct t; reflexivity. }
    split; [|split; assumption].
    apply Fall_build; [cbn [lvl]; lia|exact Hh|exact Hn|..]; cbn [lvl]; wrong_levels; intros _.
    intros rest Hf. ok_start. cbn [app erase] in *. rewrite p_factor_S.
    destruct m; [exfalso; len|]. rewrite p_unary_S. cbv iota.
    rewrite (Fall_F9 _ _ _ Fa Hl rest) by (try (eapply follow'_mono; [exact Hf|lia]); len). reflexivity.
Qed.

(* ---------------------------------------------------------------------- *)
(* round trip of expressions (token level) *)

Theorem expr_roundtrip_nosel : forall c, wf c = true -> nosel c = true ->
  parse_expr (body c) = Some (erase c).
Proof.
  intros c Hwf Hns. destruct (main (esize c) c (le_n _) Hwf Hns) as (HF & _ & _).
  pose proof (Fall_F1 _ _ _ HF (nosel_lvl c Hns) [] I) as H.
  unfold parse_expr, fuel_for. rewrite app_nil_r in H. rewrite H; [reflexivity|lia].
Qed.

Lemma map_id_in {A} (f : A -> A) l : (forall x, List.In x l -> f x = x) -> map f l = l.
Proof.
  induction l as [|y l IH]; intros H; [reflexivity|]. simpl.
  rewrite (H y (or_introl eq_refl)), IH; [reflexivity|]. intros; apply H; right; assumption.
Qed.

Lemma pure_erase_nosel : forall n e, esize e <= n -> pure e = true -> nosel e = true -> erase e = e.
Proof.
  induction n as [|n IH]; intros e Hs Hp Hn.
  { destruct e; simpl in Hs; lia. }
  destruct e; cbn [pure nosel esize erase] in *; try discriminate; try reflexivity;
    repeat match goal with
           | H : _ && _ = true |- _ => apply andb_prop in H; destruct H
           end;
    try (rewrite ?IH by (assumption || lia); reflexivity).
  - f_equal. apply map_id_in. intros x Hx. rewrite forallb_forall in Hp, Hn.
    apply IH; [pose proof (In_lsize esize x args Hx); lia|apply Hp, Hx|apply Hn, Hx].
  - f_equal. apply map_id_in. intros x Hx. rewrite forallb_forall in Hp, Hn.
    apply IH; [pose proof (In_lsize esize x args Hx); lia|apply Hp, Hx|apply Hn, Hx].
  - f_equal. apply map_id_in. intros x Hx. rewrite forallb_forall in Hp, Hn.
    apply IH; [pose proof (In_lsize esize x args Hx); lia|apply Hp, Hx|apply Hn, Hx].
Qed.

Theorem expr_roundtrip_pure_nosel : forall e, wf e = true -> nosel e = true -> pure e = true ->
  parse_expr (body e) = Some e.
Proof.
  intros e Hwf Hns Hp. rewrite expr_roundtrip_nosel by assumption.
  rewrite (pure_erase_nosel (esize e) e (le_n _) Hp Hns). reflexivity.
Qed.

(* two distinct trees never print alike (up to redundant syntax) *)
Theorem print_injective_nosel : forall c1 c2, wf c1 = true -> wf c2 = true ->
  nosel c1 = true -> nosel c2 = true -> body c1 = body c2 -> erase c1 = erase c2.
Proof.
  intros c1 c2 W1 W2 N1 N2 E.
  pose proof (expr_roundtrip_nosel c1 W1 N1) as H1. rewrite E, (expr_roundtrip_nosel c2 W2 N2) in H1.
  congruence.
Qed.
